(* Token accounting, stage 1: leaf lists, types, parameters, expressions. *)
From Coq Require Import List Bool Arith NArith Lia.
From GoSyn Require Import Token Tok Ast Core.
From GoSyn.proofs Require Import Lift AccountBase.
Import ListNotations.

Section Leafs2.
Variables (A G D C E : Type) (OPS : ops A G D C).
Notation pstate := (Core.pstate A G D E).
Notation res := (Core.res A G D E).
Notation nodeT := (node A C).
Notation SpecE := (Spec (A:=A) (G:=G) (D:=D) (E:=E)).

Lemma A_identifier_list_loop : forall fuel (acc : list nodeT),
  SpecE leavesl (leavesl acc) anysh (identifier_list_loop OPS fuel acc).
Proof. aloop identifier_list_loop fuel. Qed.
Local Hint Resolve A_identifier_list_loop : acct.

Lemma A_identifier_list (first : option nodeT) :
  SpecE leavesl (leaveso first) anysh (identifier_list OPS first).
Proof. aprod identifier_list. Qed.

Lemma A_check_field_list (fl : nodeT) trailing :
  SpecE leaves (leaves fl) anysh (check_field_list fl trailing).
Proof. aprod check_field_list. Qed.

Lemma A_check_single_expr (l : list nodeT) :
  SpecE leaves (leavesl l) (fun r => l = [r]) (check_single_expr l).
Proof. aprod check_single_expr. Qed.

Lemma A_check_assign_stmt : forall (l : list nodeT),
  SpecE noleaf [] anysh (check_assign_stmt l).
Proof. induction l; intros ? ? ?; cbn [check_assign_stmt]; hide_nats; isteps; try fin. Qed.

Lemma A_is_type_switch (tg : option nodeT) : SpecE noleaf [] anysh (is_type_switch tg).
Proof. aprod is_type_switch. Qed.

Lemma A_semi_unless_brace site : SpecE noleaf [] anysh (semi_unless_brace OPS site).
Proof. aprod semi_unless_brace. Qed.

Lemma A_finish_field c (names : list nodeT) typ :
  SpecE leaves (leavesl names ++ leaves typ) anysh (finish_field OPS c names typ).
Proof. aprod finish_field. Qed.

End Leafs2.

#[export] Hint Resolve A_identifier_list_loop A_identifier_list A_check_field_list
  A_check_single_expr A_check_assign_stmt A_is_type_switch A_semi_unless_brace A_finish_field : acct.

(* ------------------------------------------------------------------ the table *)

Section Table.
Variables (A G D C E : Type) (OPS : ops A G D C).
Notation pstate := (Core.pstate A G D E).
Notation res := (Core.res A G D E).
Notation parsers := (Core.parsers A G D C E).
Notation nodeT := (node A C).
Notation SpecE := (Spec (A:=A) (G:=G) (D:=D) (E:=E)).

Record GoodA (self : parsers) : Prop := {
  ga_type : SpecE leaves [] nr (k_type self);
  ga_type_or_none : SpecE leaveso [] onr (k_type_or_none self);
  ga_expr : SpecE leaves [] nr (k_expr self);
  ga_unary : SpecE leaves [] nr (k_unary self);
  ga_binary : forall p prec, SpecE leaves (leaveso p) (fun r => onr p -> nr r) (k_binary self p prec);
  ga_litvalue : SpecE leaves [] anysh (k_litvalue self);
  ga_block : SpecE leaves [] anysh (k_block self);
  ga_stmt : SpecE leaves [] anysh (k_stmt self);
  ga_if : SpecE leaves [] anysh (k_if self)
}.

Lemma GoodA_no_fuel : GoodA (no_fuel A G D C E).
Proof. split; intros; intros ? ? ? HH; discriminate HH. Qed.

Lemma A_nested X (LV : X -> list (leaf A)) pre Sh site (f : pstate -> res X) :
  SpecE LV pre Sh f -> SpecE LV pre Sh (nested site f).
Proof.
  intros Hf s r s'. unfold nested. cbv zeta.
  destruct (S MAX_NESTING <=? s_depth (upd_depth s (S (s_depth s)))); [ discriminate | ].
  destruct (f (upd_depth s (S (s_depth s)))) as [x s2| | |] eqn:Hfs; try discriminate.
  intros [= <- <-]. destruct (Hf _ _ _ Hfs) as (Hsh & L & Ha & HL).
  split; [ exact Hsh | ]. exists L. split; [ | exact HL ].
  intro st.
  assert (Ht : acct st s ([] ++ L ++ []) st (upd_depth s2 (pred (s_depth s2)))).
  { eapply acct_trans; [ apply acct_upd_depth | ].
    eapply acct_trans; [ apply Ha | apply acct_upd_depth ]. }
  cbn [app] in Ht.
  rewrite app_nil_r in Ht. exact Ht.
Qed.

Lemma pop_last_inv X (l r : list X) x : pop_last l = Some (r, x) -> l = r ++ [x].
Proof.
  unfold pop_last. destruct (rev l) as [|y t] eqn:Hr; [ discriminate | ].
  intros [= <- <-]. rewrite <- (rev_involutive l), Hr. reflexivity.
Qed.

Definition index_shape (r : nodeT) : Prop :=
  is_tag GIndex r = true -> exists ps e, r = mk GIndex ps [] [nlist []; e].

Lemma pop_last_none X (l : list X) : pop_last l = None -> l = [].
Proof.
  unfold pop_last. destruct (rev l) as [|y t] eqn:Hr; [ | discriminate ].
  intros _. rewrite <- (rev_involutive l), Hr. reflexivity.
Qed.

Lemma leavesl_map_field_of (l : list nodeT) :
  leavesl (map (fun i => field_of OPS i) l) = leavesl l.
Proof.
  induction l; [ reflexivity | ]. cbn [map flat_map]. rewrite IHl.
  cbn. rewrite !app_nil_r. reflexivity.
Qed.

Fixpoint reset_chan_arrow_leaves (typ : nodeT) :
  forall pos t, is_tag GTypeChannel typ = true -> @reset_chan_arrow A C E pos typ = inl t ->
                leaves t = leaves typ /\ n_tag t = n_tag typ.
Proof.
  destruct typ as [t ps ats d ks]. intros pos r Htag. cbn [reset_chan_arrow].
  assert (Hown : forall ps' ats', leaves (Nd t ps' ats' d ks) = leaves (Nd t ps ats d ks)).
  { intros. destruct t; try discriminate Htag. reflexivity. }
  destruct (match ats with ADir dir :: _ => dir | _ => 0 end) as [|[|[|n]]].
  - intros [= <-]. split; [ apply Hown | reflexivity ].
  - destruct ks as [|inner rest]; [ discriminate | ].
    destruct (is_tag GTypeChannel inner) eqn:Hti; [ | discriminate ].
    destruct (@reset_chan_arrow A C E (nth 1 ps pos) inner) as [inner'|] eqn:Hi; [ | discriminate ].
    intros [= <-]. destruct (reset_chan_arrow_leaves inner _ _ Hti Hi) as (Hl & _).
    split; [ | reflexivity ]. destruct t; try discriminate Htag. cbn. rewrite Hl. reflexivity.
  - discriminate.
  - destruct ks as [|inner rest]; [ discriminate | ].
    destruct (is_tag GTypeChannel inner) eqn:Hti; [ | discriminate ].
    destruct (@reset_chan_arrow A C E (nth 1 ps pos) inner) as [inner'|] eqn:Hi; [ | discriminate ].
    intros [= <-]. destruct (reset_chan_arrow_leaves inner _ _ Hti Hi) as (Hl & _).
    split; [ | reflexivity ]. destruct t; try discriminate Htag. cbn. rewrite Hl. reflexivity.
Qed.

End Table.
Arguments GoodA {A G D C E} self.

Arguments index_shape {A C} r.
Ltac pre_fin :=
  repeat match goal with
         | H : index_shape ?y, E : is_tag GIndex ?y = true |- _ =>
             destruct (H E) as (? & ? & ->); clear H
         | H : pop_last ?l = Some _ |- _ => apply pop_last_inv in H; subst l
         | H : pop_last ?l = None |- _ => apply pop_last_none in H; subst l
         end.
Ltac fix_up := pre_fin; lsolve; rewrite ?leavesl_map_field_of; lsolve.

(* ------------------------------------------------------------------ one unfolding, stage 1 *)

Section Step1.
Variables (A G D C E : Type) (OPS : ops A G D C).
Notation pstate := (Core.pstate A G D E).
Notation res := (Core.res A G D E).
Notation parsers := (Core.parsers A G D C E).
Notation nodeT := (node A C).
Notation SpecE := (Spec (A:=A) (G:=G) (D:=D) (E:=E)).
Notation SpecPE := (SpecP (A:=A) (G:=G) (D:=D) (E:=E)).

Variable self : parsers.
Hypothesis HG : GoodA self.

Lemma T_type : SpecE leaves [] nr (k_type self). Proof. exact (ga_type _ _ _ _ _ _ HG). Qed.
Lemma T_type_or_none : SpecE leaveso [] onr (k_type_or_none self).
Proof. exact (ga_type_or_none _ _ _ _ _ _ HG). Qed.
Lemma T_expr : SpecE leaves [] nr (k_expr self). Proof. exact (ga_expr _ _ _ _ _ _ HG). Qed.
Lemma T_unary : SpecE leaves [] nr (k_unary self). Proof. exact (ga_unary _ _ _ _ _ _ HG). Qed.
Lemma T_binary p prec : SpecE leaves (leaveso p) (fun r => onr p -> nr r) (k_binary self p prec).
Proof. exact (ga_binary _ _ _ _ _ _ HG p prec). Qed.
Lemma T_litvalue : SpecE leaves [] anysh (k_litvalue self).
Proof. exact (ga_litvalue _ _ _ _ _ _ HG). Qed.
Lemma T_block : SpecE leaves [] anysh (k_block self). Proof. exact (ga_block _ _ _ _ _ _ HG). Qed.
Lemma T_stmt : SpecE leaves [] anysh (k_stmt self). Proof. exact (ga_stmt _ _ _ _ _ _ HG). Qed.
Lemma T_if : SpecE leaves [] anysh (k_if self). Proof. exact (ga_if _ _ _ _ _ _ HG). Qed.
Local Hint Resolve T_type T_type_or_none T_expr T_unary T_binary T_litvalue T_block T_stmt T_if
  : acct.

Lemma A_parse_next_level_expr : SpecE leaves [] nr (parse_next_level_expr self).
Proof. aprod parse_next_level_expr. all: fix_up. Qed.
Local Hint Resolve A_parse_next_level_expr : acct.

Lemma A_comma_list_loop (item : pstate -> res nodeT) (Hitem : SpecE leaves [] nr item) :
  forall fuel acc, SpecE leavesl (leavesl acc) (fun r => Forall nr acc -> Forall nr r)
                         (comma_list_loop OPS fuel item acc).
Proof. aloop comma_list_loop fuel. all: fix_up. Qed.
Local Hint Resolve A_comma_list_loop : acct.

Lemma A_expression_list : SpecE leavesl [] (Forall nr) (expression_list OPS self).
Proof. aprod expression_list. all: fix_up. Qed.
Local Hint Resolve A_expression_list : acct.

Lemma A_parse_type_list : SpecE leavesl [] (Forall nr) (parse_type_list OPS self).
Proof. aprod parse_type_list. all: fix_up. Qed.
Local Hint Resolve A_parse_type_list : acct.

Lemma A_type_list_loop : forall fuel acc,
  SpecE leavesl (leavesl acc) anysh (type_list_loop OPS self fuel acc).
Proof. aloop type_list_loop fuel. all: fix_up. Qed.
Local Hint Resolve A_type_list_loop : acct.

Lemma A_type_list strict :
  SpecE (fun r => leaves (fst r)) [] anysh (type_list OPS self strict).
Proof. aprod type_list. all: fix_up. Qed.
Local Hint Resolve A_type_list : acct.

Lemma A_type_instance (left : nodeT) :
  SpecE leaves (leaves left) nr (type_instance OPS self left).
Proof. aprod type_instance. all: fix_up. Qed.
Local Hint Resolve A_type_instance : acct.

Lemma A_qualified_ident (name : option nodeT) :
  SpecE leaves (leaveso name) (fun r => onr name -> nr r) (qualified_ident OPS self name).
Proof. aprod qualified_ident. all: fix_up. Qed.
Local Hint Resolve A_qualified_ident : acct.

Lemma A_parse_type_term : SpecE leaves [] anysh (parse_type_term OPS self).
Proof. aprod parse_type_term. all: fix_up. Qed.
Local Hint Resolve A_parse_type_term : acct.

Lemma A_type_elem_loop : forall fuel typ,
  SpecE leaves (leaves typ) anysh (type_elem_loop OPS self fuel typ).
Proof. aloop type_elem_loop fuel. all: fix_up. Qed.
Local Hint Resolve A_type_elem_loop : acct.

Lemma A_parse_type_elem : SpecE leaves [] anysh (parse_type_elem OPS self).
Proof. aprod parse_type_elem. all: fix_up. Qed.
Local Hint Resolve A_parse_type_elem : acct.

Lemma A_array_len : SpecE leaves [] anysh (array_len OPS self).
Proof. aprod array_len. all: fix_up. Qed.
Local Hint Resolve A_array_len : acct.

Lemma A_array_or_typeargs : SpecE leaves [] index_shape (array_or_typeargs OPS self).
Proof.
  aprod array_or_typeargs.
  all: unfold index_shape; intros HH; try discriminate HH; eauto.
Qed.
Local Hint Resolve A_array_or_typeargs : acct.

Lemma A_ellipsis_type : SpecE leaves [] anysh (ellipsis_type OPS self).
Proof. aprod ellipsis_type. all: fix_up. Qed.
Local Hint Resolve A_ellipsis_type : acct.

Lemma A_param_decl_loop : forall fuel ewc ids,
  SpecE leavesl (leavesl ids) anysh (param_decl_loop OPS self fuel ewc ids).
Proof. aloop param_decl_loop fuel. all: fix_up.  Qed.
Local Hint Resolve A_param_decl_loop : acct.


Lemma A_parse_parameter_decl : SpecE leavesl [] anysh (parse_parameter_decl OPS self).
Proof. aprod parse_parameter_decl. all: fix_up. Qed.
Local Hint Resolve A_parse_parameter_decl : acct.

Lemma A_params_loop : forall fuel close acc,
  SpecE leavesl (leavesl acc) anysh (params_loop OPS self fuel close acc).
Proof. aloop params_loop fuel. all: fix_up. Qed.
Local Hint Resolve A_params_loop : acct.

Lemma A_parameters : SpecE leaves [] nr (parameters OPS self).
Proof. intros ? ? ?; unfold parameters, params_list; hide_nats; isteps; try fin. all: fix_up. Qed.
Local Hint Resolve A_parameters : acct.

Lemma A_type_parameters : SpecE leaves [] nr (type_parameters OPS self).
Proof.
  intros ? ? ?; unfold type_parameters, params_list; hide_nats; isteps; try fin. all: fix_up.
Qed.
Local Hint Resolve A_type_parameters : acct.

Lemma A_parse_result : SpecE leaves [] anysh (parse_result OPS self).
Proof. aprod parse_result. all: fix_up. Qed.
Local Hint Resolve A_parse_result : acct.

Lemma A_signature :
  SpecE (fun r => leaves (fst r) ++ leaves (snd r)) [] anysh (signature OPS self).
Proof. aprod signature. all: fix_up. Qed.
Local Hint Resolve A_signature : acct.

Lemma A_func_type : SpecE leaves [] nr (func_type OPS self).
Proof. aprod func_type. all: fix_up. Qed.
Local Hint Resolve A_func_type : acct.

Lemma A_type_params_loop : forall fuel acc,
  SpecE leavesl (leavesl acc) anysh (type_params_loop OPS self fuel acc).
Proof. aloop type_params_loop fuel. all: fix_up. Qed.
Local Hint Resolve A_type_params_loop : acct.

Lemma A_parse_type_parameters : SpecE leaves [] anysh (parse_type_parameters OPS self).
Proof. aprod parse_type_parameters. all: fix_up. Qed.
Local Hint Resolve A_parse_type_parameters : acct.

Lemma A_field_decl : SpecE leaves [] anysh (field_decl OPS self).
Proof.
  aprod field_decl. all: fix_up.
  apply andb_prop in E3. destruct E3 as (E3 & _). apply Nat.eqb_eq in E3.
  rewrite app_length in E3. cbn in E3. destruct l; [ | cbn in E3; lia ].
  cbn in HL. rewrite app_nil_r in HL. rewrite HL. lsolve.
Qed.
Local Hint Resolve A_field_decl : acct.

Lemma A_struct_loop : forall fuel acc,
  SpecE leavesl (leavesl acc) anysh (struct_loop OPS self fuel acc).
Proof. aloop struct_loop fuel. all: fix_up. Qed.
Local Hint Resolve A_struct_loop : acct.

Lemma A_struct_type : SpecE leaves [] nr (struct_type OPS self).
Proof. aprod struct_type. all: fix_up. Qed.
Local Hint Resolve A_struct_type : acct.

Lemma A_parse_method_elem : SpecE leaves [] anysh (parse_method_elem OPS self).
Proof. aprod parse_method_elem. all: fix_up. Qed.
Local Hint Resolve A_parse_method_elem : acct.

Lemma A_interface_loop : forall fuel acc,
  SpecE leavesl (leavesl acc) anysh (interface_loop OPS self fuel acc).
Proof. aloop interface_loop fuel. all: fix_up. Qed.
Local Hint Resolve A_interface_loop : acct.

Lemma A_parse_interface_type : SpecE leaves [] nr (parse_interface_type OPS self).
Proof. aprod parse_interface_type. all: fix_up. Qed.
Local Hint Resolve A_parse_interface_type : acct.

Lemma A_type_or_none_body : SpecE leaveso [] onr (type_or_none_body OPS self).
Proof. aprod type_or_none_body. all: fix_up. Qed.
Local Hint Resolve A_type_or_none_body : acct.

Lemma A_type_body : SpecE leaves [] nr (type_body self).
Proof. aprod type_body. all: fix_up. Qed.
Local Hint Resolve A_type_body : acct.


Lemma A_parse_element_value : SpecE leaves [] anysh (parse_element_value self).
Proof. aprod parse_element_value. all: fix_up. Qed.
Local Hint Resolve A_parse_element_value : acct.

Lemma A_parse_element : SpecE leaves [] anysh (parse_element OPS self).
Proof. aprod parse_element. all: fix_up. Qed.
Local Hint Resolve A_parse_element : acct.

Lemma A_lit_value_loop : forall fuel acc,
  SpecE leavesl (leavesl acc) anysh (lit_value_loop OPS self fuel acc).
Proof. aloop lit_value_loop fuel. all: fix_up. Qed.
Local Hint Resolve A_lit_value_loop : acct.

Lemma A_lit_value_body : SpecE leaves [] anysh (lit_value_body OPS self).
Proof. aprod lit_value_body. all: fix_up. Qed.
Local Hint Resolve A_lit_value_body : acct.

Notation leavesol := (flat_map leaveso).

Lemma leavesl_somes (l : list (option nodeT)) :
  leavesl (flat_map (fun o => match o with Some e => [e] | None => [] end) l) = leavesol l.
Proof.
  induction l as [|[e|] l IH]; cbn [flat_map app leaveso]; rewrite ?flat_map_app, ?IH;
    cbn [flat_map app]; rewrite ?app_nil_r; reflexivity.
Qed.

Lemma A_index_comma_loop : forall fuel acc,
  SpecE leavesol (leavesol acc) anysh (index_comma_loop OPS self fuel acc).
Proof. aloop index_comma_loop fuel. all: fix_up. Qed.
Local Hint Resolve A_index_comma_loop : acct.

Definition slice_shape (r : sop * list (option nodeT)) : Prop :=
  fst r = SNone -> exists e, snd r = [Some e].

(* the one production with a bracket effect of its own: it takes the `[`, its
   caller the `]` *)
Lemma A_parse_slice_index_or_type_inst (s : pstate) r s' :
  (exists p, s_cur s = Some (p, TOperator OBarackLeft)) ->
  parse_slice_index_or_type_inst OPS self s = Ok r s' ->
  slice_shape r /\
  exists L, (forall st, acct st s L (BBrack :: st) s') /\ leavesol (snd r) = [] ++ L.
Proof.
  intros (p0 & Ec0). revert r s'. intros ? ?.
  unfold parse_slice_index_or_type_inst; hide_nats; isteps; try fin. all: fix_up.
  all: unfold slice_shape; cbn [fst snd]; intros HH; try discriminate HH; eauto.
Qed.

Ltac spec_hook Hm ::=
  lazymatch type of Hm with
  | parse_slice_index_or_type_inst _ _ ?s = Ok ?y ?s1 =>
      match goal with
      | E : s_cur s = Some (?p, TOperator OBarackLeft) |- _ =>
          let HS := fresh "HS" in
          pose proof (A_parse_slice_index_or_type_inst s y s1 (ex_intro _ p E) Hm) as HS;
          let Hsh := fresh "Hsh" in
          let L := fresh "L" in
          let Ha := fresh "Ha" in
          let HL := fresh "HL" in
          destruct HS as (Hsh & L & Ha & HL); clear Hm; cbn [app] in HL; try subst L
      end
  end.

Lemma A_call_args_loop : forall fuel args ewc,
  SpecE (fun r => leavesl (fst r)) (leavesl args) anysh (call_args_loop OPS self fuel args ewc).
Proof. aloop call_args_loop fuel. all: fix_up. Qed.
Local Hint Resolve A_call_args_loop : acct.

Lemma A_primary_step (x : nodeT) :
  SpecE (fun r => leaves (match r with Some x' => x' | None => x end)) (leaves x) onr
        (primary_step OPS self x).
Proof.
  aprod primary_step. all: fix_up. all: rewrite ?leavesl_somes; try reflexivity.
  destruct (Hsh eq_refl) as (e & He). cbn [snd] in He.
  destruct l0 as [|o0 [|o1 l1]]; try discriminate He. reflexivity.
Qed.
Local Hint Resolve A_primary_step : acct.

Lemma A_primary_loop : forall fuel x,
  SpecE leaves (leaves x) (fun r => nr x -> nr r) (primary_loop OPS self fuel x).
Proof. aloop primary_loop fuel. all: fix_up. Qed.
Local Hint Resolve A_primary_loop : acct.

Lemma A_operand : SpecE leaves [] nr (operand OPS self).
Proof. aprod operand. all: fix_up. Qed.
Local Hint Resolve A_operand : acct.

Lemma A_primary_expression (p : option nodeT) :
  SpecE leaves (leaveso p) (fun r => onr p -> nr r) (primary_expression OPS self p).
Proof. aprod primary_expression. all: fix_up. Qed.
Local Hint Resolve A_primary_expression : acct.

Lemma A_unary_body : SpecE leaves [] nr (unary_body OPS self).
Proof.
  aprod unary_body. all: fix_up.
  - destruct (reset_chan_arrow_leaves _ _ _ _ _ _ E2 E3) as (_ & Ht).
    unfold nr, is_tag in *. rewrite Ht. exact Hsh.
  - apply (reset_chan_arrow_leaves _ _ _ _ _ _ E2 E3).
Qed.
Local Hint Resolve A_unary_body : acct.

Lemma A_binary_loop : forall fuel prec x,
  SpecE leaves (leaves x) (fun r => nr x -> nr r) (binary_loop OPS self fuel prec x).
Proof. aloop binary_loop fuel. all: fix_up. Qed.
Local Hint Resolve A_binary_loop : acct.

Lemma A_binary_body (p : option nodeT) prec :
  SpecE leaves (leaveso p) (fun r => onr p -> nr r) (binary_body OPS self p prec).
Proof. aprod binary_body. all: fix_up. Qed.
Local Hint Resolve A_binary_body : acct.

Lemma A_expr_body : SpecE leaves [] nr (expr_body self).
Proof. aprod expr_body. all: fix_up. Qed.
Local Hint Resolve A_expr_body : acct.

End Step1.

#[export] Hint Resolve T_type T_type_or_none T_expr T_unary T_binary T_litvalue T_block T_stmt T_if A_parse_next_level_expr A_comma_list_loop A_expression_list A_parse_type_list A_type_list_loop A_type_list A_type_instance A_qualified_ident A_parse_type_term A_type_elem_loop A_parse_type_elem A_array_len A_array_or_typeargs A_ellipsis_type A_param_decl_loop A_parse_parameter_decl A_params_loop A_parameters A_type_parameters A_parse_result A_signature A_func_type A_type_params_loop A_parse_type_parameters A_field_decl A_struct_loop A_struct_type A_parse_method_elem A_interface_loop A_parse_interface_type A_type_or_none_body A_type_body A_parse_element_value A_parse_element A_lit_value_loop A_lit_value_body A_index_comma_loop A_call_args_loop A_primary_step A_primary_loop A_operand A_primary_expression A_unary_body A_binary_loop A_binary_body A_expr_body : acct.
