(* scan_lit_number re-expressed in "remainder passing" style: each phase is a
   function of what is left of the input, instead of indices into the input. *)
From Coq Require Import List NArith Bool Lia.
From GoSyn Require Import Token Tok Regex Scanner.
From GoSyn.spec Require Import NumLit.
From GoSyn.proofs Require Import NumLitDigits.
Import ListNotations.
Open Scope N_scope.

(* ------------------------------------------------------------ verbatim split *)

Definition int_phase (l : str) : radix * str :=
    match l with
    | [] => (R10, [])
    | c0 :: _ =>
        if c0 =? c_dot then (R10, [])
        else
          let next2 := firstn 2 l in
          if str_eqb next2 [48; 98] || str_eqb next2 [48; 66]
          then (R2, next2 ++ scan_digits is_binary_digit true (skipn 2 l))
          else if str_eqb next2 [48; 111] || str_eqb next2 [48; 79]
          then (R8, next2 ++ scan_digits is_octal_digit true (skipn 2 l))
          else if str_eqb next2 [48; 120] || str_eqb next2 [48; 88]
          then (R16, next2 ++ scan_digits is_hex_digit true (skipn 2 l))
          else (R10, scan_digits is_decimal_digit true l)
    end.

Definition exp_digs_of (exp_part : str) : str :=
  match exp_part with
  | _ :: r => match r with
              | s :: r' => if is_sign (Some s) then r' else r
              | [] => []
              end
  | [] => []
  end.

(* everything after the exponent has been read *)
Definition finish (rdx : radix) (fl : nat) (mant exp_part : str) (next : option N)
  : sres (litkind * str) :=
  let skipped := length mant in
  let exp_digs := exp_digs_of exp_part in
  let exp_len := N.of_nat (skipped + length exp_part) in
  if radix_eqb rdx R16 && negb (Nat.eqb fl 0) && Nat.eqb (length exp_part) 0
  then inr (N.of_nat skipped, SE_num_hex_no_exponent)
  else if starts_with [c_under] exp_digs || last_is c_under exp_part
  then inr (exp_len, SE_num_exp_separator)
  else if negb (Nat.eqb (length exp_part) 0) &&
          negb (match rev exp_part with c :: _ => is_decimal_digit c | [] => false end)
  then inr (exp_len, SE_num_exp_no_digits)
  else
  let full := mant ++ exp_part in
  let char_count := length full in
  if match next with Some c => c =? 105 | None => false end
  then inl (LImag, full ++ [105])
  else if contains c_dot full || negb (Nat.eqb (length exp_part) 0)
  then inl (LFloat, full)
  else if radix_eqb rdx R10 && Nat.ltb 1 (length full) && starts_with [c_0] full &&
          (contains 56 full || contains 57 full)
  then inr (N.of_nat char_count, SE_num_octal_digit)
  else inl (LInteger, full).

Definition rest_phaseC (l : str) (rdx : radix) (fac_start : nat) (fac_part mant : str)
  : sres (litkind * str) :=
  let skipped := length mant in
  let next1 := nth_c l skipped in
  match mant with
  | [] => inr (N.of_nat skipped, SE_num_radix_point)
  | _ =>
  if negb (radix_eqb rdx R10) && Nat.eqb fac_start 2 && Nat.leb (length fac_part) 1
  then inr (N.of_nat skipped, SE_num_no_digits)
  else if negb (radix_eqb rdx R10) && is_e next1
  then inr (N.of_nat skipped, SE_num_e_exponent)
  else if negb (radix_eqb rdx R16) && is_p next1
  then inr (N.of_nat skipped, SE_num_p_exponent)
  else
  let exp_part :=
    if is_e next1 || is_p next1 then
      match next1 with
      | Some e =>
          let sgn := nth_c l (S skipped) in
          let sg := if is_sign sgn then match sgn with Some s => [s] | None => [] end else [] in
          let digs := scan_digits is_decimal_digit true (skipn (S skipped + length sg) l) in
          e :: sg ++ digs
      | None => []
      end
    else [] in
  finish rdx (length fac_part) mant exp_part (nth_c l (length (mant ++ exp_part)))
  end.

Definition rest_phase (l : str) (rdx : radix) (numlit : str) : sres (litkind * str) :=
  if last_is c_under numlit then inr (lenN numlit, SE_num_separator) else
  let fac_start := length numlit in
  let has_dot := match nth_c l fac_start with Some c => c =? c_dot | None => false end in
  if has_dot && (radix_eqb rdx R2 || radix_eqb rdx R8)
  then inr (N.of_nat fac_start, SE_num_radix_point) else
  let fac_part :=
    if has_dot then
      c_dot :: scan_digits (if radix_eqb rdx R16 then is_hex_digit else is_decimal_digit)
                 true (skipn (S fac_start) l)
    else [] in
  if starts_with [c_dot; c_under] fac_part || last_is c_under fac_part
  then inr (N.of_nat fac_start, SE_num_separator) else
  rest_phaseC l rdx fac_start fac_part (numlit ++ fac_part).

Lemma scan_split l :
  scan_lit_number l = let '(rdx, numlit) := int_phase l in rest_phase l rdx numlit.
Proof. reflexivity. Qed.

(* ------------------------------------------------------------ remainder style *)

Definition hd_is (c : N) (r : str) : bool :=
  match r with x :: _ => x =? c | [] => false end.

Definition fdig (rdx : radix) : N -> bool :=
  if radix_eqb rdx R16 then is_hex_digit else is_decimal_digit.

Definition fac_of (rdx : radix) (r1 : str) : str :=
  if hd_is 46 r1 then 46 :: scan_digits (fdig rdx) true (tl r1) else [].

Definition sign_of (r : str) : str :=
  match r with s :: _ => if is_sign (Some s) then [s] else [] | [] => [] end.

Definition exp_of (r2 : str) : str :=
  match r2 with
  | e :: r2' =>
      if is_e (Some e) || is_p (Some e)
      then e :: sign_of r2' ++
           scan_digits is_decimal_digit true (skipn (length (sign_of r2')) r2')
      else []
  | [] => []
  end.

Definition phaseC (rdx : radix) (nl fl : nat) (mant r2 : str) : sres (litkind * str) :=
  let skipped := length mant in
  let next1 := hd_error r2 in
  match mant with
  | [] => inr (N.of_nat skipped, SE_num_radix_point)
  | _ =>
  if negb (radix_eqb rdx R10) && Nat.eqb nl 2 && Nat.leb fl 1
  then inr (N.of_nat skipped, SE_num_no_digits)
  else if negb (radix_eqb rdx R10) && is_e next1
  then inr (N.of_nat skipped, SE_num_e_exponent)
  else if negb (radix_eqb rdx R16) && is_p next1
  then inr (N.of_nat skipped, SE_num_p_exponent)
  else
  finish rdx fl mant (exp_of r2) (hd_error (skipn (length (exp_of r2)) r2))
  end.

Definition phaseB (rdx : radix) (numlit r1 : str) : sres (litkind * str) :=
  if last_is c_under numlit then inr (lenN numlit, SE_num_separator) else
  if hd_is 46 r1 && (radix_eqb rdx R2 || radix_eqb rdx R8)
  then inr (N.of_nat (length numlit), SE_num_radix_point) else
  let fac_part := fac_of rdx r1 in
  if starts_with [c_dot; c_under] fac_part || last_is c_under fac_part
  then inr (N.of_nat (length numlit), SE_num_separator) else
  phaseC rdx (length numlit) (length fac_part) (numlit ++ fac_part)
         (skipn (length fac_part) r1).

Lemma skipn_of_eq {X} (l a b : list X) : l = a ++ b -> skipn (length a) l = b.
Proof. intros ->. apply skipn_app_len0. Qed.

Lemma exp_of_prefix r2 : exists r3, r2 = exp_of r2 ++ r3.
Proof.
  destruct r2 as [|e r2]; [exists []; reflexivity|]. cbn [exp_of].
  destruct (is_e (Some e) || is_p (Some e)); [|exists (e :: r2); reflexivity].
  destruct (scan_prefix is_decimal_digit true (skipn (length (sign_of r2)) r2)) as (r3 & Hr3).
  exists r3. simpl. f_equal. rewrite <- app_assoc, <- Hr3.
  destruct r2 as [|s r2]; [reflexivity|]. cbn [sign_of]. destruct (is_sign (Some s)); reflexivity.
Qed.

Lemma fac_of_prefix rdx r1 : exists r2, r1 = fac_of rdx r1 ++ r2.
Proof.
  unfold fac_of. destruct r1 as [|c r1]; simpl; [exists []; reflexivity|].
  destruct (c =? 46) eqn:Ec; [|exists (c :: r1); reflexivity].
  apply N.eqb_eq in Ec. subst c.
  destruct (scan_prefix (fdig rdx) true r1) as (r2 & Hr2). exists r2. simpl. congruence.
Qed.

Lemma phaseC_eq rdx nl fac_part mant r2 :
  rest_phaseC (mant ++ r2) rdx nl fac_part mant = phaseC rdx nl (length fac_part) mant r2.
Proof.
  unfold rest_phaseC, phaseC.
  rewrite nth_c_app0.
  destruct mant as [|m0 mant']; [reflexivity|]. set (mant := m0 :: mant').
  destruct (negb (radix_eqb rdx R10) && Nat.eqb nl 2 && Nat.leb (length fac_part) 1); [reflexivity|].
  destruct (negb (radix_eqb rdx R10) && is_e (hd_error r2)); [reflexivity|].
  destruct (negb (radix_eqb rdx R16) && is_p (hd_error r2)); [reflexivity|].
  cbv zeta.
  match goal with |- finish _ _ _ ?E _ = _ => assert (Hexp : E = exp_of r2) end.
  { destruct r2 as [|e r2']; [reflexivity|]. cbn [hd_error exp_of].
    destruct (is_e (Some e) || is_p (Some e)); [|reflexivity].
    cbv zeta.
    replace (S (length mant)) with (length mant + 1)%nat by lia.
    rewrite nth_c_app. change (nth_c (e :: r2') 1) with (hd_error r2').
    assert (Hsg : (if is_sign (hd_error r2')
                   then match hd_error r2' with Some s => [s] | None => [] end
                   else []) = sign_of r2').
    { destruct r2' as [|s r2'']; reflexivity. }
    rewrite Hsg.
    replace (length mant + 1 + length (sign_of r2'))%nat
      with (length mant + S (length (sign_of r2')))%nat by lia.
    rewrite skipn_app_len. reflexivity. }
  rewrite Hexp. f_equal.
  destruct (exp_of_prefix r2) as (r3 & Hr3).
  rewrite Hr3 at 1. rewrite app_assoc, nth_c_app0.
  rewrite (skipn_of_eq _ _ _ Hr3). reflexivity.
Qed.

Lemma phaseB_eq rdx numlit r1 :
  rest_phase (numlit ++ r1) rdx numlit = phaseB rdx numlit r1.
Proof.
  unfold rest_phase, phaseB.
  destruct (last_is 95 numlit); [reflexivity|].
  rewrite nth_c_app0.
  assert (Hd : match hd_error r1 with Some c => c =? 46 | None => false end = hd_is 46 r1).
  { destruct r1; reflexivity. }
  rewrite Hd.
  destruct (hd_is 46 r1 && (radix_eqb rdx R2 || radix_eqb rdx R8)); [reflexivity|].
  assert (Hf : (if hd_is 46 r1
                then 46 :: scan_digits (if radix_eqb rdx R16 then is_hex_digit else is_decimal_digit)
                             true (skipn (S (length numlit)) (numlit ++ r1))
                else []) = fac_of rdx r1).
  { unfold fac_of, fdig. destruct (hd_is 46 r1); [|reflexivity].
    replace (S (length numlit)) with (length numlit + 1)%nat by lia.
    rewrite skipn_app_len. destruct r1; reflexivity. }
  rewrite Hf.
  destruct (starts_with [46; 95] (fac_of rdx r1) || last_is 95 (fac_of rdx r1)); [reflexivity|].
  destruct (fac_of_prefix rdx r1) as (r2 & Hr2).
  rewrite Hr2 at 1. rewrite app_assoc, phaseC_eq.
  rewrite (skipn_of_eq _ _ _ Hr2). reflexivity.
Qed.
