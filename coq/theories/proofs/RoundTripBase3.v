(* Round trip, stages B-D: the interfaces between the per-production files
   (statements that one file proves and the others assume as Section
   hypotheses until the induction is assembled). *)
From Coq Require Import List Arith NArith Lia Bool.
From GoSyn Require Import Token Tok Ast Core.
From GoSyn.spec Require Import Prec Print Print2 Print3.
From GoSyn.proofs Require Import PrecProofs RoundTripProofs RoundTripTypesBase RoundTripBase2.
Import ListNotations.

(* the first token of an expression: it starts a simple statement, and is none
   of  ;  {  }  )  ]  :  ,  range  var  case  default *)
Definition start_tok (t : token) : Prop :=
  classify_stmt t = SCSimple /\
  tok_is t (KOp OSemiColon) = false /\ tok_is t (KOp OBraceRight) = false /\
  tok_is t (KOp OBraceLeft) = false /\ tok_is t (KOp OParenRight) = false /\
  tok_is t (KOp OBarackRight) = false /\ tok_is t (KOp OColon) = false /\
  tok_is t (KOp OComma) = false /\ tok_is t (KOp ODotDotDot) = false /\
  tok_is t (KKw KRange) = false /\ tok_is t (KKw KVar) = false /\
  tok_is t (KKw KCase) = false /\ tok_is t (KKw KDefault) = false /\ tok_is t (KKw KType) = false.

Definition FirstTokE : Prop :=
  forall e hdr, wf2 hdr e -> exists t l, print2 e = t :: l /\ start_tok t.

Section B3.
Variables (A G D C E : Type).
Variable OPS : ops A G D C.

(* parse_simple_stmt from the contracts of its expressions *)
Definition SSPprov : Prop := forall hdr (sm : simple2),
  (forall e, In e (exprs_simple sm) -> KE2 A G D C E OPS hdr e) -> wf_simple2 hdr sm ->
  SSP A G D C E OPS hdr sm.

(* parse_block_stmt / parse_stmt_list from the contracts of the statements *)
Definition BPprov : Prop := forall body : list stmt2,
  Forall (fun st => wf_stmt st /\ SC A G D C E OPS st) body -> seq_ok body -> BP A G D C E OPS body.
Definition SLPprov : Prop := forall body : list stmt2,
  Forall (fun st => wf_stmt st /\ SC A G D C E OPS st) body -> seq_ok body -> SLP A G D C E OPS body.

(* parse_decl from the induction hypothesis *)
Definition DPprov : Prop := forall n (dc : decl2),
  IHS A G D C E OPS n -> size_stmt (StDecl dc) <= n -> wf_decl dc -> DP A G D C E OPS dc.

End B3.
