(* Round trip for types: the interface type
     "interface" "{" { ( MethodElem | TypeElem ) ";" } "}"
   (parse_interface_type / interface_loop / parse_method_elem / parse_type_elem). *)
From Coq Require Import List Arith NArith Lia Bool.
From GoSyn Require Import Token Tok Ast Core.
From GoSyn.spec Require Import Prec Print Print2.
From GoSyn.proofs Require Import PrecProofs RoundTripProofs RoundTripTypesBase.
Import ListNotations.

Section Iface.
Variables (A G D C E : Type).
Variable OPS : ops A G D C.
Notation nodeT := (node A C).
Notation pstateT := (pstate A G D E).
Notation cur := (s_cur A G D E).
Notation srest := (s_rest A G D E).
Notation sdepth := (s_depth A G D E).
Notation sterm := (s_term A G D E).
Notation lp := (s_lp A G D E).
Notation ln := (s_ln A G D E).
Notation PA := (parsers_at A G D C E OPS).
Notation erase := (@erase A C).
Notation at_toks := (@at_toks A G D E).
Notation frame := (@frame A G D E).
Variable X : Type.
Variables (printX : X -> list token) (shapeX : X -> shapeT) (wfX : X -> Prop).
Variables (depthX needX : X -> nat).
Notation typ := (typ X).
Notation printT := (printT printX).
Notation shapeTy := (shapeTy shapeX).
Notation wfT := (wfT wfX).
Notation depthT := (depthT depthX).
Notation needT := (needT needX).
Notation TNP := (TNP A G D C E OPS X printX shapeX depthX needX).
Notation TP := (TP A G D C E OPS X printX shapeX depthX needX).
Notation TBP := (TBP A G D C E OPS X printX shapeX depthX needX).
Notation SigP := (SigP A G D C E OPS X printX shapeX depthX needX).
Notation XOK := (XOK A G D C E OPS X printX shapeX depthX needX).
Notation IHT := (IHT A G D C E OPS X printX shapeX wfX depthX needX).
Notation TOB := (type_or_none_body A G D C E OPS).
Notation ILOOP := (interface_loop A G D C E OPS).
Notation PTT := (parse_type_term A G D C E OPS).
Notation TEL := (type_elem_loop A G D C E OPS).
Notation PTE := (parse_type_elem A G D C E OPS).
Notation PME := (parse_method_elem A G D C E OPS).
Notation SUB := (semi_unless_brace A G D C E OPS).


(* ------------------------------------------------------------ 1. small facts *)

Lemma next_term : forall (s s1 : pstateT), next A G D C E OPS s = Ok tt s1 -> sterm s1 = sterm s.
Proof.
  intros s s1. unfold next. destruct (srest s) as [| [b0 b1 t h] r].
  - destruct (sterm s); intro H; inversion H; subst; reflexivity.
  - intro H; inversion H; subst; reflexivity.
Qed.

(* identifier, also recording that the stream terminator is untouched *)
Lemma identifier_toks_t : forall (s : pstateT) name ts site, at_toks s (TLiteral LIdent name :: ts) ->
  exists p s1, identifier A G D C E OPS site s = Ok (n_ident A C p name) s1 /\
               at_toks s1 ts /\ frame s s1 /\ sterm s1 = sterm s.
Proof.
  intros s name ts site Hat. destruct (at_toks_cur _ _ _ Hat) as (p & Hc).
  destruct (next_toks OPS _ _ (at_toks_rest _ _ _ Hat)) as (s1 & Hn & Hat1 & Hf).
  exists p, s1. split; [| split; [exact Hat1 | split; [exact Hf | exact (next_term _ _ Hn)]]].
  unfold identifier. rewrite Hc, Hn. reflexivity.
Qed.

(* what comes after the identifier a type starts with: nothing (a plain type
   name), "." or "["; never "(" *)
Lemma after_ident : forall t : typ, wfT t -> forall name l, printT t = TLiteral LIdent name :: l ->
  l = [] \/ exists tok l', l = tok :: l' /\ tok_is tok (KOp OParenLeft) = false.
Proof.
  intros t Hwf name l Hp. destruct t; cbn [Print2.printT] in Hp; try discriminate Hp.
  - left. inversion Hp. reflexivity.
  - right. inversion Hp. eexists _, _. split; reflexivity.
  - right. destruct Hwf as (Hb & _). destruct t; try destruct Hb; cbn [Print2.printT app] in Hp;
      inversion Hp; eexists _, _; split; reflexivity.
  - destruct dir; discriminate Hp.
  - destruct s as [ps [|] rs]; discriminate Hp.
Qed.

(* x1 | x2 | ... : the tail *)
Definition union_tail (r : list (bool * typ)) : list token :=
  flat_map (fun bt => tk OOr :: printTerm printX bt) r.

Lemma printUnion_cons : forall bt r,
  printUnion printX (bt :: r) = printTerm printX bt ++ union_tail r.
Proof.
  intros bt r. unfold printUnion, union_tail. cbn [map bars]. f_equal.
  induction r as [| a r IH]; [reflexivity |]. cbn [map flat_map]. rewrite IH. reflexivity.
Qed.

(* what may come after a type element: a token that is not "|" and continues
   no type *)
Definition ufollow (rst : list token) : Prop :=
  match rst with
  | [] => True
  | tok :: _ =>
      tok_is tok (KOp OOr) = false /\ tok_is tok (KOp ODot) = false /\
      tok_is tok (KOp OBarackLeft) = false /\ type_start tok = false
  end.

Lemma ufollow_tfollow : forall (t : typ) rst, ufollow rst -> tfollow t rst.
Proof.
  intros t [| tok r] H; [exact I |]. destruct H as (_ & H1 & H2 & H3).
  apply tfollow_tok; assumption.
Qed.

Lemma tfollow_union_tail : forall (t : typ) r rst, ufollow rst -> tfollow t (union_tail r ++ rst).
Proof.
  intros t [| bt r] rst H; [exact (ufollow_tfollow t rst H) |].
  apply tfollow_tok; reflexivity.
Qed.

Lemma ufollow_semi : forall rst, ufollow (tk OSemiColon :: rst).
Proof. intro rst. repeat split. Qed.

Lemma type_start_not_tilde : forall tok, type_start tok = true -> tok_is tok (KOp OTiled) = false.
Proof.
  intros tok H. destruct tok as [txt | k | op | lk txt]; try reflexivity.
  destruct op; try reflexivity; discriminate H.
Qed.

(* ------------------------------------------------------------ 2. type elements *)

Notation ndT := (fun bt : bool * typ => needT (snd bt)).
Notation dpT := (fun bt : bool * typ => depthT (snd bt)).

(*  [~]T  *)
Lemma type_term_toks : forall bt : bool * typ, wfT (snd bt) -> TP (snd bt) ->
  forall d (s : pstateT) rst,
  needT (snd bt) + 1 <= d -> at_toks s (printTerm printX bt ++ rst) -> tfollow (snd bt) rst ->
  sdepth s + depthT (snd bt) <= MAX_NESTING -> ln s <= lp s /\ lp s + depthT (snd bt) <= ln s + 64 ->
  exists n s1, PTT (PA d) s = Ok n s1 /\ erase n = shapeTerm shapeX bt /\
               at_toks s1 rst /\ frame s s1.
Proof.
  intros [b t] Hwf HT d s rst Hd Hat Hfo Hdep Hlev. cbn [fst snd] in *.
  unfold printTerm in Hat. cbn [fst snd] in Hat. unfold parse_type_term.
  destruct b.
  - cbn [app] in Hat.
    destruct (skipped_yes OPS s _ _ (KOp OTiled) Hat eq_refl) as (s1 & Hs & Hat1 & Hf1).
    destruct (HT d s1 rst) as (n & s2 & Hk & He & Hat2 & Hf2);
      [side | exact Hat1 | exact Hfo | side | side |].
    rewrite Hs. cbn [bind]. rewrite Hk. cbn [bind].
    eexists _, s2. split; [reflexivity |].
    split; [unfold shapeTerm; cbn [fst snd]; simpl; rewrite He; reflexivity |].
    split; [exact Hat2 | exact (frame_trans _ _ _ Hf1 Hf2)].
  - cbn [app] in Hat.
    destruct (first_tokT X printX wfX t Hwf) as (tok & l & Hp & Hst & _).
    assert (Hs : skipped A G D C E OPS (KOp OTiled) s = Ok false s).
    { apply (skipped_no OPS s _ _ Hat). rewrite Hp. cbn [app].
      apply type_start_not_tilde. exact Hst. }
    destruct (HT d s rst) as (n & s2 & Hk & He & Hat2 & Hf2);
      [side | exact Hat | exact Hfo | side | side |].
    rewrite Hs. cbn [bind]. rewrite Hk. cbn [bind].
    exists n, s2. split; [reflexivity |]. split; [exact He |]. split; [exact Hat2 | exact Hf2].
Qed.

(*  { "|" [~]T }  *)
Lemma type_elem_loop_toks : forall r : list (bool * typ),
  Forall (fun bt => wfT (snd bt) /\ TP (snd bt)) r ->
  forall d fuel n (s : pstateT) rst,
  maxT ndT r + 1 <= d ->
  sdepth s + maxT dpT r <= MAX_NESTING -> ln s <= lp s /\ lp s + maxT dpT r <= ln s + 64 ->
  at_toks s (union_tail r ++ rst) -> ufollow rst ->
  length (union_tail r) + 1 <= fuel ->
  exists n' s1, TEL (PA d) fuel n s = Ok n' s1 /\
    erase n' = fold_left (fun acc y => n_operation unit unit tt OOr acc (Some y))
                 (map (shapeTerm shapeX) r) (erase n) /\
    at_toks s1 rst /\ frame s s1.
Proof.
  intros r Hall. induction Hall as [| bt r (Hwb & HTb) Hall IH];
    intros d fuel n s rst Hd Hdep Hlev Hat Hfo Hfu.
  - cbn [union_tail flat_map app] in Hat. destruct fuel as [| f]; [simpl in Hfu; lia |].
    cbn [type_elem_loop].
    assert (Hc : cur_is A G D E s (KOp OOr) = false).
    { destruct rst as [| tok r0]; [apply cur_is_nil; exact Hat |].
      rewrite (cur_is_toks _ _ _ _ Hat). exact (proj1 Hfo). }
    rewrite Hc. exists n, s.
    split; [reflexivity |]. split; [reflexivity |]. split; [exact Hat | apply frame_refl].
  - unfold union_tail in Hat, Hfu. cbn [flat_map] in Hat, Hfu. fold (union_tail r) in Hat, Hfu.
    cbn [app] in Hat. rewrite <- app_assoc in Hat.
    cbn [maxT fold_right] in Hd, Hdep, Hlev. fold (maxT ndT r) in Hd. fold (maxT dpT r) in Hdep, Hlev.
    destruct fuel as [| f]; [simpl in Hfu; lia |]. cbn [type_elem_loop].
    rewrite (cur_is_toks _ _ _ _ Hat). change (tok_is (tk OOr) (KOp OOr)) with true. cbv iota.
    destruct (next_toks OPS _ _ (at_toks_rest' _ _ _ Hat)) as (s1 & Hn & Hat1 & Hf1).
    rewrite Hn. cbn [bind].
    destruct (type_term_toks bt Hwb HTb d s1 (union_tail r ++ rst))
      as (y & s2 & Hk & Hey & Hat2 & Hf2).
    + lia.
    + exact Hat1.
    + apply tfollow_union_tail. exact Hfo.
    + unframe. lia.
    + unframe. lia.
    + rewrite Hk. cbn [bind].
      pose proof (frame_trans _ _ _ Hf1 Hf2) as Hf12.
      destruct (IH d f (n_operation A C (cur_pos A G D E s) OOr n (Some y)) s2 rst)
        as (n' & s3 & Hl & He & Hat3 & Hf3).
      * lia.
      * unframe. lia.
      * unframe. lia.
      * exact Hat2.
      * exact Hfo.
      * rewrite app_length in Hfu. cbn [length] in Hfu. lia.
      * exists n', s3. split; [exact Hl |].
        split; [rewrite He; cbn [map fold_left]; simpl; rewrite Hey; reflexivity |].
        split; [exact Hat3 | exact (frame_trans _ _ _ Hf12 Hf3)].
Qed.

(*  [~]T { "|" [~]T }  *)
Lemma type_elem_toks : forall terms : list (bool * typ), terms <> [] ->
  Forall (fun bt => wfT (snd bt) /\ TP (snd bt)) terms ->
  forall d (s : pstateT) rst,
  maxT ndT terms + 1 <= d ->
  sdepth s + maxT dpT terms <= MAX_NESTING -> ln s <= lp s /\ lp s + maxT dpT terms <= ln s + 64 ->
  at_toks s (printUnion printX terms ++ rst) -> ufollow rst ->
  exists n s1, PTE (PA d) s = Ok n s1 /\ erase n = shapeUnion shapeX terms /\
               at_toks s1 rst /\ frame s s1.
Proof.
  intros terms Hne Hall d s rst Hd Hdep Hlev Hat Hfo.
  destruct Hall as [| bt r (Hwb & HTb) Hall]; [exfalso; apply Hne; reflexivity |].
  rewrite printUnion_cons, <- app_assoc in Hat.
  cbn [maxT fold_right] in Hd, Hdep, Hlev. fold (maxT ndT r) in Hd. fold (maxT dpT r) in Hdep, Hlev.
  destruct (type_term_toks bt Hwb HTb d s (union_tail r ++ rst))
    as (y & s1 & Hk & Hey & Hat1 & Hf1).
  - lia.
  - exact Hat.
  - apply tfollow_union_tail. exact Hfo.
  - lia.
  - lia.
  - destruct (type_elem_loop_toks r Hall d (loop_fuel A G D E s1) y s1 rst)
      as (n' & s2 & Hl & He & Hat2 & Hf2).
    + lia.
    + unframe. lia.
    + unframe. lia.
    + exact Hat1.
    + exact Hfo.
    + pose proof (loop_fuel_toks _ _ Hat1) as H. rewrite app_length in H. lia.
    + exists n', s2. unfold parse_type_elem. rewrite Hk. cbn [bind].
      split; [exact Hl |].
      split; [rewrite He, Hey; reflexivity |].
      split; [exact Hat2 | exact (frame_trans _ _ _ Hf1 Hf2)].
Qed.

(* ------------------------------------------------------------ 3. one element *)

(* one round of interface_loop: the element's field is appended *)
Definition ElemStep (d : nat) (e : ielem typ) (s : pstateT) (rst : list token) : Prop :=
  exists field s1,
    (forall f acc, ILOOP (PA d) (S f) acc s = ILOOP (PA d) f (acc ++ [field]) s1) /\
    erase field = shapeI shapeX e /\ at_toks s1 rst /\ marked s1 /\ frame s s1.

(*  name Signature ";"  *)
Lemma elem_method : forall name (sg : fsig typ), SigP sg -> forall d (s : pstateT) rst,
  needSig needX sg + 3 <= d ->
  sdepth s + depthSig depthX sg + 1 <= MAX_NESTING -> ln s <= lp s /\ lp s + depthSig depthX sg + 1 <= ln s + 64 ->
  at_toks s (printI printX (IMethod name sg) ++ rst) -> ElemStep d (IMethod name sg) s rst.
Proof.
  intros name sg HS d s rst Hd Hdep Hlev Hat.
  cbn [printI app] in Hat. rewrite <- app_assoc in Hat. cbn [app] in Hat.
  destruct (identifier_toks OPS s name _ 39 Hat) as (p & s1 & Hi & Hat1 & Hf1).
  destruct (HS d s1 (tk OSemiColon :: rst)) as (pn & rn & s2 & Hsig & Hep & Her & Hat2 & Hf2).
  - exact Hd.
  - exact Hat1.
  - apply tfollow_tok; reflexivity.
  - unframe. lia.
  - unframe. lia.
  - destruct (expect_toks_m A G D C E OPS s2 _ _ (KOp OSemiColon) 40 Hat2 eq_refl)
      as (p3 & s3 & Hx & Hat3 & Hf3 & Hm3).
    assert (Hpme : PME (PA d) s =
              Ok (n_field A C [n_ident A C p name]
                    (n_functype A C None (empty_fieldlist A C) pn rn) None (c_empty A G D C OPS)) s3).
    { unfold parse_method_elem. rewrite Hi. cbn [bind]. rewrite Hsig. cbn [bind].
      unfold semi_unless_brace. rewrite (cur_is_toks _ _ _ _ Hat2).
      change (tok_is (tk OSemiColon) (KOp OBraceRight)) with false. cbv iota.
      rewrite Hx. reflexivity. }
    eexists _, s3. split; [| split; [| split; [exact Hat3 | split; [exact Hm3 |
      exact (frame_trans _ _ _ (frame_trans _ _ _ Hf1 Hf2) Hf3)]]]].
    + intros f acc. cbn [interface_loop]. rewrite !(cur_is_toks _ _ _ _ Hat).
      change (tok_is (ident_tok name) (KOp OBraceRight)) with false.
      change (tok_is (ident_tok name) (KLit LIdent)) with true. cbv iota.
      rewrite Hpme. reflexivity.
    + destruct sg as [ps paren rs]. cbn [shapeI shapeSig]. simpl. rewrite Hep, Her. reflexivity.
Qed.

(* an element that starts with an identifier but is no method: parse_method_elem
   fails at once (no "(" after the identifier), leaving current = None *)
Lemma method_elem_fails : forall d (s : pstateT) name tok ts,
  at_toks s (TLiteral LIdent name :: tok :: ts) -> tok_is tok (KOp OParenLeft) = false ->
  exists e s1, PME (PA d) s = Err e s1 /\ sterm s1 = sterm s /\ frame s s1.
Proof.
  intros d s name tok ts Hat Hk.
  destruct (identifier_toks_t s name _ 39 Hat) as (p & s1 & Hi & Hat1 & Hf1 & Ht1).
  destruct (at_toks_cur _ _ _ Hat1) as (p1 & Hc1).
  eexists _, (upd_cur A G D E s1 None). split; [| split; [exact Ht1 | exact Hf1]].
  unfold parse_method_elem. rewrite Hi. cbn [bind].
  unfold signature, parameters, params_list, expect. rewrite Hc1, Hk. reflexivity.
Qed.

(* the type-element path of interface_loop, entered from state s0 (the state
   the failed parse_method_elem left, or s itself) *)
Lemma type_elem_path_toks : forall terms : list (bool * typ), terms <> [] ->
  Forall (fun bt => wfT (snd bt) /\ TP (snd bt)) terms ->
  forall d (s s0 : pstateT) rst,
  maxT ndT terms + 1 <= d ->
  sdepth s + maxT dpT terms <= MAX_NESTING -> ln s <= lp s /\ lp s + maxT dpT terms <= ln s + 64 ->
  marked s -> at_toks s (printUnion printX terms ++ tk OSemiColon :: rst) ->
  sterm s0 = sterm s -> frame s s0 ->
  exists s1 n s2 s3,
    goback A G D C E OPS (preback A G D E s) s0 = Ok tt s1 /\
    PTE (PA d) s1 = Ok n s2 /\ SUB 41 s2 = Ok tt s3 /\
    erase n = shapeUnion shapeX terms /\ at_toks s3 rst /\ marked s3 /\ frame s s3.
Proof.
  intros terms Hne Hall d s s0 rst Hd Hdep Hlev Hm Hat Ht0 Hf0.
  remember (printUnion printX terms ++ tk OSemiColon :: rst) as toks eqn:Htoks.
  destruct toks as [| t ts].
  { symmetry in Htoks. apply app_eq_nil in Htoks. destruct Htoks as (_ & H). discriminate H. }
  destruct (goback_toks A G D C E OPS s s0 t ts Hat Hm Ht0) as (s1 & Hg & Hat1 & Hf1 & Hm1).
  rewrite Htoks in Hat1. pose proof (frame_trans _ _ _ Hf0 Hf1) as Hf01.
  destruct (type_elem_toks terms Hne Hall d s1 (tk OSemiColon :: rst))
    as (n & s2 & Hpte & He & Hat2 & Hf2).
  - exact Hd.
  - unframe. lia.
  - unframe. lia.
  - exact Hat1.
  - apply ufollow_semi.
  - destruct (expect_toks_m A G D C E OPS s2 _ _ (KOp OSemiColon) 41 Hat2 eq_refl)
      as (p3 & s3 & Hx & Hat3 & Hf3 & Hm3).
    exists s1, n, s2, s3. split; [exact Hg |]. split; [exact Hpte |].
    split; [| split; [exact He | split; [exact Hat3 | split; [exact Hm3 |
      exact (frame_trans _ _ _ (frame_trans _ _ _ Hf01 Hf2) Hf3)]]]].
    unfold semi_unless_brace. rewrite (cur_is_toks _ _ _ _ Hat2).
    change (tok_is (tk OSemiColon) (KOp OBraceRight)) with false. cbv iota.
    rewrite Hx. reflexivity.
Qed.

Lemma type_start_not_brace : forall tok, type_start tok = true -> tok_is tok (KOp OBraceRight) = false.
Proof.
  intros tok H. destruct tok as [txt | k | op | lk txt]; try reflexivity.
  destruct op; try reflexivity; discriminate H.
Qed.

(* the first token of a type element; when it is an identifier, no "(" follows *)
Lemma union_first : forall terms : list (bool * typ), terms <> [] ->
  Forall (fun bt => wfT (snd bt)) terms -> forall rst,
  exists tok ts, printUnion printX terms ++ tk OSemiColon :: rst = tok :: ts /\
    tok_is tok (KOp OBraceRight) = false /\
    (tok_is tok (KLit LIdent) = true ->
       exists name tok1 ts1, tok = TLiteral LIdent name /\ ts = tok1 :: ts1 /\
                             tok_is tok1 (KOp OParenLeft) = false).
Proof.
  intros terms Hne Hall rst.
  destruct Hall as [| [b t] r Hwf Hall]; [exfalso; apply Hne; reflexivity |].
  cbn [snd] in Hwf. rewrite printUnion_cons. unfold printTerm. cbn [fst snd]. destruct b.
  - cbn [app]. eexists _, _. split; [reflexivity |]. split; [reflexivity | discriminate].
  - cbn [app]. destruct (first_tokT X printX wfX t Hwf) as (tok & l & Hp & Hst & _).
    rewrite Hp. cbn [app]. eexists _, _. split; [reflexivity |].
    split; [apply type_start_not_brace; exact Hst |].
    intro Hid. destruct tok as [txt | k | op | lk name]; try discriminate Hid.
    destruct lk; try discriminate Hid.
    destruct (after_ident t Hwf name l Hp) as [-> | (tok1 & l' & -> & Hk)].
    + cbn [app]. destruct r as [| bt r].
      * eexists _, _, _. split; [reflexivity |]. split; reflexivity.
      * eexists _, _, _. split; [reflexivity |]. split; reflexivity.
    + eexists _, _, _. split; [reflexivity |]. split; [reflexivity | exact Hk].
Qed.

(*  [~]T { "|" [~]T } ";"  *)
Lemma elem_union : forall terms : list (bool * typ), terms <> [] ->
  Forall (fun bt => wfT (snd bt) /\ TP (snd bt)) terms ->
  forall d (s : pstateT) rst,
  maxT ndT terms + 1 <= d ->
  sdepth s + maxT dpT terms <= MAX_NESTING -> ln s <= lp s /\ lp s + maxT dpT terms <= ln s + 64 ->
  marked s -> at_toks s (printI printX (IUnion terms) ++ rst) -> ElemStep d (IUnion terms) s rst.
Proof.
  intros terms Hne Hall d s rst Hd Hdep Hlev Hm Hat.
  cbn [printI] in Hat. rewrite <- app_assoc in Hat. cbn [app] in Hat.
  assert (Hwf : Forall (fun bt : bool * typ => wfT (snd bt)) terms).
  { apply (Forall_impl _ (fun bt H => proj1 H) Hall). }
  destruct (union_first terms Hne Hwf rst) as (tok & ts & Hp & Hbr & Hid).
  assert (Hat' : at_toks s (tok :: ts)) by (rewrite <- Hp; exact Hat).
  assert (Hres : forall (s0 : pstateT), sterm s0 = sterm s -> frame s s0 ->
    exists n s3,
      (forall f acc,
         bind A G D E (goback A G D C E OPS (preback A G D E s) s0) (fun _ s1 =>
          bind A G D E (PTE (PA d) s1) (fun typ s2 =>
          bind A G D E (SUB 41 s2) (fun _ s3 =>
          ILOOP (PA d) f (acc ++ [field_of A G D C OPS typ]) s3))) =
         ILOOP (PA d) f (acc ++ [field_of A G D C OPS n]) s3) /\
      erase n = shapeUnion shapeX terms /\ at_toks s3 rst /\ marked s3 /\ frame s s3).
  { intros s0 Ht0 Hf0.
    destruct (type_elem_path_toks terms Hne Hall d s s0 rst Hd Hdep Hlev Hm Hat Ht0 Hf0)
      as (s1 & n & s2 & s3 & Hg & Hpte & Hsub & He & Hat3 & Hm3 & Hf3).
    exists n, s3. split; [| split; [exact He | split; [exact Hat3 | split; [exact Hm3 | exact Hf3]]]].
    intros f acc. rewrite Hg. cbn [bind]. rewrite Hpte. cbn [bind]. rewrite Hsub. reflexivity. }
  destruct (tok_is tok (KLit LIdent)) eqn:Hident.
  - destruct (Hid eq_refl) as (name & tok1 & ts1 & -> & -> & Hnp).
    destruct (method_elem_fails d s name tok1 ts1 Hat' Hnp) as (e & s0 & Hpme & Ht0 & Hf0).
    destruct (Hres s0 Ht0 Hf0) as (n & s3 & Hstep & He & Hat3 & Hm3 & Hf3).
    exists (field_of A G D C OPS n), s3.
    split; [| split; [| split; [exact Hat3 | split; [exact Hm3 | exact Hf3]]]].
    + intros f acc. cbn [interface_loop]. rewrite !(cur_is_toks _ _ _ _ Hat').
      rewrite Hbr, Hident. cbv iota. rewrite Hpme. cbv iota. apply Hstep.
    + cbn [shapeI]. simpl. rewrite He. reflexivity.
  - destruct (Hres s eq_refl (frame_refl s)) as (n & s3 & Hstep & He & Hat3 & Hm3 & Hf3).
    exists (field_of A G D C OPS n), s3.
    split; [| split; [| split; [exact Hat3 | split; [exact Hm3 | exact Hf3]]]].
    + intros f acc. cbn [interface_loop]. rewrite !(cur_is_toks _ _ _ _ Hat').
      rewrite Hbr, Hident. cbv iota. apply Hstep.
    + cbn [shapeI]. simpl. rewrite He. reflexivity.
Qed.

(* ------------------------------------------------------------ 4. the loop *)

Lemma printI_len : forall e : ielem typ, 1 <= length (printI printX e).
Proof.
  intros [name sg | terms]; cbn [printI].
  - cbn [length]. lia.
  - rewrite app_length. cbn [length]. lia.
Qed.

(* the elements are handled relative to a base state s0 (all states of the
   loop are in the frame of s0) *)
Lemma interface_loop_toks : forall d (s0 : pstateT) (es : list (ielem typ)),
  Forall (fun e => forall (s : pstateT) rst, frame s0 s -> marked s ->
            at_toks s (printI printX e ++ rst) -> ElemStep d e s rst) es ->
  forall fuel acc (s : pstateT) rst,
  frame s0 s -> marked s ->
  at_toks s (flat_map (printI printX) es ++ tk OBraceRight :: rst) ->
  length (flat_map (printI printX) es) + 1 <= fuel ->
  exists ns s1, ILOOP (PA d) fuel acc s = Ok (acc ++ ns) s1 /\
    map erase ns = map (shapeI shapeX) es /\ at_toks s1 (tk OBraceRight :: rst) /\ frame s s1.
Proof.
  intros d s0 es Hall. induction Hall as [| e r He Hall IH];
    intros fuel acc s rst Hf0 Hm Hat Hfu.
  - cbn [flat_map app] in Hat. destruct fuel as [| f]; [simpl in Hfu; lia |].
    cbn [interface_loop]. rewrite (cur_is_toks _ _ _ _ Hat).
    change (tok_is (tk OBraceRight) (KOp OBraceRight)) with true. cbv iota.
    exists [], s. rewrite app_nil_r.
    split; [reflexivity |]. split; [reflexivity |]. split; [exact Hat | apply frame_refl].
  - cbn [flat_map] in Hat, Hfu. rewrite <- app_assoc in Hat. rewrite app_length in Hfu.
    pose proof (printI_len e) as Hlen.
    destruct fuel as [| f]; [lia |].
    destruct (He s _ Hf0 Hm Hat) as (field & s1 & Hstep & Hef & Hat1 & Hm1 & Hf1).
    rewrite Hstep.
    destruct (IH f (acc ++ [field]) s1 rst (frame_trans _ _ _ Hf0 Hf1) Hm1 Hat1)
      as (ns & s2 & Hl & Hes & Hat2 & Hf2); [lia |].
    exists (field :: ns), s2. split; [rewrite Hl, <- app_assoc; reflexivity |].
    split; [cbn [map]; rewrite Hef, Hes; reflexivity |].
    split; [exact Hat2 | exact (frame_trans _ _ _ Hf1 Hf2)].
Qed.

(* ------------------------------------------------------------ 5. the production *)

(* the per-element measures inlined in Print2 *)
Definition sizeI (e : ielem typ) : nat :=
  match e with
  | IMethod _ (Sig ps _ rs) =>
      S (sumT (fun g => sizeT (group_t g)) ps + sumT (fun g => sizeT (group_t g)) rs)
  | IUnion terms => S (sumT (fun bt : bool * typ => sizeT (snd bt)) terms)
  end.
Definition depthI (e : ielem typ) : nat :=
  match e with
  | IMethod _ (Sig ps _ rs) =>
      2 + Nat.max (maxT (fun g => depthT (group_t g)) ps) (maxT (fun g => depthT (group_t g)) rs)
  | IUnion terms => maxT (fun bt : bool * typ => depthT (snd bt)) terms
  end.
Definition needI (e : ielem typ) : nat :=
  match e with
  | IMethod _ (Sig ps _ rs) =>
      4 + Nat.max (maxT (fun g => needT (group_t g)) ps) (maxT (fun g => needT (group_t g)) rs)
  | IUnion terms => 4 + maxT (fun bt : bool * typ => needT (snd bt)) terms
  end.

Lemma sizeT_iface : forall es, sizeT (TInterface es) = S (sumT sizeI es).
Proof. reflexivity. Qed.
Lemma depthT_iface : forall es, depthT (TInterface es) = 3 + maxT depthI es.
Proof. reflexivity. Qed.
Lemma needT_iface : forall es, needT (TInterface es) = 4 + maxT needI es.
Proof. reflexivity. Qed.

Lemma allT_In : forall (Y : Type) (P : Y -> Prop) l a, allT P l -> In a l -> P a.
Proof.
  intros Y P l a H Hin. apply allT_Forall in H. rewrite Forall_forall in H. exact (H a Hin).
Qed.

Theorem TB_interface : forall es : list (ielem typ),
  (forall sg, sizeT (TFunc sg) < sizeT (TInterface es) -> wfSig wfX sg ->
              allX XOK (TFunc sg) -> SigP sg) ->
  IHT (sizeT (TInterface es)) ->
  wfT (TInterface es) -> allX XOK (TInterface es) -> TBP (TInterface es).
Proof.
  intros es HSig HI Hwf Hax d s rst Hd Hat Hfo Hdep Hlev.
  rewrite printT_interface in Hat. cbn [app] in Hat. rewrite <- app_assoc in Hat. cbn [app] in Hat.
  rewrite needT_iface in Hd. rewrite depthT_iface in Hdep, Hlev. rewrite sizeT_iface in HSig, HI.
  destruct (at_toks_cur _ _ _ Hat) as (p & Hc).
  destruct (expect_toks OPS s _ _ (KKw KInterface) 42 Hat eq_refl) as (p0 & s1 & Hx1 & Hat1 & Hf1).
  destruct (expect_toks_m A G D C E OPS s1 _ _ (KOp OBraceLeft) 43 Hat1 eq_refl)
    as (p1 & s2 & Hx2 & Hat2 & Hf2 & Hm2).
  pose proof (frame_trans _ _ _ Hf1 Hf2) as Hf12.
  assert (Hall : Forall (fun e => forall (s' : pstateT) rst', frame s2 s' -> marked s' ->
            at_toks s' (printI printX e ++ rst') -> ElemStep d e s' rst') es).
  { apply Forall_forall. intros e Hin s' rst' Hf' Hm' Hat'.
    pose proof (sumT_In _ sizeI es e Hin) as Hsz.
    pose proof (maxT_In _ depthI es e Hin) as Hdp.
    pose proof (maxT_In _ needI es e Hin) as Hnd.
    pose proof (allT_In _ _ es e Hwf Hin) as Hwe.
    pose proof (allT_In _ _ es e Hax Hin) as Hxe.
    cbv beta in Hwe, Hxe.
    destruct e as [name sg | terms].
    - assert (HS : SigP sg).
      { apply HSig.
        - destruct sg as [ps paren rs]. exact (le_n_S _ _ Hsz).
        - destruct sg as [ps paren rs]. exact Hwe.
        - destruct sg as [ps paren rs]. exact Hxe. }
      assert (Hn : needI (IMethod name sg) = 4 + needSig needX sg) by (destruct sg; reflexivity).
      assert (Hdd : depthI (IMethod name sg) = 2 + depthSig depthX sg) by (destruct sg; reflexivity).
      apply (elem_method name sg HS d s' rst'); [lia | unframe; lia | unframe; lia | exact Hat'].
    - destruct Hwe as (Hne & Hwt).
      change (needI (IUnion terms)) with (4 + maxT ndT terms) in Hnd.
      change (depthI (IUnion terms)) with (maxT dpT terms) in Hdp.
      apply (elem_union terms Hne); [| lia | unframe; lia | unframe; lia | exact Hm' | exact Hat'].
      apply Forall_forall. intros bt Hbt.
      pose proof (allT_In _ _ terms bt Hwt Hbt) as Hwb.
      pose proof (allT_In _ _ terms bt Hxe Hbt) as Hxb.
      cbv beta in Hwb, Hxb. split; [exact Hwb |].
      apply TNP_TP. apply HI; [| exact Hwb | exact Hxb].
      pose proof (sumT_In _ (fun bt : bool * typ => sizeT (snd bt)) terms bt Hbt) as Hsb.
      cbv beta in Hsb. change (sizeI (IUnion terms))
        with (S (sumT (fun bt : bool * typ => sizeT (snd bt)) terms)) in Hsz. lia. }
  destruct (interface_loop_toks d s2 es Hall (loop_fuel A G D E s2) [] s2 rst
              (frame_refl s2) Hm2 Hat2) as (ns & s3 & Hl & Hes & Hat3 & Hf3).
  { pose proof (loop_fuel_toks _ _ Hat2) as H. rewrite app_length in H. lia. }
  destruct (expect_toks OPS s3 _ _ (KOp OBraceRight) 44 Hat3 eq_refl) as (p2 & s4 & Hx4 & Hat4 & Hf4).
  exists (mk A C GTypeInterface [p0] [] [n_fieldlist A C (Some (p1, p2)) ns]), s4.
  split; [| split; [| split; [exact Hat4 |
    exact (frame_trans _ _ _ (frame_trans _ _ _ Hf12 Hf3) Hf4)]]].
  - unfold type_or_none_body. rewrite Hc. unfold kw. unfold parse_interface_type.
    rewrite Hx1. cbn [bind]. rewrite Hx2. cbn [bind]. rewrite Hl. cbn [bind app].
    rewrite Hx4. reflexivity.
  - rewrite shapeTy_interface, <- Hes. reflexivity.
Qed.

End Iface.
