(* Round trip for the simple statements of spec/Print.v ([stmt]), on top of the
   expression round trip (RoundTripProofs.expr_in_context used as a black box:
   statements of this fragment do not occur inside expressions). *)
From Coq Require Import List Arith NArith Lia Bool.
From GoSyn Require Import Token Tok Ast Core.
From GoSyn.spec Require Import Prec Print.
From GoSyn.proofs Require Import PrecProofs RoundTripProofs.
Import ListNotations.

Local Arguments next_toks {A G D C E} OPS s ts _.
Local Arguments at_toks_rest' {A G D E} s t ts _.
Local Arguments at_toks_cur {A G D E} s t ts _.
Local Arguments at_toks_nil {A G D E} s _.
Local Arguments expect_toks {A G D C E} OPS s t ts k site _ _.
Local Arguments skipped_yes {A G D C E} OPS s t ts k _ _.
Local Arguments skipped_no {A G D C E} OPS s ts k _ _.
Local Arguments cur_is_toks {A G D E} s t ts k _.
Local Arguments frame_trans {A G D E} s1 s2 s3 _ _.
Local Arguments frame_refl {A G D E} s.
Local Arguments loop_fuel_toks {A G D E} s ts _.
Local Arguments nested_intro {A G D E X} site f s x s2 _ _.

Ltac unframe :=
  repeat match goal with H : frame _ _ |- _ => destruct H as (? & ? & ? & ?) end.
Ltac side := solve [ assumption | reflexivity | lia | unframe; lia ].

Lemma expr_start_simple : forall t, expr_start t = true ->
  classify_stmt t = SCSimple /\ tok_is t (KOp OSemiColon) = false /\
  tok_is t (KOp OBraceRight) = false /\ tok_is t (KKw KRange) = false.
Proof.
  intros t H. destruct t as [txt | kw | op | lk txt]; simpl in H; try discriminate H;
    [| repeat split; reflexivity].
  destruct op; simpl in H; try discriminate H; repeat split; reflexivity.
Qed.

Lemma assign_define : forall op, is_assign_op op = true ->
  op = ODefine \/ op_eqb op ODefine = false.
Proof. intros op H; destruct op; try discriminate H; auto. Qed.

Lemma assign_follow : forall op rst, is_assign_op op = true ->
  follow 0 (tk op :: rst) /\ tok_is (tk op) (KOp OComma) = false.
Proof.
  intros op rst H. destruct op; try discriminate H;
    (split; [apply follow0_tok; reflexivity | reflexivity]).
Qed.

Lemma maxl_app : forall f l1 l2, maxl f (l1 ++ l2) = Nat.max (maxl f l1) (maxl f l2).
Proof. intros f l1 l2; induction l1 as [| a r IH]; simpl; [reflexivity | rewrite IH; lia]. Qed.

Section RTS.
Variables (A G D C E : Type).
Variable OPS : ops A G D C.
Notation nodeT := (node A C).
Notation pstateT := (pstate A G D E).
Notation cur := (s_cur A G D E).
Notation srest := (s_rest A G D E).
Notation sdepth := (s_depth A G D E).
Notation lp := (s_lp A G D E).
Notation ln := (s_ln A G D E).
Notation PA := (parsers_at A G D C E OPS).
Notation erase := (@erase A C).
Notation KE := (k_expr A G D C E).
Notation at_toks := (@at_toks A G D E).
Notation frame := (@frame A G D E).

(* Parser::expression in context *)
Lemma k_expr_ctx : forall e, wf e -> forall d (s : pstateT) rst,
  need e + 2 <= d -> at_toks s (print e ++ rst) -> follow 0 rst ->
  sdepth s + depth e <= MAX_NESTING -> lp s + depth e <= ln s + 65 ->
  exists n s1, KE (PA d) s = Ok n s1 /\ erase n = shape e /\ at_toks s1 rst /\ frame s s1.
Proof.
  intros e Hwf d s rst Hd Hat Hfo Hdep Hlev. destruct d as [| d1]; [lia |].
  change (KE (PA (S d1)) s) with (k_binary A G D C E (PA d1) None 0 s).
  apply (expr_in_context A G D C E OPS e Hwf d1 0 s rst); try assumption; [lia |].
  apply wf_tighter0; exact Hwf.
Qed.

(* what may follow an expression list: not a continuation of the last
   expression, and not a comma *)
Definition sep_follow (rst : list token) : Prop :=
  follow 0 rst /\ match rst with [] => True | t :: _ => tok_is t (KOp OComma) = false end.

Lemma follow0_comma_tail : forall l rst, follow 0 rst -> follow 0 (comma_tail l ++ rst).
Proof.
  intros l rst H. destruct l; [exact H | exact (follow0_tok OComma _ eq_refl eq_refl)].
Qed.

Lemma comma_list_ok : forall r, Forall wf r ->
  forall d fuel acc (s : pstateT) rst,
    sep_follow rst -> maxl need r + 2 <= d ->
    sdepth s + maxl depth r <= MAX_NESTING -> lp s + maxl depth r <= ln s + 65 ->
    at_toks s (comma_tail (map print r) ++ rst) ->
    length (comma_tail (map print r)) + 1 <= fuel ->
    exists ns s1,
      comma_list_loop A G D C E OPS fuel (KE (PA d)) acc s = Ok (acc ++ ns) s1 /\
      map erase ns = map shape r /\ at_toks s1 rst /\ frame s s1.
Proof.
  intros r Hall. induction Hall as [| b r Hwb Hall IH];
    intros d fuel acc s rst Hsep Hd Hdep Hlev Hat Hfu.
  - simpl in Hat. destruct fuel as [| f]; [lia |]. cbn [comma_list_loop].
    rewrite (skipped_no OPS s rst (KOp OComma) Hat (proj2 Hsep)). cbn [bind].
    exists [], s. rewrite app_nil_r.
    split; [reflexivity |]. split; [reflexivity |]. split; [exact Hat | apply frame_refl].
  - simpl in Hd, Hdep, Hlev, Hat, Hfu. rewrite <- app_assoc in Hat.
    destruct fuel as [| f]; [lia |]. cbn [comma_list_loop].
    destruct (skipped_yes OPS s _ _ (KOp OComma) Hat eq_refl) as (s1 & Hs & Hat1 & Hf1).
    rewrite Hs. cbn [bind].
    edestruct (k_expr_ctx b Hwb d s1) as (nb & s2 & Hk & Heb & Hat2 & Hf2);
      [side | exact Hat1 | apply follow0_comma_tail; exact (proj1 Hsep) | side | side |].
    rewrite Hk. cbn [bind].
    pose proof (frame_trans _ _ _ Hf1 Hf2) as Hf12.
    destruct (IH d f (acc ++ [nb]) s2 rst Hsep) as (ns & s3 & Hl & Hes & Hat3 & Hf3);
      [side | side | side | exact Hat2 | |].
    { unfold comma_tail in Hfu. rewrite app_length in Hfu.
      fold (comma_tail (map print r)) in Hfu. lia. }
    exists (nb :: ns), s3. split; [rewrite Hl, <- app_assoc; reflexivity |].
    split; [simpl; rewrite Heb, Hes; reflexivity |].
    split; [exact Hat3 | exact (frame_trans _ _ _ Hf12 Hf3)].
Qed.

Lemma exprs_ok : forall es, es <> [] -> Forall wf es ->
  forall d (s : pstateT) rst,
    sep_follow rst -> maxl need es + 2 <= d ->
    sdepth s + maxl depth es <= MAX_NESTING -> lp s + maxl depth es <= ln s + 65 ->
    at_toks s (commas (map print es) ++ rst) ->
    exists ns s1,
      expression_list A G D C E OPS (PA d) s = Ok ns s1 /\
      map erase ns = map shape es /\ at_toks s1 rst /\ frame s s1.
Proof.
  intros es Hne Hall d s rst Hsep Hd Hdep Hlev Hat.
  destruct Hall as [| a r Hwa Hall]; [exfalso; apply Hne; reflexivity |].
  simpl in Hd, Hdep, Hlev, Hat. fold (comma_tail (map print r)) in Hat.
  rewrite <- app_assoc in Hat. unfold expression_list.
  edestruct (k_expr_ctx a Hwa d s) as (na & s1 & Hk & Hea & Hat1 & Hf1);
    [side | exact Hat | apply follow0_comma_tail; exact (proj1 Hsep) | side | side |].
  rewrite Hk. cbn [bind].
  destruct (comma_list_ok r Hall d (loop_fuel A G D E s1) [na] s1 rst Hsep)
    as (ns & s2 & Hl & Hes & Hat2 & Hf2); [side | side | side | exact Hat1 | |].
  { pose proof (loop_fuel_toks s1 _ Hat1) as H. rewrite app_length in H. lia. }
  exists (na :: ns), s2. split; [exact Hl |].
  split; [simpl; rewrite Hea, Hes; reflexivity |].
  split; [exact Hat2 | exact (frame_trans _ _ _ Hf1 Hf2)].
Qed.

Lemma single_node : forall (ns : list nodeT) e, map erase ns = map shape [e] ->
  exists n, ns = [n] /\ erase n = shape e.
Proof.
  intros ns e H. destruct ns as [| n [| n2 r]]; simpl in H; try discriminate H.
  injection H as H. exists n; split; [reflexivity | exact H].
Qed.

Lemma check_assign_ok : forall l (ns : list nodeT) (s : pstateT),
  map erase ns = map shape l -> all is_ident l ->
  check_assign_stmt A G D C E ns s = Ok tt s.
Proof.
  induction l as [| e r IH]; intros ns s Hes Hid; destruct ns as [| n ns']; simpl in Hes;
    try discriminate Hes; [reflexivity |].
  injection Hes as Hn Hr. destruct Hid as (He & Hid). cbn [check_assign_stmt].
  rewrite <- (is_tag_erase A C), Hn. destruct e; try destruct He.
  change (is_tag GIdent (shape (EIdent name))) with true. cbv iota.
  apply IH; assumption.
Qed.

Lemma semi_follow : forall rst, sep_follow (tk OSemiColon :: rst).
Proof. intro rst. split; [apply follow0_tok; reflexivity | reflexivity]. Qed.

Notation PSS := (parse_simple_stmt A G D C E OPS).
Notation SB := (stmt_body A G D C E OPS).

(* the statement productions, standing at the statement and leaving the parser
   after its ";" — whatever follows *)
Definition stmt_ok (st : stmt) : Prop := forall d (s : pstateT) rst,
  need_stmt st + 2 <= d ->
  sdepth s + depth_stmt st <= MAX_NESTING -> lp s + depth_stmt st <= ln s + 65 ->
  at_toks s (print_stmt st ++ rst) ->
  exists n s1, SB (PA d) s = Ok n s1 /\ erase n = shape_stmt st /\ at_toks s1 rst /\ frame s s1.

Lemma start_simple : forall e (s : pstateT) ts, wf e -> at_toks s (print e ++ ts) ->
  exists pos tok, cur s = Some (pos, tok) /\ classify_stmt tok = SCSimple.
Proof.
  intros e s ts Hwf Hat. destruct (first_tok e Hwf) as (t & l0 & Hp & Hst & _).
  rewrite Hp in Hat. simpl in Hat. destruct (at_toks_cur _ _ _ Hat) as (p & Hc).
  exists p, t. split; [exact Hc | exact (proj1 (expr_start_simple t Hst))].
Qed.

Lemma stmt_expr : forall e, wf_stmt (SExpr e) -> stmt_ok (SExpr e).
Proof.
  intros e Hwf d s rst Hd Hdep Hlev Hat.
  unfold need_stmt, depth_stmt in *. unfold print_stmt in Hat. simpl in Hwf, Hd, Hdep, Hlev, Hat.
  rewrite <- app_assoc in Hat. simpl in Hat.
  destruct (start_simple e s _ Hwf Hat) as (pos & tok & Hc & Hcl).
  destruct (exprs_ok [e] ltac:(discriminate) (Forall_cons _ Hwf (Forall_nil _)) d s
              (tk OSemiColon :: rst) (semi_follow rst))
    as (ns & s1 & Hl & Hes & Hat1 & Hf1); [simpl; side | simpl; side | simpl; side | |].
  { simpl. rewrite app_nil_r. exact Hat. }
  destruct (single_node ns e Hes) as (n & -> & He).
  destruct (at_toks_cur _ _ _ Hat1) as (p1 & Hc1).
  destruct (skipped_yes OPS s1 _ _ (KOp OSemiColon) Hat1 eq_refl) as (s2 & Hs & Hat2 & Hf2).
  exists (mk A C GExprStmt [] [] [n]), s2.
  split; [| split; [simpl; rewrite He; reflexivity |
                    split; [exact Hat2 | exact (frame_trans _ _ _ Hf1 Hf2)]]].
  unfold stmt_body. rewrite Hc, Hcl. unfold parse_simple_stmt. rewrite Hl. cbn [bind].
  rewrite Hc1. unfold tk. cbn [is_assign_op check_single_expr bind]. rewrite Hs. reflexivity.
Qed.

Lemma stmt_incdec : forall op e, wf_stmt (SIncDec op e) -> stmt_ok (SIncDec op e).
Proof.
  intros op e (Hop & Hwf) d s rst Hd Hdep Hlev Hat.
  unfold need_stmt, depth_stmt in *. unfold print_stmt in Hat. simpl in Hd, Hdep, Hlev, Hat.
  repeat (rewrite <- app_assoc in Hat; simpl in Hat).
  destruct (start_simple e s _ Hwf Hat) as (pos & tok & Hc & Hcl).
  assert (Hsep : sep_follow (tk op :: tk OSemiColon :: rst)).
  { destruct Hop as [-> | ->]; (split; [apply follow0_tok; reflexivity | reflexivity]). }
  destruct (exprs_ok [e] ltac:(discriminate) (Forall_cons _ Hwf (Forall_nil _)) d s _ Hsep)
    as (ns & s1 & Hl & Hes & Hat1 & Hf1); [simpl; side | simpl; side | simpl; side | |].
  { simpl. rewrite app_nil_r. exact Hat. }
  destruct (single_node ns e Hes) as (n & -> & He).
  destruct (at_toks_cur _ _ _ Hat1) as (p1 & Hc1).
  destruct (next_toks OPS _ _ (at_toks_rest' _ _ _ Hat1)) as (s2 & Hn & Hat2 & Hf2).
  destruct (skipped_yes OPS s2 _ _ (KOp OSemiColon) Hat2 eq_refl) as (s3 & Hs & Hat3 & Hf3).
  exists (mk A C GIncDec [p1] [AOp op] [n]), s3.
  split; [| split; [simpl; rewrite He; reflexivity |
                    split; [exact Hat3 |
                            exact (frame_trans _ _ _ (frame_trans _ _ _ Hf1 Hf2) Hf3)]]].
  unfold stmt_body. rewrite Hc, Hcl. unfold parse_simple_stmt. rewrite Hl. cbn [bind].
  rewrite Hc1. unfold tk.
  destruct Hop as [-> | ->]; cbn [is_assign_op check_single_expr bind]; rewrite Hn; cbn [bind];
    rewrite Hs; reflexivity.
Qed.

Lemma stmt_send : forall ch v, wf_stmt (SSend ch v) -> stmt_ok (SSend ch v).
Proof.
  intros ch v (Hwc & Hwv) d s rst Hd Hdep Hlev Hat.
  unfold need_stmt, depth_stmt in *. unfold print_stmt in Hat. simpl in Hd, Hdep, Hlev, Hat.
  repeat (rewrite <- app_assoc in Hat; simpl in Hat).
  destruct (start_simple ch s _ Hwc Hat) as (pos & tok & Hc & Hcl).
  assert (Hsep : sep_follow (tk OArrow :: print v ++ tk OSemiColon :: rst)).
  { split; [apply follow0_tok; reflexivity | reflexivity]. }
  destruct (exprs_ok [ch] ltac:(discriminate) (Forall_cons _ Hwc (Forall_nil _)) d s _ Hsep)
    as (ns & s1 & Hl & Hes & Hat1 & Hf1); [simpl; side | simpl; side | simpl; side | |].
  { simpl. rewrite app_nil_r. exact Hat. }
  destruct (single_node ns ch Hes) as (n & -> & He).
  destruct (at_toks_cur _ _ _ Hat1) as (p1 & Hc1).
  destruct (next_toks OPS _ _ (at_toks_rest' _ _ _ Hat1)) as (s2 & Hn & Hat2 & Hf2).
  pose proof (frame_trans _ _ _ Hf1 Hf2) as Hf12.
  edestruct (k_expr_ctx v Hwv d s2) as (nv & s3 & Hk & Hev & Hat3 & Hf3);
    [side | exact Hat2 | apply follow0_tok; reflexivity | side | side |].
  destruct (skipped_yes OPS s3 _ _ (KOp OSemiColon) Hat3 eq_refl) as (s4 & Hs & Hat4 & Hf4).
  exists (mk A C GSend [p1] [] [n; nv]), s4.
  split; [| split; [simpl; rewrite He, Hev; reflexivity |
                    split; [exact Hat4 |
                            exact (frame_trans _ _ _ (frame_trans _ _ _ Hf12 Hf3) Hf4)]]].
  unfold stmt_body. rewrite Hc, Hcl. unfold parse_simple_stmt. rewrite Hl. cbn [bind].
  rewrite Hc1. unfold tk. cbn [is_assign_op check_single_expr bind]. rewrite Hn. cbn [bind].
  rewrite Hk. cbn [bind]. rewrite Hs. reflexivity.
Qed.

Lemma map_erase_length : forall (ns : list nodeT) l, map erase ns = map shape l ->
  length ns = length l.
Proof.
  intros ns l H. rewrite <- (map_length erase ns), H, map_length. reflexivity.
Qed.

Lemma stmt_assign : forall op l r, wf_stmt (SAssign op l r) -> stmt_ok (SAssign op l r).
Proof.
  intros op l r (Hop & Hl & Hr & Hlen & Hwl & Hwr & Hdef) d s rst Hd Hdep Hlev Hat.
  unfold need_stmt, depth_stmt in *. unfold print_stmt in Hat. simpl in Hd, Hdep, Hlev, Hat.
  rewrite maxl_app in Hd, Hdep, Hlev.
  apply all_Forall in Hwl. apply all_Forall in Hwr.
  assert (Hst : exists pos tok, cur s = Some (pos, tok) /\ classify_stmt tok = SCSimple).
  { destruct Hwl as [| a l' Hwa _]; [exfalso; apply Hl; reflexivity |].
    simpl in Hat. rewrite <- !app_assoc in Hat.
    exact (start_simple a s _ Hwa Hat). }
  destruct Hst as (pos & tok & Hc & Hcl).
  repeat (rewrite <- app_assoc in Hat; simpl in Hat).
  destruct (assign_follow op (commas (map print r) ++ tk OSemiColon :: rst) Hop) as (Hfo & Hnc).
  destruct (exprs_ok l Hl Hwl d s _ (conj Hfo Hnc))
    as (nl & s1 & Hll & Hel & Hat1 & Hf1); [side | side | side | exact Hat |].
  destruct (at_toks_cur _ _ _ Hat1) as (p1 & Hc1).
  destruct (next_toks OPS _ _ (at_toks_rest' _ _ _ Hat1)) as (s2 & Hn & Hat2 & Hf2).
  pose proof (frame_trans _ _ _ Hf1 Hf2) as Hf12.
  assert (Hrange : cur_is A G D E s2 (KKw KRange) = false).
  { destruct Hwr as [| b r' Hwb _]; [exfalso; apply Hr; reflexivity |].
    destruct (first_tok b Hwb) as (t & l0 & Hp & Hstt & _).
    simpl in Hat2. rewrite Hp in Hat2. rewrite <- !app_assoc in Hat2. simpl in Hat2.
    rewrite (cur_is_toks _ _ _ _ Hat2). exact (proj2 (proj2 (proj2 (expr_start_simple t Hstt)))). }
  destruct (exprs_ok r Hr Hwr d s2 _ (semi_follow rst))
    as (nr & s3 & Hlr & Her & Hat3 & Hf3); [side | side | side | exact Hat2 |].
  pose proof (frame_trans _ _ _ Hf12 Hf3) as Hf13.
  destruct (skipped_yes OPS s3 _ _ (KOp OSemiColon) Hat3 eq_refl) as (s4 & Hs & Hat4 & Hf4).
  assert (Hlt : (length nl <? length nr) = false).
  { rewrite (map_erase_length nl l Hel), (map_erase_length nr r Her).
    apply Nat.ltb_ge. exact Hlen. }
  exists (mk A C GAssign [p1] [AOp op] [nlist nl; nlist nr]), s4.
  split; [| split; [simpl; change (fun x : nodeT => erase x) with erase; rewrite Hel, Her;
                    reflexivity |
                    split; [exact Hat4 | exact (frame_trans _ _ _ Hf13 Hf4)]]].
  unfold stmt_body. rewrite Hc, Hcl. unfold parse_simple_stmt. rewrite Hll. cbn [bind].
  rewrite Hc1. unfold tk. cbv iota. rewrite Hop. rewrite Hn. cbn [bind]. rewrite Hrange.
  cbn [andb]. cbv iota. rewrite Hlr. cbn [bind].
  destruct (assign_define op Hop) as [Hd' | Hd'].
  - subst op. change (op_eqb ODefine ODefine) with true. cbv iota.
    rewrite (check_assign_ok l nl s3 Hel (Hdef eq_refl)). cbn [bind]. rewrite Hlt. cbn [bind].
    rewrite Hs. reflexivity.
  - rewrite Hd'. cbn [bind]. rewrite Hlt. cbn [bind]. rewrite Hs. reflexivity.
Qed.

Lemma stmt_return : forall es, wf_stmt (SReturn es) -> stmt_ok (SReturn es).
Proof.
  intros es Hw d s rst Hd Hdep Hlev Hat.
  unfold need_stmt, depth_stmt in *. unfold print_stmt in Hat. simpl in Hw, Hd, Hdep, Hlev, Hat.
  apply all_Forall in Hw.
  destruct (at_toks_cur _ _ _ Hat) as (pos & Hc).
  destruct (expect_toks OPS s _ _ (KKw KReturn) 85 Hat eq_refl) as (p0 & s1 & Hx & Hat1 & Hf1).
  rewrite <- app_assoc in Hat1. simpl in Hat1.
  destruct es as [| e r].
  - simpl in Hat1.
    destruct (skipped_yes OPS s1 _ _ (KOp OSemiColon) Hat1 eq_refl) as (s2 & Hs & Hat2 & Hf2).
    exists (mk A C GReturn [p0] [] []), s2.
    split; [| split; [reflexivity | split; [exact Hat2 | exact (frame_trans _ _ _ Hf1 Hf2)]]].
    unfold stmt_body. rewrite Hc. cbn [classify_stmt]. unfold parse_return_stmt.
    rewrite Hx. cbn [bind]. unfold cur_not at 1.
    rewrite (cur_is_toks _ _ _ (KOp OSemiColon) Hat1).
    change (tok_is (tk OSemiColon) (KOp OSemiColon)) with true. cbn [negb andb]. cbn [bind].
    rewrite Hs. reflexivity.
  - destruct (exprs_ok (e :: r) ltac:(discriminate) Hw d s1 _ (semi_follow rst))
      as (ns & s2 & Hl & Hes & Hat2 & Hf2); [side | side | side | exact Hat1 |].
    destruct (skipped_yes OPS s2 _ _ (KOp OSemiColon) Hat2 eq_refl) as (s3 & Hs & Hat3 & Hf3).
    exists (mk A C GReturn [p0] [] ns), s3.
    split; [| split; [simpl; change (fun x : nodeT => erase x) with erase; rewrite Hes;
                      reflexivity |
                      split; [exact Hat3 |
                              exact (frame_trans _ _ _ (frame_trans _ _ _ Hf1 Hf2) Hf3)]]].
    unfold stmt_body. rewrite Hc. cbn [classify_stmt]. unfold parse_return_stmt.
    rewrite Hx. cbn [bind].
    assert (Hnot : cur_not A G D E s1 (KOp OSemiColon) && cur_not A G D E s1 (KOp OBraceRight)
                   = true).
    { inversion Hw as [| ? ? Hwe _]; subst.
      destruct (first_tok e Hwe) as (t & l0 & Hp & Hstt & _).
      simpl in Hat1. rewrite Hp in Hat1. rewrite <- !app_assoc in Hat1. simpl in Hat1.
      unfold cur_not. rewrite !(cur_is_toks _ _ _ _ Hat1).
      destruct (expr_start_simple t Hstt) as (_ & H1 & H2 & _). rewrite H1, H2. reflexivity. }
    rewrite Hnot. rewrite Hl. cbn [bind]. rewrite Hs. reflexivity.
Qed.

Lemma stmt_go_defer : forall (is_go : bool) c, wf c -> is_call c ->
  stmt_ok (if is_go then SGo c else SDefer c).
Proof.
  intros is_go c Hwf Hcall d s rst Hd Hdep Hlev Hat.
  assert (Hat' : at_toks s (TKeyword (if is_go then KGo else KDefer) ::
                              print c ++ tk OSemiColon :: rst)).
  { unfold print_stmt in Hat. destruct is_go; simpl in Hat; rewrite <- app_assoc in Hat; exact Hat. }
  assert (Hd' : need c + 2 <= d) by (destruct is_go; unfold need_stmt in Hd; simpl in Hd; lia).
  assert (Hdep' : sdepth s + depth c <= MAX_NESTING)
    by (destruct is_go; unfold depth_stmt in Hdep; simpl in Hdep; lia).
  assert (Hlev' : lp s + depth c <= ln s + 65)
    by (destruct is_go; unfold depth_stmt in Hlev; simpl in Hlev; lia).
  destruct (at_toks_cur _ _ _ Hat') as (pos & Hc).
  assert (Hk0 : tok_is (TKeyword (if is_go then KGo else KDefer))
                       (KKw (if is_go then KGo else KDefer)) = true) by (destruct is_go; reflexivity).
  destruct (expect_toks OPS s _ _ _ 82 Hat' Hk0) as (p0 & s1 & Hx & Hat1 & Hf1).
  edestruct (k_expr_ctx c Hwf d s1) as (n & s2 & Hk & He & Hat2 & Hf2);
    [side | exact Hat1 | apply follow0_tok; reflexivity | side | side |].
  destruct (skipped_yes OPS s2 _ _ (KOp OSemiColon) Hat2 eq_refl) as (s3 & Hs & Hat3 & Hf3).
  assert (Htag : is_tag GCall n = true).
  { rewrite <- (is_tag_erase A C), He. destruct c; try destruct Hcall. reflexivity. }
  exists (mk A C (if is_go then GGo else GDefer) [p0] [] [n]), s3.
  split; [| split; [destruct is_go; simpl; rewrite He; reflexivity |
                    split; [exact Hat3 |
                            exact (frame_trans _ _ _ (frame_trans _ _ _ Hf1 Hf2) Hf3)]]].
  unfold stmt_body. rewrite Hc.
  assert (Hpg : parse_go_defer A G D C E OPS (PA d) is_go s =
                Ok (mk A C (if is_go then GGo else GDefer) [p0] [] [n]) s3).
  { unfold parse_go_defer. rewrite Hx. cbn [bind]. rewrite Hk. cbn [bind]. rewrite Htag.
    rewrite Hs. reflexivity. }
  destruct is_go; cbn [classify_stmt]; exact Hpg.
Qed.

Theorem stmt_contract : forall st, wf_stmt st -> stmt_ok st.
Proof.
  intros st Hwf. destruct st as [e | op l r | op e | ch v | es | c | c].
  - apply stmt_expr; exact Hwf.
  - apply stmt_assign; exact Hwf.
  - apply stmt_incdec; exact Hwf.
  - apply stmt_send; exact Hwf.
  - apply stmt_return; exact Hwf.
  - exact (stmt_go_defer true c (proj1 Hwf) (proj2 Hwf)).
  - exact (stmt_go_defer false c (proj1 Hwf) (proj2 Hwf)).
Qed.

(* through the recursion hub and the public entry point Parser::parse_stmt *)
Theorem stmt_in_context : forall st, wf_stmt st -> forall d (s : pstateT) rst,
  need_stmt st + 3 <= d ->
  sdepth s + 1 + depth_stmt st <= MAX_NESTING -> lp s + depth_stmt st <= ln s + 65 ->
  at_toks s (print_stmt st ++ rst) ->
  exists n s1,
    k_stmt A G D C E (PA d) s = Ok n s1 /\ erase n = shape_stmt st /\
    at_toks s1 rst /\ frame s s1.
Proof.
  intros st Hwf d s rst Hd Hdep Hlev Hat. destruct d as [| d1]; [lia |].
  change (k_stmt A G D C E (PA (S d1)) s) with (nested A G D E 142 (SB (PA d1)) s).
  set (s0 := upd_depth A G D E s (S (sdepth s))).
  destruct (stmt_contract st Hwf d1 s0 rst) as (n & s1 & Hk & He & Hat1 & Hf1).
  - lia.
  - change (sdepth s0) with (S (sdepth s)). lia.
  - exact Hlev.
  - exact Hat.
  - exists n, (upd_depth A G D E s1 (pred (sdepth s1))).
    split; [apply nested_intro; [lia | exact Hk] |].
    split; [exact He |]. split; [exact Hat1 |].
    destruct Hf1 as (Hd1 & k & Ha & Hb). split.
    + change (sdepth (upd_depth A G D E s1 (pred (sdepth s1)))) with (pred (sdepth s1)).
      rewrite Hd1. reflexivity.
    + exists k. split; [exact Ha | exact Hb].
Qed.

Theorem stmt_roundtrip : forall st, wf_stmt st -> depth_stmt st <= DEPTH_BOUND ->
  forall d a0 d0 (elems : list (selem A G)) ae ge,
    map tok_of elems = print_stmt st -> need_stmt st + 3 <= d ->
    exists n s',
      entry_stmt A G D C E OPS (PA d) (init_state A G D E a0 d0 elems (TEof ae ge)) = Ok n s' /\
      erase n = shape_stmt st /\ cur s' = None /\ srest s' = [].
Proof.
  intros st Hwf Hb d a0 d0 elems ae ge Hel Hd. unfold DEPTH_BOUND in Hb.
  set (si := init_state A G D E a0 d0 elems (TEof ae ge)).
  assert (Hr : rest_toks A G D E si (print_stmt st)).
  { split; [exists ae, ge; reflexivity | exact Hel]. }
  destruct (next_toks OPS si _ Hr) as (s0 & Hn & Hat0 & Hf0).
  unfold entry_stmt, ensure_started.
  change (s_started A G D E si) with false. cbv iota. rewrite Hn. cbn [bind].
  destruct Hf0 as (Hd0 & k & Ha & Hb0).
  change (sdepth si) with 0 in Hd0. change (lp si) with 1 in Ha. change (ln si) with 0 in Hb0.
  destruct (stmt_in_context st Hwf d s0 []) as (n & s1 & Hk & He & Hat1 & _).
  - exact Hd.
  - unfold MAX_NESTING. lia.
  - lia.
  - rewrite app_nil_r. exact Hat0.
  - exists n, s1. split; [exact Hk |]. split; [exact He |]. exact (at_toks_nil _ Hat1).
Qed.

End RTS.

(* Parser::parse_stmt on the whole token list, demo instance (PrecProofs.demo_ops) *)
Definition demo_stmt_shape (l : list token) : option (node unit unit) :=
  match entry_stmt nat unit unit unit unit demo_ops
          (parsers_at nat unit unit unit unit demo_ops (2 * length l + 8))
          (init_state nat unit unit unit 0 tt (demo_stream 0 l) (TEof (length l) tt)) with
  | Ok n s => match s_cur _ _ _ _ s with None => Some (erase n) | Some _ => None end
  | _ => None
  end.
