(* Round trip for TYPES (spec/Print2.v), base: the contracts of the type
   productions and the leaf facts shared by the per-production files.

   Everything is generic in the type X of expression derivations occurring in
   array lengths: what is assumed of X is [XKE] (Parser::expression in context
   returns the tree of x) and [Xstart] (an expression starts neither with "]"
   nor with "..."). *)
From Coq Require Import List Arith NArith Lia Bool.
From GoSyn Require Import Token Tok Ast Core.
From GoSyn.spec Require Import Prec Print Print2.
From GoSyn.proofs Require Import PrecProofs RoundTripProofs.
Import ListNotations.

#[global] Arguments next_toks {A G D C E} OPS s ts _.
#[global] Arguments at_toks_rest {A G D E} s t ts _.
#[global] Arguments at_toks_rest' {A G D E} s t ts _.
#[global] Arguments at_toks_cur {A G D E} s t ts _.
#[global] Arguments at_toks_nil {A G D E} s _.
#[global] Arguments expect_toks {A G D C E} OPS s t ts k site _ _.
#[global] Arguments skipped_yes {A G D C E} OPS s t ts k _ _.
#[global] Arguments skipped_no {A G D C E} OPS s ts k _ _.
#[global] Arguments identifier_toks {A G D C E} OPS s name ts site _.
#[global] Arguments cur_is_toks {A G D E} s t ts k _.
#[global] Arguments frame_trans {A G D E} s1 s2 s3 _ _.
#[global] Arguments frame_refl {A G D E} s.
#[global] Arguments frame_depth {A G D E} s s' n m _ _.
#[global] Arguments frame_level {A G D E} s s' n _ _.
#[global] Arguments loop_fuel_toks {A G D E} s ts _.
#[global] Arguments nested_intro {A G D E X} site f s x s2 _ _.
#[global] Arguments inc_level_ok {A G D E} s site _.
#[global] Arguments is_tag_erase {A C} t n.

Ltac unframe :=
  repeat match goal with H : frame _ _ |- _ => destruct H as (? & ? & ? & ?) end.
Ltac side := solve [ assumption | reflexivity | lia | unframe; lia ].

(* ------------------------------------------------------------ facts about the spec *)

Section Spec.
Variable X : Type.
Variables (printX : X -> list token) (shapeX : X -> shapeT).
Notation typ := (typ X).
Notation printT := (printT printX).
Notation shapeTy := (shapeTy shapeX).

Lemma printT_func : forall s : fsig typ, printT (TFunc s) = kw KFunc :: printSig printX s.
Proof. intros [ps [|] rs]; reflexivity. Qed.

Lemma printT_struct : forall fs,
  printT (TStruct fs) = kw KStruct :: tk OBraceLeft :: flat_map (printF printX) fs ++ [tk OBraceRight].
Proof. intro fs. reflexivity. Qed.

Lemma printI_inline : forall es : list (ielem typ),
  flat_map (printI printX) es =
  flat_map (fun e =>
    match e with
    | IMethod name (Sig ps paren rs) =>
        let pg (g : group typ) :=
          match g with
          | Group names v t =>
              commas (map (fun n => [ident_tok n]) names) ++
              (if v then [tk ODotDotDot] else []) ++ printT t
          end in
        ident_tok name :: tk OParenLeft :: commas (map pg ps) ++ tk OParenRight ::
        (if paren then tk OParenLeft :: commas (map pg rs) ++ [tk OParenRight]
         else commas (map pg rs)) ++ [tk OSemiColon]
    | IUnion terms =>
        bars (map (fun bt : bool * typ =>
                     (if fst bt then [tk OTiled] else []) ++ printT (snd bt)) terms)
        ++ [tk OSemiColon]
    end) es.
Proof.
  induction es as [| e r IH]; [reflexivity |]. cbn [flat_map]. rewrite IH. f_equal.
  destruct e as [name [ps [|] rs] | terms]; cbn [printI printSig]; try reflexivity.
  - cbn [app]. do 2 f_equal. rewrite <- app_assoc. reflexivity.
  - cbn [app]. do 2 f_equal. rewrite <- app_assoc. reflexivity.
Qed.

Lemma printT_interface : forall es,
  printT (TInterface es) =
  kw KInterface :: tk OBraceLeft :: flat_map (printI printX) es ++ [tk OBraceRight].
Proof. intro es. rewrite printI_inline. reflexivity. Qed.

Lemma shapeTy_func : forall s : fsig typ, shapeTy (TFunc s) = shapeSig shapeX true s.
Proof. intros [ps paren rs]; reflexivity. Qed.

Lemma shapeTy_struct : forall fs,
  shapeTy (TStruct fs) = mk unit unit GTypeStruct [tt; tt] [] (map (shapeF shapeX) fs).
Proof.
  intro fs. cbn [Print2.shapeTy]. do 2 f_equal.
Qed.

Lemma shapeTy_interface : forall es,
  shapeTy (TInterface es) =
  mk unit unit GTypeInterface [tt] [] [sh_fieldlist true (map (shapeI shapeX) es)].
Proof.
  intro es. cbn [Print2.shapeTy].
  replace (map (shapeI shapeX) es) with
    (map (fun e : ielem typ =>
       match e with
       | IMethod name (Sig ps paren rs) =>
           sh_field [name]
             (n_functype unit unit None (sh_fieldlist false [])
                (sh_fieldlist true (map (shapeG shapeX) ps))
                (sh_fieldlist paren (map (shapeG shapeX) rs))) None
       | IUnion terms => sh_field [] (sh_union (map (shapeTerm shapeX) terms)) None
       end) es); [reflexivity |].
  apply map_ext. intros [name [ps paren rs] | terms]; reflexivity.
Qed.
End Spec.

(* ------------------------------------------------------------ states *)

Section TB.
Variables (A G D C E : Type).
Variable OPS : ops A G D C.
Notation nodeT := (node A C).
Notation pstateT := (pstate A G D E).
Notation cur := (s_cur A G D E).
Notation srest := (s_rest A G D E).
Notation sdepth := (s_depth A G D E).
Notation lp := (s_lp A G D E).
Notation ln := (s_ln A G D E).
Notation PA := (parsers_at A G D C E OPS).
Notation erase := (@erase A C).
Notation at_toks := (@at_toks A G D E).
Notation frame := (@frame A G D E).

(* the mark is the stream from the current token on: what goback re-scans *)
Definition marked (s : pstateT) : Prop :=
  match cur s with
  | None => True
  | Some (p, t) => exists a1 g, s_mark A G D E s = SE p a1 t g :: srest s
  end.

Lemma next_marked : forall s s1, next A G D C E OPS s = Ok tt s1 -> marked s1.
Proof.
  intros s s1. unfold next, marked.
  destruct (srest s) as [| [b0 b1 t h] r] eqn:Hr.
  - destruct (s_term A G D E s); intro H; inversion H; subst; simpl; exact I.
  - intro H; inversion H; subst; simpl. eauto.
Qed.

(* expect / skipped / identifier, also establishing the mark *)
Lemma expect_toks_m : forall (s : pstateT) t ts k site, at_toks s (t :: ts) -> tok_is t k = true ->
  exists p s1, expect A G D C E OPS k site s = Ok p s1 /\ at_toks s1 ts /\ frame s s1 /\ marked s1.
Proof.
  intros s t ts k site Hat Hk. destruct (at_toks_cur _ _ _ Hat) as (p & Hc).
  destruct (next_toks OPS _ _ (at_toks_rest _ _ _ Hat)) as (s1 & Hn & Hat1 & Hf).
  exists p, s1. split; [| split; [exact Hat1 | split; [exact Hf | exact (next_marked _ _ Hn)]]].
  unfold expect. rewrite Hc, Hk, Hn. reflexivity.
Qed.

Lemma identifier_toks_m : forall (s : pstateT) name ts site, at_toks s (TLiteral LIdent name :: ts) ->
  exists p s1, identifier A G D C E OPS site s = Ok (n_ident A C p name) s1 /\
               at_toks s1 ts /\ frame s s1 /\ marked s1.
Proof.
  intros s name ts site Hat. destruct (at_toks_cur _ _ _ Hat) as (p & Hc).
  destruct (next_toks OPS _ _ (at_toks_rest _ _ _ Hat)) as (s1 & Hn & Hat1 & Hf).
  exists p, s1. split; [| split; [exact Hat1 | split; [exact Hf | exact (next_marked _ _ Hn)]]].
  unfold identifier. rewrite Hc, Hn. reflexivity.
Qed.

(* Parser::goback to a marked state: the tokens are there again; level and
   depth are those of the state that goes back *)
Lemma goback_toks : forall (s0 s : pstateT) t ts,
  at_toks s0 (t :: ts) -> marked s0 -> s_term A G D E s = s_term A G D E s0 ->
  exists s1, goback A G D C E OPS (preback A G D E s0) s = Ok tt s1 /\
             at_toks s1 (t :: ts) /\ frame s s1 /\ marked s1.
Proof.
  intros s0 s t ts Hat Hm Hterm. destruct Hat as (Heof & (p & Hc) & Hr).
  unfold marked in Hm. rewrite Hc in Hm. destruct Hm as (a1 & g & Hm).
  unfold preback, goback. rewrite Hm.
  eexists. split; [reflexivity |]. split; [| split].
  - split; [| split].
    + destruct Heof as (a & g0 & Ht). exists a, g0. simpl. rewrite Hterm. exact Ht.
    + exists p. reflexivity.
    + exact Hr.
  - split; [reflexivity | exists 0; simpl; lia].
  - unfold marked. simpl. eauto.
Qed.

(* drain_comments touches the comment state only *)
Lemma drain_toks : forall (s : pstateT) c s1, drain A G D C E OPS s = (c, s1) ->
  (forall ts, at_toks s ts -> at_toks s1 ts) /\ frame s s1 /\ (marked s -> marked s1) /\
  cur s1 = cur s.
Proof.
  intros s c s1. unfold drain. destruct (d_drain A G D C OPS (s_d A G D E s)) as [c0 d0].
  intro H; inversion H; subst. split; [intros ts Hat; exact Hat |].
  split; [split; [reflexivity | exists 0; simpl; lia] |].
  split; [intro Hm; exact Hm | reflexivity].
Qed.

(* line_end_comment: nothing without ";", else the ";" is consumed *)
Lemma line_end_no : forall (s : pstateT) c ts,
  at_toks s ts -> match ts with [] => True | t :: _ => tok_is t (KOp OSemiColon) = false end ->
  line_end_comment A G D C E OPS c s = Ok c s.
Proof.
  intros s c ts Hat Hk. unfold line_end_comment. destruct ts as [| t r].
  - destruct (at_toks_nil _ Hat) as (Hc & _). unfold cur_is. rewrite Hc. reflexivity.
  - rewrite (cur_is_toks _ _ _ _ Hat), Hk. reflexivity.
Qed.

Lemma line_end_semi : forall (s : pstateT) c ts, at_toks s (tk OSemiColon :: ts) ->
  exists c' s1, line_end_comment A G D C E OPS c s = Ok c' s1 /\ at_toks s1 ts /\ frame s s1 /\
                marked s1.
Proof.
  intros s c ts Hat. unfold line_end_comment.
  rewrite (cur_is_toks _ _ _ _ Hat). change (tok_is (tk OSemiColon) (KOp OSemiColon)) with true.
  cbn [negb]. destruct Hat as ((a & g & Ht) & _ & Hr).
  destruct (srest s) as [| [b0 b1 t h] r] eqn:Hrest; simpl in Hr; subst ts.
  - rewrite Ht. destruct (d_line_end A G D C OPS _ _ _ _ _) as [[c' g'] d'].
    eexists _, _. split; [reflexivity |]. split; [| split].
    + split; [exists a, g; reflexivity | split; reflexivity].
    + split; [reflexivity | exists 0; simpl; lia].
    + exact I.
  - destruct (d_line_end A G D C OPS _ _ _ _ _) as [[c' g'] d'].
    eexists _, _. split; [reflexivity |]. split; [| split].
    + split; [exists a, g; exact Ht |]. split; [eexists; reflexivity | reflexivity].
    + split; [reflexivity | exists 0; simpl; lia].
    + unfold marked. simpl. eauto.
Qed.

Lemma string_lit_some : forall (s : pstateT) v ts, at_toks s (TLiteral LString v :: ts) ->
  exists p s1, string_literal_or_none A G D C E OPS s = Ok (Some (n_strlit A C p v)) s1 /\
               at_toks s1 ts /\ frame s s1.
Proof.
  intros s v ts Hat. destruct (at_toks_cur _ _ _ Hat) as (p & Hc).
  destruct (next_toks OPS _ _ (at_toks_rest _ _ _ Hat)) as (s1 & Hn & Hat1 & Hf).
  exists p, s1. split; [| split; [exact Hat1 | exact Hf]].
  unfold string_literal_or_none. rewrite Hc, Hn. reflexivity.
Qed.

Lemma string_lit_none : forall (s : pstateT) ts, at_toks s ts ->
  match ts with TLiteral LString _ :: _ => False | _ => True end ->
  string_literal_or_none A G D C E OPS s = Ok None s.
Proof.
  intros s ts Hat Hk. unfold string_literal_or_none. destruct ts as [| t r].
  - destruct (at_toks_nil _ Hat) as (Hc & _). rewrite Hc. reflexivity.
  - destruct (at_toks_cur _ _ _ Hat) as (p & Hc). rewrite Hc.
    destruct t as [txt | kw | op | lk txt]; try reflexivity. destruct lk; try reflexivity.
    destruct Hk.
Qed.

Lemma cur_tok_toks : forall (s : pstateT) t ts site, at_toks s (t :: ts) ->
  cur_tok A G D E s site = Ok t s.
Proof.
  intros s t ts site Hat. destruct (at_toks_cur _ _ _ Hat) as (p & Hc).
  unfold cur_tok. rewrite Hc. reflexivity.
Qed.

Lemma cur_not_toks : forall (s : pstateT) t ts k, at_toks s (t :: ts) ->
  cur_not A G D E s k = negb (tok_is t k).
Proof. intros s t ts k Hat. unfold cur_not. rewrite (cur_is_toks _ _ _ _ Hat). reflexivity. Qed.

Lemma cur_is_nil : forall (s : pstateT) k, at_toks s [] -> cur_is A G D E s k = false.
Proof.
  intros s k Hat. destruct (at_toks_nil _ Hat) as (Hc & _). unfold cur_is. rewrite Hc. reflexivity.
Qed.

(* dec_level after inc_level restores the frame *)
Lemma frame_inc_dec : forall (s s2 : pstateT),
  frame (upd_level A G D E s (S (lp s)) (ln s)) s2 -> frame s (dec_level A G D E s2).
Proof.
  intros s s2 (Hd & k & Ha & Hb). split; [exact Hd |]. exists (S k).
  change (lp (dec_level A G D E s2)) with (lp s2).
  change (ln (dec_level A G D E s2)) with (S (ln s2)).
  change (lp (upd_level A G D E s (S (lp s)) (ln s))) with (S (lp s)) in Ha.
  change (ln (upd_level A G D E s (S (lp s)) (ln s))) with (ln s) in Hb. lia.
Qed.

(* leaving a recursion hub restores the frame *)
Lemma frame_nested : forall (s s2 : pstateT),
  frame (upd_depth A G D E s (S (sdepth s))) s2 ->
  frame s (upd_depth A G D E s2 (pred (sdepth s2))).
Proof.
  intros s s2 (Hd & k & Ha & Hb). split.
  - change (sdepth (upd_depth A G D E s2 (pred (sdepth s2)))) with (pred (sdepth s2)).
    rewrite Hd. reflexivity.
  - exists k. split; [exact Ha | exact Hb].
Qed.

(* identifier lists  a, b, c  (not followed by a comma) *)
Definition names_tail (names : list str) : list token :=
  flat_map (fun n => [tk OComma; ident_tok n]) names.

Lemma printNames_cons : forall n r, printNames (n :: r) = ident_tok n :: names_tail r.
Proof.
  intros n r. unfold printNames, names_tail. simpl. f_equal.
  induction r as [| m r IH]; simpl; [reflexivity | rewrite IH; reflexivity].
Qed.

Lemma ident_list_loop_toks : forall names fuel acc (s : pstateT) rst,
  at_toks s (names_tail names ++ rst) ->
  match rst with [] => True | t :: _ => tok_is t (KOp OComma) = false end ->
  2 * length names + 1 <= fuel ->
  exists ns s1,
    identifier_list_loop A G D C E OPS fuel acc s = Ok (acc ++ ns) s1 /\
    map erase ns = map sh_ident names /\ length ns = length names /\
    at_toks s1 rst /\ frame s s1.
Proof.
  induction names as [| n r IH]; intros fuel acc s rst Hat Hk Hfu.
  - simpl in Hat. destruct fuel as [| f]; [simpl in Hfu; lia |]. cbn [identifier_list_loop].
    rewrite (skipped_no OPS s rst (KOp OComma) Hat Hk). cbn [bind].
    exists [], s. rewrite app_nil_r.
    split; [reflexivity |]. split; [reflexivity |]. split; [reflexivity |].
    split; [exact Hat | apply frame_refl].
  - simpl in Hat. destruct fuel as [| f]; [simpl in Hfu; lia |]. cbn [identifier_list_loop].
    destruct (skipped_yes OPS s _ _ (KOp OComma) Hat eq_refl) as (s1 & Hs & Hat1 & Hf1).
    rewrite Hs. cbn [bind].
    destruct (identifier_toks OPS s1 n _ 2 Hat1) as (p & s2 & Hi & Hat2 & Hf2).
    rewrite Hi. cbn [bind].
    destruct (IH f (acc ++ [n_ident A C p n]) s2 rst Hat2 Hk) as (ns & s3 & Hl & He & Hlen & Hat3 & Hf3).
    { simpl in Hfu. lia. }
    exists (n_ident A C p n :: ns), s3.
    split; [rewrite Hl, <- app_assoc; reflexivity |].
    split; [simpl; rewrite He; reflexivity |].
    split; [simpl; rewrite Hlen; reflexivity |].
    split; [exact Hat3 | exact (frame_trans _ _ _ (frame_trans _ _ _ Hf1 Hf2) Hf3)].
Qed.

(* ------------------------------------------------------------ the contracts *)

Variable X : Type.
Variables (printX : X -> list token) (shapeX : X -> shapeT) (wfX : X -> Prop).
Variables (depthX needX : X -> nat).
Notation typ := (typ X).
Notation printT := (printT printX).
Notation shapeTy := (shapeTy shapeX).
Notation wfT := (wfT wfX).
Notation depthT := (depthT depthX).
Notation needT := (needT needX).

(* Parser::expression in context, for an array length *)
Definition XKE (x : X) : Prop := forall d (s : pstateT) rst,
  needX x + 2 <= d -> at_toks s (printX x ++ tk OBarackRight :: rst) ->
  sdepth s + depthX x <= MAX_NESTING -> ln s < lp s /\ lp s + depthX x <= ln s + 65 ->
  exists n s1, k_expr A G D C E (PA d) s = Ok n s1 /\ erase n = shapeX x /\
               at_toks s1 (tk OBarackRight :: rst) /\ frame s s1.

(* an expression starts neither with "]" nor with "..." *)
Definition Xstart (x : X) : Prop :=
  exists t l, printX x = t :: l /\
    tok_is t (KOp OBarackRight) = false /\ tok_is t (KOp ODotDotDot) = false.

Definition XOK (x : X) : Prop := XKE x /\ Xstart x.

(* Parser::type_or_none on a type *)
Definition TNP (t : typ) : Prop := forall d (s : pstateT) rst,
  needT t <= d -> at_toks s (printT t ++ rst) -> tfollow t rst ->
  sdepth s + depthT t <= MAX_NESTING -> ln s <= lp s /\ lp s + depthT t <= ln s + 65 ->
  exists n s1, k_type_or_none A G D C E (PA d) s = Ok (Some n) s1 /\ erase n = shapeTy t /\
               at_toks s1 rst /\ frame s s1.

(* Parser::type_ *)
Definition TP (t : typ) : Prop := forall d (s : pstateT) rst,
  needT t + 1 <= d -> at_toks s (printT t ++ rst) -> tfollow t rst ->
  sdepth s + depthT t <= MAX_NESTING -> ln s <= lp s /\ lp s + depthT t <= ln s + 64 ->
  exists n s1, k_type A G D C E (PA d) s = Ok n s1 /\ erase n = shapeTy t /\
               at_toks s1 rst /\ frame s s1.

Lemma depthT_pos : forall t : typ, 1 <= depthT t.
Proof. intro t; destruct t; try destruct s; simpl; lia. Qed.

Lemma needT_pos : forall t : typ, 2 <= needT t.
Proof. intro t; destruct t; try destruct s; simpl; lia. Qed.

Lemma TNP_TP : forall t, TNP t -> TP t.
Proof.
  intros t HN d s rst Hd Hat Hfo Hdep Hlev. pose proof (depthT_pos t) as Hdp.
  destruct d as [| d0]; [lia |].
  change (k_type A G D C E (PA (S d0)) s) with (type_body A G D C E (PA d0) s).
  unfold type_body. rewrite (inc_level_ok s 11) by lia. cbn [bind].
  set (s0 := upd_level A G D E s (S (lp s)) (ln s)).
  destruct (HN d0 s0 rst) as (n & s1 & Hk & He & Hat1 & Hf1).
  - lia.
  - exact Hat.
  - exact Hfo.
  - exact Hdep.
  - change (lp s0) with (S (lp s)). change (ln s0) with (ln s). lia.
  - rewrite Hk. cbn [bind]. exists n, (dec_level A G D E s1).
    split; [reflexivity |]. split; [exact He |]. split; [exact Hat1 |].
    apply frame_inc_dec. exact Hf1.
Qed.

(* entering the hub of type_or_none *)
Lemma type_or_none_intro : forall d (s : pstateT) o s2,
  sdepth s < MAX_NESTING ->
  type_or_none_body A G D C E OPS (PA d) (upd_depth A G D E s (S (sdepth s))) = Ok o s2 ->
  k_type_or_none A G D C E (PA (S d)) s = Ok o (upd_depth A G D E s2 (pred (sdepth s2))).
Proof.
  intros d s o s2 Hd H.
  change (k_type_or_none A G D C E (PA (S d)) s)
    with (nested A G D E 140 (type_or_none_body A G D C E OPS (PA d)) s).
  apply nested_intro; assumption.
Qed.

(* a production of type_or_none: the body, run inside the hub *)
Definition TBP (t : typ) : Prop := forall d (s : pstateT) rst,
  needT t <= S d -> at_toks s (printT t ++ rst) -> tfollow t rst ->
  sdepth s + depthT t <= S MAX_NESTING -> ln s <= lp s /\ lp s + depthT t <= ln s + 65 ->
  exists n s1, type_or_none_body A G D C E OPS (PA d) s = Ok (Some n) s1 /\ erase n = shapeTy t /\
               at_toks s1 rst /\ frame s s1.

Lemma TBP_TNP : forall t, TBP t -> TNP t.
Proof.
  intros t HB d s rst Hd Hat Hfo Hdep Hlev. pose proof (needT_pos t) as Hnp.
  pose proof (depthT_pos t) as Hdp.
  destruct d as [| d0]; [lia |].
  set (s0 := upd_depth A G D E s (S (sdepth s))).
  destruct (HB d0 s0 rst) as (n & s1 & Hk & He & Hat1 & Hf1); try assumption.
  - change (sdepth s0) with (S (sdepth s)). lia.
  - exists n, (upd_depth A G D E s1 (pred (sdepth s1))).
    split; [apply type_or_none_intro; [lia | exact Hk] |].
    split; [exact He |]. split; [exact Hat1 |]. apply frame_nested. exact Hf1.
Qed.

Lemma blank_false : forall n, n <> blank -> is_blank n = false.
Proof.
  intros n H. unfold is_blank. destruct (str_eqb n [95%N]) eqn:Heq; [| reflexivity].
  exfalso. apply H. apply str_eqb_eq. exact Heq.
Qed.

(* an array length one level deeper *)
Lemma xke_pnl : forall x, XKE x -> forall d (s : pstateT) rst,
  needX x + 2 <= d -> at_toks s (printX x ++ tk OBarackRight :: rst) ->
  sdepth s + depthX x <= MAX_NESTING ->
  ln s <= lp s /\ lp s + 1 + depthX x <= ln s + 65 /\ lp s + 1 <= ln s + 64 ->
  exists n s1, parse_next_level_expr A G D C E (PA d) s = Ok n s1 /\ erase n = shapeX x /\
               at_toks s1 (tk OBarackRight :: rst) /\ frame s s1.
Proof.
  intros x HX d s rst Hd Hat Hdep Hlev.
  unfold parse_next_level_expr. rewrite (inc_level_ok s 10) by lia. cbn [bind].
  set (s0 := upd_level A G D E s (S (lp s)) (ln s)).
  destruct (HX d s0 rst) as (n & s1 & Hk & He & Hat1 & Hf1); try assumption.
  - change (lp s0) with (S (lp s)). change (ln s0) with (ln s). lia.
  - rewrite Hk. exists n, (dec_level A G D E s1).
    split; [reflexivity |]. split; [exact He |]. split; [exact Hat1 |].
    apply frame_inc_dec. exact Hf1.
Qed.

(* a token that continues no type at all *)
Lemma tfollow_tok : forall (t : typ) tok r,
  tok_is tok (KOp ODot) = false -> tok_is tok (KOp OBarackLeft) = false ->
  type_start tok = false -> tfollow t (tok :: r).
Proof.
  intros t tok r H1 H2 H3. unfold tfollow. destruct (tail t); auto.
Qed.

Lemma tfollow_nil : forall t : typ, tfollow t [].
Proof. intro t. exact I. Qed.

(* the induction hypothesis of the production lemmas: every smaller type *)
Definition IHT (n : nat) : Prop :=
  forall t' : typ, sizeT t' < n -> wfT t' -> allX XOK t' -> TNP t'.

Lemma allT_Forall : forall (Y : Type) (P : Y -> Prop) l, allT P l <-> Forall P l.
Proof.
  intros Y P l; induction l as [| a r IH]; simpl.
  - split; [constructor | exact (fun _ => I)].
  - split.
    + intros [Ha Hr]. constructor; [exact Ha | apply IH; exact Hr].
    + intro H. inversion H; subst. split; [assumption | apply IH; assumption].
Qed.

Lemma sumT_In : forall (Y : Type) (f : Y -> nat) l a, In a l -> f a <= sumT f l.
Proof.
  intros Y f l a. induction l as [| b r IH]; simpl; [intros [] |].
  intros [-> | H]; [lia | specialize (IH H); lia].
Qed.

Lemma maxT_In : forall (Y : Type) (f : Y -> nat) l a, In a l -> f a <= maxT f l.
Proof.
  intros Y f l a. induction l as [| b r IH]; simpl; [intros [] |].
  intros [-> | H]; [lia | specialize (IH H); lia].
Qed.

(* type_or_none in front of a token that starts no type *)
Definition no_type_tok (t : token) : bool :=
  match t with
  | TLiteral LIdent name => is_blank name
  | TOperator (OStar | OArrow | OBarackLeft | OParenLeft) => false
  | TKeyword (KFunc | KChan | KMap | KStruct | KInterface) => false
  | _ => true
  end.

Lemma type_start_no_type : forall t, type_start t = false -> no_type_tok t = true.
Proof.
  intros t H. destruct t as [txt | k | op | lk txt]; simpl in *; try reflexivity.
  - destruct k; try reflexivity; discriminate H.
  - destruct op; try reflexivity; discriminate H.
  - destruct lk; try reflexivity; discriminate H.
Qed.

Lemma type_or_none_none : forall d (s : pstateT) rst,
  at_toks s rst -> match rst with [] => True | t :: _ => no_type_tok t = true end ->
  sdepth s < MAX_NESTING ->
  exists s1, k_type_or_none A G D C E (PA (S d)) s = Ok None s1 /\ at_toks s1 rst /\ frame s s1.
Proof.
  intros d s rst Hat Hk Hd.
  set (s0 := upd_depth A G D E s (S (sdepth s))).
  assert (Hb : type_or_none_body A G D C E OPS (PA d) s0 = Ok None s0).
  { unfold type_or_none_body. destruct rst as [| t r].
    - destruct (at_toks_nil _ Hat) as (Hc & _). change (cur s0) with (cur s). rewrite Hc. reflexivity.
    - destruct (at_toks_cur _ _ _ Hat) as (p & Hc). change (cur s0) with (cur s). rewrite Hc.
      destruct t as [txt | k | op | lk txt]; simpl in Hk.
      + reflexivity.
      + destruct k; try reflexivity; discriminate Hk.
      + destruct op; try reflexivity; discriminate Hk.
      + destruct lk; try reflexivity. rewrite Hk. reflexivity. }
  exists (upd_depth A G D E s0 (pred (sdepth s0))).
  split; [apply type_or_none_intro; [exact Hd | exact Hb] |].
  split; [exact Hat |]. apply frame_nested. apply frame_refl.
Qed.

(* the common tail of func types, methods and function declarations *)
Definition sig_follow (sg : fsig typ) (rst : list token) : Prop := tfollow (TFunc sg) rst.

Definition SigP (sg : fsig typ) : Prop := forall d (s : pstateT) rst,
  needSig needX sg + 3 <= d -> at_toks s (printSig printX sg ++ rst) -> sig_follow sg rst ->
  sdepth s + depthSig depthX sg + 1 <= MAX_NESTING ->
  ln s <= lp s /\ lp s + depthSig depthX sg + 1 <= ln s + 64 ->
  exists ps rs s1,
    signature A G D C E OPS (PA d) s = Ok (ps, rs) s1 /\
    erase ps = shapeParams shapeX true (match sg with Sig p _ _ => p end) /\
    erase rs = shapeParams shapeX (match sg with Sig _ b _ => b end)
                 (match sg with Sig _ _ r => r end) /\
    at_toks s1 rst /\ frame s s1.

(* the first token of a type *)
Lemma first_tokT : forall t, wfT t ->
  exists tok l, printT t = tok :: l /\ type_start tok = true /\ no_type_tok tok = false /\
    (tok_is tok (KOp OArrow) = true -> is_recv_chan t).
Proof.
  induction t; intro Hwf; cbn [Print2.printT].
  - eexists _, _. split; [reflexivity |]. split; [reflexivity |]. split; [| discriminate].
    simpl in Hwf |- *. unfold is_blank, blank in *.
    destruct (str_eqb name [95%N]) eqn:Heq; [| reflexivity].
    exfalso. apply Hwf. apply str_eqb_eq. exact Heq.
  - eexists _, _. split; [reflexivity |]. split; [reflexivity |]. split; [| discriminate].
    simpl in Hwf |- *. unfold is_blank, blank in *.
    destruct (str_eqb pkg [95%N]) eqn:Heq; [| reflexivity].
    exfalso. apply Hwf. apply str_eqb_eq. exact Heq.
  - destruct Hwf as (Hb & Hwb & _). destruct (IHt Hwb) as (tok & l & Hp & Hs & Hn & Ha).
    rewrite Hp. eexists _, _. split; [reflexivity |]. split; [exact Hs |]. split; [exact Hn |].
    intro H. specialize (Ha H). destruct t; try destruct Hb; destruct Ha.
  - eexists _, _. repeat split; try reflexivity; discriminate.
  - eexists _, _. repeat split; try reflexivity; discriminate.
  - eexists _, _. repeat split; try reflexivity; discriminate.
  - eexists _, _. repeat split; try reflexivity; discriminate.
  - eexists _, _. repeat split; try reflexivity; discriminate.
  - destruct dir; eexists _, _; repeat split; try reflexivity; try discriminate.
  - eexists _, _. repeat split; try reflexivity; discriminate.
  - destruct s as [ps paren rs]. eexists _, _. repeat split; try reflexivity; discriminate.
  - eexists _, _. repeat split; try reflexivity; discriminate.
  - eexists _, _. repeat split; try reflexivity; discriminate.
Qed.

End TB.

Arguments marked {A G D E}.
Arguments Xstart {X}.
Arguments sig_follow {X}.
