(* Positions name tokens, stage 1: leaf lists, types, parameters, expressions. *)
From Coq Require Import List Bool Arith NArith Lia.
From GoSyn Require Import Token Tok Ast Core.
From GoSyn.proofs Require Import Lift AccountBase PosBase.
Import ListNotations.

Section Leafs2.
Variables (A G D C E : Type) (OPS : ops A G D C).
Notation pstate := (Core.pstate A G D E).
Notation res := (Core.res A G D E).
Notation selem := (Core.selem A G).
Notation nodeT := (node A C).
Variable whole : list selem.
Notation PSw := (PS (E:=E) (D:=D) whole).
Notation pgoodw := (pgood (C:=C) whole).
Notation pgoodow := (pgoodo (C:=C) whole).

Lemma P_expect_any k site : PSw anyg (expect OPS k site).
Proof.
  intros s r s' Hs H. destruct (P_expect _ _ _ _ _ OPS whole _ _ _ _ _ Hs H) as (H1 & _).
  split; [ exact H1 | exact I ].
Qed.

Lemma P_identifier_list_loop : forall fuel (acc : list nodeT),
  PSw (fun r => Forall pgoodw acc -> Forall pgoodw r) (identifier_list_loop OPS fuel acc).
Proof. qloop identifier_list_loop fuel. Qed.
Local Hint Resolve P_identifier_list_loop : pos.

Lemma P_identifier_list (first : option nodeT) :
  PSw (fun r => pgoodow first -> Forall pgoodw r) (identifier_list OPS first).
Proof. qprod identifier_list. Qed.

Lemma P_check_field_list (fl : nodeT) trailing :
  PSw (fun r => pgoodw fl -> pgoodw r) (check_field_list fl trailing).
Proof. qprod check_field_list. Qed.

Lemma P_check_assign_stmt : forall (l : list nodeT), PSw anyg (check_assign_stmt l).
Proof.
  induction l; intros ? ? ? ?; cbn [check_assign_stmt]; hide_nats; q_steps; try (solve [ q_fin ]).
Qed.

Lemma P_is_type_switch (tg : option nodeT) : PSw anyg (is_type_switch tg).
Proof. qprod is_type_switch. Qed.

Lemma P_semi_unless_brace site : PSw anyg (semi_unless_brace OPS site).
Proof. qprod semi_unless_brace. Qed.

Lemma P_finish_field c (names : list nodeT) typ :
  PSw (fun r => Forall pgoodw names -> pgoodw typ -> pgoodw r) (finish_field OPS c names typ).
Proof. qprod finish_field. Qed.

End Leafs2.

#[export] Hint Resolve P_identifier_list_loop P_identifier_list P_check_field_list
  P_check_assign_stmt P_is_type_switch P_semi_unless_brace P_finish_field : pos.

(* ------------------------------------------------------------------ the table *)

Section Table.
Variables (A G D C E : Type) (OPS : ops A G D C).
Notation pstate := (Core.pstate A G D E).
Notation res := (Core.res A G D E).
Notation parsers := (Core.parsers A G D C E).
Notation selem := (Core.selem A G).
Notation nodeT := (node A C).
Variable whole : list selem.
Notation PSw := (PS (E:=E) (D:=D) whole).
Notation pgoodw := (pgood (C:=C) whole).
Notation pgoodow := (pgoodo (C:=C) whole).

Record GoodP (self : parsers) : Prop := {
  gp_type : PSw pgoodw (k_type self);
  gp_type_or_none : PSw pgoodow (k_type_or_none self);
  gp_expr : PSw pgoodw (k_expr self);
  gp_unary : PSw pgoodw (k_unary self);
  gp_binary : forall p prec, PSw (fun r => pgoodow p -> pgoodw r) (k_binary self p prec);
  gp_litvalue : PSw pgoodw (k_litvalue self);
  gp_block : PSw pgoodw (k_block self);
  gp_stmt : PSw pgoodw (k_stmt self);
  gp_if : PSw pgoodw (k_if self)
}.

Lemma GoodP_no_fuel : GoodP (no_fuel A G D C E).
Proof. split; intros; intros ? ? ? ? HH; discriminate HH. Qed.

Lemma P_nested X (good : X -> Prop) site (f : pstate -> res X) :
  PSw good f -> PSw good (nested site f).
Proof.
  intros Hf s r s' Hs. unfold nested. cbv zeta.
  destruct (S MAX_NESTING <=? s_depth (upd_depth s (S (s_depth s)))); [ discriminate | ].
  destruct (f (upd_depth s (S (s_depth s)))) as [x s2| | |] eqn:Hfs; try discriminate.
  intros [= <- <-]. destruct (Hf _ _ _ (sinv_upd_depth _ _ _ _ _ _ _ Hs) Hfs) as (Hs2 & Hg).
  split; [ apply sinv_upd_depth, Hs2 | exact Hg ].
Qed.

(* reset_chan_arrow rewrites the positions of channel types: the new second
   position is the `<-` in front, the first stays the keyword *)
Lemma own_chan_inv ps ats :
  own_ok whole GTypeChannel ps ats ->
  exists c a d rest, ps = [c; a] /\ ats = ADir d :: rest /\ named whole c (is_kw KChan) /\
                     (d <> 0 -> named whole a (is_op OArrow)).
Proof.
  intros (Hl & Hn & _). cbn [own_layout] in Hl. apply andb_prop in Hl. destruct Hl as (Hl1 & Hl2).
  destruct ps as [|c [|a [|? ?]]]; try discriminate Hl1.
  unfold has_dir, at_dir in Hl2. destruct ats as [|[| | | | |d] rest]; try discriminate Hl2.
  exists c, a, d, rest. repeat split.
  - cbn [own_spec at_dir] in Hn. destruct d; apply Hn.
  - intros Hd. cbn [own_spec at_dir] in Hn. destruct d; [ congruence | ]. apply Hn.
Qed.

Lemma is_tag_true t (n : nodeT) : is_tag t n = true -> n_tag n = t.
Proof.
  unfold is_tag, tag_eqb. intros H. apply Nat.eqb_eq in H.
  destruct (n_tag n); destruct t; (reflexivity || discriminate H).
Qed.

Fixpoint reset_chan_arrow_good (typ : nodeT) :
  forall pos t, is_tag GTypeChannel typ = true -> pgoodw typ -> named whole pos (is_op OArrow) ->
                @reset_chan_arrow A C E pos typ = inl t -> pgoodw t.
Proof.
  destruct typ as [tg ps ats d ks]. intros pos r Htag Hg Hpos.
  apply is_tag_true in Htag. cbn [n_tag] in Htag. subst tg.
  apply pgood_Nd in Hg. destruct Hg as (Hown & Hks).
  destruct (own_chan_inv _ _ Hown) as (c & a & dir & rest & -> & -> & Hc & Ha).
  cbn [reset_chan_arrow nth].
  assert (Hnew : own_ok whole GTypeChannel [c; pos] [ADir 2]).
  { repeat split; assumption. }
  destruct dir as [|[|[|n]]].
  - intros [= <-]. apply pgood_Nd_i; assumption.
  - destruct ks as [|inner rest']; [ discriminate | ].
    destruct (is_tag GTypeChannel inner) eqn:Hti; [ | discriminate ].
    destruct (@reset_chan_arrow A C E a inner) as [inner'|] eqn:Hi; [ | discriminate ].
    intros [= <-]. inversion Hks as [|? ? Hk1 Hk2]; subst.
    apply pgood_Nd_i; [ exact Hnew | ]. constructor; [ | exact Hk2 ].
    apply (reset_chan_arrow_good inner a inner' Hti Hk1); [ | exact Hi ]. apply Ha. discriminate.
  - discriminate.
  - destruct ks as [|inner rest']; [ discriminate | ].
    destruct (is_tag GTypeChannel inner) eqn:Hti; [ | discriminate ].
    destruct (@reset_chan_arrow A C E a inner) as [inner'|] eqn:Hi; [ | discriminate ].
    intros [= <-]. inversion Hks as [|? ? Hk1 Hk2]; subst.
    apply pgood_Nd_i; [ exact Hnew | ]. constructor; [ | exact Hk2 ].
    apply (reset_chan_arrow_good inner a inner' Hti Hk1); [ | exact Hi ]. apply Ha. discriminate.
Qed.

End Table.
Arguments GoodP {A G D C E} whole self.


(* ------------------------------------------------------------------ one unfolding, stage 1 *)

Section Step1.
Variables (A G D C E : Type) (OPS : ops A G D C).
Notation pstate := (Core.pstate A G D E).
Notation res := (Core.res A G D E).
Notation parsers := (Core.parsers A G D C E).
Notation selem := (Core.selem A G).
Notation nodeT := (node A C).
Variable whole : list selem.
Notation PSw := (PS (E:=E) (D:=D) whole).
Notation pgoodw := (pgood (C:=C) whole).
Notation pgoodow := (pgoodo (C:=C) whole).

Variable self : parsers.
Hypothesis HG : GoodP whole self.

Lemma Q_type : PSw pgoodw (k_type self). Proof. exact (gp_type _ _ _ _ _ _ _ HG). Qed.
Lemma Q_type_or_none : PSw pgoodow (k_type_or_none self).
Proof. exact (gp_type_or_none _ _ _ _ _ _ _ HG). Qed.
Lemma Q_expr : PSw pgoodw (k_expr self). Proof. exact (gp_expr _ _ _ _ _ _ _ HG). Qed.
Lemma Q_unary : PSw pgoodw (k_unary self). Proof. exact (gp_unary _ _ _ _ _ _ _ HG). Qed.
Lemma Q_binary p prec : PSw (fun r => pgoodow p -> pgoodw r) (k_binary self p prec).
Proof. exact (gp_binary _ _ _ _ _ _ _ HG p prec). Qed.
Lemma Q_litvalue : PSw pgoodw (k_litvalue self). Proof. exact (gp_litvalue _ _ _ _ _ _ _ HG). Qed.
Lemma Q_block : PSw pgoodw (k_block self). Proof. exact (gp_block _ _ _ _ _ _ _ HG). Qed.
Lemma Q_stmt : PSw pgoodw (k_stmt self). Proof. exact (gp_stmt _ _ _ _ _ _ _ HG). Qed.
Lemma Q_if : PSw pgoodw (k_if self). Proof. exact (gp_if _ _ _ _ _ _ _ HG). Qed.
Local Hint Resolve Q_type Q_type_or_none Q_expr Q_unary Q_binary Q_litvalue Q_block Q_stmt Q_if
  : pos.

Lemma P_parse_next_level_expr : PSw pgoodw (parse_next_level_expr self).
Proof. qprod parse_next_level_expr. Qed.
Local Hint Resolve P_parse_next_level_expr : pos.

Lemma P_comma_list_loop (item : pstate -> res nodeT) (Hitem : PSw pgoodw item) :
  forall fuel acc, PSw (fun r => Forall pgoodw acc -> Forall pgoodw r)
                       (comma_list_loop OPS fuel item acc).
Proof. qloop comma_list_loop fuel. Qed.
Local Hint Resolve P_comma_list_loop : pos.

Lemma P_expression_list : PSw (Forall pgoodw) (expression_list OPS self).
Proof. qprod expression_list. Qed.
Local Hint Resolve P_expression_list : pos.

Lemma P_parse_type_list : PSw (Forall pgoodw) (parse_type_list OPS self).
Proof. qprod parse_type_list. Qed.
Local Hint Resolve P_parse_type_list : pos.

Lemma P_type_list_loop : forall fuel acc,
  PSw (fun r => Forall pgoodw acc -> Forall pgoodw r) (type_list_loop OPS self fuel acc).
Proof. qloop type_list_loop fuel. Qed.
Local Hint Resolve P_type_list_loop : pos.

Lemma P_type_list strict : PSw (fun r => pgoodw (fst r)) (type_list OPS self strict).
Proof. qprod type_list. Qed.
Local Hint Resolve P_type_list : pos.

Lemma P_type_instance (left : nodeT) :
  PSw (fun r => pgoodw left -> pgoodw r) (type_instance OPS self left).
Proof. qprod type_instance. Qed.
Local Hint Resolve P_type_instance : pos.

Lemma P_qualified_ident (name : option nodeT) :
  PSw (fun r => pgoodow name -> pgoodw r) (qualified_ident OPS self name).
Proof. qprod qualified_ident. Qed.
Local Hint Resolve P_qualified_ident : pos.

Lemma P_parse_type_term : PSw pgoodw (parse_type_term OPS self).
Proof. qprod parse_type_term. Qed.
Local Hint Resolve P_parse_type_term : pos.

Lemma P_type_elem_loop : forall fuel typ,
  PSw (fun r => pgoodw typ -> pgoodw r) (type_elem_loop OPS self fuel typ).
Proof. qloop type_elem_loop fuel. Qed.
Local Hint Resolve P_type_elem_loop : pos.

Lemma P_parse_type_elem : PSw pgoodw (parse_type_elem OPS self).
Proof. qprod parse_type_elem. Qed.
Local Hint Resolve P_parse_type_elem : pos.

Lemma P_array_len : PSw pgoodw (array_len OPS self).
Proof. qprod array_len. Qed.
Local Hint Resolve P_array_len : pos.

Lemma P_array_or_typeargs : PSw pgoodw (array_or_typeargs OPS self).
Proof. qprod array_or_typeargs. Qed.
Local Hint Resolve P_array_or_typeargs : pos.

Lemma P_ellipsis_type : PSw pgoodw (ellipsis_type OPS self).
Proof. qprod ellipsis_type. Qed.
Local Hint Resolve P_ellipsis_type : pos.

Lemma P_param_decl_loop : forall fuel ewc ids,
  PSw (fun r => Forall pgoodw ids -> Forall pgoodw r) (param_decl_loop OPS self fuel ewc ids).
Proof. qloop param_decl_loop fuel. Qed.
Local Hint Resolve P_param_decl_loop : pos.

Lemma P_parse_parameter_decl : PSw (Forall pgoodw) (parse_parameter_decl OPS self).
Proof. qprod parse_parameter_decl. Qed.
Local Hint Resolve P_parse_parameter_decl : pos.

Lemma P_params_loop : forall fuel close acc,
  PSw (fun r => Forall pgoodw acc -> Forall pgoodw r) (params_loop OPS self fuel close acc).
Proof. qloop params_loop fuel. Qed.
Local Hint Resolve P_params_loop : pos.

Lemma P_parameters : PSw pgoodw (parameters OPS self).
Proof.
  intros ? ? ? ?; unfold parameters, params_list; hide_nats; q_steps; try (solve [ q_fin ]).
Qed.
Local Hint Resolve P_parameters : pos.

Lemma P_type_parameters : PSw pgoodw (type_parameters OPS self).
Proof.
  intros ? ? ? ?; unfold type_parameters, params_list; hide_nats; q_steps; try (solve [ q_fin ]).
Qed.
Local Hint Resolve P_type_parameters : pos.

Lemma P_parse_result : PSw pgoodw (parse_result OPS self).
Proof. qprod parse_result. Qed.
Local Hint Resolve P_parse_result : pos.

Lemma P_signature : PSw (fun r => pgoodw (fst r) /\ pgoodw (snd r)) (signature OPS self).
Proof. qprod signature. Qed.
Local Hint Resolve P_signature : pos.

Lemma P_func_type : PSw pgoodw (func_type OPS self).
Proof. qprod func_type. Qed.
Local Hint Resolve P_func_type : pos.

Lemma P_type_params_loop : forall fuel acc,
  PSw (fun r => Forall pgoodw acc -> Forall pgoodw r) (type_params_loop OPS self fuel acc).
Proof. qloop type_params_loop fuel. Qed.
Local Hint Resolve P_type_params_loop : pos.

Lemma P_parse_type_parameters : PSw pgoodw (parse_type_parameters OPS self).
Proof. qprod parse_type_parameters. Qed.
Local Hint Resolve P_parse_type_parameters : pos.

Lemma P_field_decl : PSw pgoodw (field_decl OPS self).
Proof. qprod field_decl. Qed.
Local Hint Resolve P_field_decl : pos.

Lemma P_struct_loop : forall fuel acc,
  PSw (fun r => Forall pgoodw acc -> Forall pgoodw r) (struct_loop OPS self fuel acc).
Proof. qloop struct_loop fuel. Qed.
Local Hint Resolve P_struct_loop : pos.

Lemma P_struct_type : PSw pgoodw (struct_type OPS self).
Proof. qprod struct_type. Qed.
Local Hint Resolve P_struct_type : pos.

Lemma P_parse_method_elem : PSw pgoodw (parse_method_elem OPS self).
Proof. qprod parse_method_elem. Qed.
Local Hint Resolve P_parse_method_elem : pos.

Lemma P_interface_loop : forall fuel acc,
  PSw (fun r => Forall pgoodw acc -> Forall pgoodw r) (interface_loop OPS self fuel acc).
Proof. qloop interface_loop fuel. Qed.
Local Hint Resolve P_interface_loop : pos.

Lemma P_parse_interface_type : PSw pgoodw (parse_interface_type OPS self).
Proof. qprod parse_interface_type. Qed.
Local Hint Resolve P_parse_interface_type : pos.

Lemma P_type_or_none_body : PSw pgoodow (type_or_none_body OPS self).
Proof. qprod type_or_none_body. Qed.
Local Hint Resolve P_type_or_none_body : pos.

Lemma P_type_body : PSw pgoodw (type_body self).
Proof. qprod type_body. Qed.
Local Hint Resolve P_type_body : pos.

Lemma P_parse_element_value : PSw pgoodw (parse_element_value self).
Proof. qprod parse_element_value. Qed.
Local Hint Resolve P_parse_element_value : pos.

Lemma P_parse_element : PSw pgoodw (parse_element OPS self).
Proof. qprod parse_element. Qed.
Local Hint Resolve P_parse_element : pos.

Lemma P_lit_value_loop : forall fuel acc,
  PSw (fun r => Forall pgoodw acc -> Forall pgoodw r) (lit_value_loop OPS self fuel acc).
Proof. qloop lit_value_loop fuel. Qed.
Local Hint Resolve P_lit_value_loop : pos.

Lemma P_lit_value_body : PSw pgoodw (lit_value_body OPS self).
Proof. qprod lit_value_body. Qed.
Local Hint Resolve P_lit_value_body : pos.

Lemma P_index_comma_loop : forall fuel acc,
  PSw (fun r => Forall pgoodow acc -> Forall pgoodow r) (index_comma_loop OPS self fuel acc).
Proof. qloop index_comma_loop fuel. Qed.
Local Hint Resolve P_index_comma_loop : pos.

Lemma P_parse_slice_index_or_type_inst :
  PSw (fun r => Forall pgoodow (snd r)) (parse_slice_index_or_type_inst OPS self).
Proof. qprod parse_slice_index_or_type_inst. Qed.
Local Hint Resolve P_parse_slice_index_or_type_inst : pos.

Lemma P_call_args_loop : forall fuel args ewc,
  PSw (fun r => Forall pgoodw args -> Forall pgoodw (fst r)) (call_args_loop OPS self fuel args ewc).
Proof. qloop call_args_loop fuel. Qed.
Local Hint Resolve P_call_args_loop : pos.

Lemma P_primary_step (x : nodeT) :
  PSw (fun r => pgoodw x -> pgoodow r) (primary_step OPS self x).
Proof. qprod primary_step. Qed.
Local Hint Resolve P_primary_step : pos.

Lemma P_primary_loop : forall fuel x,
  PSw (fun r => pgoodw x -> pgoodw r) (primary_loop OPS self fuel x).
Proof. qloop primary_loop fuel. Qed.
Local Hint Resolve P_primary_loop : pos.

Lemma P_operand : PSw pgoodw (operand OPS self).
Proof. qprod operand. Qed.
Local Hint Resolve P_operand : pos.

Lemma P_primary_expression (p : option nodeT) :
  PSw (fun r => pgoodow p -> pgoodw r) (primary_expression OPS self p).
Proof. qprod primary_expression. Qed.
Local Hint Resolve P_primary_expression : pos.

Lemma classify_arrow o : classify_unary o = UCArrow -> o = OArrow.
Proof. destruct o; (reflexivity || discriminate). Qed.

Lemma P_unary_body : PSw pgoodw (unary_body OPS self).
Proof.
  qprod unary_body.
  split; [ sinv_tac | ]. q_sat. apply classify_arrow in E1. subst o.
  eapply reset_chan_arrow_good; [ exact E2 | exact Hg | | exact E3 ]. q_named.
Qed.
Local Hint Resolve P_unary_body : pos.

Lemma P_binary_loop : forall fuel prec x,
  PSw (fun r => pgoodw x -> pgoodw r) (binary_loop OPS self fuel prec x).
Proof. qloop binary_loop fuel. Qed.
Local Hint Resolve P_binary_loop : pos.

Lemma P_binary_body (p : option nodeT) prec :
  PSw (fun r => pgoodow p -> pgoodw r) (binary_body OPS self p prec).
Proof. qprod binary_body. Qed.
Local Hint Resolve P_binary_body : pos.

Lemma P_expr_body : PSw pgoodw (expr_body self).
Proof. qprod expr_body. Qed.
Local Hint Resolve P_expr_body : pos.

End Step1.

#[export] Hint Resolve Q_type Q_type_or_none Q_expr Q_unary Q_binary Q_litvalue Q_block Q_stmt Q_if
  P_parse_next_level_expr P_comma_list_loop P_expression_list P_parse_type_list P_type_list_loop
  P_type_list P_type_instance P_qualified_ident P_parse_type_term P_type_elem_loop
  P_parse_type_elem P_array_len P_array_or_typeargs P_ellipsis_type P_param_decl_loop
  P_parse_parameter_decl P_params_loop P_parameters P_type_parameters P_parse_result P_signature
  P_func_type P_type_params_loop P_parse_type_parameters P_field_decl P_struct_loop P_struct_type
  P_parse_method_elem P_interface_loop P_parse_interface_type P_type_or_none_body P_type_body
  P_parse_element_value P_parse_element P_lit_value_loop P_lit_value_body P_index_comma_loop
  P_parse_slice_index_or_type_inst P_call_args_loop P_primary_step P_primary_loop P_operand
  P_primary_expression P_unary_body P_binary_loop P_binary_body P_expr_body : pos.
