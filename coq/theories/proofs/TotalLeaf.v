(* TOTALITY, part 2: the leaf parsers (no recursion through [self]) and the
   specification of a table of parsers ([GoodT]).

   Every lemma is about the states of an admissible set [adm], closed under
   what productions do to a state (same hub depth, not more tokens left):
   "at least n hubs open" for the depth-fuel argument by MAX_NESTING
   (TotalStepD.dadm), "fewer than k tokens left" for the one by input length
   (TotalMeas.ltk). *)
From Coq Require Import List Bool Arith Lia.
From GoSyn Require Import Token Tok Ast Core.
From GoSyn.proofs Require Import Lift TotalBase.
Import ListNotations.

#[export] Hint Extern 3 (_ \/ meas _ < _) => fuel_side : total.
#[export] Hint Resolve T_take_next : total.

(* a loop on token fuel: induction on the fuel, one unfolding *)
Tactic Notation "tloop" reference(f) ident(fuel) :=
  induction fuel as [|fuel IH]; intros; [ cbn [f]; fin | cbn [f]; hide_nats; tsteps ].

Section Leaf.
Variables (A G D C E : Type) (OPS : ops A G D C).
Variable AF : Prop.
Variable adm : Core.pstate A G D E -> Prop.
Hypothesis adm_le : forall s s' : Core.pstate A G D E,
  adm s -> s_depth s' = s_depth s -> meas s' <= meas s -> adm s'.
Local Hint Extern 2 (adm _) =>
  eapply adm_le; [ eassumption | sproj; lia | norm_goal; lia ] : total.
Set Default Proof Using "adm_le".
Notation pstate := (Core.pstate A G D E).
Notation res := (Core.res A G D E).
Notation parsers := (Core.parsers A G D C E).
Notation nodeT := (node A C).

Notation tspec Q p := (forall s : pstate, WF s -> adm s -> spec AF s (Q s) (p s)).

Lemma T_identifier_list_loop : forall fuel acc (s : pstate),
  WF s -> adm s -> AF \/ meas s < fuel ->
  spec AF s (fun _ _ => True) (identifier_list_loop OPS fuel acc s).
Proof. tloop identifier_list_loop fuel. Qed.
Local Hint Resolve T_identifier_list_loop : total.

Lemma T_identifier_list first :
  tspec (fun s (_ : list nodeT) s' => first = None -> meas s' < meas s) (identifier_list OPS first).
Proof. tprod identifier_list. Qed.
Local Hint Resolve T_identifier_list : total.

Lemma T_string_literal_or_none :
  tspec (fun _ (_ : option nodeT) _ => True) (string_literal_or_none OPS).
Proof. tprod string_literal_or_none. Qed.
Local Hint Resolve T_string_literal_or_none : total.

Lemma T_string_literal site :
  tspec (fun s (_ : nodeT) s' => meas s' < meas s) (string_literal OPS site).
Proof. tprod string_literal. Qed.
Local Hint Resolve T_string_literal : total.

Lemma T_literal : tspec (fun s (e : nodeT) s' => ex_ok e /\ meas s' < meas s) (literal OPS).
Proof. tprod literal. Qed.
Local Hint Resolve T_literal : total.

Lemma T_check_field_list (fl : nodeT) trailing :
  fl_ok fl -> tspec (fun _ (_ : nodeT) _ => True) (check_field_list fl trailing).
Proof.
  intros Hfl s Hwf Hd. unfold check_field_list. hide_nats.
  destruct (n_kids fl) eqn:Hk; [ fin | ].
  destruct Hfl as [H | H]; [ congruence | ].
  destruct (fieldlist_pos fl); [ | contradiction ].
  destruct (check_fields _ _ _); fin.
Qed.
Local Hint Resolve T_check_field_list : total.

Lemma T_check_single_expr (l : list nodeT) :
  Forall ex_ok l -> tspec (fun _ (e : nodeT) _ => ex_ok e) (check_single_expr l).
Proof.
  intros Hl s Hwf Hd. unfold check_single_expr. hide_nats.
  destruct l as [|e1 [|e2 r]]; [ fin | | ].
  - inversion Hl; subst. fin.
  - inversion Hl as [|? ? [He _] _]; subst.
    destruct (expr_pos e1); [ fin | contradiction ].
Qed.
Local Hint Resolve T_check_single_expr : total.

Lemma T_check_assign_stmt (l : list nodeT) :
  Forall ex_ok l -> tspec (fun _ (_ : unit) _ => True) (check_assign_stmt l).
Proof.
  intros Hl s Hwf Hd. induction l as [|e l IH]; cbn [check_assign_stmt]; hide_nats; [ fin | ].
  inversion Hl as [|? ? [He _] Hl']; subst.
  destruct (is_tag GIdent e); [ auto | ].
  destruct (expr_pos e); [ fin | contradiction ].
Qed.
Local Hint Resolve T_check_assign_stmt : total.

Lemma T_is_type_switch (tg : option nodeT) :
  opt_ok stmt_ok tg -> tspec (fun _ (_ : bool) _ => True) (is_type_switch tg).
Proof.
  intros Htg s Hwf Hd. unfold is_type_switch. hide_nats.
  destruct tg as [t|]; [ | fin ]. cbn [opt_ok] in Htg.
  destruct (is_tag GExprStmt t); [ fin | ].
  destruct (is_tag GAssign t) eqn:Ha; [ | fin ].
  apply is_tag_true in Ha. destruct (Htg Ha) as [Hp _].
  destruct (_ && _); [ | fin ].
  destruct (n_ps t); [ contradiction | ].
  destruct (n_ats t) as [|[ | o | | | | ] ats]; try fin.
  destruct o; fin.
Qed.
Local Hint Resolve T_is_type_switch : total.

Lemma T_semi_unless_brace site :
  tspec (fun _ (_ : unit) _ => True) (semi_unless_brace OPS site).
Proof. tprod semi_unless_brace. Qed.
Local Hint Resolve T_semi_unless_brace : total.

Lemma T_finish_field c names typ :
  tspec (fun _ (_ : nodeT) _ => True) (finish_field OPS c names typ).
Proof. tprod finish_field. Qed.
Local Hint Resolve T_finish_field : total.

Lemma T_parse_branch_stmt key :
  tspec (fun s (_ : nodeT) s' => meas s' < meas s) (parse_branch_stmt OPS key).
Proof. tprod parse_branch_stmt. Qed.
Local Hint Resolve T_parse_branch_stmt : total.

Lemma T_parse_package : tspec (fun s (_ : nodeT) s' => meas s' < meas s) (parse_package OPS).
Proof.
  intros s Hwf Hd. unfold parse_package. hide_nats. tsteps.
  eapply id_ok_ps; eassumption.
Qed.
Local Hint Resolve T_parse_package : total.

Lemma T_parse_import_spec :
  tspec (fun s (_ : nodeT) s' => meas s' < meas s) (parse_import_spec OPS).
Proof. tprod parse_import_spec. Qed.
Local Hint Resolve T_parse_import_spec : total.

Lemma T_import_group_loop : forall fuel acc (s : pstate),
  WF s -> adm s -> AF \/ meas s < fuel ->
  spec AF s (fun _ _ => True) (import_group_loop OPS fuel acc s).
Proof. tloop import_group_loop fuel. Qed.
Local Hint Resolve T_import_group_loop : total.

Lemma T_parse_import_decl :
  tspec (fun s (_ : list nodeT) s' => meas s' < meas s) (parse_import_decl OPS).
Proof. tprod parse_import_decl. Qed.
Local Hint Resolve T_parse_import_decl : total.

Lemma T_imports_loop : forall fuel acc (s : pstate),
  WF s -> adm s -> AF \/ meas s < fuel ->
  spec AF s (fun _ _ => True) (imports_loop OPS fuel acc s).
Proof. tloop imports_loop fuel. Qed.
Local Hint Resolve T_imports_loop : total.

(* ---- the specification of a table of parsers ---- *)

Record GoodT (self : parsers) : Prop := {
  t_type : tspec (fun s t s' => ex_ok t /\ meas s' < meas s) (k_type self);
  t_type_or_none :
    tspec (fun s o s' => match o with Some t => ex_ok t /\ meas s' < meas s | None => True end)
          (k_type_or_none self);
  t_expr : tspec (fun s e s' => ex_ok e /\ meas s' < meas s) (k_expr self);
  t_unary : tspec (fun s e s' => ex_ok e /\ meas s' < meas s) (k_unary self);
  t_binary : forall p prec, opt_ok ex_ok p ->
    tspec (fun s e s' => ex_ok e /\ (p = None -> meas s' < meas s)) (k_binary self p prec);
  t_litvalue : tspec (fun s _ s' => meas s' < meas s) (k_litvalue self);
  t_block : tspec (fun s _ s' => meas s' < meas s) (k_block self);
  t_stmt : tspec (fun s _ s' => cur_is s (KOp OBraceRight) = false -> meas s' < meas s)
                 (k_stmt self);
  t_if : tspec (fun s _ s' => meas s' < meas s) (k_if self)
}.

Unset Default Proof Using.
End Leaf.

Arguments GoodT {A G D C E} AF adm self.

#[export] Hint Resolve T_identifier_list_loop T_identifier_list T_string_literal_or_none
  T_string_literal T_literal T_check_field_list T_check_single_expr T_check_assign_stmt
  T_is_type_switch T_semi_unless_brace T_finish_field T_parse_branch_stmt T_parse_package
  T_parse_import_spec T_import_group_loop T_parse_import_decl T_imports_loop : total.
