(* Token accounting, stage 3: declarations, statement dispatch, the closed
   recursion, the file level and the final theorem. *)
From Coq Require Import List Bool Arith NArith Lia.
From GoSyn Require Import Token Tok Ast Core.
From GoSyn.proofs Require Import Lift AccountBase AccountExpr AccountStmt.
Import ListNotations.

Section Step3.
Variables (A G D C E : Type) (OPS : ops A G D C).
Notation pstate := (Core.pstate A G D E).
Notation res := (Core.res A G D E).
Notation parsers := (Core.parsers A G D C E).
Notation nodeT := (node A C).
Notation SpecE := (Spec (A:=A) (G:=G) (D:=D) (E:=E)).
Notation SpecPE := (SpecP (A:=A) (G:=G) (D:=D) (E:=E)).

Variable self : parsers.
Hypothesis HG : GoodA self.

Lemma A_parse_type_spec : SpecE leaves [] anysh (parse_type_spec OPS self).
Proof. aprod parse_type_spec. all: fix_up2. Qed.
Local Hint Resolve A_parse_type_spec : acct.

Lemma A_parse_var_spec : SpecE leaves [] anysh (parse_var_spec OPS self).
Proof. aprod parse_var_spec. all: fix_up2. Qed.
Local Hint Resolve A_parse_var_spec : acct.

Lemma A_parse_const_spec index : SpecE leaves [] anysh (parse_const_spec OPS self index).
Proof. aprod parse_const_spec. all: fix_up2. Qed.
Local Hint Resolve A_parse_const_spec : acct.

Lemma A_parse_spec k index : SpecE leaves [] anysh (parse_spec OPS self k index).
Proof. aprod parse_spec. all: fix_up2. Qed.
Local Hint Resolve A_parse_spec : acct.

Lemma A_decl_group_loop : forall fuel k index acc,
  SpecE leavesl (leavesl acc) anysh (decl_group_loop OPS self fuel k index acc).
Proof. aloop decl_group_loop fuel. all: fix_up2. Qed.
Local Hint Resolve A_decl_group_loop : acct.

Lemma A_parse_decl k : SpecPE plaincur leaves [] anysh (parse_decl OPS self k).
Proof.
  intros s r s' Hpre. unfold parse_decl. hide_nats. cbv zeta.
  destruct (drain OPS s) as [docs s0] eqn:Ed.
  assert (Hpre0 : plaincur s0).
  { unfold drain in Ed. destruct (d_drain OPS (s_d s)). injection Ed as _ <-. exact Hpre. }
  apply acct_drain in Ed. isteps; try fin. all: fix_up2. all: destruct k; lsolve.
Qed.
Local Hint Resolve A_parse_decl : acct.

Lemma A_parse_func_decl : SpecE leaves [] anysh (parse_func_decl OPS self).
Proof. aprod parse_func_decl. all: fix_up2. Qed.
Local Hint Resolve A_parse_func_decl : acct.


Lemma classify_plain tok :
  match classify_stmt tok with
  | SCVar | SCType | SCConst | SCSemi => is_lit_tok tok = false /\ tok_bk tok = None
  | _ => True
  end.
Proof. destruct tok as [|k|o|]; try destruct k; try destruct o; cbn; auto. Qed.

Lemma A_stmt_body : SpecE leaves [] anysh (stmt_body OPS self).
Proof.
  intros s r s'. unfold stmt_body. hide_nats.
  destruct (s_cur s) as [[pos tok]|] eqn:Ec; [ | discriminate ].
  pose proof (classify_plain tok) as Hcp.
  destruct (classify_stmt tok) eqn:Ecl;
    try (assert (Hnl' : plaincur s) by (unfold plaincur; rewrite Ec; exact Hcp)); clear Hcp;
    isteps; try fin.
  all: fix_up2.
Qed.
Local Hint Resolve A_stmt_body : acct.

Lemma GoodA_step : GoodA (step OPS self).
Proof.
  split; cbn [step k_type k_type_or_none k_expr k_unary k_binary k_litvalue k_block k_stmt k_if];
    try apply A_nested; eauto with acct.
Qed.

(* -- file level -- *)

Lemma A_parse_package : SpecE (leaves (C:=C)) [] anysh (parse_package OPS).
Proof. aprod parse_package. all: fix_up2. Qed.
Local Hint Resolve A_parse_package : acct.

Lemma A_parse_import_spec : SpecE (leaves (C:=C)) [] anysh (parse_import_spec OPS).
Proof.
  intros s r s'. unfold parse_import_spec. hide_nats.
  destruct (s_cur s) as [[pos tok]|] eqn:Ec; [ | discriminate ].
  destruct tok as [| |o|k name]; try destruct o; try destruct k; isteps; try fin.
  all: fix_up2.
Qed.
Local Hint Resolve A_parse_import_spec : acct.

Lemma A_import_group_loop : forall fuel (acc : list nodeT),
  SpecE leavesl (leavesl acc) anysh (import_group_loop OPS fuel acc).
Proof. aloop import_group_loop fuel. all: fix_up2. Qed.
Local Hint Resolve A_import_group_loop : acct.

Lemma A_parse_import_decl : SpecE (flat_map (leaves (C:=C))) [] anysh (parse_import_decl OPS).
Proof. aprod parse_import_decl. all: fix_up2. Qed.
Local Hint Resolve A_parse_import_decl : acct.

Lemma A_imports_loop : forall fuel (acc : list nodeT),
  SpecE leavesl (leavesl acc) anysh (imports_loop OPS fuel acc).
Proof. aloop imports_loop fuel. all: fix_up2. Qed.
Local Hint Resolve A_imports_loop : acct.

Lemma A_parse_top_decl : SpecE leaves [] anysh (parse_top_decl OPS self).
Proof. aprod parse_top_decl. all: fix_up2. Qed.
Local Hint Resolve A_parse_top_decl : acct.

Lemma A_decls_loop : forall fuel acc,
  SpecE leavesl (leavesl acc) anysh (decls_loop OPS self fuel acc).
Proof. aloop decls_loop fuel. all: fix_up2. Qed.
Local Hint Resolve A_decls_loop : acct.

Lemma A_ensure_started : SpecPE plaincur noleaf [] anysh (ensure_started OPS).
Proof. aprodP ensure_started. all: fix_up2. Qed.
Local Hint Resolve A_ensure_started : acct.

Lemma A_parse_file : SpecPE plaincur leaves [] anysh (parse_file OPS self).
Proof. aprodP parse_file. all: fix_up2. Qed.

Lemma A_entry_expression : SpecPE plaincur leaves [] nr (entry_expression OPS self).
Proof. aprodP entry_expression. all: fix_up2. Qed.

Lemma A_entry_stmt : SpecPE plaincur leaves [] anysh (entry_stmt OPS self).
Proof. aprodP entry_stmt. all: fix_up2. Qed.

(* an accepted file ends at the end of the input *)
Lemma decls_loop_end : forall fuel acc s r s',
  decls_loop OPS self fuel acc s = Ok r s' -> s_cur s' = None.
Proof.
  induction fuel; intros acc s r s'; [ discriminate | ]. cbn [decls_loop].
  destruct (s_cur s) eqn:Ec.
  - apply bind_inv. intros y s1 _. apply IHfuel.
  - intros [= _ <-]. exact Ec.
Qed.

Lemma parse_file_end s f s' : parse_file OPS self s = Ok f s' -> s_cur s' = None.
Proof.
  unfold parse_file. apply bind_inv. intros [] s0 _.
  destruct (drain OPS s0) as [docs s1].
  apply bind_inv. intros pkg s2 _. apply bind_inv. intros b s3 _.
  apply bind_inv. intros imports s4 _. apply bind_inv. intros decls s5 Hd [= _ <-].
  eapply decls_loop_end, Hd.
Qed.

(* from a state that has not started, parse_file first moves onto the first token *)
Lemma parse_file_unstarted s f s' :
  s_started s = false -> parse_file OPS self s = Ok f s' ->
  exists s0, next OPS s = Ok tt s0 /\ parse_file OPS self s0 = Ok f s'.
Proof.
  intros Hs. unfold parse_file at 1, ensure_started. rewrite Hs.
  destruct (next OPS s) as [[] s0| | |] eqn:Hn; try discriminate.
  intros H. exists s0. split; [ reflexivity | ].
  assert (Hs0 : s_started s0 = true).
  { revert Hn. unfold next. destruct (s_rest s) as [|[? ? ? ?] ?]; [ destruct (s_term s) | ];
      intros [= <-]; reflexivity. }
  unfold parse_file, ensure_started. rewrite Hs0. exact H.
Qed.

End Step3.

#[export] Hint Resolve A_parse_type_spec A_parse_var_spec A_parse_const_spec A_parse_spec A_decl_group_loop A_parse_decl A_parse_func_decl A_stmt_body A_parse_package A_parse_import_spec A_import_group_loop A_parse_import_decl A_imports_loop A_parse_top_decl A_decls_loop A_ensure_started A_parse_file A_entry_expression A_entry_stmt : acct.

(* ------------------------------------------------------------------ closing the recursion *)

Section Close.
Variables (A G D C E : Type) (OPS : ops A G D C).
Notation pstate := (Core.pstate A G D E).
Notation nodeT := (node A C).
Notation selem := (Core.selem A G).
Notation sterm := (Core.sterm A G E).

Theorem GoodA_parsers_at d : GoodA (E:=E) (parsers_at OPS d).
Proof.
  apply (parsers_at_ind A G D C E OPS (fun self => GoodA self)).
  - apply GoodA_no_fuel.
  - intros self H. apply GoodA_step, H.
Qed.

(* every production, at every depth: e.g. *)
Theorem expr_accounted d : Spec (E:=E) leaves [] nr (k_expr (parsers_at OPS d)).
Proof. apply ga_expr, GoodA_parsers_at. Qed.
Theorem stmt_accounted d : Spec (E:=E) leaves [] anysh (k_stmt (parsers_at OPS d)).
Proof. apply ga_stmt, GoodA_parsers_at. Qed.
Theorem type_accounted d : Spec (E:=E) leaves [] nr (k_type (parsers_at OPS d)).
Proof. apply ga_type, GoodA_parsers_at. Qed.

Theorem parse_file_accounted d (s : pstate) f s' st :
  wf s -> plaincur s -> parse_file OPS (parsers_at OPS d) s = Ok f s' ->
  wf s' /\ exists used, remaining s = used ++ remaining s' /\ leaves f = identlits used /\
                        run st used = Some st.
Proof.
  intros Hw Hn H.
  destruct (A_parse_file _ _ _ _ _ OPS _ (GoodA_parsers_at d) s f s' Hn H) as (_ & L & Ha & HL).
  destruct (Ha st Hw) as (Hw' & used & Hu & -> & Hr). split; [ exact Hw' | ].
  exists used. repeat split; assumption.
Qed.

Theorem entry_expression_accounted d (s : pstate) e s' st :
  wf s -> plaincur s -> entry_expression OPS (parsers_at OPS d) s = Ok e s' ->
  wf s' /\ exists used, remaining s = used ++ remaining s' /\ leaves e = identlits used /\
                        run st used = Some st.
Proof.
  intros Hw Hn H.
  destruct (A_entry_expression _ _ _ _ _ OPS _ (GoodA_parsers_at d) s e s' Hn H)
    as (_ & L & Ha & HL).
  destruct (Ha st Hw) as (Hw' & used & Hu & -> & Hr). split; [ exact Hw' | ].
  exists used. repeat split; assumption.
Qed.

Theorem entry_stmt_accounted d (s : pstate) e s' st :
  wf s -> plaincur s -> entry_stmt OPS (parsers_at OPS d) s = Ok e s' ->
  wf s' /\ exists used, remaining s = used ++ remaining s' /\ leaves e = identlits used /\
                        run st used = Some st.
Proof.
  intros Hw Hn H.
  destruct (A_entry_stmt _ _ _ _ _ OPS _ (GoodA_parsers_at d) s e s' Hn H) as (_ & L & Ha & HL).
  destruct (Ha st Hw) as (Hw' & used & Hu & -> & Hr). split; [ exact Hw' | ].
  exists used. repeat split; assumption.
Qed.

Lemma started_closed : prim_closed (E:=E) OPS (fun s => s_started s = true).
Proof.
  split.
  - intros s s' _. unfold next. destruct (s_rest s) as [|[? ? ? ?] ?]; [ destruct (s_term s) | ];
      intros [= <-]; reflexivity.
  - intros s e s' _. unfold next. destruct (s_rest s) as [|[? ? ? ?] ?]; [ destruct (s_term s) | ];
      intros [= <- <-]; reflexivity.
  - intros s0 s s' _ H. unfold goback. destruct (preback s0) as [|[? ? ? ?] ?];
      [ destruct (s_term s) | ]; intros [= <-]; exact H.
  - intros c s c' s' H. unfold line_end_comment. destruct (negb _); [ intros [= _ <-]; exact H | ].
    destruct (s_rest s) as [|[? ? ? ?] ?]; [ destruct (s_term s) | ];
      try destruct (d_line_end _ _ _ _ _ _) as [[? ?] ?]; intros [= _ <-]; reflexivity.
  - intros c s e s' H. unfold line_end_comment. destruct (negb _); [ discriminate | ].
    destruct (s_rest s) as [|[? ? ? ?] ?]; [ destruct (s_term s) | ];
      try destruct (d_line_end _ _ _ _ _ _) as [[? ?] ?]; intros [= _ <-]; reflexivity.
  - intros s c s' H. unfold drain. destruct (d_drain OPS (s_d s)). intros [= _ <-]. exact H.
  - intros s H. exact H.
  - intros s lp ln H. exact H.
  - intros s n H. exact H.
Qed.

Lemma next_started (s s0 : pstate) : next OPS s = Ok tt s0 -> s_started s0 = true.
Proof.
  unfold next. destruct (s_rest s) as [|[? ? ? ?] ?]; [ destruct (s_term s) | ];
    intros [= <-]; reflexivity.
Qed.

Lemma wf_init (a0 : A) (d0 : D) (elems : list selem) (term : sterm) :
  @wf A G D E (init_state a0 d0 elems term).
Proof. split; [ reflexivity | discriminate ]. Qed.

(* THE THEOREM: an accepted source has consumed all of its input, the
   identifier / literal leaves of the tree are the identifier / literal tokens
   of the stream (same text, same position, each once, in order), and the round,
   square and curly brackets of the stream are properly nested *)
Theorem parse_file_accounted_init d a0 d0 elems (term : sterm) f s' :
  parse_file OPS (parsers_at OPS d) (init_state a0 d0 elems term) = Ok f s' ->
  leaves f = identlits (map pe elems) /\ balanced (map pe elems) /\
  s_cur s' = None /\ s_rest s' = [].
Proof.
  intros H.
  destruct (parse_file_accounted d _ f s' [] (wf_init a0 d0 elems term) I H)
    as ((_ & Hend) & used & Hu & HL & Hrun).
  pose proof (parse_file_end _ _ _ _ _ OPS _ _ _ _ H) as Hcur.
  destruct (parse_file_unstarted _ _ _ _ _ OPS _ (init_state a0 d0 elems term) _ _ eq_refl H)
    as (s0 & Hn & H0).
  assert (Hst : s_started s' = true).
  { eapply (lift_invariant _ _ _ _ _ OPS _ started_closed d s0 f s'); [ | exact H0 ].
    eapply next_started, Hn. }
  specialize (Hend Hst Hcur).
  assert (Hused : used = map pe elems).
  { unfold remaining, curl in Hu. cbn in Hu. rewrite Hcur, Hend in Hu.
    cbn in Hu. rewrite app_nil_r in Hu. symmetry. exact Hu. }
  subst used. repeat split; assumption.
Qed.

End Close.

(* ------------------------------------------------------------------ the plain reading:
   when no identifier token is spelled "." (the scanner produces none),
   [identlits] keeps exactly the tokens of class Literal *)

Section Plain.
Variable A : Type.
Definition is_plain_lit (l : leaf A) : bool :=
  match snd l with TLiteral _ _ => true | _ => false end.
Definition no_dot_ident (l : leaf A) : Prop := snd l <> TLiteral LIdent [46%N].

Lemma identlits_plain (l : list (leaf A)) :
  Forall no_dot_ident l -> identlits l = filter is_plain_lit l.
Proof.
  induction 1 as [|x l Hx _ IH]; [ reflexivity | ]. cbn [identlits filter].
  fold (identlits l). rewrite IH.
  assert (Hb : is_lit x = is_plain_lit x).
  { unfold is_lit, is_plain_lit, no_dot_ident in *. destruct (snd x) as [| | |k name]; try reflexivity.
    destruct k; try reflexivity. cbn. unfold is_dot. destruct (str_eqb name [46%N]) eqn:Hn.
    - apply str_eqb_eq in Hn. subst name. exfalso. apply Hx. reflexivity.
    - reflexivity. }
  rewrite Hb. reflexivity.
Qed.
End Plain.
Arguments is_plain_lit {A}.
Arguments no_dot_ident {A}.

Theorem parse_file_accounted_plain A G D C E (OPS : ops A G D C) d a0 d0 elems
        (term : sterm A G E) f s' :
  Forall no_dot_ident (map pe elems) ->
  parse_file OPS (parsers_at OPS d) (init_state a0 d0 elems term) = Ok f s' ->
  leaves f = filter is_plain_lit (map pe elems).
Proof.
  intros Hnd H. rewrite <- identlits_plain by exact Hnd.
  eapply parse_file_accounted_init, H.
Qed.
