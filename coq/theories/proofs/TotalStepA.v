(* TOTALITY, part 3: one unfolding of the recursion -- types and parameters. *)
From Coq Require Import List Bool Arith Lia.
From GoSyn Require Import Token Tok Ast Core.
From GoSyn.proofs Require Import Lift TotalBase TotalLeaf.
Import ListNotations.

Lemma pop_last_none X (l : list X) : pop_last l = None -> l = [].
Proof.
  intros H. destruct l as [|x l]; [ reflexivity | ].
  destruct (pop_last_some X (x :: l)) as (r & y & Hp); [ discriminate | congruence ].
Qed.

Lemma pop_last_Forall X (P : X -> Prop) (l r : list X) x :
  pop_last l = Some (r, x) -> Forall P l -> P x.
Proof.
  unfold pop_last. intros H Hl. destruct (rev l) as [|y t] eqn:Hr; [ discriminate | ].
  injection H as _ <-. rewrite Forall_forall in Hl. apply Hl. apply in_rev. rewrite Hr. left. reflexivity.
Qed.

Section StepA.
Variables (A G D C E : Type) (OPS : ops A G D C).
Variable AF : Prop.
Variable adm : Core.pstate A G D E -> Prop.
Hypothesis adm_le : forall s s' : Core.pstate A G D E,
  adm s -> s_depth s' = s_depth s -> meas s' <= meas s -> adm s'.
Local Hint Extern 2 (adm _) =>
  eapply adm_le; [ eassumption | sproj; lia | norm_goal; lia ] : total.
Notation pstate := (Core.pstate A G D E).
Notation res := (Core.res A G D E).
Notation parsers := (Core.parsers A G D C E).
Notation nodeT := (node A C).

Notation tspec Q p := (forall s : pstate, WF s -> adm s -> spec AF s (Q s) (p s)).

Variable self : parsers.
Hypothesis HG : GoodT AF adm self.
Set Default Proof Using "adm_le HG".

Lemma S_type : tspec (fun s t s' => ex_ok t /\ meas s' < meas s) (k_type self).
Proof. destruct HG; assumption. Qed.
Lemma S_type_or_none :
  tspec (fun s o s' => match o with Some t => ex_ok t /\ meas s' < meas s | None => True end)
        (k_type_or_none self).
Proof. destruct HG; assumption. Qed.
Lemma S_expr : tspec (fun s e s' => ex_ok e /\ meas s' < meas s) (k_expr self).
Proof. destruct HG; assumption. Qed.
Lemma S_unary : tspec (fun s e s' => ex_ok e /\ meas s' < meas s) (k_unary self).
Proof. destruct HG; assumption. Qed.
Lemma S_binary p prec : opt_ok ex_ok p ->
  tspec (fun s e s' => ex_ok e /\ (p = None -> meas s' < meas s)) (k_binary self p prec).
Proof. destruct HG; auto. Qed.
Lemma S_litvalue : tspec (fun s _ s' => meas s' < meas s) (k_litvalue self).
Proof. destruct HG; assumption. Qed.
Lemma S_block : tspec (fun s _ s' => meas s' < meas s) (k_block self).
Proof. destruct HG; assumption. Qed.
Lemma S_stmt : tspec (fun s _ s' => True) (k_stmt self).
Proof.
  intros s H1 H2. eapply spec_weaken; [ apply (t_stmt _ _ _ _ _ _ _ _ HG); assumption | auto ].
Qed.
Lemma S_stmt_lt (s : pstate) :
  WF s -> adm s -> cur_is s (KOp OBraceRight) = false ->
  spec AF s (fun _ s' => meas s' < meas s) (k_stmt self s).
Proof.
  intros H1 H2 H3. eapply spec_weaken; [ apply (t_stmt _ _ _ _ _ _ _ _ HG); assumption | auto ].
Qed.
Lemma S_if : tspec (fun s _ s' => meas s' < meas s) (k_if self).
Proof. destruct HG; assumption. Qed.
Local Hint Resolve S_type S_type_or_none S_expr S_unary S_binary S_litvalue S_block S_stmt_lt S_if
  : total.
Local Hint Resolve S_stmt | 20 : total.

Lemma T_parse_next_level_expr :
  tspec (fun s e s' => ex_ok e /\ meas s' < meas s) (parse_next_level_expr self).
Proof. tprod parse_next_level_expr. Qed.
Local Hint Resolve T_parse_next_level_expr : total.

Lemma T_comma_list_loop (item : pstate -> res nodeT)
      (Hitem : tspec (fun s e s' => ex_ok e /\ meas s' < meas s) item) :
  forall fuel acc (s : pstate), WF s -> adm s -> AF \/ meas s < fuel ->
  Forall ex_ok acc ->
  spec AF s (fun l _ => Forall ex_ok l) (comma_list_loop OPS fuel item acc s).
Proof. tloop comma_list_loop fuel. Qed.
Local Hint Resolve T_comma_list_loop : total.

Lemma T_expression_list :
  tspec (fun s l s' => Forall ex_ok l /\ meas s' < meas s) (expression_list OPS self).
Proof. tprod expression_list. Qed.
Local Hint Resolve T_expression_list : total.

Lemma T_parse_type_list :
  tspec (fun s l s' => Forall ex_ok l /\ meas s' < meas s) (parse_type_list OPS self).
Proof. tprod parse_type_list. Qed.
Local Hint Resolve T_parse_type_list : total.

Lemma T_type_list_loop : forall fuel acc (s : pstate),
  WF s -> adm s -> AF \/ meas s < fuel ->
  spec AF s (fun _ _ => True) (type_list_loop OPS self fuel acc s).
Proof. tloop type_list_loop fuel. Qed.
Local Hint Resolve T_type_list_loop : total.

Lemma T_type_list strict :
  tspec (fun s (_ : nodeT * bool) s' => meas s' < meas s) (type_list OPS self strict).
Proof. tprod type_list. Qed.
Local Hint Resolve T_type_list : total.

Lemma T_type_instance (left : nodeT) :
  tspec (fun s x s' => ex_ok x /\ meas s' < meas s) (type_instance OPS self left).
Proof. tprod type_instance. Qed.
Local Hint Resolve T_type_instance : total.

Lemma T_qualified_ident (name : option nodeT) : opt_ok id_ok name ->
  tspec (fun s x s' => ex_ok x /\ (name = None -> meas s' < meas s)) (qualified_ident OPS self name).
Proof. intros Hn. tprod qualified_ident. Qed.
Local Hint Resolve T_qualified_ident : total.

Lemma T_parse_type_term :
  tspec (fun s x s' => ex_ok x /\ meas s' < meas s) (parse_type_term OPS self).
Proof. tprod parse_type_term. Qed.
Local Hint Resolve T_parse_type_term : total.

Lemma T_type_elem_loop : forall fuel typ (s : pstate),
  WF s -> adm s -> AF \/ meas s < fuel -> ex_ok typ ->
  spec AF s (fun x _ => ex_ok x) (type_elem_loop OPS self fuel typ s).
Proof. tloop type_elem_loop fuel. Qed.
Local Hint Resolve T_type_elem_loop : total.

Lemma T_parse_type_elem :
  tspec (fun s x s' => ex_ok x /\ meas s' < meas s) (parse_type_elem OPS self).
Proof. tprod parse_type_elem. Qed.
Local Hint Resolve T_parse_type_elem : total.

Lemma T_array_len : tspec (fun s (_ : nodeT) s' => meas s' < meas s) (array_len OPS self).
Proof. tprod array_len. Qed.
Local Hint Resolve T_array_len : total.

Lemma T_array_or_typeargs :
  tspec (fun s x s' => ex_ok x /\ meas s' < meas s) (array_or_typeargs OPS self).
Proof. tprod array_or_typeargs. Qed.
Local Hint Resolve T_array_or_typeargs : total.

Lemma T_ellipsis_type : tspec (fun s (_ : nodeT) s' => meas s' < meas s) (ellipsis_type OPS self).
Proof. tprod ellipsis_type. Qed.
Local Hint Resolve T_ellipsis_type : total.

(* site 1462: the identifier list of a parameter declaration is never empty *)
Lemma T_param_decl_loop : forall fuel ewc ids (s : pstate),
  WF s -> adm s -> AF \/ meas s < fuel -> ids <> [] -> Forall id_ok ids ->
  spec AF s (fun _ _ => True) (param_decl_loop OPS self fuel ewc ids s).
Proof.
  induction fuel as [|fuel IH]; intros; [ cbn [param_decl_loop]; fin | ].
  cbn [param_decl_loop]. hide_nats. tsteps;
    try (match goal with Hp : pop_last _ = None |- _ => apply pop_last_none in Hp end; congruence).
  all: try (match goal with Hp : pop_last _ = Some _ |- _ =>
              eapply pop_last_Forall in Hp; [ | eassumption ] end).
  all: tsteps.
Qed.
Local Hint Resolve T_param_decl_loop : total.

Lemma T_parse_parameter_decl :
  tspec (fun s (_ : list nodeT) s' => meas s' < meas s) (parse_parameter_decl OPS self).
Proof. tprod parse_parameter_decl. Qed.
Local Hint Resolve T_parse_parameter_decl : total.

Lemma T_params_loop : forall fuel close acc (s : pstate),
  WF s -> adm s -> AF \/ meas s < fuel ->
  spec AF s (fun _ _ => True) (params_loop OPS self fuel close acc s).
Proof. tloop params_loop fuel. Qed.
Local Hint Resolve T_params_loop : total.

Lemma T_params_list open close :
  tspec (fun s fl s' => n_ps fl <> [] /\ meas s' < meas s) (params_list OPS self open close).
Proof. tprod params_list. Qed.
Local Hint Resolve T_params_list : total.

Lemma T_parameters :
  tspec (fun s fl s' => n_ps fl <> [] /\ meas s' < meas s) (parameters OPS self).
Proof. tprod parameters. Qed.
Local Hint Resolve T_parameters : total.

Lemma T_type_parameters :
  tspec (fun s fl s' => n_ps fl <> [] /\ meas s' < meas s) (type_parameters OPS self).
Proof. tprod type_parameters. Qed.
Local Hint Resolve T_type_parameters : total.

(* site 621 *)
Lemma T_parse_result : tspec (fun s fl s' => fl_ok fl) (parse_result OPS self).
Proof. tprod parse_result. Qed.
Local Hint Resolve T_parse_result : total.

Lemma T_signature :
  tspec (fun s (_ : nodeT * nodeT) s' => meas s' < meas s) (signature OPS self).
Proof. tprod signature. Qed.
Local Hint Resolve T_signature : total.

Lemma T_func_type : tspec (fun s t s' => ft_ok t /\ meas s' < meas s) (func_type OPS self).
Proof. tprod func_type. Qed.
Local Hint Resolve T_func_type : total.

Lemma T_type_params_loop : forall fuel acc (s : pstate),
  WF s -> adm s -> AF \/ meas s < fuel ->
  spec AF s (fun _ _ => True) (type_params_loop OPS self fuel acc s).
Proof. tloop type_params_loop fuel. Qed.
Local Hint Resolve T_type_params_loop : total.

Lemma T_parse_type_parameters :
  tspec (fun s (_ : nodeT) s' => meas s' < meas s) (parse_type_parameters OPS self).
Proof. tprod parse_type_parameters. Qed.
Local Hint Resolve T_parse_type_parameters : total.

(* site 806 *)
Lemma T_field_decl : tspec (fun s (_ : nodeT) s' => meas s' < meas s) (field_decl OPS self).
Proof.
  tprod field_decl.
  match goal with Hp : pop_last _ = None |- _ => apply pop_last_none in Hp; subst end.
  discriminate.
Qed.
Local Hint Resolve T_field_decl : total.

Lemma T_struct_loop : forall fuel acc (s : pstate),
  WF s -> adm s -> AF \/ meas s < fuel ->
  spec AF s (fun _ _ => True) (struct_loop OPS self fuel acc s).
Proof. tloop struct_loop fuel. Qed.
Local Hint Resolve T_struct_loop : total.

Lemma T_struct_type : tspec (fun s t s' => ex_ok t /\ meas s' < meas s) (struct_type OPS self).
Proof. tprod struct_type. Qed.
Local Hint Resolve T_struct_type : total.

Lemma T_parse_method_elem :
  tspec (fun s (_ : nodeT) s' => meas s' < meas s) (parse_method_elem OPS self).
Proof. tprod parse_method_elem. Qed.
Local Hint Resolve T_parse_method_elem : total.

(* site 155, first backtracking point: the loop goes on from the state an error
   of parse_method_elem left behind; goback only needs its terminal *)
Lemma T_interface_loop : forall fuel acc (s : pstate),
  WF s -> adm s -> AF \/ meas s < fuel ->
  spec AF s (fun _ _ => True) (interface_loop OPS self fuel acc s).
Proof. tloop interface_loop fuel. Qed.
Local Hint Resolve T_interface_loop : total.

Lemma T_parse_interface_type :
  tspec (fun s t s' => ex_ok t /\ meas s' < meas s) (parse_interface_type OPS self).
Proof. tprod parse_interface_type. Qed.
Local Hint Resolve T_parse_interface_type : total.

Lemma T_type_or_none_body :
  tspec (fun s o s' => match o with Some t => ex_ok t /\ meas s' < meas s | None => True end)
        (type_or_none_body OPS self).
Proof. tprod type_or_none_body. Qed.

Lemma T_type_body : tspec (fun s t s' => ex_ok t /\ meas s' < meas s) (type_body self).
Proof. tprod type_body. Qed.

Unset Default Proof Using.
End StepA.

#[export] Hint Resolve S_type S_type_or_none S_expr S_unary S_binary S_litvalue S_block S_stmt_lt S_if
  T_parse_next_level_expr T_comma_list_loop T_expression_list T_parse_type_list T_type_list_loop
  T_type_list T_type_instance T_qualified_ident T_parse_type_term T_type_elem_loop
  T_parse_type_elem T_array_len T_array_or_typeargs T_ellipsis_type T_param_decl_loop
  T_parse_parameter_decl T_params_loop T_params_list T_parameters T_type_parameters
  T_parse_result T_signature T_func_type T_type_params_loop T_parse_type_parameters
  T_field_decl T_struct_loop T_struct_type T_parse_method_elem T_interface_loop
  T_parse_interface_type T_type_or_none_body T_type_body : total.
#[export] Hint Resolve S_stmt | 20 : total.
