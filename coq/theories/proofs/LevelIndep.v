(* INDEPENDENCE of the representation of the nesting level and of a stale
   backtracking mark (instances of the relational lifting, RelLift.v).

   [indep lv mk k s1 s2]: the two states agree on every field, except
     lv = true : s_lp / s_ln may differ, but expr_level (= s_lp - s_ln - 1) is the same;
     mk = true : s_mark may differ, unless k = true (after a token move).
   Every production of the parser, started on related states, ends alike: same
   kind of outcome, SAME value / error / panic code, related end states
   ([indep_Good], [indep_parse_top_decl], ...).

     same_level      = indep true  false   (Goal 1)
     same_but_mark   = indep false true    (Goal 2)
     same_code       = indep true  true    (both at once; used for C15_decl_after_prefix) *)
From Coq Require Import List Bool Arith ZArith Lia.
From GoSyn Require Import Token Tok Ast Core.
From GoSyn.proofs Require Import Lift LevelProofs DepthProofs RelLift.
Import ListNotations.

Section Indep.
Variables (A G D C E : Type) (OPS : ops A G D C).
Notation pstate := (Core.pstate A G D E).
Notation res := (Core.res A G D E).
Notation parsers := (Core.parsers A G D C E).
Notation nodeT := (node A C).

Definition level_rel (lv : bool) (s1 s2 : pstate) : Prop :=
  if lv then lvl s1 = lvl s2 else s_lp s1 = s_lp s2 /\ s_ln s1 = s_ln s2.

Definition indep (lv mk : bool) (k : bool) (s1 s2 : pstate) : Prop :=
  s_cur s1 = s_cur s2 /\ s_rest s1 = s_rest s2 /\ s_term s1 = s_term s2 /\
  s_spos s1 = s_spos s2 /\ s_d s1 = s_d s2 /\ s_started s1 = s_started s2 /\
  s_depth s1 = s_depth s2 /\
  level_rel lv s1 s2 /\
  (mk && negb k = false -> s_mark s1 = s_mark s2).

Ltac open_indep :=
  repeat match goal with
         | H : indep _ _ _ ?a ?b |- _ =>
             destruct a as [cu1 re1 ma1 te1 sp1 lp1 ln1 dd1 st1 de1],
                      b as [cu2 re2 ma2 te2 sp2 lp2 ln2 dd2 st2 de2];
             unfold indep in H;
             cbn [s_cur s_rest s_mark s_term s_spos s_d s_started s_depth] in H;
             destruct H as (? & ? & ? & ? & ? & ? & ? & Hlv & Hmk); subst
         end.

Lemma level_pair lv (a b : pstate) : level_rel lv a b -> lvl a = lvl b.
Proof. unfold level_rel. destruct lv; [ auto | intros [H1 H2]; unfold lvl; rewrite H1, H2; reflexivity ]. Qed.

Lemma indep_closed lv mk : sim_closed OPS (indep lv mk).
Proof.
  split.
  - (* weaken *) intros k a b H. unfold indep in *. rewrite andb_false_r in H.
    intuition.
  - intros k a b H. symmetry. apply H.
  - intros k a b H. symmetry. apply H.
  - intros k a b H. symmetry. apply H.
  - intros k a b H. symmetry. apply H.
  - intros k a b H. symmetry. apply H.
  - intros k a b H. symmetry. apply H.
  - (* level_nonneg *) intros k a b (_&_&_&_&_&_&_&Hl&_). apply level_pair in Hl.
    unfold level_nonneg, lvl in *.
    destruct (Nat.leb_spec (S (s_ln b)) (s_lp b)), (Nat.leb_spec (S (s_ln a)) (s_lp a)); lia.
  - (* mark *) intros a b H. symmetry. apply H. rewrite andb_false_r. reflexivity.
  - (* inc_level *) intros k a b site H. unfold inc_level. cbv zeta.
    assert (Hl : lvl a = lvl b) by (apply (level_pair lv), H).
    assert (Ht : (s_ln (upd_level b (S (s_lp b)) (s_ln b)) + S MAX_DEPTH <=?
                  s_lp (upd_level b (S (s_lp b)) (s_ln b))) =
                 (s_ln (upd_level a (S (s_lp a)) (s_ln a)) + S MAX_DEPTH <=?
                  s_lp (upd_level a (S (s_lp a)) (s_ln a)))).
    { cbn [s_lp s_ln upd_level]. unfold lvl in Hl.
      destruct (Nat.leb_spec (s_ln b + S MAX_DEPTH) (S (s_lp b))),
               (Nat.leb_spec (s_ln a + S MAX_DEPTH) (S (s_lp a))); lia. }
    rewrite Ht. clear Ht Hl.
    assert (Hr : indep lv mk k (upd_level a (S (s_lp a)) (s_ln a)) (upd_level b (S (s_lp b)) (s_ln b))).
    { unfold indep, level_rel, lvl in *. cbn [s_cur s_rest s_mark s_term s_spos s_lp s_ln s_d s_started s_depth upd_level].
      destruct H as (?&?&?&?&?&?&?&Hl&?). repeat split; auto.
      destruct lv; [ lia | destruct Hl as [-> ->]; auto ]. }
    destruct (_ <=? _).
    + apply rel_err; [ | exact Hr ]. unfold else_error. cbn [s_spos upd_level].
      destruct H as (_&_&_&->&_). reflexivity.
    + apply rel_ok; [ reflexivity | exact Hr ].
  - (* dec_level *) intros k a b H. unfold indep, level_rel, lvl, dec_level in *.
    cbn [s_cur s_rest s_mark s_term s_spos s_lp s_ln s_d s_started s_depth upd_level].
    destruct H as (?&?&?&?&?&?&?&Hl&?). repeat split; auto.
    destruct lv; [ lia | destruct Hl as [-> ->]; auto ].
  - (* reset_level *) intros k a b H. unfold indep, level_rel, lvl, reset_level in *.
    cbn [s_cur s_rest s_mark s_term s_spos s_lp s_ln s_d s_started s_depth upd_level].
    destruct H as (?&?&?&?&?&?&?&Hl&?). repeat split; auto.
    destruct lv; auto.
  - (* restore *) intros k a b a' b' H H'. unfold indep, level_rel, lvl in *.
    cbn [s_cur s_rest s_mark s_term s_spos s_lp s_ln s_d s_started s_depth upd_level].
    destruct H as (_&_&_&_&_&_&_&Hl&_). destruct H' as (?&?&?&?&?&?&?&_&?). repeat split; auto.
  - (* upd_depth *) intros k a b n H. unfold indep, level_rel, lvl in *.
    cbn [s_cur s_rest s_mark s_term s_spos s_lp s_ln s_d s_started s_depth upd_depth].
    destruct H as (?&?&?&?&?&?&?&Hl&?). repeat split; auto.
  - (* upd_cur *) intros k a b H. unfold indep, level_rel, lvl in *.
    cbn [s_cur s_rest s_mark s_term s_spos s_lp s_ln s_d s_started s_depth upd_cur].
    destruct H as (?&?&?&?&?&?&?&Hl&?). repeat split; auto.
  - (* upd_d *) intros k a b d H. unfold indep, level_rel, lvl in *.
    cbn [s_cur s_rest s_mark s_term s_spos s_lp s_ln s_d s_started s_depth upd_d].
    destruct H as (?&?&?&?&?&?&?&Hl&?). repeat split; auto.
  - (* next *) intros k a b H. open_indep. unfold next, prev_end.
    cbn [s_cur s_rest s_mark s_term s_spos s_lp s_ln s_d s_started s_depth].
    destruct re2 as [|[a0 a1 t g] r]; [ destruct te2 | ]; cbn;
      (split; [ reflexivity | ]); unfold indep, level_rel, lvl; cbn; repeat split; auto.
  - (* goback *) intros k m a b H. open_indep. unfold goback.
    cbn [s_cur s_rest s_mark s_term s_spos s_lp s_ln s_d s_started s_depth].
    destruct m as [|[a0 a1 t g] r]; [ destruct te2 | ]; cbn; try reflexivity;
      (split; [ reflexivity | ]); unfold indep, level_rel, lvl; cbn; repeat split; auto.
  - (* line_end_comment *) intros k c a b H. open_indep. unfold line_end_comment, cur_is, cur_pos, prev_end.
    cbn [s_cur s_rest s_mark s_term s_spos s_lp s_ln s_d s_started s_depth].
    match goal with |- context [if negb ?x then _ else _] => destruct (negb x) end.
    + cbn. split; [ reflexivity | ]. unfold indep, level_rel, lvl; cbn; repeat split; auto.
    + destruct re2 as [|[a0 a1 t g] r]; [ destruct te2 | ];
        try destruct (d_line_end _ _ _ _ _ _) as [[? ?] ?]; cbn;
        (split; [ reflexivity | ]); unfold indep, level_rel, lvl; cbn; repeat split; auto.
Qed.


(* ------------------------------------------------------------ every production *)

Notation ipres lv mk p :=
  (forall k s1 s2, indep lv mk k s1 s2 -> res_rel (indep lv mk k) (indep lv mk k) (p s1) (p s2)).

Theorem indep_Good lv mk d : RGood (indep lv mk) (parsers_at OPS d).
Proof. apply RGood_parsers_at, indep_closed. Qed.

Theorem indep_parse_top_decl lv mk d : ipres lv mk (parse_top_decl OPS (parsers_at OPS d)).
Proof. apply rel_parse_top_decl, indep_closed. Qed.
Theorem indep_decls_loop lv mk d fuel acc : ipres lv mk (decls_loop OPS (parsers_at OPS d) fuel acc).
Proof. apply rel_decls_loop, indep_closed. Qed.
Theorem indep_parse_file lv mk d : ipres lv mk (parse_file OPS (parsers_at OPS d)).
Proof. apply rel_parse_file, indep_closed. Qed.
Theorem indep_entry_expression lv mk d : ipres lv mk (entry_expression OPS (parsers_at OPS d)).
Proof. apply rel_entry_expression, indep_closed. Qed.
Theorem indep_entry_stmt lv mk d : ipres lv mk (entry_stmt OPS (parsers_at OPS d)).
Proof. apply rel_entry_stmt, indep_closed. Qed.

(* ------------------------------------------------------------ Goal 1: the level pair *)

(* the states agree on every field except s_lp / s_ln, and have the same expr_level *)
Definition same_level (s1 s2 : pstate) : Prop :=
  s_cur s1 = s_cur s2 /\ s_rest s1 = s_rest s2 /\ s_mark s1 = s_mark s2 /\
  s_term s1 = s_term s2 /\ s_spos s1 = s_spos s2 /\ s_d s1 = s_d s2 /\
  s_started s1 = s_started s2 /\ s_depth s1 = s_depth s2 /\
  (Z.of_nat (s_lp s1) - Z.of_nat (s_ln s1) = Z.of_nat (s_lp s2) - Z.of_nat (s_ln s2))%Z.

Lemma same_level_indep k s1 s2 : same_level s1 s2 <-> indep true false k s1 s2.
Proof.
  unfold same_level, indep, level_rel, lvl. cbn [andb]. intuition.
Qed.

Lemma same_level_refl s : same_level s s.
Proof. unfold same_level. intuition. Qed.
Lemma same_level_sym s1 s2 : same_level s1 s2 -> same_level s2 s1.
Proof. unfold same_level. intuition. Qed.
Lemma same_level_trans s1 s2 s3 : same_level s1 s2 -> same_level s2 s3 -> same_level s1 s3.
Proof. unfold same_level. intuition congruence. Qed.

Definition level_indep {X} (p : pstate -> res X) : Prop :=
  forall s1 s2, same_level s1 s2 -> res_rel same_level same_level (p s1) (p s2).

Lemma level_indep_of X (p : pstate -> res X) : ipres true false p -> level_indep p.
Proof.
  intros H s1 s2 Hs. apply (same_level_indep true) in Hs.
  eapply rel_weaken; [ apply (H true), Hs | | ]; intros a b; apply same_level_indep.
Qed.

Theorem level_indep_fields d :
  let P := parsers_at OPS d in
  level_indep (k_type P) /\ level_indep (k_type_or_none P) /\ level_indep (k_expr P) /\
  level_indep (k_unary P) /\ (forall p prec, level_indep (k_binary P p prec)) /\
  level_indep (k_litvalue P) /\ level_indep (k_block P) /\ level_indep (k_stmt P) /\
  level_indep (k_if P).
Proof.
  intros P. destruct (indep_Good true false d).
  repeat apply conj; try intros p prec; apply level_indep_of; auto.
Qed.

Theorem level_indep_top_decl d : level_indep (parse_top_decl OPS (parsers_at OPS d)).
Proof. apply level_indep_of, indep_parse_top_decl. Qed.
Theorem level_indep_decls_loop d fuel acc :
  level_indep (decls_loop OPS (parsers_at OPS d) fuel acc).
Proof. apply level_indep_of, indep_decls_loop. Qed.
Theorem level_indep_parse_file d : level_indep (parse_file OPS (parsers_at OPS d)).
Proof. apply level_indep_of, indep_parse_file. Qed.
Theorem level_indep_entry_expression d : level_indep (entry_expression OPS (parsers_at OPS d)).
Proof. apply level_indep_of, indep_entry_expression. Qed.
Theorem level_indep_entry_stmt d : level_indep (entry_stmt OPS (parsers_at OPS d)).
Proof. apply level_indep_of, indep_entry_stmt. Qed.

(* the value-level reading: an Ok of one run is an Ok with the same node of the other *)
Corollary level_indep_ok X (p : pstate -> res X) s1 s2 x t1 :
  level_indep p -> same_level s1 s2 -> p s1 = Ok x t1 ->
  exists t2, p s2 = Ok x t2 /\ same_level t1 t2.
Proof. intros H Hs Hp. eapply rel_Ok_inv; [ apply H, Hs | exact Hp ]. Qed.
Corollary level_indep_err X (p : pstate -> res X) s1 s2 e t1 :
  level_indep p -> same_level s1 s2 -> p s1 = Err e t1 ->
  exists t2, p s2 = Err e t2 /\ same_level t1 t2.
Proof. intros H Hs Hp. eapply rel_Err_inv; [ apply H, Hs | exact Hp ]. Qed.

(* ------------------------------------------------------------ Goal 2: the mark *)

(* the states agree on every field except s_mark *)
Definition same_but_mark (s1 s2 : pstate) : Prop :=
  s_cur s1 = s_cur s2 /\ s_rest s1 = s_rest s2 /\ s_term s1 = s_term s2 /\
  s_spos s1 = s_spos s2 /\ s_lp s1 = s_lp s2 /\ s_ln s1 = s_ln s2 /\ s_d s1 = s_d s2 /\
  s_started s1 = s_started s2 /\ s_depth s1 = s_depth s2.

Lemma same_but_mark_indep s1 s2 : same_but_mark s1 s2 <-> indep false true false s1 s2.
Proof.
  unfold same_but_mark, indep, level_rel. cbn [andb negb]. intuition discriminate.
Qed.

Definition mark_indep {X} (p : pstate -> res X) : Prop :=
  forall s1 s2, same_but_mark s1 s2 -> res_rel same_but_mark same_but_mark (p s1) (p s2).

Lemma mark_indep_of X (p : pstate -> res X) : ipres false true p -> mark_indep p.
Proof.
  intros H s1 s2 Hs. apply same_but_mark_indep in Hs.
  eapply rel_weaken; [ apply (H false), Hs | | ]; intros a b; apply same_but_mark_indep.
Qed.

(* No production reads a mark it has not written itself: whatever s_mark holds
   when one of the nine productions / a declaration / a file / an entry point is
   entered, the outcome is the same. *)
Theorem mark_indep_fields d :
  let P := parsers_at OPS d in
  mark_indep (k_type P) /\ mark_indep (k_type_or_none P) /\ mark_indep (k_expr P) /\
  mark_indep (k_unary P) /\ (forall p prec, mark_indep (k_binary P p prec)) /\
  mark_indep (k_litvalue P) /\ mark_indep (k_block P) /\ mark_indep (k_stmt P) /\
  mark_indep (k_if P).
Proof.
  intros P. destruct (indep_Good false true d).
  repeat apply conj; try intros p prec; apply mark_indep_of; auto.
Qed.

Theorem mark_indep_top_decl d : mark_indep (parse_top_decl OPS (parsers_at OPS d)).
Proof. apply mark_indep_of, indep_parse_top_decl. Qed.
Theorem mark_indep_parse_file d : mark_indep (parse_file OPS (parsers_at OPS d)).
Proof. apply mark_indep_of, indep_parse_file. Qed.
Theorem mark_indep_entry_expression d : mark_indep (entry_expression OPS (parsers_at OPS d)).
Proof. apply mark_indep_of, indep_entry_expression. Qed.
Theorem mark_indep_entry_stmt d : mark_indep (entry_stmt OPS (parsers_at OPS d)).
Proof. apply mark_indep_of, indep_entry_stmt. Qed.

(* ------------------------------------------------------------ Goal 3: a declaration after a prefix *)

(* level and mark at once *)
Definition same_code (s1 s2 : pstate) : Prop :=
  s_cur s1 = s_cur s2 /\ s_rest s1 = s_rest s2 /\ s_term s1 = s_term s2 /\
  s_spos s1 = s_spos s2 /\ s_d s1 = s_d s2 /\ s_started s1 = s_started s2 /\
  s_depth s1 = s_depth s2 /\ lvl s1 = lvl s2.

Lemma same_code_indep s1 s2 : same_code s1 s2 <-> indep true true false s1 s2.
Proof.
  unfold same_code, indep, level_rel. cbn [andb negb]. intuition discriminate.
Qed.

Lemma same_code_refl s : same_code s s.
Proof. unfold same_code. intuition. Qed.
Lemma same_code_sym s1 s2 : same_code s1 s2 -> same_code s2 s1.
Proof. unfold same_code. intuition. Qed.
Lemma same_code_trans s1 s2 s3 : same_code s1 s2 -> same_code s2 s3 -> same_code s1 s3.
Proof. unfold same_code. intuition congruence. Qed.

Definition code_indep {X} (p : pstate -> res X) : Prop :=
  forall s1 s2, same_code s1 s2 -> res_rel same_code same_code (p s1) (p s2).

Lemma code_indep_of X (p : pstate -> res X) : ipres true true p -> code_indep p.
Proof.
  intros H s1 s2 Hs. apply same_code_indep in Hs.
  eapply rel_weaken; [ apply (H false), Hs | | ]; intros a b; apply same_code_indep.
Qed.

Theorem code_indep_top_decl d : code_indep (parse_top_decl OPS (parsers_at OPS d)).
Proof. apply code_indep_of, indep_parse_top_decl. Qed.
Theorem code_indep_entry_stmt d : code_indep (entry_stmt OPS (parsers_at OPS d)).
Proof. apply code_indep_of, indep_entry_stmt. Qed.
Theorem code_indep_entry_expression d : code_indep (entry_expression OPS (parsers_at OPS d)).
Proof. apply code_indep_of, indep_entry_expression. Qed.

(* the state positioned like [s], with the level pair of init_state (1, 0),
   no open recursion hub and the mark [m] *)
Definition fresh_at (s : pstate) (m : list (selem A G)) : pstate :=
  {| s_cur := s_cur s; s_rest := s_rest s; s_mark := m; s_term := s_term s; s_spos := s_spos s;
     s_lp := 1; s_ln := 0; s_d := s_d s; s_started := s_started s; s_depth := 0 |}.

(* what is known of a state between two top-level declarations *)
Definition at_top (s : pstate) : Prop := lvl s = 1%Z /\ s_depth s = 0 /\ cur_mark s.

Lemma same_code_fresh s m : lvl s = 1%Z -> s_depth s = 0 -> same_code s (fresh_at s m).
Proof. intros Hl Hd. unfold same_code, fresh_at, lvl in *. cbn. intuition. Qed.

Lemma at_top_init a0 d0 elems (term : sterm A G E) : at_top (init_state a0 d0 elems term).
Proof. repeat split. Qed.

(* a declaration read in the middle of a file is the declaration read from a
   fresh state positioned there *)
Theorem decl_after_prefix d s m :
  lvl s = 1%Z -> s_depth s = 0 ->
  res_rel same_code same_code
          (parse_top_decl OPS (parsers_at OPS d) s)
          (parse_top_decl OPS (parsers_at OPS d) (fresh_at s m)).
Proof. intros Hl Hd. apply code_indep_top_decl, same_code_fresh; assumption. Qed.

(* top-level declarations keep [at_top] *)
Lemma depth_top_decl d (s : pstate) x s' :
  parse_top_decl OPS (parsers_at OPS d) s = Ok x s' -> s_depth s' = s_depth s.
Proof.
  apply (restores_depth_ok _ _ _ _ _ (parse_top_decl OPS (parsers_at OPS d))), restores_of_pres.
  eapply Lift.L_parse_top_decl; [ exact (depth_inv_closed _ _ _ _ _ OPS) | apply depth_Good ].
Qed.

Lemma at_top_decl d s x s' :
  at_top s -> parse_top_decl OPS (parsers_at OPS d) s = Ok x s' -> at_top s'.
Proof.
  intros (Hl & Hd & Hc) H. pose proof (depth_top_decl _ _ _ _ H) as Hd'.
  apply level_restored_top_decl in H as [Hl' Hc']; [ | exact Hc ].
  repeat split; [ unfold lvl in *; lia | congruence | exact Hc' ].
Qed.

(* the declarations of a file, each read from a fresh state positioned at its
   first token (the position after the previous fresh run) *)
Inductive fresh_decls (P : parsers) : pstate -> list nodeT -> pstate -> Prop :=
| fd_nil s : s_cur s = None -> fresh_decls P s [] s
| fd_cons s x t ds s' :
    s_cur s <> None ->
    parse_top_decl OPS P (fresh_at s (s_mark s)) = Ok x t ->
    fresh_decls P t ds s' ->
    fresh_decls P s (x :: ds) s'.

Theorem decls_loop_fresh d : forall fuel acc s s0 xs s',
  at_top s -> same_code s s0 ->
  decls_loop OPS (parsers_at OPS d) fuel acc s = Ok xs s' ->
  exists ds s0', xs = acc ++ ds /\ fresh_decls (parsers_at OPS d) s0 ds s0' /\ same_code s' s0'.
Proof.
  induction fuel as [|fuel IH]; intros acc s s0 xs s' Ht Hs H; [ discriminate | ].
  cbn [decls_loop] in H.
  assert (Hcur : s_cur s0 = s_cur s) by (symmetry; apply Hs).
  destruct (s_cur s) as [c|] eqn:Hc.
  - destruct (parse_top_decl OPS (parsers_at OPS d) s) as [x t| | |] eqn:Hp; try discriminate.
    cbn [bind] in H.
    assert (Hf : same_code s (fresh_at s0 (s_mark s0))).
    { destruct Ht as (Hl & Hd & _). unfold same_code, fresh_at, lvl in *. cbn. intuition. }
    destruct (rel_Ok_inv _ _ _ _ _ _ _ _ _ _ _ (code_indep_top_decl d _ _ Hf) Hp) as (t0 & Hp0 & Ht0).
    apply IH with (s0 := t0) in H; [ | eapply at_top_decl; eassumption | exact Ht0 ].
    destruct H as (ds & s0' & -> & Hfd & Hs').
    exists (x :: ds), s0'. split; [ rewrite <- app_assoc; reflexivity | split; [ | exact Hs' ] ].
    eapply fd_cons; [ rewrite Hcur; discriminate | exact Hp0 | exact Hfd ].
  - injection H as <- <-. exists [], s0. split; [ symmetry; apply app_nil_r | split; [ | exact Hs ] ].
    apply fd_nil, Hcur.
Qed.

(* ---- the declarations of a whole file ---- *)

(* parse_file up to the first declaration: package clause and imports *)
Definition file_prefix (s : pstate) : res (C * nodeT * list nodeT) :=
  bind (ensure_started OPS s) (fun _ s0 =>
  let '(docs, s1) := drain OPS s0 in
  bind (parse_package OPS s1) (fun pkg s2 =>
  bind (skipped OPS (KOp OSemiColon) s2) (fun _ s3 =>
  bind (imports_loop OPS (loop_fuel s3) [] s3) (fun imports s4 =>
  Ok (docs, pkg, imports) s4)))).

Lemma parse_file_split (P : parsers) s :
  parse_file OPS P s =
  bind (file_prefix s) (fun dpi s4 =>
  bind (decls_loop OPS P (loop_fuel s4) [] s4) (fun decls s5 =>
  Ok (mkd A C GFile [] [] (fst (fst dpi)) [snd (fst dpi); nlist (snd dpi); nlist decls]) s5)).
Proof.
  unfold parse_file, file_prefix.
  destruct (ensure_started OPS s) as [[] s0| | |]; cbn [bind]; try reflexivity.
  destruct (drain OPS s0) as [docs s1].
  destruct (parse_package OPS s1) as [pkg s2| | |]; cbn [bind]; try reflexivity.
  destruct (skipped OPS (KOp OSemiColon) s2) as [b s3| | |]; cbn [bind]; try reflexivity.
  destruct (imports_loop OPS (loop_fuel s3) [] s3) as [imports s4| | |]; cbn [bind]; reflexivity.
Qed.

Lemma file_prefix_pres K (Inv InvE : K -> pstate -> Prop) (up rst dup : K -> K) :
  inv_closed OPS Inv InvE up rst dup ->
  forall k s, Inv k s -> post (Inv k) (InvE k) (file_prefix s).
Proof.
  intros HC k s H. unfold file_prefix.
  eapply post_bind; [ eapply Lift.L_ensure_started; eassumption | intros _ s0 H0 ].
  destruct (drain OPS s0) as [docs s1] eqn:Hd. pose proof (ic_drain HC _ _ _ _ Hd H0) as H1.
  eapply post_bind; [ eapply Lift.L_parse_package; eassumption | intros pkg s2 H2 ].
  eapply post_bind; [ eapply Lift.L_skipped; eassumption | intros b s3 H3 ].
  eapply post_bind; [ eapply Lift.L_imports_loop; eassumption | intros imports s4 H4 ].
  exact H4.
Qed.

Lemma at_top_file_prefix s dpi s4 : at_top s -> file_prefix s = Ok dpi s4 -> at_top s4.
Proof.
  intros (Hl & Hd & Hc) H.
  pose proof (file_prefix_pres _ _ _ _ _ _ (level_inv_closed _ _ _ _ _ OPS) 1%Z s (conj Hl Hc)) as H1.
  pose proof (file_prefix_pres _ _ _ _ _ _ (depth_inv_closed _ _ _ _ _ OPS) 0 s Hd) as H2.
  rewrite H in H1, H2. destruct H1 as [H1 H1']. repeat split; assumption.
Qed.

(* The declarations of a file are what parse_top_decl returns, one after the
   other, from fresh states: nothing the package clause, the imports or the
   earlier declarations left in the level pair, the depth counter or the mark
   is seen by a later declaration. *)
Theorem parse_file_decls_fresh d s x s' :
  at_top s -> parse_file OPS (parsers_at OPS d) s = Ok x s' ->
  exists docs pkg imports s4 ds s0',
    file_prefix s = Ok (docs, pkg, imports) s4 /\
    x = mkd A C GFile [] [] docs [pkg; nlist imports; nlist ds] /\
    fresh_decls (parsers_at OPS d) s4 ds s0' /\ same_code s' s0'.
Proof.
  intros Ht H. rewrite parse_file_split in H.
  destruct (file_prefix s) as [[[docs pkg] imports] s4| | |] eqn:Hp; try discriminate.
  cbn [bind fst snd] in H.
  destruct (decls_loop OPS (parsers_at OPS d) (loop_fuel s4) [] s4) as [ds s5| | |] eqn:Hl;
    try discriminate.
  cbn [bind] in H. injection H as <- <-.
  apply decls_loop_fresh with (s0 := s4) in Hl;
    [ | eapply at_top_file_prefix; eassumption | apply same_code_refl ].
  destruct Hl as (ds' & s0' & Hds & Hfd & Hs). cbn [app] in Hds. subst ds'.
  exists docs, pkg, imports, s4, ds, s0'. auto.
Qed.

(* ---- value-level readings ---- *)

Lemma lvl_one (s : pstate) : lvl s = 1%Z <-> s_lp s = S (s_ln s).
Proof. unfold lvl. lia. Qed.

Lemma same_level_upd (s : pstate) lp ln lp' ln' :
  (Z.of_nat lp - Z.of_nat ln = Z.of_nat lp' - Z.of_nat ln')%Z ->
  same_level (upd_level s lp ln) (upd_level s lp' ln').
Proof. intros H. unfold same_level. cbn. intuition. Qed.

(* a statement read at the level pair (lp, ln) and at (lp', ln'), same difference *)
Corollary entry_stmt_level_pair d (s : pstate) lp ln lp' ln' x t :
  (Z.of_nat lp - Z.of_nat ln = Z.of_nat lp' - Z.of_nat ln')%Z ->
  entry_stmt OPS (parsers_at OPS d) (upd_level s lp ln) = Ok x t ->
  exists t', entry_stmt OPS (parsers_at OPS d) (upd_level s lp' ln') = Ok x t' /\ same_level t t'.
Proof.
  intros H Hp. eapply level_indep_ok; [ apply level_indep_entry_stmt | | exact Hp ].
  apply same_level_upd, H.
Qed.

Corollary decl_after_prefix_ok d s m x t :
  s_lp s = S (s_ln s) -> s_depth s = 0 ->
  parse_top_decl OPS (parsers_at OPS d) s = Ok x t ->
  exists t0, parse_top_decl OPS (parsers_at OPS d) (fresh_at s m) = Ok x t0 /\ same_code t t0.
Proof.
  intros Hl Hd Hp. apply lvl_one in Hl.
  eapply rel_Ok_inv; [ apply decl_after_prefix; assumption | exact Hp ].
Qed.
Corollary decl_after_prefix_err d s m e t :
  s_lp s = S (s_ln s) -> s_depth s = 0 ->
  parse_top_decl OPS (parsers_at OPS d) s = Err e t ->
  exists t0, parse_top_decl OPS (parsers_at OPS d) (fresh_at s m) = Err e t0 /\ same_code t t0.
Proof.
  intros Hl Hd Hp. apply lvl_one in Hl.
  eapply rel_Err_inv; [ apply decl_after_prefix; assumption | exact Hp ].
Qed.
(* and back: what the fresh run returns is what the run inside the file returns *)
Corollary decl_after_prefix_ok_conv d s m x t0 :
  s_lp s = S (s_ln s) -> s_depth s = 0 ->
  parse_top_decl OPS (parsers_at OPS d) (fresh_at s m) = Ok x t0 ->
  exists t, parse_top_decl OPS (parsers_at OPS d) s = Ok x t /\ same_code t t0.
Proof.
  intros Hl Hd Hp. apply lvl_one in Hl.
  pose proof (decl_after_prefix d s m Hl Hd) as Hr.
  apply rel_sym with (r1 := parse_top_decl OPS (parsers_at OPS d) s) in Hr;
    [ | exact same_code_sym .. ].
  destruct (rel_Ok_inv _ _ _ _ _ _ _ _ _ _ _ Hr Hp) as (t & Ht & Hs).
    exists t. split; [ exact Ht | apply same_code_sym, Hs ].
Qed.

(* the states between the declarations of a file *)
Inductive reached (P : parsers) (s : pstate) : pstate -> Prop :=
| reached_here : reached P s s
| reached_decl t x u : reached P s t -> parse_top_decl OPS P t = Ok x u -> reached P s u.

Lemma at_top_reached d s t : at_top s -> reached (parsers_at OPS d) s t -> at_top t.
Proof. intros Hs Hr. induction Hr; [ exact Hs | eapply at_top_decl; eassumption ]. Qed.

Theorem decl_after_decls d s t m :
  at_top s -> reached (parsers_at OPS d) s t ->
  res_rel same_code same_code
          (parse_top_decl OPS (parsers_at OPS d) t)
          (parse_top_decl OPS (parsers_at OPS d) (fresh_at t m)).
Proof.
  intros Hs Hr. destruct (at_top_reached _ _ _ Hs Hr) as (Hl & Hd & _).
  apply decl_after_prefix; assumption.
Qed.

End Indep.

Arguments indep {A G D E} lv mk k s1 s2.
Arguments same_level {A G D E} s1 s2.
Arguments same_but_mark {A G D E} s1 s2.
Arguments same_code {A G D E} s1 s2.
Arguments level_indep {A G D E X} p.
Arguments mark_indep {A G D E X} p.
Arguments code_indep {A G D E X} p.
Arguments fresh_at {A G D E} s m.
Arguments at_top {A G D E} s.
Arguments fresh_decls {A G D C E} OPS P s ds s'.
Arguments file_prefix {A G D C E} OPS s.
Arguments reached {A G D C E} OPS P s t.
