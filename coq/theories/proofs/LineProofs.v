(* C16: the line table and Scanner::line_info against lines/columns defined on
   the source text. *)
From Coq Require Import List NArith Bool Lia.
From GoSyn Require Import Token Tok Regex Scanner.
From GoSyn.spec Require Import NumLit StrLit LineCol.
From GoSyn.proofs Require Import NumLitProofs StrLitProofs.
Import ListNotations.
Open Scope N_scope.

(* ------------------------------------------------------------ list helpers *)

Lemma filter_none {X} (f : X -> bool) (l : list X) :
  (forall x, In x l -> f x = false) -> filter f l = [].
Proof.
  induction l as [|x l IH]; intro H; [reflexivity|].
  cbn [filter]. rewrite (H x (or_introl eq_refl)). apply IH.
  intros y Hy. apply H. right. exact Hy.
Qed.

Lemma filter_all {X} (f : X -> bool) (l : list X) :
  (forall x, In x l -> f x = true) -> filter f l = l.
Proof.
  induction l as [|x l IH]; intro H; [reflexivity|].
  cbn [filter]. rewrite (H x (or_introl eq_refl)). f_equal. apply IH.
  intros y Hy. apply H. right. exact Hy.
Qed.

Lemma existsb_none {X} (f : X -> bool) (l : list X) :
  (forall x, In x l -> f x = false) -> existsb f l = false.
Proof.
  induction l as [|x l IH]; intro H; [reflexivity|].
  cbn [existsb]. rewrite (H x (or_introl eq_refl)). apply IH.
  intros y Hy. apply H. right. exact Hy.
Qed.

Lemma last_cons_default {X} (l : list X) : forall x d, last (x :: l) d = last l x.
Proof.
  induction l as [|y l IH]; intros x d; [reflexivity|].
  change (last (x :: y :: l) d) with (last (y :: l) d).
  rewrite (IH y d), (IH y x). reflexivity.
Qed.

Lemma rev_head_last {X} (l : list X) (d : X) :
  match rev l with [] => d | x :: _ => x end = last l d.
Proof.
  induction l as [|x l IH] using rev_ind; [reflexivity|].
  rewrite rev_app_distr, last_last. reflexivity.
Qed.

Lemma lenN_app {X} (a b : list X) : lenN (a ++ b) = lenN a + lenN b.
Proof. unfold lenN. rewrite app_length. lia. Qed.

Lemma lenN_cons {X} (x : X) (l : list X) : lenN (x :: l) = 1 + lenN l.
Proof. unfold lenN. cbn [length]. lia. Qed.

Lemma lenN_nil {X} : lenN (@nil X) = 0.
Proof. reflexivity. Qed.

Lemma firstn_len_app {X} (a b : list X) : firstn (length a) (a ++ b) = a.
Proof.
  induction a as [|x a IH]; [reflexivity|].
  cbn [length app firstn]. f_equal. exact IH.
Qed.

Lemma skipn_len_app {X} (a b : list X) : skipn (length a) (a ++ b) = b.
Proof.
  induction a as [|x a IH]; [reflexivity|].
  cbn [length app skipn]. exact IH.
Qed.

Lemma nth_error_firstn_lt {X} (l : list X) : forall n k, (k < n)%nat ->
  nth_error (firstn n l) k = nth_error l k.
Proof.
  induction l as [|x l IH]; intros n k Hk; [rewrite firstn_nil; reflexivity|].
  destruct n as [|n]; [lia|]. destruct k as [|k]; [reflexivity|].
  cbn [firstn nth_error]. apply IH. lia.
Qed.

(* ------------------------------------------------------------ sorted tables *)

Lemma sorted_strict_tail x l : sorted_strict (x :: l) -> sorted_strict l.
Proof.
  destruct l as [|y l]; intro H; [exact I|].
  destruct H as [_ H]. exact H.
Qed.

Lemma sorted_strict_head x l : sorted_strict (x :: l) -> forall y, In y l -> x < y.
Proof.
  revert x. induction l as [|z l IH]; intros x H y Hy; [destruct Hy|].
  destruct H as [Hxz H].
  destruct Hy as [Hy|Hy]; [subst; exact Hxz|].
  specialize (IH z H y Hy). lia.
Qed.

Lemma sorted_strict_app_l a b : sorted_strict (a ++ b) -> sorted_strict a.
Proof.
  induction a as [|x a IH]; intro H; [exact I|].
  destruct a as [|y a]; [exact I|].
  destruct H as [Hxy H]. split; [exact Hxy|]. apply IH. exact H.
Qed.

(* a strictly ascending table splits around [p] *)
Lemma sorted_split p tbl : sorted_strict tbl ->
  exists a b, tbl = a ++ b /\ (forall x, In x a -> x < p) /\
    ((forall x, In x b -> p < x) \/
     (exists b', b = p :: b' /\ forall x, In x b' -> p < x)).
Proof.
  induction tbl as [|x tbl IH]; intro Hs.
  - exists [], []. split; [reflexivity|]. split; [intros x []|]. left. intros x [].
  - destruct (N.lt_trichotomy x p) as [Hlt|[Heq|Hgt]].
    + destruct (IH (sorted_strict_tail _ _ Hs)) as (a & b & Hab & Ha & Hb).
      exists (x :: a), b. split; [rewrite Hab; reflexivity|]. split; [|exact Hb].
      intros y [Hy|Hy]; [subst; exact Hlt|apply Ha; exact Hy].
    + subst x. exists [], (p :: tbl). split; [reflexivity|]. split; [intros x []|].
      right. exists tbl. split; [reflexivity|]. apply sorted_strict_head. exact Hs.
    + exists [], (x :: tbl). split; [reflexivity|]. split; [intros y []|].
      left. intros y [Hy|Hy]; [subst; exact Hgt|].
      pose proof (sorted_strict_head _ _ Hs y Hy) as Hxy. lia.
Qed.

(* ------------------------------------------------------------ line_info on a sorted table *)

Lemma adj_succ n : n <> 0 -> adj (1 + n) = n.
Proof.
  intro Hn. unfold adj. destruct (N.eqb_spec (1 + n) 1) as [E|E]; lia.
Qed.

Theorem line_info_sorted : forall tbl p, sorted_strict tbl ->
  line_info tbl p = (adj (1 + count_le tbl p), p - last_le tbl p).
Proof.
  intros tbl p Hs.
  destruct (sorted_split p tbl Hs) as (a & b & Hab & Ha & Hb).
  assert (Fa_lt : filter (fun x => x <? p) a = a).
  { apply filter_all. intros x Hx. apply N.ltb_lt. apply Ha. exact Hx. }
  assert (Fa_le : filter (fun x => x <=? p) a = a).
  { apply filter_all. intros x Hx. apply N.leb_le. apply Ha in Hx. lia. }
  assert (Ea : existsb (N.eqb p) a = false).
  { apply existsb_none. intros x Hx. apply N.eqb_neq. apply Ha in Hx. lia. }
  unfold line_info, count_le, last_le, entries_le. subst tbl.
  rewrite !filter_app, existsb_app, Fa_lt, Fa_le, Ea. cbn [orb].
  destruct Hb as [Hb|(b' & Eb & Hb)].
  - (* p is not in the table *)
    assert (Fb_lt : filter (fun x => x <? p) b = []).
    { apply filter_none. intros x Hx. apply N.ltb_ge. apply Hb in Hx. lia. }
    assert (Fb_le : filter (fun x => x <=? p) b = []).
    { apply filter_none. intros x Hx. apply N.leb_gt. apply Hb. exact Hx. }
    assert (Eb : existsb (N.eqb p) b = false).
    { apply existsb_none. intros x Hx. apply N.eqb_neq. apply Hb in Hx. lia. }
    rewrite Fb_lt, Fb_le, Eb, !app_nil_r.
    destruct a as [|x a] using rev_ind.
    + cbn [rev last]. rewrite lenN_nil, N.sub_0_r. reflexivity.
    + clear IHa. rewrite rev_app_distr. cbn [rev app]. rewrite last_last, lenN_app.
      rewrite adj_succ; [reflexivity|]. rewrite lenN_cons. lia.
  - (* p is an entry *)
    subst b.
    assert (Fb_lt : filter (fun x => x <? p) (p :: b') = []).
    { cbn [filter]. rewrite N.ltb_irrefl. apply filter_none.
      intros x Hx. apply N.ltb_ge. apply Hb in Hx. lia. }
    assert (Fb_le : filter (fun x => x <=? p) (p :: b') = [p]).
    { cbn [filter]. rewrite N.leb_refl. f_equal. apply filter_none.
      intros x Hx. apply N.leb_gt. apply Hb. exact Hx. }
    rewrite Fb_lt, Fb_le, app_nil_r. cbn [existsb]. rewrite N.eqb_refl. cbn [orb].
    rewrite last_last, lenN_app, N.sub_diag.
    rewrite adj_succ; [|rewrite lenN_cons; lia].
    reflexivity.
Qed.

(* the reported line really differs from the 1-based line *)
Theorem line_info_line_refuted :
  exists tbl p, sorted_strict tbl /\ fst (line_info tbl p) <> 1 + count_le tbl p.
Proof.
  exists [5], 7. split; [exact I|]. vm_compute. intro H. discriminate H.
Qed.

(* entries above [p] do not influence the answer for [p] *)
Theorem line_info_stable : forall tbl extra p,
  (forall x, In x extra -> p < x) -> line_info (tbl ++ extra) p = line_info tbl p.
Proof.
  intros tbl extra p Hx. unfold line_info.
  rewrite filter_app, existsb_app.
  rewrite (filter_none (fun x => x <? p) extra), (existsb_none (N.eqb p) extra).
  - rewrite app_nil_r, orb_false_r. reflexivity.
  - intros x Hin. apply N.eqb_neq. apply Hx in Hin. lia.
  - intros x Hin. apply N.ltb_ge. apply Hx in Hin. lia.
Qed.

(* ------------------------------------------------------------ line tables of a text *)

Lemma starts_from_app a : forall i b,
  starts_from i (a ++ b) = starts_from i a ++ starts_from (i + lenN a) b.
Proof.
  induction a as [|c a IH]; intros i b.
  - cbn [app starts_from]. rewrite lenN_nil, N.add_0_r. reflexivity.
  - cbn [app starts_from]. rewrite (IH (i + 1) b), lenN_cons.
    replace (i + 1 + lenN a) with (i + (1 + lenN a)) by lia.
    destruct (c =? 10); reflexivity.
Qed.

Lemma starts_from_bounds l : forall i y, In y (starts_from i l) -> i < y /\ y <= i + lenN l.
Proof.
  induction l as [|c l IH]; intros i y Hy; [destruct Hy|].
  rewrite lenN_cons. cbn [starts_from] in Hy.
  destruct (c =? 10).
  - destruct Hy as [Hy|Hy]; [lia|]. apply IH in Hy. lia.
  - apply IH in Hy. lia.
Qed.

Lemma starts_from_sorted l : forall i, sorted_strict (starts_from i l).
Proof.
  induction l as [|c l IH]; intro i; [exact I|].
  cbn [starts_from]. destruct (c =? 10); [|apply IH].
  specialize (IH (i + 1)).
  destruct (starts_from (i + 1) l) as [|y r] eqn:E; [exact I|].
  split; [|exact IH].
  assert (Hy : In y (starts_from (i + 1) l)) by (rewrite E; left; reflexivity).
  apply starts_from_bounds in Hy. lia.
Qed.

Lemma starts_from_length l : forall i, lenN (starts_from i l) = count_nl l.
Proof.
  induction l as [|c l IH]; intro i; [reflexivity|].
  cbn [starts_from count_nl]. destruct (c =? 10).
  - rewrite lenN_cons, IH. reflexivity.
  - rewrite IH. lia.
Qed.

Lemma starts_from_last l : forall i acc, last (starts_from i l) acc = last_nl_end i acc l.
Proof.
  induction l as [|c l IH]; intros i acc; [reflexivity|].
  cbn [starts_from last_nl_end]. destruct (c =? 10).
  - rewrite last_cons_default. apply IH.
  - apply IH.
Qed.

Lemma starts_from_filter l : forall i m n, (m <= n)%nat ->
  filter (fun x => x <=? i + N.of_nat m) (starts_from i (firstn n l)) =
  starts_from i (firstn m l).
Proof.
  induction l as [|c l IH]; intros i m n Hmn.
  - rewrite !firstn_nil. reflexivity.
  - destruct m as [|m].
    + cbn [firstn starts_from]. apply filter_none. intros x Hx.
      apply starts_from_bounds in Hx. apply N.leb_gt. lia.
    + destruct n as [|n]; [lia|].
      cbn [firstn starts_from].
      replace (i + N.of_nat (S m)) with (i + 1 + N.of_nat m) by lia.
      destruct (c =? 10).
      * cbn [filter].
        replace (i + 1 <=? i + 1 + N.of_nat m) with true by (symmetry; apply N.leb_le; lia).
        f_equal. apply IH. lia.
      * apply IH. lia.
Qed.

Lemma line_starts_sorted src upto : sorted_strict (line_starts src upto).
Proof. apply starts_from_sorted. Qed.

Lemma prefix_upto_len src p : lenN (prefix_upto src p) <= p.
Proof.
  unfold prefix_upto, lenN. pose proof (firstn_le_length (N.to_nat p) src). lia.
Qed.

Lemma line_starts_bounds src upto y : In y (line_starts src upto) -> 0 < y /\ y <= upto.
Proof.
  intro Hy. apply starts_from_bounds in Hy. pose proof (prefix_upto_len src upto). lia.
Qed.

Lemma line_starts_entries_le src upto p : p <= upto ->
  entries_le (line_starts src upto) p = line_starts src p.
Proof.
  intro Hp. unfold entries_le, line_starts, prefix_upto.
  pose proof (starts_from_filter src 0 (N.to_nat p) (N.to_nat upto)) as H.
  rewrite N2Nat.id, N.add_0_l in H. apply H. lia.
Qed.

Lemma true_line_starts src p : true_line src p = 1 + lenN (line_starts src p).
Proof. unfold true_line, line_starts. rewrite starts_from_length. reflexivity. Qed.

Lemma true_col_starts src p : true_col src p = p - last (line_starts src p) 0.
Proof. unfold true_col, line_start_of, line_starts. rewrite starts_from_last. reflexivity. Qed.

(* membership: exactly the offsets just after a newline *)
Lemma starts_from_in l : forall i y,
  In y (starts_from i l) <->
  exists k, y = i + N.of_nat k + 1 /\ nth_error l k = Some 10.
Proof.
  induction l as [|c l IH]; intros i y.
  - cbn [starts_from]. split; [intros []|]. intros (k & _ & Hk). destruct k; discriminate.
  - cbn [starts_from]. split.
    + intro Hy. destruct (N.eqb_spec c 10) as [Ec|Ec].
      * destruct Hy as [Hy|Hy].
        -- exists 0%nat. subst. split; [lia|reflexivity].
        -- apply IH in Hy. destruct Hy as (k & Hy & Hk). exists (S k). split; [lia|exact Hk].
      * apply IH in Hy. destruct Hy as (k & Hy & Hk). exists (S k). split; [lia|exact Hk].
    + intros (k & Hy & Hk). destruct k as [|k].
      * cbn [nth_error] in Hk. inversion Hk; subst c. cbn [N.eqb Pos.eqb]. left. lia.
      * cbn [nth_error] in Hk.
        assert (Hin : In y (starts_from (i + 1) l)) by (apply IH; exists k; split; [lia|exact Hk]).
        destruct (c =? 10); [right|]; exact Hin.
Qed.

Theorem line_starts_in : forall src upto y,
  In y (line_starts src upto) <->
  exists i, y = i + 1 /\ i < upto /\ nth_error src (N.to_nat i) = Some 10.
Proof.
  intros src upto y. unfold line_starts, prefix_upto. rewrite starts_from_in. split.
  - intros (k & Hy & Hk). exists (N.of_nat k).
    assert (Hlt : (k < length (firstn (N.to_nat upto) src))%nat).
    { apply nth_error_Some. rewrite Hk. discriminate. }
    rewrite firstn_length in Hlt.
    split; [lia|]. split; [lia|]. rewrite Nat2N.id.
    rewrite nth_error_firstn_lt in Hk; [exact Hk|lia].
  - intros (i & Hy & Hi & Hk). exists (N.to_nat i). split; [lia|].
    rewrite nth_error_firstn_lt; [exact Hk|lia].
Qed.

(* Scanner::line_info on the table of a text *)
Theorem line_info_text : forall src upto p, p <= upto ->
  line_info (line_starts src upto) p = (adj (true_line src p), true_col src p).
Proof.
  intros src upto p Hp.
  rewrite line_info_sorted by apply line_starts_sorted.
  unfold count_le, last_le. rewrite line_starts_entries_le by exact Hp.
  rewrite true_line_starts, true_col_starts. reflexivity.
Qed.

(* ------------------------------------------------------------ the scanner's table updates *)

Lemma add_line_fresh ls pos : (forall y, In y ls -> y <= pos) ->
  add_line ls (pos + 1) = (pos + 1) :: ls.
Proof.
  intro H. destruct ls as [|y ls]; [reflexivity|].
  cbn [add_line]. specialize (H y (or_introl eq_refl)).
  replace (y <? pos + 1) with true by (symmetry; apply N.ltb_lt; lia). reflexivity.
Qed.

Lemma cross_lines_rev text : forall pos ls, (forall y, In y ls -> y <= pos) ->
  rev (cross_lines pos text ls) = rev ls ++ starts_from pos text.
Proof.
  induction text as [|c t IH]; intros pos ls Hls.
  - cbn [cross_lines starts_from]. rewrite app_nil_r. reflexivity.
  - cbn [cross_lines starts_from]. destruct (c =? 10).
    + rewrite add_line_fresh by exact Hls. rewrite IH.
      * cbn [rev]. rewrite <- app_assoc. reflexivity.
      * intros y [Hy|Hy]; [lia|]. apply Hls in Hy. lia.
    + apply IH. intros y Hy. apply Hls in Hy. lia.
Qed.

Lemma cross_lines_no_nl text : forall pos ls, count_nl text = 0 -> cross_lines pos text ls = ls.
Proof.
  induction text as [|c t IH]; intros pos ls H; [reflexivity|].
  cbn [count_nl] in H. cbn [cross_lines].
  destruct (c =? 10); [lia|]. apply IH. lia.
Qed.

Section Inv.
Variable U : uclass.

Lemma skip_ws_spec l : forall pos ls pos' l' ls',
  skip_ws U pos l ls = (pos', l', ls') ->
  exists ws, l = ws ++ l' /\ pos' = pos + lenN ws /\ ls' = cross_lines pos ws ls.
Proof.
  induction l as [|c l IH]; intros pos ls pos' l' ls' H.
  - cbn [skip_ws] in H. inversion H; subst. exists []. rewrite lenN_nil, N.add_0_r.
    repeat split.
  - cbn [skip_ws] in H. destruct (is_whitespace U c) eqn:Ew.
    + apply IH in H. destruct H as (ws & Hl & Hp & Hls). exists (c :: ws).
      rewrite lenN_cons. cbn [app cross_lines]. rewrite <- Hl.
      split; [reflexivity|]. split; [lia|exact Hls].
    + inversion H; subst. exists []. rewrite lenN_nil, N.add_0_r. repeat split.
Qed.

(* ------------------------------------------------------------ token text = consumed source *)

Lemma take_until_nl_prefix l : exists rest, l = take_until_nl l ++ rest.
Proof.
  induction l as [|c l IH]; [exists []; reflexivity|].
  cbn [take_until_nl]. destruct (c =? 10); [exists (c :: l); reflexivity|].
  destruct IH as (rest & IH). exists rest. cbn [app]. rewrite <- IH. reflexivity.
Qed.

Lemma take_while_prefix f l : exists rest, l = take_while f l ++ rest.
Proof.
  induction l as [|c l IH]; [exists []; reflexivity|].
  cbn [take_while]. destruct (f c); [|exists (c :: l); reflexivity].
  destruct IH as (rest & IH). exists rest. cbn [app]. rewrite <- IH. reflexivity.
Qed.

Lemma gc_body_prefix l : forall b, gc_body l = Some b -> exists rest, l = b ++ rest.
Proof.
  induction l as [|c l IH]; intros b H; [discriminate|].
  cbn [gc_body] in H. destruct l as [|c2 l2]; [discriminate|].
  destruct ((c =? 42) && (c2 =? 47)).
  - inversion H; subst. exists l2. reflexivity.
  - destruct (gc_body (c2 :: l2)) as [b'|] eqn:E; [|discriminate].
    cbn [option_map] in H. inversion H; subst.
    destruct (IH b' eq_refl) as (rest & Hr). exists rest. cbn [app]. rewrite <- Hr. reflexivity.
Qed.

Lemma op_of_str_some s op : op_of_str s = Some op -> op_str op = s.
Proof.
  unfold op_of_str. intro H. apply find_some in H. destruct H as [_ H].
  apply str_eqb_eq. exact H.
Qed.

Lemma kw_of_str_some s k : kw_of_str s = Some k -> kw_str k = s.
Proof.
  unfold kw_of_str. intro H. apply find_some in H. destruct H as [_ H].
  apply str_eqb_eq. exact H.
Qed.

Lemma op_str_no_nl op : count_nl (op_str op) = 0.
Proof. destruct op; reflexivity. Qed.

Lemma kw_str_no_nl k : count_nl (kw_str k) = 0.
Proof. destruct k; reflexivity. Qed.

Lemma firstn_prefix {X} n (l : list X) : exists rest, l = firstn n l ++ rest.
Proof. exists (skipn n l). symmetry. apply firstn_skipn. Qed.

(* every token's text is, verbatim, the prefix of the input that the scanner
   consumes for it, and the returned count is its length *)
Theorem scan_token_text : forall l tok cnt,
  scan_token U l = inl (tok, cnt) ->
  (exists rest, l = tok_text tok ++ rest) /\ cnt = lenN (tok_text tok).
Proof.
  intros l tok cnt H. unfold scan_token in H. cbv zeta in H.
  destruct (op_of_str (firstn 3 l)) as [op3|] eqn:E3.
  { inversion H; subst. cbn [tok_text]. split; [|reflexivity].
    rewrite (op_of_str_some _ _ E3). apply firstn_prefix. }
  destruct (str_eqb (firstn 2 l) [47; 47]) eqn:Ec1.
  { inversion H; subst. cbn [tok_text]. split; [|reflexivity]. apply take_until_nl_prefix. }
  destruct (str_eqb (firstn 2 l) [47; 42]) eqn:Ec2.
  { destruct (gc_body (skipn 2 l)) as [b|] eqn:Eg; [|discriminate].
    inversion H; subst. cbn [tok_text]. split; [|reflexivity].
    apply str_eqb_eq in Ec2. apply gc_body_prefix in Eg. destruct Eg as (rest & Eg).
    exists rest. rewrite <- (firstn_skipn 2 l) at 1. rewrite Ec2, Eg. reflexivity. }
  destruct (op_of_str (firstn 2 l)) as [op2|] eqn:E2.
  { inversion H; subst. cbn [tok_text]. split; [|reflexivity].
    rewrite (op_of_str_some _ _ E2). apply firstn_prefix. }
  destruct l as [|c0 l1]; [discriminate|].
  destruct (is_decimal_digit c0 ||
            (c0 =? 46) && match l1 with c1 :: _ => is_decimal_digit c1 | [] => false end) eqn:En.
  { destruct (scan_lit_number (c0 :: l1)) as [[k s]|e] eqn:Es; [|discriminate].
    inversion H; subst. cbn [tok_text]. split; [|reflexivity].
    apply (scan_number_sound (c0 :: l1) k s En Es). }
  destruct (c0 =? 39) eqn:Eq.
  { destruct (scan_lit_rune (c0 :: l1)) as [s|e] eqn:Es; [|discriminate].
    inversion H; subst. cbn [tok_text]. split; [|reflexivity].
    apply N.eqb_eq in Eq. subst c0.
    apply (scan_rune_lit_sound (39 :: l1) s eq_refl Es). }
  destruct ((c0 =? 34) || (c0 =? 96)) eqn:Eqs.
  { destruct (scan_lit_string (c0 :: l1)) as [s|e] eqn:Es; [|discriminate].
    inversion H; subst. cbn [tok_text]. split; [|reflexivity].
    refine (proj1 (scan_string_lit_sound (c0 :: l1) s _ Es)).
    apply orb_true_iff in Eqs. destruct Eqs as [Eqs|Eqs]; apply N.eqb_eq in Eqs; subst c0;
      [left|right]; reflexivity. }
  destruct (is_letter U c0) eqn:El.
  { destruct (kw_of_str (take_while (ident_char U) (c0 :: l1))) as [k|] eqn:Ek.
    - inversion H; subst. cbn [tok_text]. rewrite (kw_of_str_some _ _ Ek).
      split; [|reflexivity]. apply (take_while_prefix (ident_char U) (c0 :: l1)).
    - inversion H; subst. cbn [tok_text]. split; [|reflexivity]. apply (take_while_prefix (ident_char U) (c0 :: l1)). }
  destruct (op_of_str [c0]) as [op1|] eqn:E1; [|discriminate].
  inversion H; subst. cbn [tok_text]. split; [|reflexivity].
  rewrite (op_of_str_some _ _ E1). exists l1. reflexivity.
Qed.

Lemma add_token_cross_line_text pos tok ls :
  add_token_cross_line pos tok ls = cross_lines pos (tok_text tok) ls.
Proof.
  destruct tok as [s|k|o|k s]; cbn [add_token_cross_line tok_text]; try reflexivity.
  - symmetry. apply cross_lines_no_nl. apply kw_str_no_nl.
  - symmetry. apply cross_lines_no_nl. apply op_str_no_nl.
Qed.

(* ------------------------------------------------------------ the invariant *)

Definition lines_inv (src : str) (s : sstate) : Prop :=
  rev (s_lines s) = line_starts src (s_pos s) /\
  s_rest s = skipn (N.to_nat (s_pos s)) src /\
  s_pos s <= lenN src.

(* consuming [text] at [pos] with cross_lines keeps the table equal to the
   table of the text *)
Lemma inv_advance src pos ls text rest :
  rev ls = line_starts src pos ->
  skipn (N.to_nat pos) src = text ++ rest ->
  pos <= lenN src ->
  rev (cross_lines pos text ls) = line_starts src (pos + lenN text) /\
  rest = skipn (N.to_nat (pos + lenN text)) src /\
  pos + lenN text <= lenN src.
Proof.
  intros Hls Hrest Hpos.
  set (pre := firstn (N.to_nat pos) src).
  assert (Hpre : length pre = N.to_nat pos).
  { unfold pre. rewrite firstn_length. unfold lenN in Hpos. lia. }
  assert (Hsrc : src = pre ++ text ++ rest).
  { unfold pre. rewrite <- Hrest. symmetry. apply firstn_skipn. }
  assert (Hnat : N.to_nat (pos + lenN text) = (length pre + length text)%nat).
  { unfold lenN. lia. }
  assert (Hfirst : prefix_upto src (pos + lenN text) = pre ++ text).
  { unfold prefix_upto. rewrite Hnat. rewrite Hsrc at 1.
    rewrite firstn_app_2. f_equal. apply firstn_len_app. }
  split; [|split].
  - rewrite cross_lines_rev.
    + unfold line_starts at 1. rewrite Hfirst, starts_from_app, N.add_0_l.
      rewrite Hls. unfold line_starts, prefix_upto. fold pre.
      replace (lenN pre) with pos by (unfold lenN; lia). reflexivity.
    + intros y Hy. apply in_rev in Hy. rewrite Hls in Hy.
      apply line_starts_bounds in Hy. lia.
  - rewrite Hnat. rewrite Hsrc at 1. rewrite app_assoc, <- app_length.
    symmetry. apply skipn_len_app.
  - pose proof (f_equal (@length N) Hsrc) as HL. rewrite !app_length in HL.
    unfold lenN. lia.
Qed.

Definition step_state (r : step_result) : sstate :=
  match r with SR_tok _ _ s' | SR_eof s' | SR_err _ _ s' => s' end.

Theorem next_token_inv : forall src s, lines_inv src s -> lines_inv src (step_state (next_token U s)).
Proof.
  intros src s (Hls & Hrest & Hpos). unfold next_token.
  destruct (s_semi s && line_ended U (s_rest s)).
  { cbn [step_state]. unfold lines_inv. cbn [s_pos s_rest s_lines]. auto. }
  destruct (skip_ws U (s_pos s) (s_rest s) (s_lines s)) as [[pos l] ls] eqn:Ews.
  apply skip_ws_spec in Ews. destruct Ews as (ws & Hl & Hp & Hlines).
  rewrite Hrest in Hl.
  destruct (inv_advance src (s_pos s) (s_lines s) ws l Hls Hl Hpos) as (A1 & A2 & A3).
  rewrite <- Hlines, <- Hp in A1. rewrite <- Hp in A2, A3.
  destruct l as [|c l'] eqn:El.
  { cbn [step_state]. unfold lines_inv. cbn [s_pos s_rest s_lines]. auto. }
  rewrite <- El in *. clear El c l'.
  destruct (scan_token U l) as [[tok cnt]|[off k]] eqn:Et.
  - cbn [step_state]. unfold lines_inv. cbn [s_pos s_rest s_lines].
    apply scan_token_text in Et. destruct Et as ((rest & Hr) & Hc).
    rewrite add_token_cross_line_text. subst cnt.
    assert (Hl2 : skipn (N.to_nat pos) src = tok_text tok ++ rest) by (rewrite <- A2; exact Hr).
    destruct (inv_advance src pos ls (tok_text tok) rest A1 Hl2 A3) as (B1 & B2 & B3).
    split; [exact B1|]. split; [|exact B3].
    rewrite <- B2. rewrite Hr at 1. unfold lenN. rewrite Nat2N.id. apply skipn_len_app.
  - cbn [step_state]. unfold lines_inv. cbn [s_pos s_rest s_lines]. auto.
Qed.

(* states reachable by repeated next_token calls: the successor state after a
   token, and the state left behind by EOF or an error *)
Inductive reachable (src : str) : sstate -> Prop :=
| reach_init : reachable src (init_state src)
| reach_tok : forall s p t s',
    reachable src s -> next_token U s = SR_tok p t s' -> reachable src s'
| reach_eof : forall s s',
    reachable src s -> next_token U s = SR_eof s' -> reachable src s'
| reach_err : forall s p k s',
    reachable src s -> next_token U s = SR_err p k s' -> reachable src s'.

Lemma init_inv src : lines_inv src (init_state src).
Proof.
  unfold lines_inv, init_state. cbn [s_pos s_rest s_lines rev N.to_nat skipn].
  split; [reflexivity|]. split; [reflexivity|]. lia.
Qed.

Theorem reachable_inv : forall src s, reachable src s -> lines_inv src s.
Proof.
  intros src s H.
  induction H as [|s p t s' _ IH E|s s' _ IH E|s p k s' _ IH E]; [apply init_inv| | |];
    apply next_token_inv in IH; rewrite E in IH; exact IH.
Qed.

(* the states visited by scan_loop are reachable *)
Lemma scan_loop_reachable src : forall fuel s ts e,
  reachable src s -> scan_loop U fuel s = (ts, e) ->
  match e with SE_Eof s' | SE_Err _ _ s' => reachable src s' | SE_Fuel => True end.
Proof.
  induction fuel as [|f IH]; intros s ts e Hs H.
  - cbn [scan_loop] in H. inversion H; subst. exact I.
  - cbn [scan_loop] in H.
    destruct (next_token U s) as [p t s'|s'|p k s'] eqn:En.
    + destruct (scan_loop U f s') as [ts' e'] eqn:El. inversion H; subst.
      apply (IH s' ts' e (reach_tok src s p t s' Hs En) El).
    + inversion H; subst. apply (reach_eof src s s' Hs En).
    + inversion H; subst. apply (reach_err src s p k s' Hs En).
Qed.

Lemma next_token_eof_rest s s' : next_token U s = SR_eof s' -> s_rest s' = [].
Proof.
  unfold next_token. destruct (s_semi s && line_ended U (s_rest s)); [discriminate|].
  destruct (skip_ws U (s_pos s) (s_rest s) (s_lines s)) as [[pos l] ls].
  destruct l as [|c l'].
  - intro H. inversion H; subst. reflexivity.
  - destruct (scan_token U (c :: l')) as [[tok cnt]|[off k]]; discriminate.
Qed.

Lemma scan_loop_eof_rest : forall fuel s ts s',
  scan_loop U fuel s = (ts, SE_Eof s') -> s_rest s' = [].
Proof.
  induction fuel as [|f IH]; intros s ts s' H.
  - cbn [scan_loop] in H. inversion H.
  - cbn [scan_loop] in H.
    destruct (next_token U s) as [p t s1|s1|p k s1] eqn:En.
    + destruct (scan_loop U f s1) as [ts' e'] eqn:El. inversion H; subst.
      apply (IH s1 ts' s' El).
    + inversion H; subst. apply (next_token_eof_rest s s' En).
    + inversion H.
Qed.

(* when the whole source has been scanned the table is the complete table *)
Theorem scan_all_eof_table : forall src ts s',
  scan_all U src = (ts, SE_Eof s') ->
  s_pos s' = lenN src /\ rev (s_lines s') = line_starts src (lenN src).
Proof.
  intros src ts s' H. unfold scan_all in H.
  pose proof (scan_loop_reachable src _ _ _ _ (reach_init src) H) as Hr.
  cbn beta iota in Hr. apply reachable_inv in Hr. destruct Hr as (Hls & Hrest & Hpos).
  apply scan_loop_eof_rest in H. rewrite H in Hrest.
  assert (Hlen : s_pos s' = lenN src).
  { pose proof (f_equal (@length N) Hrest) as HL. rewrite skipn_length in HL.
    cbn [length] in HL. unfold lenN in *. lia. }
  split; [exact Hlen|]. rewrite <- Hlen. exact Hls.
Qed.

(* end to end: a lookup through the scanner's table, for any position the
   scanner has passed, is the text's (line, column) up to the known off-by-one *)
Theorem scanner_line_info : forall src s p, reachable src s -> p <= s_pos s ->
  line_info (rev (s_lines s)) p = (adj (true_line src p), true_col src p).
Proof.
  intros src s p Hs Hp. destruct (reachable_inv src s Hs) as (Hls & _ & _).
  rewrite Hls. apply line_info_text. exact Hp.
Qed.

(* so the answer for [p] is the same in every state whose position is >= p *)
Theorem scanner_lookup_stable : forall src s s' p,
  reachable src s -> reachable src s' -> p <= s_pos s -> p <= s_pos s' ->
  line_info (rev (s_lines s')) p = line_info (rev (s_lines s)) p.
Proof.
  intros src s s' p Hs Hs' Hp Hp'.
  rewrite (scanner_line_info src s p Hs Hp), (scanner_line_info src s' p Hs' Hp'). reflexivity.
Qed.

End Inv.
