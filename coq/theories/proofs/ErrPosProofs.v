(* C16 (errors), part 5: closing the recursion; the theorems about the three
   entry points.

   For a parser run on the pre-scanned stream [elems] with terminal [term]
   (from [init_state], or from any state satisfying [Jpre] -- e.g. the state a
   previous successful Parser::parse_stmt call left behind):
     Err e _   [errok e]: the position of the error is
                 - the start of the reported token, which stands there in [elems]
                   (PUnexpected _ (Some t));
                 - the end-of-input position (PUnexpected _ None);
                 - by the class of the site, the end of a token or the EOF position
                   (Parser::else_error), the start of a token or the EOF position
                   (else_error_at), `go`/`defer` position + 2 (PElse);
                 - and a scanner error is the terminal of the stream (PScan);
     Ok x _    [nok x]: every position stored in the tree is the start of a token
               of [elems] or the EOF position. *)
From Coq Require Import List Bool Arith Lia.
From GoSyn Require Import Token Tok Ast Core.
From GoSyn.proofs Require Import Lift StreamProofs ErrPosBase ErrPosLeaf ErrPosStepA ErrPosStepB.
Import ListNotations.

Section Close.
Variables (A G D C E : Type) (OPS : ops A G D C).
Notation pstate := (Core.pstate A G D E).
Notation selem := (Core.selem A G).
Notation sterm := (Core.sterm A G E).
Notation perr := (Core.perr A E).
Notation nodeT := (node A C).
Variable whole : list selem.
Variable term : sterm.

Theorem GoodR_parsers_at d : GoodR OPS whole term (parsers_at OPS d).
Proof.
  apply (parsers_at_ind A G D C E OPS (GoodR OPS whole term)).
  - apply GoodR_no_fuel.
  - intros self H. apply GoodR_step, H.
Qed.

Theorem rp_parse_file d s :
  Jpre whole term s -> rp OPS whole term (nok whole term) (parse_file OPS (parsers_at OPS d) s).
Proof. apply L_parse_file, GoodR_parsers_at. Qed.
Theorem rp_entry_expression d s :
  Jpre whole term s ->
  rp OPS whole term (nok whole term) (entry_expression OPS (parsers_at OPS d) s).
Proof. apply L_entry_expression, GoodR_parsers_at. Qed.
Theorem rp_entry_stmt d s :
  Jpre whole term s -> rp OPS whole term (nok whole term) (entry_stmt OPS (parsers_at OPS d) s).
Proof. apply L_entry_stmt, GoodR_parsers_at. Qed.

Lemma J_Jpre (s : pstate) : J whole term s -> Jpre whole term s.
Proof. intros H. split; [ apply J_JE, H | intros _; exact H ]. Qed.

(* ---- from any admissible state ---- *)

Theorem parse_file_err_from d s e s' :
  Jpre whole term s -> parse_file OPS (parsers_at OPS d) s = Err e s' -> errok OPS whole term e.
Proof. intros H Hr. exact (proj1 (rp_Err_inv _ _ _ _ _ _ _ _ _ _ _ _ _ (rp_parse_file d s H) Hr)). Qed.
Theorem entry_expression_err_from d s e s' :
  Jpre whole term s -> entry_expression OPS (parsers_at OPS d) s = Err e s' ->
  errok OPS whole term e.
Proof.
  intros H Hr. exact (proj1 (rp_Err_inv _ _ _ _ _ _ _ _ _ _ _ _ _ (rp_entry_expression d s H) Hr)).
Qed.
Theorem entry_stmt_err_from d s e s' :
  Jpre whole term s -> entry_stmt OPS (parsers_at OPS d) s = Err e s' -> errok OPS whole term e.
Proof. intros H Hr. exact (proj1 (rp_Err_inv _ _ _ _ _ _ _ _ _ _ _ _ _ (rp_entry_stmt d s H) Hr)). Qed.

(* an accepted statement leaves an admissible state: Parser::parse_stmt can be
   called again (Entry.run_entry's EStmts) *)
Theorem entry_stmt_ok_from d s x s' :
  Jpre whole term s -> entry_stmt OPS (parsers_at OPS d) s = Ok x s' ->
  nok whole term x /\ Jpre whole term s'.
Proof.
  intros H Hr. destruct (rp_Ok_inv _ _ _ _ _ _ _ _ _ _ _ _ _ (rp_entry_stmt d s H) Hr) as [Hv Hj].
  split; [ exact Hv | apply J_Jpre, Hj ].
Qed.
Theorem parse_file_ok_from d s x s' :
  Jpre whole term s -> parse_file OPS (parsers_at OPS d) s = Ok x s' -> nok whole term x.
Proof. intros H Hr. exact (proj1 (rp_Ok_inv _ _ _ _ _ _ _ _ _ _ _ _ _ (rp_parse_file d s H) Hr)). Qed.
Theorem entry_expression_ok_from d s x s' :
  Jpre whole term s -> entry_expression OPS (parsers_at OPS d) s = Ok x s' -> nok whole term x.
Proof.
  intros H Hr. exact (proj1 (rp_Ok_inv _ _ _ _ _ _ _ _ _ _ _ _ _ (rp_entry_expression d s H) Hr)).
Qed.

End Close.

(* ---- from the initial state; the four clauses spelled out ---- *)

Section Entry.
Variables (A G D C E : Type) (OPS : ops A G D C).
Notation selem := (Core.selem A G).
Notation sterm := (Core.sterm A G E).
Notation perr := (Core.perr A E).
Notation parsers := (Core.parsers A G D C E).

(* [errok], unfolded *)
Definition err_located (elems : list selem) (term : sterm) (e : perr) : Prop :=
  (* (a) the reported token stands at the reported position *)
  (forall p t site, e = PUnexpected p (Some t) site -> exists a1 g, In (SE p a1 t g) elems) /\
  (* (b) an unexpected EOF is reported at the end-of-input position *)
  (forall p site, e = PUnexpected p None site -> exists g, term = TEof p g) /\
  (* (c) the other syntax errors, by the class of the site *)
  (forall p site, e = PElse p site ->
     match site_class site with
     | SEnd => (exists a0 t g, In (SE a0 p t g) elems) \/ (exists g, term = TEof p g)
     | SNode => (exists t a1 g, In (SE p a1 t g) elems) \/ (exists g, term = TEof p g)
     | SPlus2 => exists q, ((exists a1 g, In (SE q a1 (TKeyword KGo) g) elems) \/
                            (exists a1 g, In (SE q a1 (TKeyword KDefer) g) elems)) /\
                           p = a_plus2 OPS q
     end) /\
  (* (d) a scanner error is the terminal of the stream *)
  (forall x, e = PScan x -> exists g, term = TErr x g).

Lemma errok_located elems term e : errok OPS elems term e -> err_located elems term e.
Proof.
  intros H. repeat split.
  - intros p t site ->. exact H.
  - intros p site ->. exact H.
  - intros p site ->. cbn [errok] in H. exact H.
  - intros x ->. exact H.
Qed.

(* (c), without the table of sites *)
Lemma err_located_else elems term e p site :
  err_located elems term e -> e = PElse p site ->
  (exists t a1 g, In (SE p a1 t g) elems) \/ (exists a0 t g, In (SE a0 p t g) elems) \/
  (exists g, term = TEof p g) \/
  (exists q t a1 g, In (SE q a1 t g) elems /\ p = a_plus2 OPS q).
Proof.
  intros (_ & _ & Hc & _) He. specialize (Hc p site He). destruct (site_class site).
  - destruct Hc as [Hc | Hc]; auto.
  - destruct Hc as [Hc | Hc]; auto.
  - destruct Hc as (q & [(a1 & g & Hq) | (a1 & g & Hq)] & ->);
      right; right; right; eauto 6.
Qed.

Theorem parse_file_err_located a0 d0 elems term d e s' :
  parse_file OPS (parsers_at OPS d) (init_state a0 d0 elems term) = Err e s' ->
  err_located elems term e.
Proof.
  intros H. apply errok_located. eapply parse_file_err_from; [ apply Jpre_init | exact H ].
Qed.
Theorem entry_expression_err_located a0 d0 elems term d e s' :
  entry_expression OPS (parsers_at OPS d) (init_state a0 d0 elems term) = Err e s' ->
  err_located elems term e.
Proof.
  intros H. apply errok_located. eapply entry_expression_err_from; [ apply Jpre_init | exact H ].
Qed.
Theorem entry_stmt_err_located a0 d0 elems term d e s' :
  entry_stmt OPS (parsers_at OPS d) (init_state a0 d0 elems term) = Err e s' ->
  err_located elems term e.
Proof.
  intros H. apply errok_located. eapply entry_stmt_err_from; [ apply Jpre_init | exact H ].
Qed.

(* the four clauses for parse_file, one by one *)
Corollary parse_file_unexpected_token a0 d0 (elems : list selem) (term : sterm) d p t site s' :
  parse_file OPS (parsers_at OPS d) (init_state a0 d0 elems term) = Err (PUnexpected p (Some t) site) s' ->
  exists a1 g, In (SE p a1 t g) elems.
Proof. intros H. exact (proj1 (parse_file_err_located _ _ _ _ _ _ _ H) p t site eq_refl). Qed.
Corollary parse_file_unexpected_eof a0 d0 (elems : list selem) (term : sterm) d p site s' :
  parse_file OPS (parsers_at OPS d) (init_state a0 d0 elems term) = Err (PUnexpected p None site) s' ->
  exists g, term = TEof p g.
Proof.
  intros H. exact (proj1 (proj2 (parse_file_err_located _ _ _ _ _ _ _ H)) p site eq_refl).
Qed.
Corollary parse_file_else a0 d0 (elems : list selem) (term : sterm) d p site s' :
  parse_file OPS (parsers_at OPS d) (init_state a0 d0 elems term) = Err (PElse p site) s' ->
  (exists t a1 g, In (SE p a1 t g) elems) \/ (exists a0 t g, In (SE a0 p t g) elems) \/
  (exists g, term = TEof p g) \/
  (exists q t a1 g, In (SE q a1 t g) elems /\ p = a_plus2 OPS q).
Proof.
  intros H. eapply err_located_else; [ exact (parse_file_err_located _ _ _ _ _ _ _ H) | reflexivity ].
Qed.
Corollary parse_file_scan a0 d0 (elems : list selem) (term : sterm) d x s' :
  parse_file OPS (parsers_at OPS d) (init_state a0 d0 elems term) = Err (PScan x) s' ->
  exists g, term = TErr x g.
Proof.
  intros H. exact (proj2 (proj2 (proj2 (parse_file_err_located _ _ _ _ _ _ _ H))) x eq_refl).
Qed.

(* successive Parser::parse_stmt calls: the n-th call starts where the
   (n-1)-th succeeded *)
Inductive stmts_from (d : nat) (elems : list selem) (term : sterm)
  : Core.pstate A G D E -> Prop :=
| SF_init a0 d0 : stmts_from d elems term (init_state a0 d0 elems term)
| SF_next s x s' : stmts_from d elems term s ->
                   entry_stmt OPS (parsers_at OPS d) s = Ok x s' -> stmts_from d elems term s'.

Lemma stmts_from_Jpre d elems term s : stmts_from d elems term s -> Jpre elems term s.
Proof.
  induction 1 as [a0 d0|s x s' _ IH Hr]; [ apply Jpre_init | ].
  destruct (entry_stmt_ok_from A G D C E OPS elems term d s x s' IH Hr) as [_ Hj]. exact Hj.
Qed.

Theorem entry_stmts_err_located d elems term s e s' :
  stmts_from d elems term s ->
  entry_stmt OPS (parsers_at OPS d) s = Err e s' -> err_located elems term e.
Proof.
  intros Hs H. apply errok_located.
  eapply entry_stmt_err_from; [ eapply stmts_from_Jpre, Hs | exact H ].
Qed.

(* accepted input: every position of the tree comes from the stream *)
Theorem parse_file_ok_positions a0 d0 (elems : list selem) (term : sterm) d x s' :
  parse_file OPS (parsers_at OPS d) (init_state a0 d0 elems term) = Ok x s' ->
  nok elems term x.
Proof. intros H. eapply parse_file_ok_from; [ apply Jpre_init | exact H ]. Qed.

End Entry.

Arguments err_located {A G D C E} OPS elems term e.
Arguments stmts_from {A G D C E} OPS d elems term s.
