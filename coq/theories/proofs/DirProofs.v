From Coq Require Import List NArith Bool Lia.
From GoSyn Require Import Token Tok Dir.
Import ListNotations.
Open Scope N_scope.

Section P.
Variable parse : str -> option str.
Variable is_go : str -> bool.
Notation parse_dir := (parse_dir parse is_go).
Notation declaring := (declaring parse is_go).
Notation file_pkg := (file_pkg parse).

Lemma str_eqb_sym a b : str_eqb a b = str_eqb b a.
Proof.
  destruct (str_eqb a b) eqn:E1, (str_eqb b a) eqn:E2; auto.
  - apply str_eqb_eq in E1. subst. rewrite str_eqb_refl in E2. discriminate.
  - apply str_eqb_eq in E2. subst. rewrite str_eqb_refl in E1. discriminate.
Qed.

Lemma files_of_add_same pkg name m : files_of (add_file pkg name m) pkg = files_of m pkg ++ [name].
Proof.
  unfold files_of. induction m as [|[p fs] r IH]; cbn.
  - rewrite str_eqb_refl. reflexivity.
  - destruct (str_eqb p pkg) eqn:E; cbn; rewrite E; [reflexivity|exact IH].
Qed.

Lemma files_of_add_other pkg q name m : str_eqb pkg q = false -> files_of (add_file pkg name m) q = files_of m q.
Proof.
  intro H. unfold files_of. induction m as [|[p fs] r IH]; cbn.
  - rewrite H. reflexivity.
  - destruct (str_eqb p pkg) eqn:E; cbn.
    + apply str_eqb_eq in E. subst p. rewrite H. reflexivity.
    + destruct (str_eqb p q); [reflexivity|exact IH].
Qed.

(* all or nothing: one bad .go entry anywhere makes the whole call fail *)
Theorem parse_dir_all_or_nothing l : forall acc name e,
  In (name, e) l -> is_go name = true -> file_pkg e = None -> parse_dir l acc = None.
Proof.
  induction l as [|[n0 e0] r IH]; intros acc name e Hin Hgo Hbad; [contradiction|].
  cbn [Dir.parse_dir]. destruct Hin as [Heq|Hin].
  - inversion Heq; subst. rewrite Hgo, Hbad. reflexivity.
  - destruct (is_go n0); [|eapply IH; eassumption].
    destruct (file_pkg e0); [eapply IH; eassumption|reflexivity].
Qed.

Theorem parse_dir_succeeds l : forall acc, all_good parse is_go l -> exists m, parse_dir l acc = Some m.
Proof.
  induction l as [|[n0 e0] r IH]; intros acc H; cbn [Dir.parse_dir]; [eauto|].
  assert (Hr : all_good parse is_go r) by (intros n e Hi; apply H; right; exact Hi).
  destruct (is_go n0) eqn:Hgo; [|apply IH; exact Hr].
  destruct (file_pkg e0) eqn:Hp; [apply IH; exact Hr|].
  exfalso. apply (H n0 e0); [left; reflexivity|exact Hgo|exact Hp].
Qed.

(* grouping: each package maps to exactly the .go entries declaring it, in listing order, each once *)
Theorem parse_dir_groups l : forall acc m pkg,
  parse_dir l acc = Some m -> files_of m pkg = files_of acc pkg ++ declaring pkg l.
Proof.
  induction l as [|[n0 e0] r IH]; intros acc m pkg H; cbn [Dir.parse_dir] in H.
  - inversion H. unfold Dir.declaring. cbn. rewrite app_nil_r. reflexivity.
  - unfold Dir.declaring. cbn [filter fst snd]. destruct (is_go n0) eqn:Hgo; cbn [andb].
    + destruct (file_pkg e0) as [p|] eqn:Hp; [|discriminate].
      rewrite (IH _ _ pkg H). fold (declaring pkg r).
      destruct (str_eqb p pkg) eqn:E.
      * apply str_eqb_eq in E. subst p. rewrite files_of_add_same. cbn [map fst]. rewrite <- app_assoc. reflexivity.
      * rewrite files_of_add_other by exact E. reflexivity.
    + rewrite (IH _ _ pkg H). reflexivity.
Qed.

Theorem parse_dir_ignores_others l : forall acc,
  (forall name e, In (name, e) l -> is_go name = false) -> parse_dir l acc = Some acc.
Proof.
  induction l as [|[n0 e0] r IH]; intros acc H; cbn [Dir.parse_dir]; [reflexivity|].
  rewrite (H n0 e0) by (left; reflexivity). apply IH. intros n e Hi. apply (H n e). right. exact Hi.
Qed.

End P.

Lemma strip_bom_once s : strip_bom (65279 :: s) = s.
Proof. reflexivity. Qed.
Lemma strip_bom_none c s : c <> 65279 -> strip_bom (c :: s) = c :: s.
Proof. intro H. cbn. destruct c as [|p]; [reflexivity|]. destruct (N.eq_dec (N.pos p) 65279) as [E|E]; [contradiction|].
  repeat (destruct p as [p|p|]; try reflexivity; try (exfalso; apply E; reflexivity)). Qed.
