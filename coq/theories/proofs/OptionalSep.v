(* C13, optional separators: the ";" before a closing "}" of a block.

   [print_stmt] renders a simple statement with its ";" :  { s1 ; s2 ; } .
   Go allows omitting the ";" in front of "}" :  { s1 ; s2 } .  Here:
   parse_block_stmt, started on the spelling WITHOUT the last ";", meets the same
   contract as for the printed spelling ([BP_toks]: the body of RoundTripBase2.BP
   with the token list as a parameter); in particular the node's [erase] is
   [shape_block (body ++ [StSimple sm])] -- the same tree. *)
From Coq Require Import List Arith NArith Lia Bool.
From GoSyn Require Import Token Tok Ast Core.
From GoSyn.spec Require Import Prec Print Print2 Print3.
From GoSyn.proofs Require Import PrecProofs RoundTripProofs RoundTripTypesBase RoundTripTypes
  RoundTripTypesSig RoundTripBase2 RoundTripBase3 RoundTripExpr2 RoundTripLit RoundTripStmt2
  RoundTripStmtIf RoundTripStmtSwitch RoundTripDecl RoundTripFile RoundTripAll.
Import ListNotations.

(* { s1 ; ... ; sn ; sm }  : no ";" after the last (simple) statement *)
Definition block_nosemi (body : list stmt2) (sm : simple2) : list token :=
  tk OBraceLeft :: print_stmts body ++ print_simple print2 sm ++ [tk OBraceRight].

Section OS.
Variables (A G D C E : Type).
Variable OPS : ops A G D C.
Notation nodeT := (node A C).
Notation pstateT := (pstate A G D E).
Notation cur := (s_cur A G D E).
Notation sdepth := (s_depth A G D E).
Notation lp := (s_lp A G D E).
Notation ln := (s_ln A G D E).
Notation PA := (parsers_at A G D C E OPS).
Notation erase := (@erase A C).
Notation at_toks := (@at_toks A G D E).
Notation frame := (@frame A G D E).
Notation lev := (lev A G D E).
Notation levw := (levw A G D E).
Notation KE2 := (KE2 A G D C E OPS).
Notation SC := (SC A G D C E OPS).
Notation PSS := (parse_simple_stmt A G D C E OPS).
Notation SB := (stmt_body A G D C E OPS).
Notation SUB := (stmts_until_brace A G D C E).
Notation exprs_ok3 := (exprs_ok3 A G D C E OPS).

(* the body of RoundTripBase2.BP l, with [print_block l] replaced by [toks] *)
Definition BP_toks (l : list stmt2) (toks : list token) : Prop := forall d (s : pstateT) rst,
  need_block l <= d -> at_toks s (toks ++ rst) ->
  sdepth s + depth_block l <= MAX_NESTING -> levw s (depth_block l) ->
  exists n s1, k_block A G D C E (PA d) s = Ok n s1 /\ erase n = shape_block l /\
               at_toks s1 rst /\ frame s s1.

Lemma BP_toks_print : forall l, BP A G D C E OPS l <-> BP_toks l (print_block l).
Proof. intros l. unfold BP, BP_toks. tauto. Qed.

Lemma lfollow_brace : forall e rst, lfollow false e (tk OBraceRight :: rst).
Proof. intros e rst. apply list_follow_lfollow. split; reflexivity. Qed.

(* parse_simple_stmt in front of "}" (RoundTripBase2.SSP asks for ";" or "{") *)
Definition SSP_brace (sm : simple2) : Prop := forall d (s : pstateT) rst,
  need_simple sm + 2 <= d -> at_toks s (print_simple print2 sm ++ tk OBraceRight :: rst) ->
  sdepth s + depth_simple sm <= MAX_NESTING -> lev false s (depth_simple sm) ->
  exists n s1, PSS (PA d) s = Ok n s1 /\
               erase n = shape_simple shape2 sm /\ at_toks s1 (tk OBraceRight :: rst) /\ frame s s1.

Lemma sspb_expr : forall e, KE2 false e -> SSP_brace (SmExpr e).
Proof.
  intros e HK d s rst Hd Hat Hdep Hlev.
  unfold need_simple, depth_simple in *. simpl in Hd, Hdep, Hlev, Hat.
  pose proof (lfollow_brace e rst) as Hlf.
  destruct (exprs_ok3 false e [] (Forall_cons _ HK (Forall_nil _)) d s _ Hlf)
    as (ns & s1 & Hl & Hes & Hat1 & Hf1); [simpl; lia | simpl; lia | | |].
  { simpl. apply (lev_frame _ _ _ _ false s s _ _ (frame_refl s) Hlev). lia. }
  { simpl. rewrite app_nil_r. exact Hat. }
  destruct (single_node2 _ _ ns e Hes) as (n & -> & He).
  destruct (at_toks_cur _ _ _ Hat1) as (p1 & Hc1).
  exists (mk A C GExprStmt [] [] [n]), s1.
  split; [| split; [simpl; rewrite He; reflexivity | split; [exact Hat1 | exact Hf1]]].
  unfold parse_simple_stmt. rewrite Hl. cbn [bind]. rewrite Hc1. reflexivity.
Qed.

Lemma sspb_incdec : forall op e, KE2 false e -> (op = OInc \/ op = ODec) ->
  SSP_brace (SmIncDec op e).
Proof.
  intros op e HK Hop d s rst Hd Hat Hdep Hlev.
  unfold need_simple, depth_simple in *. simpl in Hd, Hdep, Hlev, Hat.
  rewrite <- app_assoc in Hat. simpl in Hat.
  assert (Hlf : lfollow false e (tk op :: tk OBraceRight :: rst)).
  { apply list_follow_lfollow. destruct Hop as [-> | ->]; split; reflexivity. }
  destruct (exprs_ok3 false e [] (Forall_cons _ HK (Forall_nil _)) d s _ Hlf)
    as (ns & s1 & Hl & Hes & Hat1 & Hf1); [simpl; lia | simpl; lia | | |].
  { simpl. apply (lev_frame _ _ _ _ false s s _ _ (frame_refl s) Hlev). lia. }
  { simpl. rewrite app_nil_r. exact Hat. }
  destruct (single_node2 _ _ ns e Hes) as (n & -> & He).
  destruct (at_toks_cur _ _ _ Hat1) as (p1 & Hc1).
  destruct (next_toks OPS _ _ (at_toks_rest' _ _ _ Hat1)) as (s2 & Hn & Hat2 & Hf2).
  exists (mk A C GIncDec [p1] [AOp op] [n]), s2.
  split; [| split; [simpl; rewrite He; reflexivity |
                    split; [exact Hat2 | exact (frame_trans _ _ _ Hf1 Hf2)]]].
  unfold parse_simple_stmt. rewrite Hl. cbn [bind]. rewrite Hc1. unfold tk.
  destruct Hop as [-> | ->]; cbn [is_assign_op check_single_expr bind]; rewrite Hn; reflexivity.
Qed.

Lemma sspb_send : forall ch v, KE2 false ch -> KE2 false v -> no_type_end ch ->
  SSP_brace (SmSend ch v).
Proof.
  intros ch v HKc HKv Hnty d s rst Hd Hat Hdep Hlev.
  unfold need_simple, depth_simple in *. simpl in Hd, Hdep, Hlev, Hat.
  rewrite <- app_assoc in Hat. simpl in Hat.
  assert (Hlf : lfollow false ch (tk OArrow :: print2 v ++ tk OBraceRight :: rst)).
  { split; [apply efollow_arrow; exact Hnty | reflexivity]. }
  destruct (exprs_ok3 false ch [] (Forall_cons _ HKc (Forall_nil _)) d s _ Hlf)
    as (ns & s1 & Hl & Hes & Hat1 & Hf1); [simpl; lia | simpl; lia | | |].
  { simpl. apply (lev_frame _ _ _ _ false s s _ _ (frame_refl s) Hlev). lia. }
  { simpl. rewrite app_nil_r. exact Hat. }
  destruct (single_node2 _ _ ns ch Hes) as (n & -> & He).
  destruct (at_toks_cur _ _ _ Hat1) as (p1 & Hc1).
  destruct (next_toks OPS _ _ (at_toks_rest' _ _ _ Hat1)) as (s2 & Hn & Hat2 & Hf2).
  pose proof (frame_trans _ _ _ Hf1 Hf2) as Hf12.
  destruct (HKv d s2 (tk OBraceRight :: rst)) as (nv & s3 & Hk & Hev & Hat3 & Hf3).
  - lia.
  - exact Hat2.
  - exact (proj1 (lfollow_brace v rst)).
  - unframe. lia.
  - apply (lev_frame _ _ _ _ false s s2 _ _ Hf12 Hlev). lia.
  - exists (mk A C GSend [p1] [] [n; nv]), s3.
    split; [| split; [simpl; rewrite He, Hev; reflexivity |
                      split; [exact Hat3 | exact (frame_trans _ _ _ Hf12 Hf3)]]].
    unfold parse_simple_stmt. rewrite Hl. cbn [bind]. rewrite Hc1. unfold tk.
    cbn [is_assign_op check_single_expr bind]. rewrite Hn. cbn [bind]. rewrite Hk. reflexivity.
Qed.

Lemma sspb_assign : forall op l r,
  (forall e, In e (l ++ r) -> KE2 false e) -> wf_simple2 false (SmAssign op l r) ->
  SSP_brace (SmAssign op l r).
Proof.
  intros op l r HK (Hop & Hl & Hr & Hlen & Hwl & Hwr & Hdef) d s rst Hd Hat Hdep Hlev.
  unfold need_simple, depth_simple in *. cbn [m_simple print_simple] in Hd, Hdep, Hlev, Hat.
  change (foldl exp2 Nat.max need2) with (max2 need2) in Hd.
  change (foldl exp2 Nat.max depth2) with (max2 depth2) in Hdep, Hlev.
  assert (HKl : Forall (KE2 false) l).
  { apply Forall_forall. intros e He. apply HK. apply in_or_app. left; exact He. }
  assert (HKr : Forall (KE2 false) r).
  { apply Forall_forall. intros e He. apply HK. apply in_or_app. right; exact He. }
  destruct l as [| a l']; [exfalso; apply Hl; reflexivity |].
  destruct r as [| b r']; [exfalso; apply Hr; reflexivity |].
  rewrite <- app_assoc in Hat. simpl app in Hat.
  destruct (assign_closing op Hop) as (Hcl & Hnc).
  destruct (exprs_ok3 false a l' HKl d s
              (tk op :: commas (map print2 (b :: r')) ++ tk OBraceRight :: rst))
    as (nl & s1 & Hll & Hel & Hat1 & Hf1).
  { apply list_follow_lfollow. split; assumption. }
  { lia. }
  { lia. }
  { apply (lev_frame _ _ _ _ false s s _ _ (frame_refl s) Hlev). lia. }
  { exact Hat. }
  destruct (at_toks_cur _ _ _ Hat1) as (p1 & Hc1).
  destruct (next_toks OPS _ _ (at_toks_rest' _ _ _ Hat1)) as (s2 & Hn & Hat2 & Hf2).
  pose proof (frame_trans _ _ _ Hf1 Hf2) as Hf12.
  assert (Hrange : cur_is A G D E s2 (KKw KRange) = false).
  { destruct (first_tok_e b false (proj1 Hwr)) as (t & l0 & Hp & Hst).
    rewrite commas_cons2, Hp in Hat2. rewrite <- !app_assoc in Hat2. simpl in Hat2.
    rewrite (cur_is_toks _ _ _ _ Hat2). unfold start_tok in Hst. tauto. }
  destruct (exprs_ok3 false b r' HKr d s2 (tk OBraceRight :: rst) (lfollow_brace _ rst))
    as (nr & s3 & Hlr & Her & Hat3 & Hf3).
  { lia. }
  { unframe. lia. }
  { apply (lev_frame _ _ _ _ false s s2 _ _ Hf12 Hlev). lia. }
  { exact Hat2. }
  pose proof (frame_trans _ _ _ Hf12 Hf3) as Hf13.
  assert (Hlt : (length nl <? length nr) = false).
  { rewrite (map_erase_length2 _ _ nl _ Hel), (map_erase_length2 _ _ nr _ Her).
    apply Nat.ltb_ge. exact Hlen. }
  exists (mk A C GAssign [p1] [AOp op] [nlist nl; nlist nr]), s3.
  split; [| split; [simpl; change (fun x : nodeT => erase x) with erase; rewrite Hel, Her;
                    reflexivity |
                    split; [exact Hat3 | exact Hf13]]].
  unfold parse_simple_stmt. rewrite Hll. cbn [bind].
  rewrite Hc1. unfold tk. cbv iota. rewrite Hop. rewrite Hn. cbn [bind]. rewrite Hrange.
  cbn [andb]. cbv iota. rewrite Hlr. cbn [bind].
  destruct (assign_define2 op Hop) as [Hd' | Hd'].
  - subst op. change (op_eqb ODefine ODefine) with true. cbv iota.
    rewrite (check_assign_ok2 _ _ _ _ _ _ nl s3 Hel (Hdef eq_refl)). cbn [bind]. rewrite Hlt.
    reflexivity.
  - rewrite Hd'. cbn [bind]. rewrite Hlt. reflexivity.
Qed.

Theorem sspb_ok : forall sm : simple2,
  (forall e, In e (exprs_simple sm) -> KE2 false e) -> wf_simple2 false sm -> SSP_brace sm.
Proof.
  intros sm HK Hwf. destruct sm as [e | op l r | op e | ch v].
  - apply sspb_expr. apply HK. left; reflexivity.
  - apply sspb_assign; assumption.
  - apply sspb_incdec; [apply HK; left; reflexivity | exact (proj1 Hwf)].
  - destruct Hwf as (Hn & _ & _).
    apply sspb_send; [apply HK; left; reflexivity | apply HK; right; left; reflexivity | exact Hn].
Qed.

(* Parser::parse_stmt on a simple statement WITHOUT its ";" , in front of "}" *)
Definition SC_nosemi (sm : simple2) : Prop := forall d (s : pstateT) rst,
  need_stmt2 (StSimple sm) <= d ->
  at_toks s (print_simple print2 sm ++ tk OBraceRight :: rst) ->
  sdepth s + depth_stmt2 (StSimple sm) <= MAX_NESTING -> lev false s (depth_stmt2 (StSimple sm)) ->
  exists n s1, k_stmt A G D C E (PA d) s = Ok n s1 /\ erase n = shape_stmt (StSimple sm) /\
               at_toks s1 (tk OBraceRight :: rst) /\ frame s s1.

Lemma stmt_simple_nosemi : forall sm, SSP_brace sm -> wf_simple2 false sm -> SC_nosemi sm.
Proof.
  intros sm HS Hwf d s rst Hd Hat Hdep Hlev.
  rewrite need_StSimple in Hd. rewrite depth_StSimple in Hdep, Hlev.
  destruct d as [| d0]; [lia |].
  set (s0 := upd_depth A G D E s (S (sdepth s))).
  assert (Hat0 : at_toks s0 (print_simple print2 sm ++ tk OBraceRight :: rst)) by exact Hat.
  destruct (first_tok_simple first_tok_e false sm Hwf) as (t & l0 & Hp & Hst).
  assert (Hc : exists pos, cur s0 = Some (pos, t)).
  { rewrite Hp in Hat0. simpl in Hat0. exact (at_toks_cur _ _ _ Hat0). }
  destruct Hc as (pos & Hc).
  destruct (HS d0 s0 rst) as (n & s1 & Hk & He & Hat1 & Hf1).
  - lia.
  - exact Hat0.
  - change (sdepth s0) with (S (sdepth s)). lia.
  - apply (lev_frame _ _ _ _ false s0 s0 _ _ (frame_refl s0) Hlev). lia.
  - assert (Hs : skipped A G D C E OPS (KOp OSemiColon) s1 = Ok false s1).
    { apply (skipped_no OPS s1 _ _ Hat1). reflexivity. }
    assert (Hb : SB (PA d0) s0 = Ok n s1).
    { unfold stmt_body. rewrite Hc. rewrite (proj1 Hst). rewrite Hk. cbn [bind]. rewrite Hs.
      reflexivity. }
    exists n, (upd_depth A G D E s1 (pred (sdepth s1))).
    split.
    + change (k_stmt A G D C E (PA (S d0)) s) with (nested A G D E 142 (SB (PA d0)) s).
      apply nested_intro; [lia | exact Hb].
    + split; [exact He |]. split; [exact Hat1 |]. apply frame_nested. exact Hf1.
Qed.

(* the loop of parse_block_stmt over a prefix of the statements *)
Lemma stmts_prefix_ok : forall body, Forall (fun st => wf_stmt st /\ SC st) body ->
  seq_ok body ->
  forall d fuel acc (s : pstateT) tail k,
    no_semi tail ->
    max2 need_stmt2 body <= d ->
    sdepth s + max2 depth_stmt2 body <= MAX_NESTING -> lev false s (max2 depth_stmt2 body) ->
    at_toks s (print_stmts body ++ tail) ->
    length (print_stmts body) + k <= fuel ->
    exists ns s1 fuel1,
      SUB (PA d) fuel acc s = SUB (PA d) fuel1 (acc ++ ns) s1 /\ k <= fuel1 /\
      map erase ns = map shape_stmt body /\ at_toks s1 tail /\ frame s s1.
Proof.
  intros body Hall. induction Hall as [| st body (Hwf & HS) Hall IH];
    intros Hseq d fuel acc s tail k Hns Hd Hdep Hlev Hat Hfu.
  - simpl in Hat, Hfu. exists [], s, fuel. rewrite app_nil_r.
    split; [reflexivity |]. split; [lia |]. split; [reflexivity |].
    split; [exact Hat | apply frame_refl].
  - unfold print_stmts in Hat, Hfu. cbn [flat_map] in Hat, Hfu. fold (print_stmts body) in Hat, Hfu.
    rewrite <- app_assoc in Hat. rewrite app_length in Hfu.
    pose proof (print_stmt_length first_tok_e st Hwf) as Hlen.
    simpl in Hd, Hdep, Hlev.
    destruct fuel as [| f]; [lia |]. cbn [stmts_until_brace].
    assert (Hnb : cur_is A G D E s (KOp OBraceRight) = false).
    { destruct (first_tok_stmt first_tok_e st Hwf) as (t & l & Hp & H1 & _).
      rewrite Hp in Hat. simpl in Hat. rewrite (cur_is_toks _ _ _ _ Hat). exact H1. }
    rewrite Hnb. cbv iota.
    destruct (HS d s (print_stmts body ++ tail)) as (n & s1 & Hk & He & Hat1 & Hf1).
    + lia.
    + exact Hat.
    + apply (sfollow_next A G D C E OPS first_tok_e st body _ Hseq Hall). exact Hns.
    + lia.
    + apply (lev_frame _ _ _ _ false s s _ _ (frame_refl s) Hlev). lia.
    + rewrite Hk. cbn [bind].
      destruct (IH (seq_ok_tail _ _ Hseq) d f (acc ++ [n]) s1 tail k Hns)
        as (ns & s2 & f1 & Hl & Hk1 & Hes & Hat2 & Hf2).
      * lia.
      * unframe. lia.
      * apply (lev_frame _ _ _ _ false s s1 _ _ Hf1 Hlev). lia.
      * exact Hat1.
      * lia.
      * exists (n :: ns), s2, f1. split; [rewrite Hl, <- app_assoc; reflexivity |].
        split; [exact Hk1 |].
        split; [simpl; rewrite He, Hes; reflexivity |].
        split; [exact Hat2 | exact (frame_trans _ _ _ Hf1 Hf2)].
Qed.

Lemma max2_snoc : forall (f : stmt2 -> nat) l a, max2 f (l ++ [a]) = Nat.max (max2 f l) (f a).
Proof.
  intros f l a. rewrite max2_app. simpl. lia.
Qed.

(* parse_block_stmt on  { body sm }  *)
Theorem block_nosemi_ok : forall body sm,
  Forall (fun st => wf_stmt st /\ SC st) body -> seq_ok body ->
  wf_simple2 false sm -> SC_nosemi sm ->
  BP_toks (body ++ [StSimple sm]) (block_nosemi body sm).
Proof.
  intros body sm Hall Hseq Hwf HL d s rst Hd Hat Hdep Hlev.
  unfold need_block in Hd. unfold depth_block in Hdep, Hlev.
  rewrite max2_snoc in Hd, Hdep, Hlev.
  destruct d as [| d1]; [lia |].
  change (k_block A G D C E (PA (S d1)) s) with (block_body A G D C E OPS (PA d1) s).
  unfold block_nosemi in Hat. simpl app in Hat. rewrite <- !app_assoc in Hat. simpl app in Hat.
  assert (Hlevw : levw s (S (S (Nat.max (max2 depth_stmt2 body) (depth_stmt2 (StSimple sm)))))).
  { destruct Hlev as (H1 & H2). split; lia. }
  unfold block_body. rewrite (inc_level_ok s 79) by (destruct Hlev; lia). cbn [bind].
  set (s0 := upd_level A G D E s (S (lp s)) (ln s)).
  pose proof (levw_inc _ _ _ _ s _ Hlevw) as Hlev0. fold s0 in Hlev0.
  assert (Hat0 : at_toks s0 (tk OBraceLeft :: print_stmts body ++
                               print_simple print2 sm ++ tk OBraceRight :: rst)) by exact Hat.
  destruct (expect_toks OPS s0 _ _ (KOp OBraceLeft) 80 Hat0 eq_refl)
    as (p0 & s2 & Hx & Hat2 & Hf2).
  rewrite Hx. cbn [bind].
  destruct (first_tok_simple first_tok_e false sm Hwf) as (t & l0 & Hp & Hst).
  assert (Hns : no_semi (print_simple print2 sm ++ tk OBraceRight :: rst)).
  { rewrite Hp. simpl. unfold start_tok in Hst. tauto. }
  destruct (stmts_prefix_ok body Hall Hseq d1 (loop_fuel A G D E s2) [] s2 _ 2 Hns)
    as (ns & s3 & f1 & Hl & Hk1 & Hes & Hat3 & Hf3).
  - lia.
  - destruct Hf2 as (Hd2 & _). rewrite Hd2. change (sdepth s0) with (sdepth s). lia.
  - apply (lev_frame _ _ _ _ false s0 s2 _ _ Hf2 Hlev0). lia.
  - exact Hat2.
  - pose proof (loop_fuel_toks s2 _ Hat2) as H. rewrite !app_length in H. rewrite Hp in H.
    simpl in H. lia.
  - rewrite Hl. cbn [app].
    pose proof (frame_trans _ _ _ Hf2 Hf3) as Hf23.
    destruct f1 as [| f1]; [lia |]. destruct f1 as [| f1]; [lia |].
    cbn [stmts_until_brace].
    assert (Hnb : cur_is A G D E s3 (KOp OBraceRight) = false).
    { destruct (first_tok_stmt first_tok_e (StSimple sm) Hwf) as (t' & l' & Hp' & H1 & _).
      cbn [print_stmt] in Hp'. rewrite Hp in Hp'. simpl in Hp'. injection Hp' as <- _.
      rewrite Hp in Hat3. simpl in Hat3. rewrite (cur_is_toks _ _ _ _ Hat3). exact H1. }
    rewrite Hnb. cbv iota.
    destruct (HL d1 s3 rst) as (n & s4 & Hk & He & Hat4 & Hf4).
    + lia.
    + exact Hat3.
    + rewrite (proj1 Hf23). change (sdepth s0) with (sdepth s). lia.
    + apply (lev_frame _ _ _ _ false s0 s3 _ _ Hf23 Hlev0). lia.
    + rewrite Hk. cbn [bind].
      rewrite (cur_is_toks _ _ _ _ Hat4).
      change (tok_is (tk OBraceRight) (KOp OBraceRight)) with true. cbv iota. cbn [bind].
      assert (Hat5 : at_toks (dec_level A G D E s4) (tk OBraceRight :: rst)) by exact Hat4.
      destruct (expect_toks OPS _ _ _ (KOp OBraceRight) 81 Hat5 eq_refl)
        as (p1 & s6 & Hx6 & Hat6 & Hf6).
      rewrite Hx6. cbn [bind].
      exists (mk A C GBlock [p0; p1] [] (ns ++ [n])), s6.
      split; [reflexivity |].
      split; [unfold shape_block; simpl; change (fun x : nodeT => erase x) with erase;
              rewrite !map_app, Hes; simpl; rewrite He; reflexivity |].
      split; [exact Hat6 |].
      apply (frame_trans s (dec_level A G D E s4) s6); [| exact Hf6].
      apply frame_inc_dec. exact (frame_trans _ _ _ Hf23 Hf4).
Qed.

(* ------------------------------------------------------------ for every well-formed block *)

Lemma wf_stmts_contracts : forall body, all2 wf_stmt body ->
  Forall (fun st => wf_stmt st /\ SC st) body.
Proof.
  induction body as [| a r IH]; intros Hw; [constructor |].
  simpl in Hw. destruct Hw as (Hwa & Hwr). constructor; [| exact (IH Hwr)].
  split; [exact Hwa | exact (stmt2_in_context A G D C E OPS a Hwa)].
Qed.

Theorem simple_nosemi_wf : forall sm, wf_stmt (StSimple sm) -> SC_nosemi sm.
Proof.
  intros sm Hwf. apply stmt_simple_nosemi; [| exact Hwf].
  apply sspb_ok; [| exact Hwf].
  intros e Hin. apply expr2_in_context. exact (wf_simple_In false sm e Hwf Hin).
Qed.

Theorem block_nosemi_wf : forall body sm,
  all2 wf_stmt body -> seq_ok body -> wf_stmt (StSimple sm) ->
  BP_toks (body ++ [StSimple sm])
    (tk OBraceLeft :: print_stmts body ++ print_simple print2 sm ++ [tk OBraceRight]).
Proof.
  intros body sm Hwb Hseq Hwf.
  exact (block_nosemi_ok body sm (wf_stmts_contracts body Hwb) Hseq Hwf (simple_nosemi_wf sm Hwf)).
Qed.

End OS.

(* ------------------------------------------------------------ non-vacuity *)

(* Parser::parse_stmt of the executable model on a token list *)
Definition demo_stmt_shape (l : list token) : option (node unit unit) :=
  match entry_stmt nat unit unit unit unit demo_ops
          (parsers_at nat unit unit unit unit demo_ops (2 * length l + 8))
          (init_state nat unit unit unit 0 tt (demo_stream 0 l) (TEof (length l) tt)) with
  | Ok n s => match s_cur nat unit unit unit s with Some _ => None | None => Some (erase n) end
  | _ => None
  end.

(* { x ; y = x }  /  { x ; y = x ; } *)
Definition os_body : list stmt2 := [StSimple (SmExpr (E2Ident [120%N]))].
Definition os_sm : simple2 := SmAssign OAssign [E2Ident [121%N]] [E2Ident [120%N]].

Example os_wf : all2 wf_stmt os_body /\ seq_ok os_body /\ wf_stmt (StSimple os_sm).
Proof. cbn. repeat split; try exact I; try discriminate; try (intros; discriminate); lia. Qed.

(* the spelling without the last ";" is NOT the printed one; the executable parser
   reads both to the printed derivation's tree *)
Example os_spelling :
  block_nosemi os_body os_sm <> print_stmt (StBlock (os_body ++ [StSimple os_sm])).
Proof. vm_compute. discriminate. Qed.

Example os_reparse :
  demo_stmt_shape (block_nosemi os_body os_sm) =
    Some (shape_stmt (StBlock (os_body ++ [StSimple os_sm]))) /\
  demo_stmt_shape (print_stmt (StBlock (os_body ++ [StSimple os_sm]))) =
    Some (shape_stmt (StBlock (os_body ++ [StSimple os_sm]))).
Proof. split; vm_compute; reflexivity. Qed.

(* an ADDITIONAL ";" is a different program: it is read as an empty statement
   (print_stmt StEmpty = [";"]), so  { x ; ; }  has one statement more than  { x ; }  *)
Example os_extra_semi_is_empty_stmt :
  demo_stmt_shape [tk OBraceLeft; TLiteral LIdent [120%N]; tk OSemiColon; tk OSemiColon;
                   tk OBraceRight] =
    Some (shape_stmt (StBlock (os_body ++ [StEmpty]))) /\
  shape_stmt (StBlock (os_body ++ [StEmpty])) <> shape_stmt (StBlock os_body).
Proof. split; vm_compute; [reflexivity | discriminate]. Qed.

(* ============================================================ import groups *)

(* [print_import] renders  import ( "a" ; "b" ; ) ;  -- every spec with its ";".
   Go allows omitting the ";" in front of ")" :  import ( "a" ; "b" ) ; .
   parse_import_decl on that spelling meets the contract of
   RoundTripFile.import_decl_ok ([IDP_toks]: its body, with the token list as a
   parameter) -- the same list of import nodes. *)

Definition pspec (sp : importspec) : list token := print_importspec sp ++ [tk OSemiColon].

Definition import_nosemi (specs : list importspec) (sp : importspec) : list token :=
  kw KImport :: tk OParenLeft :: flat_map pspec specs ++ print_importspec sp ++
    [tk OParenRight; tk OSemiColon].

Section OSImport.
Variables (A G D C E : Type).
Variable OPS : ops A G D C.
Notation nodeT := (node A C).
Notation pstateT := (pstate A G D E).
Notation erase := (@erase A C).
Notation at_toks := (@at_toks A G D E).
Notation frame := (@frame A G D E).
Notation IGL := (import_group_loop A G D C E OPS).

(* the body of RoundTripFile.import_decl_ok for i, with [print_import i] replaced by [toks] *)
Definition IDP_toks (i : bool * list importspec) (toks : list token) : Prop :=
  forall (s : pstateT) rst, at_toks s (toks ++ rst) ->
  exists ns s1, parse_import_decl A G D C E OPS s = Ok ns s1 /\
    map erase ns = map shape_importspec (snd i) /\ at_toks s1 (tk OSemiColon :: rst) /\ frame s s1.

Lemma IDP_toks_print : forall i, wf_import i -> IDP_toks i (print_import i).
Proof. intros i Hwf s rst Hat. exact (import_decl_ok A G D C E OPS i Hwf s rst Hat). Qed.

(* import_group_loop over a prefix of the specs *)
Lemma import_group_prefix : forall specs fuel acc (s : pstateT) tail k,
  at_toks s (flat_map pspec specs ++ tail) ->
  length specs + k <= fuel ->
  exists ns s1 fuel1, IGL fuel acc s = IGL fuel1 (acc ++ ns) s1 /\ k <= fuel1 /\
    map erase ns = map shape_importspec specs /\ at_toks s1 tail /\ frame s s1.
Proof.
  induction specs as [| sp r IH]; intros fuel acc s tail k Hat Hfu.
  - cbn [flat_map app] in Hat. simpl in Hfu. exists [], s, fuel. rewrite app_nil_r.
    split; [reflexivity |]. split; [lia |]. split; [reflexivity |].
    split; [exact Hat | apply frame_refl].
  - cbn [flat_map] in Hat. unfold pspec at 1 in Hat. rewrite <- !app_assoc in Hat. cbn [app] in Hat.
    destruct fuel as [| f]; [simpl in Hfu; lia |]. cbn [import_group_loop].
    destruct (importspec_not_paren sp (tk OSemiColon :: flat_map pspec r ++ tail))
      as (t0 & r0 & Hp & Hk & _).
    assert (Hc : cur_is A G D E s (KOp OParenRight) = false).
    { rewrite Hp in Hat. rewrite (cur_is_toks _ _ _ _ Hat). exact Hk. }
    rewrite Hc.
    destruct (import_spec_ok A G D C E OPS sp s _ Hat) as (n & s1 & Hk1 & He & Hat1 & Hf1).
    rewrite Hk1. cbn [bind].
    destruct (skipped_yes OPS s1 _ _ (KOp OSemiColon) Hat1 eq_refl) as (s2 & Hs & Hat2 & Hf2).
    rewrite Hs. cbn [bind].
    destruct (IH f (acc ++ [n]) s2 tail k Hat2) as (ns & s3 & f1 & Hl & Hk2 & Hes & Hat3 & Hf3).
    { simpl in Hfu. lia. }
    exists (n :: ns), s3, f1. split; [rewrite Hl, <- app_assoc; reflexivity |].
    split; [exact Hk2 |].
    split; [simpl; rewrite He, Hes; reflexivity |].
    split; [exact Hat3 | exact (frame_trans _ _ _ (frame_trans _ _ _ Hf1 Hf2) Hf3)].
Qed.

(* import ( specs sp ) *)
Theorem import_group_nosemi : forall specs sp,
  IDP_toks (true, specs ++ [sp]) (import_nosemi specs sp).
Proof.
  intros specs sp s rst Hat. cbn [snd].
  unfold import_nosemi in Hat. cbn [app] in Hat. rewrite <- !app_assoc in Hat. cbn [app] in Hat.
  unfold parse_import_decl.
  destruct (expect_toks OPS s _ _ (KKw KImport) 137 Hat eq_refl) as (p0 & s1 & Hx & Hat1 & Hf1).
  rewrite Hx. cbn [bind].
  destruct (skipped_yes OPS s1 _ _ (KOp OParenLeft) Hat1 eq_refl) as (s2 & Hs & Hat2 & Hf2).
  rewrite Hs. cbn [bind].
  destruct (import_group_prefix specs (loop_fuel A G D E s2) [] s2 _ 2 Hat2)
    as (ns & s3 & f1 & Hl & Hk1 & Hes & Hat3 & Hf3).
  { pose proof (loop_fuel_toks _ _ Hat2) as H. rewrite !app_length in H.
    pose proof (flat_map_len_ge _ pspec specs) as H0. cbn [length] in H.
    assert (length specs <= length (flat_map pspec specs)).
    { apply H0. intro a. unfold pspec. rewrite app_length. simpl. lia. }
    pose proof (print_importspec_len sp). lia. }
  rewrite Hl. cbn [app].
  destruct f1 as [| f1]; [lia |]. destruct f1 as [| f1]; [lia |]. cbn [import_group_loop].
  destruct (importspec_not_paren sp (tk OParenRight :: tk OSemiColon :: rst))
    as (t0 & r0 & Hp & Hk & _).
  assert (Hc : cur_is A G D E s3 (KOp OParenRight) = false).
  { rewrite Hp in Hat3. rewrite (cur_is_toks _ _ _ _ Hat3). exact Hk. }
  rewrite Hc.
  destruct (import_spec_ok A G D C E OPS sp s3 _ Hat3) as (n & s4 & Hk4 & He & Hat4 & Hf4).
  rewrite Hk4. cbn [bind].
  assert (Hs4 : skipped A G D C E OPS (KOp OSemiColon) s4 = Ok false s4).
  { apply (skipped_no OPS s4 _ _ Hat4). reflexivity. }
  rewrite Hs4. cbn [bind].
  rewrite (cur_is_toks _ _ _ _ Hat4).
  change (tok_is (tk OParenRight) (KOp OParenRight)) with true. cbv iota. cbn [bind].
  destruct (expect_toks OPS s4 _ _ (KOp OParenRight) 138 Hat4 eq_refl) as (p1 & s5 & Hx5 & Hat5 & Hf5).
  rewrite Hx5. cbn [bind]. exists (ns ++ [n]), s5. split; [reflexivity |].
  split; [rewrite !map_app, Hes; simpl; rewrite He; reflexivity |].
  split; [exact Hat5 |].
  exact (frame_trans _ _ _ (frame_trans _ _ _ (frame_trans _ _ _ (frame_trans _ _ _ Hf1 Hf2) Hf3) Hf4) Hf5).
Qed.

End OSImport.

(* non-vacuity: import ( "a" ; x "b" ) ;  against the printed  import ( "a" ; x "b" ; ) ; *)
Definition oi_specs : list importspec := [ImpPlain [97%N]].
Definition oi_sp : importspec := ImpNamed [120%N] [98%N].

Example oi_spelling :
  wf_import (true, oi_specs ++ [oi_sp]) /\
  import_nosemi oi_specs oi_sp <> print_import (true, oi_specs ++ [oi_sp]).
Proof. split; [intro H; discriminate H | vm_compute; discriminate]. Qed.

(* Parser::parse_file of the executable model on a token list *)
Definition demo_file_shape (l : list token) : option (node unit unit) :=
  match parse_file nat unit unit unit unit demo_ops
          (parsers_at nat unit unit unit unit demo_ops (2 * length l + 8))
          (init_state nat unit unit unit 0 tt (demo_stream 0 l) (TEof (length l) tt)) with
  | Ok n s => match s_cur nat unit unit unit s with Some _ => None | None => Some (erase n) end
  | _ => None
  end.

Definition oi_file : file := File [112%N] [(true, oi_specs ++ [oi_sp])] [].

(* both spellings of the import group are read to the printed file's tree *)
Example oi_reparse :
  demo_file_shape (kw KPackage :: ident_tok [112%N] :: tk OSemiColon :: import_nosemi oi_specs oi_sp)
    = Some (shape_file oi_file) /\
  demo_file_shape (print_file oi_file) = Some (shape_file oi_file).
Proof. split; vm_compute; reflexivity. Qed.

(* an ADDITIONAL ";" in an import group is rejected by the model parser *)
Example oi_extra_semi_rejected :
  demo_file_shape (kw KPackage :: ident_tok [112%N] :: tk OSemiColon ::
    [kw KImport; tk OParenLeft; TLiteral LString [97%N]; tk OSemiColon; tk OSemiColon;
     tk OParenRight; tk OSemiColon]) = None.
Proof. vm_compute. reflexivity. Qed.

(* ============================================================ any last statement *)

(* The statements that [print_stmt] ends with a ";" of their own, spelled without it.
   (A declaration, an if statement, a labelled statement also end with ";"; they are
   not covered here.) *)
Definition nosemi_toks (st : stmt2) : option (list token) :=
  match st with
  | StSimple sm => Some (print_simple print2 sm)
  | StGo c => Some (kw KGo :: print2 c)
  | StDefer c => Some (kw KDefer :: print2 c)
  | StReturn es => Some (kw KReturn :: commas (map print2 es))
  | StBranch k lbl => Some (kw k :: popt (fun n => [ident_tok n]) lbl)
  | _ => None
  end.

Lemma nosemi_toks_print : forall st toks, nosemi_toks st = Some toks ->
  print_stmt st = toks ++ [tk OSemiColon].
Proof.
  intros st toks H. destruct st; try discriminate H; injection H as <-; reflexivity.
Qed.

Section OSLast.
Variables (A G D C E : Type).
Variable OPS : ops A G D C.
Notation nodeT := (node A C).
Notation pstateT := (pstate A G D E).
Notation cur := (s_cur A G D E).
Notation sdepth := (s_depth A G D E).
Notation lp := (s_lp A G D E).
Notation ln := (s_ln A G D E).
Notation PA := (parsers_at A G D C E OPS).
Notation erase := (@erase A C).
Notation at_toks := (@at_toks A G D E).
Notation frame := (@frame A G D E).
Notation lev := (lev A G D E).
Notation levw := (levw A G D E).
Notation KE2 := (KE2 A G D C E OPS).
Notation SC := (SC A G D C E OPS).
Notation SB := (stmt_body A G D C E OPS).
Notation SUB := (stmts_until_brace A G D C E).
Notation exprs_ok3 := (exprs_ok3 A G D C E OPS).
Notation BP_toks := (BP_toks A G D C E OPS).

(* Parser::parse_stmt on the spelling [toks] of st, in front of "}" :
   the body of RoundTripBase2.SC st at rst := "}" :: rst, with [print_stmt st] replaced *)
Definition SC_last (st : stmt2) (toks : list token) : Prop := forall d (s : pstateT) rst,
  need_stmt2 st <= d -> at_toks s (toks ++ tk OBraceRight :: rst) ->
  sdepth s + depth_stmt2 st <= MAX_NESTING -> lev false s (depth_stmt2 st) ->
  exists n s1, k_stmt A G D C E (PA d) s = Ok n s1 /\ erase n = shape_stmt st /\
               at_toks s1 (tk OBraceRight :: rst) /\ frame s s1.

Definition SBP_last (st : stmt2) (toks : list token) : Prop := forall d (s : pstateT) rst,
  need_stmt2 st <= S d -> at_toks s (toks ++ tk OBraceRight :: rst) ->
  sdepth s + depth_stmt2 st <= S MAX_NESTING -> lev false s (depth_stmt2 st) ->
  exists n s1, SB (PA d) s = Ok n s1 /\ erase n = shape_stmt st /\
               at_toks s1 (tk OBraceRight :: rst) /\ frame s s1.

Lemma SBP_last_SC : forall st toks, SBP_last st toks -> SC_last st toks.
Proof.
  intros st toks HB d s rst Hd Hat Hdep Hlev.
  pose proof (ms_pos true st : 4 <= need_stmt2 st) as Hnp.
  pose proof (ms_pos false st : 4 <= depth_stmt2 st) as Hdp.
  destruct d as [| d0]; [lia |].
  set (s0 := upd_depth A G D E s (S (sdepth s))).
  destruct (HB d0 s0 rst) as (n & s1 & Hk & He & Hat1 & Hf1); try assumption.
  - change (sdepth s0) with (S (sdepth s)). lia.
  - exists n, (upd_depth A G D E s1 (pred (sdepth s1))).
    split.
    + change (k_stmt A G D C E (PA (S d0)) s) with (nested A G D E 142 (SB (PA d0)) s).
      apply nested_intro; [lia | exact Hk].
    + split; [exact He |]. split; [exact Hat1 |]. apply frame_nested. exact Hf1.
Qed.

(* go f(x) }  /  defer f(x) } *)
Lemma go_defer_last : forall (is_go : bool) c, wf2 false c -> is_call2 c -> KE2 false c ->
  SC_last (if is_go then StGo c else StDefer c) (kw (if is_go then KGo else KDefer) :: print2 c).
Proof.
  intros is_go c Hwf Hcall HK. apply SBP_last_SC. intros d s rst Hd Hat Hdep Hlev.
  assert (Hat' : at_toks s (kw (if is_go then KGo else KDefer) ::
                              print2 c ++ tk OBraceRight :: rst)) by exact Hat.
  assert (Hd' : need2 c + 2 <= d).
  { destruct is_go; [rewrite need_StGo in Hd | rewrite need_StDefer in Hd]; lia. }
  assert (Hdep' : sdepth s + depth2 c <= MAX_NESTING).
  { destruct is_go; [rewrite depth_StGo in Hdep | rewrite depth_StDefer in Hdep]; lia. }
  assert (Hlev' : lev false s (depth2 c)).
  { destruct is_go; [rewrite depth_StGo in Hlev | rewrite depth_StDefer in Hlev];
      apply (lev_frame _ _ _ _ false s s _ _ (frame_refl s) Hlev); lia. }
  destruct (at_toks_cur _ _ _ Hat') as (pos & Hc).
  destruct (expect_toks OPS s _ _ (KKw (if is_go then KGo else KDefer)) 82 Hat'
              (tok_is_kw_refl _)) as (p0 & s1 & Hx & Hat1 & Hf1).
  destruct (HK d s1 (tk OBraceRight :: rst)) as (n & s2 & Hk & He & Hat2 & Hf2).
  - exact Hd'.
  - exact Hat1.
  - apply efollow_close; reflexivity.
  - unframe. lia.
  - apply (lev_frame _ _ _ _ false s s1 _ _ Hf1 Hlev'). lia.
  - assert (Hs : skipped A G D C E OPS (KOp OSemiColon) s2 = Ok false s2).
    { apply (skipped_no OPS s2 _ _ Hat2). reflexivity. }
    assert (Htag : is_tag GCall n = true).
    { rewrite <- (is_tag_erase GCall n), He. destruct c; try destruct Hcall. reflexivity. }
    exists (mk A C (if is_go then GGo else GDefer) [p0] [] [n]), s2.
    split; [| split; [destruct is_go; simpl; rewrite He; reflexivity |
                      split; [exact Hat2 | exact (frame_trans _ _ _ Hf1 Hf2)]]].
    unfold stmt_body. rewrite Hc.
    assert (Hpg : parse_go_defer A G D C E OPS (PA d) is_go s =
                  Ok (mk A C (if is_go then GGo else GDefer) [p0] [] [n]) s2).
    { unfold parse_go_defer. rewrite Hx. cbn [bind]. rewrite Hk. cbn [bind]. rewrite Htag.
      rewrite Hs. reflexivity. }
    destruct is_go; cbn [classify_stmt kw]; exact Hpg.
Qed.

(* return }  /  return a, b } *)
Lemma return_last : forall es, Forall (KE2 false) es -> wf_stmt (StReturn es) ->
  SC_last (StReturn es) (kw KReturn :: commas (map print2 es)).
Proof.
  intros es HK Hw. apply SBP_last_SC. intros d s rst Hd Hat Hdep Hlev.
  rewrite need_StReturn in Hd. rewrite depth_StReturn in Hdep, Hlev.
  cbn [wf_stmt] in Hw. simpl app in Hat.
  destruct (at_toks_cur _ _ _ Hat) as (pos & Hc).
  destruct (expect_toks OPS s _ _ (KKw KReturn) 85 Hat eq_refl) as (p0 & s1 & Hx & Hat1 & Hf1).
  destruct es as [| e r].
  - simpl in Hat1.
    assert (Hs : skipped A G D C E OPS (KOp OSemiColon) s1 = Ok false s1).
    { apply (skipped_no OPS s1 _ _ Hat1). reflexivity. }
    exists (mk A C GReturn [p0] [] []), s1.
    split; [| split; [reflexivity | split; [exact Hat1 | exact Hf1]]].
    unfold stmt_body. rewrite Hc. cbn [classify_stmt kw]. unfold parse_return_stmt.
    rewrite Hx. cbn [bind].
    assert (Hnot : cur_not A G D E s1 (KOp OSemiColon) && cur_not A G D E s1 (KOp OBraceRight)
                   = false).
    { unfold cur_not. rewrite !(cur_is_toks _ _ _ _ Hat1). reflexivity. }
    rewrite Hnot. cbn [bind]. rewrite Hs. reflexivity.
  - destruct (exprs_ok3 false e r HK d s1 (tk OBraceRight :: rst))
      as (ns & s2 & Hl & Hes & Hat2 & Hf2).
    { apply list_follow_lfollow. split; reflexivity. }
    { lia. }
    { unframe. lia. }
    { apply (lev_frame _ _ _ _ false s s1 _ _ Hf1 Hlev). lia. }
    { exact Hat1. }
    assert (Hs : skipped A G D C E OPS (KOp OSemiColon) s2 = Ok false s2).
    { apply (skipped_no OPS s2 _ _ Hat2). reflexivity. }
    exists (mk A C GReturn [p0] [] ns), s2.
    split; [| split; [simpl; change (fun x : nodeT => erase x) with erase; rewrite Hes;
                      reflexivity |
                      split; [exact Hat2 | exact (frame_trans _ _ _ Hf1 Hf2)]]].
    unfold stmt_body. rewrite Hc. cbn [classify_stmt kw]. unfold parse_return_stmt.
    rewrite Hx. cbn [bind].
    assert (Hnot : cur_not A G D E s1 (KOp OSemiColon) && cur_not A G D E s1 (KOp OBraceRight)
                   = true).
    { destruct (first_tok_e e false (proj1 Hw)) as (t & l0 & Hp & Hstt).
      rewrite commas_cons2, Hp in Hat1. rewrite <- !app_assoc in Hat1. simpl in Hat1.
      unfold cur_not. rewrite !(cur_is_toks _ _ _ _ Hat1).
      unfold start_tok in Hstt. destruct Hstt as (_ & H1 & H2 & _). rewrite H1, H2. reflexivity. }
    rewrite Hnot. rewrite Hl. cbn [bind]. rewrite Hs. reflexivity.
Qed.

(* break }  /  continue L } *)
Lemma branch_last : forall k lbl, wf_stmt (StBranch k lbl) ->
  SC_last (StBranch k lbl) (kw k :: popt (fun n => [ident_tok n]) lbl).
Proof.
  intros k lbl (Hk & Hft). apply SBP_last_SC. intros d s rst Hd Hat Hdep Hlev.
  simpl app in Hat.
  destruct (at_toks_cur _ _ _ Hat) as (pos & Hc).
  destruct (expect_toks OPS s _ _ (KKw k) 86 Hat (tok_is_kw_refl k)) as (p0 & s1 & Hx & Hat1 & Hf1).
  destruct lbl as [name |].
  - simpl in Hat1.
    destruct (identifier_toks OPS s1 name _ 87 Hat1) as (p & s2 & Hi & Hat2 & Hf2).
    assert (Hs : skipped A G D C E OPS (KOp OSemiColon) s2 = Ok false s2).
    { apply (skipped_no OPS s2 _ _ Hat2). reflexivity. }
    exists (mk A C GBranch [p0] [AKw k] [n_ident A C p name]), s2.
    split; [| split; [reflexivity | split; [exact Hat2 | exact (frame_trans _ _ _ Hf1 Hf2)]]].
    unfold stmt_body. rewrite Hc. rewrite (proj1 (branch_kw_tok k Hk)).
    unfold parse_branch_stmt. rewrite Hx. cbn [bind].
    assert (Hnf : kw_eqb k KFallThrough = false).
    { destruct Hk as [-> | [-> | [-> | ->]]]; try reflexivity.
      specialize (Hft eq_refl). discriminate Hft. }
    assert (Hci : cur_is A G D E s1 (KLit LIdent) = true).
    { rewrite (cur_is_toks _ _ _ _ Hat1). reflexivity. }
    rewrite Hnf, Hci. cbn [negb andb].
    rewrite Hi. cbn [bind]. rewrite Hs. reflexivity.
  - simpl in Hat1.
    assert (Hs : skipped A G D C E OPS (KOp OSemiColon) s1 = Ok false s1).
    { apply (skipped_no OPS s1 _ _ Hat1). reflexivity. }
    exists (mk A C GBranch [p0] [AKw k] [@nnone A C]), s1.
    split; [| split; [reflexivity | split; [exact Hat1 | exact Hf1]]].
    unfold stmt_body. rewrite Hc. rewrite (proj1 (branch_kw_tok k Hk)).
    unfold parse_branch_stmt. rewrite Hx. cbn [bind].
    assert (Hci : cur_is A G D E s1 (KLit LIdent) = false).
    { rewrite (cur_is_toks _ _ _ _ Hat1). reflexivity. }
    rewrite Hci, andb_false_r. cbn [bind]. rewrite Hs. reflexivity.
Qed.

(* the body of RoundTripStmt2.BPs l (parse_block_stmt with the bounds it really needs),
   with [print_block l] replaced by [toks] *)
Definition BPs_toks (l : list stmt2) (toks : list token) : Prop := forall d (s : pstateT) rst,
  max2 need_stmt2 l + 1 <= d -> at_toks s (toks ++ rst) ->
  sdepth s + max2 depth_stmt2 l <= MAX_NESTING -> levw s (2 + max2 depth_stmt2 l) ->
  exists n s1, k_block A G D C E (PA d) s = Ok n s1 /\ erase n = shape_block l /\
               at_toks s1 rst /\ frame s s1.

Lemma BPs_toks_BP_toks : forall l toks, BPs_toks l toks -> BP_toks l toks.
Proof.
  intros l toks HB d s rst Hd Hat Hdep Hlev. unfold need_block in Hd.
  unfold depth_block in Hdep, Hlev.
  apply HB; [lia | exact Hat | lia |]. destruct Hlev as (H1 & H2). split; lia.
Qed.

(* parse_block_stmt on  { body last }  , last spelled [toks] *)
Theorem block_last_strong : forall body last toks,
  Forall (fun st => wf_stmt st /\ SC st) body -> seq_ok body ->
  (exists t l0, toks = t :: l0 /\ tok_is t (KOp OBraceRight) = false /\
                tok_is t (KOp OSemiColon) = false) ->
  SC_last last toks ->
  BPs_toks (body ++ [last]) (tk OBraceLeft :: print_stmts body ++ toks ++ [tk OBraceRight]).
Proof.
  intros body last toks Hall Hseq (t & l0 & Hp & Htb & Hts) HL d s rst Hd Hat Hdep Hlev.
  rewrite max2_snoc in Hd, Hdep, Hlev.
  destruct d as [| d1]; [lia |].
  change (k_block A G D C E (PA (S d1)) s) with (block_body A G D C E OPS (PA d1) s).
  simpl app in Hat. rewrite <- !app_assoc in Hat. simpl app in Hat.
  assert (Hlevw : levw s (S (S (Nat.max (max2 depth_stmt2 body) (depth_stmt2 last))))).
  { destruct Hlev as (H1 & H2). split; lia. }
  unfold block_body. rewrite (inc_level_ok s 79) by (destruct Hlev; lia). cbn [bind].
  set (s0 := upd_level A G D E s (S (lp s)) (ln s)).
  pose proof (levw_inc _ _ _ _ s _ Hlevw) as Hlev0. fold s0 in Hlev0.
  assert (Hat0 : at_toks s0 (tk OBraceLeft :: print_stmts body ++
                               toks ++ tk OBraceRight :: rst)) by exact Hat.
  destruct (expect_toks OPS s0 _ _ (KOp OBraceLeft) 80 Hat0 eq_refl)
    as (p0 & s2 & Hx & Hat2 & Hf2).
  rewrite Hx. cbn [bind].
  assert (Hns : no_semi (toks ++ tk OBraceRight :: rst)).
  { rewrite Hp. simpl. exact Hts. }
  destruct (stmts_prefix_ok A G D C E OPS body Hall Hseq d1 (loop_fuel A G D E s2) [] s2 _ 2 Hns)
    as (ns & s3 & f1 & Hl & Hk1 & Hes & Hat3 & Hf3).
  - lia.
  - destruct Hf2 as (Hd2 & _). rewrite Hd2. change (sdepth s0) with (sdepth s). lia.
  - apply (lev_frame _ _ _ _ false s0 s2 _ _ Hf2 Hlev0). lia.
  - exact Hat2.
  - pose proof (loop_fuel_toks s2 _ Hat2) as H. rewrite !app_length in H. rewrite Hp in H.
    simpl in H. lia.
  - rewrite Hl. cbn [app].
    pose proof (frame_trans _ _ _ Hf2 Hf3) as Hf23.
    destruct f1 as [| f1]; [lia |]. destruct f1 as [| f1]; [lia |].
    cbn [stmts_until_brace].
    assert (Hnb : cur_is A G D E s3 (KOp OBraceRight) = false).
    { pose proof Hat3 as Hat3'. rewrite Hp in Hat3'. simpl in Hat3'.
      rewrite (cur_is_toks _ _ _ _ Hat3'). exact Htb. }
    rewrite Hnb. cbv iota.
    destruct (HL d1 s3 rst) as (n & s4 & Hk & He & Hat4 & Hf4).
    + lia.
    + exact Hat3.
    + rewrite (proj1 Hf23). change (sdepth s0) with (sdepth s). lia.
    + apply (lev_frame _ _ _ _ false s0 s3 _ _ Hf23 Hlev0). lia.
    + rewrite Hk. cbn [bind].
      rewrite (cur_is_toks _ _ _ _ Hat4).
      change (tok_is (tk OBraceRight) (KOp OBraceRight)) with true. cbv iota. cbn [bind].
      assert (Hat5 : at_toks (dec_level A G D E s4) (tk OBraceRight :: rst)) by exact Hat4.
      destruct (expect_toks OPS _ _ _ (KOp OBraceRight) 81 Hat5 eq_refl)
        as (p1 & s6 & Hx6 & Hat6 & Hf6).
      rewrite Hx6. cbn [bind].
      exists (mk A C GBlock [p0; p1] [] (ns ++ [n])), s6.
      split; [reflexivity |].
      split; [unfold shape_block; simpl; change (fun x : nodeT => erase x) with erase;
              rewrite !map_app, Hes; simpl; rewrite He; reflexivity |].
      split; [exact Hat6 |].
      apply (frame_trans s (dec_level A G D E s4) s6); [| exact Hf6].
      apply frame_inc_dec. exact (frame_trans _ _ _ Hf23 Hf4).
Qed.

Theorem block_last_ok : forall body last toks,
  Forall (fun st => wf_stmt st /\ SC st) body -> seq_ok body ->
  (exists t l0, toks = t :: l0 /\ tok_is t (KOp OBraceRight) = false /\
                tok_is t (KOp OSemiColon) = false) ->
  SC_last last toks ->
  BP_toks (body ++ [last]) (tk OBraceLeft :: print_stmts body ++ toks ++ [tk OBraceRight]).
Proof.
  intros body last toks Hall Hseq Hfirst HL. apply BPs_toks_BP_toks.
  apply block_last_strong; assumption.
Qed.

(* the block as a statement: the body of RoundTripBase2.SC st, with [print_stmt st] replaced *)
Definition SC_toks (st : stmt2) (toks : list token) : Prop := forall d (s : pstateT) rst,
  need_stmt2 st <= d -> at_toks s (toks ++ rst) -> sfollow st rst ->
  sdepth s + depth_stmt2 st <= MAX_NESTING -> lev false s (depth_stmt2 st) ->
  exists n s1, k_stmt A G D C E (PA d) s = Ok n s1 /\ erase n = shape_stmt st /\
               at_toks s1 rst /\ frame s s1.

Lemma stmt_block_toks : forall body toks, (exists l, toks = tk OBraceLeft :: l) ->
  BPs_toks body toks -> SC_toks (StBlock body) toks.
Proof.
  intros body toks (l & Hl) HB d s rst Hd Hat _ Hdep Hlev.
  pose proof (ms_pos true (StBlock body) : 4 <= need_stmt2 (StBlock body)) as Hnp.
  rewrite need_StBlock in Hd, Hnp. rewrite depth_StBlock in Hdep, Hlev.
  destruct d as [| d0]; [lia |].
  set (s0 := upd_depth A G D E s (S (sdepth s))).
  assert (Hat0 : at_toks s0 (toks ++ rst)) by exact Hat.
  assert (Hc : exists pos, cur s0 = Some (pos, tk OBraceLeft)).
  { rewrite Hl in Hat0. simpl in Hat0. exact (at_toks_cur _ _ _ Hat0). }
  destruct Hc as (pos & Hc).
  destruct (HB d0 s0 rst) as (n & s1 & Hk & He & Hat1 & Hf1).
  - lia.
  - exact Hat0.
  - change (sdepth s0) with (S (sdepth s)). lia.
  - destruct Hlev as (H1 & H2). unfold RoundTripBase2.levw.
    change (lp s0) with (lp s). change (ln s0) with (ln s). split; lia.
  - exists n, (upd_depth A G D E s1 (pred (sdepth s1))).
    split.
    + change (k_stmt A G D C E (PA (S d0)) s) with (nested A G D E 142 (SB (PA d0)) s).
      apply nested_intro; [lia |]. fold s0. unfold stmt_body. rewrite Hc.
      cbn [classify_stmt tk]. exact Hk.
    + split; [exact He |]. split; [exact Hat1 |]. apply frame_nested. exact Hf1.
Qed.

(* ------------------------------------------------------------ for every well-formed block *)

Theorem stmt_last_wf : forall st toks, wf_stmt st -> nosemi_toks st = Some toks ->
  SC_last st toks.
Proof.
  intros st toks Hwf H.
  destruct st as [sm | name st | body | c | c | es | k lbl | | init cond body els | h body
                  | lhs op x body | init tag cls | init bind x cls | cls | d];
    try discriminate H; injection H as <-.
  - exact (simple_nosemi_wf A G D C E OPS sm Hwf).
  - destruct Hwf as (Hw & Hcall).
    exact (go_defer_last true c Hw Hcall (expr2_in_context A G D C E OPS c false Hw)).
  - destruct Hwf as (Hw & Hcall).
    exact (go_defer_last false c Hw Hcall (expr2_in_context A G D C E OPS c false Hw)).
  - apply return_last; [| exact Hwf]. cbn [wf_stmt] in Hwf. apply Forall_forall. intros e Hin.
    apply expr2_in_context. exact (all2_In2 _ _ _ Hwf e Hin).
  - apply branch_last. exact Hwf.
Qed.

Lemma nosemi_first : forall st toks, wf_stmt st -> nosemi_toks st = Some toks ->
  exists t l0, toks = t :: l0 /\ tok_is t (KOp OBraceRight) = false /\
               tok_is t (KOp OSemiColon) = false.
Proof.
  intros st toks Hwf H.
  destruct st as [sm | name st | body | c | c | es | k lbl | | init cond body els | h body
                  | lhs op x body | init tag cls | init bind x cls | cls | d];
    try discriminate H; injection H as <-;
    try (eexists _, _; split; [reflexivity | split; reflexivity]).
  - destruct (first_tok_simple first_tok_e false sm Hwf) as (t & l0 & Hp & Hst).
    exists t, l0. split; [exact Hp |]. unfold start_tok in Hst. tauto.
Qed.

(*  { s1 ; ... ; sn }  for  { s1 ; ... ; sn ; }  *)
Theorem block_last_wf : forall body last toks,
  all2 wf_stmt body -> seq_ok body -> wf_stmt last -> nosemi_toks last = Some toks ->
  BP_toks (body ++ [last]) (tk OBraceLeft :: print_stmts body ++ toks ++ [tk OBraceRight]).
Proof.
  intros body last toks Hwb Hseq Hwf Hn.
  exact (block_last_ok body last toks (wf_stmts_contracts A G D C E OPS body Hwb) Hseq
           (nosemi_first last toks Hwf Hn) (stmt_last_wf last toks Hwf Hn)).
Qed.

End OSLast.

(* non-vacuity:  { x ; return x }  ,  { x ; go f(x) }  ,  { x ; break } *)
Definition ol_call : exp2 := E2Call (E2Ident [102%N]) [E2Ident [120%N]] false.
Definition ol_lasts : list stmt2 :=
  [StReturn [E2Ident [120%N]]; StReturn []; StGo ol_call; StDefer ol_call;
   StBranch KBreak None; StBranch KContinue (Some [76%N])].

Example ol_wf : all2 wf_stmt ol_lasts /\
  all2 (fun st => nosemi_toks st <> None) ol_lasts.
Proof.
  cbn. repeat split; try exact I; try discriminate; try (intros; discriminate);
    unfold branch_kw; auto.
Qed.

Definition ol_alt (last : stmt2) : list token :=
  match nosemi_toks last with
  | Some toks => tk OBraceLeft :: print_stmts os_body ++ toks ++ [tk OBraceRight]
  | None => []
  end.

Example ol_reparse : all2 (fun last =>
  ol_alt last <> print_stmt (StBlock (os_body ++ [last])) /\
  demo_stmt_shape (ol_alt last) = Some (shape_stmt (StBlock (os_body ++ [last]))) /\
  demo_stmt_shape (print_stmt (StBlock (os_body ++ [last]))) =
    Some (shape_stmt (StBlock (os_body ++ [last])))) ol_lasts.
Proof. vm_compute. repeat split; try reflexivity; discriminate. Qed.

(* ============================================================ Parser::parse_stmt *)

Section OSEntry.
Variables (A G D C E : Type).
Variable OPS : ops A G D C.
Notation PA := (parsers_at A G D C E OPS).
Notation erase := (@erase A C).

(* { s1 ; ... ; sn }  as a whole statement, from the initial state: the same tree as
   { s1 ; ... ; sn ; }  (stmt2_roundtrip) *)
Theorem block_last_roundtrip : forall body last toks,
  all2 wf_stmt body -> seq_ok body -> wf_stmt last -> nosemi_toks last = Some toks ->
  depth_stmt2 (StBlock (body ++ [last])) <= DEPTH_BOUND2 ->
  forall d a0 d0 (elems : list (selem A G)) ae ge,
    map tok_of elems = tk OBraceLeft :: print_stmts body ++ toks ++ [tk OBraceRight] ->
    need_stmt2 (StBlock (body ++ [last])) <= d ->
    exists n s',
      entry_stmt A G D C E OPS (PA d) (init_state A G D E a0 d0 elems (TEof ae ge)) = Ok n s' /\
      erase n = shape_stmt (StBlock (body ++ [last])) /\
      s_cur A G D E s' = None /\ s_rest A G D E s' = [].
Proof.
  intros body last toks Hwb Hseq Hwf Hns Hb d a0 d0 elems ae ge Hel Hd. unfold DEPTH_BOUND2 in Hb.
  pose proof (stmt_block_toks A G D C E OPS (body ++ [last]) _ (ex_intro _ _ eq_refl)
    (block_last_strong A G D C E OPS body last toks (wf_stmts_contracts A G D C E OPS body Hwb) Hseq
       (nosemi_first last toks Hwf Hns) (stmt_last_wf A G D C E OPS last toks Hwf Hns))) as HS.
  set (si := init_state A G D E a0 d0 elems (TEof ae ge)).
  assert (Hr : rest_toks A G D E si
                 (tk OBraceLeft :: print_stmts body ++ toks ++ [tk OBraceRight])).
  { split; [exists ae, ge; reflexivity | exact Hel]. }
  destruct (next_toks OPS si _ Hr) as (s0 & Hn & Hat0 & Hf0).
  unfold entry_stmt, ensure_started.
  change (s_started A G D E si) with false. cbv iota. rewrite Hn. cbn [bind].
  destruct Hf0 as (Hd0 & k & Ha & Hb0).
  change (s_depth A G D E si) with 0 in Hd0. change (s_lp A G D E si) with 1 in Ha.
  change (s_ln A G D E si) with 0 in Hb0.
  destruct (HS d s0 []) as (n & s1 & Hk & He & Hat1 & _).
  - exact Hd.
  - rewrite app_nil_r. exact Hat0.
  - apply sfollow_nil.
  - unfold MAX_NESTING. lia.
  - split; lia.
  - exists n, s1. split; [exact Hk |]. split; [exact He |]. exact (at_toks_nil _ Hat1).
Qed.

End OSEntry.

(* ============================================================ other lists, by computation *)

(* Not proved in general here; the executable model on concrete instances.  [print2] /
   [print_stmt] render parameter lists WITHOUT a trailing "," and struct fields /
   interface elements / grouped specs WITH the last ";". *)

Definition ox_int : typ exp2 := TName [105%N; 110%N; 116%N].
Definition ox_sig : exp2 :=
  E2Type (TFunc (Sig [Group [[97%N]] false ox_int; Group [[98%N]] false ox_int] false [])).
Definition ox_struct : exp2 :=
  E2Type (TStruct [Field [[97%N]] ox_int None; Field [[98%N]] ox_int None]).
Definition ox_iface : exp2 :=
  E2Type (TInterface [IMethod [109%N] (Sig [] false []); IUnion [(false, ox_int)]]).
Definition ox_var : stmt2 :=
  StDecl (Decl SKVar true [SpVar [[120%N]] None [E2Ident [97%N]]; SpVar [[121%N]] None [E2Ident [98%N]]]).

(* removes the token in front of the last token:  ... sep close  =>  ... close *)
Fixpoint drop_before_last (l : list token) : list token :=
  match l with
  | [] => []
  | [x; y] => [y]
  | x :: r => x :: drop_before_last r
  end.
(* inserts t in front of the last token *)
Fixpoint add_before_last (t : token) (l : list token) : list token :=
  match l with
  | [] => []
  | [y] => [t; y]
  | x :: r => x :: add_before_last t r
  end.

(* func(a int, b int,) : the trailing comma of a parameter list *)
Example ox_params_trailing_comma :
  demo_shape (add_before_last (tk OComma) (print2 ox_sig)) = Some (shape2 ox_sig) /\
  demo_shape (print2 ox_sig) = Some (shape2 ox_sig) /\
  add_before_last (tk OComma) (print2 ox_sig) <> print2 ox_sig.
Proof. split; [| split]; vm_compute; try reflexivity; discriminate. Qed.

(* struct { a int ; b int }  and  interface { m() ; int } : no ";" in front of "}" *)
Example ox_struct_iface_last_semicolon :
  demo_shape (drop_before_last (print2 ox_struct)) = Some (shape2 ox_struct) /\
  demo_shape (print2 ox_struct) = Some (shape2 ox_struct) /\
  drop_before_last (print2 ox_struct) <> print2 ox_struct /\
  demo_shape (drop_before_last (print2 ox_iface)) = Some (shape2 ox_iface) /\
  demo_shape (print2 ox_iface) = Some (shape2 ox_iface) /\
  drop_before_last (print2 ox_iface) <> print2 ox_iface.
Proof. repeat split; vm_compute; try reflexivity; discriminate. Qed.

(* var ( x = a ; y = b ) ;  : no ";" in front of ")" in a grouped declaration *)
Definition drop_third_last (l : list token) : list token :=
  match rev l with a :: b :: _ :: r => rev (a :: b :: r) | _ => l end.

Example ox_var_group_last_semicolon :
  demo_stmt_shape (drop_third_last (print_stmt ox_var)) = Some (shape_stmt ox_var) /\
  demo_stmt_shape (print_stmt ox_var) = Some (shape_stmt ox_var) /\
  drop_third_last (print_stmt ox_var) <> print_stmt ox_var /\
  last (drop_third_last (print_stmt ox_var)) (tk OComma) = tk OSemiColon.
Proof. repeat split; vm_compute; try reflexivity; discriminate. Qed.

(* ============================================================ FINDING: ";" after "}" *)

(* for / switch / select / block statements are printed WITHOUT a ";" after their "}"
   ([print_stmt]), and their parsers take none.  The ";" that may be written there (the
   one Go's lexer inserts at a line end after "}") is read by the model as an
   ADDITIONAL empty statement:  { for { } ; x ; }  has the statements
   [for; empty; x], while  { for { } x ; }  (the printed spelling) has [for; x].
   For these statements, writing the optional ";" DOES change the tree. *)
Definition of_for : stmt2 := StFor (FCond None) [].
Definition of_x : stmt2 := StSimple (SmExpr (E2Ident [120%N])).

Example semicolon_after_for_block_is_empty_stmt :
  demo_stmt_shape (print_stmt (StBlock [of_for; of_x])) =
    Some (shape_stmt (StBlock [of_for; of_x])) /\
  demo_stmt_shape [tk OBraceLeft; kw KFor; tk OBraceLeft; tk OBraceRight; tk OSemiColon;
                   TLiteral LIdent [120%N]; tk OSemiColon; tk OBraceRight] =
    Some (shape_stmt (StBlock [of_for; StEmpty; of_x])) /\
  shape_stmt (StBlock [of_for; StEmpty; of_x]) <> shape_stmt (StBlock [of_for; of_x]).
Proof. repeat split; vm_compute; try reflexivity; discriminate. Qed.

Example semicolon_after_switch_and_block_is_empty_stmt :
  demo_stmt_shape [tk OBraceLeft; kw KSwitch; tk OBraceLeft; tk OBraceRight; tk OSemiColon;
                   tk OBraceRight] =
    Some (shape_stmt (StBlock [StSwitch None None []; StEmpty])) /\
  demo_stmt_shape [tk OBraceLeft; tk OBraceLeft; tk OBraceRight; tk OSemiColon; tk OBraceRight] =
    Some (shape_stmt (StBlock [StBlock []; StEmpty])).
Proof. split; vm_compute; reflexivity. Qed.

(* by computation: the ";" printed after an if statement may be omitted in front of "}" *)
Definition of_if : stmt2 := StIf None (E2Ident [99%N]) [] None.

Example if_last_semicolon :
  demo_stmt_shape (drop_before_last (print_stmt (StBlock [of_x; of_if]))) =
    Some (shape_stmt (StBlock [of_x; of_if])) /\
  demo_stmt_shape (print_stmt (StBlock [of_x; of_if])) =
    Some (shape_stmt (StBlock [of_x; of_if])) /\
  drop_before_last (print_stmt (StBlock [of_x; of_if])) <> print_stmt (StBlock [of_x; of_if]).
Proof. repeat split; vm_compute; try reflexivity; discriminate. Qed.

(* note: Parser::parse_stmt on a simple statement that ends the INPUT without a ";" is
   rejected (parse_simple_stmt looks at the token after the expression list and fails on
   end of input); Go's lexer always supplies that ";" *)
Example simple_stmt_at_eof_needs_semicolon :
  demo_stmt_shape [TLiteral LIdent [120%N]] = None /\
  demo_stmt_shape (print_stmt of_x) = Some (shape_stmt of_x).
Proof. split; vm_compute; reflexivity. Qed.
