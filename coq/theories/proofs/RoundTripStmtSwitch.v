(* Round trip, stage C, part 3: expression switch, type switch and select
   statements over [stmt2] (spec/Print3.v).

   Productions of Core.v: stmt_body (SCSwitch / SCSelect), parse_switch_stmt,
   is_type_switch, parse_case_block / case_block_loop, parse_type_list,
   parse_select_stmt / comm_block_loop / parse_comm_stmt.  parse_simple_stmt
   and parse_stmt_list come in through the Section hypotheses [H_ssp] /
   [H_slp] (RoundTripBase3), except for the guard of a type switch, for which
   parse_simple_stmt is unfolded here.

   DEVIATION (see [guard_need] below).  The contract of the guard  x.(type)
   is KE2G hdr x = KE2 hdr (guard_of x), which asks for
   need2 (guard_of x) + 2 = max (need2 x) 6 + 2 units of recursion fuel below
   the statement hub, whereas need_stmt2 (StTypeSwitch init bind x clauses)
   only accounts for need2 x.  For  switch x.(type) {}  with a small x and no
   clauses the bound of SC is therefore too weak for KE2G.  [typeswitch_ok]
   and [stmts3_ok] take the extra hypothesis [guard_need]; it holds as soon as
   the switch has a clause or 3 <= need2 x ([guard_need_clauses],
   [guard_need_x]). *)
From Coq Require Import List Arith NArith Lia Bool.
From GoSyn Require Import Token Tok Ast Core.
From GoSyn.spec Require Import Prec Print Print2 Print3.
From GoSyn.proofs Require Import PrecProofs RoundTripProofs RoundTripStmt RoundTripTypesBase
  RoundTripBase2 RoundTripBase3.
Import ListNotations.

Local Arguments cur_not_toks {A G D E} s t ts k _.
Local Arguments cur_tok_toks {A G D E} s t ts site _.
Local Arguments cur_pos_toks {A G D E} s p t _.
Local Arguments lev_frame {A G D E} hdr s s' n m _ _ _.

(* ------------------------------------------------------------ unfolding the spec *)

Lemma print_stmt_switch : forall init tag clauses,
  print_stmt (StSwitch init tag clauses) =
  kw KSwitch :: print_init init ++ popt print2 tag ++ tk OBraceLeft ::
  flat_map print_case clauses ++ [tk OBraceRight].
Proof. reflexivity. Qed.

Lemma print_stmt_typeswitch : forall init bind x clauses,
  print_stmt (StTypeSwitch init bind x clauses) =
  kw KSwitch :: print_init init ++
  match bind with Some v => [ident_tok v; tk ODefine] | None => [] end ++
  print2 (guard_of x) ++ tk OBraceLeft :: flat_map print_tcase clauses ++ [tk OBraceRight].
Proof.
  intros init bind x clauses. unfold guard_of.
  change (print2 (E2Assert x None))
    with (print2 x ++ tk ODot :: tk OParenLeft :: [kw KType] ++ [tk OParenRight]).
  cbn [print_stmt]. unfold print_init. f_equal. f_equal. f_equal.
  rewrite <- app_assoc. reflexivity.
Qed.

Lemma print_stmt_select : forall clauses,
  print_stmt (StSelect clauses) =
  kw KSelect :: tk OBraceLeft :: flat_map print_ccase clauses ++ [tk OBraceRight].
Proof. reflexivity. Qed.

Lemma shape_stmt_switch : forall init tag clauses,
  shape_stmt (StSwitch init tag clauses) =
  mk unit unit GSwitch [tt] []
    [shape_osimple shape2 init; sopt shape2 tag;
     mk unit unit GCaseBlock [tt; tt] [] (map shape_case clauses)].
Proof. reflexivity. Qed.

Lemma shape_stmt_typeswitch : forall init bind x clauses,
  shape_stmt (StTypeSwitch init bind x clauses) =
  mk unit unit GTypeSwitch [tt] []
    [shape_osimple shape2 init; shape_guard bind x;
     mk unit unit GCaseBlock [tt; tt] [] (map shape_tcase clauses)].
Proof. reflexivity. Qed.

Lemma shape_stmt_select : forall clauses,
  shape_stmt (StSelect clauses) =
  mk unit unit GSelect [tt] [] [mk unit unit GCommBlock [tt; tt] [] (map shape_ccase clauses)].
Proof. reflexivity. Qed.

Lemma shape2_guard : forall x,
  shape2 (guard_of x) = mk unit unit GTypeAssert [tt; tt] [] [shape2 x; nnone].
Proof. reflexivity. Qed.

(* the measures (depth mode: cs = 4, ce = 0; need mode: cs = 6, ce = 4) *)
Definition depth_case (cl : option (list exp2) * list stmt2) : nat :=
  Nat.max (omax (max2 depth2) (fst cl)) (depth_block (snd cl)).
Definition need_case (cl : option (list exp2) * list stmt2) : nat :=
  Nat.max (omax (max2 need2) (fst cl)) (need_block (snd cl)).
Definition depth_tcase (cl : option (list typ2) * list stmt2) : nat :=
  Nat.max (omax (max2 depthT2) (fst cl)) (depth_block (snd cl)).
Definition need_tcase (cl : option (list typ2) * list stmt2) : nat :=
  Nat.max (omax (max2 (fun t => needT2 t + 4)) (fst cl)) (need_block (snd cl)).
Definition depth_ccase (cl : option (comm exp2) * list stmt2) : nat :=
  Nat.max (omax (m_comm Nat.max depth2) (fst cl)) (depth_block (snd cl)).
Definition need_ccase (cl : option (comm exp2) * list stmt2) : nat :=
  Nat.max (omax (m_comm Nat.max need2) (fst cl)) (need_block (snd cl)).

Lemma depth_stmt_switch : forall init tag clauses,
  depth_stmt2 (StSwitch init tag clauses) =
  4 + Nat.max (m_osimple Nat.max depth2 init) (Nat.max (omax depth2 tag) (max2 depth_case clauses)).
Proof. reflexivity. Qed.
Lemma need_stmt_switch : forall init tag clauses,
  need_stmt2 (StSwitch init tag clauses) =
  6 + Nat.max (m_osimple Nat.max need2 init) (Nat.max (omax need2 tag) (max2 need_case clauses)).
Proof. reflexivity. Qed.
Lemma depth_stmt_typeswitch : forall init bind x clauses,
  depth_stmt2 (StTypeSwitch init bind x clauses) =
  4 + Nat.max (m_osimple Nat.max depth2 init)
      (Nat.max (Nat.max (depth2 x) 2) (max2 depth_tcase clauses)).
Proof. reflexivity. Qed.
Lemma need_stmt_typeswitch : forall init bind x clauses,
  need_stmt2 (StTypeSwitch init bind x clauses) =
  6 + Nat.max (m_osimple Nat.max need2 init)
      (Nat.max (Nat.max (need2 x) 6) (max2 need_tcase clauses)).
Proof. reflexivity. Qed.
Lemma depth_stmt_select : forall clauses,
  depth_stmt2 (StSelect clauses) = 4 + max2 depth_ccase clauses.
Proof. reflexivity. Qed.
Lemma need_stmt_select : forall clauses,
  need_stmt2 (StSelect clauses) = 6 + max2 need_ccase clauses.
Proof. reflexivity. Qed.

Lemma depth2_guard : forall x, depth2 (guard_of x) = Nat.max (depth2 x) 2.
Proof. reflexivity. Qed.
Lemma need2_guard : forall x, need2 (guard_of x) = Nat.max (need2 x) 6.
Proof. reflexivity. Qed.

Lemma size_stmt_switch : forall init tag clauses,
  size_stmt (StSwitch init tag clauses) =
  S (m_osimple Nat.add size2 init + omax size2 tag +
     sum2 (fun cl : option (list exp2) * list stmt2 =>
             S (omax (sum2 size2) (fst cl) + sum2 size_stmt (snd cl))) clauses).
Proof. reflexivity. Qed.
Lemma size_stmt_typeswitch : forall init bind x clauses,
  size_stmt (StTypeSwitch init bind x clauses) =
  S (m_osimple Nat.add size2 init + size2 x +
     sum2 (fun cl : option (list typ2) * list stmt2 =>
             S (omax (sum2 (sizeX size2)) (fst cl) + sum2 size_stmt (snd cl))) clauses).
Proof. reflexivity. Qed.
Lemma size_stmt_select : forall clauses,
  size_stmt (StSelect clauses) =
  S (sum2 (fun cl : option (comm exp2) * list stmt2 =>
             S (omax (m_comm Nat.add size2) (fst cl) + sum2 size_stmt (snd cl))) clauses).
Proof. reflexivity. Qed.

Lemma wf_stmt_switch : forall init tag clauses,
  wf_stmt (StSwitch init tag clauses) =
  (opt2 (wf_simple2 true) init /\
   opt2 (fun e => wf2 true e /\ brace_stop true e) tag /\
   all2 (fun cl : option (list exp2) * list stmt2 =>
           opt2 (fun es => es <> [] /\ all2 (wf2 false) es) (fst cl) /\
           all2 wf_stmt (snd cl) /\ seq_ok (snd cl)) clauses).
Proof. reflexivity. Qed.
Lemma wf_stmt_typeswitch : forall init bind x clauses,
  wf_stmt (StTypeSwitch init bind x clauses) =
  (opt2 (wf_simple2 true) init /\ primary2 x /\ base_dot x /\ wf2 true x /\
   all2 (fun cl : option (list typ2) * list stmt2 =>
           opt2 (fun ts => ts <> [] /\ all2 (wfT (wf2 false)) ts) (fst cl) /\
           all2 wf_stmt (snd cl) /\ seq_ok (snd cl)) clauses).
Proof. reflexivity. Qed.
Lemma wf_stmt_select : forall clauses,
  wf_stmt (StSelect clauses) =
  all2 (fun cl : option (comm exp2) * list stmt2 =>
          opt2 (wf_comm wf2 is_ident2 no_type_end) (fst cl) /\ all2 wf_stmt (snd cl) /\
          seq_ok (snd cl)) clauses.
Proof. reflexivity. Qed.

(* ------------------------------------------------------------ lists and measures *)

Lemma all2_In : forall (Y : Type) (P : Y -> Prop) l a, all2 P l -> In a l -> P a.
Proof.
  intros Y P l a. induction l as [| b r IH]; simpl; [intros _ [] |].
  intros (Hb & Hr) [-> | Hin]; [exact Hb | exact (IH Hr Hin)].
Qed.

Lemma all2_Forall : forall (Y : Type) (P : Y -> Prop) l, all2 P l -> Forall P l.
Proof.
  intros Y P l. induction l as [| b r IH]; simpl; [constructor |].
  intros (Hb & Hr). constructor; [exact Hb | exact (IH Hr)].
Qed.

Lemma sum2_In : forall (Y : Type) (f : Y -> nat) l a, In a l -> f a <= sum2 f l.
Proof.
  intros Y f l a. induction l as [| b r IH]; simpl; [intros [] |].
  intros [-> | H]; [lia | specialize (IH H); lia].
Qed.

Lemma max2_In : forall (Y : Type) (f : Y -> nat) l a, In a l -> f a <= max2 f l.
Proof.
  intros Y f l a. induction l as [| b r IH]; simpl; [intros [] |].
  intros [-> | H]; [lia | specialize (IH H); lia].
Qed.

Lemma foldl_add_In : forall (f : exp2 -> nat) l a, In a l -> f a <= foldl exp2 Nat.add f l.
Proof.
  intros f l a. induction l as [| b r IH]; simpl; [intros [] |].
  intros [-> | H]; [lia | specialize (IH H); lia].
Qed.

Lemma foldl_max : forall (f : exp2 -> nat) l, foldl exp2 Nat.max f l = max2 f l.
Proof. intros f l. induction l as [| b r IH]; simpl; [reflexivity | rewrite IH; reflexivity]. Qed.

(* the expressions of a simple statement: well-formed and smaller *)
Lemma simple_wf_exprs : forall hdr (sm : simple2) e,
  wf_simple2 hdr sm -> In e (exprs_simple sm) -> wf2 hdr e.
Proof.
  intros hdr sm e Hwf Hin. destruct sm as [e0 | op l r | op e0 | ch v]; simpl in Hwf, Hin.
  - destruct Hin as [<- | []]. exact Hwf.
  - destruct Hwf as (_ & _ & _ & _ & Hl & Hr & _). apply in_app_or in Hin.
    destruct Hin as [Hin | Hin]; [exact (all2_In _ _ _ _ Hl Hin) | exact (all2_In _ _ _ _ Hr Hin)].
  - destruct Hin as [<- | []]. exact (proj2 Hwf).
  - destruct Hwf as (_ & Hc & Hv). destruct Hin as [<- | [<- | []]]; assumption.
Qed.

Lemma simple_size_exprs : forall (sm : simple2) e,
  In e (exprs_simple sm) -> size2 e <= m_simple Nat.add size2 sm.
Proof.
  intros sm e Hin. destruct sm as [e0 | op l r | op e0 | ch v]; simpl in Hin |- *.
  - destruct Hin as [<- | []]. lia.
  - apply in_app_or in Hin. destruct Hin as [Hin | Hin];
      pose proof (foldl_add_In size2 _ _ Hin); lia.
  - destruct Hin as [<- | []]. lia.
  - destruct Hin as [<- | [<- | []]]; lia.
Qed.

(* ------------------------------------------------------------ trees *)

Lemma erase_nnone : forall A C : Type, erase (@nnone A C) = nnone.
Proof. reflexivity. Qed.

Lemma n_kids_erase : forall (A C : Type) (n : node A C), n_kids (erase n) = map erase (n_kids n).
Proof. intros A C n. destruct n. reflexivity. Qed.

Lemma erase_kid : forall (A C : Type) (n : node A C) i, erase (kid n i) = kid (erase n) i.
Proof.
  intros A C n i. unfold kid. rewrite n_kids_erase.
  rewrite <- (erase_nnone A C). rewrite map_nth. reflexivity.
Qed.

(* a tag that is an expression statement but no  x.(type) *)
Lemma not_guard_shape : forall hdr e, wf2 hdr e ->
  is_tag GTypeAssert (shape2 e) && is_tag GNone (kid (shape2 e) 1) = false.
Proof.
  intros hdr e Hwf.
  destruct e as [name | k text | e | op e | op l r | f args ddd | e name | e i | e idx
                 | e lo hi mx | t | sg body | ty elems | e t]; try reflexivity.
  - (* a type operand is no type assertion *)
    destruct t; try reflexivity. destruct s as [ps paren rs]. reflexivity.
  - destruct t as [t |]; [| destruct Hwf as (_ & _ & _ & [])].
    change (shape2 (E2Assert e (Some t)))
      with (mk unit unit GTypeAssert [tt; tt] [] [shape2 e; shapeTy shape2 t]).
    change (kid (mk unit unit GTypeAssert [tt; tt] [] [shape2 e; shapeTy shape2 t]) 1)
      with (shapeTy shape2 t).
    destruct t; try reflexivity. destruct s as [ps paren rs]. reflexivity.
Qed.

(* ------------------------------------------------------------ first tokens *)

Lemma commas_cons : forall (x : list token) r,
  commas (x :: r) = x ++ flat_map (fun y => tk OComma :: y) r.
Proof. reflexivity. Qed.

Lemma simple_first : FirstTokE -> forall hdr (sm : simple2), wf_simple2 hdr sm ->
  exists t l, print_simple print2 sm = t :: l /\ start_tok t.
Proof.
  intros Hft hdr sm Hwf. destruct sm as [e | op l r | op e | ch v]; simpl in Hwf; cbn [print_simple].
  - exact (Hft e hdr Hwf).
  - destruct Hwf as (_ & Hl & _ & _ & Hwl & _). destruct l as [| a l']; [exfalso; apply Hl; reflexivity |].
    destruct Hwl as (Ha & _). destruct (Hft a hdr Ha) as (t & l0 & Hp & Hst).
    cbn [map]. rewrite commas_cons, Hp. eexists _, _. split; [reflexivity | exact Hst].
  - destruct (Hft e hdr (proj2 Hwf)) as (t & l0 & Hp & Hst). rewrite Hp.
    eexists _, _. split; [reflexivity | exact Hst].
  - destruct Hwf as (_ & Hc & _). destruct (Hft ch hdr Hc) as (t & l0 & Hp & Hst). rewrite Hp.
    eexists _, _. split; [reflexivity | exact Hst].
Qed.

(* ------------------------------------------------------------ the productions *)

Section SW.
Variables (A G D C E : Type).
Variable OPS : ops A G D C.
Notation nodeT := (node A C).
Notation pstateT := (pstate A G D E).
Notation cur := (s_cur A G D E).
Notation srest := (s_rest A G D E).
Notation sdepth := (s_depth A G D E).
Notation lp := (s_lp A G D E).
Notation ln := (s_ln A G D E).
Notation PA := (parsers_at A G D C E OPS).
Notation erase := (@erase A C).
Notation at_toks := (@at_toks A G D E).
Notation frame := (@frame A G D E).
Notation lev := (lev A G D E).
Notation KE2 := (KE2 A G D C E OPS).
Notation KE2G := (KE2G A G D C E OPS).
Notation SC := (SC A G D C E OPS).
Notation SLP := (SLP A G D C E OPS).
Notation SSP := (SSP A G D C E OPS).
Notation IHS := (IHS A G D C E OPS).
Notation TNP2 := (TNP A G D C E OPS exp2 print2 shape2 depth2 need2).
Notation TP2 := (TP A G D C E OPS exp2 print2 shape2 depth2 need2).

Hypothesis first_tok_e : FirstTokE.
Hypothesis H_ssp : SSPprov A G D C E OPS.
Hypothesis H_slp : SLPprov A G D C E OPS.

(* level updates do not move the parser *)
Lemma at_toks_level : forall (s : pstateT) a b ts,
  at_toks s ts -> at_toks (upd_level A G D E s a b) ts.
Proof. intros s a b ts H. exact H. Qed.

Lemma frame_restore : forall (s1 s3 : pstateT),
  frame (reset_level A G D E s1) s3 -> frame s1 (upd_level A G D E s3 (lp s1) (ln s1)).
Proof.
  intros s1 s3 (Hd & _). split; [exact Hd |]. exists 0. simpl. lia.
Qed.

(* a header state: expr_level = -1 *)
Lemma lev_hdr : forall (s : pstateT) n, lp s = ln s -> n <= 65 -> lev true s n.
Proof. intros s n H Hn. split; [exact H | lia]. Qed.

(* ------------------------------------------------------------ expression_list on one expression *)

Lemma exprs_one : forall hdr e, KE2 hdr e -> forall d (s : pstateT) rst,
  need2 e + 2 <= d -> at_toks s (print2 e ++ rst) -> efollow hdr e rst ->
  match rst with [] => True | t :: _ => tok_is t (KOp OComma) = false end ->
  sdepth s + depth2 e <= MAX_NESTING -> lev hdr s (depth2 e) ->
  exists n s1, expression_list A G D C E OPS (PA d) s = Ok [n] s1 /\ erase n = shape2 e /\
               at_toks s1 rst /\ frame s s1.
Proof.
  intros hdr e HK d s rst Hd Hat Hfo Hnc Hdep Hlev.
  destruct (HK d s rst Hd Hat Hfo Hdep Hlev) as (n & s1 & Hk & He & Hat1 & Hf1).
  exists n, s1. split; [| split; [exact He | split; [exact Hat1 | exact Hf1]]].
  unfold expression_list. rewrite Hk. cbn [bind]. unfold loop_fuel. cbn [comma_list_loop].
  rewrite (skipped_no OPS s1 rst (KOp OComma) Hat1 Hnc). reflexivity.
Qed.

(* ------------------------------------------------------------ parse_type_list, followed by ":" *)

Definition ttail (l : list typ2) : list token :=
  flat_map (fun t => tk OComma :: printT print2 t) l.

Lemma commas_consT : forall t r,
  commas (map (printT print2) (t :: r)) = printT print2 t ++ ttail r.
Proof.
  intros t r. unfold ttail. simpl. f_equal.
  induction r as [| b r IH]; simpl; [reflexivity | rewrite IH; reflexivity].
Qed.

(* k_type on t from states in the frame of s *)
Definition TypeOK (d : nat) (s : pstateT) (t : typ2) : Prop := forall (s' : pstateT) rst,
  frame s s' -> at_toks s' (printT print2 t ++ rst) -> tfollow t rst ->
  exists n s1, k_type A G D C E (PA d) s' = Ok n s1 /\ erase n = shapeTy shape2 t /\
               at_toks s1 rst /\ frame s' s1.

Lemma tfollow_ttail : forall (t : typ2) l rst, tfollow t (ttail l ++ tk OColon :: rst).
Proof.
  intros t [| b l] rst; unfold ttail; cbn [flat_map app]; apply tfollow_tok; reflexivity.
Qed.

Lemma type_tail_ok : forall d s r, Forall (TypeOK d s) r ->
  forall fuel acc (s' : pstateT) rst,
    frame s s' -> at_toks s' (ttail r ++ tk OColon :: rst) -> length (ttail r) + 1 <= fuel ->
    exists ns s1,
      comma_list_loop A G D C E OPS fuel (k_type A G D C E (PA d)) acc s' = Ok (acc ++ ns) s1 /\
      map erase ns = map (shapeTy shape2) r /\ at_toks s1 (tk OColon :: rst) /\ frame s' s1.
Proof.
  intros d s r Hall. induction Hall as [| b r Hb Hall IH]; intros fuel acc s' rst Hfr Hat Hfu.
  - simpl in Hat. destruct fuel as [| f]; [simpl in Hfu; lia |]. cbn [comma_list_loop].
    rewrite (skipped_no OPS s' _ (KOp OComma) Hat eq_refl). cbn [bind].
    exists [], s'. rewrite app_nil_r.
    split; [reflexivity |]. split; [reflexivity |]. split; [exact Hat | apply frame_refl].
  - simpl in Hat, Hfu. rewrite <- app_assoc in Hat.
    destruct fuel as [| f]; [lia |]. cbn [comma_list_loop].
    destruct (skipped_yes OPS s' _ _ (KOp OComma) Hat eq_refl) as (s1 & Hs & Hat1 & Hf1).
    rewrite Hs. cbn [bind].
    destruct (Hb s1 (ttail r ++ tk OColon :: rst) (frame_trans _ _ _ Hfr Hf1) Hat1
                (tfollow_ttail b r rst)) as (nb & s2 & Hk & Heb & Hat2 & Hf2).
    rewrite Hk. cbn [bind].
    pose proof (frame_trans _ _ _ Hf1 Hf2) as Hf12.
    destruct (IH f (acc ++ [nb]) s2 rst (frame_trans _ _ _ Hfr Hf12) Hat2)
      as (ns & s3 & Hl & Hes & Hat3 & Hf3).
    { rewrite app_length in Hfu. fold (ttail r) in Hfu. lia. }
    exists (nb :: ns), s3. split; [rewrite Hl, <- app_assoc; reflexivity |].
    split; [simpl; rewrite Heb, Hes; reflexivity |].
    split; [exact Hat3 | exact (frame_trans _ _ _ Hf12 Hf3)].
Qed.

Lemma type_list_ok : forall d s ts, ts <> [] -> Forall (TypeOK d s) ts ->
  forall (s' : pstateT) rst,
    frame s s' -> at_toks s' (commas (map (printT print2) ts) ++ tk OColon :: rst) ->
    exists ns s1,
      parse_type_list A G D C E OPS (PA d) s' = Ok ns s1 /\
      map erase ns = map (shapeTy shape2) ts /\ at_toks s1 (tk OColon :: rst) /\ frame s' s1.
Proof.
  intros d s ts Hne Hall s' rst Hfr Hat.
  destruct Hall as [| a r Ha Hall]; [exfalso; apply Hne; reflexivity |].
  rewrite commas_consT in Hat. rewrite <- app_assoc in Hat. unfold parse_type_list.
  destruct (Ha s' (ttail r ++ tk OColon :: rst) Hfr Hat (tfollow_ttail a r rst))
    as (na & s1 & Hk & Hea & Hat1 & Hf1).
  rewrite Hk. cbn [bind].
  destruct (type_tail_ok d s r Hall (loop_fuel A G D E s1) [na] s1 rst
              (frame_trans _ _ _ Hfr Hf1) Hat1) as (ns & s2 & Hl & Hes & Hat2 & Hf2).
  { pose proof (loop_fuel_toks s1 _ Hat1) as H. rewrite app_length in H. lia. }
  exists (na :: ns), s2. split; [exact Hl |].
  split; [simpl; rewrite Hea, Hes; reflexivity |].
  split; [exact Hat2 | exact (frame_trans _ _ _ Hf1 Hf2)].
Qed.

(* ------------------------------------------------------------ clause bodies *)

(* parse_stmt_list on a clause body, from states in the frame of s *)
Definition BodyOK (d : nat) (s : pstateT) (body : list stmt2) : Prop :=
  forall (s' : pstateT) rst,
    frame s s' -> at_toks s' (print_stmts body ++ rst) -> list_end rst ->
    exists ns s1, parse_stmt_list A G D C E (PA d) s' = Ok ns s1 /\
                  map erase ns = map shape_stmt body /\ at_toks s1 rst /\ frame s' s1.

Lemma body_ok : forall n body d (s : pstateT),
  IHS n -> (forall st, In st body -> size_stmt st < n) -> all2 wf_stmt body /\ seq_ok body ->
  need_block body <= d -> sdepth s + depth_block body <= MAX_NESTING ->
  lev false s (depth_block body) -> BodyOK d s body.
Proof.
  intros n body d s IH Hsz (Hwf & Hsq) Hd Hdep Hlev s' rst Hfr Hat Hend.
  assert (HS : SLP body).
  { apply H_slp; [| exact Hsq]. apply Forall_forall. intros st Hin.
    pose proof (all2_In _ _ _ _ Hwf Hin) as Hw. split; [exact Hw |].
    destruct IH as (_ & _ & IH3 & _). exact (IH3 st (Hsz st Hin) Hw). }
  apply (HS d s' rst Hd Hat Hend).
  - unframe. lia.
  - exact (lev_frame false s s' _ _ Hfr Hlev (le_n _)).
Qed.

(* ------------------------------------------------------------ case_block_loop *)

Section CaseLoop.
Variable Y : Type.
Variable printY : Y -> list token.
Variable shapeY : Y -> list shapeT.
Variable ta : bool.
Variable d : nat.
Variable s : pstateT.

Definition head_parse (s' : pstateT) : res A G D E (list nodeT) :=
  if ta then parse_type_list A G D C E OPS (PA d) s' else expression_list A G D C E OPS (PA d) s'.

Definition pcl (cl : option Y * list stmt2) : list token :=
  match fst cl with Some y => kw KCase :: printY y | None => [kw KDefault] end ++
  tk OColon :: print_stmts (snd cl).
Definition shcl (cl : option Y * list stmt2) : shapeT :=
  mk unit unit GCaseClause [tt; tt]
    [AKw (match fst cl with Some _ => KCase | None => KDefault end)]
    [nlist (match fst cl with Some y => shapeY y | None => [] end);
     nlist (map shape_stmt (snd cl))].

Definition HeadOK (y : Y) : Prop := forall (s' : pstateT) rst,
  frame s s' -> at_toks s' (printY y ++ tk OColon :: rst) ->
  exists ns s1, head_parse s' = Ok ns s1 /\ map erase ns = shapeY y /\
                at_toks s1 (tk OColon :: rst) /\ frame s' s1.
Definition ClauseOK (cl : option Y * list stmt2) : Prop :=
  opt2 HeadOK (fst cl) /\ BodyOK d s (snd cl).

Lemma list_end_clauses : forall cls rst, list_end (flat_map pcl cls ++ tk OBraceRight :: rst).
Proof.
  intros [| [[y |] body] r] rst; simpl; auto.
Qed.

Lemma pcl_length : forall cl, 1 <= length (pcl cl).
Proof. intro cl. unfold pcl. rewrite app_length. simpl. lia. Qed.

Lemma case_loop_ok : forall cls, Forall ClauseOK cls ->
  forall fuel acc (s' : pstateT) rst,
    frame s s' -> at_toks s' (flat_map pcl cls ++ tk OBraceRight :: rst) ->
    length (flat_map pcl cls) + 1 <= fuel ->
    exists ns s1,
      case_block_loop A G D C E OPS (PA d) fuel ta acc s' = Ok (acc ++ ns) s1 /\
      map erase ns = map shcl cls /\ at_toks s1 (tk OBraceRight :: rst) /\ frame s' s1.
Proof.
  intros cls Hall. induction Hall as [| cl r (Hh & Hb) Hall IH]; intros fuel acc s' rst Hfr Hat Hfu.
  - simpl in Hat. destruct fuel as [| f]; [simpl in Hfu; lia |]. cbn [case_block_loop].
    rewrite (cur_not_toks s' _ _ (KOp OBraceRight) Hat).
    change (negb (tok_is (tk OBraceRight) (KOp OBraceRight))) with false. cbv iota.
    exists [], s'. rewrite app_nil_r.
    split; [reflexivity |]. split; [reflexivity |]. split; [exact Hat | apply frame_refl].
  - cbn [flat_map] in Hat, Hfu. rewrite app_length in Hfu. pose proof (pcl_length cl) as Hpl.
    destruct fuel as [| f]; [lia |]. cbn [case_block_loop].
    rewrite <- app_assoc in Hat.
    set (rst1 := flat_map pcl r ++ tk OBraceRight :: rst) in *.
    assert (Hend : list_end rst1) by apply list_end_clauses.
    destruct cl as [[y |] body]; unfold pcl in Hat; cbn [fst snd] in Hat, Hh, Hb.
    + rewrite <- app_assoc in Hat. cbn [app] in Hat.
      rewrite (cur_not_toks s' _ _ (KOp OBraceRight) Hat).
      change (negb (tok_is (kw KCase) (KOp OBraceRight))) with true. cbv iota.
      rewrite (cur_is_toks s' _ _ (KKw KCase) Hat).
      change (tok_is (kw KCase) (KKw KCase)) with true. cbv iota.
      destruct (expect_toks OPS s' _ _ (KKw KCase) 97 Hat eq_refl) as (p & s1 & Hx & Hat1 & Hf1).
      rewrite Hx. cbn [bind].
      pose proof (frame_trans _ _ _ Hfr Hf1) as Hfr1.
      destruct (Hh s1 _ Hfr1 Hat1) as (l & s2 & Hhp & Hel & Hat2 & Hf2).
      unfold head_parse in Hhp. rewrite Hhp. cbn [bind].
      destruct (expect_toks OPS s2 _ _ (KOp OColon) 99 Hat2 eq_refl) as (pc & s3 & Hx3 & Hat3 & Hf3).
      rewrite Hx3. cbn [bind].
      pose proof (frame_trans _ _ _ (frame_trans _ _ _ Hf1 Hf2) Hf3) as Hf13.
      destruct (Hb s3 rst1 (frame_trans _ _ _ Hfr Hf13) Hat3 Hend) as (nb & s4 & Hsl & Heb & Hat4 & Hf4).
      rewrite Hsl. cbn [bind].
      pose proof (frame_trans _ _ _ Hf13 Hf4) as Hf14.
      destruct (IH f (acc ++ [mk A C GCaseClause [p; pc] [AKw KCase] [nlist l; nlist nb]]) s4 rst
                  (frame_trans _ _ _ Hfr Hf14) Hat4) as (ns & s5 & Hl & Hes & Hat5 & Hf5); [lia |].
      exists (mk A C GCaseClause [p; pc] [AKw KCase] [nlist l; nlist nb] :: ns), s5.
      split; [rewrite Hl, <- app_assoc; reflexivity |].
      split; [| split; [exact Hat5 | exact (frame_trans _ _ _ Hf14 Hf5)]].
      cbn [map]. rewrite Hes. f_equal. unfold mk, nlist. rewrite !erase_Nd. cbn [map].
      rewrite !erase_Nd. rewrite Hel, Heb. reflexivity.
    + cbn [app] in Hat.
      rewrite (cur_not_toks s' _ _ (KOp OBraceRight) Hat).
      change (negb (tok_is (kw KDefault) (KOp OBraceRight))) with true. cbv iota.
      rewrite (cur_is_toks s' _ _ (KKw KCase) Hat).
      change (tok_is (kw KDefault) (KKw KCase)) with false. cbv iota.
      destruct (expect_toks OPS s' _ _ (KKw KDefault) 98 Hat eq_refl) as (p & s1 & Hx & Hat1 & Hf1).
      rewrite Hx. cbn [bind].
      destruct (expect_toks OPS s1 _ _ (KOp OColon) 99 Hat1 eq_refl) as (pc & s3 & Hx3 & Hat3 & Hf3).
      rewrite Hx3. cbn [bind].
      pose proof (frame_trans _ _ _ Hf1 Hf3) as Hf13.
      destruct (Hb s3 rst1 (frame_trans _ _ _ Hfr Hf13) Hat3 Hend) as (nb & s4 & Hsl & Heb & Hat4 & Hf4).
      rewrite Hsl. cbn [bind].
      pose proof (frame_trans _ _ _ Hf13 Hf4) as Hf14.
      destruct (IH f (acc ++ [mk A C GCaseClause [p; pc] [AKw KDefault] [nlist []; nlist nb]]) s4 rst
                  (frame_trans _ _ _ Hfr Hf14) Hat4) as (ns & s5 & Hl & Hes & Hat5 & Hf5); [lia |].
      exists (mk A C GCaseClause [p; pc] [AKw KDefault] [nlist []; nlist nb] :: ns), s5.
      split; [rewrite Hl, <- app_assoc; reflexivity |].
      split; [| split; [exact Hat5 | exact (frame_trans _ _ _ Hf14 Hf5)]].
      cbn [map]. rewrite Hes. f_equal. unfold mk, nlist. rewrite !erase_Nd. cbn [map].
      rewrite !erase_Nd. rewrite Heb. reflexivity.
Qed.

(* parse_case_block *)
Lemma case_block_ok : forall cls, Forall ClauseOK cls ->
  forall (s' : pstateT) rst,
    frame s s' -> at_toks s' (tk OBraceLeft :: flat_map pcl cls ++ tk OBraceRight :: rst) ->
    exists n s1,
      parse_case_block A G D C E OPS (PA d) ta s' = Ok n s1 /\
      erase n = mk unit unit GCaseBlock [tt; tt] [] (map shcl cls) /\
      at_toks s1 rst /\ frame s' s1.
Proof.
  intros cls Hall s' rst Hfr Hat. unfold parse_case_block.
  destruct (expect_toks OPS s' _ _ (KOp OBraceLeft) 100 Hat eq_refl) as (p0 & s1 & Hx & Hat1 & Hf1).
  rewrite Hx. cbn [bind].
  destruct (case_loop_ok cls Hall (loop_fuel A G D E s1) [] s1 rst (frame_trans _ _ _ Hfr Hf1) Hat1)
    as (ns & s2 & Hl & Hes & Hat2 & Hf2).
  { pose proof (loop_fuel_toks s1 _ Hat1) as H. rewrite app_length in H. lia. }
  rewrite Hl. cbn [bind app].
  destruct (expect_toks OPS s2 _ _ (KOp OBraceRight) 101 Hat2 eq_refl) as (p1 & s3 & Hx3 & Hat3 & Hf3).
  rewrite Hx3. cbn [bind].
  exists (mk A C GCaseBlock [p0; p1] [] ns), s3.
  split; [reflexivity |].
  split; [unfold mk; rewrite erase_Nd, Hes; reflexivity |].
  split; [exact Hat3 | exact (frame_trans _ _ _ (frame_trans _ _ _ Hf1 Hf2) Hf3)].
Qed.

End CaseLoop.

(* ------------------------------------------------------------ entering the statement hub *)

Lemma SC_intro : forall st, 1 <= need_stmt2 st -> 1 <= depth_stmt2 st ->
  (forall d (s : pstateT) rst,
     need_stmt2 st <= S d -> at_toks s (print_stmt st ++ rst) ->
     sdepth s + depth_stmt2 st <= S MAX_NESTING -> lev false s (depth_stmt2 st) ->
     exists n s1, stmt_body A G D C E OPS (PA d) s = Ok n s1 /\ erase n = shape_stmt st /\
                  at_toks s1 rst /\ frame s s1) ->
  SC st.
Proof.
  intros st Hn Hdp HB d s rst Hd Hat _ Hdep Hlev. destruct d as [| d0]; [lia |].
  change (k_stmt A G D C E (PA (S d0)) s) with (nested A G D E 142 (stmt_body A G D C E OPS (PA d0)) s).
  set (s0 := upd_depth A G D E s (S (sdepth s))).
  destruct (HB d0 s0 rst Hd Hat) as (n & s1 & Hk & He & Hat1 & Hf1).
  - change (sdepth s0) with (S (sdepth s)). lia.
  - exact Hlev.
  - exists n, (upd_depth A G D E s1 (pred (sdepth s1))).
    split; [apply nested_intro; [lia | exact Hk] |].
    split; [exact He |]. split; [exact Hat1 |]. apply frame_nested. exact Hf1.
Qed.

(* ------------------------------------------------------------ parse_comm_stmt *)

Lemma map_erase_length2 : forall (ns : list nodeT) (l : list exp2),
  map erase ns = map shape2 l -> length ns = length l.
Proof.
  intros ns l H. rewrite <- (map_length erase ns), H, map_length. reflexivity.
Qed.

Lemma single_node2 : forall (ns : list nodeT) e, map erase ns = map shape2 [e] ->
  exists n, ns = [n] /\ erase n = shape2 e.
Proof.
  intros ns e H. destruct ns as [| n [| n2 r]]; simpl in H; try discriminate H.
  injection H as H. exists n; split; [reflexivity | exact H].
Qed.

Lemma check_assign_ok2 : forall l (ns : list nodeT) (s : pstateT),
  map erase ns = map shape2 l -> all2 is_ident2 l ->
  check_assign_stmt A G D C E ns s = Ok tt s.
Proof.
  induction l as [| e r IH]; intros ns s Hes Hid; destruct ns as [| n ns']; simpl in Hes;
    try discriminate Hes; [reflexivity |].
  injection Hes as Hn Hr. destruct Hid as (He & Hid). cbn [check_assign_stmt].
  rewrite <- (is_tag_erase GIdent n), Hn. destruct e; try destruct He.
  change (is_tag GIdent (shape2 (E2Ident name))) with true. cbv iota.
  apply IH; assumption.
Qed.

(* a channel expression in front of "<-" *)
Lemma efollow_arrow : forall hdr ch r, no_type_end ch -> efollow hdr ch (tk OArrow :: r).
Proof.
  intros hdr ch r Hn. split.
  - split; [reflexivity |]. split; [intro H; discriminate H |].
    intros op Ho. injection Ho as <-. reflexivity.
  - unfold tyfollow. unfold no_type_end in Hn. destruct (last_prim ch); try exact I. destruct Hn.
Qed.

Definition depth_comm (c : comm exp2) : nat := m_comm Nat.max depth2 c.
Definition need_comm (c : comm exp2) : nat := m_comm Nat.max need2 c.

Lemma comm_ok : forall c, wf_comm wf2 is_ident2 no_type_end c ->
  (forall e, In e (exprs_comm c) -> KE2 false e) ->
  forall d (s : pstateT) rst,
    need_comm c + 2 <= d -> at_toks s (print_comm print2 c ++ tk OColon :: rst) ->
    sdepth s + depth_comm c <= MAX_NESTING -> lev false s (depth_comm c) ->
    exists n s1, parse_comm_stmt A G D C E OPS (PA d) s = Ok n s1 /\
                 erase n = shape_comm shape2 c /\ at_toks s1 (tk OColon :: rst) /\ frame s s1.
Proof.
  intros c Hwf HK d s rst Hd Hat Hdep Hlev. unfold parse_comm_stmt.
  destruct c as [ch v | l op r | e]; unfold need_comm, depth_comm in *;
    cbn [m_comm print_comm exprs_comm] in *.
  - (* ch <- v *)
    destruct Hwf as (Hnt & _ & _). rewrite <- app_assoc in Hat. cbn [app] in Hat.
    destruct (exprs_one false ch (HK ch (or_introl eq_refl)) d s _ ltac:(lia) Hat
                (efollow_arrow false ch _ Hnt) eq_refl)
      as (n & s1 & Hl & He & Hat1 & Hf1).
    { lia. }
    { apply (lev_frame false s s _ _ (frame_refl s) Hlev); lia. }
    rewrite Hl. cbn [bind].
    destruct (at_toks_cur _ _ _ Hat1) as (p1 & Hc1). rewrite Hc1. unfold tk. cbv iota.
    destruct (next_toks OPS _ _ (at_toks_rest' _ _ _ Hat1)) as (s2 & Hn & Hat2 & Hf2).
    rewrite Hn. cbn [bind].
    pose proof (frame_trans _ _ _ Hf1 Hf2) as Hf12.
    destruct (HK v (or_intror (or_introl eq_refl)) d s2 (tk OColon :: rst))
      as (nv & s3 & Hk & Hev & Hat3 & Hf3).
    + lia.
    + exact Hat2.
    + apply efollow_close. reflexivity.
    + unframe. lia.
    + apply (lev_frame false s s2 _ _ Hf12 Hlev); lia.
    + rewrite Hk. cbn [bind check_single_expr].
      exists (mk A C GSend [p1] [] [n; nv]), s3.
      split; [reflexivity |].
      split; [unfold mk; rewrite erase_Nd; cbn [map]; rewrite He, Hev; reflexivity |].
      split; [exact Hat3 | exact (frame_trans _ _ _ Hf12 Hf3)].
  - (* lhs = <-ch   lhs := <-ch *)
    destruct Hwf as (Hop & Hlen & Hwl & Hwr & Hdef). rewrite foldl_max in Hd, Hdep, Hlev.
    rewrite <- app_assoc in Hat. cbn [app] in Hat.
    assert (Hne : l <> []) by (intro H; subst l; simpl in Hlen; lia).
    assert (Hall : Forall (KE2 false) l).
    { apply Forall_forall. intros a Ha. apply HK. apply in_or_app. left. exact Ha. }
    assert (Hsep : list_follow (tk op :: print2 r ++ tk OColon :: rst)).
    { destruct Hop as [-> | ->]; split; reflexivity. }
    destruct (exprs_ok2 A G D C E OPS false l Hne Hall d s _ Hsep)
      as (nl & s1 & Hl & Hel & Hat1 & Hf1).
    { lia. }
    { lia. }
    { apply (lev_frame false s s _ _ (frame_refl s) Hlev); lia. }
    { exact Hat. }
    rewrite Hl. cbn [bind].
    destruct (at_toks_cur _ _ _ Hat1) as (p1 & Hc1). rewrite Hc1.
    destruct (next_toks OPS _ _ (at_toks_rest' _ _ _ Hat1)) as (s2 & Hn & Hat2 & Hf2).
    pose proof (frame_trans _ _ _ Hf1 Hf2) as Hf12.
    assert (Hlen3 : (3 <=? length nl) = false).
    { rewrite (map_erase_length2 nl l Hel). apply Nat.leb_gt. lia. }
    destruct (HK r (in_or_app l [r] r (or_intror (or_introl eq_refl))) d s2 (tk OColon :: rst))
      as (nr & s3 & Hk & Her & Hat3 & Hf3).
    + lia.
    + exact Hat2.
    + apply efollow_close. reflexivity.
    + unframe. lia.
    + apply (lev_frame false s s2 _ _ Hf12 Hlev); lia.
    + exists (mk A C GAssign [p1] [AOp op] [nlist nl; nlist [nr]]), s3.
      split; [| split; [| split; [exact Hat3 | exact (frame_trans _ _ _ Hf12 Hf3)]]].
      * destruct Hop as [-> | ->]; unfold tk; cbv iota; rewrite Hlen3; cbv iota;
          rewrite Hn; cbn [bind].
        -- change (op_eqb OAssign ODefine) with false. cbv iota. cbn [bind].
           rewrite Hk. reflexivity.
        -- change (op_eqb ODefine ODefine) with true. cbv iota.
           rewrite (check_assign_ok2 l nl s2 Hel (Hdef eq_refl)). cbn [bind].
           rewrite Hk. reflexivity.
      * unfold mk, nlist. rewrite !erase_Nd. cbn [map]. rewrite !erase_Nd. cbn [map].
        rewrite Hel, Her. reflexivity.
  - (* an expression (a receive operation) *)
    destruct (exprs_one false e (HK e (or_introl eq_refl)) d s _ Hd Hat
                (efollow_close false e (tk OColon) rst eq_refl) eq_refl Hdep Hlev)
      as (n & s1 & Hl & He & Hat1 & Hf1).
    rewrite Hl. cbn [bind].
    destruct (at_toks_cur _ _ _ Hat1) as (p1 & Hc1). rewrite Hc1. unfold tk. cbv iota.
    cbn [check_single_expr bind].
    exists (mk A C GExprStmt [] [] [n]), s1.
    split; [reflexivity |].
    split; [unfold mk; rewrite erase_Nd; cbn [map]; rewrite He; reflexivity |].
    split; [exact Hat1 | exact Hf1].
Qed.

Lemma comm_wf_exprs : forall (c : comm exp2) e,
  wf_comm wf2 is_ident2 no_type_end c -> In e (exprs_comm c) -> wf2 false e.
Proof.
  intros c e Hwf Hin. destruct c as [ch v | l op r | e0]; simpl in Hwf, Hin.
  - destruct Hwf as (_ & Hc & Hv). destruct Hin as [<- | [<- | []]]; assumption.
  - destruct Hwf as (_ & _ & Hl & Hr & _). apply in_app_or in Hin.
    destruct Hin as [Hin | [<- | []]]; [exact (all2_In _ _ _ _ Hl Hin) | exact Hr].
  - destruct Hin as [<- | []]. exact Hwf.
Qed.

Lemma comm_size_exprs : forall (c : comm exp2) e,
  In e (exprs_comm c) -> size2 e <= m_comm Nat.add size2 c.
Proof.
  intros c e Hin. destruct c as [ch v | l op r | e0]; simpl in Hin |- *.
  - destruct Hin as [<- | [<- | []]]; lia.
  - apply in_app_or in Hin. destruct Hin as [Hin | [<- | []]];
      [pose proof (foldl_add_In size2 _ _ Hin); lia | lia].
  - destruct Hin as [<- | []]. lia.
Qed.

(* ------------------------------------------------------------ comm_block_loop *)

Definition CommOK (d : nat) (s : pstateT) (c : comm exp2) : Prop := forall (s' : pstateT) rst,
  frame s s' -> at_toks s' (print_comm print2 c ++ tk OColon :: rst) ->
  exists n s1, parse_comm_stmt A G D C E OPS (PA d) s' = Ok n s1 /\
               erase n = shape_comm shape2 c /\ at_toks s1 (tk OColon :: rst) /\ frame s' s1.
Definition CClauseOK (d : nat) (s : pstateT) (cl : option (comm exp2) * list stmt2) : Prop :=
  opt2 (CommOK d s) (fst cl) /\ BodyOK d s (snd cl).

Lemma list_end_cclauses : forall cls rst,
  list_end (flat_map print_ccase cls ++ tk OBraceRight :: rst).
Proof. intros [| [[c |] body] r] rst; simpl; auto. Qed.

Lemma print_ccase_length : forall cl, 1 <= length (print_ccase cl).
Proof. intro cl. unfold print_ccase. rewrite app_length. simpl. lia. Qed.

Lemma comm_loop_ok : forall d s cls, Forall (CClauseOK d s) cls ->
  forall fuel acc (s' : pstateT) rst,
    frame s s' -> at_toks s' (flat_map print_ccase cls ++ tk OBraceRight :: rst) ->
    length (flat_map print_ccase cls) + 1 <= fuel ->
    exists ns s1,
      comm_block_loop A G D C E OPS (PA d) fuel acc s' = Ok (acc ++ ns) s1 /\
      map erase ns = map shape_ccase cls /\ at_toks s1 (tk OBraceRight :: rst) /\ frame s' s1.
Proof.
  intros d s cls Hall. induction Hall as [| cl r (Hh & Hb) Hall IH];
    intros fuel acc s' rst Hfr Hat Hfu.
  - simpl in Hat. destruct fuel as [| f]; [simpl in Hfu; lia |]. cbn [comm_block_loop].
    rewrite (cur_not_toks s' _ _ (KOp OBraceRight) Hat).
    change (negb (tok_is (tk OBraceRight) (KOp OBraceRight))) with false. cbv iota.
    exists [], s'. rewrite app_nil_r.
    split; [reflexivity |]. split; [reflexivity |]. split; [exact Hat | apply frame_refl].
  - cbn [flat_map] in Hat, Hfu. rewrite app_length in Hfu. pose proof (print_ccase_length cl) as Hpl.
    destruct fuel as [| f]; [lia |]. cbn [comm_block_loop].
    rewrite <- app_assoc in Hat.
    set (rst1 := flat_map print_ccase r ++ tk OBraceRight :: rst) in *.
    assert (Hend : list_end rst1) by apply list_end_cclauses.
    destruct cl as [[c |] body]; unfold print_ccase in Hat; cbn [fst snd] in Hat, Hh, Hb.
    + rewrite <- app_assoc in Hat. cbn [app] in Hat.
      rewrite (cur_not_toks s' _ _ (KOp OBraceRight) Hat).
      change (negb (tok_is (kw KCase) (KOp OBraceRight))) with true. cbv iota zeta.
      rewrite (cur_is_toks s' _ _ (KKw KCase) Hat).
      change (tok_is (kw KCase) (KKw KCase)) with true. cbv iota.
      destruct (at_toks_cur _ _ _ Hat) as (pos & Hc). rewrite (cur_pos_toks s' pos _ Hc).
      destruct (expect_toks OPS s' _ _ (KKw KCase) 105 Hat eq_refl) as (p & s1 & Hx & Hat1 & Hf1).
      rewrite Hx. cbn [bind].
      pose proof (frame_trans _ _ _ Hfr Hf1) as Hfr1.
      destruct (Hh s1 _ Hfr1 Hat1) as (nc & s2 & Hhp & Hec & Hat2 & Hf2).
      rewrite Hhp. cbn [bind fst snd].
      destruct (expect_toks OPS s2 _ _ (KOp OColon) 107 Hat2 eq_refl) as (pc & s3 & Hx3 & Hat3 & Hf3).
      rewrite Hx3. cbn [bind].
      pose proof (frame_trans _ _ _ (frame_trans _ _ _ Hf1 Hf2) Hf3) as Hf13.
      destruct (Hb s3 rst1 (frame_trans _ _ _ Hfr Hf13) Hat3 Hend) as (nb & s4 & Hsl & Heb & Hat4 & Hf4).
      rewrite Hsl. cbn [bind].
      pose proof (frame_trans _ _ _ Hf13 Hf4) as Hf14.
      destruct (IH f (acc ++ [mk A C GCommClause [pos; pc] [AKw KCase] [nopt (Some nc); nlist nb]]) s4 rst
                  (frame_trans _ _ _ Hfr Hf14) Hat4) as (ns & s5 & Hl & Hes & Hat5 & Hf5); [lia |].
      exists (mk A C GCommClause [pos; pc] [AKw KCase] [nopt (Some nc); nlist nb] :: ns), s5.
      split; [rewrite Hl, <- app_assoc; reflexivity |].
      split; [| split; [exact Hat5 | exact (frame_trans _ _ _ Hf14 Hf5)]].
      cbn [map]. rewrite Hes. f_equal. unfold mk, nlist, nopt. rewrite !erase_Nd. cbn [map].
      rewrite !erase_Nd. rewrite Hec, Heb. reflexivity.
    + cbn [app] in Hat.
      rewrite (cur_not_toks s' _ _ (KOp OBraceRight) Hat).
      change (negb (tok_is (kw KDefault) (KOp OBraceRight))) with true. cbv iota zeta.
      rewrite (cur_is_toks s' _ _ (KKw KCase) Hat).
      change (tok_is (kw KDefault) (KKw KCase)) with false. cbv iota.
      destruct (at_toks_cur _ _ _ Hat) as (pos & Hc). rewrite (cur_pos_toks s' pos _ Hc).
      destruct (expect_toks OPS s' _ _ (KKw KDefault) 106 Hat eq_refl) as (p & s1 & Hx & Hat1 & Hf1).
      rewrite Hx. cbn [bind fst snd].
      destruct (expect_toks OPS s1 _ _ (KOp OColon) 107 Hat1 eq_refl) as (pc & s3 & Hx3 & Hat3 & Hf3).
      rewrite Hx3. cbn [bind].
      pose proof (frame_trans _ _ _ Hf1 Hf3) as Hf13.
      destruct (Hb s3 rst1 (frame_trans _ _ _ Hfr Hf13) Hat3 Hend) as (nb & s4 & Hsl & Heb & Hat4 & Hf4).
      rewrite Hsl. cbn [bind].
      pose proof (frame_trans _ _ _ Hf13 Hf4) as Hf14.
      destruct (IH f (acc ++ [mk A C GCommClause [pos; pc] [AKw KDefault] [nopt None; nlist nb]]) s4 rst
                  (frame_trans _ _ _ Hfr Hf14) Hat4) as (ns & s5 & Hl & Hes & Hat5 & Hf5); [lia |].
      exists (mk A C GCommClause [pos; pc] [AKw KDefault] [nopt None; nlist nb] :: ns), s5.
      split; [rewrite Hl, <- app_assoc; reflexivity |].
      split; [| split; [exact Hat5 | exact (frame_trans _ _ _ Hf14 Hf5)]].
      cbn [map]. rewrite Hes. f_equal. unfold mk, nlist, nopt, nnone. rewrite !erase_Nd. cbn [map].
      rewrite !erase_Nd. rewrite Heb. reflexivity.
Qed.

(* ------------------------------------------------------------ select *)

Lemma stmt_in_clause_size : forall (Y : Type) (g : Y -> nat) (cls : list (Y * list stmt2)) cl st,
  In cl cls -> In st (snd cl) ->
  size_stmt st < S (sum2 (fun c : Y * list stmt2 => S (g (fst c) + sum2 size_stmt (snd c))) cls).
Proof.
  intros Y g cls cl st Hcl Hst.
  pose proof (sum2_In _ (fun c : Y * list stmt2 => S (g (fst c) + sum2 size_stmt (snd c))) cls cl Hcl) as H1.
  pose proof (sum2_In _ size_stmt (snd cl) st Hst) as H2. simpl in H1. lia.
Qed.

Theorem select_ok : forall clauses,
  IHS (size_stmt (StSelect clauses)) -> wf_stmt (StSelect clauses) -> SC (StSelect clauses).
Proof.
  intros clauses IH Hwf. rewrite wf_stmt_select in Hwf.
  apply SC_intro; [rewrite need_stmt_select; lia | rewrite depth_stmt_select; lia |].
  intros d s rst Hd Hat Hdep Hlev.
  rewrite need_stmt_select in Hd. rewrite depth_stmt_select in Hdep, Hlev.
  rewrite print_stmt_select in Hat. cbn [app] in Hat. rewrite <- app_assoc in Hat. cbn [app] in Hat.
  rewrite shape_stmt_select.
  assert (Hcls : Forall (CClauseOK d s) clauses).
  { apply Forall_forall. intros cl Hin.
    destruct (all2_In _ _ _ _ Hwf Hin) as (Hwc & Hwb).
    pose proof (max2_In _ need_ccase clauses cl Hin) as Hn.
    pose proof (max2_In _ depth_ccase clauses cl Hin) as Hdp.
    set (MN := max2 need_ccase clauses) in *. set (MD := max2 depth_ccase clauses) in *.
    unfold need_ccase in Hn. unfold depth_ccase in Hdp.
    split.
    - destruct cl as [[c |] body]; cbn [fst snd opt2 omax] in *; [| exact I].
      intros s' rst' Hfr Hat'.
      apply (comm_ok c Hwc).
      + intros e He. destruct IH as (IH1 & _). apply IH1; [| exact (comm_wf_exprs c e Hwc He)].
        rewrite size_stmt_select.
        pose proof (sum2_In _ (fun cl : option (comm exp2) * list stmt2 =>
                       S (omax (m_comm Nat.add size2) (fst cl) + sum2 size_stmt (snd cl)))
                      clauses _ Hin) as Hs.
        pose proof (comm_size_exprs c e He). cbn [fst snd omax] in Hs. lia.
      + unfold need_comm. lia.
      + exact Hat'.
      + unfold depth_comm. unframe. lia.
      + apply (lev_frame false s s' _ _ Hfr Hlev). unfold depth_comm. lia.
    - apply (body_ok (size_stmt (StSelect clauses)) (snd cl) d s IH).
      + intros st Hst. rewrite size_stmt_select.
        exact (stmt_in_clause_size _ (omax (m_comm Nat.add size2)) clauses cl st Hin Hst).
      + exact Hwb.
      + lia.
      + lia.
      + apply (lev_frame false s s _ _ (frame_refl s) Hlev). lia. }
  destruct (at_toks_cur _ _ _ Hat) as (pos & Hc).
  unfold stmt_body. rewrite Hc. unfold kw. cbn [classify_stmt]. unfold parse_select_stmt.
  destruct (expect_toks OPS s _ _ (KKw KSelect) 108 Hat eq_refl) as (p & s1 & Hx & Hat1 & Hf1).
  rewrite Hx. cbn [bind].
  destruct (expect_toks OPS s1 _ _ (KOp OBraceLeft) 109 Hat1 eq_refl) as (p0 & s2 & Hx2 & Hat2 & Hf2).
  rewrite Hx2. cbn [bind].
  pose proof (frame_trans _ _ _ Hf1 Hf2) as Hf12.
  destruct (comm_loop_ok d s clauses Hcls (loop_fuel A G D E s2) [] s2 rst Hf12 Hat2)
    as (ns & s3 & Hl & Hes & Hat3 & Hf3).
  { pose proof (loop_fuel_toks s2 _ Hat2) as H. rewrite app_length in H. lia. }
  rewrite Hl. cbn [bind app].
  destruct (expect_toks OPS s3 _ _ (KOp OBraceRight) 110 Hat3 eq_refl) as (p1 & s4 & Hx4 & Hat4 & Hf4).
  rewrite Hx4. cbn [bind].
  exists (mk A C GSelect [p] [] [mk A C GCommBlock [p0; p1] [] ns]), s4.
  split; [reflexivity |].
  split; [unfold mk; rewrite !erase_Nd; cbn [map]; rewrite erase_Nd, Hes; reflexivity |].
  split; [exact Hat4 | exact (frame_trans _ _ _ (frame_trans _ _ _ Hf12 Hf3) Hf4)].
Qed.

(* ------------------------------------------------------------ parse_switch_stmt: the header *)

Definition switch_hdr (self : parsers A G D C E) (s2 : pstateT)
  : res A G D E (option nodeT * option nodeT) :=
  if cur_not A G D E s2 (KOp OBraceLeft) then
    bind A G D E
      (if cur_not A G D E s2 (KOp OSemiColon) then
         bind A G D E (parse_simple_stmt A G D C E OPS self s2) (fun st s3 => Ok (Some st) s3)
       else Ok None s2)
      (fun tag0 s3 =>
         bind A G D E (skipped A G D C E OPS (KOp OSemiColon) s3)
           (fun semi s4 =>
              if semi then
                if cur_not A G D E s4 (KOp OBraceLeft) then
                  bind A G D E (parse_simple_stmt A G D C E OPS self s4)
                    (fun st s5 => Ok (tag0, Some st) s5)
                else Ok (tag0, None) s4
              else Ok (None, tag0) s4))
  else Ok (None, None) s2.

Definition switch_tail (self : parsers A G D C E) (pos : A) (lp0 ln0 : nat)
  (it : option nodeT * option nodeT) (s3 : pstateT) : res A G D E nodeT :=
  let '(init, tag) := it in
  let s4 := upd_level A G D E s3 lp0 ln0 in
  bind A G D E (is_type_switch A G D C E tag s4) (fun ts s5 =>
  bind A G D E (parse_case_block A G D C E OPS self ts s5) (fun block s6 =>
  if ts then Ok (mk A C GTypeSwitch [pos] [] [nopt init; nopt tag; block]) s6
  else
    match tag with
    | None => Ok (mk A C GSwitch [pos] [] [nopt init; nnone; block]) s6
    | Some t =>
        if is_tag GExprStmt t then Ok (mk A C GSwitch [pos] [] [nopt init; kid t 0; block]) s6
        else Err (else_error A G D E s6 103) s6
    end)).

Lemma parse_switch_unfold : forall self (s : pstateT),
  parse_switch_stmt A G D C E OPS self s =
  bind A G D E (expect A G D C E OPS (KKw KSwitch) 102 s) (fun pos s1 =>
  bind A G D E (switch_hdr self (reset_level A G D E s1))
    (fun it s3 => switch_tail self pos (lp s1) (ln s1) it s3)).
Proof. reflexivity. Qed.

(* parse_simple_stmt on a header piece (tokens toks, tree sh) followed by [follow],
   at expr_level = -1 and Parser.depth = sd *)
Definition SimpleOK (d sd : nat) (toks : list token) (sh : shapeT) (follow : token) : Prop :=
  forall (s' : pstateT) rst, sdepth s' = sd -> lp s' = ln s' ->
    at_toks s' (toks ++ follow :: rst) ->
    exists n s1, parse_simple_stmt A G D C E OPS (PA d) s' = Ok n s1 /\ erase n = sh /\
                 at_toks s1 (follow :: rst) /\ frame s' s1.

Definition starts_simple (toks : list token) : Prop :=
  exists t l, toks = t :: l /\ start_tok t.

Definition piece : Type := option (list token * shapeT).
Definition ptoks (o : piece) (sep : list token) : list token :=
  match o with Some (t, _) => t ++ sep | None => [] end.
Definition psh (o : piece) : shapeT := match o with Some (_, sh) => sh | None => nnone end.
Definition PieceOK (d sd : nat) (o : piece) (follow : token) : Prop :=
  match o with
  | Some (t, sh) => starts_simple t /\ SimpleOK d sd t sh follow
  | None => True
  end.

Lemma frame_hdr : forall (s s' : pstateT), frame s s' -> lp s = ln s -> lp s' = ln s'.
Proof. intros s s' (_ & k & Ha & Hb) H. lia. Qed.

Lemma switch_hdr_ok : forall d (init tag : piece) (s2 : pstateT) rst,
  PieceOK d (sdepth s2) init (tk OSemiColon) -> PieceOK d (sdepth s2) tag (tk OBraceLeft) ->
  lp s2 = ln s2 ->
  at_toks s2 (ptoks init [tk OSemiColon] ++ ptoks tag [] ++ tk OBraceLeft :: rst) ->
  exists ni nt s3,
    switch_hdr (PA d) s2 = Ok (ni, nt) s3 /\
    erase (nopt ni) = psh init /\
    match tag with
    | Some (_, sh) => exists n, nt = Some n /\ erase n = sh
    | None => nt = None
    end /\
    at_toks s3 (tk OBraceLeft :: rst) /\ frame s2 s3.
Proof.
  intros d init tag s2 rst Hi Ht Hl Hat. unfold switch_hdr.
  destruct init as [[ti shi] |]; destruct tag as [[tt0 sht] |];
    cbn [ptoks PieceOK psh] in *.
  - (* switch init ; tag { *)
    destruct Hi as ((t & l & -> & Hst) & Hi). destruct Ht as ((t' & l' & -> & Hst') & Ht).
    rewrite app_nil_r in Hat. rewrite <- !app_assoc in Hat. cbn [app] in Hat.
    destruct Hst as (_ & Hsemi & _ & Hbr & _). destruct Hst' as (_ & _ & _ & Hbr' & _).
    rewrite (cur_not_toks s2 _ _ (KOp OBraceLeft) Hat), Hbr. cbn [negb]. cbv iota.
    rewrite (cur_not_toks s2 _ _ (KOp OSemiColon) Hat), Hsemi. cbn [negb]. cbv iota.
    destruct (Hi s2 (t' :: l' ++ tk OBraceLeft :: rst) eq_refl Hl) as (ni & s3 & Hp & He & Hat3 & Hf3).
    { cbn [app]. exact Hat. }
    rewrite Hp. cbn [bind].
    destruct (skipped_yes OPS s3 _ _ (KOp OSemiColon) Hat3 eq_refl) as (s4 & Hs & Hat4 & Hf4).
    rewrite Hs. cbn [bind]. cbv iota.
    rewrite (cur_not_toks s4 _ _ (KOp OBraceLeft) Hat4), Hbr'. cbn [negb]. cbv iota.
    pose proof (frame_trans _ _ _ Hf3 Hf4) as Hf24.
    destruct (Ht s4 rst) as (nt & s5 & Hp5 & He5 & Hat5 & Hf5).
    { unframe. lia. }
    { exact (frame_hdr s2 s4 Hf24 Hl). }
    { cbn [app]. exact Hat4. }
    rewrite Hp5. cbn [bind].
    exists (Some ni), (Some nt), s5. split; [reflexivity |]. split; [exact He |].
    split; [exists nt; split; [reflexivity | exact He5] |].
    split; [exact Hat5 | exact (frame_trans _ _ _ Hf24 Hf5)].
  - (* switch init ; { *)
    destruct Hi as ((t & l & -> & Hst) & Hi).
    rewrite <- !app_assoc in Hat. cbn [app] in Hat.
    destruct Hst as (_ & Hsemi & _ & Hbr & _).
    rewrite (cur_not_toks s2 _ _ (KOp OBraceLeft) Hat), Hbr. cbn [negb]. cbv iota.
    rewrite (cur_not_toks s2 _ _ (KOp OSemiColon) Hat), Hsemi. cbn [negb]. cbv iota.
    destruct (Hi s2 (tk OBraceLeft :: rst) eq_refl Hl) as (ni & s3 & Hp & He & Hat3 & Hf3).
    { cbn [app]. exact Hat. }
    rewrite Hp. cbn [bind].
    destruct (skipped_yes OPS s3 _ _ (KOp OSemiColon) Hat3 eq_refl) as (s4 & Hs & Hat4 & Hf4).
    rewrite Hs. cbn [bind]. cbv iota.
    rewrite (cur_not_toks s4 _ _ (KOp OBraceLeft) Hat4).
    change (negb (tok_is (tk OBraceLeft) (KOp OBraceLeft))) with false. cbv iota.
    exists (Some ni), None, s4. split; [reflexivity |]. split; [exact He |].
    split; [reflexivity |]. split; [exact Hat4 | exact (frame_trans _ _ _ Hf3 Hf4)].
  - (* switch tag { *)
    destruct Ht as ((t' & l' & -> & Hst') & Ht).
    rewrite app_nil_r in Hat. cbn [app] in Hat.
    destruct Hst' as (_ & Hsemi & _ & Hbr' & _).
    rewrite (cur_not_toks s2 _ _ (KOp OBraceLeft) Hat), Hbr'. cbn [negb]. cbv iota.
    rewrite (cur_not_toks s2 _ _ (KOp OSemiColon) Hat), Hsemi. cbn [negb]. cbv iota.
    destruct (Ht s2 rst eq_refl Hl) as (nt & s3 & Hp & He & Hat3 & Hf3).
    { cbn [app]. exact Hat. }
    rewrite Hp. cbn [bind].
    rewrite (skipped_no OPS s3 _ (KOp OSemiColon) Hat3 eq_refl). cbn [bind]. cbv iota.
    exists None, (Some nt), s3. split; [reflexivity |]. split; [reflexivity |].
    split; [exists nt; split; [reflexivity | exact He] |].
    split; [exact Hat3 | exact Hf3].
  - (* switch { *)
    cbn [app] in Hat.
    rewrite (cur_not_toks s2 _ _ (KOp OBraceLeft) Hat).
    change (negb (tok_is (tk OBraceLeft) (KOp OBraceLeft))) with false. cbv iota.
    exists None, None, s2. split; [reflexivity |]. split; [reflexivity |].
    split; [reflexivity |]. split; [exact Hat | apply frame_refl].
Qed.

(* the init statement of a header *)
Lemma init_piece_ok : forall n (i : simple2) d sd,
  IHS n -> m_simple Nat.add size2 i < n -> wf_simple2 true i ->
  need_simple i + 2 <= d -> sd + depth_simple i <= MAX_NESTING -> depth_simple i <= 65 ->
  PieceOK d sd (Some (print_simple print2 i, shape_simple shape2 i)) (tk OSemiColon).
Proof.
  intros n i d sd IH Hsz Hwf Hd Hdep Hlev. split; [exact (simple_first first_tok_e true i Hwf) |].
  intros s' rst Hsd Hl Hat.
  assert (HS : SSP true i).
  { apply H_ssp; [| exact Hwf]. intros e He. destruct IH as (IH1 & _).
    apply IH1; [| exact (simple_wf_exprs true i e Hwf He)].
    pose proof (simple_size_exprs i e He). lia. }
  apply (HS d s' (tk OSemiColon :: rst) Hd Hat).
  - left. reflexivity.
  - lia.
  - apply lev_hdr; assumption.
Qed.

(* ------------------------------------------------------------ is_type_switch *)

Lemma its_expr : forall (t : nodeT) sh (s : pstateT),
  erase t = mk unit unit GExprStmt [] [] [sh] ->
  is_type_switch A G D C E (Some t) s =
  Ok (is_tag GTypeAssert sh && is_tag GNone (kid sh 1)) s.
Proof.
  intros t sh s H. unfold is_type_switch.
  rewrite <- (is_tag_erase GExprStmt t), H.
  change (is_tag GExprStmt (mk unit unit GExprStmt [] [] [sh])) with true. cbv iota zeta.
  rewrite <- (is_tag_erase GTypeAssert (kid t 0)), <- (is_tag_erase GNone (kid (kid t 0) 1)).
  rewrite !erase_kid, H. reflexivity.
Qed.

Lemma its_define : forall (t : nodeT) a g (s : pstateT),
  erase t = mk unit unit GAssign [tt] [AOp ODefine] [nlist [a]; nlist [g]] ->
  is_tag GTypeAssert g = true ->
  is_type_switch A G D C E (Some t) s = Ok true s.
Proof.
  intros t a g s H Hg. unfold is_type_switch.
  assert (Hats : n_ats t = [AOp ODefine]).
  { destruct t as [tg ps ats docs ks]. rewrite erase_Nd in H. inversion H. reflexivity. }
  assert (H0 : length (n_kids (kid t 0)) = 1).
  { rewrite <- (map_length erase), <- n_kids_erase, erase_kid, H. reflexivity. }
  assert (H1 : length (n_kids (kid t 1)) = 1).
  { rewrite <- (map_length erase), <- n_kids_erase, erase_kid, H. reflexivity. }
  assert (H2 : is_tag GTypeAssert (nth 0 (n_kids (kid t 1)) nnone) = true).
  { rewrite <- is_tag_erase, <- (map_nth erase), <- n_kids_erase, erase_kid, H. exact Hg. }
  rewrite <- (is_tag_erase GExprStmt t), <- (is_tag_erase GAssign t), H.
  change (is_tag GExprStmt (mk unit unit GAssign [tt] [AOp ODefine] [nlist [a]; nlist [g]])) with false.
  change (is_tag GAssign (mk unit unit GAssign [tt] [AOp ODefine] [nlist [a]; nlist [g]])) with true.
  cbv iota zeta. rewrite H0, H1, H2, Hats. reflexivity.
Qed.

(* ------------------------------------------------------------ expression switch *)

Lemma lev_false_bound : forall (s : pstateT) n, lev false s n -> n <= 64.
Proof. intros s n (H1 & H2). lia. Qed.

Theorem switch_ok : forall init tag clauses,
  IHS (size_stmt (StSwitch init tag clauses)) -> wf_stmt (StSwitch init tag clauses) ->
  SC (StSwitch init tag clauses).
Proof.
  intros init tag clauses IH Hwf. rewrite wf_stmt_switch in Hwf. destruct Hwf as (Hwi & Hwt & Hwc).
  apply SC_intro; [rewrite need_stmt_switch; lia | rewrite depth_stmt_switch; lia |].
  intros d s rst Hd Hat Hdep Hlev.
  rewrite need_stmt_switch in Hd. rewrite depth_stmt_switch in Hdep, Hlev.
  rewrite print_stmt_switch in Hat. cbn [app] in Hat.
  repeat (rewrite <- app_assoc in Hat; cbn [app] in Hat).
  rewrite shape_stmt_switch. rewrite size_stmt_switch in IH.
  pose proof (lev_false_bound s _ Hlev) as Hb.
  set (MC := max2 need_case clauses) in *. set (DC := max2 depth_case clauses) in *.
  destruct (at_toks_cur _ _ _ Hat) as (pos0 & Hc).
  unfold stmt_body. rewrite Hc. unfold kw. cbn [classify_stmt]. rewrite parse_switch_unfold.
  destruct (expect_toks OPS s _ _ (KKw KSwitch) 102 Hat eq_refl) as (pos & s1 & Hx & Hat1 & Hf1).
  rewrite Hx. cbn [bind].
  assert (Hsd1 : sdepth s1 = sdepth s) by (unframe; lia).
  (* the header *)
  set (pinit := match init with
                | Some i => Some (print_simple print2 i, shape_simple shape2 i)
                | None => None
                end : piece).
  set (ptag := match tag with
               | Some e => Some (print2 e, shape_simple shape2 (SmExpr e))
               | None => None
               end : piece).
  assert (Hpi : PieceOK d (sdepth s1) pinit (tk OSemiColon)).
  { destruct init as [i |]; [| exact I]. cbn [m_osimple opt2] in *.
    apply (init_piece_ok _ i d (sdepth s1) IH); unfold need_simple, depth_simple; try lia.
    exact Hwi. }
  assert (Hpt : PieceOK d (sdepth s1) ptag (tk OBraceLeft)).
  { destruct tag as [e |]; [| exact I]. cbn [omax opt2] in *. destruct Hwt as (Hwe & Hbs).
    split; [exact (first_tok_e e true Hwe) |].
    intros s' rst' Hsd Hl Hat'.
    assert (HS : SSP true (SmExpr e)).
    { apply H_ssp; [| exact Hwe]. intros e0 [<- | []]. destruct IH as (IH1 & _).
      apply IH1; [lia | exact Hwe]. }
    apply (HS d s' (tk OBraceLeft :: rst')).
    - unfold need_simple. cbn [m_simple]. lia.
    - exact Hat'.
    - right. split; [reflexivity |]. split; [reflexivity | exact Hbs].
    - unfold depth_simple. cbn [m_simple]. lia.
    - apply lev_hdr; [exact Hl |]. unfold depth_simple. cbn [m_simple]. lia. }
  destruct (switch_hdr_ok d pinit ptag (reset_level A G D E s1)
              (flat_map print_case clauses ++ tk OBraceRight :: rst) Hpi Hpt eq_refl)
    as (ni & nt & s3 & Hh & Hei & Het & Hat3 & Hf3).
  { apply at_toks_level. subst pinit ptag.
    destruct init as [i |], tag as [e |]; cbn [ptoks print_init popt app] in *;
      rewrite ?app_nil_r; exact Hat1. }
  rewrite Hh. cbn [bind]. unfold switch_tail. cbv iota zeta.
  set (s4 := upd_level A G D E s3 (lp s1) (ln s1)).
  pose proof (frame_restore s1 s3 Hf3) as Hf14. fold s4 in Hf14.
  assert (Hat4 : at_toks s4 (tk OBraceLeft :: flat_map print_case clauses ++ tk OBraceRight :: rst))
    by exact Hat3.
  (* it is no type switch *)
  assert (Hts : is_type_switch A G D C E nt s4 = Ok false s4).
  { destruct tag as [e |]; subst ptag; cbn beta iota in Het.
    - destruct Het as (n & -> & He). rewrite (its_expr n (shape2 e) s4 He).
      cbn [opt2] in Hwt. rewrite (not_guard_shape true e (proj1 Hwt)). reflexivity.
    - subst nt. reflexivity. }
  rewrite Hts. cbn [bind].
  (* the clauses *)
  assert (Hcls : Forall (ClauseOK (list exp2) (fun es => commas (map print2 es)) (map shape2)
                           false d s1) clauses).
  { apply Forall_forall. intros cl Hin.
    destruct (all2_In _ _ _ _ Hwc Hin) as (Hwh & Hwb).
    pose proof (max2_In _ need_case clauses cl Hin) as Hn.
    pose proof (max2_In _ depth_case clauses cl Hin) as Hdp.
    fold MC in Hn. fold DC in Hdp. unfold need_case in Hn. unfold depth_case in Hdp.
    pose proof (sum2_In _ (fun cl : option (list exp2) * list stmt2 =>
                   S (omax (sum2 size2) (fst cl) + sum2 size_stmt (snd cl))) clauses cl Hin) as Hs.
    cbv beta in Hs.
    split.
    - destruct cl as [[es |] body]; cbn [fst snd opt2 omax] in *; [| exact I].
      destruct Hwh as (Hne & Hwes).
      intros s' rst' Hfr Hat'. unfold head_parse. cbv iota.
      apply (exprs_ok2 A G D C E OPS false es Hne).
      + apply Forall_forall. intros e He. destruct IH as (IH1 & _).
        apply IH1; [| exact (all2_In _ _ _ _ Hwes He)].
        pose proof (sum2_In _ size2 es e He). lia.
      + split; reflexivity.
      + lia.
      + unframe. lia.
      + apply (lev_frame false s s' _ _ (frame_trans _ _ _ Hf1 Hfr) Hlev). lia.
      + exact Hat'.
    - apply (body_ok _ (snd cl) d s1 IH).
      + intros st Hst. pose proof (sum2_In _ size_stmt (snd cl) st Hst). lia.
      + exact Hwb.
      + lia.
      + lia.
      + apply (lev_frame false s s1 _ _ Hf1 Hlev). lia. }
  destruct (case_block_ok (list exp2) (fun es => commas (map print2 es)) (map shape2) false d s1
              clauses Hcls s4 rst Hf14 Hat4) as (nb & s6 & Hcb & Heb & Hat6 & Hf46).
  rewrite Hcb. cbn [bind]. cbv iota.
  pose proof (frame_trans _ _ _ Hf1 (frame_trans _ _ _ Hf14 Hf46)) as Hf.
  destruct tag as [e |]; subst ptag; cbn beta iota in Het.
  - destruct Het as (n & -> & He).
    assert (Htag : is_tag GExprStmt n = true) by (rewrite <- (is_tag_erase GExprStmt n), He; reflexivity).
    rewrite Htag.
    exists (mk A C GSwitch [pos] [] [nopt ni; kid n 0; nb]), s6.
    split; [reflexivity |]. split; [| split; [exact Hat6 | exact Hf]].
    unfold mk at 1. rewrite erase_Nd. cbn [map]. rewrite Hei, erase_kid, He, Heb.
    destruct init; reflexivity.
  - subst nt.
    exists (mk A C GSwitch [pos] [] [nopt ni; nnone; nb]), s6.
    split; [reflexivity |]. split; [| split; [exact Hat6 | exact Hf]].
    unfold mk at 1. rewrite erase_Nd. cbn [map]. rewrite Hei, Heb.
    destruct init; reflexivity.
Qed.

(* ------------------------------------------------------------ type switch *)

Lemma size2_pos : forall e, 1 <= size2 e.
Proof. intro e; destruct e; simpl; lia. Qed.

(* the recursion budget the guard contract KE2G asks for (see the header of the file) *)
Definition guard_need (st : stmt2) : Prop :=
  match st with
  | StTypeSwitch _ _ x _ => need2 (guard_of x) + 3 <= need_stmt2 st
  | _ => True
  end.

Lemma guard_need_clauses : forall init bind x clauses, clauses <> [] ->
  guard_need (StTypeSwitch init bind x clauses).
Proof.
  intros init bind x clauses Hne. unfold guard_need. rewrite need_stmt_typeswitch, need2_guard.
  destruct clauses as [| cl r]; [exfalso; apply Hne; reflexivity |].
  cbn [max2 fold_right]. unfold need_tcase at 1. unfold need_block. lia.
Qed.

Lemma guard_need_x : forall init bind x clauses, 3 <= need2 x ->
  guard_need (StTypeSwitch init bind x clauses).
Proof.
  intros init bind x clauses H. unfold guard_need. rewrite need_stmt_typeswitch, need2_guard. lia.
Qed.

Lemma efollow_guard : forall x r, efollow true (guard_of x) (tk OBraceLeft :: r).
Proof. intros x r. apply efollow_brace; [exact I | left; exact I]. Qed.

Lemma start_tok_ident : forall v, start_tok (ident_tok v).
Proof. intro v. unfold start_tok. repeat split. Qed.

(* the tag statement  x.(type)  /  v := x.(type)  of a type switch: parse_simple_stmt *)
Lemma guard_piece_ok : forall bd x d sd,
  KE2G true x -> (forall v, KE2 true (E2Ident v)) -> wf2 true x ->
  need2 (guard_of x) + 2 <= d -> sd + depth2 (guard_of x) <= MAX_NESTING ->
  depth2 (guard_of x) <= 65 ->
  PieceOK d sd
    (Some (match bd with Some v => [ident_tok v; tk ODefine] | None => [] end ++
           print2 (guard_of x), shape_guard bd x)) (tk OBraceLeft).
Proof.
  intros bd x d sd HG HI Hwx Hd Hdep Hlev.
  destruct (first_tok_e x true Hwx) as (tx & lx & Hpx & Hstx).
  assert (Hpg : exists lg, print2 (guard_of x) = tx :: lg).
  { unfold guard_of. change (print2 (E2Assert x None))
      with (print2 x ++ tk ODot :: tk OParenLeft :: [kw KType] ++ [tk OParenRight]).
    rewrite Hpx. eexists. reflexivity. }
  destruct Hpg as (lg & Hpg).
  split.
  { destruct bd as [v |]; cbn [app].
    - exists (ident_tok v), (tk ODefine :: print2 (guard_of x)).
      split; [reflexivity | apply start_tok_ident].
    - exists tx, lg. split; [exact Hpg | exact Hstx]. }
  intros s' rst Hsd Hl Hat. unfold parse_simple_stmt.
  destruct bd as [v |]; cbn [app] in Hat.
  - (* v := x.(type) *)
    destruct (exprs_one true (E2Ident v) (HI v) d s' (tk ODefine :: print2 (guard_of x) ++ tk OBraceLeft :: rst))
      as (n1 & s1 & Hl1 & He1 & Hat1 & Hf1).
    + change (need2 (E2Ident v)) with 1. pose proof (need2_pos (guard_of x)). lia.
    + exact Hat.
    + apply efollow_close. reflexivity.
    + reflexivity.
    + change (depth2 (E2Ident v)) with 1. pose proof (depth2_pos (guard_of x)). lia.
    + apply lev_hdr; [exact Hl |]. change (depth2 (E2Ident v)) with 1. lia.
    + rewrite Hl1. cbn [bind].
      destruct (at_toks_cur _ _ _ Hat1) as (p1 & Hc1). rewrite Hc1. unfold tk at 1. cbv iota.
      change (is_assign_op ODefine) with true. cbv iota.
      destruct (next_toks OPS _ _ (at_toks_rest' _ _ _ Hat1)) as (s2 & Hn & Hat2 & Hf2).
      rewrite Hn. cbn [bind].
      pose proof (frame_trans _ _ _ Hf1 Hf2) as Hf12.
      assert (Hrange : cur_is A G D E s2 (KKw KRange) = false).
      { rewrite Hpg in Hat2. cbn [app] in Hat2. rewrite (cur_is_toks s2 _ _ _ Hat2).
        destruct Hstx as (_ & _ & _ & _ & _ & _ & _ & _ & _ & Hr & _). exact Hr. }
      rewrite Hrange. cbn [andb]. cbv iota.
      destruct (exprs_one true (guard_of x) HG d s2 (tk OBraceLeft :: rst) Hd Hat2
                  (efollow_guard x rst) eq_refl) as (n2 & s3 & Hl2 & He2 & Hat3 & Hf3).
      { unframe. lia. }
      { apply lev_hdr; [exact (frame_hdr s' s2 Hf12 Hl) | exact Hlev]. }
      rewrite Hl2. cbn [bind].
      change (op_eqb ODefine ODefine) with true. cbv iota.
      rewrite (check_assign_ok2 [E2Ident v] [n1] s3).
      2:{ cbn [map]. rewrite He1. reflexivity. }
      2:{ split; exact I. }
      cbn [bind]. cbn [length]. change (1 <? 1) with false. cbv iota.
      exists (mk A C GAssign [p1] [AOp ODefine] [nlist [n1]; nlist [n2]]), s3.
      split; [reflexivity |].
      split; [| split; [exact Hat3 | exact (frame_trans _ _ _ Hf12 Hf3)]].
      unfold mk, nlist. rewrite !erase_Nd. cbn [map]. rewrite !erase_Nd. cbn [map].
      rewrite He1, He2. reflexivity.
  - (* x.(type) *)
    destruct (exprs_one true (guard_of x) HG d s' (tk OBraceLeft :: rst) Hd Hat
                (efollow_guard x rst) eq_refl) as (n & s1 & Hl1 & He & Hat1 & Hf1).
    { lia. }
    { apply lev_hdr; [exact Hl | exact Hlev]. }
    rewrite Hl1. cbn [bind].
    destruct (at_toks_cur _ _ _ Hat1) as (p1 & Hc1). rewrite Hc1. unfold tk at 1. cbv iota.
    change (is_assign_op OBraceLeft) with false. cbv iota. cbn [check_single_expr bind].
    exists (mk A C GExprStmt [] [] [n]), s1.
    split; [reflexivity |].
    split; [| split; [exact Hat1 | exact Hf1]].
    unfold mk. rewrite erase_Nd. cbn [map]. rewrite He. reflexivity.
Qed.

Theorem typeswitch_ok : forall init bd x clauses,
  IHS (size_stmt (StTypeSwitch init bd x clauses)) ->
  wf_stmt (StTypeSwitch init bd x clauses) ->
  guard_need (StTypeSwitch init bd x clauses) ->
  SC (StTypeSwitch init bd x clauses).
Proof.
  intros init bd x clauses IH Hwf Hgn. rewrite wf_stmt_typeswitch in Hwf.
  destruct Hwf as (Hwi & Hpx & Hbx & Hwx & Hwc).
  apply SC_intro; [rewrite need_stmt_typeswitch; lia | rewrite depth_stmt_typeswitch; lia |].
  intros d s rst Hd Hat Hdep Hlev.
  unfold guard_need in Hgn. rewrite need2_guard in Hgn.
  rewrite need_stmt_typeswitch in Hd, Hgn. rewrite depth_stmt_typeswitch in Hdep, Hlev.
  rewrite print_stmt_typeswitch in Hat. cbn [app] in Hat.
  rewrite shape_stmt_typeswitch. rewrite size_stmt_typeswitch in IH.
  pose proof (lev_false_bound s _ Hlev) as Hb.
  pose proof (size2_pos x) as Hsx.
  set (MC := max2 need_tcase clauses) in *. set (DC := max2 depth_tcase clauses) in *.
  destruct (at_toks_cur _ _ _ Hat) as (pos0 & Hc).
  unfold stmt_body. rewrite Hc. unfold kw. cbn [classify_stmt]. rewrite parse_switch_unfold.
  destruct (expect_toks OPS s _ _ (KKw KSwitch) 102 Hat eq_refl) as (pos & s1 & Hx & Hat1 & Hf1).
  rewrite Hx. cbn [bind].
  assert (Hsd1 : sdepth s1 = sdepth s) by (unframe; lia).
  (* the header *)
  set (pinit := match init with
                | Some i => Some (print_simple print2 i, shape_simple shape2 i)
                | None => None
                end : piece).
  set (gtoks := match bd with Some v => [ident_tok v; tk ODefine] | None => [] end ++
                print2 (guard_of x)).
  assert (Hpi : PieceOK d (sdepth s1) pinit (tk OSemiColon)).
  { destruct init as [i |]; [| exact I]. cbn [m_osimple opt2] in *.
    apply (init_piece_ok _ i d (sdepth s1) IH); unfold need_simple, depth_simple; try lia.
    exact Hwi. }
  assert (Hpt : PieceOK d (sdepth s1) (Some (gtoks, shape_guard bd x)) (tk OBraceLeft)).
  { apply guard_piece_ok.
    - destruct IH as (_ & IH2 & _). apply IH2; [lia |]. split; [exact Hpx | split; [exact Hbx | exact Hwx]].
    - intro v. destruct IH as (IH1 & _). apply IH1; [simpl; lia | exact I].
    - exact Hwx.
    - rewrite need2_guard. lia.
    - rewrite depth2_guard. lia.
    - rewrite depth2_guard. lia. }
  destruct (switch_hdr_ok d pinit (Some (gtoks, shape_guard bd x)) (reset_level A G D E s1)
              (flat_map print_tcase clauses ++ tk OBraceRight :: rst) Hpi Hpt eq_refl)
    as (ni & nt & s3 & Hh & Hei & Het & Hat3 & Hf3).
  { apply at_toks_level. subst pinit gtoks. cbn [ptoks]. rewrite app_nil_r.
    repeat (rewrite <- app_assoc in Hat1; cbn [app] in Hat1).
    repeat (rewrite <- app_assoc; cbn [app]).
    destruct init as [i |]; cbn [ptoks print_init app] in *;
      repeat (rewrite <- app_assoc in Hat1; cbn [app] in Hat1);
      repeat (rewrite <- app_assoc; cbn [app]); exact Hat1. }
  rewrite Hh. cbn [bind]. unfold switch_tail. cbv iota zeta.
  set (s4 := upd_level A G D E s3 (lp s1) (ln s1)).
  pose proof (frame_restore s1 s3 Hf3) as Hf14. fold s4 in Hf14.
  assert (Hat4 : at_toks s4 (tk OBraceLeft :: flat_map print_tcase clauses ++ tk OBraceRight :: rst))
    by exact Hat3.
  destruct Het as (n & -> & He).
  (* it is a type switch *)
  assert (Hts : is_type_switch A G D C E (Some n) s4 = Ok true s4).
  { destruct bd as [v |]; cbn [shape_guard] in He.
    - apply (its_define n _ _ s4 He). reflexivity.
    - rewrite (its_expr n _ s4 He). reflexivity. }
  rewrite Hts. cbn [bind].
  (* the clauses *)
  assert (Hcls : Forall (ClauseOK (list typ2) (fun ts => commas (map (printT print2) ts))
                           (map (shapeTy shape2)) true d s1) clauses).
  { apply Forall_forall. intros cl Hin.
    destruct (all2_In _ _ _ _ Hwc Hin) as (Hwh & Hwb).
    pose proof (max2_In _ need_tcase clauses cl Hin) as Hn.
    pose proof (max2_In _ depth_tcase clauses cl Hin) as Hdp.
    fold MC in Hn. fold DC in Hdp. unfold need_tcase in Hn. unfold depth_tcase in Hdp.
    pose proof (sum2_In _ (fun cl : option (list typ2) * list stmt2 =>
                   S (omax (sum2 (sizeX size2)) (fst cl) + sum2 size_stmt (snd cl))) clauses cl Hin) as Hs.
    cbv beta in Hs.
    split.
    - destruct cl as [[ts |] body]; cbn [fst snd opt2 omax] in *; [| exact I].
      destruct Hwh as (Hne & Hwts).
      intros s' rst' Hfr Hat'. unfold head_parse. cbv iota.
      apply (type_list_ok d s1 ts Hne); [| exact Hfr | exact Hat'].
      apply Forall_forall. intros t Ht.
      pose proof (sum2_In _ (sizeX size2) ts t Ht) as Hst.
      pose proof (max2_In _ (fun t => needT2 t + 4) ts t Ht) as Hnt.
      pose proof (max2_In _ depthT2 ts t Ht) as Hdt. cbv beta in Hnt.
      assert (HT : TP2 t).
      { apply TNP_TP. destruct IH as (_ & _ & _ & _ & IH5).
        apply IH5; [lia | exact (all2_In _ _ _ _ Hwts Ht)]. }
      intros s2 rst2 Hfr2 Hat2 Hfo2.
      apply (HT d s2 rst2); [fold (needT2 t); lia | exact Hat2 | exact Hfo2 | |].
      + fold (depthT2 t). unframe. lia.
      + pose proof (lev_frame false s s2 _ _ (frame_trans _ _ _ Hf1 Hfr2) Hlev (le_n _)) as (Hq1 & Hq2).
        fold (depthT2 t). lia.
    - apply (body_ok _ (snd cl) d s1 IH).
      + intros st Hst. pose proof (sum2_In _ size_stmt (snd cl) st Hst). lia.
      + exact Hwb.
      + lia.
      + lia.
      + apply (lev_frame false s s1 _ _ Hf1 Hlev). lia. }
  destruct (case_block_ok (list typ2) (fun ts => commas (map (printT print2) ts))
              (map (shapeTy shape2)) true d s1 clauses Hcls s4 rst Hf14 Hat4)
    as (nb & s6 & Hcb & Heb & Hat6 & Hf46).
  rewrite Hcb. cbn [bind]. cbv iota.
  pose proof (frame_trans _ _ _ Hf1 (frame_trans _ _ _ Hf14 Hf46)) as Hf.
  exists (mk A C GTypeSwitch [pos] [] [nopt ni; nopt (Some n); nb]), s6.
  split; [reflexivity |]. split; [| split; [exact Hat6 | exact Hf]].
  unfold mk at 1. rewrite erase_Nd. cbn [map nopt]. fold (nopt ni). rewrite Hei, He, Heb.
  destruct init; reflexivity.
Qed.

(* ------------------------------------------------------------ the three together *)

Theorem stmts3_ok : forall st, IHS (size_stmt st) -> wf_stmt st -> guard_need st ->
  match st with
  | StSwitch _ _ _ | StTypeSwitch _ _ _ _ | StSelect _ => True
  | _ => False
  end -> SC st.
Proof.
  intros st IH Hwf Hgn Hk. destruct st; try destruct Hk.
  - apply switch_ok; assumption.
  - apply typeswitch_ok; assumption.
  - apply select_ok; assumption.
Qed.

End SW.
