(* Consequences of the parametricity of the parser core (Param.v) for the
   concrete entry points of Entry.v: layout freedom (C13), position shift
   (C15), and "every position of the tree comes from the token stream" (C05). *)
From Param Require Import Param.
From Coq Require Import List NArith Bool Arith Lia.
From GoSyn Require Import Token Tok Scanner Ast Core Policy Render TagNames Entry ParamGen Param.
Import ListNotations.
Open Scope N_scope.

(* ------------------------------------------------------------ generic: related states *)

Section Related.
Context {G1 D1 E1 G2 D2 E2 : Type}.
Variable AR : N -> N -> Type.

Definition selem_rel (e1 : selem N G1) (e2 : selem N G2) : Type :=
  match e1, e2 with
  | SE a0 a1 t g, SE b0 b1 t' g' => (AR a0 b0 * AR a1 b1 * (t = t'))%type
  end.

Fixpoint elems_rel (l1 : list (selem N G1)) (l2 : list (selem N G2)) : Type :=
  match l1, l2 with
  | [], [] => True
  | e1 :: r1, e2 :: r2 => (selem_rel e1 e2 * elems_rel r1 r2)%type
  | _, _ => False
  end.

Lemma elems_rel_R l1 l2 :
  elems_rel l1 l2 -> list_R _ _ (selem_R N N AR G1 G2 total) l1 l2.
Proof.
  revert l2. induction l1 as [|[a0 a1 t g] r1 IH]; intros [|[b0 b1 t' g'] r2] H;
    cbn in H; try contradiction; constructor.
  - destruct H as [[[H0 H1] Ht] _]. subst t'. constructor; try assumption; try exact I.
    apply token_R_refl.
  - apply IH. exact (snd H).
Qed.

Record state_rel (s1 : pstate N G1 D1 E1) (s2 : pstate N G2 D2 E2) : Type := {
  sr_cur : match s_cur _ _ _ _ s1, s_cur _ _ _ _ s2 with
           | Some (a, t), Some (b, t') => (AR a b * (t = t'))%type
           | None, None => True
           | _, _ => False
           end;
  sr_rest : elems_rel (s_rest _ _ _ _ s1) (s_rest _ _ _ _ s2);
  sr_mark : elems_rel (s_mark _ _ _ _ s1) (s_mark _ _ _ _ s2);
  sr_term : match s_term _ _ _ _ s1, s_term _ _ _ _ s2 with
            | TEof a _, TEof b _ => AR a b
            | TErr _ _, TErr _ _ => True
            | _, _ => False
            end;
  sr_spos : AR (s_spos _ _ _ _ s1) (s_spos _ _ _ _ s2);
  sr_lp : s_lp _ _ _ _ s1 = s_lp _ _ _ _ s2;
  sr_ln : s_ln _ _ _ _ s1 = s_ln _ _ _ _ s2;
  sr_started : s_started _ _ _ _ s1 = s_started _ _ _ _ s2;
  sr_depth : s_depth _ _ _ _ s1 = s_depth _ _ _ _ s2
}.

Lemma state_rel_R s1 s2 :
  state_rel s1 s2 -> pstate_R N N AR G1 G2 total D1 D2 total E1 E2 total s1 s2.
Proof.
  intros [Hc Hr Hm Ht Hs Hlp Hln Hst Hdp].
  destruct s1 as [c1 r1 m1 t1 p1 lp1 ln1 d1 st1 dp1], s2 as [c2 r2 m2 t2 p2 lp2 ln2 d2 st2 dp2].
  cbn in *. subst. constructor; try exact I.
  - destruct c1 as [[a t]|], c2 as [[b t']|]; try contradiction.
    + destruct Hc as [Hab ->]. constructor. constructor; [exact Hab|apply token_R_refl].
    + constructor.
  - apply elems_rel_R; assumption.
  - apply elems_rel_R; assumption.
  - destruct t1, t2; try contradiction; constructor; try exact I; assumption.
  - exact Hs.
  - apply nat_R_refl.
  - apply nat_R_refl.
  - apply bool_R_refl.
  - apply nat_R_refl.
Qed.

End Related.

(* ------------------------------------------------------------ what a related result says *)

Definition err_pos {E} (e : perr N E) : option N :=
  match e with
  | PUnexpected p _ _ => Some p
  | PElse p _ => Some p
  | PScan _ => None
  end.

Section Results.
Context {G1 D1 C1 E1 G2 D2 C2 E2 : Type}.
Variable AR : N -> N -> Type.

Lemma res_R_ok (r1 : res N G1 D1 E1 (node N C1)) (r2 : res N G2 D2 E2 (node N C2)) :
  res_R N N AR G1 G2 total D1 D2 total E1 E2 total _ _ (node_R N N AR C1 C2 total) r1 r2 ->
  forall n1 s1, r1 = Ok n1 s1 ->
  { n2 & { s2 & ((r2 = Ok n2 s2) * (erase n1 = erase n2) *
                 list_R N N AR (positions n1) (positions n2))%type } }.
Proof.
  intros H n1 s1 ->. inversion H as [x1 x2 xR t1 t2 tR| | |]; subst.
  exists x2, t2. repeat split.
  - eapply node_R_erase; eassumption.
  - eapply node_R_positions; eassumption.
Qed.

Lemma res_R_err (r1 : res N G1 D1 E1 (node N C1)) (r2 : res N G2 D2 E2 (node N C2)) :
  res_R N N AR G1 G2 total D1 D2 total E1 E2 total _ _ (node_R N N AR C1 C2 total) r1 r2 ->
  forall e1 s1, r1 = Err e1 s1 ->
  { e2 & { s2 & ((r2 = Err e2 s2) *
                 match err_pos e1, err_pos e2 with
                 | Some a, Some b => AR a b
                 | None, None => True
                 | _, _ => False
                 end)%type } }.
Proof.
  intros H e1 s1 ->. inversion H as [|x1 x2 xR t1 t2 tR| |]; subst.
  exists x2, t2. split; [reflexivity|].
  destruct xR; cbn; try assumption; exact I.
Qed.

End Results.

(* ------------------------------------------------------------ C15: shift *)

Definition shiftR (k : N) : N -> N -> Type := fun a b => b = a + k.

Lemma list_R_shift k l1 l2 : list_R N N (shiftR k) l1 l2 -> l2 = map (fun a => a + k) l1.
Proof. induction 1 as [|a b Hab l1 l2 _ IH]; cbn; [reflexivity|]. unfold shiftR in Hab. congruence. Qed.

Section Shift.
Context {G1 D1 C1 E1 G2 D2 C2 E2 : Type}.
Variables (O1 : ops N G1 D1 C1) (O2 : ops N G2 D2 C2).
Hypothesis plus2_1 : forall a, a_plus2 _ _ _ _ O1 a = a + 2.
Hypothesis plus2_2 : forall a, a_plus2 _ _ _ _ O2 a = a + 2.
Variable k : N.

Lemma plus2_shift a b : shiftR k a b -> shiftR k (a_plus2 _ _ _ _ O1 a) (a_plus2 _ _ _ _ O2 b).
Proof. unfold shiftR. intros ->. rewrite plus2_1, plus2_2. lia. Qed.

Theorem shift_file d s1 s2 n1 t1 :
  state_rel (shiftR k) s1 s2 ->
  parse_file N G1 D1 C1 E1 O1 (parsers_at N G1 D1 C1 E1 O1 d) s1 = Ok n1 t1 ->
  exists n2 t2,
    parse_file N G2 D2 C2 E2 O2 (parsers_at N G2 D2 C2 E2 O2 d) s2 = Ok n2 t2 /\
    erase n2 = erase n1 /\ positions n2 = map (fun a => a + k) (positions n1).
Proof.
  intros Hs Hr.
  destruct (res_R_ok (shiftR k) _ _
              (pos_free_file (shiftR k) O1 O2 plus2_shift d s1 s2 (state_rel_R _ _ _ Hs)) n1 t1 Hr)
    as [n2 [t2 [[H1 H2] H3]]].
  exists n2, t2. repeat split; [exact H1|symmetry; exact H2|apply list_R_shift; exact H3].
Qed.

Theorem shift_expression d s1 s2 n1 t1 :
  state_rel (shiftR k) s1 s2 ->
  entry_expression N G1 D1 C1 E1 O1 (parsers_at N G1 D1 C1 E1 O1 d) s1 = Ok n1 t1 ->
  exists n2 t2,
    entry_expression N G2 D2 C2 E2 O2 (parsers_at N G2 D2 C2 E2 O2 d) s2 = Ok n2 t2 /\
    erase n2 = erase n1 /\ positions n2 = map (fun a => a + k) (positions n1).
Proof.
  intros Hs Hr.
  destruct (res_R_ok (shiftR k) _ _
              (pos_free_expression (shiftR k) O1 O2 plus2_shift d s1 s2 (state_rel_R _ _ _ Hs)) n1 t1 Hr)
    as [n2 [t2 [[H1 H2] H3]]].
  exists n2, t2. repeat split; [exact H1|symmetry; exact H2|apply list_R_shift; exact H3].
Qed.

Theorem shift_stmt d s1 s2 n1 t1 :
  state_rel (shiftR k) s1 s2 ->
  entry_stmt N G1 D1 C1 E1 O1 (parsers_at N G1 D1 C1 E1 O1 d) s1 = Ok n1 t1 ->
  exists n2 t2,
    entry_stmt N G2 D2 C2 E2 O2 (parsers_at N G2 D2 C2 E2 O2 d) s2 = Ok n2 t2 /\
    erase n2 = erase n1 /\ positions n2 = map (fun a => a + k) (positions n1).
Proof.
  intros Hs Hr.
  destruct (res_R_ok (shiftR k) _ _
              (pos_free_stmt (shiftR k) O1 O2 plus2_shift d s1 s2 (state_rel_R _ _ _ Hs)) n1 t1 Hr)
    as [n2 [t2 [[H1 H2] H3]]].
  exists n2, t2. repeat split; [exact H1|symmetry; exact H2|apply list_R_shift; exact H3].
Qed.

Theorem shift_file_err d s1 s2 e1 t1 :
  state_rel (shiftR k) s1 s2 ->
  parse_file N G1 D1 C1 E1 O1 (parsers_at N G1 D1 C1 E1 O1 d) s1 = Err e1 t1 ->
  exists e2 t2,
    parse_file N G2 D2 C2 E2 O2 (parsers_at N G2 D2 C2 E2 O2 d) s2 = Err e2 t2 /\
    err_pos e2 = option_map (fun a => a + k) (err_pos e1).
Proof.
  intros Hs Hr.
  destruct (res_R_err (shiftR k) _ _
              (pos_free_file (shiftR k) O1 O2 plus2_shift d s1 s2 (state_rel_R _ _ _ Hs)) e1 t1 Hr)
    as [e2 [t2 [H1 H2]]].
  exists e2, t2. split; [exact H1|].
  destruct (err_pos e1), (err_pos e2); cbn; try contradiction; [|reflexivity].
  unfold shiftR in H2. congruence.
Qed.

End Shift.

(* ------------------------------------------------------------ C05: positions come from the stream *)

Definition from_stream (S : list N) (p : N) : Prop :=
  exists q n, In q S /\ p = q + 2 * n.

Definition diagR (S : list N) : N -> N -> Type :=
  fun a b => ((a = b) * from_stream S a)%type.

Lemma from_stream_in S p : In p S -> from_stream S p.
Proof. intro H. exists p, 0. split; [exact H|lia]. Qed.

Section FromStream.
Context {G D C E : Type}.
Variable O : ops N G D C.
Hypothesis plus2 : forall a, a_plus2 _ _ _ _ O a = a + 2.

Lemma plus2_diag S a b : diagR S a b -> diagR S (a_plus2 _ _ _ _ O a) (a_plus2 _ _ _ _ O b).
Proof.
  intros [-> Hf]. split; [reflexivity|]. destruct Hf as [q [n [Hq ->]]]. rewrite plus2.
  exists q, (n + 1). split; [exact Hq|lia].
Qed.

Lemma elems_rel_diag S (l : list (selem N G)) :
  (forall p, In p (flat_map elem_positions l) -> In p S) -> elems_rel (diagR S) l l.
Proof.
  induction l as [|[a0 a1 t g] r IH]; intro H; cbn; [exact I|]. split.
  - repeat split; apply from_stream_in, H; cbn; auto.
  - apply IH. intros p Hp. apply H. cbn. right. right. exact Hp.
Qed.

Lemma state_rel_diag (s : pstate N G D E) : state_rel (diagR (state_positions s)) s s.
Proof.
  destruct s as [c r m t p lp ln d st dp].
  constructor; cbn [s_cur s_rest s_mark s_term s_spos s_lp s_ln s_started s_depth]; try reflexivity.
  - destruct c as [[a tk]|]; [|exact I]. split; [|reflexivity]. split; [reflexivity|].
    apply from_stream_in. unfold state_positions. cbn. right. left. reflexivity.
  - apply elems_rel_diag. intros q Hq. unfold state_positions. cbn [s_spos s_cur s_rest s_mark s_term].
    right. apply in_or_app. right. apply in_or_app. left. exact Hq.
  - apply elems_rel_diag. intros q Hq. unfold state_positions. cbn [s_spos s_cur s_rest s_mark s_term].
    right. apply in_or_app. right. apply in_or_app. right. apply in_or_app. left. exact Hq.
  - destruct t as [a g|e g]; [|exact I]. split; [reflexivity|]. apply from_stream_in.
    unfold state_positions. cbn [s_spos s_cur s_rest s_mark s_term].
    right. apply in_or_app. right. apply in_or_app. right. apply in_or_app. right. left. reflexivity.
  - split; [reflexivity|]. apply from_stream_in. left. reflexivity.
Qed.

Lemma list_R_diag_forall S l1 l2 : list_R N N (diagR S) l1 l2 -> Forall (from_stream S) l1.
Proof. induction 1 as [|a b [_ Hp] l1 l2 _ IH]; constructor; assumption. Qed.

Theorem positions_from_stream_file d s n t :
  parse_file N G D C E O (parsers_at N G D C E O d) s = Ok n t ->
  Forall (from_stream (state_positions s)) (positions n).
Proof.
  intro Hr.
  destruct (res_R_ok (diagR (state_positions s)) _ _
              (pos_free_file (diagR (state_positions s)) O O (plus2_diag _) d s s
                             (state_rel_R _ _ _ (state_rel_diag s))) n t Hr)
    as [n2 [t2 [[H1 H2] H3]]].
  eapply list_R_diag_forall. exact H3.
Qed.

Theorem positions_from_stream_expression d s n t :
  entry_expression N G D C E O (parsers_at N G D C E O d) s = Ok n t ->
  Forall (from_stream (state_positions s)) (positions n).
Proof.
  intro Hr.
  destruct (res_R_ok (diagR (state_positions s)) _ _
              (pos_free_expression (diagR (state_positions s)) O O (plus2_diag _) d s s
                             (state_rel_R _ _ _ (state_rel_diag s))) n t Hr)
    as [n2 [t2 [[H1 H2] H3]]].
  eapply list_R_diag_forall. exact H3.
Qed.

Theorem positions_from_stream_stmt d s n t :
  entry_stmt N G D C E O (parsers_at N G D C E O d) s = Ok n t ->
  Forall (from_stream (state_positions s)) (positions n).
Proof.
  intro Hr.
  destruct (res_R_ok (diagR (state_positions s)) _ _
              (pos_free_stmt (diagR (state_positions s)) O O (plus2_diag _) d s s
                             (state_rel_R _ _ _ (state_rel_diag s))) n t Hr)
    as [n2 [t2 [[H1 H2] H3]]].
  eapply list_R_diag_forall. exact H3.
Qed.

(* an error position is a position of the stream too (C16) *)
Theorem error_from_stream_file d s e t p :
  parse_file N G D C E O (parsers_at N G D C E O d) s = Err e t ->
  err_pos e = Some p -> from_stream (state_positions s) p.
Proof.
  intros Hr Hp.
  destruct (res_R_err (diagR (state_positions s)) _ _
              (pos_free_file (diagR (state_positions s)) O O (plus2_diag _) d s s
                             (state_rel_R _ _ _ (state_rel_diag s))) e t Hr)
    as [e2 [t2 [H1 H2]]].
  rewrite Hp in H2. destruct (err_pos e2); [|contradiction]. exact (snd H2).
Qed.

End FromStream.

(* ------------------------------------------------------------ the concrete entry points (Entry.v) *)

Definition same_stream (p1 p2 : prepared) : Prop :=
  map elem_tok (pr_elems p1) = map elem_tok (pr_elems p2) /\
  term_is_eof (pr_term p1) = term_is_eof (pr_term p2).

Lemma same_stream_fuel p1 p2 : same_stream p1 p2 -> depth_fuel p1 = depth_fuel p2.
Proof.
  intros [H _]. unfold depth_fuel. f_equal. f_equal.
  rewrite <- (map_length elem_tok (pr_elems p1)), H, map_length. reflexivity.
Qed.

Lemma same_stream_start p1 p2 : same_stream p1 p2 -> same_tokens (start_state p1) (start_state p2).
Proof. intros [H1 H2]. constructor; cbn; auto. Qed.

Notation policy p := (policy_ops (pr_lines p)).
Notation parsers_of p := (parsers_at N (list comment) cstate (list comment) scan_err (policy p) (depth_fuel p)).

Lemma stmts_loop_R (p1 p2 : prepared) (Hf : depth_fuel p1 = depth_fuel p2) n :
  forall acc1 acc2 s1 s2,
  list_R _ _ (node_R N N total (list comment) (list comment) total) acc1 acc2 ->
  pstate_R N N total _ _ total cstate cstate total scan_err scan_err total s1 s2 ->
  res_R N N total _ _ total cstate cstate total scan_err scan_err total _ _
        (node_R N N total (list comment) (list comment) total)
    ((fix go (k : nat) (acc : list cnode) (s : cstate_t) : cres cnode :=
         match k with
         | O => Ok (nlist acc) s
         | S k' =>
             match entry_stmt N (list comment) cstate (list comment) scan_err (policy p1) (parsers_of p1) s with
             | Ok st s' => go k' (acc ++ [st]) s'
             | Err e s' => Err e s'
             | Panic n => Panic n
             | Fuel => Fuel
             end
         end) n acc1 s1)
    ((fix go (k : nat) (acc : list cnode) (s : cstate_t) : cres cnode :=
         match k with
         | O => Ok (nlist acc) s
         | S k' =>
             match entry_stmt N (list comment) cstate (list comment) scan_err (policy p2) (parsers_of p2) s with
             | Ok st s' => go k' (acc ++ [st]) s'
             | Err e s' => Err e s'
             | Panic n => Panic n
             | Fuel => Fuel
             end
         end) n acc2 s2).
Proof.
  induction n as [|n IH]; intros acc1 acc2 s1 s2 Ha Hs.
  - constructor; [|exact Hs]. unfold nlist. constructor; try constructor. exact Ha.
  - pose proof (layout_free_stmt_state (policy p1) (policy p2) (depth_fuel p1) s1 s2 Hs) as H.
    rewrite Hf in H at 2.
    destruct H as [x1 x2 xR t1 t2 tR|e1 e2 eR t1 t2 tR|m1 m2 mR|].
    + apply IH; [|exact tR]. apply list_R_app; [exact Ha|]. repeat constructor. exact xR.
    + constructor; assumption.
    + constructor; assumption.
    + constructor.
Qed.

Theorem layout_run_entry e p1 p2 :
  same_stream p1 p2 -> outcome_of (run_entry e p1) = outcome_of (run_entry e p2).
Proof.
  intro H. pose proof (same_stream_fuel _ _ H) as Hf. pose proof (same_stream_start _ _ H) as Hs.
  destruct e; unfold run_entry.
  - rewrite Hf. apply layout_free_file. exact Hs.
  - rewrite Hf. apply layout_free_expression. exact Hs.
  - rewrite Hf. apply layout_free_stmt. exact Hs.
  - eapply res_R_outcome. apply stmts_loop_R; [exact Hf|constructor|apply same_tokens_R; exact Hs].
Qed.

(* the stream of a prepared source is the non-comment part of the scanner's token stream *)
Definition is_comment (t : token) : bool := match t with TComment _ => true | _ => false end.

Lemma group_stream_tokens ts : forall g,
  map elem_tok (fst (group_stream ts g)) =
  filter (fun t => negb (is_comment t)) (map (fun x => snd (fst x)) ts).
Proof.
  induction ts as [|[[p t] p1] r IH]; intro g; cbn [group_stream]; [reflexivity|].
  destruct t; cbn [map filter is_comment negb fst snd].
  - apply IH.
  - specialize (IH []). destruct (group_stream r []) as [es tail]. cbn in *. f_equal. exact IH.
  - specialize (IH []). destruct (group_stream r []) as [es tail]. cbn in *. f_equal. exact IH.
  - specialize (IH []). destruct (group_stream r []) as [es tail]. cbn in *. f_equal. exact IH.
Qed.

Lemma prepare_tokens U src p :
  prepare U src = Some p ->
  map elem_tok (pr_elems p) =
  filter (fun t => negb (is_comment t)) (map (fun x => snd (fst x)) (fst (scan_all_ext U src))).
Proof.
  unfold prepare. destruct (scan_all_ext U src) as [ts e]. cbn [fst].
  pose proof (group_stream_tokens ts []) as H.
  destruct (group_stream ts []) as [es tail]. cbn [fst] in H.
  destruct e; intro Hp; inversion Hp; subst; cbn; exact H.
Qed.

(* ---- shift at the level of prepared sources *)
Definition shifted (k : N) (p1 p2 : prepared) : Type :=
  (elems_rel (G1:=list comment) (G2:=list comment) (shiftR k) (pr_elems p1) (pr_elems p2) *
   match pr_term p1, pr_term p2 with
   | TEof a _, TEof b _ => b = (a + k)%N
   | TErr _ _, TErr _ _ => True
   | _, _ => False
   end)%type.

Lemma elems_rel_length {G1 G2} AR (l1 : list (selem N G1)) (l2 : list (selem N G2)) :
  elems_rel AR l1 l2 -> length l1 = length l2.
Proof.
  revert l2. induction l1 as [|e1 r1 IH]; intros [|e2 r2] H; cbn in *; try contradiction; auto.
  f_equal. apply IH. exact (snd H).
Qed.

(* a fragment whose every position is shifted by k (e.g. because k characters of other
   text precede it), parsed from a state that is otherwise the same, gives the same tree
   shifted by k; the comment policies and line tables may differ arbitrarily *)
Theorem shift_run_expression k p1 p2 n1 t1 :
  shifted k p1 p2 ->
  entry_expression _ _ _ _ _ (policy p1) (parsers_of p1)
    (init_state N (list comment) cstate scan_err 0 {| c_all := []; c_lead := []; c_prev := None |} (pr_elems p1) (pr_term p1)) = Ok n1 t1 ->
  exists n2 t2,
    entry_expression _ _ _ _ _ (policy p2) (parsers_of p2)
      (init_state N (list comment) cstate scan_err k {| c_all := []; c_lead := []; c_prev := None |} (pr_elems p2) (pr_term p2)) = Ok n2 t2 /\
    erase n2 = erase n1 /\ positions n2 = map (fun a => a + k) (positions n1).
Proof.
  intros [He Ht] Hr.
  assert (Hf : depth_fuel p2 = depth_fuel p1).
  { unfold depth_fuel. rewrite (elems_rel_length _ _ _ He). reflexivity. }
  rewrite Hf.
  eapply (shift_expression (policy p1) (policy p2)); try (intro; reflexivity); [|exact Hr].
  constructor; cbn; try reflexivity; try exact He; try exact I; try exact Ht.
Qed.
