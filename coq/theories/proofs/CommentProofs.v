(* C11: the comments returned with an accepted file are exactly the comments of
   the source, once each, in source order.

   The comment list of the crate (Parser.comments, [c_all]) is fed by
   Parser::next and line_end_comment, one group of the stream at a time, through
   [record_comment] (push guarded by `last.pos < pos`).  With strictly
   increasing comment offsets

     - feeding a group that was fed before leaves the list unchanged,
     - feeding the group that comes next appends it,

   so the list always holds the comments of a PREFIX of the groups
   ([pre m], m groups), and that prefix covers everything in front of the
   unread stream.  Backtracking (goback) moves the unread stream back but not
   the list: the invariant relates the state that goes back to the earlier
   state that took the mark through a monotone quantity (the number of recorded
   comments).  That, and "current token = None at the end of a production means
   end of input", is not expressible in Lift.v's [prim_closed]; the variant
   LiftAnchored.v is used. *)
From Coq Require Import List NArith Bool Arith Lia Sorted.
From GoSyn Require Import Token Tok Scanner Ast Core Policy Entry.
From GoSyn.spec Require Import Lex.
From GoSyn.proofs Require Import LexProofs Lift LiftAnchored.
Import ListNotations.
Local Open Scope nat_scope.

(* ------------------------------------------------------------ lists *)

Lemma SSorted_app_inv X (R : X -> X -> Prop) (l1 l2 : list X) :
  StronglySorted R (l1 ++ l2) ->
  StronglySorted R l1 /\ StronglySorted R l2 /\ Forall (fun x => Forall (R x) l2) l1.
Proof.
  induction l1 as [|a l1 IH]; cbn [app]; intros H.
  - repeat split; auto. constructor.
  - inversion H as [|a' l' Hs Hf]; subst. destruct (IH Hs) as (H1 & H2 & H3).
    apply Forall_app in Hf as [Hf1 Hf2]. repeat split; auto. constructor; auto.
Qed.

Lemma skipn_cons_inv X (l : list X) : forall k x r,
  skipn k l = x :: r -> k < length l /\ r = skipn (S k) l.
Proof.
  induction l as [|a l IH]; intros k x r H.
  - destruct k; discriminate H.
  - destruct k as [|k].
    + cbn [skipn] in H. injection H as _ <-. cbn [length skipn]. split; [ lia | reflexivity ].
    + cbn [skipn] in H. apply IH in H as [H1 H2]. cbn [length]. split; [ lia | exact H2 ].
Qed.

Lemma skipn_nil_inv X (l : list X) k : skipn k l = [] -> k <= length l -> k = length l.
Proof.
  intros H Hk. pose proof (skipn_length k l) as Hl. rewrite H in Hl. cbn [length] in Hl. lia.
Qed.

Lemma skipn_cons_nth X Y (f : X -> Y) (l : list X) (tl : list Y) (d : Y) : forall k x r,
  skipn k l = x :: r -> nth k (map f l ++ tl) d = f x.
Proof.
  induction l as [|a l IH]; intros k x r H.
  - destruct k; discriminate H.
  - destruct k as [|k]; cbn [skipn] in H.
    + injection H as <- _. reflexivity.
    + cbn [map app nth]. eapply IH, H.
Qed.

(* ------------------------------------------------------------ record_comment *)

Definition clt (a b : comment) : Prop := (fst a < fst b)%N.
Definition srt (l : list comment) : Prop := StronglySorted clt l.

Lemma srt_of_map l : StronglySorted N.lt (map fst l) -> srt l.
Proof.
  induction l as [|a l IH]; cbn [map]; intros H; [ constructor | ].
  inversion H as [|a' l' Hs Hf]; subst. constructor; [ apply IH, Hs | ].
  apply Forall_forall. intros c Hc. rewrite Forall_forall in Hf. apply Hf, in_map, Hc.
Qed.

Lemma srt_app_l a b : srt (a ++ b) -> srt a.
Proof. intros H. apply SSorted_app_inv in H. apply H. Qed.

(* the last element of a sorted list is the largest *)
Lemma srt_last_le l x : srt (l ++ [x]) -> Forall (fun c => (fst c <= fst x)%N) (l ++ [x]).
Proof.
  intros H. apply SSorted_app_inv in H as (_ & _ & H). apply Forall_app. split.
  - apply Forall_forall. intros c Hc. rewrite Forall_forall in H. specialize (H c Hc).
    inversion H as [|? ? Hlt _]; subst. unfold clt in Hlt. lia.
  - constructor; [ lia | constructor ].
Qed.

(* the comment list after a group went through the comment loop *)
Definition feed (all g : list comment) : list comment :=
  fold_left (fun acc c => record_comment c acc) g all.

Lemma feed_new : forall g all, srt (rev all ++ g) -> feed all g = rev g ++ all.
Proof.
  induction g as [|c g IH]; intros all H; [ reflexivity | ].
  cbn [feed fold_left].
  assert (Hr : record_comment c all = c :: all).
  { destruct all as [|[lp lt] all']; [ reflexivity | ]. cbn [record_comment].
    cbn [rev] in H. apply SSorted_app_inv in H as (_ & _ & H). rewrite Forall_forall in H.
    specialize (H (lp, lt)). assert (Hin : In (lp, lt) (rev all' ++ [(lp, lt)])).
    { apply in_or_app. right. left. reflexivity. }
    specialize (H Hin). inversion H as [|? ? Hlt _]; subst. unfold clt in Hlt. cbn [fst] in Hlt.
    apply N.ltb_lt in Hlt. rewrite Hlt. reflexivity. }
  rewrite Hr. change (feed (c :: all) g = rev (c :: g) ++ all). rewrite IH.
  - cbn [rev]. rewrite <- app_assoc. reflexivity.
  - cbn [rev]. rewrite <- app_assoc. exact H.
Qed.

Lemma feed_old : forall g x all,
  Forall (fun c => (fst c <= fst x)%N) g -> feed (x :: all) g = x :: all.
Proof.
  induction g as [|c g IH]; intros [lp lt] all H; [ reflexivity | ].
  inversion H as [|? ? Hc Hg]; subst. cbn [feed fold_left record_comment].
  cbn [fst] in Hc. apply N.ltb_ge in Hc. rewrite Hc. apply IH, Hg.
Qed.

(* everything in [g] is already recorded *)
Lemma feed_incl P g : srt P -> incl g P -> feed (rev P) g = rev P.
Proof.
  intros Hs Hi. destruct (rev P) as [|x all'] eqn:Hrev.
  - assert (HP : P = []). { rewrite <- (rev_involutive P), Hrev. reflexivity. }
    subst P. destruct g as [|c g]; [ reflexivity | ]. destruct (Hi c (or_introl eq_refl)).
  - assert (HP : P = rev all' ++ [x]). { rewrite <- (rev_involutive P), Hrev. reflexivity. }
    apply feed_old. rewrite HP in Hs. apply srt_last_le in Hs. rewrite <- HP in Hs.
    rewrite Forall_forall in Hs. apply Forall_forall. intros c Hc. apply Hs, Hi, Hc.
Qed.

(* ------------------------------------------------------------ the policy's effect on c_all *)

Section PolicyFacts.
Variable lines : list N.

Lemma comment_loop_all : forall g prev line d,
  c_all (comment_loop lines prev line d g) = feed (c_all d) g.
Proof.
  induction g as [|[pos text] g IH]; intros prev line d; [ reflexivity | ].
  cbn [comment_loop]. destruct (line_info lines pos) as [cline col]. rewrite IH. reflexivity.
Qed.

Lemma p_next_all d prev g tp : c_all (p_next lines d prev g tp) = feed (c_all d) g.
Proof.
  unfold p_next.
  set (d0 := {| c_all := c_all d; c_lead := []; c_prev := None |}).
  set (pv := match c_prev d with Some e => Some e | None => prev end).
  pose proof (comment_loop_all g pv 0%N d0) as H. cbn [c_all d0] in H.
  destruct (c_lead (comment_loop lines pv 0 d0 g)) as [|[cpos ctext] l]; [ exact H | ].
  destruct tp as [pos|]; [ | exact H ].
  destruct (_ <? _)%N; [ cbn [c_all]; exact H | exact H ].
Qed.

Lemma p_line_end_all d semi g ns c c' g' d' :
  p_line_end lines d semi g ns c = (c', g', d') -> feed (c_all d') g' = feed (c_all d) g.
Proof.
  unfold p_line_end. destruct g as [|[pos text] g0].
  - destruct ns; intros [= <- <- <-]; reflexivity.
  - destruct (_ =? _)%N; intros [= <- <- <-]; reflexivity.
Qed.

End PolicyFacts.

(* ------------------------------------------------------------ prefixes of the groups *)

Section Prefix.
Variable gs : list (list comment).

Definition pre (m : nat) : list comment := concat (firstn m gs).

Lemma pre_le a b : a <= b -> exists rest, pre b = pre a ++ rest.
Proof.
  intros H. exists (concat (skipn a (firstn b gs))). unfold pre.
  rewrite <- concat_app. f_equal.
  rewrite <- (firstn_skipn a (firstn b gs)) at 1. f_equal.
  rewrite firstn_firstn. f_equal. lia.
Qed.

Lemma pre_S : forall m, m < length gs -> pre (S m) = pre m ++ nth m gs [].
Proof.
  unfold pre. induction gs as [|g l IH]; intros m H; cbn [length] in H; [ lia | ].
  destruct m as [|m].
  - cbn [firstn concat nth app]. apply app_nil_r.
  - cbn [firstn concat nth] in *. rewrite IH by lia. rewrite app_assoc. reflexivity.
Qed.

Lemma pre_all m : length gs <= m -> pre m = concat gs.
Proof. intros H. unfold pre. rewrite firstn_all2 by exact H. reflexivity. Qed.

Lemma pre_prefix m : exists rest, concat gs = pre m ++ rest.
Proof.
  exists (concat (skipn m gs)). unfold pre. rewrite <- concat_app, firstn_skipn. reflexivity.
Qed.

Lemma pre_length_le a b : a <= b -> length (pre a) <= length (pre b).
Proof. intros H. destruct (pre_le a b H) as [rest ->]. rewrite app_length. lia. Qed.

Lemma pre_incl i m : i < m -> i < length gs -> incl (nth i gs []) (pre m).
Proof.
  intros Him Hi. destruct (pre_le (S i) m Him) as [rest ->]. rewrite pre_S by exact Hi.
  intros c Hc. apply in_or_app. left. apply in_or_app. right. exact Hc.
Qed.

Hypothesis HS : srt (concat gs).

Lemma pre_srt m : srt (pre m).
Proof. destruct (pre_prefix m) as [rest Hr]. rewrite Hr in HS. eapply srt_app_l, HS. Qed.

(* feeding group i when the first m >= i groups are recorded *)
Lemma feed_group i m : i < length gs -> i <= m ->
  feed (rev (pre m)) (nth i gs []) = rev (pre (Nat.max m (S i))).
Proof.
  intros Hi Him. destruct (le_lt_dec m i) as [Hmi|Hlt].
  - assert (m = i) by lia. subst m. replace (Nat.max i (S i)) with (S i) by lia.
    rewrite pre_S by exact Hi. rewrite rev_app_distr. apply feed_new.
    rewrite rev_involutive, <- pre_S by exact Hi. apply pre_srt.
  - replace (Nat.max m (S i)) with m by lia. apply feed_incl; [ apply pre_srt | ].
    apply pre_incl; assumption.
Qed.

(* equal counts: the larger index describes the same list *)
Lemma pre_bump a b : length (pre a) <= length (pre b) ->
  exists b', a <= b' /\ b <= b' /\ b' <= Nat.max a b /\ pre b' = pre b.
Proof.
  intros H. destruct (le_lt_dec a b) as [Hab|Hba].
  - exists b. repeat split; try lia.
  - exists a. repeat split; try lia. destruct (pre_le b a) as [rest Hr]; [ lia | ].
    rewrite Hr, app_length in H. assert (rest = []) by (destruct rest; [ reflexivity | cbn in H; lia ]).
    subst rest. rewrite Hr. apply app_nil_r.
Qed.

End Prefix.

(* ------------------------------------------------------------ the invariant *)

Definition se_group (e : selem N (list comment)) : list comment :=
  match e with SE _ _ _ g => g end.
Definition term_group (t : sterm N (list comment) scan_err) : list comment :=
  match t with TEof _ g => g | TErr _ g => g end.
Definition is_eof (t : sterm N (list comment) scan_err) : Prop :=
  match t with TEof _ _ => True | TErr _ _ => False end.

Section Invariant.
Variable lines : list N.
Variable whole : list (selem N (list comment)).
Variable term : sterm N (list comment) scan_err.

Notation OPS := (policy_ops lines).
Notation n := (length whole).

(* all the groups: one per element, then the group in front of the end *)
Definition groups : list (list comment) := map se_group whole ++ [term_group term].
Notation prefix := (pre groups).

Hypothesis HS : srt (concat groups).

Lemma groups_length : length groups = S n.
Proof. unfold groups. rewrite app_length, map_length. cbn [length]. lia. Qed.

Lemma groups_nth_elem k a0 a1 t g r :
  skipn k whole = SE a0 a1 t g :: r -> nth k groups [] = g.
Proof. intros H. unfold groups. erewrite skipn_cons_nth by exact H. reflexivity. Qed.

Lemma groups_nth_term : nth n groups [] = term_group term.
Proof.
  unfold groups. rewrite app_nth2; rewrite map_length; [ | lia ].
  replace (n - n) with 0 by lia. reflexivity.
Qed.

(* number of recorded comments: never decreases *)
Definition mu (s : cstate_t) : nat := length (c_all (s_d s)).

(* k: how far the unread stream is; j: where the mark is; m: how many groups
   are recorded.  The group of the token at the mark is recorded; an empty mark
   means that the end of input was moved onto. *)
Definition Jw (k j m : nat) (s : cstate_t) : Prop :=
  s_rest s = skipn k whole /\ (k <= n /\ k <= m /\ m <= S n) /\
  s_mark s = skipn j whole /\ j <= n /\ (j < m \/ (j = n /\ ~ is_eof term)) /\
  c_all (s_d s) = rev (prefix m).

Definition J (s : cstate_t) : Prop :=
  s_started s = true /\ s_term s = term /\ exists k j m, Jw k j m s.

Definition InvE (T : nat) (s : cstate_t) : Prop := J s /\ T <= mu s.
Definition Inv (T : nat) (s : cstate_t) : Prop :=
  InvE T s /\ (s_cur s = None -> s_mark s = []) /\ (s_mark s = [] -> is_eof term).
Definition anc (T : nat) (s0 : cstate_t) : Prop := mu s0 <= T.

Lemma InvE_frame T s s' :
  s_started s' = s_started s -> s_term s' = s_term s -> s_rest s' = s_rest s ->
  s_mark s' = s_mark s -> c_all (s_d s') = c_all (s_d s) -> InvE T s -> InvE T s'.
Proof.
  intros E1 E2 E3 E4 E5 [(H1 & H2 & k & j & m & H3 & H4 & H5 & H6 & H7 & H8) HT].
  split.
  - split; [ congruence | ]. split; [ congruence | ]. exists k, j, m.
    unfold Jw. rewrite E3, E4, E5. repeat split; tauto.
  - unfold mu in *. rewrite E5. exact HT.
Qed.

Lemma Inv_frame T s s' :
  s_started s' = s_started s -> s_term s' = s_term s -> s_rest s' = s_rest s ->
  s_mark s' = s_mark s -> s_cur s' = s_cur s -> c_all (s_d s') = c_all (s_d s) ->
  Inv T s -> Inv T s'.
Proof.
  intros E1 E2 E3 E4 E5 E6 (H & Hc & Hm). split; [ eapply InvE_frame; eassumption | ].
  rewrite E4, E5. split; assumption.
Qed.

(* moving onto the next element *)
Lemma step_elem s s' k m a0 a1 t g r :
  s_rest s = skipn k whole -> k <= m -> m <= S n -> c_all (s_d s) = rev (prefix m) ->
  s_rest s = SE a0 a1 t g :: r ->
  s_started s' = true -> s_term s' = term -> s_rest s' = r -> s_mark s' = s_rest s ->
  c_all (s_d s') = feed (c_all (s_d s)) g ->
  J s' /\ mu s <= mu s'.
Proof.
  intros Hk Hkm Hm Hc Hcons E1 E2 E3 E4 E5.
  rewrite Hk in Hcons. pose proof (skipn_cons_inv _ _ _ _ _ Hcons) as [Hkn Hr].
  pose proof (groups_nth_elem _ _ _ _ _ _ Hcons) as Hg.
  assert (Hc' : c_all (s_d s') = rev (prefix (Nat.max m (S k)))).
  { rewrite E5, Hc, <- Hg. apply feed_group; [ exact HS | rewrite groups_length; lia | exact Hkm ]. }
  split.
  - split; [ exact E1 | ]. split; [ exact E2 | ]. exists (S k), k, (Nat.max m (S k)).
    unfold Jw. rewrite E3, E4, Hk, Hc'. repeat split; try lia. exact Hr.
  - unfold mu. rewrite Hc', Hc, !rev_length. apply pre_length_le. lia.
Qed.

(* moving onto the end of input *)
Lemma step_eof s s' k m a g :
  s_rest s = skipn k whole -> k <= n -> k <= m -> m <= S n -> c_all (s_d s) = rev (prefix m) ->
  s_rest s = [] -> term = TEof a g ->
  s_started s' = true -> s_term s' = term -> s_rest s' = [] -> s_mark s' = [] ->
  c_all (s_d s') = feed (c_all (s_d s)) g ->
  J s' /\ mu s <= mu s'.
Proof.
  intros Hk Hkn Hkm Hm Hc Hnil Ht E1 E2 E3 E4 E5.
  rewrite Hk in Hnil. apply skipn_nil_inv in Hnil; [ | exact Hkn ]. subst k.
  assert (Hg : nth n groups [] = g). { rewrite groups_nth_term, Ht. reflexivity. }
  assert (Hc' : c_all (s_d s') = rev (prefix (Nat.max m (S n)))).
  { rewrite E5, Hc, <- Hg. apply feed_group; [ exact HS | rewrite groups_length; lia | exact Hkm ]. }
  replace (Nat.max m (S n)) with (S n) in Hc' by lia.
  split.
  - split; [ exact E1 | ]. split; [ exact E2 | ]. exists n, n, (S n).
    unfold Jw. rewrite E3, E4, Hc', skipn_all. repeat split; try lia.
  - unfold mu. rewrite Hc', Hc, !rev_length. apply pre_length_le. lia.
Qed.

(* ---- the primitives ---- *)

Lemma next_post T s : InvE T s -> post (Inv T) (InvE T) (next OPS s).
Proof.
  intros [(H1 & H2 & k & j & m & H3 & (H4 & H4' & H4'') & H5 & H6 & H7 & H8) HT].
  unfold next. destruct (s_rest s) as [|[a0 a1 t g] r] eqn:Hrest.
  - destruct (s_term s) as [a g|e g] eqn:Hterm.
    + cbn [post].
      match goal with |- Inv T ?s1 => assert (HJ : J s1 /\ mu s <= mu s1) end.
      { eapply step_eof with (k := k) (m := m) (a := a) (g := g);
          try eassumption; try reflexivity; try congruence.
        cbn [s_d d_next policy_ops]. apply p_next_all. }
      destruct HJ as [HJ Hmu]. split; [ split; [ exact HJ | lia ] | ].
      cbn [s_cur s_mark]. split; [ reflexivity | ]. intros _. rewrite <- H2. exact I.
    + cbn [post]. split; [ | exact HT ].
      split; [ reflexivity | ]. split; [ cbn [s_term]; congruence | ].
      assert (k = n) by (apply skipn_nil_inv; [ congruence | exact H4 ]). subst k.
      exists n, n, m. unfold Jw. cbn [s_rest s_mark s_d]. rewrite skipn_all.
      repeat split; try lia; try assumption.
      right. split; [ reflexivity | ]. rewrite <- H2. intros [].
  - cbn [post].
    match goal with |- Inv T ?s1 => assert (HJ : J s1 /\ mu s <= mu s1) end.
    { eapply step_elem with (k := k) (m := m) (g := g) (r := r);
        [ congruence | exact H4' | exact H4'' | exact H8 | exact Hrest | reflexivity | exact H2
        | reflexivity | symmetry; exact Hrest | ].
      cbn [s_d d_next policy_ops]. apply p_next_all. }
    destruct HJ as [HJ Hmu]. split; [ split; [ exact HJ | lia ] | ].
    cbn [s_cur s_mark]. split; intros [=].
Qed.

Lemma line_end_post c T s : Inv T s -> post (Inv T) (InvE T) (line_end_comment OPS c s).
Proof.
  intros HI. pose proof HI as [[(H1 & H2 & k & j & m & H3 & (H4 & H4' & H4'') & H5 & H6 & H7 & H8) HT] _].
  unfold line_end_comment. destruct (negb _); [ exact HI | ].
  destruct (s_rest s) as [|[a0 a1 t g] r] eqn:Hrest.
  - destruct (s_term s) as [a g|e g] eqn:Hterm.
    + destruct (d_line_end OPS (s_d s) (cur_pos s) g None c) as [[c' g'] d'] eqn:Hle.
      cbn [post]. cbn [d_line_end policy_ops] in Hle. apply p_line_end_all in Hle.
      match goal with |- Inv T ?s1 => assert (HJ : J s1 /\ mu s <= mu s1) end.
      { eapply step_eof with (k := k) (m := m) (a := a) (g := g);
          try eassumption; try reflexivity; try congruence.
        cbn [s_d d_next policy_ops]. rewrite p_next_all. exact Hle. }
      destruct HJ as [HJ Hmu]. split; [ split; [ exact HJ | lia ] | ].
      cbn [s_cur s_mark]. split; [ reflexivity | ]. intros _. rewrite <- H2. exact I.
    + cbn [post]. split; [ | exact HT ].
      split; [ reflexivity | ]. split; [ cbn [s_term]; congruence | ].
      assert (k = n) by (apply skipn_nil_inv; [ congruence | exact H4 ]). subst k.
      exists n, n, m. unfold Jw. cbn [s_rest s_mark s_d]. rewrite skipn_all.
      repeat split; try lia; try assumption.
      right. split; [ reflexivity | ]. rewrite <- H2. intros [].
  - destruct (d_line_end OPS (s_d s) (cur_pos s) g (Some a0) c) as [[c' g'] d'] eqn:Hle.
    cbn [post]. cbn [d_line_end policy_ops] in Hle. apply p_line_end_all in Hle.
    match goal with |- Inv T ?s1 => assert (HJ : J s1 /\ mu s <= mu s1) end.
    { eapply step_elem with (k := k) (m := m) (g := g) (r := r);
        [ congruence | exact H4' | exact H4'' | exact H8 | exact Hrest | reflexivity | exact H2
        | reflexivity | symmetry; exact Hrest | ].
      cbn [s_d d_next policy_ops]. rewrite p_next_all. exact Hle. }
    destruct HJ as [HJ Hmu]. split; [ split; [ exact HJ | lia ] | ].
    cbn [s_cur s_mark]. split; intros [=].
Qed.

Lemma goback_post T0 T s0 s :
  Inv T0 s0 -> InvE T s -> anc T s0 -> post (Inv T) (InvE T) (goback OPS (preback s0) s).
Proof.
  intros [[(_ & _ & k0 & j0 & m0 & _ & (_ & _ & Hm0) & G5 & G6 & G7 & G8) _] [_ Gm]].
  intros [(H1 & H2 & k & j & m & H3 & (H4 & H4' & H4'') & H5 & H6 & H7 & H8) HT] Ha.
  (* the state that took the mark has recorded no more than the state that goes back *)
  assert (Hmu : length (prefix m0) <= length (prefix m)).
  { unfold anc, mu in *. rewrite G8, H8, !rev_length in *. lia. }
  destruct (pre_bump groups m0 m Hmu) as (m' & B1 & B2 & B3 & B4).
  unfold goback, preback. destruct (s_mark s0) as [|[a0 a1 t g] r] eqn:Hmark.
  - destruct (s_term s) as [a g|e g] eqn:Hterm; [ | exact I ]. cbn [post].
    assert (j0 = n) by (apply skipn_nil_inv; [ congruence | exact G6 ]). subst j0.
    assert (He : is_eof term) by (rewrite <- H2; exact I).
    assert (n < m0) by tauto.
    split; [ split | ].
    + split; [ exact H1 | ]. split; [ cbn [s_term]; congruence | ].
      exists n, n, m'. unfold Jw. cbn [s_rest s_mark s_d d_goback policy_ops].
      rewrite skipn_all, B4. repeat split; try lia. exact H8.
    + exact HT.
    + cbn [s_cur s_mark]. split; [ reflexivity | intros _; exact He ].
  - cbn [post]. symmetry in G5. pose proof (skipn_cons_inv _ _ _ _ _ G5) as [Hj0 Hr].
    assert (j0 < m0) by (destruct G7 as [G7|[G7 _]]; lia).
    split; [ split | ].
    + split; [ exact H1 | ]. split; [ cbn [s_term]; congruence | ].
      exists (S j0), j0, m'. unfold Jw. cbn [s_rest s_mark s_d d_goback policy_ops].
      rewrite B4. repeat split; try lia; try assumption. symmetry. exact G5.
    + exact HT.
    + cbn [s_cur s_mark]. split; intros [=].
Qed.

Lemma comment_closed :
  anc_closed OPS Inv InvE anc (fun T => T) (fun T => T) (fun T => T).
Proof.
  split.
  - intros T s H. apply H.
  - auto.
  - auto.
  - intros T s H. eapply Inv_frame; [ .. | exact H ]; reflexivity.
  - intros T s H. eapply Inv_frame; [ .. | exact H ]; reflexivity.
  - intros T s H. eapply InvE_frame; [ .. | exact H ]; reflexivity.
  - intros T s H. eapply Inv_frame; [ .. | exact H ]; reflexivity.
  - intros T s s' _ H. eapply Inv_frame; [ .. | exact H ]; reflexivity.
  - intros T s _ H. eapply Inv_frame; [ .. | exact H ]; reflexivity.
  - intros T s H. eapply InvE_frame; [ .. | apply H ]; reflexivity.
  - intros T s H. eapply Inv_frame; [ .. | exact H ]; reflexivity.
  - intros T s H. eapply InvE_frame; [ .. | exact H ]; reflexivity.
  - intros T s H. apply next_post. eapply InvE_frame; [ .. | apply H ]; reflexivity.
  - intros T s H. eapply InvE_frame; [ .. | apply H ]; reflexivity.
  - intros T s c s' Hd H. unfold drain in Hd. cbn [d_drain policy_ops p_drain] in Hd.
    injection Hd as _ <-. eapply Inv_frame; [ .. | exact H ]; reflexivity.
  - intros T s H. apply next_post, H.
  - intros T0 T s0 s. apply goback_post.
  - intros T s H. exists (mu s). pose proof H as [[HJ HT] Hx].
    split; [ split; [ split; [ exact HJ | lia ] | exact Hx ] | ].
    split; [ unfold anc; lia | ].
    split; [ intros s' [[HJ' HT'] Hx']; split; [ split; [ exact HJ' | lia ] | exact Hx' ] | ].
    split; [ intros s' [HJ' HT']; split; [ exact HJ' | lia ] | ].
    intros s0 Ha. unfold anc in *. lia.
  - intros c T s. apply line_end_post.
Qed.

(* the first Parser::next of a fresh parser establishes the invariant *)
Lemma first_next_Inv s0 s1 :
  s_rest s0 = whole -> s_term s0 = term -> c_all (s_d s0) = [] ->
  next OPS s0 = Ok tt s1 -> Inv 0 s1.
Proof.
  intros Hr Ht Hd Hn. unfold next in Hn.
  destruct (s_rest s0) as [|[a0 a1 t g] r] eqn:Hrest.
  - destruct (s_term s0) as [a g|e g] eqn:Hterm; [ | discriminate Hn ]. injection Hn as <-.
    match goal with |- Inv 0 ?s1 => assert (HJ : J s1 /\ mu s0 <= mu s1) end.
    { eapply (step_eof s0 _ 0 0 a g);
        [ cbn [skipn]; congruence | lia | lia | lia | rewrite Hd; reflexivity | exact Hrest
        | congruence | reflexivity | cbn [s_term]; congruence | reflexivity | reflexivity | ].
      cbn [s_d d_next policy_ops]. apply p_next_all. }
    destruct HJ as [HJ _]. split; [ split; [ exact HJ | lia ] | ].
    cbn [s_cur s_mark]. split; [ reflexivity | intros _; rewrite <- Ht; exact I ].
  - injection Hn as <-.
    match goal with |- Inv 0 ?s1 => assert (HJ : J s1 /\ mu s0 <= mu s1) end.
    { eapply (step_elem s0 _ 0 0 a0 a1 t g r);
        [ cbn [skipn]; congruence | lia | lia | rewrite Hd; reflexivity | exact Hrest
        | reflexivity | cbn [s_term]; exact Ht | reflexivity | symmetry; exact Hrest | ].
      cbn [s_d d_next policy_ops]. apply p_next_all. }
    destruct HJ as [HJ _]. split; [ split; [ exact HJ | lia ] | ].
    cbn [s_cur s_mark]. split; intros [=].
Qed.

(* the first Parser::next of a fresh parser fails (scanner error before any token) *)
Lemma first_next_err_InvE s0 e s1 :
  s_rest s0 = whole -> s_term s0 = term -> c_all (s_d s0) = [] ->
  next OPS s0 = Err e s1 -> InvE 0 s1.
Proof.
  intros Hr Ht Hd Hn. unfold next in Hn.
  destruct (s_rest s0) as [|[a0 a1 t g] r] eqn:Hrest; [ | discriminate Hn ].
  destruct (s_term s0) as [a g|e0 g] eqn:Hterm; [ discriminate Hn | ]. injection Hn as _ <-.
  split; [ | lia ]. split; [ reflexivity | ]. split; [ cbn [s_term]; congruence | ].
  exists 0, 0, 0. unfold Jw. cbn [s_rest s_mark s_d]. rewrite <- Hr. cbn [length skipn].
  repeat split; try lia; try assumption.
  right. split; [ reflexivity | ]. rewrite <- Ht. intros [].
Qed.

(* the recorded comments are a prefix of the comments of the stream *)
Lemma InvE_prefix T s : InvE T s -> exists rest, concat groups = rev (c_all (s_d s)) ++ rest.
Proof.
  intros [(_ & _ & k & j & m & _ & _ & _ & _ & _ & H8) _]. rewrite H8, rev_involutive.
  apply pre_prefix.
Qed.

(* a parser that is fresh, or that earlier entry-point calls left behind *)
Definition Pre (s : cstate_t) : Prop :=
  Inv 0 s \/ (s_started s = false /\ s_rest s = whole /\ s_term s = term /\ c_all (s_d s) = []).

Lemma Pre_prefix s : Pre s -> exists rest, concat groups = rev (c_all (s_d s)) ++ rest.
Proof.
  intros [H|(_ & _ & _ & H)]; [ eapply InvE_prefix, H | ].
  rewrite H. exists (concat groups). reflexivity.
Qed.

End Invariant.

(* ------------------------------------------------------------ the end of parse_file *)

Section FileEnd.
Variables (A G D C E : Type) (OPS : ops A G D C).
Notation pstate := (Core.pstate A G D E).
Notation res := (Core.res A G D E).
Variable P : parsers A G D C E.

Lemma bind_Ok_inv X Y (m : res X) (f : X -> pstate -> res Y) y s' :
  bind m f = Ok y s' -> exists x s1, m = Ok x s1 /\ f x s1 = Ok y s'.
Proof. destruct m; cbn [bind]; intros H; try discriminate H. eauto. Qed.

(* the declarations loop stops only when there is no current token *)
Lemma decls_loop_cur_none : forall fuel acc s x s',
  decls_loop OPS P fuel acc s = Ok x s' -> s_cur s' = None.
Proof.
  induction fuel as [|f IH]; intros acc s x s' H; cbn [decls_loop] in H; [ discriminate H | ].
  destruct (s_cur s) eqn:Hc.
  - apply bind_Ok_inv in H as (d & s1 & _ & H). eapply IH, H.
  - injection H as _ <-. exact Hc.
Qed.

Lemma parse_file_cur_none s x s' : parse_file OPS P s = Ok x s' -> s_cur s' = None.
Proof.
  unfold parse_file. intros H.
  apply bind_Ok_inv in H as (u & s0 & _ & H). destruct (drain OPS s0) as [docs s1].
  apply bind_Ok_inv in H as (pkg & s2 & _ & H).
  apply bind_Ok_inv in H as (b & s3 & _ & H).
  apply bind_Ok_inv in H as (imports & s4 & _ & H).
  apply bind_Ok_inv in H as (decls & s5 & Hd & H).
  injection H as _ <-. eapply decls_loop_cur_none, Hd.
Qed.

(* Parser::parse_file on a fresh parser: the first Parser::next, then as on a
   started parser *)
Lemma parse_file_start s s1 :
  s_started s = false -> next OPS s = Ok tt s1 -> parse_file OPS P s = parse_file OPS P s1.
Proof.
  intros Hs Hn. assert (Hs1 : s_started s1 = true).
  { unfold next in Hn. destruct (s_rest s) as [|[a0 a1 t g] r]; [ destruct (s_term s) | ];
      try discriminate Hn; injection Hn as <-; reflexivity. }
  unfold parse_file, ensure_started. rewrite Hs, Hs1, Hn. reflexivity.
Qed.

Lemma parse_file_start_err s e s1 x s' :
  s_started s = false -> next OPS s = Err e s1 -> parse_file OPS P s <> Ok x s'.
Proof.
  intros Hs Hn. unfold parse_file, ensure_started. rewrite Hs, Hn. cbn [bind]. discriminate.
Qed.

Lemma next_started (s s1 : pstate) : next OPS s = Ok tt s1 -> s_started s1 = true.
Proof.
  intros Hn. unfold next in Hn. destruct (s_rest s) as [|[a0 a1 t g] r]; [ destruct (s_term s) | ];
    try discriminate Hn; injection Hn as <-; reflexivity.
Qed.

Lemma entry_expression_start s s1 :
  s_started s = false -> next OPS s = Ok tt s1 ->
  entry_expression OPS P s = entry_expression OPS P s1.
Proof.
  intros Hs Hn. pose proof (next_started _ _ Hn) as Hs1.
  unfold entry_expression, ensure_started. rewrite Hs, Hs1, Hn. reflexivity.
Qed.

Lemma entry_stmt_start s s1 :
  s_started s = false -> next OPS s = Ok tt s1 ->
  entry_stmt OPS P s = entry_stmt OPS P s1.
Proof.
  intros Hs Hn. pose proof (next_started _ _ Hn) as Hs1.
  unfold entry_stmt, ensure_started. rewrite Hs, Hs1, Hn. reflexivity.
Qed.

End FileEnd.

(* ------------------------------------------------------------ C11 *)

Definition all_comments (p : prepared) : list comment :=
  concat (map se_group (pr_elems p)) ++ term_group (pr_term p).

(* comment offsets strictly increase along the stream *)
Definition stream_sorted (p : prepared) : Prop :=
  StronglySorted N.lt (map fst (all_comments p)).

Lemma concat_groups whole term :
  concat (groups whole term) = concat (map se_group whole) ++ term_group term.
Proof. unfold groups. rewrite concat_app. cbn [concat]. rewrite app_nil_r. reflexivity. Qed.

(* where an accepted file leaves the parser *)
Lemma file_final : forall (p : prepared) nd s',
  stream_sorted p ->
  run_entry EFile p = Ok nd s' ->
  Inv (pr_elems p) (pr_term p) 0 s' /\ s_cur s' = None.
Proof.
  intros p nd s' HS H. unfold run_entry in H. cbv zeta in H.
  set (lines := pr_lines p) in *. set (whole := pr_elems p) in *. set (term := pr_term p) in *.
  assert (HS' : srt (concat (groups whole term))).
  { rewrite concat_groups. apply srt_of_map. exact HS. }
  destruct (next (policy_ops lines) (start_state p)) as [[] s1|e s1| |] eqn:Hn.
  - rewrite (parse_file_start _ _ _ _ _ _ _ (start_state p) s1 eq_refl Hn) in H.
    assert (HI : Inv whole term 0 s1).
    { eapply (first_next_Inv lines whole term HS' (start_state p) s1); [ | | | exact Hn ]; reflexivity. }
    pose proof (apres_parse_file _ _ _ _ _ _ _ _ _ _ _ _ _
                  (comment_closed lines whole term HS') (depth_fuel p) 0 s1 HI) as Hp.
    rewrite H in Hp. cbn [post] in Hp.
    split; [ exact Hp | ]. exact (parse_file_cur_none _ _ _ _ _ _ _ _ _ _ H).
  - exfalso. eapply parse_file_start_err; [ | exact Hn | exact H ]. reflexivity.
  - exfalso. unfold next, start_state, init_state in Hn. cbn [s_rest s_term] in Hn.
    destruct (pr_elems p) as [|[]]; [ destruct (pr_term p) | ]; discriminate Hn.
  - exfalso. unfold next, start_state, init_state in Hn. cbn [s_rest s_term] in Hn.
    destruct (pr_elems p) as [|[]]; [ destruct (pr_term p) | ]; discriminate Hn.
Qed.

Theorem file_comments_complete : forall (p : prepared) nd s',
  stream_sorted p ->
  run_entry EFile p = Ok nd s' ->
  rev (c_all (s_d s')) = all_comments p.
Proof.
  intros p nd s' HS H. destruct (file_final p nd s' HS H) as [Hp Hcur].
  set (whole := pr_elems p) in *. set (term := pr_term p) in *.
  destruct Hp as [[(Hst & Ht & k & j & m & H3 & (H4 & H4' & H4'') & H5 & H6 & H7 & H8) _] [Hc Hm]].
  specialize (Hc Hcur). specialize (Hm Hc).
  assert (j = length whole) by (apply skipn_nil_inv; [ congruence | exact H6 ]). subst j.
  assert (m = S (length whole)) by (destruct H7 as [H7|[_ H7]]; [ lia | tauto ]). subst m.
  rewrite H8, rev_involutive, pre_all by (rewrite groups_length; lia).
  apply concat_groups.
Qed.

(* a file is accepted only if the scanner reached the end of the source: after
   a scanner error parse_file does not return Ok *)
Theorem file_accepted_eof : forall (p : prepared) nd s',
  stream_sorted p ->
  run_entry EFile p = Ok nd s' ->
  exists a g, pr_term p = TEof a g.
Proof.
  intros p nd s' HS H. destruct (file_final p nd s' HS H) as [[_ [Hc Hm]] Hcur].
  specialize (Hm (Hc Hcur)). destruct (pr_term p) as [a g|e g]; [ eauto | destruct Hm ].
Qed.

(* strictly increasing offsets: no comment is returned twice *)
Lemma ssorted_lt_NoDup (l : list N) : StronglySorted N.lt l -> NoDup l.
Proof.
  induction 1 as [|a l Hs IH Hf]; constructor; [ | exact IH ].
  intros Hin. rewrite Forall_forall in Hf. specialize (Hf a Hin). lia.
Qed.

Theorem file_comments_nodup : forall (p : prepared) nd s',
  stream_sorted p ->
  run_entry EFile p = Ok nd s' ->
  NoDup (map fst (rev (c_all (s_d s')))).
Proof.
  intros p nd s' HS H. rewrite (file_comments_complete p nd s' HS H).
  apply ssorted_lt_NoDup, HS.
Qed.

Lemma stream_sorted_of_Sorted p : Sorted N.lt (map fst (all_comments p)) -> stream_sorted p.
Proof. intros H. apply Sorted_StronglySorted; [ intros x y z; apply N.lt_trans | exact H ]. Qed.

(* ------------------------------------------------------------ the other entry points:
   Parser::expression, Parser::parse_stmt (once or repeatedly on one parser) stop
   before the end of input; the list is a prefix of the comments of the stream,
   at Ok and at Err *)

Definition comments_prefix (p : prepared) (s' : cstate_t) : Prop :=
  exists rest, all_comments p = rev (c_all (s_d s')) ++ rest.

Section Entries.
Variable lines : list N.
Variable whole : list (selem N (list comment)).
Variable term : sterm N (list comment) scan_err.
Hypothesis HS : srt (concat (groups whole term)).
Variable d : nat.
Notation OPS := (policy_ops lines).
Notation PS := (parsers_at OPS d).

Lemma pre_entry_stmt s : Pre whole term s ->
  post (Inv whole term 0) (InvE whole term 0) (entry_stmt OPS PS s).
Proof.
  intros [H|(Hst & Hr & Ht & Hd)].
  - exact (apres_entry_stmt _ _ _ _ _ _ _ _ _ _ _ _ _ (comment_closed lines whole term HS) d 0 s H).
  - destruct (next OPS s) as [[] s1|e s1| |] eqn:Hn.
    + rewrite (entry_stmt_start _ _ _ _ _ _ _ s s1 Hst Hn).
      apply (apres_entry_stmt _ _ _ _ _ _ _ _ _ _ _ _ _ (comment_closed lines whole term HS) d 0 s1).
      eapply first_next_Inv; eassumption.
    + unfold entry_stmt, ensure_started. rewrite Hst, Hn. cbn [bind post].
      eapply first_next_err_InvE; eassumption.
    + unfold entry_stmt, ensure_started. rewrite Hst, Hn. exact I.
    + unfold entry_stmt, ensure_started. rewrite Hst, Hn. exact I.
Qed.

Lemma pre_entry_expression s : Pre whole term s ->
  post (Inv whole term 0) (InvE whole term 0) (entry_expression OPS PS s).
Proof.
  intros [H|(Hst & Hr & Ht & Hd)].
  - exact (apres_entry_expression _ _ _ _ _ _ _ _ _ _ _ _ _ (comment_closed lines whole term HS) d 0 s H).
  - destruct (next OPS s) as [[] s1|e s1| |] eqn:Hn.
    + rewrite (entry_expression_start _ _ _ _ _ _ _ s s1 Hst Hn).
      apply (apres_entry_expression _ _ _ _ _ _ _ _ _ _ _ _ _ (comment_closed lines whole term HS) d 0 s1).
      eapply first_next_Inv; eassumption.
    + unfold entry_expression, ensure_started. rewrite Hst, Hn. cbn [bind post].
      eapply first_next_err_InvE; eassumption.
    + unfold entry_expression, ensure_started. rewrite Hst, Hn. exact I.
    + unfold entry_expression, ensure_started. rewrite Hst, Hn. exact I.
Qed.

Lemma pre_parse_file s : Pre whole term s ->
  post (Inv whole term 0) (InvE whole term 0) (parse_file OPS PS s).
Proof.
  intros [H|(Hst & Hr & Ht & Hd)].
  - exact (apres_parse_file _ _ _ _ _ _ _ _ _ _ _ _ _ (comment_closed lines whole term HS) d 0 s H).
  - destruct (next OPS s) as [[] s1|e s1| |] eqn:Hn.
    + rewrite (parse_file_start _ _ _ _ _ _ _ s s1 Hst Hn).
      apply (apres_parse_file _ _ _ _ _ _ _ _ _ _ _ _ _ (comment_closed lines whole term HS) d 0 s1).
      eapply first_next_Inv; eassumption.
    + unfold parse_file, ensure_started. rewrite Hst, Hn. cbn [bind post].
      eapply first_next_err_InvE; eassumption.
    + unfold parse_file, ensure_started. rewrite Hst, Hn. exact I.
    + unfold parse_file, ensure_started. rewrite Hst, Hn. exact I.
Qed.

(* Entry.run_entry's loop for EStmts *)
Fixpoint stmts_go (k : nat) (acc : list cnode) (s : cstate_t) : cres cnode :=
  match k with
  | O => Ok (nlist acc) s
  | S k' =>
      match entry_stmt OPS PS s with
      | Ok st s' => stmts_go k' (acc ++ [st]) s'
      | Err e s' => Err e s'
      | Panic n => Panic n
      | Fuel => Fuel
      end
  end.

Lemma pre_stmts_go : forall k acc s, Pre whole term s ->
  post (Pre whole term) (InvE whole term 0) (stmts_go k acc s).
Proof.
  induction k as [|k IH]; intros acc s H; cbn [stmts_go]; [ exact H | ].
  pose proof (pre_entry_stmt s H) as Hp.
  destruct (entry_stmt OPS PS s) as [st s'|e s'| |]; cbn [post] in *; [ | exact Hp | exact I | exact I ].
  apply IH. left. exact Hp.
Qed.

End Entries.

Theorem entry_comments_prefix : forall e (p : prepared),
  stream_sorted p ->
  post (comments_prefix p) (comments_prefix p) (run_entry e p).
Proof.
  intros e p HS.
  assert (HS' : srt (concat (groups (pr_elems p) (pr_term p)))).
  { rewrite concat_groups. apply srt_of_map. exact HS. }
  assert (H0 : Pre (pr_elems p) (pr_term p) (start_state p)).
  { right. repeat split. }
  assert (HE : forall s, InvE (pr_elems p) (pr_term p) 0 s -> comments_prefix p s).
  { intros s H. destruct (InvE_prefix _ _ _ _ H) as [rest Hr]. exists rest.
    unfold all_comments. rewrite <- concat_groups. exact Hr. }
  assert (HP : forall s, Pre (pr_elems p) (pr_term p) s -> comments_prefix p s).
  { intros s H. destruct (Pre_prefix _ _ _ H) as [rest Hr]. exists rest.
    unfold all_comments. rewrite <- concat_groups. exact Hr. }
  destruct e as [| | |n].
  - eapply post_weaken; [ exact (pre_parse_file (pr_lines p) _ _ HS' (depth_fuel p) _ H0) | | exact HE ].
    intros s H. apply HE, H.
  - eapply post_weaken; [ exact (pre_entry_expression (pr_lines p) _ _ HS' (depth_fuel p) _ H0) | | exact HE ].
    intros s H. apply HE, H.
  - eapply post_weaken; [ exact (pre_entry_stmt (pr_lines p) _ _ HS' (depth_fuel p) _ H0) | | exact HE ].
    intros s H. apply HE, H.
  - change (run_entry (EStmts n) p)
      with (stmts_go (pr_lines p) (depth_fuel p) n [] (start_state p)).
    eapply post_weaken; [ exact (pre_stmts_go (pr_lines p) _ _ HS' (depth_fuel p) n [] _ H0) | exact HP | exact HE ].
Qed.

Theorem entry_comments_prefix_ok : forall e (p : prepared) nd s',
  stream_sorted p -> run_entry e p = Ok nd s' ->
  exists rest, all_comments p = rev (c_all (s_d s')) ++ rest.
Proof. intros e p nd s' HS H. pose proof (entry_comments_prefix e p HS) as Hp. rewrite H in Hp. exact Hp. Qed.

Theorem entry_comments_prefix_err : forall e (p : prepared) er s',
  stream_sorted p -> run_entry e p = Err er s' ->
  exists rest, all_comments p = rev (c_all (s_d s')) ++ rest.
Proof. intros e p er s' HS H. pose proof (entry_comments_prefix e p HS) as Hp. rewrite H in Hp. exact Hp. Qed.

(* ------------------------------------------------------------ prepared sources are sorted *)

Fixpoint comments_of (ts : list (N * token * N)) : list comment :=
  match ts with
  | [] => []
  | (p, TComment text, _) :: r => (p, text) :: comments_of r
  | _ :: r => comments_of r
  end.

Lemma group_stream_comments : forall ts g es tail,
  group_stream ts g = (es, tail) ->
  concat (map se_group es) ++ tail = rev g ++ comments_of ts.
Proof.
  induction ts as [|[[p t] e] r IH]; intros g es tail H; cbn [group_stream] in H.
  - injection H as <- <-. cbn [map concat comments_of app]. symmetry. apply app_nil_r.
  - destruct t as [text|kw|o|lk text].
    + apply IH in H. rewrite H. cbn [rev comments_of]. rewrite <- app_assoc. reflexivity.
    + destruct (group_stream r []) as [es0 tail0] eqn:Hg. injection H as <- <-.
      apply IH in Hg. cbn [map concat se_group comments_of rev app] in *.
      rewrite <- app_assoc. f_equal. exact Hg.
    + destruct (group_stream r []) as [es0 tail0] eqn:Hg. injection H as <- <-.
      apply IH in Hg. cbn [map concat se_group comments_of rev app] in *.
      rewrite <- app_assoc. f_equal. exact Hg.
    + destruct (group_stream r []) as [es0 tail0] eqn:Hg. injection H as <- <-.
      apply IH in Hg. cbn [map concat se_group comments_of rev app] in *.
      rewrite <- app_assoc. f_equal. exact Hg.
Qed.

(* a comment is a real token: it is not empty, so everything after it starts later *)
Lemma tiling_comments_sorted ws src : forall start ts, tiling ws src start ts ->
  StronglySorted N.lt (map fst (comments_of ts)) /\
  Forall (fun c => (start <= fst c)%N) (comments_of ts).
Proof.
  intros start ts H. induction H as [start|start p t e toks Hsp Hpe Hel Hws Htile Ht [IH1 IH2]].
  - split; constructor.
  - assert (Hrest : Forall (fun c => (start <= fst c)%N) (comments_of toks)).
    { eapply Forall_impl; [ | exact IH2 ]. cbv beta. intros c Hc. lia. }
    destruct t as [text|kw|o|lk text]; cbn [comments_of]; try (split; assumption).
    assert (Hlt : (p < e)%N).
    { destruct Htile as [(Hne & He & _)|(Hsyn & _)]; [ | discriminate Hsyn ].
      cbn [tok_text] in Hne, He. unfold lenN in He. destruct text as [|c0 text]; [ congruence | ].
      cbn [length] in He. lia. }
    split.
    + cbn [map fst]. constructor; [ exact IH1 | ].
      apply Forall_forall. intros x Hx. apply in_map_iff in Hx as (c & <- & Hc).
      rewrite Forall_forall in IH2. specialize (IH2 c Hc). cbv beta in IH2. lia.
    + constructor; [ cbn [fst]; exact Hsp | exact Hrest ].
Qed.

Theorem prepared_sorted : forall U src p, prepare U src = Some p -> stream_sorted p.
Proof.
  intros U src p. unfold prepare.
  destruct (scan_all_ext U src) as [ts e] eqn:Hs.
  destruct (group_stream ts []) as [es tail] eqn:Hg.
  apply scan_all_ext_tiles in Hs as (_ & Ht & _).
  apply tiling_comments_sorted in Ht as [Hsorted _].
  apply group_stream_comments in Hg. cbn [rev app] in Hg.
  destruct e as [s|q k s|]; intros H; [ | | discriminate H ]; injection H as <-;
    unfold stream_sorted, all_comments; cbn [pr_elems pr_term term_group];
    rewrite Hg; exact Hsorted.
Qed.

(* the comments of the stream are the scanner's comment tokens, in order, with
   the offsets and texts the scanner reported (C07: the text is the source text
   at that offset) *)
Theorem prepared_all_comments : forall U src p, prepare U src = Some p ->
  all_comments p = comments_of (fst (scan_all_ext U src)).
Proof.
  intros U src p. unfold prepare.
  destruct (scan_all_ext U src) as [ts e] eqn:Hs.
  destruct (group_stream ts []) as [es tail] eqn:Hg.
  apply group_stream_comments in Hg. cbn [rev app] in Hg.
  destruct e as [s|q k s|]; intros H; [ | | discriminate H ]; injection H as <-;
    unfold all_comments; cbn [pr_elems pr_term term_group fst]; exact Hg.
Qed.

Print Assumptions file_comments_complete.
Print Assumptions entry_comments_prefix_ok.
Print Assumptions entry_comments_prefix_err.
Print Assumptions file_accepted_eof.
Print Assumptions file_comments_nodup.
Print Assumptions prepared_all_comments.
Print Assumptions prepared_sorted.
