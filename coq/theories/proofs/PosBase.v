(* POSITIONS NAME TOKENS (C05, second half): every position stored in a node of
   a returned tree is the start of an element of the stream the parser was
   started on, and the token of that element is the one the node's layout says
   it is (the `(` and `)` of a call, the operator of an operation, the keyword
   of a statement, ...).

   RESULT-LEVEL framework in the style of AccountBase.v, but simpler: the
   stream the parser was started on is a fixed list [whole];
     [at_tok p t]      some element of [whole] starts at p and carries token t
     [named p f]       ... for a token t with f t = true
     [sinv s]          the current token, the unread stream and the
                       backtracking mark of s all come from [whole]
     [pos_spec n]      the (position, token predicate) obligations of the node n
     [pgood n]         every node of the tree n meets its obligations (and has
                       the number of positions / the attributes of its layout)
     [PS good p]       whenever sinv s and p s = Ok r s': sinv s' and good r.
   A production that receives already built nodes states what it needs of them
   as premises of [good] (e.g. [fun r => pgood x -> pgood r]). *)
From Coq Require Import List Bool Arith NArith Lia.
From GoSyn Require Import Token Tok Ast Core.
From GoSyn.proofs Require Import Lift AccountBase.
Import ListNotations.

Arguments assign_is_range {A C} st.
Arguments chan_dir {A C} n.

(* ------------------------------------------------------------------ token predicates *)

Definition is_tk (k : tkind) (t : token) : bool := tok_is t k.
Definition is_op (o : operator) : token -> bool := is_tk (KOp o).
Definition is_kw (k : keyword) : token -> bool := is_tk (KKw k).
(* a literal token of kind k with text v *)
Definition is_lit_of (k : litkind) (v : str) (t : token) : bool :=
  match t with
  | TLiteral k' v' => lk_eqb k' k && str_eqb v' v
  | _ => false
  end.
(* the Ident "." of `import . "x"` is built from the operator token *)
Definition is_ident_of (name : str) (t : token) : bool :=
  is_lit_of LIdent name t || (is_op ODot t && str_eqb name [46%N]).
Definition is_open (t : token) : bool :=
  is_op OParenLeft t || is_op OBarackLeft t || is_op OBraceLeft t.
Definition is_close (t : token) : bool :=
  is_op OParenRight t || is_op OBarackRight t || is_op OBraceRight t.

Lemma op_eqb_refl o : op_eqb o o = true.
Proof. apply N.eqb_refl. Qed.
Lemma kw_eqb_refl k : kw_eqb k k = true.
Proof. apply N.eqb_refl. Qed.
Lemma lk_eqb_refl k : lk_eqb k k = true.
Proof. apply N.eqb_refl. Qed.

Lemma is_op_refl o : is_op o (TOperator o) = true.
Proof. apply op_eqb_refl. Qed.
Lemma is_kw_refl k : is_kw k (TKeyword k) = true.
Proof. apply kw_eqb_refl. Qed.
Lemma is_lit_of_refl k v : is_lit_of k v (TLiteral k v) = true.
Proof. cbn. rewrite lk_eqb_refl, str_eqb_refl. reflexivity. Qed.
Lemma is_ident_of_refl v : is_ident_of v (TLiteral LIdent v) = true.
Proof. unfold is_ident_of. rewrite is_lit_of_refl. reflexivity. Qed.
Lemma is_ident_of_dot : is_ident_of [46%N] (TOperator ODot) = true.
Proof. reflexivity. Qed.

Lemma is_tk_inv k t : is_tk k t = true ->
  match k with
  | KKw kw => t = TKeyword kw
  | KOp o => t = TOperator o
  | KLit lk => exists v, t = TLiteral lk v
  end.
Proof.
  unfold is_tk, tok_is. destruct t as [c|kw|o|lk v]; destruct k as [kw'|lk'|o']; try discriminate.
  - intros H. apply kw_eqb_eq in H. congruence.
  - intros H. apply op_eqb_eq in H. congruence.
  - intros H. unfold lk_eqb in H. apply N.eqb_eq in H.
    assert (lk = lk') by (destruct lk; destruct lk'; (reflexivity || discriminate H)).
    subst. eauto.
Qed.

(* ------------------------------------------------------------------ the obligations of a node *)

Section Spec.
Variable A : Type.
Notation obl := (A * (token -> bool))%type.

Definition one (ps : list A) (f : token -> bool) : list obl :=
  match ps with [p] => [(p, f)] | _ => [] end.
Definition two (ps : list A) (f g : token -> bool) : list obl :=
  match ps with [l; r] => [(l, f); (r, g)] | _ => [] end.
(* a declaration: the keyword, or the keyword and the parentheses of a group *)
Definition one_or_three (ps : list A) (f g h : token -> bool) : list obl :=
  match ps with
  | [k] => [(k, f)]
  | [k; l; r] => [(k, f); (l, g); (r, h)]
  | _ => []
  end.
Definition at_op (ats : list attr) : option operator :=
  match ats with AOp o :: _ => Some o | _ => None end.
Definition at_kw (ats : list attr) : option keyword :=
  match ats with AKw k :: _ => Some k | _ => None end.
Definition at_dir (ats : list attr) : option nat :=
  match ats with ADir d :: _ => Some d | _ => None end.

(* (position, predicate): the token that starts at the position satisfies the
   predicate.  EXEMPT: GEmpty [p] (a `;`, real or synthetic, or the `}` that
   ends a statement list); the second position of a TypeChannel with
   direction 0 (`chan T`: it names whatever follows `chan`). *)
Definition own_spec (t : tag) (ps : list A) (ats : list attr) : list obl :=
  match t with
  | GIdent => match ats with AStr name :: _ => one ps (is_ident_of name) | _ => [] end
  | GBasicLit => match ats with ALk k :: AStr v :: _ => one ps (is_lit_of k v) | _ => [] end
  | GStringLit => match ats with AStr v :: _ => one ps (is_lit_of LString v) | _ => [] end
  | GPos => match at_op ats with
            | Some o => one ps (is_op o)            (* the operator of a range clause *)
            | None => one ps (is_op ODotDotDot)     (* the dots of a call *)
            end
  | GCall | GParen => two ps (is_op OParenLeft) (is_op OParenRight)
  | GIndex | GIndexList | GSlice | GTypeMap | GTypeArray | GTypeSlice =>
      two ps (is_op OBarackLeft) (is_op OBarackRight)
  | GEllipsis => one ps (is_op ODotDotDot)
  | GSelector => one ps (is_op ODot)
  | GRange => one ps (is_kw KRange)
  | GStar | GTypePointer => one ps (is_op OStar)
  | GTypeAssert => two ps (is_op ODot) (is_op OParenRight)
  | GOperation | GIncDec | GAssign =>
      match at_op ats with Some o => one ps (is_op o) | None => [] end
  | GFuncType => one ps (is_kw KFunc)
  | GTypeStruct | GLiteralValue | GBlock | GCaseBlock | GCommBlock =>
      two ps (is_op OBraceLeft) (is_op OBraceRight)
  | GTypeChannel =>
      match at_dir ats, ps with
      | Some 0, [c; _] => [(c, is_kw KChan)]
      | Some _, [c; a] => [(c, is_kw KChan); (a, is_op OArrow)]
      | _, _ => []
      end
  | GTypeInterface => one ps (is_kw KInterface)
  | GFieldList => two ps is_open is_close        (* a MATCHING pair: see [pair_ok] *)
  | GGo => one ps (is_kw KGo)
  | GDefer => one ps (is_kw KDefer)
  | GIf => one ps (is_kw KIf)
  | GFor => one ps (is_kw KFor)
  | GReturn => one ps (is_kw KReturn)
  | GSwitch | GTypeSwitch => one ps (is_kw KSwitch)
  | GSelect => one ps (is_kw KSelect)
  | GRangeStmt => two ps (is_kw KFor) (is_kw KRange)
  | GSend => one ps (is_op OArrow)
  | GLabel => one ps (is_op OColon)
  | GBranch => match at_kw ats with Some k => one ps (is_kw k) | None => [] end
  | GCaseClause | GCommClause =>
      match at_kw ats with Some k => two ps (is_kw k) (is_op OColon) | None => [] end
  | GDeclVar => one_or_three ps (is_kw KVar) (is_op OParenLeft) (is_op OParenRight)
  | GDeclConst => one_or_three ps (is_kw KConst) (is_op OParenLeft) (is_op OParenRight)
  | GDeclType => one_or_three ps (is_kw KType) (is_op OParenLeft) (is_op OParenRight)
  | GEmpty => []
  | GNone | GList | GFuncLit | GCompositeLit | GKeyedElement | GField | GExprStmt | GDeclStmt
  | GVarSpec | GConstSpec | GTypeSpec | GFuncDecl | GImport | GFile => []
  end.

Definition has_op (ats : list attr) : bool := match at_op ats with Some _ => true | None => false end.
Definition has_kw (ats : list attr) : bool := match at_kw ats with Some _ => true | None => false end.
Definition has_dir (ats : list attr) : bool := match at_dir ats with Some _ => true | None => false end.

(* the number of positions and the leading attribute a node of this tag has *)
Definition own_layout (t : tag) (ps : list A) (ats : list attr) : bool :=
  let n := length ps in
  match t with
  | GIdent | GStringLit => Nat.eqb n 1 && match ats with AStr _ :: _ => true | _ => false end
  | GBasicLit => Nat.eqb n 1 && match ats with ALk _ :: AStr _ :: _ => true | _ => false end
  | GNone | GList | GFuncLit | GCompositeLit | GKeyedElement | GField | GExprStmt | GDeclStmt
  | GVarSpec | GConstSpec | GTypeSpec | GFuncDecl | GImport | GFile => Nat.eqb n 0
  | GPos | GEllipsis | GSelector | GRange | GStar | GTypePointer | GTypeInterface
  | GGo | GDefer | GIf | GFor | GReturn | GSwitch | GTypeSwitch | GSelect | GSend | GLabel
  | GEmpty => Nat.eqb n 1
  | GCall | GParen | GIndex | GIndexList | GSlice | GTypeMap | GTypeArray | GTypeSlice
  | GTypeAssert | GTypeStruct | GLiteralValue | GBlock | GCaseBlock | GCommBlock
  | GRangeStmt => Nat.eqb n 2
  | GOperation | GIncDec | GAssign => Nat.eqb n 1 && has_op ats
  | GBranch => Nat.eqb n 1 && has_kw ats
  | GCaseClause | GCommClause => Nat.eqb n 2 && has_kw ats
  | GTypeChannel => Nat.eqb n 2 && has_dir ats
  | GFuncType => Nat.eqb n 0 || Nat.eqb n 1
  | GFieldList => Nat.eqb n 0 || Nat.eqb n 2
  | GDeclVar | GDeclConst | GDeclType => Nat.eqb n 1 || Nat.eqb n 3
  end.

Definition pos_spec {C} (n : node A C) : list obl := own_spec (n_tag n) (n_ps n) (n_ats n).
Definition pos_layout {C} (n : node A C) : bool := own_layout (n_tag n) (n_ps n) (n_ats n).

End Spec.
Arguments one {A}.
Arguments two {A}.
Arguments one_or_three {A}.
Arguments own_spec {A}.
Arguments own_layout {A}.
Arguments pos_spec {A C}.
Arguments pos_layout {A C}.

(* n occurs in the tree f *)
Inductive occurs {A C : Type} (n : node A C) : node A C -> Prop :=
| occurs_here : occurs n n
| occurs_kid : forall t ps ats docs ks k,
    In k ks -> occurs n k -> occurs n (Nd t ps ats docs ks).

(* ------------------------------------------------------------------ the stream *)

Section Pos.
Variables (A G D C E : Type) (OPS : ops A G D C).
Notation pstate := (Core.pstate A G D E).
Notation res := (Core.res A G D E).
Notation selem := (Core.selem A G).
Notation nodeT := (node A C).
Variable whole : list selem.

Definition at_tok (p : A) (t : token) : Prop := exists a1 g, In (SE p a1 t g) whole.
Definition named (p : A) (f : token -> bool) : Prop := exists t, at_tok p t /\ f t = true.

Lemma named_of p t (f : token -> bool) : at_tok p t -> f t = true -> named p f.
Proof. intros H1 H2. exists t. auto. Qed.

Lemma named_weaken p (f g : token -> bool) :
  (forall t, f t = true -> g t = true) -> named p f -> named p g.
Proof. intros Hfg (t & H1 & H2). exists t. auto. Qed.
Lemma named_open o p :
  is_open (TOperator o) = true -> named p (is_op o) -> named p is_open.
Proof.
  intros Ho. apply named_weaken. intros t Ht. apply (is_tk_inv (KOp o)) in Ht. subst t. exact Ho.
Qed.
Lemma named_close o p :
  is_close (TOperator o) = true -> named p (is_op o) -> named p is_close.
Proof.
  intros Ho. apply named_weaken. intros t Ht. apply (is_tk_inv (KOp o)) in Ht. subst t. exact Ho.
Qed.

Fixpoint allnamed (l : list (A * (token -> bool))) : Prop :=
  match l with
  | [] => True
  | x :: r => named (fst x) (snd x) /\ allnamed r
  end.

Lemma allnamed_In l : allnamed l -> forall p f, In (p, f) l -> named p f.
Proof.
  induction l as [|x l IH]; intros H p f Hi; [ destruct Hi | ].
  destruct H as (H1 & H2). destruct Hi as [-> | Hi]; [ exact H1 | eauto ].
Qed.

(* the two positions of a FieldList name a matching pair of brackets *)
Definition pair_ok (t : tag) (ps : list A) : Prop :=
  match t, ps with
  | GFieldList, [l; r] =>
      (named l (is_op OParenLeft) /\ named r (is_op OParenRight)) \/
      (named l (is_op OBarackLeft) /\ named r (is_op OBarackRight)) \/
      (named l (is_op OBraceLeft) /\ named r (is_op OBraceRight))
  | _, _ => True
  end.

Definition own_ok (t : tag) (ps : list A) (ats : list attr) : Prop :=
  own_layout t ps ats = true /\ allnamed (own_spec t ps ats) /\ pair_ok t ps.

Fixpoint pgood (n : nodeT) : Prop :=
  match n with
  | Nd t ps ats _ ks => own_ok t ps ats /\ fold_right (fun k acc => pgood k /\ acc) True ks
  end.
Definition pgoodo (o : option nodeT) : Prop :=
  match o with Some n => pgood n | None => True end.

Lemma fold_Forall (P : nodeT -> Prop) l :
  fold_right (fun k acc => P k /\ acc) True l <-> Forall P l.
Proof.
  induction l as [|k l IH]; cbn [fold_right]; split; intros H.
  - constructor.
  - exact I.
  - destruct H as (H1 & H2). constructor; [ exact H1 | apply IH, H2 ].
  - inversion H; subst. split; [ assumption | apply IH; assumption ].
Qed.

Lemma pgood_Nd t ps ats d ks :
  pgood (Nd t ps ats d ks) <-> own_ok t ps ats /\ Forall pgood ks.
Proof. cbn [pgood]. rewrite fold_Forall. reflexivity. Qed.

Lemma pgood_Nd_i t ps ats d ks : own_ok t ps ats -> Forall pgood ks -> pgood (Nd t ps ats d ks).
Proof. intros. apply pgood_Nd. auto. Qed.

Lemma pgood_own n : pgood n -> own_ok (n_tag n) (n_ps n) (n_ats n).
Proof. destruct n. intros H. apply pgood_Nd in H. apply H. Qed.
Lemma pgood_kids n : pgood n -> Forall pgood (n_kids n).
Proof. destruct n. intros H. apply pgood_Nd in H. apply H. Qed.

Lemma pgood_nnone : pgood nnone.
Proof. apply pgood_Nd_i; [ repeat split | constructor ]. Qed.
Lemma pgood_nlist l : Forall pgood l -> pgood (nlist l).
Proof. intros H. apply pgood_Nd_i; [ repeat split | exact H ]. Qed.
Lemma pgood_nopt o : pgoodo o -> pgood (nopt o).
Proof. destruct o; [ auto | intros _; apply pgood_nnone ]. Qed.
Lemma pgood_set_docs n d : pgood n -> pgood (set_docs n d).
Proof. destruct n. cbn [set_docs]. rewrite !pgood_Nd. auto. Qed.

Lemma Forall_set_nth (P : nodeT -> Prop) : forall i x l,
  P x -> Forall P l -> Forall P (set_nth i x l).
Proof.
  induction i; intros x l Hx Hl; destruct l as [|y r]; cbn [set_nth]; try constructor;
    inversion Hl; subst; auto.
Qed.
Lemma pgood_set_kid n i k : pgood n -> pgood k -> pgood (set_kid n i k).
Proof.
  destruct n. cbn [set_kid]. rewrite !pgood_Nd. intros (H1 & H2) Hk.
  split; [ exact H1 | apply Forall_set_nth; assumption ].
Qed.
Lemma Forall_nth (P : nodeT -> Prop) d : forall l i, P d -> Forall P l -> P (nth i l d).
Proof.
  induction l; intros i Hd Hl; destruct i; cbn [nth]; auto; inversion Hl; subst; auto.
Qed.
Lemma pgood_kid n i : pgood n -> pgood (kid n i).
Proof. intros H. unfold kid. apply Forall_nth; [ apply pgood_nnone | apply pgood_kids, H ]. Qed.
Lemma pgoodo_nth_error l i : Forall pgood l -> pgoodo (nth_error l i).
Proof.
  revert i. induction l; intros i Hl; destruct i; cbn; auto; inversion Hl; subst; auto.
Qed.

Lemma Forall_app_i X (P : X -> Prop) l1 l2 : Forall P l1 -> Forall P l2 -> Forall P (l1 ++ l2).
Proof. intros. apply Forall_app. auto. Qed.
Lemma Forall_app_l X (P : X -> Prop) l1 l2 : Forall P (l1 ++ l2) -> Forall P l1.
Proof. intros H. apply Forall_app in H. apply H. Qed.
Lemma Forall_app_r X (P : X -> Prop) l1 l2 : Forall P (l1 ++ l2) -> Forall P l2.
Proof. intros H. apply Forall_app in H. apply H. Qed.
Lemma Forall_hd X (P : X -> Prop) x l : Forall P (x :: l) -> P x.
Proof. intros H. inversion H; assumption. Qed.
Lemma Forall_tl X (P : X -> Prop) x l : Forall P (x :: l) -> Forall P l.
Proof. intros H. inversion H; assumption. Qed.

Lemma Forall_pop_last X (P : X -> Prop) l r x :
  pop_last l = Some (r, x) -> Forall P l -> Forall P r /\ P x.
Proof.
  unfold pop_last. destruct (rev l) as [|y t] eqn:Hr; [ discriminate | ].
  intros [= <- <-] H. rewrite <- (rev_involutive l), Hr in H. cbn [rev] in H.
  apply Forall_app in H. destruct H as (H1 & H2). split; [ exact H1 | ].
  inversion H2; assumption.
Qed.
Lemma pop_last_x X (P : X -> Prop) l r x : pop_last l = Some (r, x) -> Forall P l -> P x.
Proof. intros H1 H2. apply (Forall_pop_last _ _ _ _ _ H1 H2). Qed.
Lemma pop_last_r X (P : X -> Prop) l r x : pop_last l = Some (r, x) -> Forall P l -> Forall P r.
Proof. intros H1 H2. apply (Forall_pop_last _ _ _ _ _ H1 H2). Qed.

Lemma pgood_map_field_of l :
  Forall pgood l -> Forall pgood (map (fun i => field_of OPS i) l).
Proof.
  induction 1; cbn [map]; constructor; auto.
  apply pgood_Nd_i; [ repeat split | ]. repeat constructor; auto; try apply pgood_nnone.
Qed.

Lemma pgood_somes (l : list (option nodeT)) :
  Forall pgoodo l ->
  Forall pgood (flat_map (fun o => match o with Some e => [e] | None => [] end) l).
Proof.
  induction 1 as [|o l Ho _ IH]; cbn [flat_map]; [ constructor | ].
  destruct o; cbn [app]; [ constructor; assumption | assumption ].
Qed.

(* every node of a good tree meets its obligations *)
Lemma pgood_occurs f : pgood f -> forall n, occurs n f -> pgood n.
Proof.
  intros Hf n Ho. induction Ho as [|t ps ats docs ks k Hk _ IH]; [ exact Hf | ].
  apply IH. apply pgood_Nd in Hf. destruct Hf as (_ & Hks).
  rewrite Forall_forall in Hks. apply Hks, Hk.
Qed.

Lemma pgood_pos_spec n : pgood n -> forall p f, In (p, f) (pos_spec n) -> named p f.
Proof. intros H. apply pgood_own in H. destruct H as (_ & H & _). apply allnamed_In, H. Qed.

(* ------------------------------------------------------------------ states *)

Definition sinv (s : pstate) : Prop :=
  (forall p t, s_cur s = Some (p, t) -> at_tok p t) /\
  incl (s_rest s) whole /\ incl (s_mark s) whole.

Lemma sinv_eqv s s' : eqv s s' -> sinv s -> sinv s'.
Proof. intros (Hc & Hr & Hm & _). unfold sinv. rewrite Hc, Hr, Hm. auto. Qed.
Lemma sinv_upd_cur s : sinv s -> sinv (upd_cur s None).
Proof. intros (_ & H). split; [ discriminate | exact H ]. Qed.
Lemma sinv_upd_level s lp ln : sinv s -> sinv (upd_level s lp ln).
Proof. exact (fun H => H). Qed.
Lemma sinv_dec_level s : sinv s -> sinv (dec_level s).
Proof. exact (fun H => H). Qed.
Lemma sinv_reset_level s : sinv s -> sinv (reset_level s).
Proof. exact (fun H => H). Qed.
Lemma sinv_upd_depth s n : sinv s -> sinv (upd_depth s n).
Proof. exact (fun H => H). Qed.
Lemma sinv_drain s c s' : sinv s -> drain OPS s = (c, s') -> sinv s'.
Proof. unfold drain. destruct (d_drain OPS (s_d s)). intros H [= _ <-]. exact H. Qed.

Lemma incl_tl_inv X (x : X) l w : incl (x :: l) w -> In x w /\ incl l w.
Proof. intros H. split; [ apply H; left; reflexivity | intros y Hy; apply H; right; exact Hy ]. Qed.

Lemma sinv_next s y s' : sinv s -> next OPS s = Ok y s' -> sinv s'.
Proof.
  intros (Hc & Hr & Hm). unfold next.
  destruct (s_rest s) as [|[a0 a1 t g] r] eqn:Hrest.
  - destruct (s_term s); [ | discriminate ]. intros [= _ <-].
    repeat split; cbn; try discriminate; try apply incl_nil_l.
  - intros [= _ <-]. apply incl_tl_inv in Hr as Hr'. destruct Hr' as (Hin & Hr').
    repeat split; cbn; [ | exact Hr' | exact Hr ].
    intros p t' [= <- <-]. exists a1, g. exact Hin.
Qed.

Lemma sinv_goback s0 s y s' : sinv s0 -> goback OPS (preback s0) s = Ok y s' -> sinv s'.
Proof.
  intros (_ & _ & Hm). unfold goback, preback.
  destruct (s_mark s0) as [|[a0 a1 t g] r] eqn:Hmark.
  - destruct (s_term s); [ | discriminate ]. intros [= _ <-].
    repeat split; cbn; try discriminate; try apply incl_nil_l.
  - intros [= _ <-]. apply incl_tl_inv in Hm as Hm'. destruct Hm' as (Hin & Hm').
    repeat split; cbn; [ | exact Hm' | exact Hm ].
    intros p t' [= <- <-]. exists a1, g. exact Hin.
Qed.

Lemma sinv_line_end c s c' s' : sinv s -> line_end_comment OPS c s = Ok c' s' -> sinv s'.
Proof.
  intros (Hc & Hr & Hm). unfold line_end_comment.
  destruct (negb _); [ intros [= _ <-]; repeat split; assumption | ].
  destruct (s_rest s) as [|[a0 a1 t g] r] eqn:Hrest.
  - destruct (s_term s); [ | discriminate ].
    destruct (d_line_end _ _ _ _ _ _) as [[? ?] ?]. intros [= _ <-].
    repeat split; cbn; try discriminate; try apply incl_nil_l.
  - destruct (d_line_end _ _ _ _ _ _) as [[? ?] ?]. intros [= _ <-].
    apply incl_tl_inv in Hr as Hr'. destruct Hr' as (Hin & Hr').
    repeat split; cbn; [ | exact Hr' | exact Hr ].
    intros p t' [= <- <-]. exists a1, g. exact Hin.
Qed.

Lemma sinv_inc_level s site y s1 : sinv s -> inc_level s site = Ok y s1 -> sinv s1.
Proof.
  unfold inc_level. destruct (_ <=? _); [ discriminate | ]. intros H [= _ <-]. exact H.
Qed.

Lemma sinv_init a0 d0 (term : Core.sterm A G E) :
  sinv (init_state a0 d0 whole term).
Proof. repeat split; cbn; try discriminate; apply incl_refl. Qed.

(* what a state says about positions *)
Lemma sinv_cur s p t : sinv s -> s_cur s = Some (p, t) -> at_tok p t.
Proof. intros (H & _). apply H. Qed.

Lemma cur_pos_some (s : pstate) p t : s_cur s = Some (p, t) -> cur_pos s = p.
Proof. unfold cur_pos. intros ->. reflexivity. Qed.

Lemma sinv_cur_is s k : sinv s -> cur_is s k = true -> named (cur_pos s) (is_tk k).
Proof.
  intros H. unfold cur_is, cur_pos. destruct (s_cur s) as [[p t]|] eqn:Ec; [ | discriminate ].
  intros Ht. exists t. split; [ eapply sinv_cur; eassumption | exact Ht ].
Qed.

(* ------------------------------------------------------------------ specifications *)

Definition PS {X} (good : X -> Prop) (p : pstate -> res X) : Prop :=
  forall s r s', sinv s -> p s = Ok r s' -> sinv s' /\ good r.
Definition PSP {X} (Pre : pstate -> Prop) (good : X -> Prop) (p : pstate -> res X) : Prop :=
  forall s r s', sinv s -> Pre s -> p s = Ok r s' -> sinv s' /\ good r.

Definition anyg {X} (_ : X) : Prop := True.

Lemma P_expect k site s p s' :
  sinv s -> expect OPS k site s = Ok p s' -> sinv s' /\ named p (is_tk k) /\ cur_pos s = p.
Proof.
  intros Hs. unfold expect. destruct (s_cur s) as [[p0 t]|] eqn:Ec; [ | discriminate ].
  destruct (tok_is t k) eqn:Ht; [ | discriminate ].
  apply bind_inv. intros y s1 Hn [= <- <-]. split; [ | split ].
  - eapply sinv_next; [ apply sinv_upd_cur, Hs | exact Hn ].
  - exists t. split; [ eapply sinv_cur; eassumption | exact Ht ].
  - apply (cur_pos_some _ _ _ Ec).
Qed.

Lemma P_skipped k s b s' :
  sinv s -> skipped OPS k s = Ok b s' ->
  sinv s' /\ (b = true -> named (cur_pos s) (is_tk k)).
Proof.
  intros Hs. unfold skipped. destruct (cur_is s k) eqn:Hc.
  - apply bind_inv. intros y s1 Hn [= <- <-]. split; [ eapply sinv_next; eassumption | ].
    intros _. apply sinv_cur_is; assumption.
  - intros [= <- <-]. split; [ exact Hs | discriminate ].
Qed.

End Pos.

Arguments at_tok {A G} whole p t.
Arguments named {A G} whole p f.
Arguments allnamed {A G} whole l.
Arguments pair_ok {A G} whole t ps.
Arguments own_ok {A G} whole t ps ats.
Arguments pgood {A G C} whole n.
Arguments pgoodo {A G C} whole o.
Arguments sinv {A G D E} whole s.
Arguments PS {A G D E} whole {X} good p.
Arguments PSP {A G D E} whole {X} Pre good p.
Arguments anyg {X}.
Arguments named : simpl never.
Arguments at_tok : simpl never.

(* ------------------------------------------------------------------ tactics *)

Create HintDb sinv discriminated.
#[export] Hint Resolve sinv_upd_cur sinv_upd_level sinv_dec_level sinv_reset_level sinv_upd_depth
  : sinv.
Create HintDb pos discriminated.

Ltac sinv_tac := solve [ eauto 5 with sinv ].

(* a generic specification from the hint base *)
Ltac q_use Hm :=
  lazymatch type of Hm with
  | ?p ?s = Ok ?y ?s1 =>
      let Hs := fresh "Hsv" in
      eassert (Hs : sinv _ s) by sinv_tac;
      let HS := fresh "HS" in
      eassert (HS : PS _ _ p) by (solve [ eauto 5 with pos ]);
      specialize (HS s y s1 Hs Hm); clear Hs;
      let Hs1 := fresh "Hsv" in
      let Hg := fresh "Hg" in
      destruct HS as (Hs1 & Hg); clear Hm;
      cbv beta in Hg; unfold anyg in Hg;
      lazymatch type of Hg with True => clear Hg | _ => idtac end
  end.

(* preconditions are discharged by this hook *)
Ltac pre_tac := assumption.

Ltac q_useP Hm :=
  lazymatch type of Hm with
  | ?p ?s = Ok ?y ?s1 =>
      let Hs := fresh "Hsv" in
      eassert (Hs : sinv _ s) by sinv_tac;
      let HS := fresh "HS" in
      eassert (HS : PSP _ _ _ p) by (solve [ eauto 5 with pos ]);
      let HP := fresh "HP" in
      lazymatch type of HS with
      | PSP _ ?Pre _ _ => assert (HP : Pre s) by (cbv beta; pre_tac)
      end;
      specialize (HS s y s1 Hs HP Hm); clear Hs HP;
      let Hs1 := fresh "Hsv" in
      let Hg := fresh "Hg" in
      destruct HS as (Hs1 & Hg); clear Hm;
      cbv beta in Hg; unfold anyg in Hg;
      lazymatch type of Hg with True => clear Hg | _ => idtac end
  end.

Ltac q_sinv s k :=
  let Hs := fresh "Hsv" in
  eassert (Hs : sinv _ s) by sinv_tac; k Hs; clear Hs.

Ltac q_hyp Hm :=
  lazymatch type of Hm with
  | next _ _ = Ok _ ?s1 =>
      let H' := fresh "Hsv" in
      eassert (H' : sinv _ s1) by (eapply sinv_next; [ | exact Hm ]; sinv_tac); clear Hm
  | goback _ (preback _) _ = Ok _ ?s1 =>
      let H' := fresh "Hsv" in
      eassert (H' : sinv _ s1) by (eapply sinv_goback; [ | exact Hm ]; sinv_tac); clear Hm
  | cur_tok ?s _ = Ok _ ?s0 =>
      apply cur_tok_inv in Hm;
      let p := fresh "p" in let E := fresh "Ecur" in
      destruct Hm as (-> & p & E)
  | inc_level _ _ = Ok _ ?s1 =>
      let H' := fresh "Hsv" in
      eassert (H' : sinv _ s1) by (eapply sinv_inc_level; [ | exact Hm ]; sinv_tac); clear Hm
  | check_single_expr _ _ = Ok _ _ =>
      apply check_single_expr_inv in Hm; destruct Hm as (-> & ->)
  | expect _ ?k _ ?s = Ok ?p ?s1 =>
      let H' := fresh "Hx" in
      eassert (H' : sinv _ s1 /\ named _ p (is_tk k) /\ cur_pos s = p)
        by (eapply P_expect; [ | exact Hm ]; sinv_tac);
      let H1 := fresh "Hsv" in let H2 := fresh "Hn" in let H3 := fresh "Hcp" in
      destruct H' as (H1 & H2 & H3); clear Hm; try subst p
  | skipped _ ?k ?s = Ok ?b ?s1 =>
      let H' := fresh "Hx" in
      eassert (H' : sinv _ s1 /\ (b = true -> named _ (cur_pos s) (is_tk k)))
        by (eapply P_skipped; [ | exact Hm ]; sinv_tac);
      let H1 := fresh "Hsv" in let H2 := fresh "Hn" in
      destruct H' as (H1 & H2); clear Hm
  | _ => first [ q_use Hm | q_useP Hm | idtac ]
  end.

Ltac q_destr x :=
  first [ is_var x; destruct x
        | let E := fresh "E" in
          destruct x eqn:E;
          try match type of E with
              | drain _ _ = (_, ?s1) =>
                  let H' := fresh "Hsv" in
                  eassert (H' : sinv _ s1) by (eapply sinv_drain; [ | exact E ]; sinv_tac)
              | _ = Ok _ _ => q_hyp E
              end ].

Ltac q_step :=
  lazymatch goal with
  | |- Ok _ _ = Ok _ _ -> _ =>
      let HH := fresh "HH" in intros HH; injection HH as ? ?; subst
  | |- Err _ _ = _ -> _ => let HH := fresh "HH" in intros HH; discriminate HH
  | |- Panic _ = _ -> _ => let HH := fresh "HH" in intros HH; discriminate HH
  | |- Fuel = _ -> _ => let HH := fresh "HH" in intros HH; discriminate HH
  | |- bind (Ok ?x ?s) ?k = ?R -> ?Cc => change (k x s = R -> Cc); cbv beta
  | |- bind (Err _ _) _ = _ -> _ => let HH := fresh "HH" in intros HH; discriminate HH
  | |- bind (Panic _) _ = _ -> _ => let HH := fresh "HH" in intros HH; discriminate HH
  | |- bind Fuel _ = _ -> _ => let HH := fresh "HH" in intros HH; discriminate HH
  | |- bind (bind _ _) _ = _ -> _ => rewrite bind_assoc
  | |- bind (if ?b then _ else _) _ = _ -> _ => q_destr b
  | |- bind (match ?x with _ => _ end) _ = _ -> _ => q_destr x
  | |- bind _ _ = _ -> _ =>
      apply bind_inv;
      let y := fresh "y" in let s1 := fresh "s" in let Hm := fresh "Hm" in
      intros y s1 Hm; cbv beta; q_hyp Hm
  | |- (if ?b then _ else _) = _ -> _ => q_destr b
  | |- (match ?x with _ => _ end) = _ -> _ => q_destr x
  | |- _ = Ok _ _ -> _ => let Hm := fresh "Hm" in intros Hm; q_hyp Hm
  end.

Ltac q_steps :=
  cbv beta iota zeta delta [negb];
  repeat (q_step; cbv beta iota zeta delta [negb]).

(* ---- the final goal: sinv s' /\ good r ---- *)

(* facts about positions from what is known of the states *)
Ltac q_sat :=
  repeat match goal with
         | E : s_cur ?s = Some (?p, _) |- _ =>
             progress (rewrite ?(cur_pos_some _ _ _ _ s _ _ E) in * )
         end;
  repeat match goal with
         | E : s_cur ?s = Some (?p, ?t) |- _ =>
             lazymatch goal with
             | _ : at_tok _ p t |- _ => fail
             | _ => let H' := fresh "Hat" in
                    eassert (H' : at_tok _ p t) by (eapply sinv_cur; [ | exact E ]; sinv_tac)
             end
         | E : cur_is ?s ?k = true |- _ =>
             lazymatch goal with
             | _ : named _ (cur_pos s) (is_tk k) |- _ => fail
             | _ => let H' := fresh "Hnm" in
                    eassert (H' : named _ (cur_pos s) (is_tk k))
                      by (eapply sinv_cur_is; [ | exact E ]; sinv_tac)
             end
         end;
  repeat match goal with
         | H : true = true -> _ |- _ => specialize (H eq_refl)
         | H : false = true -> _ |- _ => clear H
         end.

Ltac tok_refl :=
  first [ reflexivity | apply is_op_refl | apply is_kw_refl | apply is_lit_of_refl
        | apply is_ident_of_refl | apply is_ident_of_dot | apply op_eqb_refl | apply kw_eqb_refl ].

Ltac q_named :=
  first [ assumption
        | match goal with
          | H : at_tok _ ?p ?t |- named _ ?p _ => eapply named_of; [ exact H | tok_refl ]
          | |- named _ _ is_open =>
              first [ solve [ eapply named_open with (o := OParenLeft); [ reflexivity | q_named ] ]
                    | solve [ eapply named_open with (o := OBarackLeft); [ reflexivity | q_named ] ]
                    | solve [ eapply named_open with (o := OBraceLeft); [ reflexivity | q_named ] ] ]
          | |- named _ _ is_close =>
              first [ solve [ eapply named_close with (o := OParenRight); [ reflexivity | q_named ] ]
                    | solve [ eapply named_close with (o := OBarackRight); [ reflexivity | q_named ] ]
                    | solve [ eapply named_close with (o := OBraceRight); [ reflexivity | q_named ] ] ]
          end ].

Ltac q_own :=
  unfold own_ok;
  cbn [own_layout own_spec pair_ok allnamed one two one_or_three at_op at_kw at_dir has_op has_kw
       has_dir length Nat.eqb andb orb fst snd];
  repeat match goal with
         | |- _ /\ _ => split
         | |- True => exact I
         | |- true = true => reflexivity
         end;
  try q_named;
  try match goal with
      | |- _ \/ _ =>
          first [ solve [ left; split; q_named ]
                | solve [ right; left; split; q_named ]
                | solve [ right; right; split; q_named ] ]
      end.

Ltac q_norm :=
  unfold n_ident, n_basic, n_strlit, n_field, field_of, n_fieldlist, n_operation, n_functype, npos,
    empty_fieldlist, mk, mkd;
  cbn [fst snd pgoodo]; cbv beta iota.

Ltac pg :=
  q_norm;
  lazymatch goal with
  | |- True => exact I
  | |- anyg _ => exact I
  | |- _ /\ _ => split; pg
  | |- pgood _ (Nd _ _ _ _ _) => apply pgood_Nd_i; [ q_own | pg ]
  | |- pgood _ nnone => apply pgood_nnone
  | |- pgood _ (nlist _) => apply pgood_nlist; pg
  | |- pgood _ (nopt _) => apply pgood_nopt; pg
  | |- pgood _ (set_docs _ _) => apply pgood_set_docs; pg
  | |- pgood _ (set_kid _ _ _) => apply pgood_set_kid; pg
  | |- pgood _ (kid _ _) => apply pgood_kid; pg
  | |- pgoodo _ (nth_error _ _) => apply pgoodo_nth_error; pg
  | |- pgoodo _ (Some _) => q_norm; pg
  | |- pgoodo _ None => exact I
  | |- Forall _ [] => constructor
  | |- Forall _ (_ :: _) => constructor; pg
  | |- Forall _ (_ ++ _) => apply Forall_app_i; pg
  | |- Forall _ (map _ _) => apply pgood_map_field_of; pg
  | |- Forall _ (flat_map _ _) => apply pgood_somes; pg
  | |- _ -> _ => intro; pg
  | |- _ => pg_atom
  end
with pg_atom :=
  first [ assumption
        | match goal with
          | H : _ |- _ => solve [ apply H; pg ]
          | H : Forall _ (_ ++ _) |- _ => solve [ apply Forall_app_l in H; pg ]
          | H : Forall _ (_ ++ _) |- _ => solve [ apply Forall_app_r in H; pg ]
          | H : Forall _ (_ :: _) |- _ => solve [ apply Forall_hd in H; pg ]
          | H : Forall _ (_ :: _) |- _ => solve [ apply Forall_tl in H; pg ]
          | H : pop_last _ = Some (_, ?x) |- pgood ?w ?x =>
              solve [ eapply (pop_last_x _ (pgood w)); [ exact H | pg ] ]
          | H : pop_last _ = Some (_, Some ?x) |- pgood ?w ?x =>
              solve [ change (pgoodo w (Some x)); eapply (pop_last_x _ (pgoodo w)); [ exact H | pg ] ]
          | H : pop_last _ = Some (?r, _) |- Forall (pgood ?w) ?r =>
              solve [ eapply (pop_last_r _ (pgood w)); [ exact H | pg ] ]
          end ].

(* split the conditionals of the value *)
Ltac q_cases :=
  repeat match goal with
         | |- context [if ?b then _ else _] => destruct b
         | H : context [if ?b then _ else _] |- _ => is_var b; destruct b
         | |- context [match ?o with Some _ => _ | None => _ end] => is_var o; destruct o
         end.

Ltac q_fin :=
  cbn [fst snd] in *;
  split; [ sinv_tac | ];
  q_sat; q_cases; try discriminate; q_sat; pg.

Tactic Notation "qprod" reference(f) :=
  intros ? ? ? ?; unfold f; hide_nats; q_steps; try (solve [ q_fin ]).
Tactic Notation "qprodP" reference(f) :=
  intros ? ? ? ? ?; unfold f; hide_nats; q_steps; try (solve [ q_fin ]).
Tactic Notation "qloop" reference(f) ident(fuel) :=
  induction fuel; intros; intros ? ? ? ?; [ discriminate | cbn [f]; hide_nats; q_steps;
                                           try (solve [ q_fin ]) ].

(* ------------------------------------------------------------------ leaf parsers *)

Section Leafs.
Variables (A G D C E : Type) (OPS : ops A G D C).
Notation pstate := (Core.pstate A G D E).
Notation res := (Core.res A G D E).
Notation selem := (Core.selem A G).
Notation nodeT := (node A C).
Variable whole : list selem.
Notation PSw := (PS (E:=E) (D:=D) whole).

Lemma P_identifier site : PSw (pgood (C:=C) whole) (identifier OPS site).
Proof.
  intros s r s' Hs. unfold identifier.
  destruct (s_cur s) as [[p t]|] eqn:Ec; [ | discriminate ].
  destruct t as [| | |k name]; try discriminate. destruct k; try discriminate.
  apply bind_inv. intros y s1 Hm [= <- <-]. split.
  - eapply sinv_next; [ apply sinv_upd_cur, Hs | exact Hm ].
  - q_sat. pg.
Qed.

Lemma P_literal : PSw (pgood (C:=C) whole) (literal OPS).
Proof.
  intros s r s' Hs. unfold literal.
  destruct (s_cur s) as [[p t]|] eqn:Ec; [ | discriminate ].
  destruct t as [| | |k name]; try discriminate.
  apply bind_inv. intros y s1 Hm [= <- <-]. split.
  - eapply sinv_next; [ apply sinv_upd_cur, Hs | exact Hm ].
  - q_sat. pg.
Qed.

Lemma P_string_literal site : PSw (pgood (C:=C) whole) (string_literal OPS site).
Proof.
  intros s r s' Hs. unfold string_literal.
  destruct (s_cur s) as [[p t]|] eqn:Ec; [ | discriminate ].
  destruct t as [| | |k name]; try discriminate. destruct k; try discriminate.
  apply bind_inv. intros y s1 Hm [= <- <-]. split.
  - eapply sinv_next; [ apply sinv_upd_cur, Hs | exact Hm ].
  - q_sat. pg.
Qed.

Lemma P_string_literal_or_none : PSw (pgoodo (C:=C) whole) (string_literal_or_none OPS).
Proof.
  intros s r s' Hs. unfold string_literal_or_none.
  assert (Hnone : Ok None s = Ok r s' -> sinv whole s' /\ pgoodo whole r).
  { intros [= <- <-]. split; [ exact Hs | exact I ]. }
  destruct (s_cur s) as [[p t]|] eqn:Ec; [ | exact Hnone ].
  destruct t as [| | |k name]; try exact Hnone.
  destruct k; try exact Hnone.
  apply bind_inv. intros y s1 Hm [= <- <-]. split.
  - eapply sinv_next; [ apply sinv_upd_cur, Hs | exact Hm ].
  - q_sat. pg.
Qed.

Lemma P_line_end_comment (c : C) : PSw anyg (line_end_comment OPS c).
Proof. intros s r s' Hs H. split; [ eapply sinv_line_end; eassumption | exact I ]. Qed.

End Leafs.

#[export] Hint Resolve P_identifier P_literal P_string_literal P_string_literal_or_none
  P_line_end_comment : pos.
