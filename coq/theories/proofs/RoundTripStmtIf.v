(* Round trip, stage C part 2: if statements (init statement, else-if chains,
   else blocks), for statements (all header forms) and range statements over
   Print3.stmt2.

   parse_simple_stmt is used through the interface hypothesis [H_ssp]
   (RoundTripBase3.SSPprov) except for the range clause `k, v := range x`,
   parse_block_stmt through [H_block] (BPprov), first tokens through
   [first_tok_e] (FirstTokE).

   DEVIATION.  k_stmt reaches k_if through one more recursion hub and one more
   unfolding of the open recursion than the contract IFP of RoundTripBase2
   provides: inside SC (need <= S d, depth + 1) the call of k_if runs at
   (PA d) in a state whose Parser.depth is one larger.  The contract proved
   here is therefore [IFPs] (need_stmt2 st <= S d, sdepth s + depth_stmt2 st <=
   S MAX_NESTING), of which IFP is an instance ([IFPs_IFP]); [if_ok] has the
   requested statement, [if_ok_s] the stronger one, and [stmt_if_ok] takes
   IFPs instead of IFP.  [stmts2_ok] (SC from IHS and wf_stmt) is as requested.

   Exports: IFPs, IFPs_IFP, if_ok_s, if_ok, SBP, SBP_SC, stmt_if_ok, for_sbp,
   for_ok, range_sbp, range_ok, stmts2_ok; reusable: if_header_ok
   (parse_if_header), osimple_ok, hdr_block, range_clause_ok, simple_not_range,
   efollow_brace' (tyfollow holds in front of every "{"). *)
From Coq Require Import List Arith NArith Lia Bool.
From GoSyn Require Import Token Tok Ast Core.
From GoSyn.spec Require Import Prec Print Print2 Print3.
From GoSyn.proofs Require Import PrecProofs RoundTripProofs RoundTripTypesBase RoundTripBase2
  RoundTripBase3.
Import ListNotations.

Local Arguments cur_not_toks {A G D E} s t ts k _.
Local Arguments cur_is_nil {A G D E} s k _.
Local Arguments lev_frame {A G D E} hdr s s' n m _ _ _.
Local Arguments levw_frame {A G D E} s s' n m _ _ _.
Local Arguments lev_levw {A G D E} hdr s n _.
Local Arguments frame_nested {A G D E} s s2 _.

(* ------------------------------------------------------------ 0. facts about the spec *)

Lemma sum2_In : forall (Y : Type) (f : Y -> nat) l a, In a l -> f a <= sum2 f l.
Proof.
  intros Y f l a. induction l as [| b r IH]; simpl; [intros [] |].
  intros [-> | H]; [lia | specialize (IH H); lia].
Qed.

Lemma max2_In : forall (Y : Type) (f : Y -> nat) l a, In a l -> f a <= max2 f l.
Proof.
  intros Y f l a. induction l as [| b r IH]; simpl; [intros [] |].
  intros [-> | H]; [lia | specialize (IH H); lia].
Qed.

Lemma all2_In : forall (Y : Type) (P : Y -> Prop) l a, all2 P l -> In a l -> P a.
Proof.
  intros Y P l a. induction l as [| b r IH]; simpl; [intros _ [] |].
  intros (Hb & Hr) [-> | H]; [exact Hb | exact (IH Hr H)].
Qed.

Lemma all2_Forall : forall (Y : Type) (P : Y -> Prop) l, all2 P l -> Forall P l.
Proof.
  intros Y P l. induction l as [| b r IH]; simpl; [constructor |].
  intros (Hb & Hr). constructor; [exact Hb | exact (IH Hr)].
Qed.

Lemma foldl_add_In : forall (f : exp2 -> nat) l e, In e l -> f e <= foldl exp2 Nat.add f l.
Proof.
  intros f l e. induction l as [| b r IH]; simpl; [intros [] |].
  intros [-> | H]; [lia | specialize (IH H); lia].
Qed.

(* every expression of a simple statement is smaller than the statement *)
Lemma size_simple_In : forall (sm : simple2) e,
  In e (exprs_simple sm) -> size2 e <= m_simple Nat.add size2 sm.
Proof.
  intros [x | op l r | op x | ch v] e; cbn [exprs_simple m_simple].
  - intros [<- | []]. lia.
  - intro H. apply in_app_or in H. destruct H as [H | H].
    + pose proof (foldl_add_In size2 l e H). lia.
    + pose proof (foldl_add_In size2 r e H). lia.
  - intros [<- | []]. lia.
  - intros [<- | [<- | []]]; lia.
Qed.

Lemma wf_simple_In : forall hdr (sm : simple2) e,
  wf_simple2 hdr sm -> In e (exprs_simple sm) -> wf2 hdr e.
Proof.
  intros hdr [x | op l r | op x | ch v] e; unfold wf_simple2; cbn [wf_simple exprs_simple].
  - intros H [<- | []]. exact H.
  - intros (_ & _ & _ & _ & Hl & Hr & _) H. apply in_app_or in H. destruct H as [H | H].
    + exact (all2_In _ _ _ _ Hl H).
    + exact (all2_In _ _ _ _ Hr H).
  - intros (_ & H) [<- | []]. exact H.
  - intros (_ & Hc & Hv) [<- | [<- | []]]; assumption.
Qed.

(* the first token of a simple statement *)
Lemma first_tok_simple : FirstTokE -> forall hdr (sm : simple2), wf_simple2 hdr sm ->
  exists t l, print_simple print2 sm = t :: l /\ start_tok t.
Proof.
  intros FT hdr [x | op l r | op x | ch v]; unfold wf_simple2; cbn [wf_simple print_simple].
  - intro H. exact (FT x hdr H).
  - intros (_ & Hl & _ & _ & Hwl & _). destruct l as [| a l']; [exfalso; apply Hl; reflexivity |].
    destruct Hwl as (Ha & _). destruct (FT a hdr Ha) as (t & l0 & Hp & Hs).
    rewrite commas_cons2, Hp. eexists _, _. split; [reflexivity | exact Hs].
  - intros (_ & H). destruct (FT x hdr H) as (t & l0 & Hp & Hs). rewrite Hp.
    eexists _, _. split; [reflexivity | exact Hs].
  - intros (_ & H & _). destruct (FT ch hdr H) as (t & l0 & Hp & Hs). rewrite Hp.
    eexists _, _. split; [reflexivity | exact Hs].
Qed.

(* no expression is a range clause *)
Lemma shape2_not_range : forall e, is_tag GRange (shape2 e) = false.
Proof.
  intros [name | k text | e | op e | op l r | f args ddd | e name | e i | e idx
          | e lo hi mx | t | sg body | ty elems | e t]; try reflexivity.
  destruct t as [n | p n | b a | t | t | x t | t | k v | dir t | t | s | fs | es];
    try reflexivity. destruct s as [ps paren rs]. reflexivity.
Qed.

Lemma erase_nnone : forall A C : Type, erase (@nnone A C) = nnone.
Proof. reflexivity. Qed.

Lemma erase_kid : forall (A C : Type) (n : node A C) i, erase (kid n i) = kid (erase n) i.
Proof.
  intros A C [t ps ats ds ks] i. unfold kid. cbn [n_kids erase nmap].
  rewrite <- (erase_nnone A C). unfold erase. rewrite map_nth. reflexivity.
Qed.

Lemma erase_mk : forall (A C : Type) t (ps : list A) ats (ks : list (node A C)),
  erase (mk A C t ps ats ks) = mk unit unit t (map (fun _ => tt) ps) ats (map erase ks).
Proof. reflexivity. Qed.

Lemma assign_closing : forall op, is_assign_op op = true ->
  closing (tk op) = true /\ tok_is (tk op) (KOp OComma) = false.
Proof. intros op H. destruct op; try discriminate H; split; reflexivity. Qed.

(* the renderings, in pieces *)
Lemma print_if_eq : forall init cond body els,
  print_stmt (StIf init cond body els) =
  kw KIf :: print_init init ++ print2 cond ++ print_block body ++ print_else els.
Proof.
  intros init cond body els. cbn [print_stmt]. unfold print_init, print_block, print_else, print_stmts.
  f_equal. f_equal. f_equal. cbn [app]. f_equal. rewrite <- app_assoc. cbn [app].
  f_equal. f_equal. destruct els as [[]|]; try reflexivity.
  unfold print_block, print_stmts. cbn [app]. do 2 f_equal. rewrite <- app_assoc. reflexivity.
Qed.

Lemma print_for_eq : forall h body,
  print_stmt (StFor h body) = kw KFor :: print_forhdr print2 h ++ print_block body.
Proof. reflexivity. Qed.

Lemma print_range_eq : forall lhs op x body,
  print_stmt (StRange lhs op x body) =
  kw KFor :: match lhs with [] => [] | _ => commas (map print2 lhs) ++ [tk op] end ++
  kw KRange :: print2 x ++ print_block body.
Proof. reflexivity. Qed.

(* the measures, unfolded once (cbn does not refold the mutual fixpoints) *)
Lemma need_if : forall init cond body els,
  need_stmt2 (StIf init cond body els) =
  6 + Nat.max (m_osimple Nat.max need2 init)
        (Nat.max (need2 cond) (Nat.max (6 + max2 need_stmt2 body) (omax need_stmt2 els))).
Proof. reflexivity. Qed.
Lemma depth_if : forall init cond body els,
  depth_stmt2 (StIf init cond body els) =
  4 + Nat.max (m_osimple Nat.max depth2 init)
        (Nat.max (depth2 cond) (Nat.max (4 + max2 depth_stmt2 body) (omax depth_stmt2 els))).
Proof. reflexivity. Qed.
Lemma size_if : forall init cond body els,
  size_stmt (StIf init cond body els) =
  S (m_osimple Nat.add size2 init + size2 cond + sum2 size_stmt body + omax size_stmt els).
Proof. reflexivity. Qed.
Lemma need_for : forall h body,
  need_stmt2 (StFor h body) = 6 + Nat.max (m_forhdr Nat.max need2 h) (6 + max2 need_stmt2 body).
Proof. reflexivity. Qed.
Lemma depth_for : forall h body,
  depth_stmt2 (StFor h body) = 4 + Nat.max (m_forhdr Nat.max depth2 h) (4 + max2 depth_stmt2 body).
Proof. reflexivity. Qed.
Lemma size_for : forall h body,
  size_stmt (StFor h body) = S (m_forhdr Nat.add size2 h + sum2 size_stmt body).
Proof. reflexivity. Qed.
Lemma need_range : forall lhs op x body,
  need_stmt2 (StRange lhs op x body) =
  6 + Nat.max (max2 need2 lhs) (Nat.max (need2 x) (6 + max2 need_stmt2 body)).
Proof. reflexivity. Qed.
Lemma depth_range : forall lhs op x body,
  depth_stmt2 (StRange lhs op x body) =
  4 + Nat.max (max2 depth2 lhs) (Nat.max (depth2 x) (4 + max2 depth_stmt2 body)).
Proof. reflexivity. Qed.
Lemma size_range : forall lhs op x body,
  size_stmt (StRange lhs op x body) = S (sum2 size2 lhs + size2 x + sum2 size_stmt body).
Proof. reflexivity. Qed.
Lemma need_blockst : forall b, need_stmt2 (StBlock b) = need_block b.
Proof. reflexivity. Qed.
Lemma depth_blockst : forall b, depth_stmt2 (StBlock b) = depth_block b.
Proof. reflexivity. Qed.
Lemma size_blockst : forall b, size_stmt (StBlock b) = S (sum2 size_stmt b).
Proof. reflexivity. Qed.

Lemma ms_ge4 : forall m st, 4 <= ms m st.
Proof.
  intros m st. destruct st as [sm | name st | b | c | c | es | k l | | i c b e | h b | l o x b
                              | i t cl | i bd x cl | cl | dc]; try destruct dc;
    cbn [ms]; unfold cs; destruct m; lia.
Qed.

(* a simple statement of the fragment is no range clause *)
Lemma simple_not_range : forall (A C : Type) (st : node A C) (sm : simple2),
  erase st = shape_simple shape2 sm -> assign_is_range A C st = false.
Proof.
  intros A C st sm H. unfold assign_is_range.
  change (nth 0 (n_kids (kid st 1)) nnone) with (kid (kid st 1) 0).
  rewrite <- (is_tag_erase GAssign st), <- (is_tag_erase GRange (kid (kid st 1) 0)).
  rewrite !erase_kid, H. destruct sm as [x | op l r | op x | ch v]; try reflexivity.
  cbn [shape_simple]. change (is_tag GAssign (mk unit unit GAssign [tt] [AOp op]
    [nlist (map shape2 l); nlist (map shape2 r)])) with true. cbn [andb].
  destruct r as [| b r']; [reflexivity | apply shape2_not_range].
Qed.

(* ------------------------------------------------------------ 1. headers *)

Section IF.
Variables (A G D C E : Type).
Variable OPS : ops A G D C.
Notation nodeT := (node A C).
Notation pstateT := (pstate A G D E).
Notation cur := (s_cur A G D E).
Notation srest := (s_rest A G D E).
Notation sdepth := (s_depth A G D E).
Notation lp := (s_lp A G D E).
Notation ln := (s_ln A G D E).
Notation PA := (parsers_at A G D C E OPS).
Notation erase := (@erase A C).
Notation at_toks := (@at_toks A G D E).
Notation frame := (@frame A G D E).
Notation KE2 := (KE2 A G D C E OPS).
Notation SC := (SC A G D C E OPS).
Notation IFP := (IFP A G D C E OPS).
Notation BP := (BP A G D C E OPS).
Notation SSP := (SSP A G D C E OPS).
Notation IHS := (IHS A G D C E OPS).
Notation lev := (lev A G D E).
Notation levw := (levw A G D E).
Notation PSS := (parse_simple_stmt A G D C E OPS).
Notation rs := (reset_level A G D E).
Notation updl := (upd_level A G D E).

Hypothesis first_tok_e : FirstTokE.
Hypothesis H_ssp : SSPprov A G D C E OPS.
Hypothesis H_block : BPprov A G D C E OPS.

(* a header runs at expr_level = -1 ... *)
Lemma lev_reset : forall (s : pstateT) m, m <= 65 -> lev true (rs s) m.
Proof. intros s m H. split; simpl; lia. Qed.

Lemma lev_hdr_frame : forall (s s' : pstateT) m, frame (rs s) s' -> m <= 65 -> lev true s' m.
Proof.
  intros s s' m (_ & k & Ha & Hb) Hm.
  change (lp (rs s)) with 0 in Ha. change (ln (rs s)) with 0 in Hb. split; lia.
Qed.

Lemma depth_hdr_frame : forall (s s' : pstateT), frame (rs s) s' -> sdepth s' = sdepth s.
Proof. intros s s' (H & _). exact H. Qed.

(* ... and restores the level it was entered with *)
Lemma frame_restore : forall (s s' : pstateT), sdepth s' = sdepth s ->
  frame s (updl s' (lp s) (ln s)).
Proof. intros s s' H. split; [exact H | exists 0; simpl; lia]. Qed.

Lemma tyfollow_brace : forall e r, tyfollow e (tk OBraceLeft :: r).
Proof.
  intros e r. unfold tyfollow. destruct (last_prim e); try exact I.
  apply tfollow_tok; reflexivity.
Qed.

Lemma efollow_brace' : forall e r, brace_stop true e -> efollow true e (tk OBraceLeft :: r).
Proof. intros e r H. apply efollow_brace; [exact H | right; apply tyfollow_brace]. Qed.

(* the statements of a block, from the induction hypothesis *)
Lemma block_ih : forall n body, IHS n -> sum2 size_stmt body < n ->
  all2 wf_stmt body /\ seq_ok body -> BP body.
Proof.
  intros n body (_ & _ & Hst & _) Hsz (Hwf & Hsq). apply H_block; [| exact Hsq].
  apply Forall_forall. intros st Hin.
  pose proof (all2_In _ _ _ _ Hwf Hin) as Hw. split; [exact Hw |].
  apply Hst; [| exact Hw]. pose proof (sum2_In _ size_stmt _ _ Hin). lia.
Qed.

Lemma simple_ke : forall n (sm : simple2), IHS n -> m_simple Nat.add size2 sm < n ->
  wf_simple2 true sm -> forall e, In e (exprs_simple sm) -> KE2 true e.
Proof.
  intros n sm (Hke & _) Hsz Hwf e Hin. apply Hke.
  - pose proof (size_simple_In sm e Hin). lia.
  - exact (wf_simple_In true sm e Hwf Hin).
Qed.

(* parse_if_header:  [init ;] cond   in front of the "{" of the block *)
Lemma if_header_ok : forall (init : option simple2) cond d (s : pstateT) rst,
  (forall e, In e (exprs_osimple init) -> KE2 true e) -> KE2 true cond ->
  opt2 (wf_simple2 true) init -> wf2 true cond -> brace_stop true cond ->
  m_osimple Nat.max need2 init + 2 <= d -> need2 cond + 2 <= d ->
  sdepth s + Nat.max (m_osimple Nat.max depth2 init) (depth2 cond) <= MAX_NESTING ->
  m_osimple Nat.max depth2 init <= 65 -> depth2 cond <= 65 ->
  at_toks s (print_init init ++ print2 cond ++ tk OBraceLeft :: rst) ->
  exists oi nc s1, parse_if_header A G D C E OPS (PA d) s = Ok (oi, nc) s1 /\
    erase (nopt oi) = shape_osimple shape2 init /\ erase nc = shape2 cond /\
    at_toks s1 (tk OBraceLeft :: rst) /\ frame s s1.
Proof.
  intros init cond d s rst Hki Hkc Hwi Hwc Hbs Hdi Hdc Hdep Hli Hlc Hat.
  assert (Hsc : SSP true (SmExpr cond)).
  { apply H_ssp; [intros e [<- | []]; exact Hkc | exact Hwc]. }
  assert (Hfc : simple_follow true (SmExpr cond) (tk OBraceLeft :: rst)).
  { right. split; [reflexivity |]. split; [reflexivity | exact Hbs]. }
  destruct (first_tok_e cond true Hwc) as (tc & lc & Hpc & Hstc).
  destruct init as [sm |].
  - (* init ; cond { *)
    cbn [opt2 m_osimple exprs_osimple] in Hki, Hwi, Hdi, Hdep, Hli.
    destruct (first_tok_simple first_tok_e true sm Hwi) as (t & l0 & Hp & Hst).
    unfold print_init in Hat. rewrite <- app_assoc in Hat. cbn [app] in Hat.
    assert (Hat0 : at_toks (rs s) (print_simple print2 sm ++ tk OSemiColon ::
                                     print2 cond ++ tk OBraceLeft :: rst)) by exact Hat.
    destruct (H_ssp true sm Hki Hwi d (rs s) _ Hdi Hat0) as (ni & s1 & Hp1 & Hei & Hat1 & Hf1).
    { left. reflexivity. }
    { change (sdepth (rs s)) with (sdepth s). unfold depth_simple. lia. }
    { apply lev_reset. exact Hli. }
    destruct (expect_toks OPS s1 _ _ (KOp OSemiColon) 90 Hat1 eq_refl) as (p1 & s2 & Hx & Hat2 & Hf2).
    pose proof (frame_trans _ _ _ Hf1 Hf2) as Hf12.
    destruct (Hsc d s2 _ Hdc Hat2 Hfc) as (nc & s3 & Hp2 & Hec & Hat3 & Hf3).
    { rewrite (depth_hdr_frame s s2 Hf12). unfold depth_simple. cbn [m_simple]. lia. }
    { apply (lev_hdr_frame s s2 _ Hf12). exact Hlc. }
    pose proof (frame_trans _ _ _ Hf12 Hf3) as Hf13.
    exists (Some ni), (kid nc 0), (updl s3 (lp s) (ln s)).
    split; [| split; [exact Hei | split; [| split; [exact Hat3 |]]]].
    + unfold parse_if_header. rewrite Hp in Hat.
      rewrite (cur_is_toks _ _ _ _ Hat).
      destruct Hst as (_ & Hs1 & _ & Hs2 & _ & _ & _ & _ & _ & _ & Hs3 & _).
      rewrite Hs2. cbv zeta.
      rewrite Hp in Hat0. rewrite (cur_not_toks _ _ _ _ Hat0), Hs1. cbn [negb].
      rewrite (cur_is_toks _ _ _ _ Hat0), Hs3.
      rewrite Hp1. cbn [bind].
      rewrite (cur_not_toks _ _ _ _ Hat1).
      change (negb (tok_is (tk OSemiColon) (KOp OBraceLeft))) with true. cbv iota.
      rewrite Hx. cbn [bind]. rewrite Hp2. cbn [bind fst snd].
      rewrite <- (is_tag_erase GExprStmt nc), Hec. reflexivity.
    + rewrite erase_kid, Hec. reflexivity.
    + apply frame_restore. exact (depth_hdr_frame s s3 Hf13).
  - (* cond { *)
    cbn [m_osimple] in Hdep. unfold print_init in Hat. cbn [app] in Hat.
    assert (Hat0 : at_toks (rs s) (print_simple print2 (SmExpr cond) ++ tk OBraceLeft :: rst))
      by exact Hat.
    destruct (Hsc d (rs s) _ Hdc Hat0 Hfc) as (nc & s1 & Hp1 & Hec & Hat1 & Hf1).
    { change (sdepth (rs s)) with (sdepth s). unfold depth_simple. cbn [m_simple]. lia. }
    { apply lev_reset. exact Hlc. }
    exists None, (kid nc 0), (updl s1 (lp s) (ln s)).
    split; [| split; [reflexivity | split; [| split; [exact Hat1 |]]]].
    + unfold parse_if_header. rewrite Hpc in Hat.
      rewrite (cur_is_toks _ _ _ _ Hat).
      destruct Hstc as (_ & Hs1 & _ & Hs2 & _ & _ & _ & _ & _ & _ & Hs3 & _).
      rewrite Hs2. cbv zeta. cbn [print_simple] in Hat0.
      rewrite Hpc in Hat0. rewrite (cur_not_toks _ _ _ _ Hat0), Hs1. cbn [negb].
      rewrite (cur_is_toks _ _ _ _ Hat0), Hs3.
      rewrite Hp1. cbn [bind].
      rewrite (cur_not_toks _ _ _ _ Hat1).
      change (negb (tok_is (tk OBraceLeft) (KOp OBraceLeft))) with false. cbn [bind fst snd].
      rewrite <- (is_tag_erase GExprStmt nc), Hec. reflexivity.
    + rewrite erase_kid, Hec. reflexivity.
    + apply frame_restore. exact (depth_hdr_frame s s1 Hf1).
Qed.

(* ------------------------------------------------------------ 2. if statements *)

(* parse_if_stmt as it is called from parse_stmt: one unfolding and one hub less *)
Definition IFPs (st : stmt2) : Prop := forall d (s : pstateT) rst,
  need_stmt2 st <= S d -> at_toks s (print_stmt st ++ rst) ->
  sdepth s + depth_stmt2 st <= S MAX_NESTING -> lev false s (depth_stmt2 st) ->
  exists n s1, k_if A G D C E (PA d) s = Ok n s1 /\ erase n = shape_stmt st /\
               at_toks s1 rst /\ frame s s1.

Lemma IFPs_IFP : forall st, IFPs st -> IFP st.
Proof. intros st H d s rst Hd Hat Hdep Hlev. apply H; try assumption; lia. Qed.

Lemma if_ok_s : forall init cond body els,
  IHS (size_stmt (StIf init cond body els)) -> wf_stmt (StIf init cond body els) ->
  IFPs (StIf init cond body els).
Proof.
  intros init cond body els HI Hwf d s rst Hd Hat Hdep Hlev.
  cbn [wf_stmt] in Hwf. destruct Hwf as (Hwi & Hwc & Hbs & Hwb0 & Hsq & Hwe).
  pose proof (conj Hwb0 Hsq) as Hwb.
  rewrite print_if_eq in Hat. cbn [app] in Hat. rewrite <- !app_assoc in Hat.
  rewrite size_if in HI. rewrite need_if in Hd. rewrite depth_if in Hdep, Hlev.
  destruct d as [| d0]; [exfalso; lia |].
  pose proof Hlev as (Hl1 & Hl2).
  set (s0 := upd_depth A G D E s (S (sdepth s))).
  pose proof (Hlev : lev false s0 _) as Hlev0.
  destruct (expect_toks OPS s0 _ _ (KKw KIf) 93 Hat eq_refl) as (pos & s1 & Hx & Hat1 & Hf1).
  assert (Hki : forall e, In e (exprs_osimple init) -> KE2 true e).
  { destruct init as [sm |]; [| intros e []].
    apply (simple_ke _ sm HI); [cbn [m_osimple]; lia | exact Hwi]. }
  assert (Hkc : KE2 true cond).
  { destruct HI as (Hke & _). apply Hke; [lia | exact Hwc]. }
  change (print_block body ++ print_else els ++ rst)
    with (tk OBraceLeft :: (print_stmts body ++ [tk OBraceRight]) ++ print_else els ++ rst) in Hat1.
  destruct (if_header_ok init cond d0 s1 ((print_stmts body ++ [tk OBraceRight]) ++ print_else els ++ rst) Hki Hkc Hwi Hwc Hbs)
    as (oi & nc & s2 & Hh & Heoi & Henc & Hat2 & Hf2);
    [lia | lia
     | apply (frame_depth s0 s1 _ _ Hf1); change (sdepth s0) with (S (sdepth s)); lia
     | lia | lia | exact Hat1 |].
  pose proof (frame_trans _ _ _ Hf1 Hf2) as Hf02.
  destruct (block_ih _ body HI ltac:(lia) Hwb d0 s2 (print_else els ++ rst))
    as (nb & s3 & Hb & Heb & Hat3 & Hf3).
  { unfold need_block. lia. }
  { exact Hat2. }
  { apply (frame_depth s0 s2 _ _ Hf02). change (sdepth s0) with (S (sdepth s)).
    unfold depth_block. lia. }
  { apply (lev_levw false). apply (lev_frame false s0 s2 _ _ Hf02 Hlev0). unfold depth_block. lia. }
  pose proof (frame_trans _ _ _ Hf02 Hf3) as Hf03.
  assert (Hfin : forall n sF, if_body A G D C E OPS (PA d0) s0 = Ok n sF ->
            erase n = shape_stmt (StIf init cond body els) -> at_toks sF rst -> frame s0 sF ->
            exists n s1, k_if A G D C E (PA (S d0)) s = Ok n s1 /\
              erase n = shape_stmt (StIf init cond body els) /\ at_toks s1 rst /\ frame s s1).
  { intros n sF Hbody Hen HatF HfF. exists n, (upd_depth A G D E sF (pred (sdepth sF))).
    split; [| split; [exact Hen | split; [exact HatF | apply frame_nested; exact HfF]]].
    change (k_if A G D C E (PA (S d0)) s)
      with (nested A G D E 143 (if_body A G D C E OPS (PA d0)) s).
    apply nested_intro; [lia | exact Hbody]. }
  destruct els as [st' |]; [destruct st'; try (exfalso; exact (proj2 Hwe)) |].
  - (* else { .. } ; *)
    destruct Hwe as (Hwe & _). cbn [wf_stmt] in Hwe.
    cbn [omax] in HI, Hd, Hdep, Hl2, Hlev0.
    rewrite size_blockst in HI. rewrite need_blockst in Hd.
    rewrite depth_blockst in Hdep, Hl2, Hlev0.
    cbn [print_else app] in Hat3. rewrite <- app_assoc in Hat3. cbn [app] in Hat3.
    destruct (skipped_yes OPS s3 _ _ (KKw KElse) Hat3 eq_refl) as (s4 & Hs4 & Hat4 & Hf4).
    pose proof (frame_trans _ _ _ Hf03 Hf4) as Hf04.
    assert (Hat4' : at_toks s4 (tk OBraceLeft :: (print_stmts body0 ++ [tk OBraceRight]) ++
                                 tk OSemiColon :: rst)) by exact Hat4.
    destruct (at_toks_cur _ _ _ Hat4') as (p4 & Hc4).
    destruct (block_ih _ body0 HI ltac:(lia) Hwe d0 s4 (tk OSemiColon :: rst))
      as (ne & s5 & Hbe & Hee & Hat5 & Hf5).
    { lia. }
    { exact Hat4. }
    { apply (frame_depth s0 s4 _ _ Hf04). change (sdepth s0) with (S (sdepth s)). lia. }
    { apply (lev_levw false). apply (lev_frame false s0 s4 _ _ Hf04 Hlev0). lia. }
    destruct (skipped_yes OPS s5 _ _ (KOp OSemiColon) Hat5 eq_refl) as (s6 & Hs6 & Hat6 & Hf6).
    apply (Hfin (mk A C GIf [pos] [] [nopt oi; nc; nb; ne]) s6).
    + unfold if_body. rewrite Hx. cbn [bind]. rewrite Hh. cbn [bind]. rewrite Hb. cbn [bind].
      rewrite Hs4. cbn [bind]. rewrite Hc4. unfold tk. cbv iota. rewrite Hbe. cbn [bind].
      rewrite Hs6. reflexivity.
    + rewrite erase_mk. cbn [map]. rewrite Heoi, Henc, Heb, Hee. reflexivity.
    + exact Hat6.
    + exact (frame_trans _ _ _ (frame_trans _ _ _ Hf04 Hf5) Hf6).
  - (* else if .. *)
    destruct Hwe as (Hwe & _).
    cbn [omax] in HI, Hd, Hdep, Hl2, Hlev0.
    cbn [print_else app] in Hat3.
    destruct (skipped_yes OPS s3 _ _ (KKw KElse) Hat3 eq_refl) as (s4 & Hs4 & Hat4 & Hf4).
    pose proof (frame_trans _ _ _ Hf03 Hf4) as Hf04.
    pose proof Hat4 as Hat4'. rewrite print_if_eq in Hat4'. cbn [app] in Hat4'.
    destruct (at_toks_cur _ _ _ Hat4') as (p4 & Hc4).
    destruct HI as (_ & _ & _ & Hif & _).
    destruct (Hif init0 cond0 body0 els ltac:(lia) Hwe d0 s4 rst) as (ne & s5 & Hke & Hee & Hat5 & Hf5).
    { lia. }
    { exact Hat4. }
    { apply (frame_depth s0 s4 _ _ Hf04). change (sdepth s0) with (S (sdepth s)). lia. }
    { apply (lev_frame false s0 s4 _ _ Hf04 Hlev0). lia. }
    apply (Hfin (mk A C GIf [pos] [] [nopt oi; nc; nb; ne]) s5).
    + unfold if_body. rewrite Hx. cbn [bind]. rewrite Hh. cbn [bind]. rewrite Hb. cbn [bind].
      rewrite Hs4. cbn [bind]. rewrite Hc4. unfold kw. cbv iota. rewrite Hke. reflexivity.
    + rewrite erase_mk. cbn [map]. rewrite Heoi, Henc, Heb, Hee. reflexivity.
    + exact Hat5.
    + exact (frame_trans _ _ _ Hf04 Hf5).
  - (* no else *)
    cbn [print_else app] in Hat3.
    pose proof (skipped_no OPS s3 _ (KKw KElse) Hat3 eq_refl) as Hs4.
    destruct (skipped_yes OPS s3 _ _ (KOp OSemiColon) Hat3 eq_refl) as (s5 & Hs5 & Hat5 & Hf5).
    apply (Hfin (mk A C GIf [pos] [] [nopt oi; nc; nb; nnone]) s5).
    + unfold if_body. rewrite Hx. cbn [bind]. rewrite Hh. cbn [bind]. rewrite Hb. cbn [bind].
      rewrite Hs4. cbn [bind]. rewrite Hs5. reflexivity.
    + rewrite erase_mk. cbn [map]. rewrite Heoi, Henc, Heb. reflexivity.
    + exact Hat5.
    + exact (frame_trans _ _ _ Hf03 Hf5).
Qed.

Lemma if_ok : forall init cond body els,
  IHS (size_stmt (StIf init cond body els)) -> wf_stmt (StIf init cond body els) ->
  IFP (StIf init cond body els).
Proof. intros init cond body els HI Hwf. apply IFPs_IFP. apply if_ok_s; assumption. Qed.

(* ------------------------------------------------------------ 3. through parse_stmt *)

(* stmt_body, run inside the hub of parse_stmt *)
Definition SBP (st : stmt2) : Prop := forall d (s : pstateT) rst,
  need_stmt2 st <= S d -> at_toks s (print_stmt st ++ rst) ->
  sdepth s + depth_stmt2 st <= S MAX_NESTING -> lev false s (depth_stmt2 st) ->
  exists n s1, stmt_body A G D C E OPS (PA d) s = Ok n s1 /\ erase n = shape_stmt st /\
               at_toks s1 rst /\ frame s s1.

Lemma SBP_SC : forall st, SBP st -> SC st.
Proof.
  intros st H d s rst Hd Hat _ Hdep Hlev.
  pose proof (ms_ge4 true st : 4 <= need_stmt2 st) as Hn4.
  pose proof (ms_ge4 false st : 4 <= depth_stmt2 st) as Hd4.
  destruct d as [| d0]; [lia |].
  set (s0 := upd_depth A G D E s (S (sdepth s))).
  destruct (H d0 s0 rst) as (n & s1 & Hk & He & Hat1 & Hf1);
    [lia | exact Hat | change (sdepth s0) with (S (sdepth s)); lia | exact Hlev |].
  exists n, (upd_depth A G D E s1 (pred (sdepth s1))).
  split; [| split; [exact He | split; [exact Hat1 | apply frame_nested; exact Hf1]]].
  change (k_stmt A G D C E (PA (S d0)) s)
    with (nested A G D E 142 (stmt_body A G D C E OPS (PA d0)) s).
  apply nested_intro; [lia | exact Hk].
Qed.

Lemma stmt_if_ok : forall init cond body els,
  IFPs (StIf init cond body els) -> SC (StIf init cond body els).
Proof.
  intros init cond body els H. apply SBP_SC. intros d s rst Hd Hat Hdep Hlev.
  destruct (H d s rst Hd Hat Hdep Hlev) as (n & s1 & Hk & He & Hat1 & Hf1).
  exists n, s1. split; [| split; [exact He | split; [exact Hat1 | exact Hf1]]].
  rewrite print_if_eq in Hat. cbn [app] in Hat.
  destruct (at_toks_cur _ _ _ Hat) as (p & Hc).
  unfold stmt_body. rewrite Hc. exact Hk.
Qed.

(* ------------------------------------------------------------ 4. for statements *)

(* an optional simple statement of a for header, in front of token t (of kind k) *)
Lemma osimple_ok : forall (o : option simple2) k t d (s : pstateT) rst,
  (forall e, In e (exprs_osimple o) -> KE2 true e) -> opt2 (wf_simple2 true) o ->
  tok_is t k = true -> (k = KOp OSemiColon \/ k = KOp OBraceLeft) ->
  (forall sm, o = Some sm -> simple_follow true sm (t :: rst)) ->
  m_osimple Nat.max need2 o + 2 <= d -> at_toks s (print_osimple print2 o ++ t :: rst) ->
  sdepth s + m_osimple Nat.max depth2 o <= MAX_NESTING -> lev true s (m_osimple Nat.max depth2 o) ->
  exists on s1,
    (if cur_not A G D E s k
     then bind A G D E (PSS (PA d) s) (fun st s' => Ok (Some st) s')
     else Ok None s) = Ok on s1 /\
    erase (nopt on) = shape_osimple shape2 o /\ at_toks s1 (t :: rst) /\ frame s s1.
Proof.
  intros o k t d s rst Hke Hwf Htk Hk Hfo Hd Hat Hdep Hlev. destruct o as [sm |].
  - cbn [exprs_osimple opt2 m_osimple print_osimple] in *.
    destruct (first_tok_simple first_tok_e true sm Hwf) as (t0 & l0 & Hp & Hst).
    destruct (H_ssp true sm Hke Hwf d s (t :: rst) Hd Hat (Hfo sm eq_refl) Hdep Hlev)
      as (n & s1 & Hp1 & He & Hat1 & Hf1).
    exists (Some n), s1. split; [| split; [exact He | split; [exact Hat1 | exact Hf1]]].
    rewrite Hp in Hat. rewrite (cur_not_toks _ _ _ _ Hat).
    destruct Hst as (_ & Hs1 & _ & Hs2 & _).
    destruct Hk as [-> | ->]; [rewrite Hs1 | rewrite Hs2]; cbn [negb]; rewrite Hp1; reflexivity.
  - cbn [print_osimple app] in Hat. exists None, s.
    split; [| split; [reflexivity | split; [exact Hat | apply frame_refl]]].
    rewrite (cur_not_toks _ _ _ _ Hat), Htk. reflexivity.
Qed.

(* the block of a for / range statement: the level of the statement is restored *)
Lemma hdr_block : forall n body d (s1 sH : pstateT) rst,
  IHS n -> sum2 size_stmt body < n -> all2 wf_stmt body /\ seq_ok body ->
  need_block body <= d -> frame (rs s1) sH -> at_toks sH (print_block body ++ rst) ->
  sdepth s1 + depth_block body <= MAX_NESTING -> levw s1 (depth_block body) ->
  exists nb s2, k_block A G D C E (PA d) (updl sH (lp s1) (ln s1)) = Ok nb s2 /\
    erase nb = shape_block body /\ at_toks s2 rst /\ frame s1 s2.
Proof.
  intros n body d s1 sH rst HI Hsz Hwf Hd Hf Hat Hdep Hlev.
  destruct (block_ih n body HI Hsz Hwf d (updl sH (lp s1) (ln s1)) rst Hd Hat)
    as (nb & s2 & Hb & He & Hat2 & Hf2).
  - change (sdepth (updl sH (lp s1) (ln s1))) with (sdepth sH).
    rewrite (depth_hdr_frame s1 sH Hf). exact Hdep.
  - exact Hlev.
  - exists nb, s2. split; [exact Hb |]. split; [exact He |]. split; [exact Hat2 |].
    exact (frame_trans _ _ _ (frame_restore s1 sH (depth_hdr_frame s1 sH Hf)) Hf2).
Qed.

(* the closure `finish` of parse_for_stmt *)
Definition finish_for (d : nat) (pos : A) (lp0 ln0 : nat) (cond0 : option nodeT) (s3 : pstateT)
  : res A G D E nodeT :=
  bind A G D E
    (if cur_is A G D E s3 (KOp OSemiColon) then
       bind A G D E (next A G D C E OPS s3) (fun _ s4 =>
       bind A G D E
         (if cur_not A G D E s4 (KOp OSemiColon)
          then bind A G D E (PSS (PA d) s4) (fun st s5 => Ok (Some st) s5)
          else Ok None s4) (fun cond s5 =>
       bind A G D E (expect A G D C E OPS (KOp OSemiColon) 113 s5) (fun _ s6 =>
       bind A G D E
         (if cur_not A G D E s6 (KOp OBraceLeft)
          then bind A G D E (PSS (PA d) s6) (fun st s7 => Ok (Some st) s7)
          else Ok None s6) (fun post s7 =>
       Ok (cond0, cond, post) s7))))
     else Ok (None, cond0, None) s3)
    (fun icp s4 =>
       let '(init, cond, post) := icp in
       bind A G D E (k_block A G D C E (PA d) (updl s4 lp0 ln0)) (fun body s5 =>
       Ok (mk A C GFor [pos] [] [nopt init; nopt cond; nopt post; body]) s5)).

(*  ; [cond] ; [post] { body }  *)
Lemma finish_three_ok : forall n (c p : option simple2) body d pos (s1 sA : pstateT) oi rst,
  IHS n ->
  m_osimple Nat.add size2 c + m_osimple Nat.add size2 p + sum2 size_stmt body < n ->
  opt2 (wf_simple2 true) c -> opt2 (fun sm => wf_simple2 true sm /\ simple_stop2 sm) p ->
  all2 wf_stmt body /\ seq_ok body ->
  m_osimple Nat.max need2 c + 2 <= d -> m_osimple Nat.max need2 p + 2 <= d ->
  need_block body <= d -> frame (rs s1) sA ->
  at_toks sA (tk OSemiColon :: print_osimple print2 c ++ tk OSemiColon ::
              print_osimple print2 p ++ print_block body ++ rst) ->
  sdepth s1 + Nat.max (Nat.max (m_osimple Nat.max depth2 c) (m_osimple Nat.max depth2 p))
                (depth_block body) <= MAX_NESTING ->
  m_osimple Nat.max depth2 c <= 65 -> m_osimple Nat.max depth2 p <= 65 ->
  levw s1 (depth_block body) ->
  exists oc op nb s2,
    finish_for d pos (lp s1) (ln s1) oi sA =
      Ok (mk A C GFor [pos] [] [nopt oi; nopt oc; nopt op; nb]) s2 /\
    erase (nopt oc) = shape_osimple shape2 c /\ erase (nopt op) = shape_osimple shape2 p /\
    erase nb = shape_block body /\ at_toks s2 rst /\ frame s1 s2.
Proof.
  intros n c p body d pos s1 sA oi rst HI Hsz Hwc Hwp Hwb Hdc Hdp Hdb HfA HatA Hdep Hlc Hlp Hlev.
  destruct (next_toks OPS _ _ (at_toks_rest' _ _ _ HatA)) as (s4 & Hn & Hat4 & Hf4).
  pose proof (frame_trans _ _ _ HfA Hf4) as Hf04.
  assert (Hkc : forall e, In e (exprs_osimple c) -> KE2 true e).
  { destruct c as [sm |]; [| intros e []].
    apply (simple_ke _ sm HI); [cbn [m_osimple] in Hsz; lia | exact Hwc]. }
  assert (Hwp1 : opt2 (wf_simple2 true) p) by (destruct p; [exact (proj1 Hwp) | exact I]).
  assert (Hkp : forall e, In e (exprs_osimple p) -> KE2 true e).
  { destruct p as [sm |]; [| intros e []].
    apply (simple_ke _ sm HI); [cbn [m_osimple] in Hsz; lia | exact Hwp1]. }
  destruct (osimple_ok c (KOp OSemiColon) (tk OSemiColon) d s4
              (print_osimple print2 p ++ print_block body ++ rst)
              Hkc Hwc eq_refl (or_introl eq_refl))
    as (oc & s5 & Hoc & Heoc & Hat5 & Hf5).
  { intros sm _. left. reflexivity. }
  { exact Hdc. }
  { exact Hat4. }
  { rewrite (depth_hdr_frame s1 s4 Hf04). lia. }
  { exact (lev_hdr_frame s1 s4 _ Hf04 Hlc). }
  pose proof (frame_trans _ _ _ Hf04 Hf5) as Hf05.
  destruct (expect_toks OPS s5 _ _ (KOp OSemiColon) 113 Hat5 eq_refl) as (p6 & s6 & Hx6 & Hat6 & Hf6).
  pose proof (frame_trans _ _ _ Hf05 Hf6) as Hf06.
  assert (Hat6' : at_toks s6 (print_osimple print2 p ++ tk OBraceLeft ::
                                (print_stmts body ++ [tk OBraceRight]) ++ rst)) by exact Hat6.
  destruct (osimple_ok p (KOp OBraceLeft) (tk OBraceLeft) d s6
              ((print_stmts body ++ [tk OBraceRight]) ++ rst)
              Hkp Hwp1 eq_refl (or_intror eq_refl))
    as (op & s7 & Hop & Heop & Hat7 & Hf7).
  { intros sm ->. right. split; [reflexivity |]. split; [reflexivity | exact (proj2 Hwp)]. }
  { exact Hdp. }
  { exact Hat6'. }
  { rewrite (depth_hdr_frame s1 s6 Hf06). lia. }
  { exact (lev_hdr_frame s1 s6 _ Hf06 Hlp). }
  pose proof (frame_trans _ _ _ Hf06 Hf7) as Hf07.
  destruct (hdr_block n body d s1 s7 rst HI ltac:(lia) Hwb Hdb Hf07 Hat7 ltac:(lia) Hlev)
    as (nb & s8 & Hb & Heb & Hat8 & Hf8).
  exists oc, op, nb, s8.
  split; [| split; [exact Heoc | split; [exact Heop | split; [exact Heb | split; [exact Hat8 | exact Hf8]]]]].
  unfold finish_for. rewrite (cur_is_toks _ _ _ _ HatA).
  change (tok_is (tk OSemiColon) (KOp OSemiColon)) with true. cbv iota.
  rewrite Hn. cbn [bind]. rewrite Hoc. cbn [bind]. rewrite Hx6. cbn [bind]. rewrite Hop. cbn [bind].
  rewrite Hb. reflexivity.
Qed.

(*  [cond] { body }  *)
Lemma finish_cond_ok : forall n body d pos (s1 sA : pstateT) oi rst,
  IHS n -> sum2 size_stmt body < n -> all2 wf_stmt body /\ seq_ok body ->
  need_block body <= d -> frame (rs s1) sA -> at_toks sA (print_block body ++ rst) ->
  sdepth s1 + depth_block body <= MAX_NESTING -> levw s1 (depth_block body) ->
  exists nb s2,
    finish_for d pos (lp s1) (ln s1) oi sA =
      Ok (mk A C GFor [pos] [] [nnone; nopt oi; nnone; nb]) s2 /\
    erase nb = shape_block body /\ at_toks s2 rst /\ frame s1 s2.
Proof.
  intros n body d pos s1 sA oi rst HI Hsz Hwb Hdb HfA HatA Hdep Hlev.
  destruct (hdr_block n body d s1 sA rst HI Hsz Hwb Hdb HfA HatA Hdep Hlev)
    as (nb & s2 & Hb & Heb & Hat2 & Hf2).
  exists nb, s2. split; [| split; [exact Heb | split; [exact Hat2 | exact Hf2]]].
  assert (HatA' : at_toks sA (tk OBraceLeft :: (print_stmts body ++ [tk OBraceRight]) ++ rst))
    by exact HatA.
  unfold finish_for. rewrite (cur_is_toks _ _ _ _ HatA').
  change (tok_is (tk OBraceLeft) (KOp OSemiColon)) with false. cbv iota. cbn [bind].
  rewrite Hb. reflexivity.
Qed.

Lemma for_sbp : forall h body,
  IHS (size_stmt (StFor h body)) -> wf_stmt (StFor h body) -> SBP (StFor h body).
Proof.
  intros h body HI Hwf d s rst Hd Hat Hdep Hlev.
  cbn [wf_stmt] in Hwf. destruct Hwf as (Hwh & Hwb).
  rewrite print_for_eq in Hat. cbn [app] in Hat. rewrite <- app_assoc in Hat.
  rewrite size_for in HI. rewrite need_for in Hd. rewrite depth_for in Hdep, Hlev.
  pose proof Hlev as (Hl1 & Hl2).
  destruct (at_toks_cur _ _ _ Hat) as (p0 & Hc).
  destruct (expect_toks OPS s _ _ (KKw KFor) 111 Hat eq_refl) as (pos & s1 & Hx & Hat1 & Hf1).
  assert (Hlevw1 : levw s1 (depth_block body)).
  { apply (lev_levw false). apply (lev_frame false s s1 _ _ Hf1 Hlev). unfold depth_block. lia. }
  assert (Hdep1 : sdepth s1 + depth_block body <= MAX_NESTING).
  { apply (frame_depth s s1 _ _ Hf1). unfold depth_block. lia. }
  assert (Hdb : need_block body <= d) by (unfold need_block; lia).
  assert (Hfin : forall n sF, parse_for_stmt A G D C E OPS (PA d) s = Ok n sF ->
            erase n = shape_stmt (StFor h body) -> at_toks sF rst -> frame s1 sF ->
            exists n s1, stmt_body A G D C E OPS (PA d) s = Ok n s1 /\
              erase n = shape_stmt (StFor h body) /\ at_toks s1 rst /\ frame s s1).
  { intros n sF Hbody Hen HatF HfF. exists n, sF.
    split; [| split; [exact Hen | split; [exact HatF | exact (frame_trans _ _ _ Hf1 HfF)]]].
    unfold stmt_body. rewrite Hc. exact Hbody. }
  destruct h as [[c |] | i c p].
  - (* for cond { *)
    cbn [opt2] in Hwh. destruct Hwh as (Hwc & Hsc).
    cbn [print_forhdr print_osimple] in Hat1. cbn [m_forhdr m_osimple] in HI, Hd, Hdep, Hl2.
    destruct (first_tok_simple first_tok_e true c Hwc) as (t0 & l0 & Hp & Hst).
    assert (Hfo : simple_follow true c (print_block body ++ rst)).
    { right. split; [reflexivity |]. split; [reflexivity | exact Hsc]. }
    destruct (H_ssp true c (simple_ke _ c HI ltac:(lia) Hwc) Hwc d (rs s1) (print_block body ++ rst))
      as (st & s3 & Hp3 & Hest & Hat3 & Hf3).
    { unfold need_simple. lia. }
    { exact Hat1. }
    { exact Hfo. }
    { change (sdepth (rs s1)) with (sdepth s1). apply (frame_depth s s1 _ _ Hf1).
      unfold depth_simple. lia. }
    { apply lev_reset. unfold depth_simple. lia. }
    destruct (finish_cond_ok _ body d pos s1 s3 (Some st) rst HI ltac:(lia) Hwb Hdb Hf3 Hat3 Hdep1 Hlevw1)
      as (nb & s4 & Hfi & Heb & Hat4 & Hf4).
    apply (Hfin (mk A C GFor [pos] [] [nnone; st; nnone; nb]) s4).
    + assert (Hat1r : at_toks (rs s1) (print_simple print2 c ++ print_block body ++ rst)) by exact Hat1.
      rewrite Hp in Hat1r. destruct Hst as (_ & Hs1 & _ & Hs2 & _ & _ & _ & _ & _ & Hs3 & _).
      unfold parse_for_stmt. rewrite Hx. cbn [bind]. cbv zeta.
      rewrite (cur_is_toks _ _ _ (KKw KRange) Hat1r), Hs3.
      rewrite (cur_is_toks _ _ _ (KOp OBraceLeft) Hat1r), Hs2.
      rewrite (cur_not_toks _ _ _ _ Hat1r), Hs1. cbn [negb].
      rewrite Hp3. cbn [bind]. rewrite (simple_not_range _ _ st c Hest). exact Hfi.
    + rewrite erase_mk. cbn [map]. rewrite Hest, Heb. reflexivity.
    + exact Hat4.
    + exact Hf4.
  - (* for { *)
    cbn [print_forhdr print_osimple app] in Hat1. cbn [m_forhdr m_osimple] in HI.
    destruct (hdr_block _ body d s1 (rs s1) rst HI ltac:(lia) Hwb Hdb (frame_refl _) Hat1 Hdep1 Hlevw1)
      as (nb & s4 & Hb & Heb & Hat4 & Hf4).
    apply (Hfin (mk A C GFor [pos] [] [nnone; nnone; nnone; nb]) s4).
    + assert (Hat1r : at_toks (rs s1) (tk OBraceLeft :: (print_stmts body ++ [tk OBraceRight]) ++ rst))
        by exact Hat1.
      unfold parse_for_stmt. rewrite Hx. cbn [bind]. cbv zeta.
      rewrite (cur_is_toks _ _ _ (KKw KRange) Hat1r).
      rewrite (cur_is_toks _ _ _ (KOp OBraceLeft) Hat1r).
      change (tok_is (tk OBraceLeft) (KKw KRange)) with false.
      change (tok_is (tk OBraceLeft) (KOp OBraceLeft)) with true. cbv iota.
      rewrite Hb. reflexivity.
    + rewrite erase_mk. cbn [map]. rewrite Heb. reflexivity.
    + exact Hat4.
    + exact Hf4.
  - (* for init ; cond ; post { *)
    destruct Hwh as (Hwi & Hwc & Hwp).
    cbn [print_forhdr] in Hat1. cbn [m_forhdr] in HI, Hd, Hdep, Hl2.
    repeat (rewrite <- app_assoc in Hat1; cbn [app] in Hat1).
    assert (Hdep3 : sdepth s1 + Nat.max (Nat.max (m_osimple Nat.max depth2 c)
                       (m_osimple Nat.max depth2 p)) (depth_block body) <= MAX_NESTING).
    { apply (frame_depth s s1 _ _ Hf1). unfold depth_block. lia. }
    destruct i as [si |].
    + cbn [opt2 print_osimple m_osimple] in Hwi, Hat1, HI, Hd, Hdep, Hl2.
      destruct (first_tok_simple first_tok_e true si Hwi) as (t0 & l0 & Hp & Hst).
      destruct (H_ssp true si (simple_ke _ si HI ltac:(lia) Hwi) Hwi d (rs s1)
                  (tk OSemiColon :: print_osimple print2 c ++ tk OSemiColon ::
                   print_osimple print2 p ++ print_block body ++ rst))
        as (st & s3 & Hp3 & Hest & Hat3 & Hf3).
      { unfold need_simple. lia. }
      { exact Hat1. }
      { left. reflexivity. }
      { change (sdepth (rs s1)) with (sdepth s1). apply (frame_depth s s1 _ _ Hf1).
        unfold depth_simple. lia. }
      { apply lev_reset. unfold depth_simple. lia. }
      destruct (finish_three_ok _ c p body d pos s1 s3 (Some st) rst HI ltac:(lia) Hwc Hwp Hwb
                  ltac:(lia) ltac:(lia) Hdb Hf3 Hat3 Hdep3 ltac:(lia) ltac:(lia) Hlevw1)
        as (oc & op & nb & s4 & Hfi & Heoc & Heop & Heb & Hat4 & Hf4).
      apply (Hfin (mk A C GFor [pos] [] [st; nopt oc; nopt op; nb]) s4).
      * assert (Hat1r : at_toks (rs s1) (print_simple print2 si ++ tk OSemiColon ::
                  print_osimple print2 c ++ tk OSemiColon ::
                  print_osimple print2 p ++ print_block body ++ rst)) by exact Hat1.
        rewrite Hp in Hat1r. destruct Hst as (_ & Hs1 & _ & Hs2 & _ & _ & _ & _ & _ & Hs3 & _).
        unfold parse_for_stmt. rewrite Hx. cbn [bind]. cbv zeta.
        rewrite (cur_is_toks _ _ _ (KKw KRange) Hat1r), Hs3.
        rewrite (cur_is_toks _ _ _ (KOp OBraceLeft) Hat1r), Hs2.
        rewrite (cur_not_toks _ _ _ _ Hat1r), Hs1. cbn [negb].
        rewrite Hp3. cbn [bind]. rewrite (simple_not_range _ _ st si Hest). exact Hfi.
      * rewrite erase_mk. cbn [map]. rewrite Hest, Heoc, Heop, Heb. reflexivity.
      * exact Hat4.
      * exact Hf4.
    + cbn [print_osimple app m_osimple] in Hat1, HI, Hd, Hdep, Hl2.
      destruct (finish_three_ok _ c p body d pos s1 (rs s1) None rst HI ltac:(lia) Hwc Hwp Hwb
                  ltac:(lia) ltac:(lia) Hdb (frame_refl _) Hat1 Hdep3 ltac:(lia) ltac:(lia) Hlevw1)
        as (oc & op & nb & s4 & Hfi & Heoc & Heop & Heb & Hat4 & Hf4).
      apply (Hfin (mk A C GFor [pos] [] [nnone; nopt oc; nopt op; nb]) s4).
      * assert (Hat1r : at_toks (rs s1) (tk OSemiColon :: print_osimple print2 c ++ tk OSemiColon ::
                  print_osimple print2 p ++ print_block body ++ rst)) by exact Hat1.
        unfold parse_for_stmt. rewrite Hx. cbn [bind]. cbv zeta.
        rewrite (cur_is_toks _ _ _ (KKw KRange) Hat1r).
        rewrite (cur_is_toks _ _ _ (KOp OBraceLeft) Hat1r).
        rewrite (cur_not_toks _ _ _ _ Hat1r).
        change (tok_is (tk OSemiColon) (KKw KRange)) with false.
        change (tok_is (tk OSemiColon) (KOp OBraceLeft)) with false.
        change (negb (tok_is (tk OSemiColon) (KOp OSemiColon))) with false. cbv iota.
        exact Hfi.
      * rewrite erase_mk. cbn [map]. rewrite Heoc, Heop, Heb. reflexivity.
      * exact Hat4.
      * exact Hf4.
Qed.

Lemma for_ok : forall h body,
  IHS (size_stmt (StFor h body)) -> wf_stmt (StFor h body) -> SC (StFor h body).
Proof. intros h body HI Hwf. apply SBP_SC. apply for_sbp; assumption. Qed.

(* ------------------------------------------------------------ 5. range statements *)

Lemma check_assign_ok2 : forall l (ns : list nodeT) (s : pstateT),
  map erase ns = map shape2 l -> all2 is_ident2 l ->
  check_assign_stmt A G D C E ns s = Ok tt s.
Proof.
  induction l as [| e r IH]; intros ns s Hes Hid; destruct ns as [| n ns']; simpl in Hes;
    try discriminate Hes; [reflexivity |].
  injection Hes as Hn Hr. destruct Hid as (He & Hid). cbn [check_assign_stmt].
  rewrite <- (is_tag_erase GIdent n), Hn. destruct e; try destruct He.
  change (is_tag GIdent (shape2 (E2Ident name))) with true. cbv iota.
  apply IH; assumption.
Qed.

Lemma map_erase_length2 : forall (ns : list nodeT) l, map erase ns = map shape2 l ->
  length ns = length l.
Proof.
  intros ns l H. rewrite <- (map_length erase ns), H, map_length. reflexivity.
Qed.

(* parse_simple_stmt on the range clause  k, v := range x  in front of the "{" *)
Lemma range_clause_ok : forall lhs op x d (s : pstateT) rst,
  lhs <> [] -> Forall (KE2 true) lhs -> KE2 true x ->
  (op = OAssign \/ op = ODefine) -> (op = ODefine -> all2 is_ident2 lhs) ->
  brace_stop true x ->
  max2 need2 lhs + 2 <= d -> need2 x + 2 <= d ->
  sdepth s + Nat.max (max2 depth2 lhs) (depth2 x) <= MAX_NESTING ->
  max2 depth2 lhs <= 65 -> depth2 x <= 65 ->
  at_toks s (commas (map print2 lhs) ++ tk op :: kw KRange :: print2 x ++ tk OBraceLeft :: rst) ->
  exists nl pa pr nx s1,
    PSS (PA d) (rs s) =
      Ok (mk A C GAssign [pa] [AOp op] [nlist nl; nlist [mk A C GRange [pr] [] [nx]]]) s1 /\
    map erase nl = map shape2 lhs /\ erase nx = shape2 x /\
    at_toks s1 (tk OBraceLeft :: rst) /\ frame (rs s) s1.
Proof.
  intros lhs op x d s rst Hne Hkl Hkx Hop Hid Hbs Hdl Hdx Hdep Hll Hlx Hat.
  assert (Hao : is_assign_op op = true) by (destruct Hop as [-> | ->]; reflexivity).
  destruct (assign_closing op Hao) as (Hcl & Hnc).
  destruct (exprs_ok2 A G D C E OPS true lhs Hne Hkl d (rs s)
              (tk op :: kw KRange :: print2 x ++ tk OBraceLeft :: rst))
    as (nl & s2 & Hl & Hel & Hat2 & Hf2).
  { split; assumption. }
  { exact Hdl. }
  { change (sdepth (rs s)) with (sdepth s). lia. }
  { apply lev_reset. exact Hll. }
  { exact Hat. }
  destruct (at_toks_cur _ _ _ Hat2) as (pa & Hc2).
  destruct (next_toks OPS _ _ (at_toks_rest' _ _ _ Hat2)) as (s3 & Hn & Hat3 & Hf3).
  pose proof (frame_trans _ _ _ Hf2 Hf3) as Hf03.
  destruct (expect_toks OPS s3 _ _ (KKw KRange) 73 Hat3 eq_refl) as (pr & s4 & Hx4 & Hat4 & Hf4).
  pose proof (frame_trans _ _ _ Hf03 Hf4) as Hf04.
  destruct (Hkx d s4 (tk OBraceLeft :: rst) Hdx Hat4 (efollow_brace' x rst Hbs))
    as (nx & s5 & Hk & Hex & Hat5 & Hf5).
  { rewrite (depth_hdr_frame s s4 Hf04). lia. }
  { exact (lev_hdr_frame s s4 _ Hf04 Hlx). }
  exists nl, pa, pr, nx, s5.
  split; [| split; [exact Hel | split; [exact Hex | split; [exact Hat5 |
            exact (frame_trans _ _ _ Hf04 Hf5)]]]].
  assert (Hlt : (length nl <? length [mk A C GRange [pr] [] [nx]]) = false).
  { rewrite (map_erase_length2 nl lhs Hel). apply Nat.ltb_ge.
    destruct lhs; [exfalso; apply Hne; reflexivity | simpl; lia]. }
  unfold parse_simple_stmt. rewrite Hl. cbn [bind]. rewrite Hc2. unfold tk. cbv beta iota.
  rewrite Hao. rewrite Hn. cbn [bind]. cbv zeta.
  rewrite (cur_is_toks _ _ _ _ Hat3). change (tok_is (kw KRange) (KKw KRange)) with true.
  assert (Hisas : op_eqb op OAssign || op_eqb op ODefine = true)
    by (destruct Hop as [-> | ->]; reflexivity).
  rewrite Hisas. cbn [andb]. cbv iota.
  unfold parse_range_expr. rewrite Hx4. cbn [bind]. rewrite Hk. cbn [bind].
  destruct Hop as [-> | ->].
  - change (op_eqb OAssign ODefine) with false. cbv iota. cbn [bind]. rewrite Hlt. reflexivity.
  - change (op_eqb ODefine ODefine) with true. cbv iota.
    rewrite (check_assign_ok2 lhs nl s5 Hel (Hid eq_refl)). cbn [bind]. rewrite Hlt. reflexivity.
Qed.

Lemma range_sbp : forall lhs op x body,
  IHS (size_stmt (StRange lhs op x body)) -> wf_stmt (StRange lhs op x body) ->
  SBP (StRange lhs op x body).
Proof.
  intros lhs op x body HI Hwf d s rst Hd Hat Hdep Hlev.
  cbn [wf_stmt] in Hwf. destruct Hwf as (Hlen & Hwl & Hop & Hwx & Hbs & Hwb).
  rewrite print_range_eq in Hat. cbn [app] in Hat.
  rewrite size_range in HI. rewrite need_range in Hd. rewrite depth_range in Hdep, Hlev.
  pose proof Hlev as (Hl1 & Hl2).
  destruct (at_toks_cur _ _ _ Hat) as (p0 & Hc).
  destruct (expect_toks OPS s _ _ (KKw KFor) 111 Hat eq_refl) as (pos & s1 & Hx & Hat1 & Hf1).
  assert (Hlevw1 : levw s1 (depth_block body)).
  { apply (lev_levw false). apply (lev_frame false s s1 _ _ Hf1 Hlev). unfold depth_block. lia. }
  assert (Hdep1 : sdepth s1 + depth_block body <= MAX_NESTING).
  { apply (frame_depth s s1 _ _ Hf1). unfold depth_block. lia. }
  assert (Hdb : need_block body <= d) by (unfold need_block; lia).
  assert (Hfin : forall n sF, parse_for_stmt A G D C E OPS (PA d) s = Ok n sF ->
            erase n = shape_stmt (StRange lhs op x body) -> at_toks sF rst -> frame s1 sF ->
            exists n s1, stmt_body A G D C E OPS (PA d) s = Ok n s1 /\
              erase n = shape_stmt (StRange lhs op x body) /\ at_toks s1 rst /\ frame s s1).
  { intros n sF Hbody Hen HatF HfF. exists n, sF.
    split; [| split; [exact Hen | split; [exact HatF | exact (frame_trans _ _ _ Hf1 HfF)]]].
    unfold stmt_body. rewrite Hc. exact Hbody. }
  assert (Hkx : KE2 true x).
  { destruct HI as (Hke & _). apply Hke; [lia | exact Hwx]. }
  assert (Hdepx : sdepth s1 + Nat.max (max2 depth2 lhs) (depth2 x) <= MAX_NESTING).
  { apply (frame_depth s s1 _ _ Hf1). lia. }
  destruct lhs as [| a l'].
  - (* for range x { *)
    cbn [app] in Hat1. rewrite <- app_assoc in Hat1.
    destruct (expect_toks OPS (rs s1) _ _ (KKw KRange) 112 Hat1 eq_refl)
      as (pr & s3 & Hx3 & Hat3 & Hf3).
    destruct (Hkx d s3 (print_block body ++ rst)) as (nx & s4 & Hk & Hex & Hat4 & Hf4).
    { lia. }
    { exact Hat3. }
    { exact (efollow_brace' x ((print_stmts body ++ [tk OBraceRight]) ++ rst) Hbs). }
    { rewrite (depth_hdr_frame s1 s3 Hf3). cbn [max2] in Hdepx. lia. }
    { apply (lev_hdr_frame s1 s3 _ Hf3). lia. }
    destruct (hdr_block _ body d s1 s4 rst HI ltac:(lia) Hwb Hdb (frame_trans _ _ _ Hf3 Hf4)
                Hat4 Hdep1 Hlevw1) as (nb & s5 & Hb & Heb & Hat5 & Hf5).
    apply (Hfin (mk A C GRangeStmt [pos; pr] [] [nnone; nnone; nnone; nx; nb]) s5).
    + assert (Hat1r : at_toks (rs s1) (kw KRange :: print2 x ++ print_block body ++ rst)) by exact Hat1.
      unfold parse_for_stmt. rewrite Hx. cbn [bind]. cbv zeta.
      rewrite (cur_is_toks _ _ _ (KKw KRange) Hat1r).
      change (tok_is (kw KRange) (KKw KRange)) with true. cbv iota.
      rewrite Hx3. cbn [bind]. rewrite Hk. cbn [bind]. rewrite Hb. reflexivity.
    + rewrite erase_mk. cbn [map]. rewrite Hex, Heb. reflexivity.
    + exact Hat5.
    + exact Hf5.
  - (* for k, v := range x { *)
    destruct (Hop ltac:(discriminate)) as (Hop1 & Hid).
    cbn [app] in Hat1. repeat (rewrite <- app_assoc in Hat1; cbn [app] in Hat1).
    assert (Hkl : Forall (KE2 true) (a :: l')).
    { apply Forall_forall. intros e Hin. destruct HI as (Hke & _). apply Hke.
      - pose proof (sum2_In _ size2 _ _ Hin). lia.
      - exact (all2_In _ _ _ _ Hwl Hin). }
    destruct (range_clause_ok (a :: l') op x d s1 ((print_stmts body ++ [tk OBraceRight]) ++ rst)
                ltac:(discriminate) Hkl Hkx Hop1 Hid Hbs ltac:(lia) ltac:(lia) Hdepx
                ltac:(lia) ltac:(lia) Hat1)
      as (nl & pa & pr & nx & s5 & Hpss & Hel & Hex & Hat5 & Hf5).
    destruct (hdr_block _ body d s1 s5 rst HI ltac:(lia) Hwb Hdb Hf5 Hat5 Hdep1 Hlevw1)
      as (nb & s6 & Hb & Heb & Hat6 & Hf6).
    pose proof (map_erase_length2 nl _ Hel) as Hlnl.
    apply (Hfin (mk A C GRangeStmt [pos; pr] []
                   [nopt (nth_error nl 0); nopt (nth_error nl 1);
                    Nd GPos [pa] [AOp op] [] []; nx; nb]) s6).
    + destruct (first_tok_e a true (proj1 Hwl)) as (t0 & l0 & Hp & Hst).
      assert (Hat1r : at_toks (rs s1) (commas (map print2 (a :: l')) ++ tk op :: kw KRange ::
                print2 x ++ print_block body ++ rst)) by exact Hat1.
      rewrite commas_cons2, Hp in Hat1r. cbn [app] in Hat1r.
      destruct Hst as (_ & Hs1 & _ & Hs2 & _ & _ & _ & _ & _ & Hs3 & _).
      unfold parse_for_stmt. rewrite Hx. cbn [bind]. cbv zeta.
      rewrite (cur_is_toks _ _ _ (KKw KRange) Hat1r), Hs3.
      rewrite (cur_is_toks _ _ _ (KOp OBraceLeft) Hat1r), Hs2.
      rewrite (cur_not_toks _ _ _ _ Hat1r), Hs1. cbn [negb].
      set (rg := mk A C GRange [pr] [] [nx]) in *.
      set (st := mk A C GAssign [pa] [AOp op] [nlist nl; nlist [rg]]) in *.
      rewrite Hpss. cbn [bind].
      change (assign_is_range A C st) with true. cbv iota.
      change (n_kids (kid st 0)) with nl.
      change (n_kids (kid st 1)) with [rg].
      change (pop_last [rg]) with (Some (@nil nodeT, rg)). cbv beta iota.
      change (is_tag GRange rg) with true. cbv iota.
      assert (H3 : (3 <=? length nl) = false).
      { apply Nat.leb_gt. rewrite Hlnl. lia. }
      rewrite H3. rewrite Hb. reflexivity.
    + rewrite erase_mk.
      destruct l' as [| b [| c l3]]; [| | simpl in Hlen; lia].
      * destruct nl as [| n1 [| n2 nl']]; try discriminate Hel. injection Hel as He1.
        cbn [map nth_error nopt]. rewrite He1, Hex, Heb. reflexivity.
      * destruct nl as [| n1 [| n2 [| n3 nl']]]; try discriminate Hel. injection Hel as He1 He2.
        cbn [map nth_error nopt]. rewrite He1, He2, Hex, Heb. reflexivity.
    + exact Hat6.
    + exact Hf6.
Qed.

Lemma range_ok : forall lhs op x body,
  IHS (size_stmt (StRange lhs op x body)) -> wf_stmt (StRange lhs op x body) ->
  SC (StRange lhs op x body).
Proof. intros lhs op x body HI Hwf. apply SBP_SC. apply range_sbp; assumption. Qed.

(* ------------------------------------------------------------ 6. together *)

Theorem stmts2_ok : forall st, IHS (size_stmt st) -> wf_stmt st ->
  match st with StIf _ _ _ _ | StFor _ _ | StRange _ _ _ _ => True | _ => False end -> SC st.
Proof.
  intros st HI Hwf Hk. destruct st; try destruct Hk.
  - apply stmt_if_ok. apply if_ok_s; assumption.
  - apply for_ok; assumption.
  - apply range_ok; assumption.
Qed.

End IF.
