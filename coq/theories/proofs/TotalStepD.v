(* TOTALITY, part 6: one unfolding of the recursion -- declarations, the
   statement dispatch, the file level; Parser::nested; [GoodT_step]. *)
From Coq Require Import List Bool Arith Lia.
From GoSyn Require Import Token Tok Ast Core.
From GoSyn.proofs Require Import Lift TotalBase TotalLeaf TotalStepA TotalStepB TotalStepC.
Import ListNotations.

Lemma classify_brace tok : classify_stmt tok = SCBraceRight -> tok = TOperator OBraceRight.
Proof.
  destruct tok as [tx|k|o|lk v]; cbn; try discriminate.
  - destruct k; discriminate.
  - destruct o; try discriminate. reflexivity.
Qed.

Section StepD.
Variables (A G D C E : Type) (OPS : ops A G D C).
Variable AF : Prop.
Variable adm : Core.pstate A G D E -> Prop.
Hypothesis adm_le : forall s s' : Core.pstate A G D E,
  adm s -> s_depth s' = s_depth s -> meas s' <= meas s -> adm s'.
Local Hint Extern 2 (adm _) =>
  eapply adm_le; [ eassumption | sproj; lia | norm_goal; lia ] : total.
Notation pstate := (Core.pstate A G D E).
Notation res := (Core.res A G D E).
Notation parsers := (Core.parsers A G D C E).
Notation nodeT := (node A C).

Notation tspec Q p := (forall s : pstate, WF s -> adm s -> spec AF s (Q s) (p s)).

Variable self : parsers.
Hypothesis HG : GoodT AF adm self.
Set Default Proof Using "adm_le HG".

(* sites 2273 and 155 (second backtracking point) *)
Lemma T_parse_type_spec :
  tspec (fun s (_ : nodeT) s' => meas s' < meas s) (parse_type_spec OPS self).
Proof.
  tprod parse_type_spec.
  all: eapply extract_not_none; eassumption.
Qed.
Local Hint Resolve T_parse_type_spec : total.

Lemma T_parse_var_spec :
  tspec (fun s (_ : nodeT) s' => meas s' < meas s) (parse_var_spec OPS self).
Proof. tprod parse_var_spec. Qed.
Local Hint Resolve T_parse_var_spec : total.

Lemma T_parse_const_spec index :
  tspec (fun s (_ : nodeT) s' => meas s' < meas s) (parse_const_spec OPS self index).
Proof. tprod parse_const_spec. Qed.
Local Hint Resolve T_parse_const_spec : total.

Lemma T_parse_spec k index :
  tspec (fun s (_ : nodeT) s' => meas s' < meas s) (parse_spec OPS self k index).
Proof. tprod parse_spec. Qed.
Local Hint Resolve T_parse_spec : total.

Lemma T_decl_group_loop : forall fuel k index acc (s : pstate),
  WF s -> adm s -> AF \/ meas s < fuel ->
  spec AF s (fun _ _ => True) (decl_group_loop OPS self fuel k index acc s).
Proof. tloop decl_group_loop fuel. Qed.
Local Hint Resolve T_decl_group_loop : total.

Lemma T_parse_decl k (s : pstate) :
  WF s -> adm s -> s_cur s <> None ->
  spec AF s (fun (_ : nodeT) s' => meas s' < meas s) (parse_decl OPS self k s).
Proof. intros ? ? ?. unfold parse_decl. hide_nats. tsteps. Qed.
Local Hint Resolve T_parse_decl : total.

Lemma T_parse_func_decl :
  tspec (fun s (_ : nodeT) s' => meas s' < meas s) (parse_func_decl OPS self).
Proof. tprod parse_func_decl. Qed.
Local Hint Resolve T_parse_func_decl : total.

Lemma T_stmt_body :
  tspec (fun s (_ : nodeT) s' => cur_is s (KOp OBraceRight) = false -> meas s' < meas s)
        (stmt_body OPS self).
Proof.
  tprod stmt_body.
  exfalso.
  match goal with Hc : classify_stmt _ = SCBraceRight |- _ => apply classify_brace in Hc; subst end.
  match goal with Hc : cur_is _ _ = false, Hs : s_cur _ = Some _ |- _ =>
    unfold cur_is in Hc; rewrite Hs in Hc; discriminate Hc end.
Qed.

Lemma T_parse_top_decl :
  tspec (fun s (_ : nodeT) s' => meas s' < meas s) (parse_top_decl OPS self).
Proof. tprod parse_top_decl. Qed.
Local Hint Resolve T_parse_top_decl : total.

Lemma T_decls_loop : forall fuel acc (s : pstate),
  WF s -> adm s -> AF \/ meas s < fuel ->
  spec AF s (fun _ _ => True) (decls_loop OPS self fuel acc s).
Proof. tloop decls_loop fuel. Qed.
Local Hint Resolve T_decls_loop : total.

(* ---- entry points: the state may not have been started yet ---- *)

Definition wf (s : pstate) : Prop := s_started s = true -> WF s.

Lemma WF_wf s : WF s -> wf s.
Proof using Type. intros H _. exact H. Qed.

Lemma T_ensure_started (s : pstate) :
  wf s -> match ensure_started OPS s with
          | Ok _ s' => WF s' /\ s_depth s' = s_depth s /\ meas s' <= meas s
          | Err _ _ => True
          | Panic _ => False
          | Fuel => False
          end.
Proof.
  intros H. unfold ensure_started. destruct (s_started s) eqn:Hs.
  - split; [ apply H; exact Hs | split; [ reflexivity | lia ] ].
  - unfold next.
    destruct (s_rest s) as [|[a0 a1 t g] r] eqn:Hr; [ destruct (s_term s) eqn:Ht | ]; cbn; auto;
      (split; [ unfold WF, is_eof; cbn; eauto 8 | split; [ reflexivity | ] ]);
      unfold meas; cbn; rewrite Hr; cbn; lia.
Qed.

(* what an entry point guarantees: no panic, fuel only if allowed, and after
   success a well-formed state that is not behind the one it was called in *)
Definition entry_ok {X} (s : pstate) (r : res X) : Prop :=
  match r with
  | Ok _ s' => WF s' /\ meas s' <= meas s
  | Err _ _ => True
  | Panic _ => False
  | Fuel => AF
  end.

Lemma entry_of_spec X (s s0 : pstate) Q (r : res X) :
  meas s0 <= meas s -> spec AF s0 Q r -> entry_ok s r.
Proof using Type. destruct r; cbn; auto. intros Hm [(H & _ & _ & Hm') _]. split; [ exact H | lia ]. Qed.

Lemma T_parse_file (s : pstate) :
  wf s -> adm s -> entry_ok s (parse_file OPS self s).
Proof.
  intros Hwf Hd. unfold parse_file. pose proof (T_ensure_started s Hwf) as He.
  destruct (ensure_started OPS s) as [[] s0|e s0|n|]; cbn [bind]; try exact I; try contradiction.
  destruct He as (He1 & He2 & He3). assert (Hd0 : adm s0) by (eapply adm_le; eassumption).
  apply (entry_of_spec _ s s0 (fun _ _ => True) _ He3). hide_nats. tsteps.
Qed.

Lemma T_entry_expression (s : pstate) :
  wf s -> adm s -> entry_ok s (entry_expression OPS self s).
Proof.
  intros Hwf Hd. unfold entry_expression. pose proof (T_ensure_started s Hwf) as He.
  destruct (ensure_started OPS s) as [[] s0|e s0|n|]; cbn [bind]; try exact I; try contradiction.
  destruct He as (He1 & He2 & He3). assert (Hd0 : adm s0) by (eapply adm_le; eassumption).
  eapply entry_of_spec; [ exact He3 | ]. eapply S_expr; eassumption.
Qed.

Lemma T_entry_stmt (s : pstate) :
  wf s -> adm s -> entry_ok s (entry_stmt OPS self s).
Proof.
  intros Hwf Hd. unfold entry_stmt. pose proof (T_ensure_started s Hwf) as He.
  destruct (ensure_started OPS s) as [[] s0|e s0|n|]; cbn [bind]; try exact I; try contradiction.
  destruct He as (He1 & He2 & He3). assert (Hd0 : adm s0) by (eapply adm_le; eassumption).
  eapply entry_of_spec; [ exact He3 | ]. eapply S_stmt; eassumption.
Qed.

Unset Default Proof Using.
End StepD.

Arguments wf {A G D E} s.

#[export] Hint Resolve T_parse_type_spec T_parse_var_spec T_parse_const_spec T_parse_spec
  T_decl_group_loop T_parse_decl T_parse_func_decl T_stmt_body T_parse_top_decl T_decls_loop : total.
Arguments entry_ok {A G D E} AF {X} s r.

(* ------------------------------------------------------------------ Parser::nested *)

Section Nested.
Variables (A G D C E : Type) (OPS : ops A G D C).
Variable AF : Prop.
Notation pstate := (Core.pstate A G D E).
Notation res := (Core.res A G D E).
Notation parsers := (Core.parsers A G D C E).
Notation nodeT := (node A C).

(* a hub whose body is specified from depth S n on is specified from depth n on:
   its body runs one level deeper; at the limit it fails at once *)
Lemma T_nested X site (f : pstate -> res X) (Q : pstate -> X -> pstate -> Prop) n :
  (forall s x s' k k', Q (upd_depth s k) x s' -> Q s x (upd_depth s' k')) ->
  (forall s, WF s -> S n <= s_depth s -> spec AF s (Q s) (f s)) ->
  forall s, WF s -> n <= s_depth s -> spec AF s (Q s) (nested site f s).
Proof.
  intros HQ Hf s Hwf Hd. unfold nested. cbv zeta. cbn [s_depth upd_depth].
  destruct (S MAX_NESTING <=? S (s_depth s)) eqn:Hlim.
  - split; reflexivity.
  - pose proof (Hf (upd_depth s (S (s_depth s))) Hwf) as Hb. cbn [s_depth upd_depth] in Hb.
    specialize (Hb ltac:(lia)).
    destruct (f (upd_depth s (S (s_depth s)))) as [x s2|e s2|k|]; cbn in *; auto.
    + destruct Hb as [(Hw & Ht & Hdd & Hm) Hq]. split; [ | eapply HQ; exact Hq ].
      repeat split; auto. rewrite Hdd. reflexivity.
    + destruct Hb as [Ht Hdd]. split; [ exact Ht | rewrite Hdd; reflexivity ].
Qed.

(* a hub entered at the limit needs nothing from its body *)
Lemma T_nested_limit X site (f : pstate -> res X) (Q : pstate -> X -> pstate -> Prop) :
  forall s, MAX_NESTING <= s_depth s -> spec AF s (Q s) (nested site f s).
Proof.
  intros s Hd. unfold nested. cbv zeta. cbn [s_depth upd_depth].
  destruct (S MAX_NESTING <=? S (s_depth s)) eqn:Hlim.
  - split; reflexivity.
  - apply Nat.leb_gt in Hlim. lia.
Qed.

(* the admissibility predicate of the depth argument: at least n hubs are open *)
Definition dadm (n : nat) : pstate -> Prop := fun s => n <= s_depth s.
Lemma dadm_le n (s s' : pstate) :
  dadm n s -> s_depth s' = s_depth s -> meas s' <= meas s -> dadm n s'.
Proof. unfold dadm. intros. lia. Qed.

Ltac by_T lem := eapply lem; first [ apply dadm_le | eassumption ].

(* the five hubs *)
Record HubsGoodT (n : nat) (self : parsers) : Prop := {
  h_type_or_none : forall s : pstate, WF s -> n <= s_depth s ->
    spec AF s (fun o s' => match o with Some t => ex_ok t /\ meas s' < meas s | None => True end)
         (k_type_or_none self s);
  h_unary : forall s : pstate, WF s -> n <= s_depth s ->
    spec AF s (fun e s' => ex_ok e /\ meas s' < meas s) (k_unary self s);
  h_litvalue : forall s : pstate, WF s -> n <= s_depth s ->
    spec AF s (fun _ s' => meas s' < meas s) (k_litvalue self s);
  h_stmt : forall s : pstate, WF s -> n <= s_depth s ->
    spec AF s (fun _ s' => cur_is s (KOp OBraceRight) = false -> meas s' < meas s) (k_stmt self s);
  h_if : forall s : pstate, WF s -> n <= s_depth s ->
    spec AF s (fun _ s' => meas s' < meas s) (k_if self s)
}.

(* from a table specified from depth S n on: the hubs of the next unfolding,
   from depth n on *)
Lemma HubsGoodT_step n (self : parsers) :
  GoodT AF (dadm (S n)) self -> HubsGoodT n (step OPS self).
Proof.
  intros HG. split; cbn [step k_type_or_none k_unary k_litvalue k_stmt k_if].
  - apply (T_nested _ _ _ (fun s o s' => match o with Some t => ex_ok t /\ meas s' < meas s
                                                 | None => True end)).
    + intros s x s' k k' H. exact H.
    + by_T T_type_or_none_body.
  - apply (T_nested _ _ _ (fun s e s' => ex_ok e /\ meas s' < meas s)).
    + intros s x s' k k' H. exact H.
    + by_T T_unary_body.
  - apply (T_nested _ _ _ (fun s _ s' => meas s' < meas s)).
    + intros s x s' k k' H. exact H.
    + by_T T_lit_value_body.
  - apply (T_nested _ _ _ (fun s _ s' => cur_is s (KOp OBraceRight) = false -> meas s' < meas s)).
    + intros s x s' k k' H. exact H.
    + by_T T_stmt_body.
  - apply (T_nested _ _ _ (fun s _ s' => meas s' < meas s)).
    + intros s x s' k k' H. exact H.
    + by_T T_if_body.
Qed.

(* at the limit the hubs of ANY unfolding are specified *)
Lemma HubsGoodT_limit (self : parsers) : HubsGoodT MAX_NESTING (step OPS self).
Proof.
  split; cbn [step k_type_or_none k_unary k_litvalue k_stmt k_if]; intros s _ Hd.
  - apply (T_nested_limit _ _ _ (fun s o s' => match o with Some t => ex_ok t /\ meas s' < meas s
                                                       | None => True end)), Hd.
  - apply (T_nested_limit _ _ _ (fun s e s' => ex_ok e /\ meas s' < meas s)), Hd.
  - apply (T_nested_limit _ _ _ (fun s _ s' => meas s' < meas s)), Hd.
  - apply (T_nested_limit _ _ _
             (fun s _ s' => cur_is s (KOp OBraceRight) = false -> meas s' < meas s)), Hd.
  - apply (T_nested_limit _ _ _ (fun s _ s' => meas s' < meas s)), Hd.
Qed.

Lemma GoodT_mono n n' (self : parsers) :
  n <= n' -> GoodT AF (dadm n) self -> GoodT AF (dadm n') self.
Proof.
  unfold dadm. intros Hn [H1 H2 H3 H4 H5 H6 H7 H8 H9].
  split; intros; first [ apply H1 | apply H2 | apply H3 | apply H4 | apply H5 | apply H6
                       | apply H7 | apply H8 | apply H9 ]; auto; lia.
Qed.

(* one unfolding keeps the specification of the whole table *)
Theorem GoodT_step n (self : parsers) :
  GoodT AF (dadm n) self -> GoodT AF (dadm n) (step OPS self).
Proof.
  intros HG.
  destruct (HubsGoodT_step n self (GoodT_mono n (S n) self ltac:(lia) HG)) as [Ha Hb Hc Hd He].
  split; cbn [step k_type k_expr k_binary k_block]; auto.
  - by_T T_type_body.
  - by_T T_expr_body.
  - intros p prec Hp. by_T T_binary_body.
  - by_T T_block_body.
Qed.

End Nested.

Arguments dadm {A G D E} n s.
Arguments HubsGoodT {A G D C E} AF n self.
