(* Round trip for types: the struct type
     "struct" "{" { FieldDecl ";" } "}"
     FieldDecl = ( identifier { "," identifier } Type | [ "*" ] TypeName [ TypeArgs ] ) [ string ]
   (type_or_none_body at KStruct / struct_type / struct_loop / field_decl /
   finish_field). *)
From Coq Require Import List Arith NArith Lia Bool.
From GoSyn Require Import Token Tok Ast Core.
From GoSyn.spec Require Import Prec Print Print2.
From GoSyn.proofs Require Import PrecProofs RoundTripProofs RoundTripTypesBase RoundTripTypesAot.
Import ListNotations.

(* ------------------------------------------------------------ 0. token classes *)

(* the token after the first identifier of a field that makes the field an
   embedded one *)
Definition embed_tok (t : token) : bool :=
  match t with
  | TOperator ODot | TOperator OSemiColon | TOperator OBraceRight | TLiteral LString _ => true
  | _ => false
  end.

Lemma type_start_facts : forall tok, type_start tok = true ->
  embed_tok tok = false /\ tok_is tok (KOp OComma) = false /\
  tok_is tok (KOp OBraceRight) = false /\ tok_is tok (KOp OSemiColon) = false.
Proof.
  intros tok H. destruct tok as [txt | k | op | lk txt]; simpl in H; try discriminate H.
  - repeat split; reflexivity.
  - destruct op; try discriminate H; repeat split; reflexivity.
  - destruct lk; try discriminate H; repeat split; reflexivity.
Qed.

Section Struct.
Variables (A G D C E : Type).
Variable OPS : ops A G D C.
Notation nodeT := (node A C).
Notation pstateT := (pstate A G D E).
Notation cur := (s_cur A G D E).
Notation srest := (s_rest A G D E).
Notation sdepth := (s_depth A G D E).
Notation lp := (s_lp A G D E).
Notation ln := (s_ln A G D E).
Notation PA := (parsers_at A G D C E OPS).
Notation erase := (@erase A C).
Notation at_toks := (@at_toks A G D E).
Notation frame := (@frame A G D E).
Variable X : Type.
Variables (printX : X -> list token) (shapeX : X -> shapeT) (wfX : X -> Prop).
Variables (depthX needX : X -> nat).
Notation typ := (typ X).
Notation printT := (printT printX).
Notation shapeTy := (shapeTy shapeX).
Notation wfT := (wfT wfX).
Notation depthT := (depthT depthX).
Notation needT := (needT needX).
Notation TNP := (TNP A G D C E OPS X printX shapeX depthX needX).
Notation TP := (TP A G D C E OPS X printX shapeX depthX needX).
Notation TBP := (TBP A G D C E OPS X printX shapeX depthX needX).
Notation XOK := (XOK A G D C E OPS X printX shapeX depthX needX).
Notation IHT := (IHT A G D C E OPS X printX shapeX wfX depthX needX).
Notation AOT := (array_or_typeargs A G D C E OPS).
Notation FD := (field_decl A G D C E OPS).
Notation FF := (finish_field A G D C E OPS).
Notation SL := (struct_loop A G D C E OPS).
Notation printF := (printF printX).
Notation shapeF := (shapeF shapeX).
Notation wfF := (wfF wfX).

(* ------------------------------------------------------------ 1. small facts *)

Definition field_t (f : sfield typ) : typ := match f with Field _ t _ => t end.

Lemma printF_app : forall names (t : typ) tag rst,
  printF (Field names t tag) ++ rst =
  printNames names ++ printT t ++ printTag tag ++ tk OSemiColon :: rst.
Proof. intros. unfold Print2.printF. rewrite <- !app_assoc. reflexivity. Qed.

Lemma names_tail_length : forall r, length (names_tail r) = 2 * length r.
Proof. induction r as [| n r IH]; simpl; [reflexivity | rewrite IH; lia]. Qed.

Lemma maxT_cons : forall (Y : Type) (f : Y -> nat) a r, maxT f (a :: r) = Nat.max (f a) (maxT f r).
Proof. reflexivity. Qed.

(* the tag or the ";" after a field's type continues no type *)
Lemma field_follow : forall (t : typ) tag rst, tfollow t (printTag tag ++ tk OSemiColon :: rst).
Proof. intros t [v |] rst; apply tfollow_tok; reflexivity. Qed.

(* the tree of a field *)
Lemma erase_n_field : forall (names : list nodeT) typ tg c names0 sh tag,
  map erase names = map sh_ident names0 -> erase typ = sh ->
  erase (nopt tg) =
    nopt (match tag with Some v => Some (n_strlit unit unit tt v) | None => None end) ->
  erase (n_field A C names typ tg c) = sh_field names0 sh tag.
Proof.
  intros names ty tg c names0 sh tag Hn Ht Hg. unfold n_field, sh_field, mkd, nlist.
  rewrite erase_Nd. cbn [map]. rewrite erase_Nd, Hn, Ht, Hg. reflexivity.
Qed.

(* set_docs with one comment group on a node that has one: the same tree *)
Lemma erase_set_docs : forall (n : nodeT) c, length (n_docs n) = 1 ->
  erase (set_docs n [c]) = erase n.
Proof.
  intros [t ps ats [| c0 [| c1 ds]] ks] c H; simpl in H; try discriminate H.
  unfold set_docs. rewrite !erase_Nd. reflexivity.
Qed.

(* [ string ] and the node *)
Lemma finish_field_ok : forall c (names : list nodeT) ty tag (s : pstateT) rst names0 sh,
  map erase names = map sh_ident names0 -> erase ty = sh ->
  at_toks s (printTag tag ++ tk OSemiColon :: rst) ->
  exists n s1, FF c names ty s = Ok n s1 /\ erase n = sh_field names0 sh tag /\
               length (n_docs n) = 1 /\ at_toks s1 (tk OSemiColon :: rst) /\ frame s s1.
Proof.
  intros c names ty tag s rst names0 sh Hn Ht Hat. unfold finish_field.
  destruct tag as [v |]; cbn [printTag app] in Hat.
  - destruct (string_lit_some A G D C E OPS s v _ Hat) as (p & s1 & Hs & Hat1 & Hf1).
    rewrite Hs. cbn [bind]. eexists _, s1. split; [reflexivity |].
    split; [apply erase_n_field; [exact Hn | exact Ht | reflexivity] |].
    split; [reflexivity |]. split; [exact Hat1 | exact Hf1].
  - rewrite (string_lit_none A G D C E OPS s _ Hat I). cbn [bind]. eexists _, s.
    split; [reflexivity |].
    split; [apply erase_n_field; [exact Hn | exact Ht | reflexivity] |].
    split; [reflexivity |]. split; [exact Hat | apply frame_refl].
Qed.

(* the decision "embedded field" after the first identifier *)
Lemma embedded_eq : forall (s1 : pstateT) tok ts, at_toks s1 (tok :: ts) ->
  match cur s1 with
  | Some (_, TOperator ODot) | Some (_, TOperator OSemiColon)
  | Some (_, TOperator OBraceRight) | Some (_, TLiteral LString _) => true
  | _ => false
  end = embed_tok tok.
Proof.
  intros s1 tok ts Hat. destruct (at_toks_cur _ _ _ Hat) as (p & Hc). rewrite Hc.
  destruct tok as [txt | k | op | lk txt]; try reflexivity.
Qed.

(* a wf type that starts with "[" *)
Lemma bracket_cases : forall t : typ, wfT t -> forall tok l, printT t = tok :: l ->
  tok_is tok (KOp OBarackLeft) = true ->
  (exists t', t = TSlice t') \/ (exists x t', t = TArray x t') \/ is_dots t.
Proof.
  intros t Hwf tok l Hp Hb. destruct t; cbn [Print2.printT] in Hp.
  - inversion Hp; subst. discriminate Hb.
  - inversion Hp; subst. discriminate Hb.
  - destruct Hwf as (Hbn & _). destruct t; try destruct Hbn; cbn [Print2.printT app] in Hp;
      inversion Hp; subst; discriminate Hb.
  - inversion Hp; subst. discriminate Hb.
  - left. eexists. reflexivity.
  - right. left. eexists _, _. reflexivity.
  - right. right. exact I.
  - inversion Hp; subst. discriminate Hb.
  - destruct dir; inversion Hp; subst; discriminate Hb.
  - inversion Hp; subst. discriminate Hb.
  - destruct s as [ps [|] rs]; inversion Hp; subst; discriminate Hb.
  - inversion Hp; subst. discriminate Hb.
  - inversion Hp; subst. discriminate Hb.
Qed.

(* the type arguments of a type name inside a field: smaller types *)
Lemma inst_args : forall (b : typ) args n,
  wfT (TInst b args) -> allX XOK (TInst b args) -> IHT n -> sizeT (TInst b args) <= n ->
  Forall (fun a => wfT a /\ TNP a) args.
Proof.
  intros b args n (_ & _ & _ & Hwa) (_ & Hxa) IH Hn.
  apply allT_Forall in Hwa. apply allT_Forall in Hxa. rewrite Forall_forall in Hwa, Hxa.
  apply Forall_forall. intros a Hin. split; [exact (Hwa a Hin) |].
  apply IH; [| exact (Hwa a Hin) | exact (Hxa a Hin)].
  pose proof (sumT_In _ sizeT args a Hin) as Hs. cbn [Print2.sizeT] in Hn. lia.
Qed.

(* ------------------------------------------------------------ 2. one field *)

(* field_decl on the printing of a field: stops in front of the field's ";" *)
Definition FP (f : sfield typ) : Prop := forall d (s : pstateT) rst,
  needT (field_t f) + 3 <= d -> at_toks s (printF f ++ rst) ->
  sdepth s + depthT (field_t f) + 2 <= MAX_NESTING -> ln s <= lp s /\ lp s + depthT (field_t f) + 3 <= ln s + 65 ->
  exists n s1, FD (PA d) s = Ok n s1 /\ erase n = shapeF f /\ length (n_docs n) = 1 /\
               at_toks s1 (tk OSemiColon :: rst) /\ frame s s1.

(*  T   pkg.T   pkg.T[A]  : the token after the first identifier is ".", the
    tag or the ";" *)
Lemma field_emb_named : forall (t : typ) tag, named_type X t -> wfT t ->
  (forall b args, t = TInst b args -> Forall (fun a => wfT a /\ TNP a) args) ->
  (forall tok l, after_first X printX t = tok :: l -> embed_tok tok = true) ->
  FP (Field [] t tag).
Proof.
  intros t tag Hnt Hwf Hargs Hemb d s0 rst Hd Hat0 Hdep Hlev. cbn [field_t] in Hd, Hdep, Hlev.
  rewrite printF_app in Hat0. change (printNames []) with (@nil token) in Hat0.
  cbn [app] in Hat0. rewrite (printT_named X printX t Hnt) in Hat0. cbn [app] in Hat0.
  destruct (drain A G D C E OPS s0) as [c s] eqn:Hdr.
  destruct (drain_toks A G D C E OPS s0 c s Hdr) as (Hdt & Hdf & _ & _).
  pose proof (Hdt _ Hat0) as Hat. clear Hdt.
  assert (Hnx : exists tok ts,
            after_first X printX t ++ printTag tag ++ tk OSemiColon :: rst = tok :: ts /\
            embed_tok tok = true).
  { destruct (after_first X printX t) as [| tok l] eqn:Haf.
    - destruct tag as [v |]; eexists _, _; split; reflexivity.
    - eexists _, _. split; [reflexivity | exact (Hemb tok l eq_refl)]. }
  destruct Hnx as (tok & ts & Hnx & Het).
  destruct (at_toks_cur _ _ _ Hat) as (p0 & Hc).
  destruct (identifier_toks OPS s _ _ 34 Hat) as (p & s1 & Hi & Hat1 & Hf1).
  pose proof (frame_trans _ _ _ Hdf Hf1) as Hf01.
  assert (Hat1' : at_toks s1 (tok :: ts)) by (rewrite <- Hnx; exact Hat1).
  destruct (qualified_ident_ok A G D C E OPS X printX shapeX wfX depthX needX t Hnt Hwf Hargs
              (Some (n_ident A C p (first_ident X t))) d s1 (printTag tag ++ tk OSemiColon :: rst))
    as (ty & s2 & Hq & Hety & Hat2 & Hf2).
  - lia.
  - split; [reflexivity | exact Hat1].
  - apply field_follow.
  - unframe. lia.
  - unframe. lia.
  - destruct (finish_field_ok c [] ty tag s2 rst [] (shapeTy t) eq_refl Hety Hat2)
      as (n & s3 & Hff & Hen & Hdoc & Hat3 & Hf3).
    exists n, s3. split; [| split; [exact Hen | split; [exact Hdoc | split; [exact Hat3 |
      exact (frame_trans _ _ _ (frame_trans _ _ _ Hf01 Hf2) Hf3)]]]].
    unfold field_decl. rewrite Hdr. cbv beta iota. rewrite Hc. cbv beta iota. rewrite Hi. cbn [bind].
    rewrite (embedded_eq s1 tok ts Hat1'), Het. rewrite Hq. cbn [bind]. exact Hff.
Qed.

(*  *T   *pkg.T   *T[A]   *pkg.T[A]  *)
Lemma field_emb_ptr : forall (t : typ) tag, named_type X t -> wfT t ->
  (forall b args, t = TInst b args -> Forall (fun a => wfT a /\ TNP a) args) ->
  FP (Field [] (TPtr t) tag).
Proof.
  intros t tag Hnt Hwf Hargs d s0 rst Hd Hat0 Hdep Hlev.
  cbn [field_t Print2.needT Print2.depthT] in Hd, Hdep, Hlev.
  rewrite printF_app in Hat0. change (printNames []) with (@nil token) in Hat0.
  cbn [app Print2.printT] in Hat0.
  destruct (drain A G D C E OPS s0) as [c s] eqn:Hdr.
  destruct (drain_toks A G D C E OPS s0 c s Hdr) as (Hdt & Hdf & _ & _).
  pose proof (Hdt _ Hat0) as Hat. clear Hdt.
  destruct (at_toks_cur _ _ _ Hat) as (p0 & Hc).
  destruct (expect_toks OPS s _ _ (KOp OStar) 33 Hat eq_refl) as (pos & s1 & Hx & Hat1 & Hf1).
  pose proof (frame_trans _ _ _ Hdf Hf1) as Hf01.
  destruct (qualified_ident_ok A G D C E OPS X printX shapeX wfX depthX needX t Hnt Hwf Hargs
              None d s1 (printTag tag ++ tk OSemiColon :: rst))
    as (ty & s2 & Hq & Hety & Hat2 & Hf2).
  - lia.
  - exact Hat1.
  - apply field_follow.
  - unframe. lia.
  - unframe. lia.
  - assert (Hep : erase (mk A C GTypePointer [pos] [] [ty]) = shapeTy (TPtr t)).
    { simpl. rewrite Hety. reflexivity. }
    destruct (finish_field_ok c [] (mk A C GTypePointer [pos] [] [ty]) tag s2 rst []
                (shapeTy (TPtr t)) eq_refl Hep Hat2)
      as (n & s3 & Hff & Hen & Hdoc & Hat3 & Hf3).
    exists n, s3. split; [| split; [exact Hen | split; [exact Hdoc | split; [exact Hat3 |
      exact (frame_trans _ _ _ (frame_trans _ _ _ Hf01 Hf2) Hf3)]]]].
    unfold field_decl. rewrite Hdr. cbv beta iota. rewrite Hc. cbv beta iota. rewrite Hx. cbn [bind].
    rewrite Hq. cbn [bind]. exact Hff.
Qed.

(*  a, b T  /  a []T  /  a [e]T  *)
Lemma field_named : forall n r (t : typ) tag, wfT t ->
  match r with [] => ~ is_dots t | _ => True end ->
  allX XOK t -> IHT (S (sizeT t)) -> FP (Field (n :: r) t tag).
Proof.
  intros n r t tag Hwf Hnd Hx IH d s0 rst Hd Hat0 Hdep Hlev. cbn [field_t] in Hd, Hdep, Hlev.
  rewrite printF_app, printNames_cons in Hat0. cbn [app] in Hat0.
  destruct (drain A G D C E OPS s0) as [c s] eqn:Hdr.
  destruct (drain_toks A G D C E OPS s0 c s Hdr) as (Hdt & Hdf & _ & _).
  pose proof (Hdt _ Hat0) as Hat. clear Hdt.
  destruct (first_tokT X printX wfX t Hwf) as (tok & l & Hp & Hst & _ & _).
  destruct (type_start_facts tok Hst) as (Hte & Htc & _ & _).
  set (after := printTag tag ++ tk OSemiColon :: rst) in *.
  assert (Hnx : exists tok' ts,
            names_tail r ++ printT t ++ after = tok' :: ts /\ embed_tok tok' = false).
  { destruct r as [| m r'].
    - cbn [names_tail flat_map app]. rewrite Hp. cbn [app]. eexists _, _. split; [reflexivity | exact Hte].
    - eexists _, _. split; reflexivity. }
  destruct Hnx as (tok' & ts & Hnx & Het).
  destruct (at_toks_cur _ _ _ Hat) as (p0 & Hc).
  destruct (identifier_toks OPS s _ _ 34 Hat) as (p & s1 & Hi & Hat1 & Hf1).
  pose proof (frame_trans _ _ _ Hdf Hf1) as Hf01.
  assert (Hat1' : at_toks s1 (tok' :: ts)) by (rewrite <- Hnx; exact Hat1).
  destruct (ident_list_loop_toks A G D C E OPS r (loop_fuel A G D E s1) [n_ident A C p n] s1
              (printT t ++ after) Hat1)
    as (ns & s2 & Hl & Hens & Hlen & Hat2 & Hf2).
  { rewrite Hp. cbn [app]. exact Htc. }
  { pose proof (loop_fuel_toks s1 _ Hat1) as H. rewrite app_length, names_tail_length in H. lia. }
  pose proof (frame_trans _ _ _ Hf01 Hf2) as Hf02.
  assert (Hnames : map erase ([n_ident A C p n] ++ ns) = map sh_ident (n :: r)).
  { cbn [app map]. rewrite Hens. reflexivity. }
  (* what happens after the type *)
  assert (Hfin : forall ty s3, erase ty = shapeTy t -> at_toks s3 after -> frame s2 s3 ->
            exists nd s4, FF c ([n_ident A C p n] ++ ns) ty s3 = Ok nd s4 /\
              erase nd = shapeF (Field (n :: r) t tag) /\ length (n_docs nd) = 1 /\
              at_toks s4 (tk OSemiColon :: rst) /\ frame s0 s4).
  { intros ty s3 Hety Hat3 Hf3.
    destruct (finish_field_ok c _ ty tag s3 rst (n :: r) (shapeTy t) Hnames Hety Hat3)
      as (nd & s4 & Hff & Hen & Hdoc & Hat4 & Hf4).
    exists nd, s4. split; [exact Hff |]. split; [exact Hen |]. split; [exact Hdoc |].
    split; [exact Hat4 | exact (frame_trans _ _ _ (frame_trans _ _ _ Hf02 Hf3) Hf4)]. }
  (* the type by Parser::type_ *)
  assert (Hkt : exists ty s3, k_type A G D C E (PA d) s2 = Ok ty s3 /\ erase ty = shapeTy t /\
                              at_toks s3 after /\ frame s2 s3).
  { apply (TNP_TP A G D C E OPS X printX shapeX depthX needX t (IH t (Nat.lt_succ_diag_r _) Hwf Hx)).
    - lia.
    - exact Hat2.
    - apply field_follow.
    - unframe. lia.
    - unframe. lia. }
  unfold field_decl. rewrite Hdr. cbv beta iota. rewrite Hc. cbv beta iota. rewrite Hi. cbn [bind].
  rewrite (embedded_eq s1 tok' ts Hat1'), Het. cbv iota.
  unfold identifier_list. rewrite Hl. cbn [bind].
  destruct r as [| m r'].
  - (* one name *)
    destruct ns as [| x ns']; [| discriminate Hlen]. cbn [app length Nat.eqb andb].
    assert (Hat2' : at_toks s2 (tok :: l ++ after)) by (rewrite Hp in Hat2; exact Hat2).
    rewrite (cur_is_toks _ _ _ _ Hat2').
    destruct (tok_is tok (KOp OBarackLeft)) eqn:Hb.
    + destruct (bracket_cases t Hwf tok l Hp Hb) as [(t' & ->) | [(x & t' & ->) | Hdots]];
        [| | exfalso; exact (Hnd Hdots)].
      * (* a []T *)
        cbn [Print2.wfT Print2.allX Print2.needT Print2.depthT Print2.sizeT] in *.
        assert (HT' : TP t').
        { apply TNP_TP. apply IH; [lia | exact Hwf | exact Hx]. }
        destruct (aot_slice A G D C E OPS X printX shapeX depthX needX t' HT' d s2 after)
          as (ty & s3 & Ha & Hety & Hat3 & Hf3).
        { lia. } { exact Hat2. } { apply field_follow. } { unframe. lia. } { unframe. lia. }
        rewrite Ha. cbn [bind].
        replace (is_tag GIndex ty) with false
          by (rewrite <- (is_tag_erase GIndex ty), Hety; reflexivity).
        exact (Hfin ty s3 Hety Hat3 Hf3).
      * (* a [e]T *)
        cbn [Print2.wfT Print2.allX Print2.needT Print2.depthT Print2.sizeT] in *.
        destruct Hwf as (Hwx & Hwf'). destruct Hx as (Hxx & Hx').
        assert (HN' : TNP t') by (apply IH; [lia | exact Hwf' | exact Hx']).
        destruct (aot_array A G D C E OPS X printX shapeX depthX needX x t' Hxx HN' d s2 after)
          as (ty & s3 & Ha & Hety & Hat3 & Hf3).
        { lia. } { lia. } { exact Hat2. } { apply field_follow. } { unframe. lia. } { unframe. lia. }
        rewrite Ha. cbn [bind].
        replace (is_tag GIndex ty) with false
          by (rewrite <- (is_tag_erase GIndex ty), Hety; reflexivity).
        exact (Hfin ty s3 Hety Hat3 Hf3).
    + destruct Hkt as (ty & s3 & Hk & Hety & Hat3 & Hf3). rewrite Hk. cbn [bind].
      exact (Hfin ty s3 Hety Hat3 Hf3).
  - (* several names *)
    rewrite app_length, Hlen. cbn [length Nat.add Nat.eqb andb].
    destruct Hkt as (ty & s3 & Hk & Hety & Hat3 & Hf3). rewrite Hk. cbn [bind].
    exact (Hfin ty s3 Hety Hat3 Hf3).
Qed.

(* every well-formed field *)
Lemma field_ok : forall names (t : typ) tag,
  wfF (Field names t tag) -> allX XOK t -> IHT (S (sizeT t)) -> FP (Field names t tag).
Proof.
  intros names t tag (Hwf & Hform) Hx IH. destruct names as [| n r].
  - (* embedded *)
    destruct t as [name | pkg name | b args | t' | | | | | | | | |]; try destruct Hform.
    + apply field_emb_named; [exact I | exact Hwf | intros b args H; discriminate H |].
      intros tok l H; discriminate H.
    + apply field_emb_named; [exact I | exact Hwf | intros b args H; discriminate H |].
      intros tok l H. unfold after_first in H. cbn [Print2.printT] in H. inversion H; subst.
      reflexivity.
    + destruct b as [| pkg name | | | | | | | | | | |]; try destruct Hform.
      apply field_emb_named; [exact I | exact Hwf | |].
      * intros b args0 H. inversion H; subst.
        exact (inst_args _ _ _ Hwf Hx IH (Nat.le_succ_diag_r _)).
      * intros tok l H. unfold after_first in H. cbn [Print2.printT app] in H. inversion H; subst.
        reflexivity.
    + cbn [Print2.wfT Print2.allX Print2.sizeT] in Hwf, Hx, IH.
      destruct t' as [name | pkg name | b args | | | | | | | | | |]; try destruct Hform.
      * apply field_emb_ptr; [exact I | exact Hwf | intros b args H; discriminate H].
      * apply field_emb_ptr; [exact I | exact Hwf | intros b args H; discriminate H].
      * apply field_emb_ptr; [exact (proj1 Hwf) | exact Hwf |].
        intros b0 args0 H. inversion H; subst.
        apply (inst_args _ _ _ Hwf Hx IH). lia.
  - apply field_named; [exact Hwf | | exact Hx | exact IH].
    destruct r; [exact Hform | exact I].
Qed.

(* the first token of a field: neither "}" nor ";" *)
Lemma field_first : forall f, wfF f ->
  exists tok l, printF f = tok :: l /\
    tok_is tok (KOp OBraceRight) = false /\ tok_is tok (KOp OSemiColon) = false.
Proof.
  intros [names t tag] (Hwf & _). unfold Print2.printF. destruct names as [| n r].
  - destruct (first_tokT X printX wfX t Hwf) as (tok & l & Hp & Hst & _).
    destruct (type_start_facts tok Hst) as (_ & _ & H1 & H2).
    change (printNames []) with (@nil token). cbn [app]. rewrite Hp. cbn [app].
    eexists _, _. split; [reflexivity | split; assumption].
  - rewrite printNames_cons. cbn [app]. eexists _, _. split; [reflexivity | split; reflexivity].
Qed.

(* ------------------------------------------------------------ 3. the fields *)

Notation ndF := (fun f : sfield typ => match f with Field _ t _ => needT t end).
Notation dpF := (fun f : sfield typ => match f with Field _ t _ => depthT t end).

Lemma loop_head : forall fs rst, Forall (fun f => wfF f /\ FP f) fs ->
  match flat_map printF fs ++ tk OBraceRight :: rst with
  | [] => True
  | t :: _ => tok_is t (KOp OSemiColon) = false /\ tok_is t (KOp OBraceRight) =
                match fs with [] => true | _ => false end
  end.
Proof.
  intros fs rst Hall. destruct Hall as [| f r (Hwf & _) _].
  - split; reflexivity.
  - destruct (field_first f Hwf) as (tok & l & Hp & H1 & H2). cbn [flat_map]. rewrite Hp.
    cbn [app]. split; assumption.
Qed.

Lemma struct_loop_ok : forall fs, Forall (fun f => wfF f /\ FP f) fs ->
  forall d fuel acc (s : pstateT) rst,
    maxT ndF fs + 3 <= d ->
    sdepth s + maxT dpF fs + 2 <= MAX_NESTING -> ln s <= lp s /\ lp s + maxT dpF fs + 3 <= ln s + 65 ->
    at_toks s (flat_map printF fs ++ tk OBraceRight :: rst) ->
    length (flat_map printF fs) + 1 <= fuel ->
    exists ns s1,
      SL (PA d) fuel acc s = Ok (acc ++ ns) s1 /\ map erase ns = map shapeF fs /\
      at_toks s1 (tk OBraceRight :: rst) /\ frame s s1.
Proof.
  intros fs Hall. induction Hall as [| f r (Hwf & HF) Hall IH];
    intros d fuel acc s rst Hd Hdep Hlev Hat Hfu.
  - cbn [flat_map app] in Hat. destruct fuel as [| fu]; [simpl in Hfu; lia |]. cbn [struct_loop].
    rewrite (cur_is_toks _ _ _ _ Hat). change (tok_is (tk OBraceRight) (KOp OBraceRight)) with true.
    cbv iota. exists [], s. rewrite app_nil_r.
    split; [reflexivity |]. split; [reflexivity |]. split; [exact Hat | apply frame_refl].
  - pose proof (loop_head (f :: r) rst (Forall_cons f (conj Hwf HF) Hall)) as Hhd.
    pose proof (loop_head r rst Hall) as Hhd'.
    destruct (field_first f Hwf) as (tok & l & Hp & _ & _).
    cbn [flat_map] in Hat, Hfu, Hhd. rewrite <- app_assoc in Hat, Hhd.
    rewrite maxT_cons in Hd, Hdep, Hlev.
    assert (HF' := HF). unfold FP in HF'. destruct f as [names t tag].
    cbn [field_t] in HF'. cbv beta iota in Hd, Hdep, Hlev.
    destruct fuel as [| fu]; [simpl in Hfu; lia |]. cbn [struct_loop].
    assert (Hcb : cur_is A G D E s (KOp OBraceRight) = false).
    { rewrite Hp in Hat, Hhd. cbn [app] in Hat, Hhd. rewrite (cur_is_toks _ _ _ _ Hat).
      exact (proj2 Hhd). }
    rewrite Hcb.
    destruct (HF' d s (flat_map printF r ++ tk OBraceRight :: rst))
      as (n & s1 & Hfd & Hen & Hdoc & Hat1 & Hf1); [lia | exact Hat | lia | lia |].
    rewrite Hfd. cbn [bind].
    match goal with
    | |- context [line_end_comment _ _ _ _ _ _ ?c0 s1] =>
        destruct (line_end_semi A G D C E OPS s1 c0 _ Hat1) as (c1 & s2 & Hle & Hat2 & Hf2 & _)
    end.
    rewrite Hle. cbn [bind].
    assert (Hsk : skipped A G D C E OPS (KOp OSemiColon) s2 = Ok false s2).
    { apply (skipped_no OPS s2 _ _ Hat2).
      destruct (flat_map printF r ++ tk OBraceRight :: rst); [exact I | exact (proj1 Hhd')]. }
    rewrite Hsk. cbn [bind].
    pose proof (frame_trans _ _ _ Hf1 Hf2) as Hf12.
    destruct (IH d fu (acc ++ [set_docs n [c1]]) s2 rst) as (ns & s3 & Hl & Hes & Hat3 & Hf3).
    + lia.
    + unframe. lia.
    + unframe. lia.
    + exact Hat2.
    + rewrite app_length, Hp in Hfu. cbn [length] in Hfu. lia.
    + exists (set_docs n [c1] :: ns), s3.
      split; [rewrite Hl, <- app_assoc; reflexivity |].
      split; [cbn [map]; rewrite (erase_set_docs n c1 Hdoc), Hen, Hes; reflexivity |].
      split; [exact Hat3 | exact (frame_trans _ _ _ Hf12 Hf3)].
Qed.

(* ------------------------------------------------------------ 4. the struct type *)

Theorem TB_struct : forall fs : list (sfield typ),
  IHT (sizeT (TStruct fs)) -> wfT (TStruct fs) -> allX XOK (TStruct fs) -> TBP (TStruct fs).
Proof.
  intros fs IH Hwf Hx d s rst Hd Hat _ Hdep Hlev.
  change (needT (TStruct fs)) with (4 + maxT ndF fs) in Hd.
  change (depthT (TStruct fs)) with (3 + maxT dpF fs) in Hdep, Hlev.
  assert (Hall : Forall (fun f => wfF f /\ FP f) fs).
  { assert (Hwf' : Forall wfF fs) by (apply allT_Forall; exact Hwf).
    assert (Hx' : Forall (fun f : sfield typ => match f with Field _ t _ => allX XOK t end) fs)
      by (apply allT_Forall; exact Hx).
    rewrite Forall_forall in Hwf', Hx'. apply Forall_forall. intros f Hin.
    split; [exact (Hwf' f Hin) |].
    pose proof (sumT_In _ (fun f : sfield typ => match f with Field _ t _ => sizeT t end) fs f Hin)
      as Hsz.
    specialize (Hwf' f Hin). specialize (Hx' f Hin). destruct f as [names t tag].
    cbv beta iota in Hsz, Hx'. apply field_ok; [exact Hwf' | exact Hx' |].
    intros t' Hlt. apply IH.
    change (sizeT (TStruct fs))
      with (S (sumT (fun f : sfield typ => match f with Field _ t _ => sizeT t end) fs)). lia. }
  rewrite printT_struct in Hat. cbn [app] in Hat. rewrite <- app_assoc in Hat. cbn [app] in Hat.
  destruct (at_toks_cur _ _ _ Hat) as (pk & Hc).
  destruct (expect_toks OPS s _ _ (KKw KStruct) 36 Hat eq_refl) as (p & s1 & Hx1 & Hat1 & Hf1).
  destruct (expect_toks OPS s1 _ _ (KOp OBraceLeft) 37 Hat1 eq_refl) as (p0 & s2 & Hx2 & Hat2 & Hf2).
  pose proof (frame_trans _ _ _ Hf1 Hf2) as Hf02.
  destruct (struct_loop_ok fs Hall d (loop_fuel A G D E s2) [] s2 rst)
    as (ns & s3 & Hl & Hes & Hat3 & Hf3).
  - lia.
  - unframe. unfold MAX_NESTING in *. lia.
  - unframe. lia.
  - exact Hat2.
  - pose proof (loop_fuel_toks s2 _ Hat2) as H. rewrite app_length in H. lia.
  - destruct (expect_toks OPS s3 _ _ (KOp OBraceRight) 38 Hat3 eq_refl) as (p1 & s4 & Hx4 & Hat4 & Hf4).
    exists (mk A C GTypeStruct [p0; p1] [] ns), s4.
    split; [| split; [| split; [exact Hat4 |
              exact (frame_trans _ _ _ (frame_trans _ _ _ Hf02 Hf3) Hf4)]]].
    + unfold type_or_none_body. rewrite Hc. cbv beta iota.
      unfold struct_type. rewrite Hx1. cbn [bind]. rewrite Hx2. cbn [bind]. rewrite Hl. cbn [bind].
      rewrite Hx4. cbn [bind app]. reflexivity.
    + rewrite shapeTy_struct. unfold mk. rewrite erase_Nd. cbn [map]. rewrite Hes. reflexivity.
Qed.

End Struct.
