(* TOTALITY of the core parser (property C01, model part).

   (1) [no_panic_*]: at every depth fuel, from every state that satisfies the
       reachability invariant [wf] (true of [init_state]; true again after every
       successful entry-point call), the entry points never return [Panic]:
       the 14 partial operations of the Rust code are unreachable.
   (2) [GoodT_step] with AF := False (TotalStepD.v): if the fields of [self]
       meet their specification without ever returning [Fuel], no production
       of [step self] returns [Fuel]: the token fuel of the loops always
       suffices ([meas] decreases with every iteration).
   (3) [no_fuel_*]: with depth fuel d >= 8 * (MAX_NESTING + 1) nothing returns
       [Fuel] at all.  The recursion passes one of the five hubs of
       Parser::nested at least every 8 frames ([ladder], from DepthProofs' call
       graph) and a hub entered at depth MAX_NESTING fails at once.
   (4) [no_fuel_small_*]: depth fuel 6 * (tokens left + 1) is enough as well
       (TotalMeas.v): the model's own depth fuel always suffices. *)
From Coq Require Import List Bool Arith Lia.
From GoSyn Require Import Token Tok Ast Core.
From GoSyn.proofs Require Import Lift DepthProofs TotalBase TotalLeaf TotalStepA TotalStepB
  TotalStepC TotalStepD TotalMeas.
Import ListNotations.

Section Total.
Variables (A G D C E : Type) (OPS : ops A G D C).
Notation pstate := (Core.pstate A G D E).
Notation res := (Core.res A G D E).
Notation parsers := (Core.parsers A G D C E).
Notation nodeT := (node A C).
Notation PA := (@parsers_at A G D C E OPS).

(* ------------------------------------------------------------------ (1) *)

Lemma entry_parse_file AF n (self : parsers) (s : pstate) :
  GoodT AF (dadm n) self -> wf s -> n <= s_depth s -> entry_ok AF s (parse_file OPS self s).
Proof. intros HG Hw Hd. eapply T_parse_file; first [ apply dadm_le | eassumption ]. Qed.
Lemma entry_entry_expression AF n (self : parsers) (s : pstate) :
  GoodT AF (dadm n) self -> wf s -> n <= s_depth s -> entry_ok AF s (entry_expression OPS self s).
Proof. intros HG Hw Hd. eapply T_entry_expression; first [ apply dadm_le | eassumption ]. Qed.
Lemma entry_entry_stmt AF n (self : parsers) (s : pstate) :
  GoodT AF (dadm n) self -> wf s -> n <= s_depth s -> entry_ok AF s (entry_stmt OPS self s).
Proof. intros HG Hw Hd. eapply T_entry_stmt; first [ apply dadm_le | eassumption ]. Qed.

Lemma GoodT_no_fuel : GoodT True (dadm 0) (no_fuel A G D C E).
Proof. split; intros; exact I. Qed.

Theorem GoodT_parsers_at d : GoodT True (dadm 0) (PA d).
Proof.
  apply (parsers_at_ind _ _ _ _ _ OPS (GoodT True (dadm 0))); [ exact GoodT_no_fuel | ].
  intros self H. apply GoodT_step, H.
Qed.

Lemma wf_init (a0 : A) (d0 : D) (elems : list (selem A G)) (term : sterm A G E) :
  wf (init_state a0 d0 elems term).
Proof. intros H. discriminate H. Qed.

Lemma entry_ok_not_panic AF X (s : pstate) (r : res X) n : entry_ok AF s r -> r <> Panic n.
Proof. intros H ->. exact H. Qed.
Lemma entry_ok_not_fuel X (s : pstate) (r : res X) : entry_ok False s r -> r <> Fuel.
Proof. intros H ->. exact H. Qed.
Lemma entry_ok_wf AF X (s : pstate) (r : res X) x s' : entry_ok AF s r -> r = Ok x s' -> wf s'.
Proof. intros H -> _. apply H. Qed.
Lemma entry_ok_meas AF X (s : pstate) (r : res X) x s' :
  entry_ok AF s r -> r = Ok x s' -> meas s' <= meas s.
Proof. intros H ->. apply H. Qed.

Theorem no_panic_parse_file d (s : pstate) n :
  wf s -> parse_file OPS (PA d) s <> Panic n.
Proof.
  intros H. apply (entry_ok_not_panic True _ s).
  apply (entry_parse_file True 0 _ _ (GoodT_parsers_at d)); [ exact H | lia ].
Qed.
Theorem no_panic_entry_expression d (s : pstate) n :
  wf s -> entry_expression OPS (PA d) s <> Panic n.
Proof.
  intros H. apply (entry_ok_not_panic True _ s).
  apply (entry_entry_expression True 0 _ _ (GoodT_parsers_at d)); [ exact H | lia ].
Qed.
Theorem no_panic_entry_stmt d (s : pstate) n :
  wf s -> entry_stmt OPS (PA d) s <> Panic n.
Proof.
  intros H. apply (entry_ok_not_panic True _ s).
  apply (entry_entry_stmt True 0 _ _ (GoodT_parsers_at d)); [ exact H | lia ].
Qed.

Theorem no_panic_entries d (s : pstate) n :
  wf s ->
  parse_file OPS (PA d) s <> Panic n /\ entry_expression OPS (PA d) s <> Panic n /\
  entry_stmt OPS (PA d) s <> Panic n.
Proof.
  intros H. repeat apply conj;
    [ apply no_panic_parse_file | apply no_panic_entry_expression | apply no_panic_entry_stmt ];
    exact H.
Qed.

(* the invariant holds again after a successful call *)
Theorem wf_after_parse_file d (s : pstate) x s' :
  wf s -> parse_file OPS (PA d) s = Ok x s' -> wf s'.
Proof.
  intros H. apply (entry_ok_wf True _ s).
  apply (entry_parse_file True 0 _ _ (GoodT_parsers_at d)); [ exact H | lia ].
Qed.
Theorem wf_after_entry_expression d (s : pstate) x s' :
  wf s -> entry_expression OPS (PA d) s = Ok x s' -> wf s'.
Proof.
  intros H. apply (entry_ok_wf True _ s).
  apply (entry_entry_expression True 0 _ _ (GoodT_parsers_at d)); [ exact H | lia ].
Qed.
Theorem wf_after_entry_stmt d (s : pstate) x s' :
  wf s -> entry_stmt OPS (PA d) s = Ok x s' -> wf s'.
Proof.
  intros H. apply (entry_ok_wf True _ s).
  apply (entry_entry_stmt True 0 _ _ (GoodT_parsers_at d)); [ exact H | lia ].
Qed.

Theorem wf_after_entries d (s : pstate) x s' :
  wf s ->
  (parse_file OPS (PA d) s = Ok x s' -> wf s') /\
  (entry_expression OPS (PA d) s = Ok x s' -> wf s') /\
  (entry_stmt OPS (PA d) s = Ok x s' -> wf s').
Proof.
  intros H. repeat apply conj;
    [ apply wf_after_parse_file | apply wf_after_entry_expression | apply wf_after_entry_stmt ];
    exact H.
Qed.

(* k successive Parser::parse_stmt calls on one parser (Entry.run_entry's EStmts) *)
Fixpoint stmts_run (P : parsers) (k : nat) (acc : list nodeT) (s : pstate) : res nodeT :=
  match k with
  | O => Ok (nlist acc) s
  | S k' =>
      match entry_stmt OPS P s with
      | Ok st s' => stmts_run P k' (acc ++ [st]) s'
      | Err e s' => Err e s'
      | Panic n => Panic n
      | Fuel => Fuel
      end
  end.

Theorem no_panic_stmts_run d k : forall acc (s : pstate) n,
  wf s -> stmts_run (PA d) k acc s <> Panic n.
Proof.
  induction k as [|k IH]; intros acc s n H; cbn [stmts_run]; [ discriminate | ].
  pose proof (no_panic_entry_stmt d s n H) as Hn.
  pose proof (wf_after_entry_stmt d s) as Hw.
  destruct (entry_stmt OPS (PA d) s) as [st s'|e s'|n'|]; try discriminate.
  - apply IH. eapply Hw; [ exact H | reflexivity ].
  - intros [= ->]. apply Hn. reflexivity.
Qed.

(* ------------------------------------------------------------------ (2) *)

(* the specification of a table of parsers that never runs out of fuel *)
Definition Total (self : parsers) : Prop := GoodT False (dadm 0) self.

Theorem loop_fuel_step (self : parsers) : Total self -> Total (step OPS self).
Proof. apply GoodT_step. Qed.

Theorem loop_fuel_entries (self : parsers) (s : pstate) :
  Total self -> wf s ->
  parse_file OPS self s <> Fuel /\ entry_expression OPS self s <> Fuel /\
  entry_stmt OPS self s <> Fuel.
Proof.
  intros HT H. repeat split; apply (entry_ok_not_fuel _ s).
  - apply (entry_parse_file False 0 _ _ HT); [ exact H | lia ].
  - apply (entry_entry_expression False 0 _ _ HT); [ exact H | lia ].
  - apply (entry_entry_stmt False 0 _ _ HT); [ exact H | lia ].
Qed.

(* no field of [step self] returns Fuel on a well-formed state *)
Theorem loop_fuel_fields (self : parsers) (s : pstate) :
  Total self -> WF s ->
  k_type (step OPS self) s <> Fuel /\ k_type_or_none (step OPS self) s <> Fuel /\
  k_expr (step OPS self) s <> Fuel /\ k_unary (step OPS self) s <> Fuel /\
  (forall prec, k_binary (step OPS self) None prec s <> Fuel) /\
  k_litvalue (step OPS self) s <> Fuel /\ k_block (step OPS self) s <> Fuel /\
  k_stmt (step OPS self) s <> Fuel /\ k_if (step OPS self) s <> Fuel.
Proof.
  intros HT H. destruct (loop_fuel_step self HT) as [H1 H2 H3 H4 H5 H6 H7 H8 H9].
  assert (Hf : ~ False) by exact (fun x => x).
  repeat apply conj; [ | | | | intros prec | | | | ]; (eapply spec_not_fuel; [ exact Hf | ]).
  - apply H1; [ exact H | unfold dadm; lia ].
  - apply H2; [ exact H | unfold dadm; lia ].
  - apply H3; [ exact H | unfold dadm; lia ].
  - apply H4; [ exact H | unfold dadm; lia ].
  - apply (H5 None prec I); [ exact H | unfold dadm; lia ].
  - apply H6; [ exact H | unfold dadm; lia ].
  - apply H7; [ exact H | unfold dadm; lia ].
  - apply H8; [ exact H | unfold dadm; lia ].
  - apply H9; [ exact H | unfold dadm; lia ].
Qed.

(* ------------------------------------------------------------------ (3) *)

Section Ladder.
Variable AF : Prop.

(* a parser that fails at once meets every specification *)
Definition errp {X} : pstate -> res X := fun s => Err (else_error s 0) s.

Lemma errp_spec X (s : pstate) (Q : X -> pstate -> Prop) : spec AF s Q (errp s).
Proof. split; reflexivity. Qed.

(* keep the hubs of P, and k_binary at the precedences [keep]; cut the rest *)
Definition cut (keep : nat -> bool) (P : parsers) : parsers :=
  {| k_type := errp; k_type_or_none := k_type_or_none P; k_expr := errp;
     k_unary := k_unary P;
     k_binary := fun p prec s => if keep prec then k_binary P p prec s else errp s;
     k_litvalue := k_litvalue P; k_block := errp; k_stmt := k_stmt P; k_if := k_if P |}.

Definition BinGood (h q : nat) (P : parsers) : Prop :=
  forall p prec, q <= prec -> opt_ok ex_ok p ->
  forall s : pstate, WF s -> h <= s_depth s ->
  spec AF s (fun e s' => ex_ok e /\ (p = None -> meas s' < meas s)) (k_binary P p prec s).
Definition TypeGood (h : nat) (P : parsers) : Prop :=
  forall s : pstate, WF s -> h <= s_depth s ->
  spec AF s (fun t s' => ex_ok t /\ meas s' < meas s) (k_type P s).
Definition ExprGood (h : nat) (P : parsers) : Prop :=
  forall s : pstate, WF s -> h <= s_depth s ->
  spec AF s (fun t s' => ex_ok t /\ meas s' < meas s) (k_expr P s).
Definition BlockGood (h : nat) (P : parsers) : Prop :=
  forall s : pstate, WF s -> h <= s_depth s ->
  spec AF s (fun _ s' => meas s' < meas s) (k_block P s).

Lemma cut_good keep h (P : parsers) :
  HubsGoodT AF h P ->
  (forall p prec, keep prec = true -> opt_ok ex_ok p ->
   forall s : pstate, WF s -> h <= s_depth s ->
   spec AF s (fun e s' => ex_ok e /\ (p = None -> meas s' < meas s)) (k_binary P p prec s)) ->
  GoodT AF (dadm h) (cut keep P).
Proof.
  intros [H1 H2 H3 H4 H5] Hb.
  split; cbn [cut k_type k_type_or_none k_expr k_unary k_binary k_litvalue k_block k_stmt k_if];
    auto; try (intros; apply errp_spec).
  intros p prec Hp s Hw Hd. destruct (keep prec) eqn:Hk; [ apply Hb; assumption | apply errp_spec ].
Qed.

Lemma step_type h (P : parsers) : HubsGoodT AF h P -> TypeGood h (step OPS P).
Proof.
  intros HH. pose (Q := cut (fun _ => false) P).
  assert (HQ : GoodT AF (dadm h) Q) by (apply cut_good; [ exact HH | discriminate ]).
  intros s Hw Hd. rewrite (dep_type _ _ _ _ _ OPS P Q eq_refl).
  apply (GoodT_step _ _ _ _ _ OPS AF h Q HQ); assumption.
Qed.

Lemma step_block h (P : parsers) : HubsGoodT AF h P -> BlockGood h (step OPS P).
Proof.
  intros HH. pose (Q := cut (fun _ => false) P).
  assert (HQ : GoodT AF (dadm h) Q) by (apply cut_good; [ exact HH | discriminate ]).
  intros s Hw Hd. rewrite (dep_block _ _ _ _ _ OPS P Q eq_refl).
  apply (GoodT_step _ _ _ _ _ OPS AF h Q HQ); assumption.
Qed.

Lemma step_binary_top h (P : parsers) : HubsGoodT AF h P -> BinGood h 5 (step OPS P).
Proof.
  intros HH p prec Hq Hp s Hw Hd. pose (Q := cut (fun _ => false) P).
  assert (HQ : GoodT AF (dadm h) Q) by (apply cut_good; [ exact HH | discriminate ]).
  rewrite (binary_top_prec _ _ _ _ _ OPS P Q p prec s Hq eq_refl).
  apply (GoodT_step _ _ _ _ _ OPS AF h Q HQ); assumption.
Qed.

Lemma step_binary_lower h q (P : parsers) :
  HubsGoodT AF h P -> BinGood h (S q) P -> BinGood h q (step OPS P).
Proof.
  intros HH HB p prec Hq Hp s Hw Hd. pose (Q := cut (fun prec' => S q <=? prec') P).
  assert (HQ : GoodT AF (dadm h) Q).
  { apply cut_good; [ exact HH | ]. intros p' prec' Hk. apply Nat.leb_le in Hk. apply HB, Hk. }
  rewrite (binary_calls_higher_prec _ _ _ _ _ OPS P Q p prec s eq_refl).
  - apply (GoodT_step _ _ _ _ _ OPS AF h Q HQ); assumption.
  - intros p' prec' s' Hlt. cbn [Q cut k_binary].
    assert (Hk : (S q <=? prec') = true) by (apply Nat.leb_le; lia).
    rewrite Hk. reflexivity.
Qed.

Lemma step_expr h (P : parsers) : HubsGoodT AF h P -> BinGood h 0 P -> ExprGood h (step OPS P).
Proof.
  intros HH HB. pose (Q := cut (fun _ => true) P).
  assert (HQ : GoodT AF (dadm h) Q).
  { apply cut_good; [ exact HH | ]. intros p' prec' _. apply HB. lia. }
  intros s Hw Hd. rewrite (dep_expr _ _ _ _ _ OPS P Q eq_refl).
  apply (GoodT_step _ _ _ _ _ OPS AF h Q HQ); assumption.
Qed.

(* hubs from d0 on: the whole table 7 unfoldings later *)
Lemma ladder h d0 :
  (forall d, d0 <= d -> HubsGoodT AF h (PA d)) ->
  forall d, d0 + 7 <= d -> GoodT AF (dadm h) (PA d).
Proof.
  intros HH.
  assert (Hbin : forall j, j <= 5 -> forall d, d0 + 1 + j <= d -> BinGood h (5 - j) (PA d)).
  { induction j as [|j IH]; intros Hj d Hd; (destruct d as [|d]; [ lia | ]); cbn [parsers_at].
    - apply step_binary_top. apply HH. lia.
    - replace (5 - S j) with (4 - j) by lia. apply step_binary_lower; [ apply HH; lia | ].
      replace (S (4 - j)) with (5 - j) by lia. apply IH; lia. }
  assert (Hb0 : forall d, d0 + 6 <= d -> BinGood h 0 (PA d)).
  { intros d Hd. apply (Hbin 5); lia. }
  intros d Hd. destruct d as [|d]; [ lia | ].
  assert (Ht : TypeGood h (PA (S d))) by (apply step_type, HH; lia).
  assert (Hk : BlockGood h (PA (S d))) by (apply step_block, HH; lia).
  assert (He : ExprGood h (PA (S d))).
  { apply step_expr; [ apply HH; lia | apply Hb0; lia ]. }
  destruct (HH (S d) ltac:(lia)) as [H1 H2 H3 H4 H5].
  split; auto. intros p prec Hp. apply (Hb0 (S d)); [ lia | lia | exact Hp ].
Qed.

Lemma hubs_at_depth : forall n, n <= MAX_NESTING ->
  forall d, 1 + 8 * n <= d -> HubsGoodT AF (MAX_NESTING - n) (PA d).
Proof.
  induction n as [|n IH]; intros Hn d Hd.
  - destruct d as [|d]; [ lia | ]. rewrite Nat.sub_0_r. cbn [parsers_at]. apply HubsGoodT_limit.
  - destruct d as [|d]; [ lia | ]. cbn [parsers_at].
    apply HubsGoodT_step.
    replace (S (MAX_NESTING - S n)) with (MAX_NESTING - n) by lia.
    apply (ladder (MAX_NESTING - n) (1 + 8 * n)); [ apply IH; lia | lia ].
Qed.

Definition DEPTH_FUEL_BOUND : nat := 8 * (MAX_NESTING + 1).

Theorem GoodT_deep d : DEPTH_FUEL_BOUND <= d -> GoodT AF (dadm 0) (PA d).
Proof.
  unfold DEPTH_FUEL_BOUND. intros Hd.
  apply (ladder 0 (1 + 8 * MAX_NESTING)); [ | lia ].
  intros d' Hd'. replace 0 with (MAX_NESTING - MAX_NESTING) by lia.
  apply hubs_at_depth; [ lia | exact Hd' ].
Qed.

End Ladder.

Lemma depth_fuel_bound_value :
  DEPTH_FUEL_BOUND = 8 * (MAX_NESTING + 1) /\ DEPTH_FUEL_BOUND = 1544.
Proof. split; [ reflexivity | vm_compute; reflexivity ]. Qed.

Theorem Total_deep d : DEPTH_FUEL_BOUND <= d -> Total (PA d).
Proof. apply GoodT_deep. Qed.

Theorem no_fuel_entries d (s : pstate) :
  DEPTH_FUEL_BOUND <= d -> wf s ->
  parse_file OPS (PA d) s <> Fuel /\
  entry_expression OPS (PA d) s <> Fuel /\
  entry_stmt OPS (PA d) s <> Fuel.
Proof. intros Hd H. apply loop_fuel_entries; [ apply Total_deep, Hd | exact H ]. Qed.

Theorem no_fuel_stmts_run d k : DEPTH_FUEL_BOUND <= d -> forall acc (s : pstate),
  wf s -> stmts_run (PA d) k acc s <> Fuel.
Proof.
  intros Hd. induction k as [|k IH]; intros acc s H; cbn [stmts_run]; [ discriminate | ].
  destruct (no_fuel_entries d s Hd H) as (_ & _ & Hn).
  pose proof (wf_after_entry_stmt d s) as Hw.
  destruct (entry_stmt OPS (PA d) s) as [st s'|e s'|n'|]; try discriminate.
  - apply IH. eapply Hw; [ exact H | reflexivity ].
  - contradiction.
Qed.

(* the outcome is a tree or an error value *)
Theorem total_parse_file d (s : pstate) :
  DEPTH_FUEL_BOUND <= d -> wf s ->
  (exists x s', parse_file OPS (PA d) s = Ok x s') \/
  (exists e s', parse_file OPS (PA d) s = Err e s').
Proof.
  intros Hd H. destruct (no_fuel_entries d s Hd H) as (Hf & _ & _).
  pose proof (fun n => no_panic_parse_file d s n H) as Hp.
  destruct (parse_file OPS (PA d) s) as [x s'|e s'|n|]; eauto.
  - exfalso. eapply Hp. reflexivity.
  - contradiction.
Qed.

(* ------------------------------------------------------------------ (4) *)

(* depth fuel in terms of the input: 6 * (tokens left + 1) is enough *)
Lemma entry_small_parse_file AF d (s : pstate) :
  wf s -> 6 * (meas s + 1) <= d -> entry_ok AF s (parse_file OPS (PA d) s).
Proof.
  intros Hw Hd. eapply T_parse_file with (adm := ltk (meas s + 1));
    first [ apply ltk_le | apply GoodT_small; exact Hd | exact Hw | unfold ltk; lia ].
Qed.
Lemma entry_small_entry_expression AF d (s : pstate) :
  wf s -> 6 * (meas s + 1) <= d -> entry_ok AF s (entry_expression OPS (PA d) s).
Proof.
  intros Hw Hd. eapply T_entry_expression with (adm := ltk (meas s + 1));
    first [ apply ltk_le | apply GoodT_small; exact Hd | exact Hw | unfold ltk; lia ].
Qed.
Lemma entry_small_entry_stmt AF d (s : pstate) :
  wf s -> 6 * (meas s + 1) <= d -> entry_ok AF s (entry_stmt OPS (PA d) s).
Proof.
  intros Hw Hd. eapply T_entry_stmt with (adm := ltk (meas s + 1));
    first [ apply ltk_le | apply GoodT_small; exact Hd | exact Hw | unfold ltk; lia ].
Qed.

Theorem no_fuel_small_entries d (s : pstate) :
  wf s -> 6 * (meas s + 1) <= d ->
  parse_file OPS (PA d) s <> Fuel /\ entry_expression OPS (PA d) s <> Fuel /\
  entry_stmt OPS (PA d) s <> Fuel.
Proof.
  intros Hw Hd. repeat apply conj; apply (entry_ok_not_fuel _ s).
  - apply entry_small_parse_file; assumption.
  - apply entry_small_entry_expression; assumption.
  - apply entry_small_entry_stmt; assumption.
Qed.

Theorem no_fuel_small_stmts_run d k : forall acc (s : pstate),
  wf s -> 6 * (meas s + 1) <= d -> stmts_run (PA d) k acc s <> Fuel.
Proof.
  induction k as [|k IH]; intros acc s H Hd; cbn [stmts_run]; [ discriminate | ].
  pose proof (entry_small_entry_stmt False d s H Hd) as He.
  destruct (entry_stmt OPS (PA d) s) as [st s'|e s'|n'|]; try discriminate.
  - destruct He as [He1 He2]. apply IH; [ intros _; exact He1 | lia ].
  - contradiction.
Qed.

Theorem total_small_parse_file d (s : pstate) :
  wf s -> 6 * (meas s + 1) <= d ->
  (exists x s', parse_file OPS (PA d) s = Ok x s') \/
  (exists e s', parse_file OPS (PA d) s = Err e s').
Proof.
  intros H Hd. destruct (no_fuel_small_entries d s H Hd) as (Hf & _ & _).
  pose proof (fun n => no_panic_parse_file d s n H) as Hp.
  destruct (parse_file OPS (PA d) s) as [x s'|e s'|n|]; eauto.
  - exfalso. eapply Hp. reflexivity.
  - contradiction.
Qed.

End Total.


Arguments Total {A G D C E} self.
Arguments stmts_run {A G D C E} OPS P k acc s.
