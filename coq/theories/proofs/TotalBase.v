(* TOTALITY of the core parser, part 1: the specification format, the
   primitives, the facts about syntax-tree values, the tactics.

   [spec AF s Q r]: what a result [r] of a production started in state [s]
   has to satisfy:
     Ok x s'   the state is well formed again ([WF]: the backtracking mark is
               the stream from the current token on; no current token only at
               the end of input, which is then a proper end TEof), terminal
               and hub depth are those of [s], the parser has not moved
               backward ([meas]: number of tokens not yet consumed, the
               current one included), and [Q x s'] -- facts about the VALUE
               (which positions a tree has, which shape a list has) and about
               PROGRESS ([meas s' < meas s]);
     Err e s'  terminal and hub depth are those of [s];
     Panic n   never;
     Fuel      only if [AF] ("fuel may run out") holds.
   With AF := True the format says "no panic"; with AF := False "no panic and
   the fuel suffices". *)
From Coq Require Import List Bool Arith Lia.
From GoSyn Require Import Token Tok Ast Core.
From GoSyn.proofs Require Import Lift.
Import ListNotations.

Arguments expr_pos {A C} n.
Arguments fieldlist_pos {A C} fl.
Arguments mk {A C} t ps ats ks.
Arguments mkd {A C} t ps ats d ks.
Arguments n_ident {A C} p name.
Arguments n_basic {A C} p k v.
Arguments n_strlit {A C} p v.
Arguments n_field {A C} names typ tg c.
Arguments field_of {A G D C} OPS typ.
Arguments n_fieldlist {A C} pos l.
Arguments n_operation {A C} p o x y.
Arguments n_functype {A C} p tp params result.
Arguments empty_fieldlist {A C}.
Arguments extract {A C} e force.
Arguments assign_is_range {A C} st.
Arguments ident_name {A C} n.

(* reduce the projections of an updated state, and nothing else *)
Ltac sproj :=
  cbn [s_cur s_rest s_mark s_term s_spos s_lp s_ln s_d s_started s_depth
       upd_cur upd_d upd_level upd_depth dec_level reset_level].
Ltac sproj_in H :=
  cbn [s_cur s_rest s_mark s_term s_spos s_lp s_ln s_d s_started s_depth
       upd_cur upd_d upd_level upd_depth dec_level reset_level] in H.

(* ------------------------------------------------------------------ tags *)

Lemma tag_index_inj a b : tag_index a = tag_index b -> a = b.
Proof. destruct a; destruct b; intros H; try reflexivity; discriminate H. Qed.

Lemma is_tag_true A C t (n : node A C) : is_tag t n = true -> n_tag n = t.
Proof. unfold is_tag, tag_eqb. intros H. apply Nat.eqb_eq in H. apply tag_index_inj, H. Qed.

Lemma is_tag_false A C t (n : node A C) : is_tag t n = false -> n_tag n <> t.
Proof.
  unfold is_tag, tag_eqb. intros H Heq. rewrite Heq, Nat.eqb_refl in H. discriminate.
Qed.

(* ------------------------------------------------------------------ values *)

Section Values.
Variables (A C : Type).
Notation nodeT := (node A C).

(* an expression / type: Expression::pos() is defined, and it is not a Range *)
Definition ex_ok (e : nodeT) : Prop := expr_pos e <> None /\ n_tag e <> GRange.

Definition id_ok (n : nodeT) : Prop := exists p name, n = n_ident p name.

(* a FuncType with its `func` position *)
Definition ft_ok (t : nodeT) : Prop := n_ps t <> [] /\ n_tag t = GFuncType.

(* FieldList::pos() is defined unless the list is empty *)
Definition fl_ok (fl : nodeT) : Prop := n_kids fl = [] \/ fieldlist_pos fl <> None.

(* what is_type_switch and parse_for_stmt rely on: an Assign has a position,
   and its right-hand side is one node (the Range) or a list of expressions *)
Definition stmt_ok (st : nodeT) : Prop :=
  n_tag st = GAssign ->
  n_ps st <> [] /\
  ((exists r, n_kids (kid st 1) = [r]) \/
   Forall (fun e => n_tag e <> GRange) (n_kids (kid st 1))).

Definition opt_ok (P : nodeT -> Prop) (o : option nodeT) : Prop :=
  match o with Some e => P e | None => True end.

(* tags whose Expression::pos() is the node's own first position *)
Definition own_pos (t : tag) : bool :=
  match t with
  | GSelector | GTypeAssert | GCompositeLit | GIndexList | GOperation | GFuncLit | GList
  | GRange => false
  | _ => true
  end.

Lemma ex_ok_own t p ps ats d ks : own_pos t = true -> ex_ok (Nd t (p :: ps) ats d ks).
Proof. destruct t; try discriminate; intros _; split; cbn; discriminate. Qed.

Lemma ex_ok_mk t p ps ats ks : own_pos t = true -> ex_ok (mk t (p :: ps) ats ks).
Proof. apply ex_ok_own. Qed.

(* tags whose position is that of the first child *)
Definition first_pos (t : tag) : bool :=
  match t with
  | GSelector | GTypeAssert | GCompositeLit | GIndexList | GOperation => true
  | _ => false
  end.

Lemma ex_ok_first t ps ats d x ks : first_pos t = true -> ex_ok x -> ex_ok (Nd t ps ats d (x :: ks)).
Proof.
  intros Ht [Hx _]. destruct x as [tx psx atsx dx ksx].
  destruct t; try discriminate; split; try discriminate; exact Hx.
Qed.

Lemma ex_ok_mk_first t ps ats x ks : first_pos t = true -> ex_ok x -> ex_ok (mk t ps ats (x :: ks)).
Proof. apply ex_ok_first. Qed.

Lemma ex_ok_operation p o x y : ex_ok x -> ex_ok (n_operation p o x y).
Proof. apply ex_ok_first. reflexivity. Qed.

Lemma ex_ok_ident p name : ex_ok (@n_ident A C p name).
Proof. apply ex_ok_own. reflexivity. Qed.

Lemma id_ok_ident p name : id_ok (n_ident p name).
Proof. exists p, name. reflexivity. Qed.

Lemma id_ok_ex_ok n : id_ok n -> ex_ok n.
Proof. intros (p & name & ->). apply ex_ok_ident. Qed.

Lemma id_ok_ps n : id_ok n -> n_ps n <> [].
Proof. intros (p & name & ->). discriminate. Qed.

Lemma ex_ok_basic p k v : ex_ok (@n_basic A C p k v).
Proof. apply ex_ok_own. reflexivity. Qed.

Lemma ft_ok_ex_ok t : ft_ok t -> ex_ok t.
Proof.
  destruct t as [t ps ats d ks]. intros [Hp Ht]. cbn in Hp, Ht. subst t.
  destruct ps; [ contradiction | ]. apply ex_ok_own. reflexivity.
Qed.

Lemma ft_ok_functype p tp params result : ft_ok (@n_functype A C (Some p) tp params result).
Proof. split; [ discriminate | reflexivity ]. Qed.

(* FuncLit { typ, body }: typ.pos *)
Lemma ex_ok_funclit typ body : ft_ok typ -> ex_ok (mk GFuncLit [] [] [typ; body]).
Proof.
  destruct typ as [t ps ats d ks]. intros [Hp _]. cbn in Hp.
  destruct ps; [ contradiction | ]. split; cbn; discriminate.
Qed.

(* reset_chan_arrow keeps the tag and gives two positions *)
Lemma reset_chan_arrow_ok E0 (pos : A) (typ : nodeT) (t : nodeT) :
  n_tag typ = GTypeChannel ->
  reset_chan_arrow E0 pos typ = inl t -> ex_ok t.
Proof.
  destruct typ as [tg ps ats d ks]. cbn [n_tag]. intros -> H. cbn [reset_chan_arrow] in H.
  destruct (match ats with ADir dir :: _ => dir | _ => 0 end) as [|[|[|n]]].
  - injection H as <-. apply ex_ok_own. reflexivity.
  - destruct ks as [|inner rest]; [ discriminate | ].
    destruct (is_tag GTypeChannel inner); [ | discriminate ].
    destruct (reset_chan_arrow E0 _ inner); [ | discriminate ].
    injection H as <-. apply ex_ok_own. reflexivity.
  - discriminate.
  - destruct ks as [|inner rest]; [ discriminate | ].
    destruct (is_tag GTypeChannel inner); [ | discriminate ].
    destruct (reset_chan_arrow E0 _ inner); [ | discriminate ].
    injection H as <-. apply ex_ok_own. reflexivity.
Qed.

Lemma fl_ok_pos a b (l : list nodeT) : fl_ok (n_fieldlist (Some (a, b)) l).
Proof. right. cbn. discriminate. Qed.

Lemma fl_ok_ps (fl : nodeT) : n_ps fl <> [] -> fl_ok fl.
Proof.
  intros H. right. unfold fieldlist_pos. destruct (n_ps fl); [ contradiction | discriminate ].
Qed.

Lemma fl_ok_empty : fl_ok (@n_fieldlist A C None []).
Proof. left. reflexivity. Qed.

Lemma fl_ok_single G0 D0 (OPS0 : ops A G0 D0 C) t :
  ex_ok t -> fl_ok (n_fieldlist None [field_of OPS0 t]).
Proof. intros [H _]. right. exact H. Qed.

Lemma pop_last_some X (l : list X) : l <> [] -> exists r x, pop_last l = Some (r, x).
Proof.
  intros H. unfold pop_last. destruct (rev l) eqn:Hr.
  - apply (f_equal (@rev X)) in Hr. rewrite rev_involutive in Hr. contradiction.
  - eauto.
Qed.

Lemma pop_last_single X (x : X) : pop_last [x] = Some ([], x).
Proof. reflexivity. Qed.

Lemma app_not_nil X (l : list X) x : l ++ [x] <> [].
Proof. destruct l; discriminate. Qed.

Lemma Forall_snoc X (P : X -> Prop) l x : Forall P l -> P x -> Forall P (l ++ [x]).
Proof. intros H1 H2. apply Forall_app. split; [ exact H1 | constructor; [ exact H2 | constructor ] ]. Qed.

(* extract never loses its argument: site 2273 *)
Fixpoint extract_total (e : nodeT) :
  forall force, exists a b, extract e force = Some (a, b) /\ (a = None -> b <> None).
Proof.
  destruct e as [t ps ats d ks]. intros force.
  assert (Hdef : exists a b, Some (@None nodeT, Some (Nd t ps ats d ks)) = Some (a, b) /\
                             (a = None -> b <> None)).
  { eexists _, _. split; [ reflexivity | discriminate ]. }
  destruct t; try exact Hdef.
  - (* GIdent *) eexists _, _. split; [ reflexivity | discriminate ].
  - (* GCall *) cbn [extract].
    destruct ks as [|func [|args [|dots ks]]]; try exact Hdef.
    destruct (is_tag GIdent func); try exact Hdef.
    destruct (n_kids args) as [|arg0 [|]]; try exact Hdef.
    destruct (is_tag GNone dots && (force || is_type_elem A C arg0)); try exact Hdef.
    eexists _, _. split; [ reflexivity | discriminate ].
  - (* GOperation *) cbn [extract].
    destruct ks as [|x [|y ks]]; try exact Hdef.
    destruct (is_tag GNone y); try exact Hdef.
    destruct ats as [|[ | o | | | | ] ats]; try exact Hdef.
    destruct o; try exact Hdef.
    + (* OStar *)
      destruct (is_tag GIdent x && (force || is_type_elem A C y)); try exact Hdef.
      eexists _, _. split; [ reflexivity | discriminate ].
    + (* OOr *)
      destruct (extract_total x (force || is_type_elem A C y)) as (a & b & -> & Hab).
      destruct a as [name|]; destruct b as [ex|];
        try (eexists _, _; split; [ reflexivity | discriminate ]).
      exfalso. apply Hab; reflexivity.
Qed.

Lemma extract_not_none (e : nodeT) force : extract e force <> None.
Proof. destruct (extract_total e force) as (a & b & -> & _). discriminate. Qed.

End Values.

Arguments ex_ok {A C} e.
Arguments id_ok {A C} n.
Arguments ft_ok {A C} t.
Arguments fl_ok {A C} fl.
Arguments stmt_ok {A C} st.
Arguments opt_ok {A C} P o.

(* ------------------------------------------------------------------ states *)

Section Base.
Variables (A G D C E : Type) (OPS : ops A G D C).
Notation pstate := (Core.pstate A G D E).
Notation res := (Core.res A G D E).
Notation nodeT := (node A C).

Definition is_eof (t : sterm A G E) : Prop := exists a g, t = TEof a g.

(* the reachability invariant of parser states *)
Definition WF (s : pstate) : Prop :=
  match s_cur s with
  | Some (p, t) => exists a1 g, s_mark s = SE p a1 t g :: s_rest s
  | None => s_rest s = [] /\ s_mark s = [] /\ is_eof (s_term s)
  end.

(* tokens not yet consumed, the current one included *)
Definition meas (s : pstate) : nat :=
  length (s_rest s) + match s_cur s with Some _ => 1 | None => 0 end.

Lemma meas_upd_level s a b : meas (upd_level s a b) = meas s.
Proof. reflexivity. Qed.
Lemma meas_dec_level s : meas (dec_level s) = meas s.
Proof. reflexivity. Qed.
Lemma meas_reset_level s : meas (reset_level s) = meas s.
Proof. reflexivity. Qed.
Lemma meas_upd_depth s n : meas (upd_depth s n) = meas s.
Proof. reflexivity. Qed.
Lemma meas_upd_d s (d : D) : meas (upd_d s d) = meas s.
Proof. reflexivity. Qed.

Lemma meas_lt_loop_fuel s : meas s < loop_fuel s.
Proof. unfold meas, loop_fuel. destruct (s_cur s); lia. Qed.

Lemma WF_upd_level s a b : WF s -> WF (upd_level s a b).
Proof. exact (fun H => H). Qed.
Lemma WF_dec_level s : WF s -> WF (dec_level s).
Proof. exact (fun H => H). Qed.
Lemma WF_reset_level s : WF s -> WF (reset_level s).
Proof. exact (fun H => H). Qed.
Lemma WF_upd_depth s n : WF s -> WF (upd_depth s n).
Proof. exact (fun H => H). Qed.
Lemma WF_upd_d s (d : D) : WF s -> WF (upd_d s d).
Proof. exact (fun H => H). Qed.

Lemma cur_is_some (s : pstate) k : cur_is s k = true -> s_cur s <> None.
Proof. unfold cur_is. destruct (s_cur s); [ discriminate | discriminate ]. Qed.

Lemma cur_not_false_some (s : pstate) k : cur_not s k = false -> s_cur s <> None.
Proof. unfold cur_not. intros H. apply negb_false_iff in H. eapply cur_is_some, H. Qed.

Lemma drain_eq (s : pstate) c s' : drain OPS s = (c, s') -> exists d, s' = upd_d s d.
Proof. unfold drain. destruct (d_drain OPS (s_d s)). intros [= _ <-]. eauto. Qed.

(* ------------------------------------------------------------------ spec *)

Variable AF : Prop.

Definition ok_rel (s s' : pstate) : Prop :=
  WF s' /\ s_term s' = s_term s /\ s_depth s' = s_depth s /\ meas s' <= meas s.
Definition err_rel (s s' : pstate) : Prop :=
  s_term s' = s_term s /\ s_depth s' = s_depth s.

Definition spec {X} (s : pstate) (Q : X -> pstate -> Prop) (r : res X) : Prop :=
  match r with
  | Ok x s' => ok_rel s s' /\ Q x s'
  | Err _ s' => err_rel s s'
  | Panic _ => False
  | Fuel => AF
  end.

Lemma spec_not_panic X s Q (r : res X) n : spec s Q r -> r <> Panic n.
Proof. intros H ->. exact H. Qed.

Lemma spec_not_fuel X s Q (r : res X) : ~ AF -> spec s Q r -> r <> Fuel.
Proof. intros Ha H ->. exact (Ha H). Qed.

Lemma spec_ok_inv X s Q (r : res X) x s' : spec s Q r -> r = Ok x s' -> ok_rel s s' /\ Q x s'.
Proof. intros H ->. exact H. Qed.

Lemma bind_assoc X Y Z (mm : res X) (g : X -> pstate -> res Y) (f : Y -> pstate -> res Z) :
  bind (bind mm g) f = bind mm (fun x s => bind (g x s) f).
Proof. destruct mm; reflexivity. Qed.

(* ------------------------------------------------------------------ primitives *)

Ltac prim_fin :=
  repeat split; unfold WF, meas, is_eof; cbn; eauto;
  try match goal with Hr : s_rest ?s = _ |- _ => rewrite ?Hr; cbn [length] end;
  try lia;
  try match goal with |- context [match s_cur ?s with _ => _ end] =>
        destruct (s_cur s); try lia; try contradiction end.

Lemma T_next s : WF s -> spec s (fun _ _ => True) (next OPS s).
Proof.
  intros H. unfold next.
  destruct (s_rest s) as [|[a0 a1 t g] r] eqn:Hr; [ destruct (s_term s) eqn:Ht | ]; cbn;
    prim_fin.
Qed.

Lemma T_next_lt s : WF s -> s_cur s <> None -> spec s (fun _ s' => meas s' < meas s) (next OPS s).
Proof.
  intros H Hc. unfold next.
  destruct (s_rest s) as [|[a0 a1 t g] r] eqn:Hr; [ destruct (s_term s) eqn:Ht | ]; cbn;
    prim_fin.
Qed.

(* next from a state whose current token has been taken ([upd_cur _ None]) *)
Lemma T_take_next s :
  WF s -> s_cur s <> None -> spec s (fun _ s' => meas s' < meas s) (next OPS (upd_cur s None)).
Proof.
  intros H Hc. unfold next. sproj.
  destruct (s_rest s) as [|[a0 a1 t g] r] eqn:Hr; [ destruct (s_term s) eqn:Ht | ]; cbn;
    prim_fin.
Qed.

Lemma T_expect k site s : WF s -> spec s (fun _ s' => meas s' < meas s) (expect OPS k site s).
Proof.
  intros H. unfold expect. destruct (s_cur s) as [[p t]|] eqn:Hc.
  - destruct (tok_is t k).
    + assert (Hn : s_cur s <> None) by congruence.
      pose proof (T_take_next s H Hn) as Hs.
      destruct (next OPS (upd_cur s None)); cbn in *; auto.
    + split; reflexivity.
  - split; reflexivity.
Qed.

Lemma T_skipped k s :
  WF s -> spec s (fun b s' => b = true -> meas s' < meas s) (skipped OPS k s).
Proof.
  intros H. unfold skipped. destruct (cur_is s k) eqn:Hc.
  - pose proof (T_next_lt s H (cur_is_some _ _ Hc)) as Hs.
    destruct (next OPS s); cbn in *; auto. destruct Hs. auto.
  - cbn. unfold ok_rel. repeat split; auto. discriminate.
Qed.

Lemma T_identifier site s :
  WF s -> spec s (fun id s' => id_ok id /\ meas s' < meas s) (identifier OPS site s).
Proof.
  intros H. unfold identifier.
  destruct (s_cur s) as [[p [tx|k0|o|lk v]]|] eqn:Hc; try (split; reflexivity).
  assert (Hn : s_cur s <> None) by congruence.
  pose proof (T_take_next s H Hn) as Hs.
  destruct lk; try (split; reflexivity).
  destruct (next OPS (upd_cur s None)); cbn in *; auto.
  destruct Hs as [H0 H1]. split; [ exact H0 | split; [ apply id_ok_ident | exact H1 ] ].
Qed.

(* backtracking to a mark taken in a well-formed state with the same terminal *)
Lemma T_goback s0 s :
  WF s0 -> s_term s = s_term s0 -> s_depth s = s_depth s0 ->
  spec s0 (fun _ s' => meas s' = meas s0 /\ s_cur s' = s_cur s0) (goback OPS (preback s0) s).
Proof.
  intros H Ht Hd. unfold goback, preback. unfold WF in H. unfold meas.
  destruct (s_cur s0) as [[p t]|] eqn:Hc.
  - destruct H as (a1 & g & ->). cbn. unfold ok_rel, WF, meas. cbn. rewrite Hc.
    repeat split; eauto.
  - destruct H as (Hr & -> & a & g & He). rewrite Ht, He. cbn. unfold ok_rel, WF, meas. cbn.
    rewrite Hr, Hc. unfold is_eof. repeat split; eauto; cbn; lia.
Qed.

Lemma T_line_end c s : WF s -> spec s (fun _ _ => True) (line_end_comment OPS c s).
Proof.
  intros H. unfold line_end_comment.
  destruct (negb (cur_is s (KOp OSemiColon))) eqn:Hc.
  - cbn. unfold ok_rel. repeat split; auto.
  - apply negb_false_iff, cur_is_some in Hc.
    destruct (s_rest s) as [|[a0 a1 t g] r] eqn:Hr; [ destruct (s_term s) eqn:Ht | ];
      try destruct (d_line_end _ _ _ _ _ _) as [[? ?] ?]; cbn; prim_fin.
Qed.

Lemma T_inc_level s site : WF s -> spec s (fun _ _ => True) (inc_level s site).
Proof.
  intros H. unfold inc_level. cbv zeta. destruct (_ <=? _); cbn.
  - split; reflexivity.
  - unfold ok_rel. repeat split; auto.
Qed.

End Base.

Arguments WF {A G D E} s.
Arguments meas {A G D E} s.
Arguments is_eof {A G E} t.
Arguments ok_rel {A G D E} s s'.
Arguments err_rel {A G D E} s s'.
Arguments spec {A G D E} AF {X} s Q r.
Arguments WF : simpl never.
Arguments meas : simpl never.
Arguments ex_ok : simpl never.
Arguments id_ok : simpl never.
Arguments ft_ok : simpl never.
Arguments fl_ok : simpl never.
Arguments stmt_ok : simpl never.

Create HintDb total discriminated.

#[export] Hint Resolve ex_ok_mk ex_ok_mk_first ex_ok_operation ex_ok_ident id_ok_ident id_ok_ex_ok
  id_ok_ps ex_ok_basic ft_ok_ex_ok ft_ok_functype ex_ok_funclit fl_ok_pos fl_ok_empty fl_ok_single
  app_not_nil Forall_snoc cur_is_some cur_not_false_some meas_lt_loop_fuel : total.
#[export] Hint Resolve T_next_lt T_expect T_skipped T_identifier T_goback T_line_end T_inc_level : total.
#[export] Hint Resolve T_next | 20 : total.
#[export] Hint Extern 1 (WF _) => assumption : total.
#[export] Hint Extern 2 (_ <= s_depth _) => sproj; lia : total.
#[export] Hint Extern 2 (s_depth _ = s_depth _) => sproj; lia : total.
#[export] Hint Extern 2 (s_term _ = s_term _) => sproj; congruence : total.
#[export] Hint Extern 2 (s_cur _ <> None) => sproj; congruence : total.
#[export] Hint Extern 1 (own_pos _ = true) => reflexivity : total.
#[export] Hint Extern 1 (first_pos _ = true) => reflexivity : total.
#[export] Hint Extern 1 (_ :: _ <> []) => discriminate : total.
#[export] Hint Extern 1 (opt_ok _ None) => exact I : total.
#[export] Hint Extern 1 (opt_ok _ (Some _)) => cbn [opt_ok] : total.
#[export] Hint Resolve Forall_cons Forall_nil fl_ok_ps reset_chan_arrow_ok is_tag_true : total.

(* ------------------------------------------------------------------ tactics *)

(* rewrite the measure of updated states; reduce projections in a hypothesis *)
Ltac norm_in H :=
  sproj_in H;
  repeat first [ rewrite meas_upd_level in H | rewrite meas_dec_level in H
               | rewrite meas_reset_level in H | rewrite meas_upd_depth in H
               | rewrite meas_upd_d in H ].
Ltac norm_goal :=
  sproj;
  repeat first [ rewrite meas_upd_level | rewrite meas_dec_level
               | rewrite meas_reset_level | rewrite meas_upd_depth | rewrite meas_upd_d ].

Ltac split_hyps :=
  repeat match goal with
         | H : _ /\ _ |- _ => destruct H
         | H : True |- _ => clear H
         end.

(* [AF \/ meas s < fuel] for the recursive call of a loop *)
Ltac fuel_side :=
  match goal with
  | H : ?AF \/ _ < S _ |- ?AF \/ _ < _ => destruct H as [H | H]; [ left; exact H | right; norm_goal; lia ]
  | |- _ \/ meas ?s < loop_fuel ?s => right; apply meas_lt_loop_fuel
  end.

(* the atomic facts at the end of a path *)
Ltac fin_atom :=
  first [ assumption
        | exact I
        | norm_goal; lia
        | norm_goal; congruence
        | solve [ eauto 6 with total ]
        | fuel_side
        | match goal with H : ?P \/ _ < 0 |- ?P => destruct H as [H | H]; [ exact H | lia ] end
        | solve [ cbn; congruence ]
        | match goal with
          | |- context [match ?o with _ => _ end] =>
              is_var o; destruct o; cbv beta iota in *;
              repeat match goal with H : _ /\ _ |- _ => destruct H end;
              solve [ eauto 6 with total ]
          end ].

Ltac fin :=
  cbn [spec]; unfold ok_rel, err_rel; cbv beta iota;
  repeat match goal with
         | |- _ /\ _ => split
         | |- _ -> _ => intro
         end;
  try fin_atom.

(* a call [mm]: find its specification, split on its outcome *)
Ltac call_step mm :=
  let H := fresh "Hc" in
  eassert (H : spec _ _ _ mm) by (solve [ eauto 6 with total ]);
  destruct mm; cbn [bind]; cbn [spec] in H;
  [ let Hr := fresh "Hr" in let Hq := fresh "Hq" in
    destruct H as [Hr Hq]; unfold ok_rel in Hr; cbv beta in Hq;
    let Hw := fresh "Hw" in let Ht := fresh "Ht" in let Hd := fresh "Hd" in let Hm := fresh "Hm" in
    destruct Hr as (Hw & Ht & Hd & Hm);
    norm_in Ht; norm_in Hd; norm_in Hm; norm_in Hq; split_hyps;
    try match goal with Hx : None = None -> _ |- _ => specialize (Hx eq_refl) end
  | unfold err_rel in H; norm_in H; split_hyps
  | destruct H
  | try exact H ].

Ltac simpl_match_hyps :=
  repeat match goal with
         | H : context [match Some _ with _ => _ end] |- _ => cbv beta iota in H
         | H : context [match None with _ => _ end] |- _ => cbv beta iota in H
         | H : context [match (_, _) with _ => _ end] |- _ => cbv beta iota in H
         | H : context [opt_ok _ (Some _)] |- _ => cbn [opt_ok] in H
         | H : context [opt_ok _ None] |- _ => cbn [opt_ok] in H
         | H : true = true -> _ |- _ => specialize (H eq_refl)
         | H : false = true -> _ |- _ => clear H
         end;
  split_hyps.

(* case analysis on [x], remembering the equation *)
Ltac destr x :=
  let Hq := fresh "Heq" in
  destruct x eqn:Hq; try sproj_in Hq;
  try match type of Hq with
      | drain _ _ = (_, _) => apply drain_eq in Hq; destruct Hq as [? ->]
      end;
  try match goal with
      | H1 : ?b = true, H2 : ?b = false |- _ => exfalso; congruence
      end;
  simpl_match_hyps.

(* production-specific steps, tried first *)
Ltac tstep_hook := fail.

Ltac tstep :=
  first
  [ tstep_hook
  | lazymatch goal with
  | |- spec _ _ _ (Ok _ _) => fin
  | |- spec _ _ _ (Err _ _) => fin
  | |- spec _ _ _ (Panic _) => exfalso
  | |- spec _ _ _ Fuel => cbn [spec]; try fin_atom
  | |- spec _ _ _ (bind (Ok _ _) _) => cbn [bind]
  | |- spec _ _ _ (bind (Err _ _) _) => cbn [bind]
  | |- spec _ _ _ (bind (Panic _) _) => cbn [bind]
  | |- spec _ _ _ (bind Fuel _) => cbn [bind]
  | |- spec _ _ _ (bind (bind _ _) _) => rewrite bind_assoc
  | |- spec _ _ _ (bind (if ?b then _ else _) _) => destr b
  | |- spec _ _ _ (bind (match ?x with _ => _ end) _) => destr x
  | |- spec _ _ _ (bind (cur_tok ?s _) _) => unfold cur_tok; destr (s_cur s)
  | |- spec _ _ _ (bind ?mm _) => call_step mm
  | |- spec _ _ _ (if ?b then _ else _) => destr b
  | |- spec _ _ _ (match (_, _) with _ => _ end) => cbv beta iota zeta
  | |- spec _ _ _ (match ?x with _ => _ end) =>
      lazymatch type of x with
      | Core.res _ _ _ _ _ => call_step x
      | _ => destr x
      end
  | |- spec _ _ _ ?mm => call_step mm
  end ].

Ltac tsteps := cbv beta zeta; repeat (tstep; cbv beta zeta).

(* a production: unfold it and walk through its monadic structure *)
Tactic Notation "tprod" reference(f) :=
  intros ? ? ?; unfold f; hide_nats; tsteps.

Lemma spec_weaken A G D E AF X (s : pstate A G D E) (Q Q' : X -> pstate A G D E -> Prop) r :
  spec AF s Q r -> (forall x s', ok_rel s s' -> Q x s' -> Q' x s') -> spec AF s Q' r.
Proof. destruct r; cbn; auto. intros [H1 H2] H. auto. Qed.
