(* TOTALITY, depth fuel in terms of the INPUT LENGTH: depth fuel 6 * (n + 1)
   suffices for a state with n tokens left (whatever MAX_NESTING is).

   Between two consumed tokens the recursion enters at most 6 fields:
       k_stmt -> k_expr -> k_binary -> k_unary -> k_type -> k_type_or_none
   (k_block, k_if, k_litvalue, k_type_or_none consume a token before they call
   any field).  Formally: with the fields of [self] specified on the states
   with fewer than k tokens left ([GoodT AF (ltk k) self]), every production is
   specified on those states (TotalStep*.v at [adm := ltk k]); the lemmas T2_
   below treat the productions a field body can go through BEFORE its first
   token, started with exactly k tokens left: they name the fields of [self]
   that are called without a token in between (hypotheses [Same*]). *)
From Coq Require Import List Bool Arith Lia.
From GoSyn Require Import Token Tok Ast Core.
From GoSyn.proofs Require Import Lift TotalBase TotalLeaf TotalStepA TotalStepB TotalStepC
  TotalStepD.
Import ListNotations.

Section Meas.
Variables (A G D C E : Type) (OPS : ops A G D C).
Variable AF : Prop.
Variable k : nat.
Notation pstate := (Core.pstate A G D E).
Notation res := (Core.res A G D E).
Notation parsers := (Core.parsers A G D C E).
Notation nodeT := (node A C).

Definition ltk (s : pstate) : Prop := meas s < k.
Definition lek (s : pstate) : Prop := meas s <= k.

Lemma ltk_le (s s' : pstate) : ltk s -> s_depth s' = s_depth s -> meas s' <= meas s -> ltk s'.
Proof. unfold ltk. intros. lia. Qed.
Lemma lek_le (s s' : pstate) : lek s -> s_depth s' = s_depth s -> meas s' <= meas s -> lek s'.
Proof. unfold lek. intros. lia. Qed.

Local Hint Extern 2 (ltk _) => unfold ltk, lek in *; norm_goal; lia : total.
Local Hint Extern 2 (lek _) => unfold ltk, lek in *; norm_goal; lia : total.
Local Hint Extern 1 =>
  match goal with
  | |- forall s s', _ s -> s_depth s' = s_depth s -> meas s' <= meas s -> _ s' => exact ltk_le
  end : total.
Local Hint Extern 1 =>
  match goal with
  | |- forall s s', _ s -> s_depth s' = s_depth s -> meas s' <= meas s -> _ s' => exact lek_le
  end : total.

Variable self : parsers.
Hypothesis HG : GoodT AF ltk self.

(* a production started with at most k tokens left *)
Notation tspec Q p := (forall s : pstate, WF s -> lek s -> spec AF s (Q s) (p s)).

(* field f of [self] is specified with k tokens left, too *)
Notation SameTon :=
  (tspec (fun s o s' => match o with Some t => ex_ok t /\ meas s' < meas s | None => True end)
         (k_type_or_none self)).
Notation SameType := (tspec (fun s t s' => ex_ok t /\ meas s' < meas s) (k_type self)).
Notation SameUnary := (tspec (fun s t s' => ex_ok t /\ meas s' < meas s) (k_unary self)).
Notation SameExpr := (tspec (fun s t s' => ex_ok t /\ meas s' < meas s) (k_expr self)).
Notation SameBinary :=
  (forall p prec, opt_ok ex_ok p ->
   tspec (fun s e s' => ex_ok e /\ (p = None -> meas s' < meas s)) (k_binary self p prec)).
Notation SameBlock := (tspec (fun s _ s' => meas s' < meas s) (k_block self)).
Notation SameIf := (tspec (fun s _ s' => meas s' < meas s) (k_if self)).

Lemma T2_type_body :
  SameTon -> tspec (fun s t s' => ex_ok t /\ meas s' < meas s) (type_body self).
Proof. intros Hton. tprod type_body. Qed.

Lemma T2_type_instance (left : nodeT) :
  tspec (fun s x s' => ex_ok x /\ meas s' < meas s) (type_instance OPS self left).
Proof. tprod type_instance. Qed.
Local Hint Resolve T2_type_instance : total.

Lemma T2_qualified_ident (name : option nodeT) : opt_ok id_ok name ->
  tspec (fun s x s' => ex_ok x /\ (name = None -> meas s' < meas s)) (qualified_ident OPS self name).
Proof. intros Hn. tprod qualified_ident. Qed.
Local Hint Resolve T2_qualified_ident : total.

Lemma T2_func_type : tspec (fun s t s' => ft_ok t /\ meas s' < meas s) (func_type OPS self).
Proof. tprod func_type. Qed.
Local Hint Resolve T2_func_type : total.

Lemma T2_struct_type : tspec (fun s t s' => ex_ok t /\ meas s' < meas s) (struct_type OPS self).
Proof. tprod struct_type. Qed.
Local Hint Resolve T2_struct_type : total.

Lemma T2_parse_interface_type :
  tspec (fun s t s' => ex_ok t /\ meas s' < meas s) (parse_interface_type OPS self).
Proof. tprod parse_interface_type. Qed.
Local Hint Resolve T2_parse_interface_type : total.

Lemma T2_type_or_none_body :
  tspec (fun s o s' => match o with Some t => ex_ok t /\ meas s' < meas s | None => True end)
        (type_or_none_body OPS self).
Proof. tprod type_or_none_body. Qed.

Lemma T2_lit_value_body :
  tspec (fun s (_ : nodeT) s' => meas s' < meas s) (lit_value_body OPS self).
Proof. tprod lit_value_body. Qed.

Lemma T2_block_body : tspec (fun s (_ : nodeT) s' => meas s' < meas s) (block_body OPS self).
Proof. tprod block_body. Qed.

Lemma T2_if_body : tspec (fun s (_ : nodeT) s' => meas s' < meas s) (if_body OPS self).
Proof. tprod if_body. Qed.

Lemma T2_operand :
  SameType -> tspec (fun s e s' => ex_ok e /\ meas s' < meas s) (operand OPS self).
Proof. intros Htype. tprod operand. Qed.

Lemma T2_primary_expression_none :
  SameType ->
  tspec (fun s e s' => ex_ok e /\ meas s' < meas s) (primary_expression OPS self None).
Proof.
  intros Htype. pose proof (T2_operand Htype) as Hop.
  intros s Hw Hk. unfold primary_expression. hide_nats. tsteps.
Qed.

Lemma T2_unary_body :
  SameType -> tspec (fun s e s' => ex_ok e /\ meas s' < meas s) (unary_body OPS self).
Proof.
  intros Htype. pose proof (T2_primary_expression_none Htype) as Hpe. tprod unary_body.
Qed.

Lemma T2_binary_loop fuel prec x (s : pstate) :
  WF s -> lek s -> AF \/ meas s < fuel -> ex_ok x ->
  spec AF s (fun e _ => ex_ok e) (binary_loop OPS self fuel prec x s).
Proof.
  destruct fuel as [|fuel]; intros; [ cbn [binary_loop]; fin | ].
  cbn [binary_loop]. hide_nats. tsteps.
Qed.
Local Hint Resolve T2_binary_loop : total.

Lemma T2_binary_body (p : option nodeT) prec : opt_ok ex_ok p ->
  SameUnary ->
  tspec (fun s e s' => ex_ok e /\ (p = None -> meas s' < meas s)) (binary_body OPS self p prec).
Proof. intros Hp Hun. tprod binary_body. Qed.

Lemma T2_expr_body :
  SameBinary -> tspec (fun s e s' => ex_ok e /\ meas s' < meas s) (expr_body self).
Proof. intros Hbin. tprod expr_body. Qed.

Lemma T2_expression_list :
  SameExpr ->
  tspec (fun s l s' => Forall ex_ok l /\ meas s' < meas s) (expression_list OPS self).
Proof. intros Hex. tprod expression_list. Qed.

Lemma T2_parse_simple_stmt :
  SameExpr ->
  tspec (fun s st s' => stmt_ok st /\ meas s' < meas s) (parse_simple_stmt OPS self).
Proof. intros Hex. pose proof (T2_expression_list Hex) as Hel. tprod parse_simple_stmt. Qed.

Lemma T2_parse_decl sk (s : pstate) :
  WF s -> lek s -> s_cur s <> None ->
  spec AF s (fun (_ : nodeT) s' => meas s' < meas s) (parse_decl OPS self sk s).
Proof. intros ? ? ?. unfold parse_decl. hide_nats. tsteps. Qed.
Local Hint Resolve T2_parse_decl : total.

Lemma T2_parse_go_defer is_go :
  tspec (fun s (_ : nodeT) s' => meas s' < meas s) (parse_go_defer OPS self is_go).
Proof. tprod parse_go_defer. Qed.
Local Hint Resolve T2_parse_go_defer : total.

Lemma T2_parse_return_stmt :
  tspec (fun s (_ : nodeT) s' => meas s' < meas s) (parse_return_stmt OPS self).
Proof. tprod parse_return_stmt. Qed.
Local Hint Resolve T2_parse_return_stmt : total.

Lemma T2_parse_switch_stmt :
  tspec (fun s (_ : nodeT) s' => meas s' < meas s) (parse_switch_stmt OPS self).
Proof. tprod parse_switch_stmt. Qed.
Local Hint Resolve T2_parse_switch_stmt : total.

Lemma T2_parse_select_stmt :
  tspec (fun s (_ : nodeT) s' => meas s' < meas s) (parse_select_stmt OPS self).
Proof. tprod parse_select_stmt. Qed.
Local Hint Resolve T2_parse_select_stmt : total.

Lemma T2_parse_for_stmt :
  tspec (fun s (_ : nodeT) s' => meas s' < meas s) (parse_for_stmt OPS self).
Proof.
  Ltac tstep_hook ::=
    match goal with
    | Hs : stmt_ok ?st, Ha : assign_is_range ?st = true
      |- context [pop_last (n_kids (kid ?st 1))] =>
        let r := fresh "r" in let Hp := fresh "Hp" in let Hr := fresh "Hr" in
        destruct (range_last _ _ st Hs Ha) as (r & Hp & Hr); rewrite Hp; cbv beta iota; rewrite Hr
    end.
  tprod parse_for_stmt.
  Ltac tstep_hook ::= fail.
Qed.
Local Hint Resolve T2_parse_for_stmt : total.

Lemma T2_stmt_body :
  SameExpr -> SameBlock -> SameIf ->
  tspec (fun s (_ : nodeT) s' => cur_is s (KOp OBraceRight) = false -> meas s' < meas s)
        (stmt_body OPS self).
Proof.
  intros Hex Hbl Hif. pose proof (T2_parse_simple_stmt Hex) as Hss.
  tprod stmt_body.
  exfalso.
  match goal with Hc : classify_stmt _ = SCBraceRight |- _ => apply classify_brace in Hc; subst end.
  match goal with Hc : cur_is _ _ = false, Hs : s_cur _ = Some _ |- _ =>
    unfold cur_is in Hc; rewrite Hs in Hc; discriminate Hc end.
Qed.

End Meas.

Arguments ltk {A G D E} k s.
Arguments lek {A G D E} k s.

(* ------------------------------------------------------------------ the ladder *)

Section MeasLadder.
Variables (A G D C E : Type) (OPS : ops A G D C).
Variable AF : Prop.
Notation pstate := (Core.pstate A G D E).
Notation res := (Core.res A G D E).
Notation parsers := (Core.parsers A G D C E).
Notation nodeT := (node A C).
Notation PA := (@parsers_at A G D C E OPS).

(* Parser::nested does not touch the stream *)
Lemma T_nested_meas X site (f : pstate -> res X) (Q : pstate -> X -> pstate -> Prop) k :
  (forall s x s' n n', Q (upd_depth s n) x s' -> Q s x (upd_depth s' n')) ->
  (forall s, WF s -> lek k s -> spec AF s (Q s) (f s)) ->
  forall s, WF s -> lek k s -> spec AF s (Q s) (nested site f s).
Proof.
  intros HQ Hf s Hwf Hk. unfold nested. cbv zeta. cbn [s_depth upd_depth].
  destruct (S MAX_NESTING <=? S (s_depth s)) eqn:Hlim.
  - split; reflexivity.
  - pose proof (Hf (upd_depth s (S (s_depth s))) Hwf Hk) as Hb.
    destruct (f (upd_depth s (S (s_depth s)))) as [x s2|e s2|n|]; cbn in *; auto.
    + destruct Hb as [(Hw & Ht & Hdd & Hm) Hq]. split; [ | eapply HQ; exact Hq ].
      repeat split; auto. rewrite Hdd. reflexivity.
    + destruct Hb as [Ht Hdd]. split; [ exact Ht | rewrite Hdd; reflexivity ].
Qed.

Notation fspec k Q p := (forall s : pstate, WF s -> lek k s -> spec AF s (Q s) (p s)).
Notation FTon k P :=
  (fspec k (fun s o s' => match o with Some t => ex_ok t /\ meas s' < meas s | None => True end)
         (k_type_or_none P)).
Notation FType k P := (fspec k (fun s t s' => ex_ok t /\ meas s' < meas s) (k_type P)).
Notation FUnary k P := (fspec k (fun s t s' => ex_ok t /\ meas s' < meas s) (k_unary P)).
Notation FExpr k P := (fspec k (fun s t s' => ex_ok t /\ meas s' < meas s) (k_expr P)).
Notation FBinary k P :=
  (forall p prec, opt_ok ex_ok p ->
   fspec k (fun s e s' => ex_ok e /\ (p = None -> meas s' < meas s)) (k_binary P p prec)).
Notation FLit k P := (fspec k (fun s (_ : nodeT) s' => meas s' < meas s) (k_litvalue P)).
Notation FBlock k P := (fspec k (fun s (_ : nodeT) s' => meas s' < meas s) (k_block P)).
Notation FIf k P := (fspec k (fun s (_ : nodeT) s' => meas s' < meas s) (k_if P)).
Notation FStmt k P :=
  (fspec k (fun s (_ : nodeT) s' => cur_is s (KOp OBraceRight) = false -> meas s' < meas s)
         (k_stmt P)).

Section OneLevel.
Variable k : nat.
Hypothesis IH : forall d, 6 * k <= d -> GoodT AF (ltk k) (PA d).

Lemma F1 d : 6 * k + 1 <= d -> FTon k (PA d) /\ FBlock k (PA d) /\ FIf k (PA d) /\ FLit k (PA d).
Proof.
  intros Hd. destruct d as [|d]; [ lia | ]. assert (HG := IH d ltac:(lia)).
  cbn [parsers_at step k_type_or_none k_block k_if k_litvalue]. repeat apply conj.
  - apply (T_nested_meas _ _ _ (fun s o s' => match o with Some t => ex_ok t /\ meas s' < meas s
                                                      | None => True end)).
    + intros s x s' n n' H. exact H.
    + eapply T2_type_or_none_body; exact HG.
  - eapply T2_block_body; exact HG.
  - apply (T_nested_meas _ _ _ (fun s _ s' => meas s' < meas s)).
    + intros s x s' n n' H. exact H.
    + eapply T2_if_body; exact HG.
  - apply (T_nested_meas _ _ _ (fun s _ s' => meas s' < meas s)).
    + intros s x s' n n' H. exact H.
    + eapply T2_lit_value_body; exact HG.
Qed.

Lemma F2 d : 6 * k + 2 <= d -> FType k (PA d).
Proof.
  intros Hd. destruct d as [|d]; [ lia | ]. assert (HG := IH d ltac:(lia)).
  destruct (F1 d ltac:(lia)) as (Hton & _).
  cbn [parsers_at step k_type]. eapply T2_type_body; first [ exact HG | exact Hton ].
Qed.

Lemma F3 d : 6 * k + 3 <= d -> FUnary k (PA d).
Proof.
  intros Hd. destruct d as [|d]; [ lia | ]. assert (HG := IH d ltac:(lia)).
  cbn [parsers_at step k_unary].
  apply (T_nested_meas _ _ _ (fun s e s' => ex_ok e /\ meas s' < meas s)).
  - intros s x s' n n' H. exact H.
  - eapply T2_unary_body; first [ exact HG | apply F2; lia ].
Qed.

Lemma F4 d : 6 * k + 4 <= d -> FBinary k (PA d).
Proof.
  intros Hd. destruct d as [|d]; [ lia | ]. assert (HG := IH d ltac:(lia)).
  cbn [parsers_at step k_binary]. intros p prec Hp.
  eapply T2_binary_body; first [ exact HG | exact Hp | apply F3; lia ].
Qed.

Lemma F5 d : 6 * k + 5 <= d -> FExpr k (PA d).
Proof.
  intros Hd. destruct d as [|d]; [ lia | ]. assert (HG := IH d ltac:(lia)).
  cbn [parsers_at step k_expr]. eapply T2_expr_body; first [ exact HG | apply F4; lia ].
Qed.

Lemma F6 d : 6 * k + 6 <= d -> FStmt k (PA d).
Proof.
  intros Hd. destruct d as [|d]; [ lia | ]. assert (HG := IH d ltac:(lia)).
  destruct (F1 d ltac:(lia)) as (_ & Hbl & Hif & _).
  cbn [parsers_at step k_stmt].
  apply (T_nested_meas _ _ _
           (fun s _ s' => cur_is s (KOp OBraceRight) = false -> meas s' < meas s)).
  - intros s x s' n n' H. exact H.
  - eapply T2_stmt_body; first [ exact HG | apply F5; lia | exact Hbl | exact Hif ].
Qed.

Lemma level_up d : 6 * S k <= d -> GoodT AF (ltk (S k)) (PA d).
Proof.
  intros Hd.
  destruct (F1 d ltac:(lia)) as (H1 & H2 & H3 & H4).
  pose proof (F2 d ltac:(lia)) as H5. pose proof (F3 d ltac:(lia)) as H6.
  pose proof (F4 d ltac:(lia)) as H7. pose proof (F5 d ltac:(lia)) as H8.
  pose proof (F6 d ltac:(lia)) as H9.
  assert (Hk : forall s : pstate, ltk (S k) s -> lek k s) by (unfold ltk, lek; intros; lia).
  split; intros; auto.
Qed.

End OneLevel.

(* depth fuel 6 k is enough for every state with fewer than k tokens left *)
Theorem GoodT_small : forall k d, 6 * k <= d -> GoodT AF (ltk k) (PA d).
Proof.
  induction k as [|k IH]; intros d Hd.
  - split; intros; exfalso; unfold ltk in *; lia.
  - apply level_up; assumption.
Qed.

End MeasLadder.
