(* Round trip, stage B: the NEW expression productions over exp2 —
   type operands, function literals, literal values, composite literals, type
   assertions — each as a lemma producing the loop-form contract [PQP2] of
   RoundTripBase2.v (literal values: [VP] / [LVP]) from the contracts of the
   immediate sub-derivations.

   Deviation from RoundTripBase2.LVP (see [LVP1] below): a composite literal
   runs k_litvalue inside the unary hub, where PQP2 grants only
   [need2 e <= S d] and [sdepth s + depth2 e <= S MAX_NESTING]; LVP asks for
   [need_elems l <= d] and [.. <= MAX_NESTING].  The literal-value loop is
   therefore proved for the stronger contract LVP1 (one more unit of slack in
   both bounds; LVP1 -> LVP), and PQ_composite takes LVP1. *)
From Coq Require Import List Arith NArith Lia Bool.
From GoSyn Require Import Token Tok Ast Core.
From GoSyn.spec Require Import Prec Print Print2 Print3.
From GoSyn.proofs Require Import PrecProofs RoundTripProofs RoundTripTypesBase RoundTripTypesAot
  RoundTripTypesSig RoundTripBase2.
Import ListNotations.

(* ------------------------------------------------------------ unfolding the spec *)

Lemma print2_type : forall t, print2 (E2Type t) = printT print2 t.
Proof. reflexivity. Qed.
Lemma shape2_type : forall t, shape2 (E2Type t) = shapeTy shape2 t.
Proof. reflexivity. Qed.

Lemma print2_funclit : forall sg body,
  print2 (E2FuncLit sg body) = kw KFunc :: printSig print2 sg ++ print_block body.
Proof. reflexivity. Qed.
Lemma shape2_funclit : forall sg body,
  shape2 (E2FuncLit sg body) =
  mk unit unit GFuncLit [] [] [shapeSig shape2 true sg; shape_block body].
Proof. reflexivity. Qed.

Lemma print2_composite : forall ty elems,
  print2 (E2Composite ty elems) = print2 ty ++ print_elems elems.
Proof. reflexivity. Qed.
Lemma shape2_composite : forall ty elems,
  shape2 (E2Composite ty elems) =
  mk unit unit GCompositeLit [] [] [shape2 ty; shape_elems elems].
Proof. reflexivity. Qed.

Lemma print_elemv_lit : forall elems, print_elemv (VLit elems) = print_elems elems.
Proof. reflexivity. Qed.
Lemma shape_elemv_lit : forall elems, shape_elemv (VLit elems) = shape_elems elems.
Proof. reflexivity. Qed.
Lemma depth_elemv_lit : forall elems, depth_elemv (VLit elems) = depth_elems elems.
Proof. reflexivity. Qed.
Lemma need_elemv_lit : forall elems, need_elemv (VLit elems) = need_elems elems.
Proof. reflexivity. Qed.

Lemma print2_assert : forall e t,
  print2 (E2Assert e t) =
  print2 e ++ tk ODot :: tk OParenLeft ::
  match t with Some t => printT print2 t | None => [kw KType] end ++ [tk OParenRight].
Proof. reflexivity. Qed.
Lemma shape2_assert : forall e t,
  shape2 (E2Assert e t) =
  mk unit unit GTypeAssert [tt; tt] []
    [shape2 e; match t with Some t => shapeTy shape2 t | None => nnone end].
Proof. reflexivity. Qed.

(* the measures of the new forms (depth mode: cs = 4, ce = 0; need mode: cs = 6, ce = 4) *)
Lemma depth2_type : forall t, depth2 (E2Type t) = 2 + depthT depth2 t.
Proof. reflexivity. Qed.
Lemma need2_type : forall t, need2 (E2Type t) = 6 + (needT need2 t + 4).
Proof. reflexivity. Qed.
Lemma depth2_funclit : forall sg body,
  depth2 (E2FuncLit sg body) = 4 + depthT depth2 (TFunc sg) + max2 depth_stmt2 body.
Proof. reflexivity. Qed.
Lemma need2_funclit : forall sg body,
  need2 (E2FuncLit sg body) = 6 + (needT need2 (TFunc sg) + 4) + max2 need_stmt2 body.
Proof. reflexivity. Qed.
Lemma depth2_composite : forall ty elems,
  depth2 (E2Composite ty elems) = Nat.max (depth2 ty) (depth_elems elems).
Proof. reflexivity. Qed.
Lemma need2_composite : forall ty elems,
  need2 (E2Composite ty elems) = Nat.max (need2 ty) (need_elems elems).
Proof. reflexivity. Qed.
Lemma depth2_assert : forall e t,
  depth2 (E2Assert e t) = Nat.max (depth2 e) (2 + omax (depthT depth2) t).
Proof. reflexivity. Qed.
Lemma need2_assert : forall e t,
  need2 (E2Assert e t) = Nat.max (need2 e) (6 + omax (fun t => needT need2 t + 4) t).
Proof. reflexivity. Qed.

Lemma n_tag_erase : forall (A C : Type) (n : node A C), n_tag (erase n) = n_tag n.
Proof. intros A C n; destruct n; reflexivity. Qed.

(* a "{" continues no type *)
Lemma tfollow_brace : forall (X : Type) (t : typ X) r, tfollow t (tk OBraceLeft :: r).
Proof. intros X t r. apply tfollow_tok; reflexivity. Qed.

Lemma tfollow_rparen : forall (X : Type) (t : typ X) r, tfollow t (tk OParenRight :: r).
Proof. intros X t r. apply tfollow_tok; reflexivity. Qed.

Section Lit.
Variables (A G D C E : Type).
Variable OPS : ops A G D C.
Notation nodeT := (node A C).
Notation pstateT := (pstate A G D E).
Notation cur := (s_cur A G D E).
Notation srest := (s_rest A G D E).
Notation sdepth := (s_depth A G D E).
Notation lp := (s_lp A G D E).
Notation ln := (s_ln A G D E).
Notation PA := (parsers_at A G D C E OPS).
Notation erase := (@erase A C).
Notation at_toks := (@at_toks A G D E).
Notation frame := (@frame A G D E).
Notation lev := (lev A G D E).
Notation levw := (levw A G D E).
Notation TNP2 := (TNP A G D C E OPS exp2 print2 shape2 depth2 need2).
Notation TP2 := (TP A G D C E OPS exp2 print2 shape2 depth2 need2).
Notation SigP2 := (SigP A G D C E OPS exp2 print2 shape2 depth2 need2).
Notation PQP2 := (PQP2 A G D C E OPS).
Notation KE2 := (KE2 A G D C E OPS).
Notation VP := (VP A G D C E OPS).
Notation LVP := (LVP A G D C E OPS).
Notation BP := (BP A G D C E OPS).
Notation PE := (primary_expression A G D C E OPS).
Notation PL := (primary_loop A G D C E OPS).

(* ------------------------------------------------------------ (3) literal values *)

(* the first token of an expression is neither "{" nor "}" (proved by the
   expression file from its first-token lemma) *)
Hypothesis first_not_brace : forall e, wf2 false e ->
  exists t l, print2 e = t :: l /\
    tok_is t (KOp OBraceLeft) = false /\ tok_is t (KOp OBraceRight) = false.

Lemma elem_follow_closing : forall rst, elem_follow rst ->
  exists t r, rst = t :: r /\ closing t = true /\ tok_is t (KOp OBraceLeft) = false.
Proof.
  intros [| t r] H; [destruct H |]. exists t, r. split; [reflexivity |].
  destruct H as [-> | [-> | ->]]; split; reflexivity.
Qed.

(* parse_element_value on an expression *)
Lemma VP_expr : forall e, KE2 false e -> wf2 false e -> VP (VExpr e).
Proof.
  intros e HK Hwf d s rst Hd Hat Hfo Hdep Hlev.
  change (print_elemv (VExpr e)) with (print2 e) in Hat.
  change (need_elemv (VExpr e)) with (S (need2 e)) in Hd.
  change (depth_elemv (VExpr e)) with (S (depth2 e)) in Hdep, Hlev.
  change (shape_elemv (VExpr e)) with (shape2 e).
  destruct (first_not_brace e Hwf) as (t & l & Hp & Hnb & _).
  destruct (elem_follow_closing rst Hfo) as (t0 & r0 & -> & Hcl & _).
  assert (Hc : cur_is A G D E s (KOp OBraceLeft) = false).
  { rewrite Hp in Hat. cbn [app] in Hat. rewrite (cur_is_toks _ _ _ _ Hat). exact Hnb. }
  destruct (HK d s (t0 :: r0)) as (n & s1 & Hk & He & Hat1 & Hf1).
  - lia.
  - exact Hat.
  - apply efollow_close. exact Hcl.
  - lia.
  - apply (lev_frame _ _ _ _ false s s _ _ (frame_refl s) Hlev). lia.
  - exists n, s1. split; [| split; [exact He | split; [exact Hat1 | exact Hf1]]].
    unfold parse_element_value. rewrite Hc. exact Hk.
Qed.

(* parse_element_value on a nested literal value *)
Lemma VP_lit : forall elems, LVP elems -> VP (VLit elems).
Proof.
  intros elems HL d s rst Hd Hat Hfo Hdep Hlev.
  rewrite print_elemv_lit in Hat. rewrite need_elemv_lit in Hd.
  rewrite depth_elemv_lit in Hdep, Hlev. rewrite shape_elemv_lit.
  assert (Hc : cur_is A G D E s (KOp OBraceLeft) = true).
  { unfold print_elems in Hat. cbn [app] in Hat. rewrite (cur_is_toks _ _ _ _ Hat). reflexivity. }
  destruct (HL d s rst) as (n & s1 & Hk & He & Hat1 & Hf1).
  - lia.
  - exact Hat.
  - exact Hdep.
  - exact (lev_levw _ _ _ _ _ _ _ Hlev).
  - exists n, s1. split; [| split; [exact He | split; [exact Hat1 | exact Hf1]]].
    unfold parse_element_value. rewrite Hc. exact Hk.
Qed.

(* ---- elements *)

Definition depth_elem (kv : option elemv * elemv) : nat :=
  Nat.max (omax depth_elemv (fst kv)) (depth_elemv (snd kv)).
Definition need_elem (kv : option elemv * elemv) : nat :=
  Nat.max (omax need_elemv (fst kv)) (need_elemv (snd kv)).

Lemma depth_elems_eq : forall l, depth_elems l = 4 + max2 depth_elem l.
Proof. reflexivity. Qed.
Lemma need_elems_eq : forall l, need_elems l = 6 + max2 need_elem l.
Proof. reflexivity. Qed.

(* the contracts of the values of an element *)
Definition EP (kv : option elemv * elemv) : Prop := opt2 VP (fst kv) /\ VP (snd kv).

(* what follows an element: "," or "}" *)
Definition elem_end (rst : list token) : Prop :=
  match rst with
  | t :: _ => t = tk OComma \/ t = tk OBraceRight
  | [] => False
  end.

Lemma elemv_first : forall v, wf_elemv v ->
  exists t l, print_elemv v = t :: l /\ tok_is t (KOp OBraceRight) = false.
Proof.
  intros [e | elems] Hwf.
  - change (wf_elemv (VExpr e)) with (wf2 false e) in Hwf.
    destruct (first_not_brace e Hwf) as (t & l & Hp & _ & Hnb).
    exists t, l. split; [exact Hp | exact Hnb].
  - rewrite print_elemv_lit. unfold print_elems. eexists _, _. split; reflexivity.
Qed.

Lemma elem_first : forall kv, wf_elem kv ->
  exists t l, print_elem kv = t :: l /\ tok_is t (KOp OBraceRight) = false.
Proof.
  intros [[k |] v] (Hk & Hv); unfold print_elem; cbn [fst snd].
  - destruct (elemv_first k Hk) as (t & l & Hp & Hnb). rewrite Hp.
    eexists _, _. split; [reflexivity | exact Hnb].
  - destruct (elemv_first v Hv) as (t & l & Hp & Hnb). rewrite Hp.
    eexists _, _. split; [reflexivity | exact Hnb].
Qed.

(* parse_element *)
Lemma element_ok : forall kv, EP kv -> forall d (s : pstateT) rst,
  need_elem kv + 2 <= d -> at_toks s (print_elem kv ++ rst) -> elem_end rst ->
  sdepth s + depth_elem kv <= MAX_NESTING -> lev false s (depth_elem kv) ->
  exists n s1, parse_element A G D C E OPS (PA d) s = Ok n s1 /\ erase n = shape_elem kv /\
               at_toks s1 rst /\ frame s s1.
Proof.
  intros [[k |] v] (Hk & Hv) d s rst Hd Hat Hfo Hdep Hlev;
    unfold print_elem in Hat; unfold need_elem in Hd; unfold depth_elem in Hdep, Hlev;
    unfold shape_elem; cbn [fst snd omax opt2] in *.
  - rewrite <- !app_assoc in Hat. cbn [app] in Hat.
    destruct (Hk d s (tk OColon :: print_elemv v ++ rst)) as (nk & s1 & Hpk & Hek & Hat1 & Hf1).
    + lia.
    + exact Hat.
    + right; left; reflexivity.
    + lia.
    + apply (lev_frame _ _ _ _ false s s _ _ (frame_refl s) Hlev). lia.
    + destruct (skipped_yes OPS s1 _ _ (KOp OColon) Hat1 eq_refl) as (s2 & Hs & Hat2 & Hf2).
      pose proof (frame_trans _ _ _ Hf1 Hf2) as Hf12.
      destruct (Hv d s2 rst) as (nv & s3 & Hpv & Hev & Hat3 & Hf3).
      * lia.
      * exact Hat2.
      * destruct rst as [| t r]; [destruct Hfo |]. destruct Hfo as [-> | ->];
          [left; reflexivity | right; right; reflexivity].
      * unframe. lia.
      * apply (lev_frame _ _ _ _ false s s2 _ _ Hf12 Hlev). lia.
      * exists (mk A C GKeyedElement [] [] [nk; nv]), s3.
        split; [| split; [simpl; rewrite Hek, Hev; reflexivity | split; [exact Hat3 |
                  exact (frame_trans _ _ _ Hf12 Hf3)]]].
        unfold parse_element. rewrite Hpk. cbn [bind]. rewrite Hs. cbn [bind].
        rewrite Hpv. reflexivity.
  - cbn [app] in Hat.
    destruct (Hv d s rst) as (nv & s1 & Hpv & Hev & Hat1 & Hf1).
    + lia.
    + exact Hat.
    + destruct rst as [| t r]; [destruct Hfo |]. destruct Hfo as [-> | ->];
        [left; reflexivity | right; right; reflexivity].
    + lia.
    + apply (lev_frame _ _ _ _ false s s _ _ (frame_refl s) Hlev). lia.
    + assert (Hs : skipped A G D C E OPS (KOp OColon) s1 = Ok false s1).
      { apply (skipped_no OPS s1 rst _ Hat1). destruct rst as [| t r]; [exact I |].
        destruct Hfo as [-> | ->]; reflexivity. }
      exists (mk A C GKeyedElement [] [] [nnone; nv]), s1.
      split; [| split; [simpl; rewrite Hev; reflexivity | split; [exact Hat1 | exact Hf1]]].
      unfold parse_element. rewrite Hpv. cbn [bind]. rewrite Hs. reflexivity.
Qed.

(* ---- the loop *)

Definition vtail (l : elems2) : list token :=
  flat_map (fun kv => tk OComma :: print_elem kv) l.

Lemma commas_elems : forall a r, commas (map print_elem (a :: r)) = print_elem a ++ vtail r.
Proof.
  intros a r. unfold vtail. simpl. f_equal.
  induction r as [| b r IH]; simpl; [reflexivity | rewrite IH; reflexivity].
Qed.

Lemma elem_end_vtail : forall r rst, elem_end (vtail r ++ tk OBraceRight :: rst).
Proof. intros [| b r] rst; simpl; [right | left]; reflexivity. Qed.

Notation LVL := (lit_value_loop A G D C E OPS).

(* after an element: the "," and the elements that follow *)
Lemma lit_tail_ok : forall r, Forall EP r -> (forall kv, In kv r -> wf_elem kv) ->
  forall d f acc (s : pstateT) rst,
    max2 need_elem r + 2 <= d ->
    at_toks s (vtail r ++ tk OBraceRight :: rst) -> length (vtail r) + 1 <= f ->
    sdepth s + max2 depth_elem r <= MAX_NESTING -> lev false s (max2 depth_elem r) ->
    exists ns s1,
      bind A G D E (skipped A G D C E OPS (KOp OComma) s) (fun _ s2 => LVL (PA d) f acc s2)
        = Ok (acc ++ ns) s1 /\
      map erase ns = map shape_elem r /\ at_toks s1 (tk OBraceRight :: rst) /\ frame s s1.
Proof.
  intros r Hall. induction Hall as [| a r Ha Hall IH];
    intros Hwf d f acc s rst Hd Hat Hfu Hdep Hlev.
  - cbn [vtail flat_map app] in Hat. destruct f as [| f]; [simpl in Hfu; lia |].
    rewrite (skipped_no OPS s _ (KOp OComma) Hat eq_refl). cbn [bind lit_value_loop].
    rewrite (cur_is_toks _ _ _ _ Hat). change (tok_is (tk OBraceRight) (KOp OBraceRight)) with true.
    cbv iota. exists [], s. rewrite app_nil_r.
    split; [reflexivity |]. split; [reflexivity |]. split; [exact Hat | apply frame_refl].
  - cbn [max2 fold_right] in Hd, Hdep, Hlev. fold (max2 need_elem r) in Hd.
    fold (max2 depth_elem r) in Hdep, Hlev.
    unfold vtail in Hat, Hfu. cbn [flat_map] in Hat, Hfu. fold (vtail r) in Hat, Hfu.
    cbn [app] in Hat. rewrite <- !app_assoc in Hat.
    destruct f as [| f]; [simpl in Hfu; lia |].
    destruct (skipped_yes OPS s _ _ (KOp OComma) Hat eq_refl) as (s1 & Hs & Hat1 & Hf1).
    rewrite Hs. cbn [bind lit_value_loop].
    destruct (elem_first a (Hwf a (or_introl eq_refl))) as (t & l & Hp & Hnb).
    assert (Hc : cur_is A G D E s1 (KOp OBraceRight) = false).
    { rewrite Hp in Hat1. cbn [app] in Hat1. rewrite (cur_is_toks _ _ _ _ Hat1). exact Hnb. }
    rewrite Hc.
    destruct (element_ok a Ha d s1 (vtail r ++ tk OBraceRight :: rst))
      as (na & s2 & Hpe & Hea & Hat2 & Hf2).
    + lia.
    + exact Hat1.
    + apply elem_end_vtail.
    + unframe. lia.
    + apply (lev_frame _ _ _ _ false s s1 _ _ Hf1 Hlev). lia.
    + rewrite Hpe. cbn [bind].
      pose proof (frame_trans _ _ _ Hf1 Hf2) as Hf12.
      destruct (IH (fun kv Hin => Hwf kv (or_intror Hin)) d f (acc ++ [na]) s2 rst)
        as (ns & s3 & Hl & Hes & Hat3 & Hf3).
      * lia.
      * exact Hat2.
      * cbn [app length] in Hfu. rewrite app_length in Hfu. lia.
      * unframe. lia.
      * apply (lev_frame _ _ _ _ false s s2 _ _ Hf12 Hlev). lia.
      * exists (na :: ns), s3. split; [rewrite Hl, <- app_assoc; reflexivity |].
        split; [simpl; rewrite Hea, Hes; reflexivity |].
        split; [exact Hat3 | exact (frame_trans _ _ _ Hf12 Hf3)].
Qed.

(* the whole loop, from behind the "{" *)
Lemma lit_loop_ok : forall l, Forall EP l -> (forall kv, In kv l -> wf_elem kv) ->
  forall d f (s : pstateT) rst,
    max2 need_elem l + 2 <= d ->
    at_toks s (commas (map print_elem l) ++ tk OBraceRight :: rst) ->
    length (commas (map print_elem l)) + 2 <= f ->
    sdepth s + max2 depth_elem l <= MAX_NESTING -> lev false s (max2 depth_elem l) ->
    exists ns s1,
      LVL (PA d) f [] s = Ok ns s1 /\
      map erase ns = map shape_elem l /\ at_toks s1 (tk OBraceRight :: rst) /\ frame s s1.
Proof.
  intros l Hall Hwf d f s rst Hd Hat Hfu Hdep Hlev.
  destruct f as [| f]; [lia |]. cbn [lit_value_loop].
  destruct Hall as [| a r Ha Hall].
  - cbn [map commas app] in Hat.
    rewrite (cur_is_toks _ _ _ _ Hat). change (tok_is (tk OBraceRight) (KOp OBraceRight)) with true.
    cbv iota. exists [], s.
    split; [reflexivity |]. split; [reflexivity |]. split; [exact Hat | apply frame_refl].
  - rewrite commas_elems in Hat, Hfu. rewrite <- app_assoc in Hat.
    cbn [max2 fold_right] in Hd, Hdep, Hlev. fold (max2 need_elem r) in Hd.
    fold (max2 depth_elem r) in Hdep, Hlev.
    destruct (elem_first a (Hwf a (or_introl eq_refl))) as (t & l0 & Hp & Hnb).
    assert (Hc : cur_is A G D E s (KOp OBraceRight) = false).
    { rewrite Hp in Hat. cbn [app] in Hat. rewrite (cur_is_toks _ _ _ _ Hat). exact Hnb. }
    rewrite Hc.
    destruct (element_ok a Ha d s (vtail r ++ tk OBraceRight :: rst))
      as (na & s1 & Hpe & Hea & Hat1 & Hf1).
    + lia.
    + exact Hat.
    + apply elem_end_vtail.
    + lia.
    + apply (lev_frame _ _ _ _ false s s _ _ (frame_refl s) Hlev). lia.
    + rewrite Hpe. cbn [bind].
      destruct (lit_tail_ok r Hall (fun kv Hin => Hwf kv (or_intror Hin)) d f ([] ++ [na]) s1 rst)
        as (ns & s2 & Hl & Hes & Hat2 & Hf2).
      * lia.
      * exact Hat1.
      * rewrite app_length in Hfu. lia.
      * unframe. lia.
      * apply (lev_frame _ _ _ _ false s s1 _ _ Hf1 Hlev). lia.
      * exists (na :: ns), s2. split; [rewrite Hl; reflexivity |].
        split; [simpl; rewrite Hea, Hes; reflexivity |].
        split; [exact Hat2 | exact (frame_trans _ _ _ Hf1 Hf2)].
Qed.

(* ---- parse_lit_value *)

(* LVP with the bounds PQP2 grants inside the unary hub: one more unit of
   slack in need and in Parser.depth *)
Definition LVP1 (l : elems2) : Prop := forall d (s : pstateT) rst,
  need_elems l <= S d -> at_toks s (print_elems l ++ rst) ->
  sdepth s + depth_elems l <= S MAX_NESTING -> levw s (depth_elems l) ->
  exists n s1, k_litvalue A G D C E (PA d) s = Ok n s1 /\ erase n = shape_elems l /\
               at_toks s1 rst /\ frame s s1.

Lemma LVP1_LVP : forall l, LVP1 l -> LVP l.
Proof.
  intros l H d s rst Hd Hat Hdep Hlev. apply H; try assumption; lia.
Qed.

Theorem litvalue_ok1 : forall elems,
  Forall (fun kv : option elemv * elemv => opt2 VP (fst kv) /\ VP (snd kv)) elems ->
  (forall kv, In kv elems -> wf_elem kv) -> LVP1 elems.
Proof.
  intros l Hall Hwf d s rst Hd Hat Hdep Hlev.
  rewrite need_elems_eq in Hd. rewrite depth_elems_eq in Hdep, Hlev.
  destruct d as [| d0]; [lia |].
  change (k_litvalue A G D C E (PA (S d0)) s)
    with (nested A G D E 144 (lit_value_body A G D C E OPS (PA d0)) s).
  set (s0 := upd_depth A G D E s (S (sdepth s))).
  assert (Hlev0 : levw s0 (S (3 + max2 depth_elem l))) by exact Hlev.
  pose proof (levw_inc _ _ _ _ s0 _ Hlev0) as Hlev1.
  set (s1 := upd_level A G D E s0 (S (lp s0)) (ln s0)) in *.
  assert (Hat1 : at_toks s1 (print_elems l ++ rst)) by exact Hat.
  unfold print_elems in Hat1. cbn [app] in Hat1. rewrite <- app_assoc in Hat1. cbn [app] in Hat1.
  destruct (expect_toks OPS s1 _ _ (KOp OBraceLeft) 56 Hat1 eq_refl) as (p0 & s2 & Hx & Hat2 & Hf2).
  destruct (lit_loop_ok l Hall Hwf d0 (loop_fuel A G D E s2) s2 rst)
    as (ns & s3 & Hl & Hes & Hat3 & Hf3).
  - lia.
  - exact Hat2.
  - pose proof (loop_fuel_toks s2 _ Hat2) as H. rewrite app_length in H. simpl in H. lia.
  - destruct Hf2 as (Hd2 & _). rewrite Hd2. change (sdepth s1) with (S (sdepth s)). lia.
  - apply (lev_frame _ _ _ _ false s1 s2 _ _ Hf2 Hlev1). lia.
  - assert (Hat4 : at_toks (dec_level A G D E s3) (tk OBraceRight :: rst)) by exact Hat3.
    destruct (expect_toks OPS _ _ _ (KOp OBraceRight) 57 Hat4 eq_refl) as (p1 & s5 & Hx5 & Hat5 & Hf5).
    assert (Hb : lit_value_body A G D C E OPS (PA d0) s0 =
                 Ok (mk A C GLiteralValue [p0; p1] [] ns) s5).
    { unfold lit_value_body. rewrite (inc_level_ok s0 55) by (destruct Hlev0; lia). cbn [bind].
      fold s1. rewrite Hx. cbn [bind]. rewrite Hl. cbn [bind]. cbv zeta. rewrite Hx5. reflexivity. }
    exists (mk A C GLiteralValue [p0; p1] [] ns), (upd_depth A G D E s5 (pred (sdepth s5))).
    split; [apply nested_intro; [lia | exact Hb] |].
    split; [unfold shape_elems, mk; rewrite erase_Nd, Hes; reflexivity |].
    split; [exact Hat5 |].
    apply frame_nested. apply (frame_trans _ (dec_level A G D E s3) _); [| exact Hf5].
    apply frame_inc_dec. exact (frame_trans _ _ _ Hf2 Hf3).
Qed.

Theorem litvalue_ok : forall elems,
  Forall (fun kv : option elemv * elemv => opt2 VP (fst kv) /\ VP (snd kv)) elems ->
  (forall kv, In kv elems -> wf_elem kv) -> LVP elems.
Proof. intros elems Hall Hwf. apply LVP1_LVP. apply litvalue_ok1; assumption. Qed.

(* ------------------------------------------------------------ (4) composite literals *)

(* the postfix step on "{" *)
Lemma PQ_composite : forall hdr ty elems, wf2 hdr (E2Composite ty elems) ->
  PQP2 hdr ty -> LVP1 elems -> PQP2 hdr (E2Composite ty elems).
Proof.
  intros hdr ty elems Hwf HPQ HL _ d s rst Hd Hat Hfo Hdep Hlev.
  destruct Hwf as (Hty & Hwty & _).
  rewrite print2_composite in Hat. rewrite need2_composite in Hd.
  rewrite depth2_composite in Hdep, Hlev. rewrite shape2_composite.
  rewrite <- app_assoc in Hat.
  assert (Hpr : primary2 ty) by (destruct ty; try exact I; destruct Hty).
  assert (Hop : opfollow ty (print_elems elems ++ rst)).
  { destruct ty; try exact I. unfold print_elems. cbn [app]. split; [apply tfollow_brace |].
    destruct t; try exact I. destruct Hty. }
  destruct (HPQ Hpr d s (print_elems elems ++ rst))
    as (n & s1 & fuel1 & He & Hat1 & Hf1 & Hfu1 & Heq).
  { lia. } { exact Hat. } { exact Hop. } { lia. }
  { apply (lev_frame _ _ _ _ hdr s s _ _ (frame_refl s) Hlev). lia. }
  pose proof (lev_frame _ _ _ _ hdr s s1 _ _ Hf1 Hlev (le_n _)) as Hlev1.
  assert (Hat1' : at_toks s1 (tk OBraceLeft :: (commas (map print_elem elems) ++ [tk OBraceRight]) ++ rst))
    by exact Hat1.
  destruct (at_toks_cur _ _ _ Hat1') as (p & Hc).
  assert (Hcb : check_brace A G D C E n s1 = true).
  { unfold check_brace. rewrite <- (n_tag_erase A C n), He.
    rewrite (lev_nonneg _ _ _ _ hdr s1 _ Hlev1).
    destruct ty; try (destruct Hty; fail); try (rewrite Hty; reflexivity).
    destruct t; try (destruct Hty; fail); reflexivity. }
  destruct (HL d s1 rst) as (nv & s2 & Hk & Hev & Hat2 & Hf2).
  - lia.
  - exact Hat1.
  - unframe. lia.
  - apply (lev_levw _ _ _ _ hdr). apply (lev_frame _ _ _ _ hdr s s1 _ _ Hf1 Hlev). lia.
  - destruct fuel1 as [| f]; [lia |].
    exists (mk A C GCompositeLit [] [] [n; nv]), s2, f.
    split; [simpl; rewrite He, Hev; reflexivity |]. split; [exact Hat2 |].
    split; [exact (frame_trans _ _ _ Hf1 Hf2) |].
    split; [unfold print_elems in Hfu1; cbn [app length] in Hfu1; rewrite !app_length in Hfu1; cbn [length] in Hfu1; lia |].
    rewrite Heq. cbn [primary_loop]. unfold primary_step. rewrite Hc. unfold tk. cbv zeta.
    rewrite Hcb, Hk. reflexivity.
Qed.

(* ------------------------------------------------------------ func types *)

Lemma not_brace_tok : forall t, t <> tk OBraceLeft -> tok_is t (KOp OBraceLeft) = false.
Proof.
  intros t H. destruct t as [txt | k | op | lk txt]; try reflexivity.
  destruct op; try reflexivity. exfalso. apply H. reflexivity.
Qed.

(* Parser::func_type, from the contract of the signature *)
Lemma func_type_ok : forall sg, SigP2 sg -> forall d (s : pstateT) rst,
  needT need2 (TFunc sg) <= S d ->
  at_toks s (kw KFunc :: printSig print2 sg ++ rst) -> sig_follow sg rst ->
  sdepth s + depthT depth2 (TFunc sg) <= S MAX_NESTING ->
  ln s <= lp s /\ lp s + depthT depth2 (TFunc sg) <= ln s + 65 ->
  exists n s1, func_type A G D C E OPS (PA d) s = Ok n s1 /\ erase n = shapeSig shape2 true sg /\
               at_toks s1 rst /\ frame s s1.
Proof.
  intros sg HS d s rst Hd Hat Hfo Hdep Hlev.
  destruct (expect_toks OPS s _ _ (KKw KFunc) 30 Hat eq_refl) as (pos & s1 & Hx & Hat1 & Hf1).
  assert (Hnb : cur_is A G D E s1 (KOp OBarackLeft) = false).
  { destruct sg as [ps paren rs]. cbn [printSig app] in Hat1. rewrite (cur_is_toks _ _ _ _ Hat1).
    reflexivity. }
  destruct (HS d s1 rst) as (n1 & n2 & s2 & Hk & He1 & He2 & Hat2 & Hf2).
  - destruct sg as [ps paren rs]. cbn [Print2.needT] in Hd. unfold needSig, needG. lia.
  - exact Hat1.
  - exact Hfo.
  - destruct sg as [ps paren rs]. cbn [Print2.depthT] in Hdep. unfold depthSig, depthG. unframe. lia.
  - destruct sg as [ps paren rs]. cbn [Print2.depthT] in Hlev. unfold depthSig, depthG. unframe. lia.
  - exists (n_functype A C (Some pos) (empty_fieldlist A C) n1 n2), s2.
    split; [| split; [| split; [exact Hat2 | exact (frame_trans _ _ _ Hf1 Hf2)]]].
    + unfold func_type. rewrite Hx. cbn [bind]. rewrite Hnb, Hk. reflexivity.
    + destruct sg as [ps paren rs]. cbn [shapeSig]. rewrite <- He1, <- He2. reflexivity.
Qed.

(* ------------------------------------------------------------ (2) function literals *)

Lemma PQ_funclit : forall hdr sg body, SigP2 sg -> BP body -> wfSig (wf2 false) sg ->
  PQP2 hdr (E2FuncLit sg body).
Proof.
  intros hdr sg body HS HB _ _ d s rst Hd Hat Hfo Hdep Hlev.
  rewrite print2_funclit in Hat. rewrite need2_funclit in Hd.
  rewrite depth2_funclit in Hdep, Hlev. rewrite shape2_funclit.
  cbn [app] in Hat. rewrite <- app_assoc in Hat.
  pose proof (needT_pos _ need2 (TFunc sg)) as Hnp. pose proof (depthT_pos _ depth2 (TFunc sg)) as Hdp.
  destruct (at_toks_cur _ _ _ Hat) as (p & Hc).
  destruct (func_type_ok sg HS d s (print_block body ++ rst)) as (nt & s1 & Hft & Het & Hat1 & Hf1).
  - lia.
  - exact Hat.
  - unfold print_block. cbn [app]. apply tfollow_brace.
  - lia.
  - destruct Hlev as (H1 & H2). destruct hdr; lia.
  - assert (Hat1' : at_toks s1 (tk OBraceLeft :: (print_stmts body ++ [tk OBraceRight]) ++ rst))
      by exact Hat1.
    destruct (HB d s1 rst) as (nb & s2 & Hk & Heb & Hat2 & Hf2).
    + unfold need_block. lia.
    + exact Hat1.
    + unfold depth_block. unframe. lia.
    + apply (lev_levw _ _ _ _ hdr). apply (lev_frame _ _ _ _ hdr s s1 _ _ Hf1 Hlev).
      unfold depth_block. lia.
    + exists (mk A C GFuncLit [] [] [nt; nb]), s2, (loop_fuel A G D E s2).
      split; [simpl; rewrite Het, Heb; reflexivity |]. split; [exact Hat2 |].
      split; [exact (frame_trans _ _ _ Hf1 Hf2) |].
      split; [apply loop_fuel_toks; exact Hat2 |].
      unfold primary_expression, operand. rewrite Hc. change (kw KFunc) with (TKeyword KFunc).
      cbv iota. rewrite Hft. cbn [bind]. rewrite (cur_is_toks _ _ _ _ Hat1').
      change (tok_is (tk OBraceLeft) (KOp OBraceLeft)) with true. cbv iota.
      rewrite Hk. reflexivity.
Qed.

(* ------------------------------------------------------------ (1) type operands *)

Lemma operand_type_tok : forall (t : typ2) rst, operand_type t -> (forall sg, t <> TFunc sg) ->
  exists tok l, printT print2 t ++ rst = tok :: l /\
    (tok = TOperator OBarackLeft \/ tok = TKeyword KChan \/ tok = TKeyword KMap \/
     tok = TKeyword KStruct \/ tok = TKeyword KInterface).
Proof.
  intros t rst Hot Hnf.
  destruct t; cbn [operand_type] in Hot; try (destruct Hot; fail);
    try (cbn [Print2.printT app]; eexists _, _; split; [reflexivity | tauto]).
  - destruct dir; try (exfalso; apply Hot; reflexivity);
      cbn [Print2.printT app]; eexists _, _; split; try reflexivity; tauto.
  - exfalso. exact (Hnf s eq_refl).
Qed.

Lemma PQ_type2 : forall hdr t, wf2 hdr (E2Type t) -> TNP2 t ->
  (forall sg, t = TFunc sg -> SigP2 sg) -> PQP2 hdr (E2Type t).
Proof.
  intros hdr t (Hot & Hwt) HT HS _ d s rst Hd Hat Hfo Hdep Hlev.
  rewrite print2_type in Hat. rewrite need2_type in Hd. rewrite depth2_type in Hdep, Hlev.
  rewrite shape2_type. destruct Hfo as (Hfo & Hnb).
  assert (Hl : ln s <= lp s /\ lp s + depthT depth2 t + 1 <= ln s + 64).
  { destruct Hlev as (H1 & H2). destruct hdr; lia. }
  assert (Hfunc : (exists sg, t = TFunc sg) \/ (forall sg, t <> TFunc sg)).
  { destruct t; try (right; intros sg H; discriminate H). left. eexists. reflexivity. }
  destruct Hfunc as [(sg & ->) | Hnf].
  - rewrite printT_func in Hat. cbn [app] in Hat.
    destruct (at_toks_cur _ _ _ Hat) as (p & Hc).
    destruct (func_type_ok sg (HS sg eq_refl) d s rst) as (nt & s1 & Hft & Het & Hat1 & Hf1).
    + lia.
    + exact Hat.
    + exact Hfo.
    + lia.
    + lia.
    + exists nt, s1, (loop_fuel A G D E s1).
      split; [rewrite shapeTy_func; exact Het |]. split; [exact Hat1 |]. split; [exact Hf1 |].
      split; [apply loop_fuel_toks; exact Hat1 |].
      unfold primary_expression, operand. rewrite Hc. change (kw KFunc) with (TKeyword KFunc).
      cbv iota. rewrite Hft. cbn [bind].
      assert (Hcb : cur_is A G D E s1 (KOp OBraceLeft) = false).
      { destruct rst as [| t0 r]; [apply cur_is_nil; exact Hat1 |].
        rewrite (cur_is_toks _ _ _ _ Hat1). apply not_brace_tok. exact Hnb. }
      rewrite Hcb. reflexivity.
  - destruct (TNP_TP _ _ _ _ _ _ _ _ _ _ _ t HT d s rst) as (n & s1 & Hk & He & Hat1 & Hf1).
    + lia.
    + exact Hat.
    + exact Hfo.
    + lia.
    + lia.
    + exists n, s1, (loop_fuel A G D E s1).
      split; [exact He |]. split; [exact Hat1 |]. split; [exact Hf1 |].
      split; [apply loop_fuel_toks; exact Hat1 |].
      destruct (operand_type_tok t rst Hot Hnf) as (tok & l & Hp & Htok).
      rewrite Hp in Hat. destruct (at_toks_cur _ _ _ Hat) as (p & Hc).
      unfold primary_expression, operand. rewrite Hc.
      destruct Htok as [-> | [-> | [-> | [-> | ->]]]]; cbv iota; rewrite Hk; reflexivity.
Qed.

(* ------------------------------------------------------------ (5) type assertions *)

Lemma type_start_not_kwtype : forall tok, type_start tok = true -> tok_is tok (KKw KType) = false.
Proof.
  intros tok H. destruct tok as [txt | k | op | lk txt]; try reflexivity.
  destruct k; try reflexivity; discriminate H.
Qed.

(* the postfix step "." "(":  x.(T)  and the guard  x.(type) *)
Lemma PQ_assert : forall hdr e t, primary2 e -> base_dot e -> PQP2 hdr e ->
  (forall ty, t = Some ty -> wfT (wf2 false) ty /\ TNP2 ty) -> PQP2 hdr (E2Assert e t).
Proof.
  intros hdr e t Hpr Hbd HPQ HT _ d s rst Hd Hat Hfo Hdep Hlev.
  rewrite print2_assert in Hat. rewrite need2_assert in Hd.
  rewrite depth2_assert in Hdep, Hlev. rewrite shape2_assert.
  rewrite <- app_assoc in Hat. cbn [app] in Hat.
  set (mid := match t with Some t0 => printT print2 t0 | None => [kw KType] end) in Hat.
  assert (Hop : opfollow e (tk ODot :: tk OParenLeft :: (mid ++ [tk OParenRight]) ++ rst)).
  { destruct e; try exact I. cbn [base_dot] in Hbd. split.
    - unfold tfollow. rewrite Hbd. exact I.
    - destruct t0; try exact I. discriminate. }
  destruct (HPQ Hpr d s (tk ODot :: tk OParenLeft :: (mid ++ [tk OParenRight]) ++ rst))
    as (n & s1 & fuel1 & He & Hat1 & Hf1 & Hfu1 & Heq).
  { lia. } { exact Hat. } { exact Hop. } { lia. }
  { apply (lev_frame _ _ _ _ hdr s s _ _ (frame_refl s) Hlev). lia. }
  destruct (at_toks_cur _ _ _ Hat1) as (p & Hc).
  destruct (next_toks OPS _ _ (at_toks_rest' _ _ _ Hat1)) as (s2 & Hn & Hat2 & Hf2).
  destruct (at_toks_cur _ _ _ Hat2) as (p2 & Hc2).
  destruct (next_toks OPS _ _ (at_toks_rest' _ _ _ Hat2)) as (s3 & Hn3 & Hat3 & Hf3).
  rewrite <- app_assoc in Hat3. cbn [app] in Hat3.
  pose proof (frame_trans _ _ _ (frame_trans _ _ _ Hf1 Hf2) Hf3) as Hf13.
  destruct fuel1 as [| f]; [simpl in Hfu1; lia |].
  assert (Hfu : length rst + 1 <= f).
  { cbn [length] in Hfu1. rewrite !app_length in Hfu1. lia. }
  unfold tk in Hc, Hc2.
  destruct t as [ty |]; subst mid.
  - destruct (HT ty eq_refl) as (Hwt & HTN). cbn [omax] in Hd, Hdep, Hlev.
    destruct (first_tokT _ print2 (wf2 false) ty Hwt) as (tok & l & Hp & Hst & _).
    assert (Hsk : skipped A G D C E OPS (KKw KType) s3 = Ok false s3).
    { apply (skipped_no OPS s3 _ _ Hat3). rewrite Hp. cbn [app].
      apply type_start_not_kwtype. exact Hst. }
    destruct (TNP_TP _ _ _ _ _ _ _ _ _ _ _ ty HTN d s3 (tk OParenRight :: rst))
      as (nt & s4 & Hk & Het & Hat4 & Hf4).
    + lia.
    + exact Hat3.
    + apply tfollow_rparen.
    + unframe. lia.
    + destruct Hlev as (H1 & H2). unframe. destruct hdr; lia.
    + destruct (expect_toks OPS s4 _ _ (KOp OParenRight) 63 Hat4 eq_refl)
        as (p1 & s5 & Hx & Hat5 & Hf5).
      exists (mk A C GTypeAssert [cur_pos A G D E s1; p1] [] [n; nt]), s5, f.
      split; [simpl; rewrite He, Het; reflexivity |]. split; [exact Hat5 |].
      split; [exact (frame_trans _ _ _ (frame_trans _ _ _ Hf13 Hf4) Hf5) |].
      split; [exact Hfu |].
      rewrite Heq. cbn [primary_loop]. unfold primary_step. rewrite Hc. cbv zeta.
      rewrite Hn. cbn [bind]. rewrite Hc2. rewrite Hn3. cbn [bind]. rewrite Hsk. cbn [bind].
      rewrite Hk. cbn [bind]. rewrite Hx. reflexivity.
  - cbn [app] in Hat3.
    destruct (skipped_yes OPS s3 _ _ (KKw KType) Hat3 eq_refl) as (s4 & Hsk & Hat4 & Hf4).
    destruct (expect_toks OPS s4 _ _ (KOp OParenRight) 63 Hat4 eq_refl)
      as (p1 & s5 & Hx & Hat5 & Hf5).
    exists (mk A C GTypeAssert [cur_pos A G D E s1; p1] [] [n; nnone]), s5, f.
    split; [simpl; rewrite He; reflexivity |]. split; [exact Hat5 |].
    split; [exact (frame_trans _ _ _ (frame_trans _ _ _ Hf13 Hf4) Hf5) |].
    split; [exact Hfu |].
    rewrite Heq. cbn [primary_loop]. unfold primary_step. rewrite Hc. cbv zeta.
    rewrite Hn. cbn [bind]. rewrite Hc2. rewrite Hn3. cbn [bind]. rewrite Hsk. cbn [bind].
    rewrite Hx. reflexivity.
Qed.

End Lit.

(* ------------------------------------------------------------ the hypothesis of Section Lit *)

Lemma type_start_not_brace : forall tok, type_start tok = true ->
  tok_is tok (KOp OBraceLeft) = false /\ tok_is tok (KOp OBraceRight) = false.
Proof.
  intros tok H. destruct tok as [txt | k | op | lk txt]; try (split; reflexivity).
  destruct op; try (split; reflexivity); discriminate H.
Qed.

(* the first token of an expression is neither "{" nor "}": discharges
   [first_not_brace] (at hdr = false) *)
Lemma first_tok2_not_brace : forall e hdr, wf2 hdr e ->
  exists t l, print2 e = t :: l /\
    tok_is t (KOp OBraceLeft) = false /\ tok_is t (KOp OBraceRight) = false.
Proof.
  fix IH 1. intros e hdr Hwf.
  destruct e as [name | k text | e | op e | op l r | f args ddd | e name | e i | e idx
                 | e lo hi mx | t | sg body | ty elems | e t].
  - eexists _, _. split; [reflexivity |]. split; reflexivity.
  - eexists _, _. split; [reflexivity |]. split; reflexivity.
  - eexists _, _. split; [reflexivity |]. split; reflexivity.
  - destruct Hwf as (Hop & _). eexists _, _. split; [reflexivity |].
    clear IH. destruct op; try destruct Hop; split; reflexivity.
  - destruct Hwf as (_ & _ & _ & Hl & _). destruct (IH l hdr Hl) as (t & l0 & Hp & Hb).
    change (print2 (E2Binary op l r)) with (print2 l ++ tk op :: print2 r). rewrite Hp.
    eexists _, _. split; [reflexivity | exact Hb].
  - destruct Hwf as (_ & _ & Hf & _). destruct (IH f hdr Hf) as (t & l0 & Hp & Hb).
    change (print2 (E2Call f args ddd)) with
      (print2 f ++ tk OParenLeft :: commas (map print2 args) ++
        (if ddd then [tk ODotDotDot] else []) ++ [tk OParenRight]). rewrite Hp.
    eexists _, _. split; [reflexivity | exact Hb].
  - destruct Hwf as (_ & _ & He). destruct (IH e hdr He) as (t & l0 & Hp & Hb).
    change (print2 (E2Selector e name)) with (print2 e ++ [tk ODot; TLiteral LIdent name]).
    rewrite Hp. eexists _, _. split; [reflexivity | exact Hb].
  - destruct Hwf as (_ & _ & He & _). destruct (IH e hdr He) as (t & l0 & Hp & Hb).
    change (print2 (E2Index e i)) with (print2 e ++ tk OBarackLeft :: print2 i ++ [tk OBarackRight]).
    rewrite Hp. eexists _, _. split; [reflexivity | exact Hb].
  - destruct Hwf as (_ & _ & He & _). destruct (IH e hdr He) as (t & l0 & Hp & Hb).
    change (print2 (E2IndexList e idx)) with
      (print2 e ++ tk OBarackLeft :: commas (map print2 idx) ++ [tk OBarackRight]).
    rewrite Hp. eexists _, _. split; [reflexivity | exact Hb].
  - destruct Hwf as (_ & _ & He & _). destruct (IH e hdr He) as (t & l0 & Hp & Hb).
    change (print2 (E2Slice e lo hi mx)) with
      (print2 e ++ tk OBarackLeft ::
        popt print2 lo ++ tk OColon :: popt print2 hi ++
        match mx with Some x => tk OColon :: print2 x | None => [] end ++ [tk OBarackRight]).
    rewrite Hp. eexists _, _. split; [reflexivity | exact Hb].
  - clear IH. destruct Hwf as (_ & Hwt).
    destruct (first_tokT _ print2 (wf2 false) t Hwt) as (tok & l & Hp & Hst & _).
    rewrite print2_type, Hp. eexists _, _. split; [reflexivity |].
    apply type_start_not_brace. exact Hst.
  - clear IH. rewrite print2_funclit. eexists _, _. split; [reflexivity |]. split; reflexivity.
  - destruct Hwf as (_ & Hty & _). destruct (IH ty hdr Hty) as (t & l0 & Hp & Hb).
    rewrite print2_composite, Hp. eexists _, _. split; [reflexivity | exact Hb].
  - destruct Hwf as (_ & _ & He & _). destruct (IH e hdr He) as (t1 & l0 & Hp & Hb).
    rewrite print2_assert, Hp. eexists _, _. split; [reflexivity | exact Hb].
Qed.

Lemma first_not_brace_holds : forall e, wf2 false e ->
  exists t l, print2 e = t :: l /\
    tok_is t (KOp OBraceLeft) = false /\ tok_is t (KOp OBraceRight) = false.
Proof. intros e H. exact (first_tok2_not_brace e false H). Qed.

(* the literal-value lemmas with the hypothesis of Section Lit discharged *)
Section Closed.
Variables (A G D C E : Type).
Variable OPS : ops A G D C.

Theorem VP_expr_closed : forall e,
  KE2 A G D C E OPS false e -> wf2 false e -> VP A G D C E OPS (VExpr e).
Proof. exact (VP_expr A G D C E OPS first_not_brace_holds). Qed.

Theorem litvalue_ok1_closed : forall elems,
  Forall (fun kv : option elemv * elemv =>
            opt2 (VP A G D C E OPS) (fst kv) /\ VP A G D C E OPS (snd kv)) elems ->
  (forall kv, In kv elems -> wf_elem kv) -> LVP1 A G D C E OPS elems.
Proof. exact (litvalue_ok1 A G D C E OPS first_not_brace_holds). Qed.

Theorem litvalue_ok_closed : forall elems,
  Forall (fun kv : option elemv * elemv =>
            opt2 (VP A G D C E OPS) (fst kv) /\ VP A G D C E OPS (snd kv)) elems ->
  (forall kv, In kv elems -> wf_elem kv) -> LVP A G D C E OPS elems.
Proof. exact (litvalue_ok A G D C E OPS first_not_brace_holds). Qed.
End Closed.
