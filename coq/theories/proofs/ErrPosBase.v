(* C16 (errors): WHERE the position of a parse error comes from.  Part 1: the
   specification format, the node invariant, the primitives, the tactics.

   The parser runs on a fixed pre-scanned stream [whole] with terminal [term].
     tok_at p t   an element [SE p _ t _] of the stream: token t stands at p
     tokstart p   some token starts at p        tokend p   some token ends at p
     eofpos p     [term = TEof p _]: p is the end-of-input position
   [errok e] says where the position of an error comes from:
     PUnexpected p (Some t)   tok_at p t
     PUnexpected p None       eofpos p
     PScan x                  term = TErr x _
     PElse p site             by the class of the site ([site_class]):
        SEnd   (Parser::else_error)        tokend p \/ eofpos p
        SNode  (else_error_at: a position  tokstart p \/ eofpos p
                taken from the current token or from a node already built)
        SPlus2 (go / defer: pos + 2)       p = a_plus2 q, a `go`/`defer` token at q

   RESULT-LEVEL format [rp V r]:
     Ok x s    [V x] (every position inside the nodes of the value is a token
               start or the EOF position; a `<-chan` / `chan<-` node holds the
               position of an arrow token: [nok]) and [J s] (the state invariant:
               the stream and the mark are suffixes of [whole], the current token
               stands in [whole] at its position and the scanner position is its
               end; without a current token the scanner is at the EOF position)
     Err e s   [errok e] and [JE s] (suffixes and terminal only: after an error
               the current token may have been taken away) *)
From Coq Require Import List Bool Arith Lia.
From GoSyn Require Import Token Tok Ast Core.
From GoSyn.proofs Require Import Lift StreamProofs.
Import ListNotations.

Arguments expr_pos {A C} n.
Arguments fieldlist_pos {A C} fl.
Arguments mk {A C} t ps ats ks.
Arguments mkd {A C} t ps ats d ks.
Arguments n_ident {A C} p name.
Arguments n_basic {A C} p k v.
Arguments n_strlit {A C} p v.
Arguments n_field {A C} names typ tg c.
Arguments field_of {A G D C} OPS typ.
Arguments n_fieldlist {A C} pos l.
Arguments n_operation {A C} p o x y.
Arguments n_functype {A C} p tp params result.
Arguments empty_fieldlist {A C}.
Arguments ident_name {A C} n.
Arguments pop_last {X} l.

(* which kind of position an else-error of a given site carries *)
Inductive sclass : Set := SEnd | SNode | SPlus2.
Definition site_class (site : nat) : sclass :=
  match site with
  | 84 => SPlus2
  | 4 | 5 | 58 | 66 | 72 | 74 | 75 | 77 | 78 | 96 | 97 | 114 | 121 | 123 | 129 | 132 => SNode
  | _ => SEnd
  end.

Definition chan_dir_of (ats : list attr) : nat :=
  match ats with ADir d :: _ => d | _ => 0 end.

Lemma op_eqb_true a b : op_eqb a b = true -> a = b.
Proof. destruct a; destruct b; (reflexivity || discriminate). Qed.
Lemma kw_eqb_true a b : kw_eqb a b = true -> a = b.
Proof. destruct a; destruct b; (reflexivity || discriminate). Qed.

Lemma suffix_of_head_in X (x : X) l w : suffix_of (x :: l) w -> In x w.
Proof. intros [pre ->]. apply in_or_app. right. left. reflexivity. Qed.

Section ErrPos.
Variables (A G D C E : Type) (OPS : ops A G D C).
Notation pstate := (Core.pstate A G D E).
Notation res := (Core.res A G D E).
Notation selem := (Core.selem A G).
Notation sterm := (Core.sterm A G E).
Notation perr := (Core.perr A E).
Notation nodeT := (node A C).

Variable whole : list selem.
Variable term : sterm.

(* ------------------------------------------------------------------ positions *)

Definition tok_at (p : A) (t : token) : Prop := exists a1 g, In (SE p a1 t g) whole.
Definition tokstart (p : A) : Prop := exists t, tok_at p t.
Definition tokend (p : A) : Prop := exists a0 t g, In (SE a0 p t g) whole.
Definition eofpos (p : A) : Prop := exists g, term = TEof p g.
(* what a node may hold / what else_error reports *)
Definition gp (p : A) : Prop := tokstart p \/ eofpos p.
Definition endp (p : A) : Prop := tokend p \/ eofpos p.

Definition errok (e : perr) : Prop :=
  match e with
  | PUnexpected p (Some t) _ => tok_at p t
  | PUnexpected p None _ => eofpos p
  | PElse p site =>
      match site_class site with
      | SEnd => endp p
      | SNode => gp p
      | SPlus2 => exists q, (tok_at q (TKeyword KGo) \/ tok_at q (TKeyword KDefer)) /\
                            p = a_plus2 OPS q
      end
  | PScan x => exists g, term = TErr x g
  end.

Lemma gp_tok_at p t : tok_at p t -> gp p.
Proof. intros H. left. exists t. exact H. Qed.
Lemma gp_tokstart p : tokstart p -> gp p.
Proof. intros H. left. exact H. Qed.

(* ------------------------------------------------------------------ nodes *)

Definition arrow_at (p : A) : Prop := tok_at p (TOperator OArrow).

(* one node: its positions; a channel type with a direction holds the
   position of its arrow in second place *)
Definition lok (t : tag) (ps : list A) (ats : list attr) : Prop :=
  Forall gp ps /\
  (t = GTypeChannel -> chan_dir_of ats <> 0 -> exists p0 p1, ps = [p0; p1] /\ arrow_at p1).

Fixpoint nok (n : nodeT) : Prop :=
  match n with
  | Nd t ps ats _ ks =>
      lok t ps ats /\
      (fix all (l : list nodeT) : Prop :=
         match l with [] => True | k :: r => nok k /\ all r end) ks
  end.

Lemma nok_Nd t ps ats d ks : nok (Nd t ps ats d ks) <-> lok t ps ats /\ Forall nok ks.
Proof.
  cbn [nok]. split; intros [H1 H2]; (split; [ exact H1 | ]).
  - induction ks as [|k r IH]; [ constructor | ]. destruct H2 as [Hk Hr].
    constructor; [ exact Hk | exact (IH Hr) ].
  - induction ks as [|k r IH]; [ exact I | ]. inversion H2 as [|? ? Hk Hr]; subst.
    split; [ exact Hk | exact (IH Hr) ].
Qed.

Definition onok (o : option nodeT) : Prop :=
  match o with Some n => nok n | None => True end.

Lemma lok_plain t ps ats : Forall gp ps -> t <> GTypeChannel -> lok t ps ats.
Proof. intros H Ht. split; [ exact H | intros Hc; contradiction ]. Qed.

Lemma nok_build t ps ats d ks :
  Forall gp ps -> t <> GTypeChannel -> Forall nok ks -> nok (Nd t ps ats d ks).
Proof. intros Hp Ht Hk. apply nok_Nd. split; [ apply lok_plain; assumption | exact Hk ]. Qed.

Lemma nok_mk t ps ats ks :
  Forall gp ps -> t <> GTypeChannel -> Forall nok ks -> nok (mk t ps ats ks).
Proof. apply nok_build. Qed.
Lemma nok_mkd t ps ats d ks :
  Forall gp ps -> t <> GTypeChannel -> Forall nok ks -> nok (mkd t ps ats d ks).
Proof. apply nok_build. Qed.

(* a channel type *)
Lemma nok_chan p0 p1 dir d ks :
  gp p0 -> gp p1 -> (dir <> 0 -> arrow_at p1) -> Forall nok ks ->
  nok (Nd GTypeChannel [p0; p1] [ADir dir] d ks).
Proof.
  intros H0 H1 Ha Hk. apply nok_Nd. split; [ | exact Hk ]. split.
  - constructor; [ exact H0 | constructor; [ exact H1 | constructor ] ].
  - intros _ Hd. exists p0, p1. split; [ reflexivity | exact (Ha Hd) ].
Qed.

Lemma nok_ps n : nok n -> Forall gp (n_ps n).
Proof. destruct n. intros H. apply nok_Nd in H. exact (proj1 (proj1 H)). Qed.
Lemma nok_kids n : nok n -> Forall nok (n_kids n).
Proof. destruct n. intros H. apply nok_Nd in H. exact (proj2 H). Qed.

Lemma nok_nnone : nok nnone.
Proof. apply nok_build; [ constructor | discriminate | constructor ]. Qed.
Lemma nok_nlist l : Forall nok l -> nok (nlist l).
Proof. intros H. apply nok_build; [ constructor | discriminate | exact H ]. Qed.
Lemma nok_nopt o : onok o -> nok (nopt o).
Proof. destruct o; [ exact (fun H => H) | intros _; apply nok_nnone ]. Qed.
Lemma nok_npos p : gp p -> nok (npos p).
Proof.
  intros H. apply nok_build; [ constructor; [ exact H | constructor ] | discriminate | constructor ].
Qed.

Lemma Forall_nth_gen X (P : X -> Prop) l d i : Forall P l -> P d -> P (nth i l d).
Proof.
  intros Hl Hd. revert i. induction Hl as [|x l Hx Hl IH]; intros [|i]; cbn; auto.
Qed.

Lemma nok_kid n i : nok n -> nok (kid n i).
Proof. intros H. unfold kid. apply Forall_nth_gen; [ apply nok_kids, H | apply nok_nnone ]. Qed.

Lemma Forall_set_nth X (P : X -> Prop) i x : forall l, Forall P l -> P x -> Forall P (set_nth i x l).
Proof.
  induction i as [|i IH]; intros l Hl Hx; destruct Hl as [|y l Hy Hl]; cbn; try constructor; auto.
Qed.

Lemma nok_set_kid n i k : nok n -> nok k -> nok (set_kid n i k).
Proof.
  destruct n as [t ps ats d ks]. intros H Hk. apply nok_Nd in H. destruct H as [Hl Hks].
  cbn [set_kid]. apply nok_Nd. split; [ exact Hl | apply Forall_set_nth; assumption ].
Qed.
Lemma nok_set_docs n d : nok n -> nok (set_docs n d).
Proof. destruct n. intros H. apply nok_Nd in H. cbn [set_docs]. apply nok_Nd. exact H. Qed.

Lemma nok_n_ident p name : gp p -> nok (n_ident p name).
Proof. intros H. apply nok_mk; [ constructor; [ exact H | constructor ] | discriminate | constructor ]. Qed.
Lemma nok_n_basic p k v : gp p -> nok (n_basic p k v).
Proof. intros H. apply nok_mk; [ constructor; [ exact H | constructor ] | discriminate | constructor ]. Qed.
Lemma nok_n_strlit p v : gp p -> nok (n_strlit p v).
Proof. intros H. apply nok_mk; [ constructor; [ exact H | constructor ] | discriminate | constructor ]. Qed.

Lemma nok_n_field names typ tg c :
  Forall nok names -> nok typ -> onok tg -> nok (n_field names typ tg c).
Proof.
  intros Hn Ht Hg. apply nok_mkd; [ constructor | discriminate | ].
  constructor; [ apply nok_nlist, Hn | constructor; [ exact Ht | constructor; [ apply nok_nopt, Hg | constructor ] ] ].
Qed.
Lemma nok_field_of typ : nok typ -> nok (field_of OPS typ).
Proof. intros H. apply nok_n_field; [ constructor | exact H | exact I ]. Qed.
Lemma Forall_map_field_of ids :
  Forall nok ids -> Forall nok (map (fun id => field_of OPS id) ids).
Proof. intros H. induction H; cbn [map]; constructor; [ apply nok_field_of; assumption | assumption ]. Qed.

Lemma nok_n_fieldlist_some a b l : gp a -> gp b -> Forall nok l -> nok (n_fieldlist (Some (a, b)) l).
Proof.
  intros Ha Hb Hl. apply nok_mk; [ | discriminate | exact Hl ].
  constructor; [ exact Ha | constructor; [ exact Hb | constructor ] ].
Qed.
Lemma nok_n_fieldlist_none l : Forall nok l -> nok (n_fieldlist None l).
Proof. intros Hl. apply nok_mk; [ constructor | discriminate | exact Hl ]. Qed.
Lemma nok_empty_fieldlist : nok (@empty_fieldlist A C).
Proof. apply nok_n_fieldlist_none. constructor. Qed.

Lemma nok_n_operation p o x y : gp p -> nok x -> onok y -> nok (n_operation p o x y).
Proof.
  intros Hp Hx Hy. apply nok_mk; [ constructor; [ exact Hp | constructor ] | discriminate | ].
  constructor; [ exact Hx | constructor; [ apply nok_nopt, Hy | constructor ] ].
Qed.
Lemma nok_n_functype_some a tp params result :
  gp a -> nok tp -> nok params -> nok result -> nok (n_functype (Some a) tp params result).
Proof.
  intros Ha H1 H2 H3. apply nok_mk; [ constructor; [ exact Ha | constructor ] | discriminate | ].
  repeat (constructor; try assumption).
Qed.
Lemma nok_n_functype_none tp params result :
  nok tp -> nok params -> nok result -> nok (n_functype None tp params result).
Proof.
  intros H1 H2 H3. apply nok_mk; [ constructor | discriminate | ].
  repeat (constructor; try assumption).
Qed.

Lemma Forall_snoc1 X (P : X -> Prop) l x : Forall P l -> P x -> Forall P (l ++ [x]).
Proof. intros H1 H2. apply Forall_app. split; [ exact H1 | constructor; [ exact H2 | constructor ] ]. Qed.
Lemma Forall_app2 X (P : X -> Prop) l1 l2 : Forall P l1 -> Forall P l2 -> Forall P (l1 ++ l2).
Proof. intros H1 H2. apply Forall_app. split; assumption. Qed.

Lemma pop_last_Forall X (P : X -> Prop) (l r : list X) x :
  pop_last l = Some (r, x) -> Forall P l -> Forall P r /\ P x.
Proof.
  unfold pop_last. intros H Hl. apply Forall_rev in Hl. destruct (rev l) as [|y q]; [ discriminate | ].
  injection H as <- <-. inversion Hl as [|? ? Hy Hq]; subst. split; [ apply Forall_rev, Hq | exact Hy ].
Qed.

Lemma Forall_flat_opt (l : list (option nodeT)) :
  Forall onok l ->
  Forall nok (flat_map (fun o : option nodeT => match o with Some e => [e] | None => [] end) l).
Proof.
  intros H. induction H as [|o l Ho Hl IH]; cbn [flat_map]; [ constructor | ].
  apply Forall_app2; [ | exact IH ]. destruct o; [ constructor; [ exact Ho | constructor ] | constructor ].
Qed.

Lemma nth_error_onok (l : list nodeT) i : Forall nok l -> onok (nth_error l i).
Proof.
  intros H. destruct (nth_error l i) as [n|] eqn:Hn; [ | exact I ]. cbn.
  apply nth_error_In in Hn. rewrite Forall_forall in H. apply H, Hn.
Qed.

Lemma gp_ps_cons n p l : nok n -> n_ps n = p :: l -> gp p.
Proof. intros H Hp. apply nok_ps in H. rewrite Hp in H. inversion H; assumption. Qed.

(* Expression::pos() is a position of the tree *)
Fixpoint expr_pos_gp (n : nodeT) : forall p, nok n -> expr_pos n = Some p -> gp p.
Proof.
  destruct n as [t ps ats d ks]. intros p H Hp. apply nok_Nd in H. destruct H as [[Hps _] Hks].
  assert (Hown : match ps with q :: _ => Some q | [] => None end = Some p -> gp p).
  { destruct ps as [|q ps]; [ discriminate | ]. intros [= <-]. inversion Hps; assumption. }
  assert (Hfirst : match ks with k :: _ => expr_pos k | [] => None end = Some p -> gp p).
  { destruct ks as [|k ks]; [ discriminate | ]. inversion Hks as [|? ? Hk _]; subst.
    apply expr_pos_gp, Hk. }
  destruct t; cbn [expr_pos] in Hp; try (exact (Hown Hp)); try (exact (Hfirst Hp)); try discriminate.
  (* GFuncLit *)
  destruct ks as [|[t1 [|q ps1] ats1 d1 ks1] ks]; try discriminate.
  injection Hp as <-. inversion Hks as [|? ? Hk _]; subst. apply nok_ps in Hk. inversion Hk; assumption.
Qed.

Lemma fieldlist_pos_gp (fl : nodeT) p : nok fl -> fieldlist_pos fl = Some p -> gp p.
Proof.
  intros H. unfold fieldlist_pos. destruct (n_ps fl) as [|q ps] eqn:Hps.
  - pose proof (nok_kids _ H) as Hk. destruct (n_kids fl) as [|f fs]; [ discriminate | ].
    inversion Hk as [|? ? Hf _]; subst.
    pose proof (nok_kids _ (nok_kid f 0 Hf)) as Hn.
    destruct (n_kids (kid f 0)) as [|nm nms].
    + apply expr_pos_gp, nok_kid, Hf.
    + inversion Hn as [|? ? Hnm _]; subst. destruct (n_ps nm) as [|q ps] eqn:Hq; [ discriminate | ].
      intros [= <-]. eapply gp_ps_cons; eassumption.
  - intros [= <-]. eapply gp_ps_cons; eassumption.
Qed.

(* reset_chan_arrow: the new tree is well formed again, or the error is *)
Fixpoint reset_chan_arrow_ok (typ : nodeT) :
  forall pos, nok typ -> n_tag typ = GTypeChannel -> arrow_at pos ->
  match reset_chan_arrow E pos typ with inl t => nok t | inr e => errok e end.
Proof.
  destruct typ as [t ps ats d ks]. intros pos H Ht Hpos. cbn [n_tag] in Ht. subst t.
  apply nok_Nd in H. destruct H as [[Hps Hch] Hks]. specialize (Hch eq_refl).
  cbn [reset_chan_arrow]. fold (chan_dir_of ats).
  assert (H0 : gp (nth 0 ps pos)).
  { apply Forall_nth_gen; [ exact Hps | eapply gp_tok_at, Hpos ]. }
  assert (Hnew : forall ks', Forall nok ks' -> nok (Nd GTypeChannel [nth 0 ps pos; pos] [ADir 2] d ks')).
  { intros ks' Hk'. apply nok_chan; auto. eapply gp_tok_at, Hpos. }
  assert (Hrec : chan_dir_of ats <> 0 ->
            match (match ks with
                   | inner :: rest =>
                       if is_tag GTypeChannel inner then
                         match reset_chan_arrow E (nth 1 ps pos) inner with
                         | inl inner' => inl (Nd GTypeChannel [nth 0 ps pos; pos] [ADir 2] d (inner' :: rest))
                         | inr e => inr e
                         end
                       else inr (else_error_at E (nth 1 ps pos) 72)
                   | [] => inr (else_error_at E (nth 1 ps pos) 72)
                   end) with inl t => nok t | inr e => errok e end).
  { intros Hd. destruct (Hch Hd) as (p0 & p1 & -> & Ha). cbn [nth].
    assert (He : errok (else_error_at E p1 72)). { cbn. eapply gp_tok_at, Ha. }
    destruct ks as [|inner rest]; [ exact He | ].
    destruct (is_tag GTypeChannel inner) eqn:Hi; [ | exact He ].
    inversion Hks as [|? ? Hin Hrest]; subst.
    assert (Hti : n_tag inner = GTypeChannel).
    { unfold is_tag, tag_eqb in Hi. apply Nat.eqb_eq in Hi.
      destruct (n_tag inner); try discriminate Hi; reflexivity. }
    pose proof (reset_chan_arrow_ok inner p1 Hin Hti Ha) as IH.
    destruct (reset_chan_arrow E p1 inner) as [inner'|e]; [ | exact IH ].
    apply (Hnew (inner' :: rest)). constructor; assumption. }
  destruct (chan_dir_of ats) as [|[|[|n]]] eqn:Hd.
  - apply Hnew, Hks.
  - apply Hrec. discriminate.
  - destruct (Hch ltac:(discriminate)) as (p0 & p1 & -> & Ha). cbn. exact Ha.
  - apply Hrec. discriminate.
Qed.

(* ------------------------------------------------------------------ states *)

Definition cur_ok (s : pstate) : Prop :=
  match s_cur s with
  | Some (p, t) => exists g, In (SE p (s_spos s) t g) whole
  | None => eofpos (s_spos s)
  end.

Definition JE (s : pstate) : Prop :=
  suffix_of (s_rest s) whole /\ suffix_of (s_mark s) whole /\ s_term s = term.
Definition J (s : pstate) : Prop := JE s /\ cur_ok s.

Lemma J_JE s : J s -> JE s.
Proof. intros [H _]. exact H. Qed.
Lemma J_JE_taken s : J s -> JE (upd_cur s None).
Proof. intros [H _]. exact H. Qed.
Lemma JE_upd_cur s : JE s -> JE (upd_cur s None).
Proof. exact (fun H => H). Qed.
Lemma JE_upd_level s a b : JE s -> JE (upd_level s a b).
Proof. exact (fun H => H). Qed.
Lemma JE_dec_level s : JE s -> JE (dec_level s).
Proof. exact (fun H => H). Qed.
Lemma JE_upd_depth s n : JE s -> JE (upd_depth s n).
Proof. exact (fun H => H). Qed.
Lemma J_upd_level s a b : J s -> J (upd_level s a b).
Proof. exact (fun H => H). Qed.
Lemma J_dec_level s : J s -> J (dec_level s).
Proof. exact (fun H => H). Qed.
Lemma J_reset_level s : J s -> J (reset_level s).
Proof. exact (fun H => H). Qed.
Lemma J_upd_depth s n : J s -> J (upd_depth s n).
Proof. exact (fun H => H). Qed.
Lemma J_drain s c s' : drain OPS s = (c, s') -> J s -> J s'.
Proof. unfold drain. destruct (d_drain OPS (s_d s)). intros [= _ <-] H. exact H. Qed.

Lemma J_cur s p t : J s -> s_cur s = Some (p, t) -> tok_at p t.
Proof. intros [_ H] Hc. unfold cur_ok in H. rewrite Hc in H. destruct H as [g H]. exists (s_spos s), g. exact H. Qed.
Lemma J_cur_gp s p t : J s -> s_cur s = Some (p, t) -> gp p.
Proof. intros H Hc. eapply gp_tok_at, J_cur; eassumption. Qed.
Lemma J_none s : J s -> s_cur s = None -> eofpos (s_spos s).
Proof. intros [_ H] Hc. unfold cur_ok in H. rewrite Hc in H. exact H. Qed.
Lemma J_cur_pos s : J s -> gp (cur_pos s).
Proof.
  intros H. unfold cur_pos. destruct (s_cur s) as [[p t]|] eqn:Hc.
  - eapply J_cur_gp; eassumption.
  - right. apply J_none; assumption.
Qed.
Lemma J_endp s : J s -> endp (s_spos s).
Proof.
  intros [_ H]. unfold cur_ok in H. destruct (s_cur s) as [[p t]|].
  - destruct H as [g H]. left. exists p, t, g. exact H.
  - right. exact H.
Qed.

Lemma cur_is_op_at s o : J s -> cur_is s (KOp o) = true -> tok_at (cur_pos s) (TOperator o).
Proof.
  intros H. unfold cur_is, cur_pos. destruct (s_cur s) as [[p t]|] eqn:Hc; [ | discriminate ].
  destruct t; cbn; try discriminate. intros Ho. apply op_eqb_true in Ho. subst. eapply J_cur; eassumption.
Qed.

(* the error values *)
Lemma errok_unexpected_taken s site : J s -> errok (unexpected (upd_cur s None) (s_cur s) site).
Proof.
  intros H. unfold unexpected. destruct (s_cur s) as [[p t]|] eqn:Hc; cbn.
  - eapply J_cur; eassumption.
  - apply J_none; assumption.
Qed.
Lemma errok_unexpected_some (s' : pstate) p t site : tok_at p t -> errok (unexpected s' (Some (p, t)) site).
Proof. exact (fun H => H). Qed.
Lemma errok_unexpected_none s (s' : pstate) site :
  J s -> s_cur s = None -> s_spos s' = s_spos s -> errok (unexpected s' None site).
Proof. intros H Hc Hs. cbn. rewrite Hs. apply J_none; assumption. Qed.
Lemma errok_else_error (s : pstate) site :
  site_class site = SEnd -> endp (s_spos s) -> errok (else_error s site).
Proof. intros Hc H. cbn [else_error errok]. rewrite Hc. exact H. Qed.
Lemma errok_else_error_at p site : site_class site = SNode -> gp p -> errok (else_error_at E p site).
Proof. intros Hc H. cbn [else_error_at errok]. rewrite Hc. exact H. Qed.

(* ------------------------------------------------------------------ the format *)

Definition rp {X} (V : X -> Prop) (r : res X) : Prop :=
  match r with
  | Ok x s => V x /\ J s
  | Err e s => errok e /\ JE s
  | Panic _ => True
  | Fuel => True
  end.

Lemma rp_ok X (V : X -> Prop) x s : V x -> J s -> rp V (Ok x s).
Proof. split; assumption. Qed.
Lemma rp_err X (V : X -> Prop) e s : errok e -> JE s -> rp V (@Err _ _ _ _ X e s).
Proof. split; assumption. Qed.
Lemma rp_weaken X (V V' : X -> Prop) (r : res X) :
  rp V' r -> (forall x, V' x -> V x) -> rp V r.
Proof. destruct r; cbn; auto. intros [H1 H2] H. auto. Qed.
Lemma rp_bind X Y (V' : X -> Prop) (V : Y -> Prop) (m : res X) (f : X -> pstate -> res Y) :
  rp V' m -> (forall x s, V' x -> J s -> rp V (f x s)) -> rp V (bind m f).
Proof. destruct m; cbn; auto. intros [H1 H2] H. auto. Qed.
Lemma rp_bind_ok X Y (V : Y -> Prop) (x : X) s (f : X -> pstate -> res Y) :
  rp V (f x s) -> rp V (bind (Ok x s) f).
Proof. exact (fun H => H). Qed.
Lemma rp_bind_err X Y (V : Y -> Prop) e s (f : X -> pstate -> res Y) :
  errok e -> JE s -> rp V (bind (Err e s) f).
Proof. split; assumption. Qed.
Lemma rp_bind_assoc X Y Z (V : Z -> Prop) (m : res X)
      (g : X -> pstate -> res Y) (f : Y -> pstate -> res Z) :
  rp V (bind m (fun x s => bind (g x s) f)) -> rp V (bind (bind m g) f).
Proof. destruct m; cbn; auto. Qed.
(* a [match] on a result that also looks at the Err case *)
Lemma rp_res_match X Y (V1 : X -> Prop) (V : Y -> Prop) (m : res X)
      (fo : X -> pstate -> res Y) (fe : perr -> pstate -> res Y) :
  rp V1 m ->
  (forall x s, V1 x -> J s -> rp V (fo x s)) ->
  (forall e s, errok e -> JE s -> rp V (fe e s)) ->
  rp V (match m with Ok x s => fo x s | Err e s => fe e s
                | Panic n => Panic n | Fuel => Fuel end).
Proof. destruct m; cbn; auto; intros [H1 H2] Ho He; auto. Qed.

Lemma rp_Ok_inv X (V : X -> Prop) (r : res X) x s : rp V r -> r = Ok x s -> V x /\ J s.
Proof. intros H ->. exact H. Qed.
Lemma rp_Err_inv X (V : X -> Prop) (r : res X) e s : rp V r -> r = Err e s -> errok e /\ JE s.
Proof. intros H ->. exact H. Qed.

Definition vtrue {X} (_ : X) : Prop := True.

(* ------------------------------------------------------------------ primitives *)

Lemma L_next s : JE s -> rp vtrue (next OPS s).
Proof.
  intros (Hr & Hm & Ht). unfold next.
  destruct (s_rest s) as [|[a0 a1 t g] r] eqn:Hrest; [ destruct (s_term s) as [a g|e g] eqn:Hterm | ].
  - split; [ exact I | ]. split; [ repeat split; cbn; auto using suffix_of_nil | ].
    unfold cur_ok; cbn. exists g. congruence.
  - split; [ cbn; exists g; congruence | ]. repeat split; cbn; auto using suffix_of_nil.
  - split; [ exact I | ]. split; [ repeat split; cbn; eauto using suffix_of_tail | ].
    unfold cur_ok; cbn. exists g. eapply suffix_of_head_in, Hr.
Qed.

Lemma L_next_J s : J s -> rp vtrue (next OPS s).
Proof. intros H. apply L_next, J_JE, H. Qed.
Lemma L_take_next s : J s -> rp vtrue (next OPS (upd_cur s None)).
Proof. intros H. apply L_next, J_JE_taken, H. Qed.

Lemma L_goback s0 s : J s0 -> JE s -> rp vtrue (goback OPS (preback s0) s).
Proof.
  intros [(_ & Hm0 & _) _] (Hr & Hm & Ht). unfold goback, preback.
  destruct (s_mark s0) as [|[a0 a1 t g] r] eqn:Hmark; [ destruct (s_term s) as [a g|e g] eqn:Hterm | ].
  - split; [ exact I | ]. split; [ repeat split; cbn; auto using suffix_of_nil | ].
    unfold cur_ok; cbn. exists g. congruence.
  - exact I.
  - split; [ exact I | ]. split; [ repeat split; cbn; eauto using suffix_of_tail | ].
    unfold cur_ok; cbn. exists g. eapply suffix_of_head_in, Hm0.
Qed.

Lemma L_line_end c s : J s -> rp vtrue (line_end_comment OPS c s).
Proof.
  intros H. unfold line_end_comment. destruct (negb _); [ split; [ exact I | exact H ] | ].
  destruct H as [(Hr & Hm & Ht) _].
  destruct (s_rest s) as [|[a0 a1 t g] r] eqn:Hrest; [ destruct (s_term s) as [a g|e g] eqn:Hterm | ];
    try destruct (d_line_end _ _ _ _ _ _) as [[c' g'] d'].
  - split; [ exact I | ]. split; [ repeat split; cbn; auto using suffix_of_nil | ].
    unfold cur_ok; cbn. exists g. congruence.
  - split; [ cbn; exists g; congruence | ]. repeat split; cbn; auto using suffix_of_nil.
  - split; [ exact I | ]. split; [ repeat split; cbn; eauto using suffix_of_tail | ].
    unfold cur_ok; cbn. exists g. eapply suffix_of_head_in, Hr.
Qed.

Lemma L_inc_level s site : site_class site = SEnd -> J s -> rp vtrue (inc_level s site).
Proof.
  intros Hc H. unfold inc_level. cbv zeta. destruct (_ <=? _).
  - split; [ apply errok_else_error; [ exact Hc | apply J_endp, H ] | apply J_JE, H ].
  - split; [ exact I | exact H ].
Qed.

Lemma L_cur_tok s site : site_class site = SEnd -> J s -> rp vtrue (cur_tok s site).
Proof.
  intros Hc H. unfold cur_tok. destruct (s_cur s) as [[p t]|].
  - split; [ exact I | exact H ].
  - split; [ apply errok_else_error; [ exact Hc | apply J_endp, H ] | apply J_JE, H ].
Qed.

(* expect returns the position of a token of the expected kind *)
Definition V_expect (k : tkind) (p : A) : Prop := exists t, tok_at p t /\ tok_is t k = true.

Lemma L_expect k site s : J s -> rp (V_expect k) (expect OPS k site s).
Proof.
  intros H. unfold expect. cbv zeta. pose proof (errok_unexpected_taken s site H) as He.
  destruct (s_cur s) as [[p t]|] eqn:Hc.
  - destruct (tok_is t k) eqn:Hk.
    + pose proof (L_take_next s H) as Hn. destruct (next OPS (upd_cur s None)); cbn [rp bind] in *; auto.
      destruct Hn as [_ Hn]. split; [ | exact Hn ]. exists t. split; [ exact (J_cur _ _ _ H Hc) | exact Hk ].
    + split; [ exact He | apply J_JE_taken, H ].
  - split; [ exact He | apply J_JE_taken, H ].
Qed.

Lemma V_expect_gp k p : V_expect k p -> gp p.
Proof. intros (t & H & _). eapply gp_tok_at, H. Qed.
Lemma V_expect_op o p : V_expect (KOp o) p -> tok_at p (TOperator o).
Proof.
  intros (t & H & Hk). destruct t; cbn in Hk; try discriminate. apply op_eqb_true in Hk. subst. exact H.
Qed.
Lemma V_expect_kw k p : V_expect (KKw k) p -> tok_at p (TKeyword k).
Proof.
  intros (t & H & Hk). destruct t; cbn in Hk; try discriminate. apply kw_eqb_true in Hk. subst. exact H.
Qed.

(* skipped tells whether the token was there *)
Lemma L_skipped k s : J s -> rp (fun b : bool => b = true -> cur_is s k = true) (skipped OPS k s).
Proof.
  intros H. unfold skipped. destruct (cur_is s k) eqn:Hc.
  - pose proof (L_next_J s H) as Hn. destruct (next OPS s); cbn [rp bind] in *; auto.
    destruct Hn as [_ Hn]. split; [ reflexivity | exact Hn ].
  - split; [ discriminate | exact H ].
Qed.

Lemma L_nested X (V : X -> Prop) site (f : pstate -> res X) :
  site_class site = SEnd ->
  (forall s, J s -> rp V (f s)) -> forall s, J s -> rp V (nested site f s).
Proof.
  intros Hc Hf s H. unfold nested. cbv zeta. cbn [s_depth upd_depth].
  destruct (S MAX_NESTING <=? S (s_depth s)).
  - split; [ apply errok_else_error; [ exact Hc | apply J_endp, H ] | apply J_JE, H ].
  - pose proof (Hf (upd_depth s (S (s_depth s))) (J_upd_depth _ _ H)) as Hb.
    destruct (f (upd_depth s (S (s_depth s)))); cbn [rp] in *; auto.
Qed.

End ErrPos.

Arguments tok_at {A G} whole p t.
Arguments tokstart {A G} whole p.
Arguments tokend {A G} whole p.
Arguments eofpos {A G E} term p.
Arguments gp {A G E} whole term p.
Arguments endp {A G E} whole term p.
Arguments errok {A G D C E} OPS whole term e.
Arguments arrow_at {A G} whole p.
Arguments nok {A G C E} whole term n.
Arguments onok {A G C E} whole term o.
Arguments J {A G D E} whole term s.
Arguments JE {A G D E} whole term s.
Arguments rp {A G D C E} OPS whole term {X} V r.
Arguments V_expect {A G} whole k p.
Arguments vtrue {X} _.

(* ------------------------------------------------------------------ more facts used by the tactics *)

Section Facts.
Variables (A G D C E : Type) (OPS : ops A G D C).
Notation pstate := (Core.pstate A G D E).
Notation selem := (Core.selem A G).
Notation sterm := (Core.sterm A G E).
Variable whole : list selem.
Variable term : sterm.

Lemma gp_nth ps (d : A) i : Forall (gp whole term) ps -> gp whole term d -> gp whole term (nth i ps d).
Proof. apply Forall_nth_gen. Qed.

Lemma J_endp_taken (s : pstate) : J whole term s -> endp whole term (s_spos (upd_cur s None)).
Proof. apply J_endp. Qed.

Lemma errok_unexpected_none_taken (s : pstate) site :
  J whole term s -> s_cur s = None ->
  errok OPS whole term (unexpected (upd_cur s None) None site).
Proof. intros H Hc. eapply errok_unexpected_none; [ exact H | exact Hc | reflexivity ]. Qed.

(* for proof search: the premise that determines the state / node comes first *)
Lemma errok_unexpected_cur (s s' : pstate) p t site :
  s_cur s = Some (p, t) -> J whole term s ->
  errok OPS whole term (unexpected s' (Some (p, t)) site).
Proof. intros Hc H. cbn. eapply J_cur; eassumption. Qed.
Lemma cur_gp (s : pstate) p t : s_cur s = Some (p, t) -> J whole term s -> gp whole term p.
Proof. intros Hc H. eapply J_cur_gp; eassumption. Qed.
Lemma ps_cons_gp (n : node A C) p l : n_ps n = p :: l -> nok whole term n -> gp whole term p.
Proof. intros Hc H. eapply gp_ps_cons; eassumption. Qed.
Lemma expr_pos_gp' (n : node A C) p : expr_pos n = Some p -> nok whole term n -> gp whole term p.
Proof. intros Hc H. eapply expr_pos_gp; eassumption. Qed.
Lemma fieldlist_pos_gp' (n : node A C) p :
  fieldlist_pos n = Some p -> nok whole term n -> gp whole term p.
Proof. intros Hc H. eapply fieldlist_pos_gp; eassumption. Qed.

Lemma errok_plus2 (is_go : bool) pos :
  V_expect whole (KKw (if is_go then KGo else KDefer)) pos ->
  errok OPS whole term (else_error_at E (a_plus2 OPS pos) 84).
Proof.
  intros H. apply V_expect_kw in H. cbn. exists pos. split; [ | reflexivity ].
  destruct is_go; [ left | right ]; exact H.
Qed.

Lemma onok_Some (n : node A C) : nok whole term n -> onok whole term (Some n).
Proof. exact (fun H => H). Qed.
Lemma onok_None : onok whole term (@None (node A C)).
Proof. exact I. Qed.

End Facts.

(* ------------------------------------------------------------------ hints and tactics *)

(* [eposv]: atomic facts about positions, values and states;
   [epose]: error values;
   [epos]:  the specifications of the productions (one L_ lemma each); their
            premises are solved by the deterministic tactics below *)
Create HintDb eposv discriminated.
Create HintDb epose discriminated.
Create HintDb epos discriminated.

#[export] Hint Resolve J_JE J_JE_taken JE_upd_cur JE_upd_level JE_dec_level JE_upd_depth
  J_upd_level J_dec_level J_reset_level J_upd_depth J_drain : eposv.
#[export] Hint Resolve V_expect_gp cur_gp J_cur_pos ps_cons_gp gp_nth expr_pos_gp' fieldlist_pos_gp'
  nok_ps nok_kids nth_error_onok nok_kid : eposv.
#[export] Hint Resolve errok_unexpected_taken errok_unexpected_none_taken errok_unexpected_cur
  errok_else_error errok_else_error_at errok_plus2 J_endp J_endp_taken : epose.
#[export] Hint Extern 1 (site_class _ = _) => reflexivity : epose.
#[export] Hint Extern 1 (site_class _ = _) => reflexivity : epos.
#[export] Hint Resolve L_next_J L_take_next L_goback L_line_end L_inc_level L_cur_tok L_expect
  L_skipped : epos.

(* clean up what a call left in the context *)
Ltac vclean :=
  cbv beta in *; cbn [fst snd] in *;
  repeat match goal with
         | H : _ /\ _ |- _ => destruct H
         | H : vtrue _ |- _ => clear H
         | H : True |- _ => clear H
         | H : onok _ _ (Some _) |- _ => cbn [onok] in H
         | H : onok _ _ None |- _ => clear H
         | H : true = true -> _ |- _ => specialize (H eq_refl)
         | H : false = true -> _ |- _ => clear H
         | H : Forall _ (_ :: _) |- _ => apply Forall_cons_iff in H
         | H : Forall _ [] |- _ => clear H
         | Hp : pop_last ?l = Some _, Hl : Forall _ ?l |- _ =>
             eapply pop_last_Forall in Hp; [ | exact Hl ]
         end.

Ltac not_chan :=
  let HH := fresh "HH" in
  intro HH;
  repeat match type of HH with
         | context [if ?b then _ else _] => is_var b; destruct b
         | context [decl_tag ?k] => is_var k; destruct k
         end;
  discriminate HH.

Ltac vatom := solve [ eassumption | eauto 5 with eposv ].

(* facts about values: follow the structure of the value *)
Ltac vgo :=
  lazymatch goal with
  | |- True => exact I
  | |- vtrue _ => exact I
  | |- _ /\ _ => split; vgo
  | |- _ <> GTypeChannel => not_chan
  | |- onok _ _ (Some _) => cbn [onok]; vgo
  | |- onok _ _ None => exact I
  | |- Forall _ [] => constructor
  | |- Forall _ (_ :: _) => constructor; vgo
  | |- Forall _ (_ ++ _) => apply Forall_app2; vgo
  | |- Forall _ (map (fun id => field_of _ id) _) => apply Forall_map_field_of; vgo
  | |- Forall _ (flat_map _ _) => apply Forall_flat_opt; vgo
  | |- Forall _ (if ?b then _ else _) => destruct b; vgo
  | |- Forall _ (match ?o with Some _ => _ | None => _ end) => destruct o; vclean; vgo
  | |- nok _ _ (if ?b then _ else _) => destruct b; vgo
  | |- nok _ _ (mk _ _ _ _) => apply nok_mk; vgo
  | |- nok _ _ (Nd _ _ _ _ _) => apply nok_build; vgo
  | |- nok _ _ (mkd _ _ _ _ _) => apply nok_mkd; vgo
  | |- nok _ _ nnone => apply nok_nnone
  | |- nok _ _ (nlist _) => apply nok_nlist; vgo
  | |- nok _ _ (nopt _) => apply nok_nopt; vgo
  | |- nok _ _ (npos _) => apply nok_npos; vgo
  | |- nok _ _ (set_kid _ _ _) => apply nok_set_kid; vgo
  | |- nok _ _ (set_docs _ _) => apply nok_set_docs; vgo
  | |- nok _ _ (n_ident _ _) => apply nok_n_ident; vgo
  | |- nok _ _ (n_basic _ _ _) => apply nok_n_basic; vgo
  | |- nok _ _ (n_strlit _ _) => apply nok_n_strlit; vgo
  | |- nok _ _ (n_field _ _ _ _) => apply nok_n_field; vgo
  | |- nok _ _ (field_of _ _) => apply nok_field_of; vgo
  | |- nok _ _ (n_fieldlist (Some (_, _)) _) => apply nok_n_fieldlist_some; vgo
  | |- nok _ _ (n_fieldlist None _) => apply nok_n_fieldlist_none; vgo
  | |- nok _ _ empty_fieldlist => apply nok_empty_fieldlist
  | |- nok _ _ (n_operation _ _ _ _) => apply nok_n_operation; vgo
  | |- nok _ _ (n_functype (Some _) _ _ _) => apply nok_n_functype_some; vgo
  | |- nok _ _ (n_functype None _ _ _) => apply nok_n_functype_none; vgo
  | |- _ => vatom
  end.

Ltac vsolve := vclean; cbv beta; cbn [fst snd]; solve [ vgo ].

Ltac jsolve := solve [ eassumption | eauto 5 with eposv ].
Ltac esolve := solve [ eauto 5 with epose eposv ].

(* the premises of an L_ lemma *)
#[export] Hint Extern 1 (nok _ _ _) => solve [ vgo ] : epos.
#[export] Hint Extern 1 (onok _ _ _) => solve [ vgo ] : epos.
#[export] Hint Extern 1 (Forall _ _) => solve [ vgo ] : epos.
#[export] Hint Extern 1 (J _ _ _) => jsolve : epos.
#[export] Hint Extern 1 (JE _ _ _) => jsolve : epos.

Ltac call_solve :=
  solve [ eauto 6 with epos
        | eapply rp_weaken; [ solve [ eauto 6 with epos ] | intros; vsolve ] ].

(* case analysis on [x], remembering the equation unless [x] is a variable *)
Ltac destr x := first [ is_var x; destruct x | destruct x eqn:? ]; vclean.

(* [try]: what the automation cannot do is left to the caller *)
Ltac rstep1 :=
  lazymatch goal with
  | |- rp _ _ _ _ (Ok _ _) => apply rp_ok; [ try vsolve | try jsolve ]
  | |- rp _ _ _ _ (Err _ _) => apply rp_err; [ try esolve | try jsolve ]
  | |- rp _ _ _ _ (Panic _) => exact I
  | |- rp _ _ _ _ Fuel => exact I
  | |- rp _ _ _ _ (bind (Ok _ _) _) => apply rp_bind_ok; cbv beta
  | |- rp _ _ _ _ (bind (Err _ _) _) => apply rp_bind_err; [ try esolve | try jsolve ]
  | |- rp _ _ _ _ (bind (Panic _) _) => exact I
  | |- rp _ _ _ _ (bind Fuel _) => exact I
  | |- rp _ _ _ _ (bind (bind _ _) _) => apply rp_bind_assoc; cbv beta
  | |- rp _ _ _ _ (bind (if ?b then _ else _) _) => destr b
  | |- rp _ _ _ _ (bind (match ?x with _ => _ end) _) => destr x
  | |- rp _ _ _ _ (bind _ _) => eapply rp_bind; [ call_solve | intros ? ? ? ?; vclean ]
  | |- rp _ _ _ _ (if ?b then _ else _) => destr b
  | |- rp _ _ _ _ (match ?x with _ => _ end) => destr x
  | |- rp _ _ _ _ _ => call_solve
  end.

Ltac rsteps := cbv beta zeta; repeat (rstep1; cbv beta zeta).

(* panic codes are big unary numerals: abstract them (error sites stay, their
   class is computed) *)
Ltac hide_panics :=
  repeat match goal with
         | |- context [Panic (S ?n)] =>
             let x := fresh "pcode" in set (x := S n); clearbody x
         end.

Tactic Notation "rprod" reference(f) := intros; unfold f; hide_panics; rsteps.
Tactic Notation "rloop" reference(f) ident(fuel) :=
  induction fuel; intros; [ exact I | cbn [f]; hide_panics; rsteps ].
