(* Positions name tokens, stage 2: statements. *)
From Coq Require Import List Bool Arith NArith Lia.
From GoSyn Require Import Token Tok Ast Core.
From GoSyn.proofs Require Import Lift AccountBase PosBase PosExpr.
Import ListNotations.

Section Step2.
Variables (A G D C E : Type) (OPS : ops A G D C).
Notation pstate := (Core.pstate A G D E).
Notation res := (Core.res A G D E).
Notation parsers := (Core.parsers A G D C E).
Notation selem := (Core.selem A G).
Notation nodeT := (node A C).
Variable whole : list selem.
Notation PSw := (PS (E:=E) (D:=D) whole).
Notation pgoodw := (pgood (C:=C) whole).
Notation pgoodow := (pgoodo (C:=C) whole).

Variable self : parsers.
Hypothesis HG : GoodP whole self.

Lemma P_parse_range_expr : PSw pgoodw (parse_range_expr OPS self).
Proof. qprod parse_range_expr. Qed.
Local Hint Resolve P_parse_range_expr : pos.

Lemma P_parse_simple_stmt : PSw pgoodw (parse_simple_stmt OPS self).
Proof. qprod parse_simple_stmt. Qed.
Local Hint Resolve P_parse_simple_stmt : pos.

Lemma P_stmts_until_brace : forall fuel acc,
  PSw (fun r => Forall pgoodw acc -> Forall pgoodw r) (stmts_until_brace self fuel acc).
Proof. qloop stmts_until_brace fuel. Qed.
Local Hint Resolve P_stmts_until_brace : pos.

Lemma P_block_body : PSw pgoodw (block_body OPS self).
Proof. qprod block_body. Qed.
Local Hint Resolve P_block_body : pos.

Lemma P_stmt_list_loop : forall fuel acc,
  PSw (fun r => Forall pgoodw acc -> Forall pgoodw r) (stmt_list_loop self fuel acc).
Proof. qloop stmt_list_loop fuel. Qed.
Local Hint Resolve P_stmt_list_loop : pos.

Lemma P_parse_stmt_list : PSw (Forall pgoodw) (parse_stmt_list self).
Proof. qprod parse_stmt_list. Qed.
Local Hint Resolve P_parse_stmt_list : pos.

Lemma P_parse_go_defer is_go : PSw pgoodw (parse_go_defer OPS self is_go).
Proof. qprod parse_go_defer. Qed.
Local Hint Resolve P_parse_go_defer : pos.

Lemma P_parse_return_stmt : PSw pgoodw (parse_return_stmt OPS self).
Proof. qprod parse_return_stmt. Qed.
Local Hint Resolve P_parse_return_stmt : pos.

Lemma P_parse_branch_stmt key : PSw pgoodw (parse_branch_stmt OPS key).
Proof. qprod parse_branch_stmt. Qed.
Local Hint Resolve P_parse_branch_stmt : pos.

Lemma P_parse_if_header :
  PSw (fun r => pgoodow (fst r) /\ pgoodw (snd r)) (parse_if_header OPS self).
Proof. qprod parse_if_header. Qed.
Local Hint Resolve P_parse_if_header : pos.

Lemma P_if_body : PSw pgoodw (if_body OPS self).
Proof. qprod if_body. Qed.
Local Hint Resolve P_if_body : pos.

Lemma P_case_block_loop : forall fuel ta acc,
  PSw (fun r => Forall pgoodw acc -> Forall pgoodw r) (case_block_loop OPS self fuel ta acc).
Proof. qloop case_block_loop fuel. Qed.
Local Hint Resolve P_case_block_loop : pos.

Lemma P_parse_case_block ta : PSw pgoodw (parse_case_block OPS self ta).
Proof. qprod parse_case_block. Qed.
Local Hint Resolve P_parse_case_block : pos.

Lemma P_parse_switch_stmt : PSw pgoodw (parse_switch_stmt OPS self).
Proof. qprod parse_switch_stmt. Qed.
Local Hint Resolve P_parse_switch_stmt : pos.

Lemma P_parse_comm_stmt : PSw pgoodw (parse_comm_stmt OPS self).
Proof. qprod parse_comm_stmt. Qed.
Local Hint Resolve P_parse_comm_stmt : pos.

Lemma P_comm_block_loop : forall fuel acc,
  PSw (fun r => Forall pgoodw acc -> Forall pgoodw r) (comm_block_loop OPS self fuel acc).
Proof. qloop comm_block_loop fuel. Qed.
Local Hint Resolve P_comm_block_loop : pos.

Lemma P_parse_select_stmt : PSw pgoodw (parse_select_stmt OPS self).
Proof. qprod parse_select_stmt. Qed.
Local Hint Resolve P_parse_select_stmt : pos.

(* the positions the for statement re-reads from the nodes of its header *)
Lemma own_assign_inv ps ats :
  own_ok whole GAssign ps ats ->
  exists p o rest, ps = [p] /\ ats = AOp o :: rest /\ named whole p (is_op o).
Proof.
  intros (Hl & Hn & _). cbn [own_layout] in Hl. apply andb_prop in Hl. destruct Hl as (Hl1 & Hl2).
  destruct ps as [|p [|? ?]]; try discriminate Hl1.
  unfold has_op, at_op in Hl2. destruct ats as [|[|o| | | |] rest]; try discriminate Hl2.
  exists p, o, rest. repeat split. apply Hn.
Qed.
Lemma own_range_inv ps ats :
  own_ok whole GRange ps ats -> exists p, ps = [p] /\ named whole p (is_kw KRange).
Proof.
  intros (Hl & Hn & _). cbn [own_layout] in Hl.
  destruct ps as [|p [|? ?]]; try discriminate Hl.
  exists p. split; [ reflexivity | apply Hn ].
Qed.

Lemma P_parse_for_stmt : PSw pgoodw (parse_for_stmt OPS self).
Proof.
  qprod parse_for_stmt.
  split; [ sinv_tac | ]. q_sat.
  unfold assign_is_range in E3. apply andb_prop in E3. destruct E3 as (Et & _).
  apply is_tag_true in Et. apply is_tag_true in E6.
  pose proof Hg as Hoy. apply pgood_own in Hoy. rewrite Et in Hoy.
  destruct (own_assign_inv _ _ Hoy) as (p & o & rest & Hps & Hats & Hnm).
  assert (Hn' : pgoodw n).
  { eapply (pop_last_x _ pgoodw); [ exact E5 | apply pgood_kids, pgood_kid, Hg ]. }
  pose proof Hn' as Hon. apply pgood_own in Hon. rewrite E6 in Hon.
  destruct (own_range_inv _ _ Hon) as (pr & Hpr & Hnr).
  rewrite Hps, Hats, Hpr. cbn [nth].
  assert (Hleft : Forall pgoodw (n_kids (kid y 0))) by (apply pgood_kids, pgood_kid, Hg).
  destruct (n_kids (kid y 0)) as [|a [|b l']]; pg.
Qed.
Local Hint Resolve P_parse_for_stmt : pos.

End Step2.

#[export] Hint Resolve P_parse_range_expr P_parse_simple_stmt P_stmts_until_brace P_block_body
  P_stmt_list_loop P_parse_stmt_list P_parse_go_defer P_parse_return_stmt P_parse_branch_stmt
  P_parse_if_header P_if_body P_case_block_loop P_parse_case_block P_parse_switch_stmt
  P_parse_comm_stmt P_comm_block_loop P_parse_select_stmt P_parse_for_stmt : pos.
