(* Proofs for C14 (round trip on the expression fragment of spec/Print.v):
   parsing the printing of a well-formed derivation returns the derivation.

   Architecture (generalising the closed family of PrecProofs.v): by induction
   on the derivation, with the token stream given explicitly as
   [print e ++ rst] and NO assumption on [rst] other than a follow condition,

     QP e   binary_body None prec  =  "binary_loop with x = (the tree of e),
            standing at rst"                       (no follow condition at prec)
     PP e   binary_body None prec  returns the tree of e and stands at rst
            when rst does not continue an expression at precedence prec
     UP e   k_unary, for e a UnaryExpr
     PQP e  primary_expression None  =  "primary_loop with x = (the tree of e),
            standing at rst", for e a PrimaryExpr

   The loop forms QP / PQP are what makes the left-recursive productions
   (binary operations, postfix chains) go through by structural induction. *)
From Coq Require Import List Arith NArith Lia Bool.
From GoSyn Require Import Token Tok Ast Core.
From GoSyn.spec Require Import Prec Print.
From GoSyn.proofs Require Import PrecProofs.
Import ListNotations.

(* ------------------------------------------------------------ 0. facts about the fragment *)

Lemma depth_pos : forall e, 1 <= depth e.
Proof.
  induction e; simpl; try lia.
Qed.

Lemma need_pos : forall e, 1 <= need e.
Proof.
  induction e; simpl; try lia.
Qed.

Lemma all_Forall : forall (P : exp -> Prop) l, all P l <-> Forall P l.
Proof.
  intros P l; induction l as [| a r IH]; simpl.
  - split; [constructor | exact (fun _ => I)].
  - split.
    + intros [Ha Hr]. constructor; [exact Ha | apply IH; exact Hr].
    + intro H. inversion H; subst. split; [assumption | apply IH; assumption].
Qed.

(* the first token of an expression / of a primary expression *)
Definition expr_start (t : token) : bool :=
  match t with
  | TLiteral _ _ => true
  | TOperator (OAdd | OSub | ONot | OXor | OStar | OAnd | OArrow | OParenLeft) => true
  | _ => false
  end.

Lemma unary_op_class : forall op, unary_op op -> classify_unary op <> UCNone.
Proof. intros op H; destruct op; try destruct H; discriminate. Qed.
Definition prim_start (t : token) : bool :=
  match t with
  | TLiteral _ _ => true
  | TOperator OParenLeft => true
  | _ => false
  end.

Lemma first_tok : forall e, wf e ->
  exists t l, print e = t :: l /\ expr_start t = true /\ (primary e -> prim_start t = true).
Proof.
  induction e as [name | k text | e IH | op e IH | op l IHl r IHr | f IHf args ddd | e IH name
                 | e IH i IHi | e IH idx | e IH lo hi mx];
    intro Hwf; simpl in Hwf |- *.
  - eexists _, _; repeat split.
  - eexists _, _; repeat split.
  - eexists _, _; repeat split.
  - destruct Hwf as (Hop & _ & _). eexists _, _; split; [reflexivity |]. split; [| intros []].
    destruct op; try destruct Hop; reflexivity.
  - destruct Hwf as (_ & _ & _ & Hl & _). destruct (IHl Hl) as (t & l0 & Hp & Hs & _).
    rewrite Hp. eexists _, _; split; [reflexivity |]. split; [exact Hs | intros []].
  - destruct Hwf as (Hpr & Hf & _). destruct (IHf Hf) as (t & l0 & Hp & Hs & Hq).
    rewrite Hp. eexists _, _; split; [reflexivity |]. split; [exact Hs | intros _; exact (Hq Hpr)].
  - destruct Hwf as (Hpr & He). destruct (IH He) as (t & l0 & Hp & Hs & Hq).
    rewrite Hp. eexists _, _; split; [reflexivity |]. split; [exact Hs | intros _; exact (Hq Hpr)].
  - destruct Hwf as (Hpr & He & _). destruct (IH He) as (t & l0 & Hp & Hs & Hq).
    rewrite Hp. eexists _, _; split; [reflexivity |]. split; [exact Hs | intros _; exact (Hq Hpr)].
  - destruct Hwf as (Hpr & He & _). destruct (IH He) as (t & l0 & Hp & Hs & Hq).
    rewrite Hp. eexists _, _; split; [reflexivity |]. split; [exact Hs | intros _; exact (Hq Hpr)].
  - destruct Hwf as (Hpr & He & _). destruct (IH He) as (t & l0 & Hp & Hs & Hq).
    rewrite Hp. eexists _, _; split; [reflexivity |]. split; [exact Hs | intros _; exact (Hq Hpr)].
Qed.

Lemma shape_not_chan : forall e, is_tag GTypeChannel (shape e) = false.
Proof. intro e; destruct e; reflexivity. Qed.

Lemma is_tag_erase : forall (A C : Type) t (n : node A C), is_tag t (erase n) = is_tag t n.
Proof. intros A C t n; destruct n; reflexivity. Qed.

Lemma expr_start_not : forall t, expr_start t = true ->
  tok_is t (KOp OParenRight) = false /\ tok_is t (KOp ODotDotDot) = false /\
  tok_is t (KOp OColon) = false /\ tok_is t (KOp OBarackRight) = false.
Proof.
  intros t H. destruct t as [txt | kw | op | lk txt]; simpl in H; try discriminate H;
    [| repeat split; reflexivity].
  destruct op; simpl in H; try discriminate H; repeat split; reflexivity.
Qed.

(* ------------------------------------------------------------ 1. states and token streams *)

Section RT.
Variables (A G D C E : Type).
Variable OPS : ops A G D C.
Notation nodeT := (node A C).
Notation pstateT := (pstate A G D E).
Notation selemT := (selem A G).
Notation resT := (res A G D E).
Notation parsersT := (parsers A G D C E).
Notation cur := (s_cur A G D E).
Notation srest := (s_rest A G D E).
Notation sdepth := (s_depth A G D E).
Notation lp := (s_lp A G D E).
Notation ln := (s_ln A G D E).
Notation nextT := (next A G D C E OPS).
Notation PA := (parsers_at A G D C E OPS).
Notation updcur := (upd_cur A G D E).
Notation upddepth := (upd_depth A G D E).

Notation eof_term := (@eof_term A G D E).
Notation at_toks := (@at_toks A G D E).
Notation frame := (@frame A G D E).

(* what is left to scan reads ts *)
Definition rest_toks (s : pstateT) (ts : list token) : Prop :=
  eof_term s /\ map tok_of (srest s) = ts.

Lemma frame_refl : forall s, frame s s.
Proof. intro s; split; [reflexivity | exists 0; lia]. Qed.

Lemma frame_trans : forall s1 s2 s3, frame s1 s2 -> frame s2 s3 -> frame s1 s3.
Proof.
  intros s1 s2 s3 (Hd1 & k1 & Ha1 & Hb1) (Hd2 & k2 & Ha2 & Hb2).
  split; [congruence | exists (k1 + k2); lia].
Qed.

Lemma frame_level : forall s s' n, frame s s' -> lp s + n <= ln s + 65 -> lp s' + n <= ln s' + 65.
Proof. intros s s' n (_ & k & Ha & Hb) H. lia. Qed.

Lemma frame_depth : forall s s' n m, frame s s' -> sdepth s + n <= m -> sdepth s' + n <= m.
Proof. intros s s' n m (Hd & _) H. lia. Qed.

Lemma at_toks_rest : forall s t ts, at_toks s (t :: ts) -> rest_toks (updcur s None) ts.
Proof. intros s t ts (Ht & _ & Hr). split; [exact Ht | exact Hr]. Qed.

Lemma at_toks_rest' : forall s t ts, at_toks s (t :: ts) -> rest_toks s ts.
Proof. intros s t ts (Ht & _ & Hr). split; [exact Ht | exact Hr]. Qed.

Lemma at_toks_cur : forall s t ts, at_toks s (t :: ts) -> exists p, cur s = Some (p, t).
Proof. intros s t ts (_ & Hc & _). exact Hc. Qed.

Lemma at_toks_nil : forall s, at_toks s [] -> cur s = None /\ srest s = [].
Proof. intros s (_ & H). exact H. Qed.

Lemma next_toks : forall s ts, rest_toks s ts ->
  exists s1, nextT s = Ok tt s1 /\ at_toks s1 ts /\ frame s s1.
Proof.
  intros s ts ((a & g & Ht) & Hr). unfold next.
  destruct (srest s) as [| [b0 b1 t h] r]; simpl in Hr; subst ts.
  - rewrite Ht. eexists; split; [reflexivity |]. split.
    + split; [exists a, g; reflexivity | split; reflexivity].
    + split; [reflexivity | exists 0; simpl; lia].
  - eexists; split; [reflexivity |]. split.
    + split; [exists a, g; exact Ht |]. split; [eexists; reflexivity | reflexivity].
    + split; [reflexivity | exists 0; simpl; lia].
Qed.

Lemma loop_fuel_toks : forall s ts, at_toks s ts -> length ts + 1 <= loop_fuel A G D E s.
Proof.
  intros s ts (_ & H). unfold loop_fuel. destruct ts as [| t r].
  - simpl; lia.
  - destruct H as (_ & Hr). rewrite <- Hr. simpl. rewrite map_length. lia.
Qed.

Lemma cur_is_toks : forall s t ts k, at_toks s (t :: ts) -> cur_is A G D E s k = tok_is t k.
Proof. intros s t ts k (_ & (p & Hc) & _). unfold cur_is. rewrite Hc. reflexivity. Qed.

Lemma cur_pos_toks : forall s p t, cur s = Some (p, t) -> cur_pos A G D E s = p.
Proof. intros s p t Hc. unfold cur_pos. rewrite Hc. reflexivity. Qed.

(* ---- leaf actions *)

Lemma expect_toks : forall s t ts k site, at_toks s (t :: ts) -> tok_is t k = true ->
  exists p s1, expect A G D C E OPS k site s = Ok p s1 /\ at_toks s1 ts /\ frame s s1.
Proof.
  intros s t ts k site Hat Hk. destruct (at_toks_cur _ _ _ Hat) as (p & Hc).
  destruct (next_toks _ _ (at_toks_rest _ _ _ Hat)) as (s1 & Hn & Hat1 & Hf).
  exists p, s1. split; [| split; [exact Hat1 | exact Hf]].
  unfold expect. rewrite Hc, Hk, Hn. reflexivity.
Qed.

Lemma skipped_no : forall s ts k,
  at_toks s ts -> match ts with [] => True | t :: _ => tok_is t k = false end ->
  skipped A G D C E OPS k s = Ok false s.
Proof.
  intros s ts k Hat Hk. unfold skipped. destruct ts as [| t r].
  - destruct (at_toks_nil _ Hat) as (Hc & _). unfold cur_is. rewrite Hc. reflexivity.
  - rewrite (cur_is_toks _ _ _ k Hat), Hk. reflexivity.
Qed.

Lemma skipped_yes : forall s t ts k, at_toks s (t :: ts) -> tok_is t k = true ->
  exists s1, skipped A G D C E OPS k s = Ok true s1 /\ at_toks s1 ts /\ frame s s1.
Proof.
  intros s t ts k Hat Hk.
  destruct (next_toks _ _ (at_toks_rest' _ _ _ Hat)) as (s1 & Hn & Hat1 & Hf).
  exists s1. split; [| split; [exact Hat1 | exact Hf]].
  unfold skipped. rewrite (cur_is_toks _ _ _ k Hat), Hk, Hn. reflexivity.
Qed.

Lemma identifier_toks : forall s name ts site, at_toks s (TLiteral LIdent name :: ts) ->
  exists p s1, identifier A G D C E OPS site s = Ok (n_ident A C p name) s1 /\
               at_toks s1 ts /\ frame s s1.
Proof.
  intros s name ts site Hat. destruct (at_toks_cur _ _ _ Hat) as (p & Hc).
  destruct (next_toks _ _ (at_toks_rest _ _ _ Hat)) as (s1 & Hn & Hat1 & Hf).
  exists p, s1. split; [| split; [exact Hat1 | exact Hf]].
  unfold identifier. rewrite Hc, Hn. reflexivity.
Qed.

Lemma literal_toks : forall s k v ts, at_toks s (TLiteral k v :: ts) ->
  exists p s1, literal A G D C E OPS s = Ok (n_basic A C p k v) s1 /\
               at_toks s1 ts /\ frame s s1.
Proof.
  intros s k v ts Hat. destruct (at_toks_cur _ _ _ Hat) as (p & Hc).
  destruct (next_toks _ _ (at_toks_rest _ _ _ Hat)) as (s1 & Hn & Hat1 & Hf).
  exists p, s1. split; [| split; [exact Hat1 | exact Hf]].
  unfold literal. rewrite Hc, Hn. reflexivity.
Qed.

Lemma inc_level_ok : forall s site, lp s + 1 <= ln s + 64 ->
  inc_level A G D E s site = Ok tt (upd_level A G D E s (S (lp s)) (ln s)).
Proof.
  intros s site H. unfold inc_level. cbv zeta.
  change (s_ln A G D E (upd_level A G D E s (S (lp s)) (ln s))) with (ln s).
  change (s_lp A G D E (upd_level A G D E s (S (lp s)) (ln s))) with (S (lp s)).
  destruct (ln s + S MAX_DEPTH <=? S (lp s)) eqn:Hg; [| reflexivity].
  apply Nat.leb_le in Hg. unfold MAX_DEPTH in Hg. lia.
Qed.

Lemma nested_intro : forall (X : Type) site (f : pstateT -> resT X) s x s2,
  sdepth s < MAX_NESTING ->
  f (upddepth s (S (sdepth s))) = Ok x s2 ->
  nested A G D E site f s = Ok x (upddepth s2 (pred (sdepth s2))).
Proof.
  intros X site f s x s2 Hd Hf. unfold nested. cbv zeta.
  change (sdepth (upddepth s (S (sdepth s)))) with (S (sdepth s)).
  destruct (S MAX_NESTING <=? S (sdepth s)) eqn:Hg; [apply Nat.leb_le in Hg; lia |].
  rewrite Hf. reflexivity.
Qed.

(* ---- the loops stop at a follow token *)

Lemma binary_loop_stop : forall (self : parsersT) f prec x s rst,
  at_toks s rst -> follow prec rst ->
  binary_loop A G D C E OPS self (S f) prec x s = Ok x s.
Proof.
  intros self f prec x s rst Hat Hfo. cbn [binary_loop]. destruct rst as [| t r].
  - destruct (at_toks_nil _ Hat) as (Hc & _). rewrite Hc. reflexivity.
  - destruct (at_toks_cur _ _ _ Hat) as (p & Hc). rewrite Hc.
    destruct t as [txt | kw | op | lk txt]; try reflexivity.
    destruct Hfo as (_ & Hl). specialize (Hl op eq_refl). rewrite prec_nat_level.
    destruct (prec <? level op) eqn:Hlt; [apply Nat.ltb_lt in Hlt; lia | reflexivity].
Qed.

Definition prim_follow (rst : list token) : Prop :=
  match rst with [] => True | t :: _ => postfix_tok t = false end.

Lemma primary_step_stop : forall (self : parsersT) x s rst,
  at_toks s rst -> prim_follow rst ->
  primary_step A G D C E OPS self x s = Ok None s.
Proof.
  intros self x s rst Hat Hfo. unfold primary_step. destruct rst as [| t r].
  - destruct (at_toks_nil _ Hat) as (Hc & _). rewrite Hc. reflexivity.
  - destruct (at_toks_cur _ _ _ Hat) as (p & Hc). rewrite Hc. simpl in Hfo.
    destruct t as [txt | kw | op | lk txt]; try reflexivity.
    destruct op; try reflexivity; discriminate Hfo.
Qed.

Lemma primary_loop_stop : forall (self : parsersT) f x s rst,
  at_toks s rst -> prim_follow rst ->
  primary_loop A G D C E OPS self (S f) x s = Ok x s.
Proof.
  intros self f x s rst Hat Hfo. cbn [primary_loop].
  rewrite (primary_step_stop self x s rst Hat Hfo). reflexivity.
Qed.


(* ------------------------------------------------------------ 2. the contracts *)

Notation erase := (@erase A C).
Notation PNL := (parse_next_level_expr A G D C E).
Notation BB := (binary_body A G D C E OPS).
Notation BL := (binary_loop A G D C E OPS).
Notation PE := (primary_expression A G D C E OPS).
Notation PL := (primary_loop A G D C E OPS).
Notation KU := (k_unary A G D C E).

(* what may follow e when e is going to be the LEFT operand of whatever comes next *)
Definition inner_follow (e : exp) (rst : list token) : Prop :=
  match rst with
  | [] => True
  | t :: _ => postfix_tok t = false /\ forall op, t = TOperator op -> at_least (level op) e
  end.

Definition QP (e : exp) : Prop := forall d prec s rst,
  need e <= d -> tighter_than prec e -> at_toks s (print e ++ rst) -> inner_follow e rst ->
  sdepth s + depth e <= MAX_NESTING -> lp s + depth e <= ln s + 65 ->
  exists n s1 fuel1,
    erase n = shape e /\ at_toks s1 rst /\ frame s s1 /\ length rst + 1 <= fuel1 /\
    BB (PA d) None prec s = BL (PA d) fuel1 prec n s1.

Definition PP (e : exp) : Prop := forall d prec s rst,
  need e <= d -> tighter_than prec e -> at_toks s (print e ++ rst) -> follow prec rst ->
  sdepth s + depth e <= MAX_NESTING -> lp s + depth e <= ln s + 65 ->
  exists n s1,
    BB (PA d) None prec s = Ok n s1 /\ erase n = shape e /\ at_toks s1 rst /\ frame s s1.

(* an expression one level deeper: "(" e ")", call arguments, index *)
Definition PNLP (e : exp) : Prop := forall d s rst,
  need e + 2 <= d -> at_toks s (print e ++ rst) -> follow 0 rst ->
  sdepth s + depth e <= MAX_NESTING -> lp s + 1 + depth e <= ln s + 65 ->
  exists n s1,
    PNL (PA d) s = Ok n s1 /\ erase n = shape e /\ at_toks s1 rst /\ frame s s1.

Definition UP (e : exp) : Prop := unary_level e -> forall d s rst,
  need e <= d -> at_toks s (print e ++ rst) -> prim_follow rst ->
  sdepth s + depth e <= MAX_NESTING -> lp s + depth e <= ln s + 65 ->
  exists n s1,
    KU (PA d) s = Ok n s1 /\ erase n = shape e /\ at_toks s1 rst /\ frame s s1.

Definition PQP (e : exp) : Prop := primary e -> forall d s rst,
  need e <= S d -> at_toks s (print e ++ rst) ->
  sdepth s + depth e <= S MAX_NESTING -> lp s + depth e <= ln s + 65 ->
  exists n s1 fuel1,
    erase n = shape e /\ at_toks s1 rst /\ frame s s1 /\ length rst + 1 <= fuel1 /\
    PE (PA d) None s = PL (PA d) fuel1 n s1.

Lemma follow_inner : forall e prec rst,
  tighter_than prec e -> follow prec rst -> inner_follow e rst.
Proof.
  intros e prec rst Ht Hf. destruct rst as [| t r]; [exact I |].
  destruct Hf as (Hp & Hl). split; [exact Hp |]. intros op Ho. specialize (Hl op Ho).
  destruct e; simpl in *; try exact I. lia.
Qed.

Lemma inner_follow_prim : forall e rst, inner_follow e rst -> prim_follow rst.
Proof. intros e rst H. destruct rst; [exact I | exact (proj1 H)]. Qed.

Lemma QP_PP : forall e, QP e -> PP e.
Proof.
  intros e HQ d prec s rst Hd Htt Hat Hfo Hdep Hlev.
  destruct (HQ d prec s rst Hd Htt Hat (follow_inner e prec rst Htt Hfo) Hdep Hlev)
    as (n & s1 & fuel1 & He & Hat1 & Hf & Hfu & Heq).
  exists n, s1. split; [| split; [exact He | split; [exact Hat1 | exact Hf]]].
  rewrite Heq. destruct fuel1 as [| f]; [lia |].
  apply (binary_loop_stop (PA d) f prec n s1 rst Hat1 Hfo).
Qed.

Lemma wf_tighter0 : forall e, wf e -> tighter_than 0 e.
Proof. intros e H. destruct e; simpl in *; try exact I. destruct H as (Hb & _). exact Hb. Qed.

Lemma PP_PNLP : forall e, wf e -> PP e -> PNLP e.
Proof.
  intros e Hwf HP d s rst Hd Hat Hfo Hdep Hlev. pose proof (depth_pos e) as Hdp.
  unfold parse_next_level_expr. rewrite (inc_level_ok s 10) by lia. cbn [bind].
  destruct d as [| [| d0]]; try lia.
  set (s0 := upd_level A G D E s (S (lp s)) (ln s)).
  change (k_expr A G D C E (PA (S (S d0))) s0) with (BB (PA d0) None 0 s0).
  destruct (HP d0 0 s0 rst) as (n & s1 & Hk & He & Hat1 & Hf); try assumption.
  - lia.
  - apply wf_tighter0; exact Hwf.
  - change (lp s0) with (S (lp s)). change (ln s0) with (ln s). lia.
  - rewrite Hk. exists n, (dec_level A G D E s1).
    split; [reflexivity |]. split; [exact He |]. split; [exact Hat1 |].
    destruct Hf as (Hd1 & k & Ha & Hb). split; [exact Hd1 |]. exists (S k).
    change (lp (dec_level A G D E s1)) with (lp s1).
    change (ln (dec_level A G D E s1)) with (S (ln s1)).
    change (lp s0) with (S (lp s)) in Ha. change (ln s0) with (ln s) in Hb. lia.
Qed.

Lemma UP_QP : forall e, unary_level e -> UP e -> QP e.
Proof.
  intros e Hul HU d prec s rst Hd _ Hat Hfo Hdep Hlev.
  destruct (HU Hul d s rst Hd Hat (inner_follow_prim e rst Hfo) Hdep Hlev)
    as (n & s1 & Hk & He & Hat1 & Hf).
  exists n, s1, (loop_fuel A G D E s1).
  split; [exact He |]. split; [exact Hat1 |]. split; [exact Hf |].
  split; [apply loop_fuel_toks; exact Hat1 |].
  unfold binary_body. rewrite Hk. reflexivity.
Qed.

Lemma unary_body_primary : forall (self : parsersT) s t ts,
  at_toks s (t :: ts) -> prim_start t = true ->
  unary_body A G D C E OPS self s = PE self None s.
Proof.
  intros self s t ts Hat Hp. destruct (at_toks_cur _ _ _ Hat) as (p & Hc).
  unfold unary_body. rewrite Hc.
  destruct t as [txt | kw | op | lk txt]; simpl in Hp; try discriminate Hp; [| reflexivity].
  destruct op; try discriminate Hp. reflexivity.
Qed.

Lemma PQP_UP : forall e, wf e -> primary e -> PQP e -> UP e.
Proof.
  intros e Hwf Hpr HPQ _ d s rst Hd Hat Hfo Hdep Hlev.
  pose proof (need_pos e) as Hnp. pose proof (depth_pos e) as Hdp.
  destruct d as [| d0]; [lia |].
  change (KU (PA (S d0)) s) with (nested A G D E 141 (unary_body A G D C E OPS (PA d0)) s).
  set (s0 := upddepth s (S (sdepth s))).
  destruct (HPQ Hpr d0 s0 rst Hd Hat) as (n & s1 & fuel1 & He & Hat1 & Hf & Hfu & Heq).
  { change (sdepth s0) with (S (sdepth s)). lia. }
  { exact Hlev. }
  destruct (first_tok e Hwf) as (t & l0 & Hpe & _ & Hps). specialize (Hps Hpr).
  assert (Hub : unary_body A G D C E OPS (PA d0) s0 = Ok n s1).
  { rewrite Hpe in Hat. simpl in Hat.
    rewrite (unary_body_primary (PA d0) s0 t _ Hat Hps), Heq.
    destruct fuel1 as [| f]; [lia |].
    apply (primary_loop_stop (PA d0) f n s1 rst Hat1 Hfo). }
  exists n, (upddepth s1 (pred (sdepth s1))).
  split; [apply nested_intro; [lia | exact Hub] |].
  split; [exact He |]. split; [exact Hat1 |].
  destruct Hf as (Hd1 & k & Ha & Hb). split.
  - change (sdepth (upddepth s1 (pred (sdepth s1)))) with (pred (sdepth s1)).
    rewrite Hd1. reflexivity.
  - exists k. split; [exact Ha | exact Hb].
Qed.

(* ------------------------------------------------------------ 3. the productions *)

Lemma binop_not_postfix : forall op, is_binary_op op -> postfix_tok (tk op) = false.
Proof.
  intros op H. unfold is_binary_op in H.
  destruct op; try reflexivity; vm_compute in H; lia.
Qed.

Lemma Q_binary : forall op l r, wf (EBinary op l r) -> QP l -> QP r -> QP (EBinary op l r).
Proof.
  intros op l r (Hop & Hal & Htr & Hwl & Hwr) HQl HQr d prec s rst Hd Htt Hat Hfo Hdep Hlev.
  simpl in Hd, Htt, Hat, Hdep, Hlev.
  rewrite <- app_assoc in Hat. simpl in Hat.
  destruct (HQl d prec s (tk op :: print r ++ rst))
    as (nl & s1 & fuel1 & Hel & Hat1 & Hf1 & Hfu1 & Heq1).
  - lia.
  - destruct l; simpl in *; try exact I; lia.
  - exact Hat.
  - split; [apply binop_not_postfix; exact Hop |].
    intros op' Ho. injection Ho as <-. exact Hal.
  - lia.
  - lia.
  - rewrite Heq1. destruct fuel1 as [| f]; [simpl in Hfu1; lia |].
    cbn [binary_loop]. destruct (at_toks_cur _ _ _ Hat1) as (pos & Hc). rewrite Hc. unfold tk.
    rewrite prec_nat_level.
    destruct (prec <? level op) eqn:Hlt; [| apply Nat.ltb_ge in Hlt; lia].
    destruct (next_toks _ _ (at_toks_rest' _ _ _ Hat1)) as (s2 & Hn & Hat2 & Hf2).
    rewrite Hn. cbn [bind].
    destruct d as [| d0]; [lia |].
    change (k_binary A G D C E (PA (S d0)) None (level op) s2)
      with (BB (PA d0) None (level op) s2).
    pose proof (frame_trans _ _ _ Hf1 Hf2) as Hf12.
    destruct (QP_PP r HQr d0 (level op) s2 rst) as (nr & s3 & Hk & Her & Hat3 & Hf3).
    + lia.
    + exact Htr.
    + exact Hat2.
    + exact Hfo.
    + apply (frame_depth s s2 _ _ Hf12). lia.
    + apply (frame_level s s2 _ Hf12). lia.
    + rewrite Hk. cbn [bind].
      exists (n_operation A C pos op nl (Some nr)), s3, f.
      split; [simpl; rewrite Hel, Her; reflexivity |].
      split; [exact Hat3 |].
      split; [exact (frame_trans _ _ _ Hf12 Hf3) |].
      split; [| reflexivity].
      simpl in Hfu1. rewrite app_length in Hfu1. lia.
Qed.

Lemma U_unary : forall op e, wf (EUnary op e) -> UP e -> UP (EUnary op e).
Proof.
  intros op e (Hop & Hul & Hwf) HU _ d s rst Hd Hat Hfo Hdep Hlev.
  simpl in Hd, Hat, Hdep, Hlev.
  destruct d as [| d0]; [lia |].
  change (KU (PA (S d0)) s) with (nested A G D E 141 (unary_body A G D C E OPS (PA d0)) s).
  set (s0 := upddepth s (S (sdepth s))).
  assert (Hat0 : at_toks s0 (tk op :: print e ++ rst)) by exact Hat.
  destruct (at_toks_cur _ _ _ Hat0) as (pos & Hc).
  destruct (next_toks _ _ (at_toks_rest' _ _ _ Hat0)) as (s1 & Hn & Hat1 & Hf1).
  destruct (HU Hul d0 s1 rst) as (n & s2 & Hk & He & Hat2 & Hf2).
  - lia.
  - exact Hat1.
  - exact Hfo.
  - apply (frame_depth s0 s1 _ _ Hf1). change (sdepth s0) with (S (sdepth s)). lia.
  - apply (frame_level s0 s1 _ Hf1). change (lp s0) with (lp s). change (ln s0) with (ln s). lia.
  - assert (Hub : unary_body A G D C E OPS (PA d0) s0 = Ok (n_operation A C pos op n None) s2).
    { unfold unary_body. rewrite Hc. unfold tk. apply unary_op_class in Hop.
      destruct (classify_unary op); try (exfalso; apply Hop; reflexivity);
        rewrite Hn; cbn [bind]; rewrite Hk; cbn [bind]; try reflexivity.
      rewrite <- (is_tag_erase A C), He, shape_not_chan. reflexivity. }
    exists (n_operation A C pos op n None), (upddepth s2 (pred (sdepth s2))).
    split; [apply nested_intro; [lia | exact Hub] |].
    split; [simpl; rewrite He; reflexivity |]. split; [exact Hat2 |].
    destruct (frame_trans _ _ _ Hf1 Hf2) as (Hd1 & k & Ha & Hb). split.
    + change (sdepth (upddepth s2 (pred (sdepth s2)))) with (pred (sdepth s2)).
      rewrite Hd1. reflexivity.
    + exists k. split; [exact Ha | exact Hb].
Qed.

Lemma PQ_ident : forall name, PQP (EIdent name).
Proof.
  intros name _ d s rst Hd Hat Hdep Hlev. simpl in Hat.
  destruct (at_toks_cur _ _ _ Hat) as (p & Hc).
  destruct (identifier_toks s name rst 68 Hat) as (p' & s1 & Hi & Hat1 & Hf).
  exists (n_ident A C p' name), s1, (loop_fuel A G D E s1).
  split; [reflexivity |]. split; [exact Hat1 |]. split; [exact Hf |].
  split; [apply loop_fuel_toks; exact Hat1 |].
  unfold primary_expression, operand. rewrite Hc, Hi. reflexivity.
Qed.

Lemma PQ_lit : forall k text, wf (ELit k text) -> PQP (ELit k text).
Proof.
  intros k text Hk _ d s rst Hd Hat Hdep Hlev. simpl in Hat, Hk.
  destruct (at_toks_cur _ _ _ Hat) as (p & Hc).
  destruct (literal_toks s k text rst Hat) as (p' & s1 & Hi & Hat1 & Hf).
  exists (n_basic A C p' k text), s1, (loop_fuel A G D E s1).
  split; [reflexivity |]. split; [exact Hat1 |]. split; [exact Hf |].
  split; [apply loop_fuel_toks; exact Hat1 |].
  unfold primary_expression, operand. rewrite Hc.
  destruct k; try (rewrite Hi; reflexivity). exfalso; apply Hk; reflexivity.
Qed.

Lemma follow0_tok : forall o rst, postfix_tok (tk o) = false -> level o = 0 -> follow 0 (tk o :: rst).
Proof.
  intros o rst Hp Hl. split; [exact Hp |]. intros op Ho. injection Ho as <-. lia.
Qed.

Lemma PQ_paren : forall e, PNLP e -> PQP (EParen e).
Proof.
  intros e HN _ d s rst Hd Hat Hdep Hlev. simpl in Hd, Hat, Hdep, Hlev.
  destruct (at_toks_cur _ _ _ Hat) as (p & Hc).
  destruct (next_toks _ _ (at_toks_rest' _ _ _ Hat)) as (s1 & Hn & Hat1 & Hf1).
  rewrite <- app_assoc in Hat1. simpl in Hat1.
  destruct (HN d s1 (tk OParenRight :: rst)) as (n & s2 & Hk & He & Hat2 & Hf2).
  - lia.
  - exact Hat1.
  - apply follow0_tok; reflexivity.
  - apply (frame_depth s s1 _ _ Hf1). lia.
  - assert (H := frame_level s s1 (1 + depth e) Hf1). lia.
  - destruct (expect_toks s2 _ rst (KOp OParenRight) 69 Hat2 eq_refl) as (p1 & s3 & Hx & Hat3 & Hf3).
    exists (mk A C GParen [cur_pos A G D E s; p1] [] [n]), s3, (loop_fuel A G D E s3).
    split; [simpl; rewrite He; reflexivity |]. split; [exact Hat3 |].
    split; [exact (frame_trans _ _ _ (frame_trans _ _ _ Hf1 Hf2) Hf3) |].
    split; [apply loop_fuel_toks; exact Hat3 |].
    unfold primary_expression, operand. rewrite Hc. unfold tk. cbv zeta.
    rewrite Hn. cbn [bind]. rewrite Hk. cbn [bind]. rewrite Hx. reflexivity.
Qed.

Lemma PQ_selector : forall e name, wf (ESelector e name) -> PQP e -> PQP (ESelector e name).
Proof.
  intros e name (Hpr & Hwf) HPQ _ d s rst Hd Hat Hdep Hlev. simpl in Hd, Hat, Hdep, Hlev.
  rewrite <- app_assoc in Hat. simpl in Hat.
  destruct (HPQ Hpr d s _ Hd Hat Hdep Hlev) as (n & s1 & fuel1 & He & Hat1 & Hf1 & Hfu1 & Heq).
  destruct (at_toks_cur _ _ _ Hat1) as (p & Hc).
  destruct (next_toks _ _ (at_toks_rest' _ _ _ Hat1)) as (s2 & Hn & Hat2 & Hf2).
  destruct (at_toks_cur _ _ _ Hat2) as (p2 & Hc2).
  destruct (identifier_toks s2 name rst 62 Hat2) as (p' & s3 & Hi & Hat3 & Hf3).
  destruct fuel1 as [| f]; [simpl in Hfu1; lia |].
  exists (mk A C GSelector [cur_pos A G D E s1] [] [n; n_ident A C p' name]), s3, f.
  split; [simpl; rewrite He; reflexivity |]. split; [exact Hat3 |].
  split; [exact (frame_trans _ _ _ (frame_trans _ _ _ Hf1 Hf2) Hf3) |].
  split; [simpl in Hfu1; lia |].
  rewrite Heq. cbn [primary_loop]. unfold primary_step. rewrite Hc. unfold tk. cbv zeta.
  rewrite Hn. cbn [bind]. rewrite Hc2, Hi. reflexivity.
Qed.

Lemma PQ_index : forall e i, wf (EIndex e i) -> PQP e -> PNLP i -> PQP (EIndex e i).
Proof.
  intros e i (Hpr & Hwf & Hwi) HPQ HN _ d s rst Hd Hat Hdep Hlev. simpl in Hd, Hat, Hdep, Hlev.
  rewrite <- app_assoc in Hat. simpl in Hat.
  destruct (HPQ Hpr d s (tk OBarackLeft :: (print i ++ [tk OBarackRight]) ++ rst))
    as (n & s1 & fuel1 & He & Hat1 & Hf1 & Hfu1 & Heq); try lia.
  { exact Hat. }
  destruct (at_toks_cur _ _ _ Hat1) as (p & Hc).
  destruct (next_toks _ _ (at_toks_rest' _ _ _ Hat1)) as (s2 & Hn & Hat2 & Hf2).
  rewrite <- app_assoc in Hat2. simpl in Hat2.
  pose proof (frame_trans _ _ _ Hf1 Hf2) as Hf12.
  destruct (first_tok i Hwi) as (t & l0 & Hpi & Hst & _).
  destruct (expr_start_not t Hst) as (_ & _ & Hcolon & _).
  assert (Hsk : skipped A G D C E OPS (KOp OColon) s2 = Ok false s2).
  { apply (skipped_no s2 (print i ++ tk OBarackRight :: rst)); [exact Hat2 |].
    rewrite Hpi. exact Hcolon. }
  destruct (HN d s2 (tk OBarackRight :: rst)) as (ni & s3 & Hk & Hei & Hat3 & Hf3).
  - lia.
  - exact Hat2.
  - apply follow0_tok; reflexivity.
  - apply (frame_depth s s2 _ _ Hf12). lia.
  - assert (H := frame_level s s2 (1 + depth i) Hf12). lia.
  - destruct (expect_toks s3 _ rst (KOp OBarackRight) 65 Hat3 eq_refl) as (p1 & s4 & Hx & Hat4 & Hf4).
    destruct fuel1 as [| f]; [simpl in Hfu1; lia |].
    exists (mk A C GIndex [cur_pos A G D E s1; p1] [] [n; ni]), s4, f.
    split; [simpl; rewrite He, Hei; reflexivity |]. split; [exact Hat4 |].
    split; [exact (frame_trans _ _ _ (frame_trans _ _ _ Hf12 Hf3) Hf4) |].
    split; [simpl in Hfu1; rewrite !app_length in Hfu1; simpl in Hfu1; lia |].
    rewrite Heq. cbn [primary_loop]. unfold primary_step. rewrite Hc. unfold tk. cbv zeta.
    unfold parse_slice_index_or_type_inst. rewrite Hn. cbn [bind]. rewrite Hsk. cbn [bind andb].
    rewrite Hk. cbn [bind].
    rewrite (cur_is_toks s3 _ _ (KOp OBarackRight) Hat3).
    change (tok_is (tk OBarackRight) (KOp OBarackRight)) with true. cbv iota. cbn [bind].
    rewrite Hx. reflexivity.
Qed.


(* ---- call arguments *)

Notation CAL := (call_args_loop A G D C E OPS).
Definition comma_tail (l : list (list token)) : list token :=
  flat_map (fun y => tk OComma :: y) l.

(* what closes an argument list *)
Definition closer (cl : token) : Prop := cl = tk OParenRight \/ cl = tk ODotDotDot.

Lemma follow0_args : forall l cl rst, closer cl -> follow 0 (comma_tail l ++ cl :: rst).
Proof.
  intros l cl rst Hcl. destruct l.
  - destruct Hcl as [-> | ->]; [exact (follow0_tok OParenRight _ eq_refl eq_refl) |
                                exact (follow0_tok ODotDotDot _ eq_refl eq_refl)].
  - exact (follow0_tok OComma _ eq_refl eq_refl).
Qed.

Lemma cur_not_start : forall s t ts, at_toks s (t :: ts) -> expr_start t = true ->
  cur_not A G D E s (KOp OParenRight) && cur_not A G D E s (KOp ODotDotDot) = true.
Proof.
  intros s t ts Hat Hst. destruct (expr_start_not t Hst) as (H1 & H2 & _).
  unfold cur_not. rewrite !(cur_is_toks s t ts _ Hat), H1, H2. reflexivity.
Qed.

Lemma cur_not_closer : forall s cl ts, at_toks s (cl :: ts) -> closer cl ->
  cur_not A G D E s (KOp OParenRight) && cur_not A G D E s (KOp ODotDotDot) = false.
Proof.
  intros s cl ts Hat Hcl. unfold cur_not. rewrite !(cur_is_toks s cl ts _ Hat).
  destruct Hcl as [-> | ->]; reflexivity.
Qed.

Lemma args_tail : forall r, Forall (fun b => wf b /\ PNLP b) r ->
  forall d fuel acc ewc s cl rst,
    closer cl ->
    maxl need r + 2 <= d ->
    sdepth s + maxl depth r <= MAX_NESTING -> lp s + 1 + maxl depth r <= ln s + 65 ->
    at_toks s (comma_tail (map print r) ++ cl :: rst) ->
    length acc <> 0 ->
    length (comma_tail (map print r)) + 1 <= fuel ->
    exists ns ewc' s1,
      CAL (PA d) fuel acc ewc s = Ok (acc ++ ns, ewc') s1 /\
      map erase ns = map shape r /\ at_toks s1 (cl :: rst) /\ frame s s1 /\
      ewc' = match r with [] => ewc | _ => false end.
Proof.
  intros r Hall. induction Hall as [| b r (Hwb & HNb) Hall IH];
    intros d fuel acc ewc s cl rst Hcl Hd Hdep Hlev Hat Hacc Hfu.
  - simpl in Hat. destruct fuel as [| f]; [lia |]. cbn [call_args_loop].
    rewrite (cur_not_closer s cl rst Hat Hcl).
    exists [], ewc, s. rewrite app_nil_r.
    split; [reflexivity |]. split; [reflexivity |]. split; [exact Hat |].
    split; [apply frame_refl | reflexivity].
  - simpl in Hd, Hdep, Hlev, Hat, Hfu. rewrite <- app_assoc in Hat.
    destruct fuel as [| f]; [lia |]. cbn [call_args_loop].
    unfold cur_not at 1 2. rewrite !(cur_is_toks s _ _ _ Hat).
    change (tok_is (tk OComma) (KOp OParenRight)) with false.
    change (tok_is (tk OComma) (KOp ODotDotDot)) with false. cbn [negb andb].
    destruct acc as [| a0 acc0]; [exfalso; apply Hacc; reflexivity |].
    change (Nat.eqb (length (a0 :: acc0)) 0) with false. cbv iota.
    destruct (expect_toks s _ _ (KOp OComma) 61 Hat eq_refl) as (pc & s1 & Hx & Hat1 & Hf1).
    rewrite Hx. cbn [bind].
    destruct (first_tok b Hwb) as (t & l0 & Hpb & Hst & _).
    assert (Hat1' : at_toks s1 (t :: l0 ++ comma_tail (map print r) ++ cl :: rst)).
    { rewrite Hpb in Hat1. exact Hat1. }
    rewrite (cur_not_start s1 t _ Hat1' Hst).
    destruct (HNb d s1 (comma_tail (map print r) ++ cl :: rst))
      as (nb & s2 & Hk & Heb & Hat2 & Hf2).
    + lia.
    + exact Hat1.
    + apply follow0_args; exact Hcl.
    + apply (frame_depth s s1 _ _ Hf1). lia.
    + assert (H := frame_level s s1 (1 + depth b) Hf1). lia.
    + rewrite Hk. cbn [bind].
      pose proof (frame_trans _ _ _ Hf1 Hf2) as Hf12.
      destruct (IH d f ((a0 :: acc0) ++ [nb]) false s2 cl rst)
        as (ns & ewc' & s3 & Hl & Hes & Hat3 & Hf3 & Hew).
      * exact Hcl.
      * lia.
      * apply (frame_depth s s2 _ _ Hf12). lia.
      * assert (H := frame_level s s2 (1 + maxl depth r) Hf12). lia.
      * exact Hat2.
      * rewrite app_length. simpl. lia.
      * unfold comma_tail in Hfu. rewrite app_length in Hfu.
        fold (comma_tail (map print r)) in Hfu. lia.
      * exists (nb :: ns), ewc', s3. split.
        { rewrite Hl. rewrite <- app_assoc. reflexivity. }
        split; [simpl; rewrite Heb, Hes; reflexivity |].
        split; [exact Hat3 |]. split; [exact (frame_trans _ _ _ Hf12 Hf3) |].
        rewrite Hew. destruct r; reflexivity.
Qed.

Lemma args_all : forall args, Forall (fun b => wf b /\ PNLP b) args ->
  forall d fuel s cl rst,
    closer cl ->
    maxl need args + 2 <= d ->
    sdepth s + maxl depth args <= MAX_NESTING -> lp s + 1 + maxl depth args <= ln s + 65 ->
    at_toks s (commas (map print args) ++ cl :: rst) ->
    length (commas (map print args)) + 1 <= fuel ->
    exists ns s1,
      CAL (PA d) fuel [] false s = Ok (ns, false) s1 /\
      map erase ns = map shape args /\ at_toks s1 (cl :: rst) /\ frame s s1.
Proof.
  intros args Hall d fuel s cl rst Hcl Hd Hdep Hlev Hat Hfu.
  destruct Hall as [| a r (Hwa & HNa) Hall].
  - simpl in Hat. destruct fuel as [| f]; [lia |]. cbn [call_args_loop].
    rewrite (cur_not_closer s cl rst Hat Hcl).
    exists [], s.
    split; [reflexivity |]. split; [reflexivity |]. split; [exact Hat | apply frame_refl].
  - simpl in Hd, Hdep, Hlev, Hat, Hfu. fold (comma_tail (map print r)) in Hat, Hfu.
    rewrite <- app_assoc in Hat.
    destruct fuel as [| f]; [lia |]. cbn [call_args_loop].
    destruct (first_tok a Hwa) as (t & l0 & Hpa & Hst & _).
    assert (Hat' : at_toks s (t :: l0 ++ comma_tail (map print r) ++ cl :: rst)).
    { rewrite Hpa in Hat. exact Hat. }
    rewrite (cur_not_start s t _ Hat' Hst).
    change (Nat.eqb (length (@nil nodeT)) 0) with true. cbv iota. cbn [bind].
    rewrite (cur_not_start s t _ Hat' Hst).
    destruct (HNa d s (comma_tail (map print r) ++ cl :: rst))
      as (na & s2 & Hk & Hea & Hat2 & Hf2).
    + lia.
    + exact Hat.
    + apply follow0_args; exact Hcl.
    + lia.
    + lia.
    + rewrite Hk. cbn [bind].
      destruct (args_tail r Hall d f ([] ++ [na]) false s2 cl rst)
        as (ns & ewc' & s3 & Hl & Hes & Hat3 & Hf3 & Hew).
      * exact Hcl.
      * lia.
      * apply (frame_depth s s2 _ _ Hf2). lia.
      * assert (H := frame_level s s2 (1 + maxl depth r) Hf2). lia.
      * exact Hat2.
      * simpl. lia.
      * rewrite app_length, Hpa in Hfu. simpl in Hfu. lia.
      * exists (na :: ns), s3. split.
        { rewrite Hl. replace ewc' with false by (rewrite Hew; destruct r; reflexivity).
          reflexivity. }
        split; [simpl; rewrite Hea, Hes; reflexivity |].
        split; [exact Hat3 | exact (frame_trans _ _ _ Hf2 Hf3)].
Qed.

Lemma PQ_call : forall f args ddd, wf (ECall f args ddd) -> PQP f ->
  Forall (fun b => wf b /\ PNLP b) args -> PQP (ECall f args ddd).
Proof.
  intros f args ddd (Hpr & Hwf & Hwa & Hdd) HPQ Hall _ d s rst Hd Hat Hdep Hlev.
  simpl in Hd, Hat, Hdep, Hlev.
  rewrite <- app_assoc in Hat. simpl in Hat.
  destruct (HPQ Hpr d s (tk OParenLeft ::
              (commas (map print args) ++ (if ddd then [tk ODotDotDot] else []) ++ [tk OParenRight])
              ++ rst))
    as (n & s1 & fuel1 & He & Hat1 & Hf1 & Hfu1 & Heq); try lia.
  { exact Hat. }
  destruct (at_toks_cur _ _ _ Hat1) as (p & Hc).
  destruct (next_toks _ _ (at_toks_rest' _ _ _ Hat1)) as (s2 & Hn & Hat2 & Hf2).
  rewrite <- !app_assoc in Hat2.
  pose proof (frame_trans _ _ _ Hf1 Hf2) as Hf12.
  destruct fuel1 as [| f0]; [simpl in Hfu1; lia |].
  assert (Hfu0 : length rst + 1 <= f0).
  { simpl in Hfu1; rewrite !app_length in Hfu1; simpl in Hfu1; lia. }
  destruct ddd; simpl in Hat2.
  - (* f(a, b...) *)
    destruct (args_all args Hall d (loop_fuel A G D E s2) s2 (tk ODotDotDot) (tk OParenRight :: rst))
      as (ns & s3 & Hl & Hes & Hat3 & Hf3).
    + right; reflexivity.
    + lia.
    + apply (frame_depth s s2 _ _ Hf12). lia.
    + assert (H := frame_level s s2 (1 + maxl depth args) Hf12). lia.
    + exact Hat2.
    + pose proof (loop_fuel_toks s2 _ Hat2) as H. rewrite app_length in H. lia.
    + destruct (skipped_yes s3 _ _ (KOp ODotDotDot) Hat3 eq_refl) as (s4 & Hs1 & Hat4 & Hf4).
      assert (Hs2 : skipped A G D C E OPS (KOp OComma) s4 = Ok false s4).
      { apply (skipped_no s4 _ _ Hat4). reflexivity. }
      destruct (expect_toks s4 _ rst (KOp OParenRight) 67 Hat4 eq_refl)
        as (p1 & s5 & Hx & Hat5 & Hf5).
      assert (Hlen : Nat.eqb (length ns) 0 = false).
      { assert (Hl2 : length ns = length args).
        { rewrite <- (map_length erase ns), Hes, map_length. reflexivity. }
        rewrite Hl2. destruct args; [exfalso; apply (Hdd eq_refl); reflexivity | reflexivity]. }
      exists (mk A C GCall [cur_pos A G D E s1; p1] [] [n; nlist ns; npos (cur_pos A G D E s3)]),
        s5, f0.
      split; [simpl; rewrite He; change (fun x : nodeT => erase x) with erase; rewrite Hes;
              reflexivity |].
      split; [exact Hat5 |].
      split; [exact (frame_trans _ _ _ (frame_trans _ _ _ (frame_trans _ _ _ Hf12 Hf3) Hf4) Hf5) |].
      split; [exact Hfu0 |].
      rewrite Heq. cbn [primary_loop]. unfold primary_step. rewrite Hc. unfold tk. cbv zeta.
      rewrite Hn. cbn [bind]. rewrite Hl. cbn [bind]. rewrite Hs1. cbn [bind].
      rewrite Hlen. cbn [andb orb]. cbv iota.
      rewrite Hs2. cbn [bind]. rewrite Hx. reflexivity.
  - (* f(a, b) *)
    destruct (args_all args Hall d (loop_fuel A G D E s2) s2 (tk OParenRight) rst)
      as (ns & s3 & Hl & Hes & Hat3 & Hf3).
    + left; reflexivity.
    + lia.
    + apply (frame_depth s s2 _ _ Hf12). lia.
    + assert (H := frame_level s s2 (1 + maxl depth args) Hf12). lia.
    + exact Hat2.
    + pose proof (loop_fuel_toks s2 _ Hat2) as H. rewrite app_length in H. lia.
    + assert (Hs1 : skipped A G D C E OPS (KOp ODotDotDot) s3 = Ok false s3).
      { apply (skipped_no s3 _ _ Hat3). reflexivity. }
      assert (Hs2 : skipped A G D C E OPS (KOp OComma) s3 = Ok false s3).
      { apply (skipped_no s3 _ _ Hat3). reflexivity. }
      destruct (expect_toks s3 _ rst (KOp OParenRight) 67 Hat3 eq_refl)
        as (p1 & s4 & Hx & Hat4 & Hf4).
      exists (mk A C GCall [cur_pos A G D E s1; p1] [] [n; nlist ns; nnone]), s4, f0.
      split; [simpl; rewrite He; change (fun x : nodeT => erase x) with erase; rewrite Hes;
              reflexivity |].
      split; [exact Hat4 |].
      split; [exact (frame_trans _ _ _ (frame_trans _ _ _ Hf12 Hf3) Hf4) |].
      split; [exact Hfu0 |].
      rewrite Heq. cbn [primary_loop]. unfold primary_step. rewrite Hc. unfold tk. cbv zeta.
      rewrite Hn. cbn [bind]. rewrite Hl. cbn [bind]. rewrite Hs1. cbn [bind andb]. cbv iota.
      rewrite Hs2. cbn [bind]. rewrite Hx. reflexivity.
Qed.

Ltac unframe :=
  repeat match goal with H : frame _ _ |- _ => destruct H as (? & ? & ? & ?) end.
Ltac side := solve [ assumption | reflexivity | lia | unframe; lia ].
Ltac fol0 := solve [ apply follow0_tok; reflexivity ].

(* ---- slice expressions *)

Definition optPNLP (o : option exp) : Prop :=
  match o with Some x => wf x /\ PNLP x | None => True end.

Lemma cur_is_expr : forall s x r, wf x -> at_toks s (print x ++ r) ->
  cur_is A G D E s (KOp OBarackRight) = false /\ cur_is A G D E s (KOp OColon) = false.
Proof.
  intros s x r Hwf Hat. destruct (first_tok x Hwf) as (t & l0 & Hp & Hst & _).
  rewrite Hp in Hat. simpl in Hat. rewrite !(cur_is_toks s _ _ _ Hat).
  destruct (expr_start_not t Hst) as (_ & _ & H3 & H4). split; assumption.
Qed.

Lemma skipped_colon_expr : forall s x r, wf x -> at_toks s (print x ++ r) ->
  skipped A G D C E OPS (KOp OColon) s = Ok false s.
Proof.
  intros s x r Hwf Hat. unfold skipped.
  rewrite (proj2 (cur_is_expr s x r Hwf Hat)). reflexivity.
Qed.

Lemma PQ_slice : forall e lo hi mx, wf (ESlice e lo hi mx) -> PQP e ->
  optPNLP lo -> optPNLP hi -> optPNLP mx -> PQP (ESlice e lo hi mx).
Proof.
  intros e lo hi mx (Hpr & Hwf & _ & _ & _ & Hmx) HPQ Hlo Hhi Hm _ d s rst Hd Hat Hdep Hlev.
  simpl in Hd, Hat, Hdep, Hlev.
  rewrite <- app_assoc in Hat. simpl in Hat.
  destruct (HPQ Hpr d s _ ltac:(lia) Hat ltac:(lia) ltac:(lia))
    as (n & s1 & fuel1 & He & Hat1 & Hf1 & Hfu1 & Heq).
  destruct (at_toks_cur _ _ _ Hat1) as (p & Hc).
  destruct (next_toks _ _ (at_toks_rest' _ _ _ Hat1)) as (s2 & Hn & Hat2 & Hf2).
  pose proof (frame_trans _ _ _ Hf1 Hf2) as Hf12.
  destruct fuel1 as [| f0]; [simpl in Hfu1; lia |].
  assert (Hfu0 : length rst + 1 <= f0).
  { simpl in Hfu1; rewrite !app_length in Hfu1; simpl in Hfu1; lia. }
  destruct lo as [i |], hi as [j |], mx as [k |];
    try (exfalso; apply Hmx; [discriminate | reflexivity]);
    simpl in Hd, Hdep, Hlev; repeat (rewrite <- app_assoc in Hat2; simpl in Hat2).
  - (* a[i:j:k] *)
    destruct Hlo as (Hwi & HNi). destruct Hhi as (Hwj & HNj). destruct Hm as (Hwk & HNk).
    pose proof (skipped_colon_expr s2 i _ Hwi Hat2) as Hsk.
    edestruct (HNi d s2) as (ni & s3 & Hki & Hei & Hat3 & Hf3); [side | exact Hat2 | fol0 | side | side |].
    pose proof (frame_trans _ _ _ Hf12 Hf3) as Hf13.
    destruct (at_toks_cur _ _ _ Hat3) as (p3 & Hc3).
    destruct (next_toks _ _ (at_toks_rest' _ _ _ Hat3)) as (s4 & Hn4 & Hat4 & Hf4).
    pose proof (frame_trans _ _ _ Hf13 Hf4) as Hf14.
    destruct (cur_is_expr s4 j _ Hwj Hat4) as (Hb4 & _).
    edestruct (HNj d s4) as (nj & s5 & Hkj & Hej & Hat5 & Hf5); [side | exact Hat4 | fol0 | side | side |].
    pose proof (frame_trans _ _ _ Hf14 Hf5) as Hf15.
    destruct (expect_toks s5 _ _ (KOp OColon) 59 Hat5 eq_refl) as (pc & s6 & Hx6 & Hat6 & Hf6).
    pose proof (frame_trans _ _ _ Hf15 Hf6) as Hf16.
    edestruct (HNk d s6) as (nk & s7 & Hkk & Hek & Hat7 & Hf7); [side | exact Hat6 | fol0 | side | side |].
    pose proof (frame_trans _ _ _ Hf16 Hf7) as Hf17.
    destruct (expect_toks s7 _ rst (KOp OBarackRight) 65 Hat7 eq_refl) as (p1 & s8 & Hx & Hat8 & Hf8).
    exists (mk A C GSlice [cur_pos A G D E s1; p1] [] [n; ni; nj; nk]), s8, f0.
    split; [simpl; rewrite He, Hei, Hej, Hek; reflexivity |]. split; [exact Hat8 |].
    split; [exact (frame_trans _ _ _ Hf17 Hf8) |]. split; [exact Hfu0 |].
    rewrite Heq. cbn [primary_loop]. unfold primary_step. rewrite Hc. unfold tk. cbv zeta.
    unfold parse_slice_index_or_type_inst. rewrite Hn. cbn [bind]. rewrite Hsk. cbn [bind andb].
    rewrite Hki. cbn [bind].
    rewrite (cur_is_toks s3 _ _ (KOp OBarackRight) Hat3).
    change (tok_is (tk OColon) (KOp OBarackRight)) with false. cbv iota.
    rewrite Hc3. unfold tk. cbv iota. rewrite Hn4. cbn [bind]. rewrite Hb4.
    rewrite Hkj. cbn [bind].
    rewrite (cur_is_toks s5 _ _ (KOp OBarackRight) Hat5).
    change (tok_is (tk OColon) (KOp OBarackRight)) with false. cbv iota.
    cbn [app length Nat.eqb]. rewrite Hx6. cbn [bind]. rewrite Hkk. cbn [bind app].
    rewrite Hx. reflexivity.
  - (* a[i:j] *)
    destruct Hlo as (Hwi & HNi). destruct Hhi as (Hwj & HNj).
    pose proof (skipped_colon_expr s2 i _ Hwi Hat2) as Hsk.
    edestruct (HNi d s2) as (ni & s3 & Hki & Hei & Hat3 & Hf3); [side | exact Hat2 | fol0 | side | side |].
    pose proof (frame_trans _ _ _ Hf12 Hf3) as Hf13.
    destruct (at_toks_cur _ _ _ Hat3) as (p3 & Hc3).
    destruct (next_toks _ _ (at_toks_rest' _ _ _ Hat3)) as (s4 & Hn4 & Hat4 & Hf4).
    pose proof (frame_trans _ _ _ Hf13 Hf4) as Hf14.
    destruct (cur_is_expr s4 j _ Hwj Hat4) as (Hb4 & _).
    edestruct (HNj d s4) as (nj & s5 & Hkj & Hej & Hat5 & Hf5); [side | exact Hat4 | fol0 | side | side |].
    pose proof (frame_trans _ _ _ Hf14 Hf5) as Hf15.
    destruct (expect_toks s5 _ rst (KOp OBarackRight) 65 Hat5 eq_refl) as (p1 & s6 & Hx & Hat6 & Hf6).
    exists (mk A C GSlice [cur_pos A G D E s1; p1] [] [n; ni; nj; nnone]), s6, f0.
    split; [simpl; rewrite He, Hei, Hej; reflexivity |]. split; [exact Hat6 |].
    split; [exact (frame_trans _ _ _ Hf15 Hf6) |]. split; [exact Hfu0 |].
    rewrite Heq. cbn [primary_loop]. unfold primary_step. rewrite Hc. unfold tk. cbv zeta.
    unfold parse_slice_index_or_type_inst. rewrite Hn. cbn [bind]. rewrite Hsk. cbn [bind andb].
    rewrite Hki. cbn [bind].
    rewrite (cur_is_toks s3 _ _ (KOp OBarackRight) Hat3).
    change (tok_is (tk OColon) (KOp OBarackRight)) with false. cbv iota.
    rewrite Hc3. unfold tk. cbv iota. rewrite Hn4. cbn [bind]. rewrite Hb4.
    rewrite Hkj. cbn [bind].
    rewrite (cur_is_toks s5 _ _ (KOp OBarackRight) Hat5).
    change (tok_is (tk OBarackRight) (KOp OBarackRight)) with true. cbv iota. cbn [bind app].
    rewrite Hx. reflexivity.
  - (* a[i:] *)
    destruct Hlo as (Hwi & HNi).
    pose proof (skipped_colon_expr s2 i _ Hwi Hat2) as Hsk.
    edestruct (HNi d s2) as (ni & s3 & Hki & Hei & Hat3 & Hf3); [side | exact Hat2 | fol0 | side | side |].
    pose proof (frame_trans _ _ _ Hf12 Hf3) as Hf13.
    destruct (at_toks_cur _ _ _ Hat3) as (p3 & Hc3).
    destruct (next_toks _ _ (at_toks_rest' _ _ _ Hat3)) as (s4 & Hn4 & Hat4 & Hf4).
    pose proof (frame_trans _ _ _ Hf13 Hf4) as Hf14.
    destruct (expect_toks s4 _ rst (KOp OBarackRight) 65 Hat4 eq_refl) as (p1 & s5 & Hx & Hat5 & Hf5).
    exists (mk A C GSlice [cur_pos A G D E s1; p1] [] [n; ni; nnone; nnone]), s5, f0.
    split; [simpl; rewrite He, Hei; reflexivity |]. split; [exact Hat5 |].
    split; [exact (frame_trans _ _ _ Hf14 Hf5) |]. split; [exact Hfu0 |].
    rewrite Heq. cbn [primary_loop]. unfold primary_step. rewrite Hc. unfold tk. cbv zeta.
    unfold parse_slice_index_or_type_inst. rewrite Hn. cbn [bind]. rewrite Hsk. cbn [bind andb].
    rewrite Hki. cbn [bind].
    rewrite (cur_is_toks s3 _ _ (KOp OBarackRight) Hat3).
    change (tok_is (tk OColon) (KOp OBarackRight)) with false. cbv iota.
    rewrite Hc3. unfold tk. cbv iota. rewrite Hn4. cbn [bind].
    rewrite (cur_is_toks s4 _ _ (KOp OBarackRight) Hat4).
    change (tok_is (tk OBarackRight) (KOp OBarackRight)) with true. cbv iota. cbn [bind app].
    rewrite Hx. reflexivity.
  - (* a[:j:k] *)
    destruct Hhi as (Hwj & HNj). destruct Hm as (Hwk & HNk).
    destruct (skipped_yes s2 _ _ (KOp OColon) Hat2 eq_refl) as (s3 & Hsk & Hat3 & Hf3).
    pose proof (frame_trans _ _ _ Hf12 Hf3) as Hf13.
    destruct (cur_is_expr s3 j _ Hwj Hat3) as (Hb3 & _).
    edestruct (HNj d s3) as (nj & s4 & Hkj & Hej & Hat4 & Hf4); [side | exact Hat3 | fol0 | side | side |].
    pose proof (frame_trans _ _ _ Hf13 Hf4) as Hf14.
    destruct (at_toks_cur _ _ _ Hat4) as (p4 & Hc4).
    destruct (next_toks _ _ (at_toks_rest' _ _ _ Hat4)) as (s5 & Hn5 & Hat5 & Hf5).
    pose proof (frame_trans _ _ _ Hf14 Hf5) as Hf15.
    destruct (cur_is_expr s5 k _ Hwk Hat5) as (Hb5 & _).
    edestruct (HNk d s5) as (nk & s6 & Hkk & Hek & Hat6 & Hf6); [side | exact Hat5 | fol0 | side | side |].
    pose proof (frame_trans _ _ _ Hf15 Hf6) as Hf16.
    destruct (expect_toks s6 _ rst (KOp OBarackRight) 65 Hat6 eq_refl) as (p1 & s7 & Hx & Hat7 & Hf7).
    exists (mk A C GSlice [cur_pos A G D E s1; p1] [] [n; nnone; nj; nk]), s7, f0.
    split; [simpl; rewrite He, Hej, Hek; reflexivity |]. split; [exact Hat7 |].
    split; [exact (frame_trans _ _ _ Hf16 Hf7) |]. split; [exact Hfu0 |].
    rewrite Heq. cbn [primary_loop]. unfold primary_step. rewrite Hc. unfold tk. cbv zeta.
    unfold parse_slice_index_or_type_inst. rewrite Hn. cbn [bind]. rewrite Hsk. cbn [bind andb].
    rewrite Hb3. rewrite Hkj. cbn [bind].
    rewrite (cur_is_toks s4 _ _ (KOp OBarackRight) Hat4).
    change (tok_is (tk OColon) (KOp OBarackRight)) with false. cbv iota.
    rewrite Hc4. unfold tk. cbv iota. rewrite Hn5. cbn [bind]. rewrite Hb5.
    rewrite Hkk. cbn [bind].
    rewrite (cur_is_toks s6 _ _ (KOp OBarackRight) Hat6).
    change (tok_is (tk OBarackRight) (KOp OBarackRight)) with true. cbv iota. cbn [bind app].
    rewrite Hx. reflexivity.
  - (* a[:j] *)
    destruct Hhi as (Hwj & HNj).
    destruct (skipped_yes s2 _ _ (KOp OColon) Hat2 eq_refl) as (s3 & Hsk & Hat3 & Hf3).
    pose proof (frame_trans _ _ _ Hf12 Hf3) as Hf13.
    destruct (cur_is_expr s3 j _ Hwj Hat3) as (Hb3 & _).
    edestruct (HNj d s3) as (nj & s4 & Hkj & Hej & Hat4 & Hf4); [side | exact Hat3 | fol0 | side | side |].
    pose proof (frame_trans _ _ _ Hf13 Hf4) as Hf14.
    destruct (expect_toks s4 _ rst (KOp OBarackRight) 65 Hat4 eq_refl) as (p1 & s5 & Hx & Hat5 & Hf5).
    exists (mk A C GSlice [cur_pos A G D E s1; p1] [] [n; nnone; nj; nnone]), s5, f0.
    split; [simpl; rewrite He, Hej; reflexivity |]. split; [exact Hat5 |].
    split; [exact (frame_trans _ _ _ Hf14 Hf5) |]. split; [exact Hfu0 |].
    rewrite Heq. cbn [primary_loop]. unfold primary_step. rewrite Hc. unfold tk. cbv zeta.
    unfold parse_slice_index_or_type_inst. rewrite Hn. cbn [bind]. rewrite Hsk. cbn [bind andb].
    rewrite Hb3. rewrite Hkj. cbn [bind].
    rewrite (cur_is_toks s4 _ _ (KOp OBarackRight) Hat4).
    change (tok_is (tk OBarackRight) (KOp OBarackRight)) with true. cbv iota. cbn [bind app].
    rewrite Hx. reflexivity.
  - (* a[:] *)
    destruct (skipped_yes s2 _ _ (KOp OColon) Hat2 eq_refl) as (s3 & Hsk & Hat3 & Hf3).
    pose proof (frame_trans _ _ _ Hf12 Hf3) as Hf13.
    destruct (expect_toks s3 _ rst (KOp OBarackRight) 65 Hat3 eq_refl) as (p1 & s4 & Hx & Hat4 & Hf4).
    exists (mk A C GSlice [cur_pos A G D E s1; p1] [] [n; nnone; nnone; nnone]), s4, f0.
    split; [simpl; rewrite He; reflexivity |]. split; [exact Hat4 |].
    split; [exact (frame_trans _ _ _ Hf13 Hf4) |]. split; [exact Hfu0 |].
    rewrite Heq. cbn [primary_loop]. unfold primary_step. rewrite Hc. unfold tk. cbv zeta.
    unfold parse_slice_index_or_type_inst. rewrite Hn. cbn [bind]. rewrite Hsk. cbn [bind andb].
    rewrite (cur_is_toks s3 _ _ (KOp OBarackRight) Hat3).
    change (tok_is (tk OBarackRight) (KOp OBarackRight)) with true. cbv iota. cbn [bind].
    rewrite Hx. reflexivity.
Qed.

(* ---- index lists (generic instantiation) *)

Lemma flat_map_some : forall (X : Type) (l : list X),
  flat_map (fun o : option X => match o with Some e => [e] | None => [] end) (map Some l) = l.
Proof. intros X l; induction l as [| x r IH]; simpl; [reflexivity | rewrite IH; reflexivity]. Qed.

Lemma idx_tail : forall r, Forall (fun b => wf b /\ PNLP b) r ->
  forall d fuel acc s rst,
    maxl need r + 2 <= d ->
    sdepth s + maxl depth r <= MAX_NESTING -> lp s + 1 + maxl depth r <= ln s + 65 ->
    at_toks s (comma_tail (map print r) ++ tk OBarackRight :: rst) ->
    length (comma_tail (map print r)) + 1 <= fuel ->
    exists ns s1,
      index_comma_loop A G D C E OPS (PA d) fuel acc s = Ok (acc ++ map Some ns) s1 /\
      map erase ns = map shape r /\ at_toks s1 (tk OBarackRight :: rst) /\ frame s s1.
Proof.
  intros r Hall. induction Hall as [| b r (Hwb & HNb) Hall IH];
    intros d fuel acc s rst Hd Hdep Hlev Hat Hfu.
  - simpl in Hat. destruct fuel as [| f]; [lia |]. cbn [index_comma_loop].
    rewrite (skipped_no s _ (KOp OComma) Hat) by reflexivity. cbn [bind].
    exists [], s. rewrite app_nil_r.
    split; [reflexivity |]. split; [reflexivity |]. split; [exact Hat | apply frame_refl].
  - simpl in Hd, Hdep, Hlev, Hat, Hfu. rewrite <- app_assoc in Hat.
    destruct fuel as [| f]; [lia |]. cbn [index_comma_loop].
    destruct (skipped_yes s _ _ (KOp OComma) Hat eq_refl) as (s1 & Hs & Hat1 & Hf1).
    rewrite Hs. cbn [bind].
    edestruct (HNb d s1) as (nb & s2 & Hk & Heb & Hat2 & Hf2);
      [side | exact Hat1 | | side | side |].
    { destruct r; [exact (follow0_tok OBarackRight _ eq_refl eq_refl) |
                   exact (follow0_tok OComma _ eq_refl eq_refl)]. }
    rewrite Hk. cbn [bind].
    pose proof (frame_trans _ _ _ Hf1 Hf2) as Hf12.
    destruct (IH d f (acc ++ [Some nb]) s2 rst) as (ns & s3 & Hl & Hes & Hat3 & Hf3);
      [side | side | side | exact Hat2 | |].
    { unfold comma_tail in Hfu. rewrite app_length in Hfu.
      fold (comma_tail (map print r)) in Hfu. lia. }
    exists (nb :: ns), s3. split; [rewrite Hl, <- app_assoc; reflexivity |].
    split; [simpl; rewrite Heb, Hes; reflexivity |].
    split; [exact Hat3 | exact (frame_trans _ _ _ Hf12 Hf3)].
Qed.

Lemma PQ_indexlist : forall e idx, wf (EIndexList e idx) -> PQP e ->
  Forall (fun b => wf b /\ PNLP b) idx -> PQP (EIndexList e idx).
Proof.
  intros e idx (Hpr & Hwf & _ & Hlen) HPQ Hall _ d s rst Hd Hat Hdep Hlev.
  destruct Hall as [| i1 r1 (Hw1 & HN1) Hall]; [simpl in Hlen; lia |].
  destruct Hall as [| i2 r2 Hi2 Hall]; [simpl in Hlen; lia |].
  assert (Hall2 : Forall (fun b => wf b /\ PNLP b) (i2 :: r2)) by (constructor; assumption).
  clear Hi2 Hall Hlen.
  simpl in Hd, Hat, Hdep, Hlev.
  rewrite <- app_assoc in Hat. simpl in Hat.
  destruct (HPQ Hpr d s _ ltac:(lia) Hat ltac:(lia) ltac:(lia))
    as (n & s1 & fuel1 & He & Hat1 & Hf1 & Hfu1 & Heq).
  destruct (at_toks_cur _ _ _ Hat1) as (p & Hc).
  destruct (next_toks _ _ (at_toks_rest' _ _ _ Hat1)) as (s2 & Hn & Hat2 & Hf2).
  pose proof (frame_trans _ _ _ Hf1 Hf2) as Hf12.
  destruct fuel1 as [| f0]; [simpl in Hfu1; lia |].
  assert (Hfu0 : length rst + 1 <= f0).
  { simpl in Hfu1; rewrite !app_length in Hfu1; simpl in Hfu1; lia. }
  repeat (rewrite <- app_assoc in Hat2; simpl in Hat2).
  pose proof (skipped_colon_expr s2 i1 _ Hw1 Hat2) as Hsk.
  edestruct (HN1 d s2) as (n1 & s3 & Hk1 & He1 & Hat3 & Hf3);
    [side | exact Hat2 | | side | side |].
  { exact (follow0_tok OComma _ eq_refl eq_refl). }
  pose proof (frame_trans _ _ _ Hf12 Hf3) as Hf13.
  destruct (at_toks_cur _ _ _ Hat3) as (p3 & Hc3).
  assert (Hat3' : at_toks s3 (comma_tail (map print (i2 :: r2)) ++ tk OBarackRight :: rst)).
  { simpl. rewrite <- app_assoc. exact Hat3. }
  destruct (idx_tail (i2 :: r2) Hall2 d (loop_fuel A G D E s3) ([] ++ [Some n1]) s3 rst)
    as (ns & s4 & Hl & Hes & Hat4 & Hf4); [simpl; side | simpl; side | simpl; side | exact Hat3' | |].
  { pose proof (loop_fuel_toks s3 _ Hat3') as H. rewrite app_length in H. lia. }
  pose proof (frame_trans _ _ _ Hf13 Hf4) as Hf14.
  destruct (expect_toks s4 _ rst (KOp OBarackRight) 65 Hat4 eq_refl) as (p1 & s5 & Hx & Hat5 & Hf5).
  exists (mk A C GIndexList [cur_pos A G D E s1; p1] [] [n; nlist (n1 :: ns)]), s5, f0.
  split; [simpl; rewrite He, He1; change (fun x : nodeT => erase x) with erase; rewrite Hes;
          reflexivity |].
  split; [exact Hat5 |]. split; [exact (frame_trans _ _ _ Hf14 Hf5) |]. split; [exact Hfu0 |].
  rewrite Heq. cbn [primary_loop]. unfold primary_step. rewrite Hc. unfold tk. cbv zeta.
  unfold parse_slice_index_or_type_inst. rewrite Hn. cbn [bind]. rewrite Hsk. cbn [bind andb].
  rewrite Hk1. cbn [bind].
  rewrite (cur_is_toks s3 _ _ (KOp OBarackRight) Hat3).
  change (tok_is (tk OComma) (KOp OBarackRight)) with false. cbv iota.
  rewrite Hc3. unfold tk. cbv iota. rewrite Hl. cbn [bind]. rewrite Hx. cbn [bind].
  cbn [app flat_map]. rewrite flat_map_some. reflexivity.
Qed.

(* ------------------------------------------------------------ 4. the induction *)

Theorem main_contracts : forall e, wf e -> QP e /\ UP e /\ PQP e.
Proof.
  induction e as [name | k text | e IH | op e IH | op l r IHl IHr | f args ddd IHf IHa | e name IH
                 | e i IH IHi | e idx IH IHa | e lo hi mx IH IHlo IHhi IHmx] using exp_ind_nested;
    intro Hwf.
  - assert (HPQ := PQ_ident name).
    assert (HU := PQP_UP _ Hwf I HPQ). split; [apply UP_QP; [exact I | exact HU] | split; assumption].
  - assert (HPQ := PQ_lit k text Hwf).
    assert (HU := PQP_UP _ Hwf I HPQ). split; [apply UP_QP; [exact I | exact HU] | split; assumption].
  - assert (He : wf e) by exact Hwf. destruct (IH He) as (HQ & _ & _).
    assert (HPQ := PQ_paren e (PP_PNLP e He (QP_PP e HQ))).
    assert (HU := PQP_UP _ Hwf I HPQ). split; [apply UP_QP; [exact I | exact HU] | split; assumption].
  - pose proof Hwf as (_ & _ & He). destruct (IH He) as (_ & HUe & _).
    assert (HU := U_unary op e Hwf HUe).
    split; [apply UP_QP; [exact I | exact HU] |]. split; [exact HU | intros []].
  - pose proof Hwf as (_ & _ & _ & Hl & Hr).
    destruct (IHl Hl) as (HQl & _ & _). destruct (IHr Hr) as (HQr & _ & _).
    split; [apply Q_binary; assumption |]. split; intros [].
  - pose proof Hwf as (_ & Hf & Ha & _). destruct (IHf Hf) as (_ & _ & HPQf).
    assert (Hall : Forall (fun b => wf b /\ PNLP b) args).
    { apply all_Forall in Ha. clear - Ha IHa.
      induction args as [| a r IHr]; constructor.
      - inversion Ha as [| ? ? Hwa _]; inversion IHa as [| ? ? Hia _]; subst.
        split; [exact Hwa |].
        apply PP_PNLP; [exact Hwa |]. apply QP_PP. exact (proj1 (Hia Hwa)).
      - inversion Ha; inversion IHa; subst. apply IHr; assumption. }
    assert (HPQ := PQ_call f args ddd Hwf HPQf Hall).
    assert (HU := PQP_UP _ Hwf I HPQ). split; [apply UP_QP; [exact I | exact HU] | split; assumption].
  - pose proof Hwf as (_ & He). destruct (IH He) as (_ & _ & HPQe).
    assert (HPQ := PQ_selector e name Hwf HPQe).
    assert (HU := PQP_UP _ Hwf I HPQ). split; [apply UP_QP; [exact I | exact HU] | split; assumption].
  - pose proof Hwf as (_ & He & Hi). destruct (IH He) as (_ & _ & HPQe).
    destruct (IHi Hi) as (HQi & _ & _).
    assert (HPQ := PQ_index e i Hwf HPQe (PP_PNLP i Hi (QP_PP i HQi))).
    assert (HU := PQP_UP _ Hwf I HPQ). split; [apply UP_QP; [exact I | exact HU] | split; assumption].
  - pose proof Hwf as (_ & He & Ha & _). destruct (IH He) as (_ & _ & HPQe).
    assert (Hall : Forall (fun b => wf b /\ PNLP b) idx).
    { apply all_Forall in Ha. clear - Ha IHa.
      induction idx as [| a r IHr]; constructor.
      - inversion Ha as [| ? ? Hwa _]; inversion IHa as [| ? ? Hia _]; subst.
        split; [exact Hwa |].
        apply PP_PNLP; [exact Hwa |]. apply QP_PP. exact (proj1 (Hia Hwa)).
      - inversion Ha; inversion IHa; subst. apply IHr; assumption. }
    assert (HPQ := PQ_indexlist e idx Hwf HPQe Hall).
    assert (HU := PQP_UP _ Hwf I HPQ). split; [apply UP_QP; [exact I | exact HU] | split; assumption].
  - pose proof Hwf as (_ & He & Hlo & Hhi & Hm & _). destruct (IH He) as (_ & _ & HPQe).
    assert (Hopt : forall o, opt wf o -> optP (fun e => wf e -> QP e /\ UP e /\ PQP e) o -> optPNLP o).
    { intros [x |] Hw Hi; [| exact I]. split; [exact Hw |].
      apply PP_PNLP; [exact Hw |]. apply QP_PP. exact (proj1 (Hi Hw)). }
    assert (HPQ := PQ_slice e lo hi mx Hwf HPQe (Hopt lo Hlo IHlo) (Hopt hi Hhi IHhi)
                     (Hopt mx Hm IHmx)).
    assert (HU := PQP_UP _ Hwf I HPQ). split; [apply UP_QP; [exact I | exact HU] | split; assumption].
Qed.


(* ------------------------------------------------------------ 5. the round trip *)

(* an expression in context: any continuation that does not continue it *)
Theorem expr_in_context : forall e, wf e -> forall d prec s rst,
  need e + 1 <= d -> tighter_than prec e -> at_toks s (print e ++ rst) -> follow prec rst ->
  sdepth s + depth e <= MAX_NESTING -> lp s + depth e <= ln s + 65 ->
  exists n s1,
    k_binary A G D C E (PA d) None prec s = Ok n s1 /\ erase n = shape e /\
    at_toks s1 rst /\ frame s s1.
Proof.
  intros e Hwf d prec s rst Hd Htt Hat Hfo Hdep Hlev.
  destruct d as [| d0]; [lia |].
  change (k_binary A G D C E (PA (S d0)) None prec s) with (BB (PA d0) None prec s).
  destruct (main_contracts e Hwf) as (HQ & _ & _).
  apply (QP_PP e HQ d0 prec s rst); try assumption. lia.
Qed.

Theorem expr_roundtrip : forall e, wf e -> depth e <= DEPTH_BOUND ->
  forall d a0 d0 (elems : list selemT) ae ge,
    map tok_of elems = print e -> need e + 2 <= d ->
    exists n s',
      entry_expression A G D C E OPS (PA d) (init_state A G D E a0 d0 elems (TEof ae ge))
        = Ok n s' /\
      erase n = shape e /\ cur s' = None /\ srest s' = [].
Proof.
  intros e Hwf Hb d a0 d0 elems ae ge Hel Hd. unfold DEPTH_BOUND in Hb.
  set (si := init_state A G D E a0 d0 elems (TEof ae ge)).
  assert (Hr : rest_toks si (print e)).
  { split; [exists ae, ge; reflexivity | exact Hel]. }
  destruct (next_toks si _ Hr) as (s0 & Hn & Hat0 & Hf0).
  unfold entry_expression, ensure_started.
  change (s_started A G D E si) with false. cbv iota. rewrite Hn. cbn [bind].
  destruct d as [| d1]; [lia |].
  change (k_expr A G D C E (PA (S d1)) s0) with (k_binary A G D C E (PA d1) None 0 s0).
  destruct Hf0 as (Hd0 & k & Ha & Hb0).
  change (sdepth si) with 0 in Hd0. change (lp si) with 1 in Ha. change (ln si) with 0 in Hb0.
  destruct (expr_in_context e Hwf d1 0 s0 []) as (n & s1 & Hk & He & Hat1 & _).
  - lia.
  - apply wf_tighter0; exact Hwf.
  - rewrite app_nil_r. exact Hat0.
  - exact I.
  - unfold MAX_NESTING. lia.
  - lia.
  - exists n, s1. split; [exact Hk |]. split; [exact He |]. exact (at_toks_nil _ Hat1).
Qed.

End RT.

(* ------------------------------------------------------------ 6. explicit fuel bound, to_node *)

Lemma need_comma_tail : forall r,
  Forall (fun a => need a <= 3 * length (print a)) r ->
  maxl need r <= 3 * length (flat_map (fun y => tk OComma :: y) (map print r)).
Proof.
  intros r H; induction H as [| a r Ha _ IH]; simpl; [lia |].
  rewrite app_length. lia.
Qed.

Lemma need_le_tokens : forall e, need e <= 3 * length (print e).
Proof.
  induction e as [name | k text | e IH | op e IH | op l r IHl IHr | f args ddd IHf IHa | e name IH
                 | e i IH IHi | e args IH IHa | e lo hi mx IH IHlo IHhi IHmx] using exp_ind_nested;
    simpl; rewrite ?app_length; simpl; rewrite ?app_length; simpl; try lia.
  - assert (H : maxl need args <= 3 * length (commas (map print args))).
    { destruct IHa as [| a r Ha Hr]; simpl; [lia |].
      rewrite app_length. pose proof (need_comma_tail r Hr). lia. }
    lia.
  - assert (H : maxl need args <= 3 * length (commas (map print args))).
    { destruct IHa as [| a r Ha Hr]; simpl; [lia |].
      rewrite app_length. pose proof (need_comma_tail r Hr). lia. }
    lia.
  - destruct lo as [i |], hi as [j |], mx as [k |]; simpl in *;
      rewrite ?app_length; simpl; rewrite ?app_length; simpl; lia.
Qed.

Lemma erase_Nd : forall (A C : Type) t (ps : list A) ats (d : list C) ks,
  erase (Nd t ps ats d ks) =
  Nd t (map (fun _ => tt) ps) ats (map (fun _ => tt) d) (map erase ks).
Proof. reflexivity. Qed.

Lemma erase_to_node : forall (A C : Type) (a : A) e, erase (to_node (C := C) a e) = shape e.
Proof.
  intros A C a.
  induction e as [name | k text | e IH | op e IH | op l r IHl IHr | f args ddd IHf IHa | e name IH
                 | e i IH IHi | e args IH IHa | e lo hi mx IH IHlo IHhi IHmx] using exp_ind_nested;
    cbn [to_node shape]; unfold n_ident, n_basic, n_operation, mk, nopt, nlist, nnone;
    rewrite !erase_Nd; cbn [map]; rewrite ?erase_Nd; cbn [map];
    repeat match goal with H : Ast.erase _ = shape _ |- _ => rewrite H; clear H end;
    try reflexivity.
  - assert (Hm : map (@erase A C) (map (to_node a) args) = map shape args).
    { clear - IHa. induction IHa as [| x r Hx _ IH]; cbn [map]; [reflexivity |].
      rewrite Hx, IH. reflexivity. }
    rewrite Hm. destruct ddd; reflexivity.
  - assert (Hm : map (@erase A C) (map (to_node a) args) = map shape args).
    { clear - IHa. induction IHa as [| x r Hx _ IH]; cbn [map]; [reflexivity |].
      rewrite Hx, IH. reflexivity. }
    rewrite Hm. reflexivity.
  - destruct lo as [i |], hi as [j |], mx as [k |]; simpl in IHlo, IHhi, IHmx;
      rewrite ?IHlo, ?IHhi, ?IHmx; reflexivity.
Qed.

(* ------------------------------------------------------------ 7. the fragment is unambiguous *)

Lemma shape_inj : forall e1 e2, shape e1 = shape e2 -> e1 = e2.
Proof.
  induction e1 as [name | k text | e IH | op e IH | op l r IHl IHr | f args ddd IHf IHa | e name IH
                  | e i IH IHi | e args IH IHa | e lo hi mx IH IHlo IHhi IHmx] using exp_ind_nested;
    intros e2 H; destruct e2 as [name2 | k2 text2 | e2 | op2 e2 | op2 l2 r2 | f2 args2 ddd2
                                | e2 name2 | e2 i2 | e2 args2 | e2 lo2 hi2 mx2];
    try discriminate H;
    try (exfalso; injection H; intros;
         match goal with
         | Hx : nnone = shape ?r |- _ => destruct r; discriminate Hx
         | Hx : shape ?r = nnone |- _ => destruct r; discriminate Hx
         end).
  - injection H as ->. reflexivity.
  - injection H as -> ->. reflexivity.
  - injection H as H. rewrite (IH _ H). reflexivity.
  - injection H as -> H. rewrite (IH _ H). reflexivity.
  - injection H as -> Hl Hr. rewrite (IHl _ Hl), (IHr _ Hr). reflexivity.
  - injection H as Hf Ha Hd. rewrite (IHf _ Hf).
    assert (Hargs : args = args2).
    { clear - IHa Ha. revert args2 Ha.
      induction IHa as [| x r Hx _ IH]; intros [| y r2] Ha; try discriminate Ha; [reflexivity |].
      injection Ha as Hxy Hr. rewrite (Hx _ Hxy), (IH _ Hr). reflexivity. }
    assert (Hddd : ddd = ddd2) by (destruct ddd, ddd2; try reflexivity; discriminate Hd).
    rewrite Hargs, Hddd. reflexivity.
  - injection H as He ->. rewrite (IH _ He). reflexivity.
  - injection H as He Hi. rewrite (IH _ He), (IHi _ Hi). reflexivity.
  - injection H as He Ha. rewrite (IH _ He).
    assert (Hargs : args = args2).
    { clear - IHa Ha. revert args2 Ha.
      induction IHa as [| x r Hx _ IH]; intros [| y r2] Ha; try discriminate Ha; [reflexivity |].
      injection Ha as Hxy Hr. rewrite (Hx _ Hxy), (IH _ Hr). reflexivity. }
    rewrite Hargs. reflexivity.
  - injection H as He Hlo Hhi Hmx. rewrite (IH _ He).
    assert (Hopt : forall o o2, optP (fun e1 => forall e2, shape e1 = shape e2 -> e1 = e2) o ->
              match o with Some x => shape x | None => nnone end =
              match o2 with Some x => shape x | None => nnone end -> o = o2).
    { intros [x |] [y |] Hi Heq; simpl in Hi.
      - rewrite (Hi _ Heq). reflexivity.
      - destruct x; discriminate Heq.
      - destruct y; discriminate Heq.
      - reflexivity. }
    rewrite (Hopt _ _ IHlo Hlo), (Hopt _ _ IHhi Hhi), (Hopt _ _ IHmx Hmx). reflexivity.
Qed.

(* the round trip with the fuel bound in tokens, against [to_node] *)
Theorem expr_roundtrip_tokens : forall (A G D C E : Type) (OPS : ops A G D C) e,
  wf e -> depth e <= DEPTH_BOUND ->
  forall d a0 d0 (elems : list (selem A G)) ae ge (a : A),
    map tok_of elems = print e -> 3 * length elems + 2 <= d ->
    exists n s',
      entry_expression A G D C E OPS (parsers_at A G D C E OPS d)
        (init_state A G D E a0 d0 elems (TEof ae ge)) = Ok n s' /\
      erase n = erase (to_node (C := C) a e) /\
      s_cur A G D E s' = None /\ s_rest A G D E s' = [].
Proof.
  intros A G D C E OPS e Hwf Hb d a0 d0 elems ae ge a Hel Hd.
  rewrite erase_to_node.
  apply (expr_roundtrip A G D C E OPS e Hwf Hb d a0 d0 elems ae ge Hel).
  pose proof (need_le_tokens e) as H. rewrite <- Hel, map_length in H. lia.
Qed.

(* the demo instance of PrecProofs.v: positions = token indices, no comments *)
Lemma demo_stream_toks : forall l p, map tok_of (demo_stream p l) = l.
Proof. induction l as [| t r IH]; intro p; simpl; [reflexivity | rewrite IH; reflexivity]. Qed.

(* two well-formed derivations with the same printing are equal: on the
   fragment, [wf] singles out ONE derivation per token list *)
Theorem print_inj : forall e1 e2,
  wf e1 -> wf e2 -> depth e1 <= DEPTH_BOUND -> depth e2 <= DEPTH_BOUND ->
  print e1 = print e2 -> e1 = e2.
Proof.
  intros e1 e2 Hw1 Hw2 Hd1 Hd2 Hp.
  set (d := Nat.max (need e1) (need e2) + 2).
  destruct (expr_roundtrip nat unit unit unit unit demo_ops e1 Hw1 Hd1 d 0 tt
              (demo_stream 0 (print e1)) (length (print e1)) tt (demo_stream_toks _ _))
    as (n1 & s1 & H1 & E1 & _); [unfold d; lia |].
  destruct (expr_roundtrip nat unit unit unit unit demo_ops e2 Hw2 Hd2 d 0 tt
              (demo_stream 0 (print e1)) (length (print e1)) tt)
    as (n2 & s2 & H2 & E2 & _); [rewrite Hp; apply demo_stream_toks | unfold d; lia |].
  rewrite H1 in H2. injection H2 as Hn _. subst n2.
  apply shape_inj. rewrite <- E1, <- E2. reflexivity.
Qed.

(* the same, through the demo parser, for examples *)
Definition demo_shape (l : list token) : option (node unit unit) :=
  match demo_parse l with Some n => Some (erase n) | None => None end.
