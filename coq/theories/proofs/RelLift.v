(* RELATIONAL LIFTING FRAMEWORK for Core.v: two runs of the same production in
   lock-step.

   A simulation is a family [R k : pstate -> pstate -> Prop], [k : bool].  The
   ghost says how much the two states are known to agree on: [R true] (after a
   token move: next / goback) implies [R k] for every k ([sc_weaken]); the
   backtracking mark may be read ([preback]) only under [R true] ([sc_mark]).
   For relations that do not talk about the mark the ghost is ignored.

   From the closure facts about the PRIMITIVES ([sim_closed]: the observations
   s_cur / s_rest / s_spos / s_d / s_started / s_depth / level_nonneg agree, and
   next, goback, line_end_comment, the level updates, upd_cur _ None, upd_d,
   upd_depth keep the relation) the framework derives, for EVERY production and
   loop p of [step self],

       R k s1 s2  ->  res_rel (R k) (R k) (p s1) (p s2)

   ([res_rel]: the two outcomes are of the same kind, carry the SAME value /
   error / panic code, and related end states), given the same of the fields of
   [self] ([RGood], [RGood_step]); hence for [parsers_at d] at every depth
   ([RGood_parsers_at]) and for parse_top_decl, decls_loop, parse_file and the
   entry points.  The loop of parse_interface_type continues from an Err state:
   no problem here, the Err states are related as well.  The two productions
   that read the mark (parse_type_spec, interface_loop) do so after a token move
   of their own; interface_loop is therefore stated at ghost [true] only.

   The tactic [rsteps] walks through both runs at once: observations of the
   second state are rewritten into observations of the first ([obs_with]), after
   which both sides branch on syntactically equal scrutinees. *)
From Coq Require Import List Bool Arith Lia.
From GoSyn Require Import Token Tok Ast Core.
From GoSyn.proofs Require Import Lift.
Import ListNotations.

(* ------------------------------------------------------------------ res_rel *)

Section RelPost.
Variables (A G D E : Type).
Notation pstate := (Core.pstate A G D E).
Notation res := (Core.res A G D E).

Definition res_rel {X} (P Pe : pstate -> pstate -> Prop) (r1 r2 : res X) : Prop :=
  match r1, r2 with
  | Ok x1 t1, Ok x2 t2 => x1 = x2 /\ P t1 t2
  | Err e1 t1, Err e2 t2 => e1 = e2 /\ Pe t1 t2
  | Panic n1, Panic n2 => n1 = n2
  | Fuel, Fuel => True
  | _, _ => False
  end.

Lemma rel_ok X (P Pe : pstate -> pstate -> Prop) (x1 x2 : X) t1 t2 :
  x1 = x2 -> P t1 t2 -> res_rel P Pe (Ok x1 t1) (Ok x2 t2).
Proof. simpl; auto. Qed.
Lemma rel_err X (P Pe : pstate -> pstate -> Prop) e1 e2 t1 t2 :
  e1 = e2 -> Pe t1 t2 -> res_rel P Pe (@Err _ _ _ _ X e1 t1) (@Err _ _ _ _ X e2 t2).
Proof. simpl; auto. Qed.

Lemma rel_weaken X (P P' Pe Pe' : pstate -> pstate -> Prop) (r1 r2 : res X) :
  res_rel P' Pe' r1 r2 -> (forall a b, P' a b -> P a b) -> (forall a b, Pe' a b -> Pe a b) ->
  res_rel P Pe r1 r2.
Proof. destruct r1, r2; simpl; intuition. Qed.

Lemma rel_weaken_err X (P Pe Pe' : pstate -> pstate -> Prop) (r1 r2 : res X) :
  res_rel P Pe' r1 r2 -> (forall a b, Pe' a b -> Pe a b) -> res_rel P Pe r1 r2.
Proof. destruct r1, r2; simpl; intuition. Qed.

Lemma rel_bind X Y (P P' Pe : pstate -> pstate -> Prop) (m1 m2 : res X)
      (f1 f2 : X -> pstate -> res Y) :
  res_rel P' Pe m1 m2 ->
  (forall x t1 t2, P' t1 t2 -> res_rel P Pe (f1 x t1) (f2 x t2)) ->
  res_rel P Pe (bind m1 f1) (bind m2 f2).
Proof.
  destruct m1, m2; simpl; try tauto.
  intros [<- H] Hf. apply Hf, H.
Qed.

Lemma rel_bind_ok X Y (P Pe : pstate -> pstate -> Prop) (x : X) t1 t2
      (f1 f2 : X -> pstate -> res Y) :
  res_rel P Pe (f1 x t1) (f2 x t2) -> res_rel P Pe (bind (Ok x t1) f1) (bind (Ok x t2) f2).
Proof. exact (fun H => H). Qed.

Lemma rel_bind_err X Y (P Pe : pstate -> pstate -> Prop) e1 e2 t1 t2
      (f1 f2 : X -> pstate -> res Y) :
  e1 = e2 -> Pe t1 t2 -> res_rel P Pe (bind (Err e1 t1) f1) (bind (Err e2 t2) f2).
Proof. simpl; auto. Qed.

Lemma rel_bind_assoc X Y Z (P Pe : pstate -> pstate -> Prop) (m1 m2 : res X)
      (g1 g2 : X -> pstate -> res Y) (f1 f2 : Y -> pstate -> res Z) :
  res_rel P Pe (bind m1 (fun x s => bind (g1 x s) f1)) (bind m2 (fun x s => bind (g2 x s) f2)) ->
  res_rel P Pe (bind (bind m1 g1) f1) (bind (bind m2 g2) f2).
Proof. destruct m1, m2; simpl; auto. Qed.

(* a [match] on a result that also continues from the Err state *)
Lemma rel_res_match X Y (P P1 Pe Pe1 : pstate -> pstate -> Prop) (m1 m2 : res X)
      (fo1 fo2 : X -> pstate -> res Y) (fe1 fe2 : perr A E -> pstate -> res Y) :
  res_rel P1 Pe1 m1 m2 ->
  (forall x t1 t2, P1 t1 t2 -> res_rel P Pe (fo1 x t1) (fo2 x t2)) ->
  (forall e t1 t2, Pe1 t1 t2 -> res_rel P Pe (fe1 e t1) (fe2 e t2)) ->
  res_rel P Pe (match m1 with Ok x s => fo1 x s | Err e s => fe1 e s
                         | Panic n => Panic n | Fuel => Fuel end)
               (match m2 with Ok x s => fo2 x s | Err e s => fe2 e s
                         | Panic n => Panic n | Fuel => Fuel end).
Proof.
  destruct m1, m2; simpl; try tauto.
  - intros [<- H] Hf _. apply Hf, H.
  - intros [<- H] _ Hf. apply Hf, H.
Qed.

(* reading a related pair of results *)
Lemma rel_Ok_inv X (P Pe : pstate -> pstate -> Prop) (r1 r2 : res X) x t1 :
  res_rel P Pe r1 r2 -> r1 = Ok x t1 -> exists t2, r2 = Ok x t2 /\ P t1 t2.
Proof. intros H ->. destruct r2; simpl in H; try contradiction. destruct H as [<- H]. eauto. Qed.
Lemma rel_Err_inv X (P Pe : pstate -> pstate -> Prop) (r1 r2 : res X) e t1 :
  res_rel P Pe r1 r2 -> r1 = Err e t1 -> exists t2, r2 = Err e t2 /\ Pe t1 t2.
Proof. intros H ->. destruct r2; simpl in H; try contradiction. destruct H as [<- H]. eauto. Qed.
Lemma rel_Panic_inv X (P Pe : pstate -> pstate -> Prop) (r1 r2 : res X) n :
  res_rel P Pe r1 r2 -> r1 = Panic n -> r2 = Panic n.
Proof. intros H ->. destruct r2; simpl in H; try contradiction. congruence. Qed.
Lemma rel_Fuel_inv X (P Pe : pstate -> pstate -> Prop) (r1 r2 : res X) :
  res_rel P Pe r1 r2 -> r1 = Fuel -> r2 = Fuel.
Proof. intros H ->. destruct r2; simpl in H; try contradiction. reflexivity. Qed.

(* a symmetric relation gives the other direction *)
Lemma rel_sym X (P Pe : pstate -> pstate -> Prop) (r1 r2 : res X) :
  (forall a b, P a b -> P b a) -> (forall a b, Pe a b -> Pe b a) ->
  res_rel P Pe r1 r2 -> res_rel P Pe r2 r1.
Proof. intros HP HPe. destruct r1, r2; simpl; intuition. Qed.

End RelPost.

Arguments res_rel {A G D E X}.

(* ------------------------------------------------------------------ what a simulation provides *)

Section SimClosed.
Variables (A G D C E : Type) (OPS : ops A G D C).
Notation pstate := (Core.pstate A G D E).
Variable R : bool -> pstate -> pstate -> Prop.

Record sim_closed : Prop := {
  sc_weaken : forall k a b, R true a b -> R k a b;
  (* what productions look at directly *)
  sc_cur : forall k a b, R k a b -> s_cur b = s_cur a;
  sc_rest : forall k a b, R k a b -> s_rest b = s_rest a;
  sc_spos : forall k a b, R k a b -> s_spos b = s_spos a;
  sc_d : forall k a b, R k a b -> s_d b = s_d a;
  sc_started : forall k a b, R k a b -> s_started b = s_started a;
  sc_depth : forall k a b, R k a b -> s_depth b = s_depth a;
  sc_nonneg : forall k a b, R k a b -> level_nonneg b = level_nonneg a;
  (* the mark may be read after a token move only *)
  sc_mark : forall a b, R true a b -> s_mark b = s_mark a;
  (* the level *)
  sc_inc : forall k a b site, R k a b -> res_rel (R k) (R k) (inc_level a site) (inc_level b site);
  sc_dec : forall k a b, R k a b -> R k (dec_level a) (dec_level b);
  sc_reset : forall k a b, R k a b -> R k (reset_level a) (reset_level b);
  (* each run restores the pair it saved itself *)
  sc_restore : forall k a b a' b', R k a b -> R k a' b' ->
      R k (upd_level a' (s_lp a) (s_ln a)) (upd_level b' (s_lp b) (s_ln b));
  sc_upd_depth : forall k a b n, R k a b -> R k (upd_depth a n) (upd_depth b n);
  sc_upd_cur : forall k a b, R k a b -> R k (upd_cur a None) (upd_cur b None);
  sc_upd_d : forall k a b d, R k a b -> R k (upd_d a d) (upd_d b d);
  (* token moves *)
  sc_next : forall k a b, R k a b -> res_rel (R true) (R k) (next OPS a) (next OPS b);
  sc_goback : forall k m a b, R k a b -> res_rel (R true) (R k) (goback OPS m a) (goback OPS m b);
  sc_line_end : forall k c a b, R k a b ->
      res_rel (R k) (R k) (line_end_comment OPS c a) (line_end_comment OPS c b)
}.
End SimClosed.
Arguments sim_closed {A G D C E} OPS R.

(* ------------------------------------------------------------------ the framework *)

Create HintDb rlift discriminated.

Section RelLift.
Variables (A G D C E : Type) (OPS : ops A G D C).
Notation pstate := (Core.pstate A G D E).
Notation res := (Core.res A G D E).
Notation parsers := (Core.parsers A G D C E).
Notation selem := (Core.selem A G).
Notation nodeT := (node A C).

Variable R : bool -> pstate -> pstate -> Prop.
Hypothesis HC : sim_closed OPS R.

(* both runs of a production end alike *)
Notation rpres p := (forall k s1 s2, R k s1 s2 -> res_rel (R k) (R k) (p s1) (p s2)).

Lemma H_weaken : forall k a b, R true a b -> R k a b.
Proof. destruct HC; assumption. Qed.
Lemma O_cur : forall k a b, R k a b -> s_cur b = s_cur a.
Proof. destruct HC; assumption. Qed.
Lemma O_rest : forall k a b, R k a b -> s_rest b = s_rest a.
Proof. destruct HC; assumption. Qed.
Lemma O_spos : forall k a b, R k a b -> s_spos b = s_spos a.
Proof. destruct HC; assumption. Qed.
Lemma O_d : forall k a b, R k a b -> s_d b = s_d a.
Proof. destruct HC; assumption. Qed.
Lemma O_started : forall k a b, R k a b -> s_started b = s_started a.
Proof. destruct HC; assumption. Qed.
Lemma O_depth : forall k a b, R k a b -> s_depth b = s_depth a.
Proof. destruct HC; assumption. Qed.
Lemma O_nonneg : forall k a b, R k a b -> level_nonneg b = level_nonneg a.
Proof. destruct HC; assumption. Qed.
Lemma O_mark : forall a b, R true a b -> s_mark b = s_mark a.
Proof. destruct HC; assumption. Qed.
Lemma H_inc : forall k a b site, R k a b -> res_rel (R k) (R k) (inc_level a site) (inc_level b site).
Proof. destruct HC; assumption. Qed.
Lemma H_dec : forall k a b, R k a b -> R k (dec_level a) (dec_level b).
Proof. destruct HC; assumption. Qed.
Lemma H_reset : forall k a b, R k a b -> R k (reset_level a) (reset_level b).
Proof. destruct HC; assumption. Qed.
Lemma H_restore : forall k a b a' b', R k a b -> R k a' b' ->
  R k (upd_level a' (s_lp a) (s_ln a)) (upd_level b' (s_lp b) (s_ln b)).
Proof. destruct HC; assumption. Qed.
Lemma H_upd_depth : forall k a b n, R k a b -> R k (upd_depth a n) (upd_depth b n).
Proof. destruct HC; assumption. Qed.
Lemma H_upd_cur : forall k a b, R k a b -> R k (upd_cur a None) (upd_cur b None).
Proof. destruct HC; assumption. Qed.
Lemma H_upd_d : forall k a b d, R k a b -> R k (upd_d a d) (upd_d b d).
Proof. destruct HC; assumption. Qed.
Lemma H_next_up : forall k a b, R k a b -> res_rel (R true) (R k) (next OPS a) (next OPS b).
Proof. destruct HC; assumption. Qed.
Lemma H_goback_up : forall k m a b, R k a b -> res_rel (R true) (R k) (goback OPS m a) (goback OPS m b).
Proof. destruct HC; assumption. Qed.
Lemma H_line_end : forall k c a b, R k a b ->
  res_rel (R k) (R k) (line_end_comment OPS c a) (line_end_comment OPS c b).
Proof. destruct HC; assumption. Qed.

Lemma H_next : forall k a b, R k a b -> res_rel (R k) (R k) (next OPS a) (next OPS b).
Proof.
  intros k a b H. eapply rel_weaken; [ apply H_next_up, H | apply H_weaken | auto ].
Qed.
Lemma H_goback : forall k m a b, R k a b -> res_rel (R k) (R k) (goback OPS m a) (goback OPS m b).
Proof.
  intros k m a b H. eapply rel_weaken; [ apply H_goback_up, H | apply H_weaken | auto ].
Qed.

(* ---- derived observations ---- *)

Lemma O_cur_is k a b : R k a b -> forall tk, cur_is b tk = cur_is a tk.
Proof. intros H tk. unfold cur_is. rewrite (O_cur _ _ _ H). reflexivity. Qed.
Lemma O_cur_not k a b : R k a b -> forall tk, cur_not b tk = cur_not a tk.
Proof. intros H tk. unfold cur_not. rewrite (O_cur_is _ _ _ H). reflexivity. Qed.
Lemma O_cur_pos k a b : R k a b -> cur_pos b = cur_pos a.
Proof. intros H. unfold cur_pos. rewrite (O_cur _ _ _ H), (O_spos _ _ _ H). reflexivity. Qed.
Lemma O_loop_fuel k a b : R k a b -> loop_fuel b = loop_fuel a.
Proof. intros H. unfold loop_fuel. rewrite (O_rest _ _ _ H). reflexivity. Qed.
Lemma O_else_error k a b : R k a b -> forall site, else_error b site = else_error a site.
Proof. intros H site. unfold else_error. rewrite (O_spos _ _ _ H). reflexivity. Qed.
Lemma O_unexpected k a b : R k a b -> forall c site, unexpected b c site = unexpected a c site.
Proof. intros H c site. unfold unexpected. rewrite (O_spos _ _ _ H). reflexivity. Qed.
Lemma O_stmt_list_end k a b : R k a b -> stmt_list_end b = stmt_list_end a.
Proof. intros H. unfold stmt_list_end. rewrite (O_cur _ _ _ H). reflexivity. Qed.
Lemma O_check_brace k a b : R k a b -> forall x : nodeT, check_brace x b = check_brace x a.
Proof. intros H x. unfold check_brace. rewrite (O_nonneg _ _ _ H). reflexivity. Qed.
Lemma O_prev_end k a b : R k a b -> prev_end b = prev_end a.
Proof. intros H. unfold prev_end. rewrite (O_started _ _ _ H), (O_spos _ _ _ H). reflexivity. Qed.
Lemma O_preback a b : R true a b -> preback b = preback a.
Proof. intros H. unfold preback. apply O_mark, H. Qed.

Lemma rel_drain k s1 s2 :
  R k s1 s2 ->
  exists c t1 t2, drain OPS s1 = (c, t1) /\ drain OPS s2 = (c, t2) /\ R k t1 t2.
Proof.
  intros H. unfold drain. rewrite (O_d _ _ _ H). destruct (d_drain OPS (s_d s1)) as [c d].
  exists c, (upd_d s1 d), (upd_d s2 d). auto using H_upd_d.
Qed.

(* ---- tactics (local to this section) ---- *)

Local Hint Resolve H_dec H_reset H_restore H_upd_depth H_upd_cur H_upd_d
      H_inc H_next H_goback H_line_end : rlift.

(* rewrite what the second state shows into what the first one shows *)
Ltac obs_with H :=
  rewrite ?(O_cur _ _ _ H), ?(O_cur_is _ _ _ H), ?(O_cur_not _ _ _ H), ?(O_cur_pos _ _ _ H),
          ?(O_loop_fuel _ _ _ H), ?(O_else_error _ _ _ H), ?(O_unexpected _ _ _ H),
          ?(O_stmt_list_end _ _ _ H), ?(O_check_brace _ _ _ H), ?(O_depth _ _ _ H),
          ?(O_started _ _ _ H), ?(O_spos _ _ _ H), ?(O_rest _ _ _ H);
  try rewrite ?(O_preback _ _ H).

Ltac obs_all :=
  repeat match goal with
         | H : R _ ?a ?b |- context [?b] => progress obs_with H
         end.

(* name the states [reset_level s] / [upd_cur s None] that productions look at *)
Ltac abs_states :=
  repeat match goal with
         | H : R ?k ?a ?b |- context [reset_level ?b] =>
             let Hu := fresh "Hu" in
             pose proof (H_reset _ _ _ H) as Hu;
             let u1 := fresh "u" in set (u1 := reset_level a) in *;
             let u2 := fresh "u" in set (u2 := reset_level b) in *;
             clearbody u1 u2; obs_with Hu
         | H : R ?k ?a ?b |- context [dec_level ?b] =>
             let Hu := fresh "Hu" in
             pose proof (H_dec _ _ _ H) as Hu;
             let u1 := fresh "u" in set (u1 := dec_level a) in *;
             let u2 := fresh "u" in set (u2 := dec_level b) in *;
             clearbody u1 u2; obs_with Hu
         | H : R ?k ?a ?b |- context [upd_cur ?b None] =>
             let Hu := fresh "Hu" in
             pose proof (H_upd_cur _ _ _ H) as Hu;
             let u1 := fresh "u" in set (u1 := upd_cur a None) in *;
             let u2 := fresh "u" in set (u2 := upd_cur b None) in *;
             clearbody u1 u2; obs_with Hu
         end.

Ltac rst_solve :=
  solve [ eassumption | eauto 7 with rlift | apply H_weaken; solve [ eassumption | eauto 7 with rlift ] ].

Ltac rcall_solve :=
  solve [ eauto 7 with rlift
        | eapply rel_weaken_err; [ solve [ eauto 7 with rlift ] | intros ? ? ?; rst_solve ] ].

Ltac fixup := first [ progress obs_all | progress abs_states ].

Ltac rdrain a b :=
  match goal with
  | H : R _ a b |- _ =>
      let c := fresh "c" in let t1 := fresh "t" in let t2 := fresh "t" in
      let E1 := fresh "E" in let E2 := fresh "E" in let Ht := fresh "Ht" in
      destruct (rel_drain _ _ _ H) as (c & t1 & t2 & E1 & E2 & Ht);
      rewrite E1, E2; clear E1 E2; cbv beta iota; obs_with Ht
  end.

Ltac rstep1 :=
  lazymatch goal with
  | |- res_rel _ _ (Ok _ _) (Ok _ _) =>
      first [ apply rel_ok; [ reflexivity | rst_solve ] | fixup ]
  | |- res_rel _ _ (Err _ _) (Err _ _) =>
      first [ apply rel_err; [ reflexivity | rst_solve ] | fixup ]
  | |- res_rel _ _ (Panic _) (Panic _) => exact eq_refl
  | |- res_rel _ _ Fuel Fuel => exact I
  | |- res_rel _ _ (bind (Ok _ _) _) (bind (Ok _ _) _) =>
      first [ apply rel_bind_ok; cbv beta; obs_all | fixup ]
  | |- res_rel _ _ (bind (Err _ _) _) (bind (Err _ _) _) =>
      first [ apply rel_bind_err; [ reflexivity | rst_solve ] | fixup ]
  | |- res_rel _ _ (bind (Panic _) _) (bind (Panic _) _) => exact eq_refl
  | |- res_rel _ _ (bind Fuel _) (bind Fuel _) => exact I
  | |- res_rel _ _ (bind (bind _ _) _) (bind (bind _ _) _) => apply rel_bind_assoc; cbv beta
  | |- res_rel _ _ (bind (if ?b1 then _ else _) _) (bind (if ?b2 then _ else _) _) =>
      tryif constr_eq b1 b2 then destruct b1 else fixup
  | |- res_rel _ _ (bind (match ?x1 with _ => _ end) _) (bind (match ?x2 with _ => _ end) _) =>
      tryif constr_eq x1 x2 then destruct x1 else fixup
  | |- res_rel _ _ (bind _ _) (bind _ _) =>
      eapply rel_bind;
      [ rcall_solve
      | let x := fresh "x" in let t1 := fresh "t" in let t2 := fresh "t" in
        let Ht := fresh "Ht" in intros x t1 t2 Ht; obs_with Ht ]
  | |- res_rel _ _ (if ?b1 then _ else _) (if ?b2 then _ else _) =>
      tryif constr_eq b1 b2 then destruct b1 else fixup
  | |- res_rel _ _ (match drain _ ?a with _ => _ end) (match drain _ ?b with _ => _ end) =>
      rdrain a b
  | |- res_rel _ _ (match ?x1 with _ => _ end) (match ?x2 with _ => _ end) =>
      tryif constr_eq x1 x2 then destruct x1 else fixup
  | |- res_rel _ _ _ _ => rcall_solve
  end.

Ltac rsteps := cbv beta zeta; abs_states; repeat (rstep1; cbv beta zeta).

Tactic Notation "rprod" reference(f) :=
  let H := fresh "H" in
  intros ? ? ? H; unfold f; hide_nats; cbv beta zeta; obs_with H; rsteps.
Tactic Notation "rfloop" reference(f) ident(fuel) :=
  let H := fresh "H" in
  induction fuel; intros *; intros H;
  [ exact I | cbn [f]; hide_nats; cbv beta zeta; obs_with H; rsteps ].

(* ---- primitives ---- *)

Lemma L_inc_level site : rpres (fun s => inc_level s site).
Proof. intros k s1 s2 H. apply H_inc, H. Qed.

(* Parser::nested around a body that behaves alike in both runs *)
Lemma L_nested X site (f : pstate -> res X) :
  rpres f -> rpres (nested site f).
Proof.
  intros Hf k s1 s2 H. unfold nested. cbv zeta. cbn [s_depth upd_depth].
  rewrite (O_depth _ _ _ H).
  assert (H1 : R k (upd_depth s1 (S (s_depth s1))) (upd_depth s2 (S (s_depth s1)))).
  { apply H_upd_depth, H. }
  rewrite (O_else_error _ _ _ H1).
  destruct (S MAX_NESTING <=? S (s_depth s1)).
  - apply rel_err; [ reflexivity | ]. apply H_upd_depth, H1.
  - pose proof (Hf _ _ _ H1) as Hb.
    destruct (f (upd_depth s1 (S (s_depth s1)))) as [x t1|e t1|n|],
             (f (upd_depth s2 (S (s_depth s1)))) as [x' t2|e' t2|n'|]; simpl in Hb |- *;
      try contradiction; auto.
    + destruct Hb as [<- Hb]. split; [ reflexivity | ].
      rewrite (O_depth _ _ _ Hb). apply H_upd_depth, Hb.
    + destruct Hb as [<- Hb]. split; [ reflexivity | ].
      rewrite (O_depth _ _ _ Hb). apply H_upd_depth, Hb.
Qed.

Lemma L_cur_tok site : rpres (fun s => cur_tok s site).
Proof. intros k s1 s2 H. unfold cur_tok. obs_with H. rsteps. Qed.
Local Hint Resolve L_cur_tok : rlift.

(* expect / identifier: after success the two runs have moved, ghost [true] *)
Lemma L_expect_up tk site k s1 s2 :
  R k s1 s2 -> res_rel (R true) (R k) (expect OPS tk site s1) (expect OPS tk site s2).
Proof.
  intros H. unfold expect. cbv zeta. obs_with H. abs_states.
  destruct (s_cur s1) as [[p t]|]; [ destruct (tok_is t tk) | ].
  - eapply rel_bind; [ apply H_next_up; eassumption | ].
    intros x t1 t2 Ht. apply rel_ok; [ reflexivity | exact Ht ].
  - apply rel_err; [ reflexivity | assumption ].
  - apply rel_err; [ reflexivity | assumption ].
Qed.
Lemma L_expect tk site : rpres (expect OPS tk site).
Proof.
  intros k s1 s2 H. eapply rel_weaken; [ apply L_expect_up, H | apply H_weaken | auto ].
Qed.
Local Hint Resolve L_expect : rlift.

Lemma L_skipped tk : rpres (skipped OPS tk).
Proof. rprod skipped. Qed.
Local Hint Resolve L_skipped : rlift.

Lemma L_identifier_up site k s1 s2 :
  R k s1 s2 -> res_rel (R true) (R k) (identifier OPS site s1) (identifier OPS site s2).
Proof.
  intros H. unfold identifier. cbv zeta. obs_with H. abs_states.
  destruct (s_cur s1) as [[p [?|?|?|[] name]]|];
    try (apply rel_err; [ reflexivity | assumption ]).
  eapply rel_bind; [ apply H_next_up; eassumption | ].
  intros x t1 t2 Ht. apply rel_ok; [ reflexivity | exact Ht ].
Qed.
Lemma L_identifier site : rpres (identifier OPS site).
Proof.
  intros k s1 s2 H. eapply rel_weaken; [ apply L_identifier_up, H | apply H_weaken | auto ].
Qed.
Local Hint Resolve L_identifier : rlift.

(* ---- leaf parsers (no recursion through [self]) ---- *)

Lemma L_identifier_list_loop : forall fuel acc, rpres (identifier_list_loop OPS fuel acc).
Proof. rfloop identifier_list_loop fuel. Qed.
Local Hint Resolve L_identifier_list_loop : rlift.

Lemma L_identifier_list first : rpres (identifier_list OPS first).
Proof. rprod identifier_list. Qed.
Local Hint Resolve L_identifier_list : rlift.

Lemma L_string_literal_or_none : rpres (string_literal_or_none OPS).
Proof. rprod string_literal_or_none. Qed.
Local Hint Resolve L_string_literal_or_none : rlift.

Lemma L_string_literal site : rpres (string_literal OPS site).
Proof. rprod string_literal. Qed.
Local Hint Resolve L_string_literal : rlift.

Lemma L_literal : rpres (literal OPS).
Proof. rprod literal. Qed.
Local Hint Resolve L_literal : rlift.

Lemma L_check_field_list (fl : nodeT) trailing : rpres (check_field_list fl trailing).
Proof. rprod check_field_list. Qed.
Local Hint Resolve L_check_field_list : rlift.

Lemma L_check_single_expr (l : list nodeT) : rpres (check_single_expr l).
Proof. rprod check_single_expr. Qed.
Local Hint Resolve L_check_single_expr : rlift.

Lemma L_check_assign_stmt (l : list nodeT) : rpres (check_assign_stmt l).
Proof. induction l; intros k s1 s2 H; cbn [check_assign_stmt]; rsteps. Qed.
Local Hint Resolve L_check_assign_stmt : rlift.

Lemma L_is_type_switch (tg : option nodeT) : rpres (is_type_switch tg).
Proof. rprod is_type_switch. Qed.
Local Hint Resolve L_is_type_switch : rlift.

Lemma L_semi_unless_brace site : rpres (semi_unless_brace OPS site).
Proof. rprod semi_unless_brace. Qed.
Local Hint Resolve L_semi_unless_brace : rlift.

Lemma L_finish_field c names typ : rpres (finish_field OPS c names typ).
Proof. rprod finish_field. Qed.
Local Hint Resolve L_finish_field : rlift.

Lemma L_parse_branch_stmt key : rpres (parse_branch_stmt OPS key).
Proof. rprod parse_branch_stmt. Qed.
Local Hint Resolve L_parse_branch_stmt : rlift.

Lemma L_parse_package : rpres (parse_package OPS).
Proof. rprod parse_package. Qed.
Local Hint Resolve L_parse_package : rlift.

Lemma L_parse_import_spec : rpres (parse_import_spec OPS).
Proof. rprod parse_import_spec. Qed.
Local Hint Resolve L_parse_import_spec : rlift.

Lemma L_import_group_loop : forall fuel acc, rpres (import_group_loop OPS fuel acc).
Proof. rfloop import_group_loop fuel. Qed.
Local Hint Resolve L_import_group_loop : rlift.

Lemma L_parse_import_decl : rpres (parse_import_decl OPS).
Proof. rprod parse_import_decl. Qed.
Local Hint Resolve L_parse_import_decl : rlift.

Lemma L_imports_loop : forall fuel acc, rpres (imports_loop OPS fuel acc).
Proof. rfloop imports_loop fuel. Qed.
Local Hint Resolve L_imports_loop : rlift.

Lemma L_ensure_started : rpres (ensure_started OPS).
Proof. rprod ensure_started. Qed.
Local Hint Resolve L_ensure_started : rlift.



(* ---- what is known of a table of parsers ---- *)

Record RGood (self : parsers) : Prop := {
  rg_type : rpres (k_type self);
  rg_type_or_none : rpres (k_type_or_none self);
  rg_expr : rpres (k_expr self);
  rg_unary : rpres (k_unary self);
  rg_binary : forall p prec, rpres (k_binary self p prec);
  rg_litvalue : rpres (k_litvalue self);
  rg_block : rpres (k_block self);
  rg_stmt : rpres (k_stmt self);
  rg_if : rpres (k_if self)
}.

Lemma RGood_no_fuel : RGood (no_fuel A G D C E).
Proof. split; intros; exact I. Qed.

(* ---- one unfolding: every production of [step self] ---- *)

Section Step.
Variable self : parsers.
Hypothesis HG : RGood self.

Lemma S_type : rpres (k_type self). Proof. exact (rg_type _ HG). Qed.
Lemma S_type_or_none : rpres (k_type_or_none self). Proof. exact (rg_type_or_none _ HG). Qed.
Lemma S_expr : rpres (k_expr self). Proof. exact (rg_expr _ HG). Qed.
Lemma S_unary : rpres (k_unary self). Proof. exact (rg_unary _ HG). Qed.
Lemma S_binary p prec : rpres (k_binary self p prec). Proof. exact (rg_binary _ HG p prec). Qed.
Lemma S_litvalue : rpres (k_litvalue self). Proof. exact (rg_litvalue _ HG). Qed.
Lemma S_block : rpres (k_block self). Proof. exact (rg_block _ HG). Qed.
Lemma S_stmt : rpres (k_stmt self). Proof. exact (rg_stmt _ HG). Qed.
Lemma S_if : rpres (k_if self). Proof. exact (rg_if _ HG). Qed.
Local Hint Resolve S_type S_type_or_none S_expr S_unary S_binary S_litvalue S_block S_stmt S_if
  : rlift.

(* -- expressions and types -- *)

Lemma L_parse_next_level_expr : rpres (parse_next_level_expr self).
Proof.
  intros k s1 s2 H. unfold parse_next_level_expr.
  eapply rel_bind; [ rcall_solve | intros _ t1 t2 Ht ].
  eapply rel_res_match with (P1 := R k) (Pe1 := R k);
    [ auto with rlift | intros; rsteps .. ].
Qed.
Local Hint Resolve L_parse_next_level_expr : rlift.

Lemma L_comma_list_loop (item : pstate -> res nodeT) (Hitem : rpres item) :
  forall fuel acc, rpres (comma_list_loop OPS fuel item acc).
Proof. rfloop comma_list_loop fuel. Qed.
Local Hint Resolve L_comma_list_loop : rlift.

Lemma L_expression_list : rpres (expression_list OPS self).
Proof. rprod expression_list. Qed.
Local Hint Resolve L_expression_list : rlift.

Lemma L_parse_type_list : rpres (parse_type_list OPS self).
Proof. rprod parse_type_list. Qed.
Local Hint Resolve L_parse_type_list : rlift.

Lemma L_type_list_loop : forall fuel acc, rpres (type_list_loop OPS self fuel acc).
Proof. rfloop type_list_loop fuel. Qed.
Local Hint Resolve L_type_list_loop : rlift.

Lemma L_type_list strict : rpres (type_list OPS self strict).
Proof. rprod type_list. Qed.
Local Hint Resolve L_type_list : rlift.

Lemma L_type_instance (left : nodeT) : rpres (type_instance OPS self left).
Proof. rprod type_instance. Qed.
Local Hint Resolve L_type_instance : rlift.

Lemma L_qualified_ident (name : option nodeT) : rpres (qualified_ident OPS self name).
Proof. rprod qualified_ident. Qed.
Local Hint Resolve L_qualified_ident : rlift.

Lemma L_parse_type_term : rpres (parse_type_term OPS self).
Proof. rprod parse_type_term. Qed.
Local Hint Resolve L_parse_type_term : rlift.

Lemma L_type_elem_loop : forall fuel typ, rpres (type_elem_loop OPS self fuel typ).
Proof. rfloop type_elem_loop fuel. Qed.
Local Hint Resolve L_type_elem_loop : rlift.

Lemma L_parse_type_elem : rpres (parse_type_elem OPS self).
Proof. rprod parse_type_elem. Qed.
Local Hint Resolve L_parse_type_elem : rlift.

Lemma L_array_len : rpres (array_len OPS self).
Proof. rprod array_len. Qed.
Local Hint Resolve L_array_len : rlift.

Lemma L_array_or_typeargs : rpres (array_or_typeargs OPS self).
Proof. rprod array_or_typeargs. Qed.
Local Hint Resolve L_array_or_typeargs : rlift.

Lemma L_ellipsis_type : rpres (ellipsis_type OPS self).
Proof. rprod ellipsis_type. Qed.
Local Hint Resolve L_ellipsis_type : rlift.

Lemma L_param_decl_loop : forall fuel ewc ids, rpres (param_decl_loop OPS self fuel ewc ids).
Proof. rfloop param_decl_loop fuel. Qed.
Local Hint Resolve L_param_decl_loop : rlift.

Lemma L_parse_parameter_decl : rpres (parse_parameter_decl OPS self).
Proof. rprod parse_parameter_decl. Qed.
Local Hint Resolve L_parse_parameter_decl : rlift.

Lemma L_params_loop : forall fuel close acc, rpres (params_loop OPS self fuel close acc).
Proof. rfloop params_loop fuel. Qed.
Local Hint Resolve L_params_loop : rlift.

Lemma L_params_list open close : rpres (params_list OPS self open close).
Proof. rprod params_list. Qed.
Local Hint Resolve L_params_list : rlift.

Lemma L_parameters : rpres (parameters OPS self).
Proof. rprod parameters. Qed.
Local Hint Resolve L_parameters : rlift.

Lemma L_type_parameters : rpres (type_parameters OPS self).
Proof. rprod type_parameters. Qed.
Local Hint Resolve L_type_parameters : rlift.

Lemma L_parse_result : rpres (parse_result OPS self).
Proof. rprod parse_result. Qed.
Local Hint Resolve L_parse_result : rlift.

Lemma L_signature : rpres (signature OPS self).
Proof. rprod signature. Qed.
Local Hint Resolve L_signature : rlift.

Lemma L_func_type : rpres (func_type OPS self).
Proof. rprod func_type. Qed.
Local Hint Resolve L_func_type : rlift.

Lemma L_type_params_loop : forall fuel acc, rpres (type_params_loop OPS self fuel acc).
Proof. rfloop type_params_loop fuel. Qed.
Local Hint Resolve L_type_params_loop : rlift.

Lemma L_parse_type_parameters : rpres (parse_type_parameters OPS self).
Proof. rprod parse_type_parameters. Qed.
Local Hint Resolve L_parse_type_parameters : rlift.

Lemma L_field_decl : rpres (field_decl OPS self).
Proof. rprod field_decl. Qed.
Local Hint Resolve L_field_decl : rlift.

Lemma L_struct_loop : forall fuel acc, rpres (struct_loop OPS self fuel acc).
Proof. rfloop struct_loop fuel. Qed.
Local Hint Resolve L_struct_loop : rlift.

Lemma L_struct_type : rpres (struct_type OPS self).
Proof. rprod struct_type. Qed.
Local Hint Resolve L_struct_type : rlift.

Lemma L_parse_method_elem : rpres (parse_method_elem OPS self).
Proof. rprod parse_method_elem. Qed.
Local Hint Resolve L_parse_method_elem : rlift.

(* the loop of parse_interface_type continues from the state an error of
   parse_method_elem left behind: the two error states are related as well.
   The mark is read at the head of every iteration: ghost [true]. *)
Lemma L_interface_loop : forall fuel acc s1 s2,
  R true s1 s2 ->
  res_rel (R true) (R true) (interface_loop OPS self fuel acc s1) (interface_loop OPS self fuel acc s2).
Proof.
  induction fuel as [|fuel IH]; intros acc s1 s2 H; [ exact I | ].
  cbn [interface_loop]. hide_nats. cbv beta zeta. obs_with H.
  rstep1; [ rsteps | ].
  rstep1; [ | rsteps ].
  eapply rel_res_match with (P1 := R true) (Pe1 := R true);
    [ auto with rlift | intros; rsteps | intros; rsteps ].
Qed.
Local Hint Resolve L_interface_loop : rlift.

Lemma L_parse_interface_type : rpres (parse_interface_type OPS self).
Proof.
  intros k s1 s2 H. unfold parse_interface_type. hide_nats.
  eapply rel_bind; [ apply L_expect_up, H | intros pos t1 t2 Ht; obs_with Ht ].
  rsteps.
Qed.
Local Hint Resolve L_parse_interface_type : rlift.

Lemma L_type_or_none_body : rpres (type_or_none_body OPS self).
Proof. rprod type_or_none_body. Qed.
Local Hint Resolve L_type_or_none_body : rlift.

Lemma L_type_body : rpres (type_body self).
Proof. rprod type_body. Qed.
Local Hint Resolve L_type_body : rlift.

Lemma L_parse_element_value : rpres (parse_element_value self).
Proof. rprod parse_element_value. Qed.
Local Hint Resolve L_parse_element_value : rlift.

Lemma L_parse_element : rpres (parse_element OPS self).
Proof. rprod parse_element. Qed.
Local Hint Resolve L_parse_element : rlift.

Lemma L_lit_value_loop : forall fuel acc, rpres (lit_value_loop OPS self fuel acc).
Proof. rfloop lit_value_loop fuel. Qed.
Local Hint Resolve L_lit_value_loop : rlift.

Lemma L_lit_value_body : rpres (lit_value_body OPS self).
Proof. rprod lit_value_body. Qed.
Local Hint Resolve L_lit_value_body : rlift.

Lemma L_index_comma_loop : forall fuel acc, rpres (index_comma_loop OPS self fuel acc).
Proof. rfloop index_comma_loop fuel. Qed.
Local Hint Resolve L_index_comma_loop : rlift.

Lemma L_parse_slice_index_or_type_inst : rpres (parse_slice_index_or_type_inst OPS self).
Proof. rprod parse_slice_index_or_type_inst. Qed.
Local Hint Resolve L_parse_slice_index_or_type_inst : rlift.

Lemma L_call_args_loop : forall fuel args ewc, rpres (call_args_loop OPS self fuel args ewc).
Proof. rfloop call_args_loop fuel. Qed.
Local Hint Resolve L_call_args_loop : rlift.

Lemma L_primary_step (x : nodeT) : rpres (primary_step OPS self x).
Proof. rprod primary_step. Qed.
Local Hint Resolve L_primary_step : rlift.

Lemma L_primary_loop : forall fuel x, rpres (primary_loop OPS self fuel x).
Proof. rfloop primary_loop fuel. Qed.
Local Hint Resolve L_primary_loop : rlift.

Lemma L_operand : rpres (operand OPS self).
Proof. rprod operand. Qed.
Local Hint Resolve L_operand : rlift.

Lemma L_primary_expression (p : option nodeT) : rpres (primary_expression OPS self p).
Proof. rprod primary_expression. Qed.
Local Hint Resolve L_primary_expression : rlift.

Lemma L_unary_body : rpres (unary_body OPS self).
Proof. rprod unary_body. Qed.
Local Hint Resolve L_unary_body : rlift.

Lemma L_binary_loop : forall fuel prec x, rpres (binary_loop OPS self fuel prec x).
Proof. rfloop binary_loop fuel. Qed.
Local Hint Resolve L_binary_loop : rlift.

Lemma L_binary_body (p : option nodeT) prec : rpres (binary_body OPS self p prec).
Proof. rprod binary_body. Qed.
Local Hint Resolve L_binary_body : rlift.

Lemma L_expr_body : rpres (expr_body self).
Proof. rprod expr_body. Qed.
Local Hint Resolve L_expr_body : rlift.

(* -- statements -- *)

Lemma L_parse_range_expr : rpres (parse_range_expr OPS self).
Proof. rprod parse_range_expr. Qed.
Local Hint Resolve L_parse_range_expr : rlift.

Lemma L_parse_simple_stmt : rpres (parse_simple_stmt OPS self).
Proof. rprod parse_simple_stmt. Qed.
Local Hint Resolve L_parse_simple_stmt : rlift.

Lemma L_stmts_until_brace : forall fuel acc, rpres (stmts_until_brace self fuel acc).
Proof. rfloop stmts_until_brace fuel. Qed.
Local Hint Resolve L_stmts_until_brace : rlift.

Lemma L_block_body : rpres (block_body OPS self).
Proof. rprod block_body. Qed.
Local Hint Resolve L_block_body : rlift.

Lemma L_stmt_list_loop : forall fuel acc, rpres (stmt_list_loop self fuel acc).
Proof. rfloop stmt_list_loop fuel. Qed.
Local Hint Resolve L_stmt_list_loop : rlift.

Lemma L_parse_stmt_list : rpres (parse_stmt_list self).
Proof. rprod parse_stmt_list. Qed.
Local Hint Resolve L_parse_stmt_list : rlift.

Lemma L_parse_go_defer is_go : rpres (parse_go_defer OPS self is_go).
Proof. rprod parse_go_defer. Qed.
Local Hint Resolve L_parse_go_defer : rlift.

Lemma L_parse_return_stmt : rpres (parse_return_stmt OPS self).
Proof. rprod parse_return_stmt. Qed.
Local Hint Resolve L_parse_return_stmt : rlift.

Lemma L_parse_if_header : rpres (parse_if_header OPS self).
Proof. rprod parse_if_header. Qed.
Local Hint Resolve L_parse_if_header : rlift.

Lemma L_if_body : rpres (if_body OPS self).
Proof. rprod if_body. Qed.
Local Hint Resolve L_if_body : rlift.

Lemma L_case_block_loop : forall fuel ta acc, rpres (case_block_loop OPS self fuel ta acc).
Proof. rfloop case_block_loop fuel. Qed.
Local Hint Resolve L_case_block_loop : rlift.

Lemma L_parse_case_block ta : rpres (parse_case_block OPS self ta).
Proof. rprod parse_case_block. Qed.
Local Hint Resolve L_parse_case_block : rlift.

Lemma L_parse_switch_stmt : rpres (parse_switch_stmt OPS self).
Proof. rprod parse_switch_stmt. Qed.
Local Hint Resolve L_parse_switch_stmt : rlift.

Lemma L_parse_comm_stmt : rpres (parse_comm_stmt OPS self).
Proof. rprod parse_comm_stmt. Qed.
Local Hint Resolve L_parse_comm_stmt : rlift.

Lemma L_comm_block_loop : forall fuel acc, rpres (comm_block_loop OPS self fuel acc).
Proof. rfloop comm_block_loop fuel. Qed.
Local Hint Resolve L_comm_block_loop : rlift.

Lemma L_parse_select_stmt : rpres (parse_select_stmt OPS self).
Proof. rprod parse_select_stmt. Qed.
Local Hint Resolve L_parse_select_stmt : rlift.

Lemma L_parse_for_stmt : rpres (parse_for_stmt OPS self).
Proof. rprod parse_for_stmt. Qed.
Local Hint Resolve L_parse_for_stmt : rlift.

(* -- declarations -- *)

Lemma L_parse_type_spec : rpres (parse_type_spec OPS self).
Proof.
  intros k s1 s2 H. unfold parse_type_spec. hide_nats. cbv beta zeta.
  rstep1.
  eapply rel_bind; [ apply L_identifier_up; eassumption | intros name t1 t2 Ht1; obs_with Ht1 ].
  rsteps.
Qed.
Local Hint Resolve L_parse_type_spec : rlift.

Lemma L_parse_var_spec : rpres (parse_var_spec OPS self).
Proof. rprod parse_var_spec. Qed.
Local Hint Resolve L_parse_var_spec : rlift.

Lemma L_parse_const_spec index : rpres (parse_const_spec OPS self index).
Proof. rprod parse_const_spec. Qed.
Local Hint Resolve L_parse_const_spec : rlift.

Lemma L_parse_spec sk index : rpres (parse_spec OPS self sk index).
Proof. rprod parse_spec. Qed.
Local Hint Resolve L_parse_spec : rlift.

Lemma L_decl_group_loop : forall fuel sk index acc, rpres (decl_group_loop OPS self fuel sk index acc).
Proof. rfloop decl_group_loop fuel. Qed.
Local Hint Resolve L_decl_group_loop : rlift.

Lemma L_parse_decl sk : rpres (parse_decl OPS self sk).
Proof. rprod parse_decl. Qed.
Local Hint Resolve L_parse_decl : rlift.

Lemma L_parse_func_decl : rpres (parse_func_decl OPS self).
Proof. rprod parse_func_decl. Qed.
Local Hint Resolve L_parse_func_decl : rlift.

Lemma L_stmt_body : rpres (stmt_body OPS self).
Proof. rprod stmt_body. Qed.
Local Hint Resolve L_stmt_body : rlift.

(* -- file level and entry points -- *)

Lemma L_parse_top_decl : rpres (parse_top_decl OPS self).
Proof. rprod parse_top_decl. Qed.
Local Hint Resolve L_parse_top_decl : rlift.

Lemma L_decls_loop : forall fuel acc, rpres (decls_loop OPS self fuel acc).
Proof. rfloop decls_loop fuel. Qed.
Local Hint Resolve L_decls_loop : rlift.

Lemma L_parse_file : rpres (parse_file OPS self).
Proof. rprod parse_file. Qed.
Local Hint Resolve L_parse_file : rlift.

Lemma L_entry_expression : rpres (entry_expression OPS self).
Proof. rprod entry_expression. Qed.
Local Hint Resolve L_entry_expression : rlift.

Lemma L_entry_stmt : rpres (entry_stmt OPS self).
Proof. rprod entry_stmt. Qed.
Local Hint Resolve L_entry_stmt : rlift.


Lemma RGood_step : RGood (step OPS self).
Proof.
  split; cbn [step k_type k_type_or_none k_expr k_unary k_binary k_litvalue k_block k_stmt k_if];
    try apply L_nested; auto with rlift.
Qed.

End Step.

(* ---- closing the recursion ---- *)

Theorem RGood_parsers_at d : RGood (parsers_at OPS d).
Proof. induction d; cbn [parsers_at]; [ exact RGood_no_fuel | apply RGood_step; assumption ]. Qed.

Theorem rel_parse_top_decl d : rpres (parse_top_decl OPS (parsers_at OPS d)).
Proof. apply L_parse_top_decl, RGood_parsers_at. Qed.
Theorem rel_decls_loop d fuel acc : rpres (decls_loop OPS (parsers_at OPS d) fuel acc).
Proof. apply L_decls_loop, RGood_parsers_at. Qed.
Theorem rel_parse_file d : rpres (parse_file OPS (parsers_at OPS d)).
Proof. apply L_parse_file, RGood_parsers_at. Qed.
Theorem rel_entry_expression d : rpres (entry_expression OPS (parsers_at OPS d)).
Proof. apply L_entry_expression, RGood_parsers_at. Qed.
Theorem rel_entry_stmt d : rpres (entry_stmt OPS (parsers_at OPS d)).
Proof. apply L_entry_stmt, RGood_parsers_at. Qed.

End RelLift.

Arguments RGood {A G D C E} R self.
