(* INVARIANT 2: the nesting level (Parser.expr_level = s_lp - s_ln - 1) is
   restored by every production that succeeds.

   The Rust code increments the level and leaves through `?` without
   decrementing it (type_, type_list, parse_lit_value, parse_block_stmt, ...),
   and the if / for / switch headers run at level -1 and restore the saved level
   only on success.  So at Err the level is arbitrary ([level_leak_on_err]
   below).  The one place where the parser goes on after an error is
   parse_interface_type (`if let Ok(..) = self.parse_method_elem()`): the error
   state, leaked level included, is kept and the element is re-parsed as a type
   element.  The theorem nevertheless holds without exception, because a leak
   needs `ident (` (parse_method_elem changes the level only after its `(`),
   and then the type-element path stops in front of that `(` and fails
   ([interface_loop_level]). *)
From Coq Require Import List Bool Arith ZArith Lia.
From GoSyn Require Import Token Tok Ast Core.
From GoSyn.proofs Require Import Lift.
Import ListNotations.

(* reduce the projections of an updated state, and nothing else *)
Ltac sproj :=
  cbn [s_cur s_rest s_mark s_term s_spos s_lp s_ln s_d s_started s_depth
       upd_cur upd_d upd_level upd_depth dec_level reset_level].

Section Level.
Variables (A G D C E : Type) (OPS : ops A G D C).
Notation pstate := (Core.pstate A G D E).
Notation res := (Core.res A G D E).
Notation parsers := (Core.parsers A G D C E).
Notation nodeT := (node A C).

(* expr_level + 1 *)
Definition lvl (s : pstate) : Z := Z.of_nat (s_lp s) - Z.of_nat (s_ln s).

(* the mark is the stream from the current token on (when there is one) *)
Definition cur_mark (s : pstate) : Prop :=
  match s_cur s with
  | None => True
  | Some (p, t) => exists a1 g, s_mark s = SE p a1 t g :: s_rest s
  end.

Definition LInv (n : Z) (s : pstate) : Prop := lvl s = n /\ cur_mark s.
Definition LInvE (n : Z) (s : pstate) : Prop := True.

Lemma level_inv_closed :
  inv_closed OPS LInv LInvE (fun n => n + 1)%Z (fun _ => 0%Z) (fun n => n).
Proof.
  unfold LInv, LInvE, lvl, cur_mark. split; try (intros; exact I).
  - intros k s [H1 H2]. sproj. split; [ lia | exact H2 ].
  - intros k s [H1 H2]. sproj. split; [ lia | exact H2 ].
  - intros k s [H1 H2]. sproj. split; [ lia | exact H2 ].
  - intros k s s' [H1 H2] [H3 H4]. sproj. split; [ lia | exact H4 ].
  - intros k s _ H. exact H.
  - intros k s H. exact H.
  - intros k s [H1 H2]. cbn. auto.
  - intros k s c s'. unfold drain. destruct (d_drain OPS (s_d s)). intros [= _ <-] H. exact H.
  - intros k s [H1 H2]. unfold next.
    destruct (s_rest s) as [|[a0 a1 t g] r] eqn:Hrest; [ destruct (s_term s) | ]; cbn; eauto.
  - intros k s0 s _ [H1 H2]. unfold goback, preback.
    destruct (s_mark s0) as [|[a0 a1 t g] r]; [ destruct (s_term s) | ]; cbn; eauto.
  - intros c k s [H1 H2]. unfold line_end_comment.
    destruct (negb _); [ cbn; auto | ].
    destruct (s_rest s) as [|[a0 a1 t g] r] eqn:Hrest; [ destruct (s_term s) | ];
      try destruct (d_line_end _ _ _ _ _ _) as [[? ?] ?]; cbn; eauto.
Qed.

(* ------------------------------------------------------------ what the interface loop needs
   to know of [self]: a type that starts with an identifier followed by `(`
   ends in front of that `(` *)

Definition at_ident_paren (s : pstate) : Prop :=
  exists p name a0 a1 g r,
    s_cur s = Some (p, TLiteral LIdent name) /\
    s_rest s = SE a0 a1 (TOperator OParenLeft) g :: r.

Definition cur_paren (s : pstate) : Prop := exists p, s_cur s = Some (p, TOperator OParenLeft).

Definition TypeStop (self : parsers) : Prop :=
  (forall s t s', at_ident_paren s -> k_type self s = Ok t s' -> cur_paren s') /\
  (forall s t s', at_ident_paren s -> k_type_or_none self s = Ok (Some t) s' -> cur_paren s').

Lemma TypeStop_no_fuel : TypeStop (no_fuel A G D C E).
Proof. split; intros; discriminate. Qed.

Lemma nested_ok X site (f : pstate -> res X) s x s' :
  nested site f s = Ok x s' ->
  exists s2, f (upd_depth s (S (s_depth s))) = Ok x s2 /\ s' = upd_depth s2 (pred (s_depth s2)).
Proof.
  unfold nested. cbv zeta. destruct (_ <=? _); [ discriminate | ].
  destruct (f _); try discriminate. intros [= <- <-]. eauto.
Qed.

Lemma type_or_none_body_stop self s t s' :
  at_ident_paren s -> type_or_none_body OPS self s = Ok (Some t) s' -> cur_paren s'.
Proof.
  intros (p & name & a0 & a1 & g & r & Hc & Hr).
  unfold type_or_none_body. rewrite Hc.
  destruct (is_blank name); [ discriminate | ].
  unfold qualified_ident, identifier. rewrite Hc.
  unfold next. cbn [s_rest upd_cur]. rewrite Hr. cbn [bind].
  unfold skipped, cur_is. cbn [s_cur tok_is]. cbn [bind].
  change (op_eqb OParenLeft ODot) with false. change (op_eqb OParenLeft OBarackLeft) with false.
  cbn [bind]. intros [= <- <-]. eexists. reflexivity.
Qed.

Lemma TypeStop_step self : TypeStop self -> TypeStop (step OPS self).
Proof.
  intros [HT HTN]. split; cbn [step k_type k_type_or_none].
  - intros s t s' Hs. unfold type_body, inc_level.
    destruct (_ <=? _); [ discriminate | ]. cbn [bind].
    destruct (k_type_or_none self _) as [[t0|] s2| | |] eqn:Hk; cbn [bind]; try discriminate.
    intros [= <- <-]. eapply HTN in Hk; [ exact Hk | exact Hs ].
  - intros s t s' Hs Hn. apply nested_ok in Hn as (s2 & Hf & ->).
    apply type_or_none_body_stop in Hf; [ exact Hf | exact Hs ].
Qed.

(* ------------------------------------------------------------ the caught error *)

Lemma post_not_ok X (P : pstate -> Prop) (r : res X) :
  (forall x s, r <> Ok x s) -> post P (fun _ => True) r.
Proof. destruct r; simpl; auto. intros H. exfalso. eapply H. reflexivity. Qed.

(* parse_method_elem fails with the level untouched unless `(` follows the name *)
Lemma method_elem_err self s e s1 :
  cur_is s (KLit LIdent) = true ->
  parse_method_elem OPS self s = Err e s1 ->
  lvl s1 = lvl s \/
  exists a0 a1 g r, s_rest s = SE a0 a1 (TOperator OParenLeft) g :: r.
Proof.
  unfold cur_is. destruct (s_cur s) as [[p t]|] eqn:Hc; [ | discriminate ].
  destruct t as [?|?|?|lk name]; try discriminate. destruct lk; try discriminate. intros _.
  unfold parse_method_elem, identifier. rewrite Hc. unfold next. sproj.
  destruct (s_rest s) as [|[a0 a1 t g] r] eqn:Hr.
  - destruct (s_term s); cbn [bind].
    + unfold signature, parameters, params_list, expect. cbn [s_cur bind].
      intros [= _ <-]. left. reflexivity.
    + intros [= _ <-]. left. reflexivity.
  - cbn [bind]. unfold signature, parameters, params_list, expect. cbn [s_cur].
    destruct (tok_is t (KOp OParenLeft)) eqn:Ht.
    + right. destruct t as [?|?|o|? ?]; try discriminate. destruct o; try discriminate. eauto.
    + cbn [bind]. intros [= _ <-]. left. reflexivity.
Qed.

Lemma cur_paren_is (s : pstate) o :
  cur_paren s -> cur_is s (KOp o) = op_eqb OParenLeft o.
Proof. intros [p H]. unfold cur_is. rewrite H. reflexivity. Qed.

(* after going back to `ident (`, the type-element path cannot succeed *)
Lemma type_elem_path_fails self (HT : TypeStop self) site s1 (f : nodeT -> pstate -> res (list nodeT)) :
  at_ident_paren s1 ->
  forall x s',
    bind (parse_type_elem OPS self s1)
         (fun typ s2 => bind (semi_unless_brace OPS site s2) (fun _ s3 => f typ s3)) <> Ok x s'.
Proof.
  intros Hs x s'. destruct HT as [HT _].
  unfold parse_type_elem, parse_type_term, skipped.
  destruct Hs as (p & name & a0 & a1 & g & r & Hc & Hr).
  unfold cur_is at 1. rewrite Hc. cbn [tok_is bind].
  destruct (k_type self s1) as [t s2| | |] eqn:Hk; cbn [bind]; try discriminate.
  apply HT in Hk; [ | repeat eexists; eassumption ].
  unfold loop_fuel. cbn [type_elem_loop]. rewrite (cur_paren_is _ _ Hk).
  change (op_eqb OParenLeft OOr) with false. cbn [bind].
  unfold semi_unless_brace. rewrite (cur_paren_is _ _ Hk).
  change (op_eqb OParenLeft OBraceRight) with false.
  unfold expect. destruct Hk as [p' Hk]. rewrite Hk. cbn [tok_is].
  change (op_eqb OParenLeft OSemiColon) with false. cbn [bind]. discriminate.
Qed.

Notation lpres p := (forall k s, LInv k s -> post (LInv k) (LInvE k) (p s)).

Lemma interface_loop_level self :
  TypeStop self -> Good LInv LInvE self ->
  forall fuel acc, lpres (interface_loop OPS self fuel acc).
Proof.
  intros HT HG.
  pose proof (L_parse_method_elem _ _ _ _ _ OPS _ _ _ _ _ _ level_inv_closed self HG) as Hme.
  pose proof (L_parse_type_elem _ _ _ _ _ OPS _ _ _ _ _ _ level_inv_closed self HG) as Hte.
  pose proof (L_semi_unless_brace _ _ _ _ _ OPS _ _ _ _ _ _ level_inv_closed) as Hsb.
  pose proof (ic_goback level_inv_closed) as Hgb.
  induction fuel as [|fuel IH]; intros acc k s H; [ exact I | ].
  cbn [interface_loop]. hide_nats. cbv zeta.
  mstep1; [ msteps | ].
  mstep1; [ | msteps ].
  match goal with Hc : cur_is s (KLit LIdent) = true |- _ => rename Hc into Hident end.
  pose proof (Hme k s H) as Hp.
  destruct (parse_method_elem OPS self s) as [field s1|e s1| |] eqn:Hm; try exact I.
  - (* a method *) simpl in Hp. msteps.
  - (* the caught error *)
    destruct (method_elem_err _ _ _ _ Hident Hm) as [Hl | (a0 & a1 & g & r & Hr)].
    + (* level untouched: the current token of s1 is irrelevant to goback *)
      change (goback OPS (preback s) s1) with (goback OPS (preback s) (upd_cur s1 None)).
      assert (H1 : LInv k (upd_cur s1 None)).
      { destruct H as [H _]. split; [ | exact I ]. unfold lvl in *. sproj. lia. }
      msteps.
    + (* `ident (`: the type-element path fails, the leaked level is never seen *)
      apply post_not_ok. intros x s'.
      destruct H as [_ Hcm]. unfold cur_mark in Hcm. unfold cur_is in Hident.
      destruct (s_cur s) as [[p t]|] eqn:Hc; [ | discriminate ].
      destruct t as [?|?|?|lk name]; try discriminate. destruct lk; try discriminate.
      destruct Hcm as (a1' & g' & Hmark).
      unfold goback, preback. rewrite Hmark. cbn [bind].
      apply type_elem_path_fails; [ exact HT | ].
      repeat eexists. sproj. exact Hr.
Qed.

(* ------------------------------------------------------------ the theorem *)

Theorem level_Good d : Good LInv LInvE (parsers_at OPS d).
Proof.
  apply (Good_parsers_at _ _ _ _ _ OPS _ _ _ _ _ _ level_inv_closed TypeStop).
  - exact TypeStop_no_fuel.
  - intros self H _. apply TypeStop_step, H.
  - intros self HT HG. apply interface_loop_level; assumption.
Qed.

Lemma TypeStop_parsers_at d : TypeStop (parsers_at OPS d).
Proof.
  apply (parsers_at_ind _ _ _ _ _ OPS TypeStop); [ exact TypeStop_no_fuel | exact TypeStop_step ].
Qed.

(* from the L_ lemma of any production to the statement about its end points *)
Lemma level_of_pres X (p : pstate -> res X) :
  lpres p ->
  forall s x s', cur_mark s -> p s = Ok x s' ->
  (s_lp s' + s_ln s = s_lp s + s_ln s')%nat /\ cur_mark s'.
Proof.
  intros Hp s x s' Hc H. specialize (Hp (lvl s) s (conj eq_refl Hc)). rewrite H in Hp.
  destruct Hp as [Hl Hc']. split; [ unfold lvl in Hl; lia | exact Hc' ].
Qed.

(* the nine mutually recursive productions, at every depth *)
Theorem level_restored_fields d :
  let P := parsers_at OPS d in
  let restores X (p : pstate -> res X) :=
    forall s x s', cur_mark s -> p s = Ok x s' ->
    (s_lp s' + s_ln s = s_lp s + s_ln s')%nat /\ cur_mark s' in
  restores _ (k_type P) /\ restores _ (k_type_or_none P) /\ restores _ (k_expr P) /\
  restores _ (k_unary P) /\ (forall p prec, restores _ (k_binary P p prec)) /\
  restores _ (k_litvalue P) /\ restores _ (k_block P) /\ restores _ (k_stmt P) /\
  restores _ (k_if P).
Proof.
  intros P restores. destruct (level_Good d).
  unfold restores, P. repeat apply conj; try intros p prec; apply level_of_pres; auto.
Qed.

Let HC := level_inv_closed.

(* entry points *)
Theorem level_restored_parse_file d s x s' :
  cur_mark s -> parse_file OPS (parsers_at OPS d) s = Ok x s' ->
  (s_lp s' + s_ln s = s_lp s + s_ln s')%nat /\ cur_mark s'.
Proof. apply level_of_pres. eapply L_parse_file; [ exact HC | apply level_Good ]. Qed.
Theorem level_restored_expression d s x s' :
  cur_mark s -> entry_expression OPS (parsers_at OPS d) s = Ok x s' ->
  (s_lp s' + s_ln s = s_lp s + s_ln s')%nat /\ cur_mark s'.
Proof. apply level_of_pres. eapply L_entry_expression; [ exact HC | apply level_Good ]. Qed.
Theorem level_restored_stmt d s x s' :
  cur_mark s -> entry_stmt OPS (parsers_at OPS d) s = Ok x s' ->
  (s_lp s' + s_ln s = s_lp s + s_ln s')%nat /\ cur_mark s'.
Proof. apply level_of_pres. eapply L_entry_stmt; [ exact HC | apply level_Good ]. Qed.

(* the productions that save / reset / restore, or catch *)
Theorem level_restored_if_header d s x s' :
  cur_mark s -> parse_if_header OPS (parsers_at OPS d) s = Ok x s' ->
  (s_lp s' + s_ln s = s_lp s + s_ln s')%nat /\ cur_mark s'.
Proof. apply level_of_pres. eapply L_parse_if_header; [ exact HC | apply level_Good ]. Qed.
Theorem level_restored_switch d s x s' :
  cur_mark s -> parse_switch_stmt OPS (parsers_at OPS d) s = Ok x s' ->
  (s_lp s' + s_ln s = s_lp s + s_ln s')%nat /\ cur_mark s'.
Proof. apply level_of_pres. eapply L_parse_switch_stmt; [ exact HC | apply level_Good ]. Qed.
Theorem level_restored_for d s x s' :
  cur_mark s -> parse_for_stmt OPS (parsers_at OPS d) s = Ok x s' ->
  (s_lp s' + s_ln s = s_lp s + s_ln s')%nat /\ cur_mark s'.
Proof. apply level_of_pres. eapply L_parse_for_stmt; [ exact HC | apply level_Good ]. Qed.
Theorem level_restored_interface_type d s x s' :
  cur_mark s -> parse_interface_type OPS (parsers_at OPS d) s = Ok x s' ->
  (s_lp s' + s_ln s = s_lp s + s_ln s')%nat /\ cur_mark s'.
Proof.
  apply level_of_pres. eapply L_parse_interface_type; [ exact HC | ].
  apply interface_loop_level; [ apply TypeStop_parsers_at | apply level_Good ].
Qed.
Theorem level_restored_type_spec d s x s' :
  cur_mark s -> parse_type_spec OPS (parsers_at OPS d) s = Ok x s' ->
  (s_lp s' + s_ln s = s_lp s + s_ln s')%nat /\ cur_mark s'.
Proof. apply level_of_pres. eapply L_parse_type_spec; [ exact HC | apply level_Good ]. Qed.
Theorem level_restored_top_decl d s x s' :
  cur_mark s -> parse_top_decl OPS (parsers_at OPS d) s = Ok x s' ->
  (s_lp s' + s_ln s = s_lp s + s_ln s')%nat /\ cur_mark s'.
Proof. apply level_of_pres. eapply L_parse_top_decl; [ exact HC | apply level_Good ]. Qed.

Lemma cur_mark_init a0 d0 elems (term : sterm A G E) : cur_mark (init_state a0 d0 elems term).
Proof. exact I. Qed.

(* a successful parse_file ends at the level it started with: expr_level = 0 *)
Corollary parse_file_level a0 d0 elems (term : sterm A G E) d x s' :
  parse_file OPS (parsers_at OPS d) (init_state a0 d0 elems term) = Ok x s' ->
  s_lp s' = S (s_ln s').
Proof.
  intros H. apply level_restored_parse_file in H; [ | exact I ]. cbn in H. lia.
Qed.

End Level.

Arguments lvl {A G D E} s.
Arguments cur_mark {A G D E} s.
Arguments LInv {A G D E} n s.
Arguments LInvE {A G D E} n s.
Arguments TypeStop {A G D C E} self.

(* ------------------------------------------------------------ witnesses: at Err the level
   is NOT restored (positions nat, no comments, trivial ops) *)

Module LevelWitness.

Definition tops : ops nat unit unit unit :=
  {| d_next := fun d _ _ _ => d; d_goback := fun d => d; d_drain := fun d => (tt, d);
     d_line_end := fun d _ g _ c => (c, g, d); c_empty := tt; a_plus2 := fun a => a + 2 |}.
Fixpoint stream_from (n : nat) (l : list token) : list (selem nat unit) :=
  match l with [] => [] | t :: r => SE n (S n) t tt :: stream_from (S n) r end.
(* init_state: s_lp = 1, s_ln = 0, i.e. expr_level = 0 *)
Definition start (l : list token) : pstate nat unit unit unit :=
  init_state 0 tt (stream_from 0 l) (TEof (length l) tt).
Definition id_ (c : N) : token := TLiteral LIdent [c].

(* (is it Ok?, s_lp, s_ln) of the final state *)
Definition outcome {X} (r : res nat unit unit unit X) : option (bool * nat * nat) :=
  match r with
  | Ok _ s => Some (true, s_lp s, s_ln s)
  | Err _ s => Some (false, s_lp s, s_ln s)
  | _ => None
  end.

(* `[ )` as an expression: type_ increments, array_len fails, `?` leaves: expr_level 0 -> 1 *)
Example level_leak_on_err :
  outcome (entry_expression tops (parsers_at tops 8)
             (start [TOperator OBarackLeft; TOperator OParenRight]))
  = Some (false, 3, 1).
Proof. vm_compute. reflexivity. Qed.

(* `if A )`: the header runs at level -1 and the error path does not restore: 0 -> -1 *)
Example level_reset_on_err :
  outcome (entry_stmt tops (parsers_at tops 12)
             (start [TKeyword KIf; id_ 65; TOperator OParenRight]))
  = Some (false, 0, 0).
Proof. vm_compute. reflexivity. Qed.

(* `interface { f ( [ ) }`: parse_method_elem fails inside its parameters with a
   leaked level; the error is dropped, the state kept (expr_level 0 -> 2 at
   the end); re-parsing `f` as a type element stops at `(` and fails. *)
Example level_leak_caught_then_fails :
  outcome (entry_expression tops (parsers_at tops 12)
             (start [TKeyword KInterface; TOperator OBraceLeft; id_ 102; TOperator OParenLeft;
                     TOperator OBarackLeft; TOperator OParenRight; TOperator OBraceRight]))
  = Some (false, 5, 2).
Proof. vm_compute. reflexivity. Qed.

(* `interface { A | B }`: the caught error (no `(` after A) leaves the level alone *)
Example level_catch_ok :
  outcome (entry_expression tops (parsers_at tops 12)
             (start [TKeyword KInterface; TOperator OBraceLeft; id_ 65; TOperator OOr; id_ 66;
                     TOperator OBraceRight]))
  = Some (true, 4, 3).
Proof. vm_compute. reflexivity. Qed.

End LevelWitness.
