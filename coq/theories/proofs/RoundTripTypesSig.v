(* Round trip for types, the function-type production: parameters (named and
   unnamed lists), check_field_list, parse_result, signature, func_type. *)
From Coq Require Import List Arith NArith Lia Bool.
From GoSyn Require Import Token Tok Ast Core.
From GoSyn.spec Require Import Prec Print Print2.
From GoSyn.proofs Require Import PrecProofs RoundTripProofs RoundTripTypesBase RoundTripTypesAot.
Import ListNotations.

(* ------------------------------------------------------------ trees and their erasure *)

Section Nodes.
Variables (A C : Type).
Notation nodeT := (node A C).
Notation erase := (@erase A C).

Lemma erase_kids : forall n : nodeT, n_kids (erase n) = map erase (n_kids n).
Proof. intros [t ps ats d ks]. reflexivity. Qed.

Lemma erase_ps_nil : forall n : nodeT, n_ps (erase n) = [] -> n_ps n = [].
Proof. intros [t [| p ps] ats d ks] H; [reflexivity | discriminate H]. Qed.

Lemma erase_ps_cons : forall (n : nodeT) u l, n_ps (erase n) = u :: l -> exists p r, n_ps n = p :: r.
Proof. intros [t [| p ps] ats d ks] u l H; [discriminate H | exists p, ps; reflexivity]. Qed.

Lemma kid_erase : forall (n : nodeT) i, kid (erase n) i = erase (kid n i).
Proof.
  intros n i. unfold kid. rewrite erase_kids.
  change (@nnone unit unit) with (erase nnone). apply map_nth.
Qed.

Lemma field_named_erase : forall f : nodeT, field_named unit unit (erase f) = field_named A C f.
Proof.
  intro f. unfold field_named. rewrite kid_erase, erase_kids, map_length. reflexivity.
Qed.

Lemma is_ellipsis_erase : forall f : nodeT,
  is_ellipsis_field unit unit (erase f) = is_ellipsis_field A C f.
Proof. intro f. unfold is_ellipsis_field. rewrite kid_erase. apply is_tag_erase. Qed.

Lemma check_fields_erase : forall named trailing (l : list nodeT),
  check_fields unit unit named trailing (map erase l) = check_fields A C named trailing l.
Proof.
  intros named trailing l. induction l as [| f r IH]; [reflexivity |].
  cbn [map check_fields]. rewrite field_named_erase, is_ellipsis_erase, map_length, IH. reflexivity.
Qed.

(* a tree whose erasure has a position has one *)
Lemma expr_pos_ps : forall (n : nodeT) u l,
  n_ps (erase n) = u :: l ->
  match n_tag n with
  | GSelector | GTypeAssert | GCompositeLit | GIndexList | GOperation | GFuncLit | GList => False
  | _ => True
  end -> expr_pos A C n <> None.
Proof.
  intros n u l H Ht. destruct (erase_ps_cons n u l H) as (p & r & Hp).
  destruct n as [t ps ats d ks]. simpl in Hp. subst ps. simpl in Ht |- *.
  destruct t; try destruct Ht; discriminate.
Qed.
End Nodes.

(* ------------------------------------------------------------ check_field_list, on the spec side *)

Section Fields.
Variable X : Type.
Variable shapeX : X -> shapeT.
Notation typ := (typ X).
Notation shapeTy := (shapeTy shapeX).
Notation shapeG := (shapeG shapeX).

Lemma shapeTy_not_ellipsis : forall t : typ, is_tag GEllipsis (shapeTy t) = false.
Proof. intro t. destruct t; try reflexivity. destruct s; reflexivity. Qed.

Lemma field_named_shapeG : forall g : group typ,
  field_named unit unit (shapeG g) = negb (Nat.eqb (length (group_names g)) 0).
Proof.
  intros [names v t]. unfold field_named. cbn. rewrite map_length. reflexivity.
Qed.

Lemma is_ellipsis_shapeG : forall g : group typ,
  is_ellipsis_field unit unit (shapeG g) = group_var g.
Proof.
  intros [names [|] t]; unfold is_ellipsis_field; cbn; [reflexivity |].
  apply shapeTy_not_ellipsis.
Qed.

Lemma check_fields_shape : forall trailing (l : list (group typ)) (named : bool),
  params_form trailing l ->
  (if named then all_named l else all_unnamed l) ->
  check_fields unit unit named trailing (map shapeG l) = None.
Proof.
  intros trailing l named. induction l as [| g r IH]; intros Hform Hall; [reflexivity |].
  cbn [map check_fields]. rewrite field_named_shapeG, is_ellipsis_shapeG, map_length.
  destruct Hform as (Hv & Hform).
  assert (Hn : Bool.eqb (negb (negb (Nat.eqb (length (group_names g)) 0))) named = false).
  { destruct named; destruct Hall as (Hg & _); destruct (group_names g); simpl;
      try reflexivity; try (exfalso; apply Hg; reflexivity); discriminate Hg. }
  rewrite Hn.
  assert (He : group_var g && (negb (Nat.eqb (length r) 0) || negb trailing) = false).
  { destruct (group_var g); [| reflexivity]. destruct (Hv eq_refl) as (-> & -> & _). reflexivity. }
  rewrite He. apply IH; [exact Hform |]. destruct named; exact (proj2 Hall).
Qed.

(* every type tree has a position *)
Lemma shapeTy_pos : forall (A C : Type) (n : node A C) (t : typ),
  erase n = shapeTy t -> expr_pos A C n <> None.
Proof.
  intros A C n t He.
  assert (Htag : n_tag n = n_tag (shapeTy t)) by (rewrite <- He; destruct n; reflexivity).
  assert (Hps : n_ps (erase n) = n_ps (shapeTy t)) by (rewrite He; reflexivity).
  destruct t as [name | pkg name | b args | t | t | x t | t | k v | dir t | t | [ps paren rs] | fs | es];
    try (cbn in Hps, Htag; apply (expr_pos_ps A C n _ _ Hps); rewrite Htag; exact I).
  destruct n as [tg ps ats d ks]. cbn in He. injection He as Htg _ _ _ Hks. subst tg.
  destruct ks as [| k1 ks]; [discriminate Hks |]. cbn in Hks. injection Hks as Hk1 _. change (erase k1 = sh_ident pkg) in Hk1.
  cbn. apply (expr_pos_ps A C k1 tt []); [rewrite Hk1; reflexivity |].
  replace (n_tag k1) with (n_tag (erase k1)) by (destruct k1; reflexivity). rewrite Hk1. exact I.
Qed.
End Fields.

(* ------------------------------------------------------------ the productions *)

Section Sig.
Variables (A G D C E : Type).
Variable OPS : ops A G D C.
Notation nodeT := (node A C).
Notation pstateT := (pstate A G D E).
Notation cur := (s_cur A G D E).
Notation srest := (s_rest A G D E).
Notation sdepth := (s_depth A G D E).
Notation lp := (s_lp A G D E).
Notation ln := (s_ln A G D E).
Notation PA := (parsers_at A G D C E OPS).
Notation erase := (@erase A C).
Notation at_toks := (@at_toks A G D E).
Notation frame := (@frame A G D E).
Variable X : Type.
Variables (printX : X -> list token) (shapeX : X -> shapeT) (wfX : X -> Prop).
Variables (depthX needX : X -> nat).
Notation typ := (typ X).
Notation printT := (printT printX).
Notation printG := (printG printX).
Notation shapeTy := (shapeTy shapeX).
Notation shapeG := (shapeG shapeX).
Notation wfT := (wfT wfX).
Notation depthT := (depthT depthX).
Notation needT := (needT needX).
Notation TNP := (TNP A G D C E OPS X printX shapeX depthX needX).
Notation TP := (TP A G D C E OPS X printX shapeX depthX needX).
Notation TBP := (TBP A G D C E OPS X printX shapeX depthX needX).
Notation SigP := (SigP A G D C E OPS X printX shapeX depthX needX).
Notation XOK := (XOK A G D C E OPS X printX shapeX depthX needX).
Notation IHT := (IHT A G D C E OPS X printX shapeX wfX depthX needX).
Notation AOT := (array_or_typeargs A G D C E OPS).
Notation fieldOf := (field_of A G D C OPS).
Notation cempty := (c_empty A G D C OPS).
Notation PDL := (param_decl_loop A G D C E OPS).
Notation PPD := (parse_parameter_decl A G D C E OPS).
Notation PL := (params_loop A G D C E OPS).
Notation bnd := (bind A G D E).

(* ---- check_field_list *)

Lemma map_erase_nil : forall l : list nodeT, map erase l = [] -> l = [].
Proof. intros [| a l] H; [reflexivity | discriminate H]. Qed.

Theorem check_field_list_ok : forall (fl : nodeT) paren trailing (ps : list (group typ)) (s : pstateT),
  erase fl = shapeParams shapeX paren ps ->
  params_form trailing ps -> (all_named ps \/ all_unnamed ps) ->
  (paren = false -> ps = [] \/ exists t, ps = [Group [] false t]) ->
  check_field_list A G D C E fl trailing s = Ok fl s.
Proof.
  intros fl paren trailing ps s He Hform Hor Hbare.
  assert (Hkids : map erase (n_kids fl) = map shapeG ps).
  { rewrite <- erase_kids, He. reflexivity. }
  unfold check_field_list. destruct (n_kids fl) as [| first r] eqn:Hk; [reflexivity |].
  destruct ps as [| g ps']; [discriminate Hkids |].
  assert (Hfirst : erase first = shapeG g) by (cbn [map] in Hkids; injection Hkids as H _; exact H).
  assert (Hpos : exists p, fieldlist_pos A C fl = Some p).
  { unfold fieldlist_pos. destruct paren.
    - destruct (erase_ps_cons A C fl tt [tt]) as (p & r0 & Hp); [rewrite He; reflexivity |].
      rewrite Hp. eauto.
    - rewrite (erase_ps_nil A C fl) by (rewrite He; reflexivity). rewrite Hk.
      destruct (Hbare eq_refl) as [Hnil | (t & Ht)]; [discriminate Hnil |].
      injection Ht as -> ->.
      assert (H0 : n_kids (kid first 0) = []).
      { apply map_erase_nil. rewrite <- erase_kids, <- kid_erase, Hfirst. reflexivity. }
      rewrite H0.
      assert (H1 : erase (kid first 1) = shapeTy t) by (rewrite <- kid_erase, Hfirst; reflexivity).
      pose proof (shapeTy_pos X shapeX A C _ _ H1) as Hne.
      destruct (expr_pos A C (kid first 1)) as [p |]; [eauto | exfalso; apply Hne; reflexivity]. }
  destruct Hpos as (p & Hp). rewrite Hp.
  rewrite <- check_fields_erase, <- field_named_erase, Hkids, Hfirst, field_named_shapeG.
  rewrite (check_fields_shape X shapeX trailing (g :: ps')); [reflexivity | exact Hform |].
  destruct Hor as [Hn | Hu].
  - pose proof Hn as (Hg & _). destruct (group_names g); [exfalso; apply Hg; reflexivity |].
    exact Hn.
  - pose proof Hu as (Hg & _). rewrite Hg. exact Hu.
Qed.

(* ---- what the productions need of a parameter type *)

Definition TOK (t : typ) : Prop :=
  wfT t /\ TNP t /\
  (forall e, t = TSlice e -> TNP e) /\
  (forall x e, t = TArray x e -> XOK x /\ TNP e) /\
  (forall b args, t = TInst b args -> Forall (fun a => wfT a /\ TNP a) args).

Lemma IHT_TOK : forall n t, IHT n -> sizeT t < n -> wfT t -> allX XOK t -> TOK t.
Proof.
  intros n t IH Hsz Hwf Hall. split; [exact Hwf |]. split; [exact (IH t Hsz Hwf Hall) |].
  split; [| split].
  - intros e ->. apply IH; [simpl in Hsz; lia | exact Hwf | exact Hall].
  - intros x e ->. destruct Hwf as (_ & Hwe). destruct Hall as (Hx & He).
    split; [exact Hx |]. apply IH; [simpl in Hsz; lia | exact Hwe | exact He].
  - intros b args ->. destruct Hwf as (_ & _ & _ & Hwa). destruct Hall as (_ & Ha).
    apply allT_Forall in Hwa. apply allT_Forall in Ha. apply Forall_forall. intros a Hin.
    pose proof (proj1 (Forall_forall _ _) Hwa a Hin) as H1.
    pose proof (proj1 (Forall_forall _ _) Ha a Hin) as H2.
    split; [exact H1 |]. apply IH; [| exact H1 | exact H2].
    pose proof (sumT_In _ sizeT args a Hin). simpl in Hsz. lia.
Qed.

Definition fits (d : nat) (s : pstateT) (t : typ) : Prop :=
  needT t + 1 <= d /\ sdepth s + depthT t <= MAX_NESTING /\ ln s <= lp s /\ lp s + depthT t <= ln s + 64.

Lemma fits_frame : forall d s s' t, frame s s' -> fits d s t -> fits d s' t.
Proof. intros d s s' t Hf (H1 & H2 & H3). unfold fits. unframe. lia. Qed.

Lemma tp_fits : forall t, TOK t -> forall d (s : pstateT) rst,
  fits d s t -> at_toks s (printT t ++ rst) -> tfollow t rst ->
  exists n s1, k_type A G D C E (PA d) s = Ok n s1 /\ erase n = shapeTy t /\
               at_toks s1 rst /\ frame s s1.
Proof.
  intros t (_ & HN & _) d s rst (H1 & H2 & H3) Hat Hfo.
  exact (TNP_TP A G D C E OPS X printX shapeX depthX needX t HN d s rst H1 Hat Hfo H2 H3).
Qed.

(* after a parameter: "," or ")" *)
Definition pfollow (rst : list token) : Prop :=
  exists o r, rst = tk o :: r /\ (o = OComma \/ o = OParenRight).

Lemma pfollow_tfollow : forall (t : typ) rst, pfollow rst -> tfollow t rst.
Proof. intros t rst (o & r & -> & [-> | ->]); apply tfollow_tok; reflexivity. Qed.

Lemma ellipsis_ok : forall t, TOK t -> forall d (s : pstateT) rst,
  fits d s t -> at_toks s (tk ODotDotDot :: printT t ++ rst) -> tfollow t rst ->
  exists n s1, ellipsis_type A G D C E OPS (PA d) s = Ok n s1 /\
               erase n = sh_ellipsis (shapeTy t) /\ at_toks s1 rst /\ frame s s1.
Proof.
  intros t HT d s rst Hfit Hat Hfo.
  destruct (expect_toks OPS s _ _ (KOp ODotDotDot) 22 Hat eq_refl) as (p & s1 & Hx & Hat1 & Hf1).
  destruct (tp_fits t HT d s1 rst (fits_frame _ _ _ _ Hf1 Hfit) Hat1 Hfo)
    as (n & s2 & Hk & He & Hat2 & Hf2).
  exists (mk A C GEllipsis [p] [] [n]), s2.
  split; [unfold ellipsis_type; rewrite Hx; cbn [bind]; rewrite Hk; reflexivity |].
  split; [simpl; rewrite He; reflexivity |].
  split; [exact Hat2 | exact (frame_trans _ _ _ Hf1 Hf2)].
Qed.

Lemma type_start_not_tilde : forall tok, type_start tok = true -> tok_is tok (KOp OTiled) = false.
Proof.
  intros tok H. destruct tok as [txt | k | op | lk txt]; try reflexivity.
  destruct op; try reflexivity; discriminate H.
Qed.

(* the type of a named group: no "~", no "|" *)
Lemma type_elem_one : forall t, TOK t -> forall d (s : pstateT) rst,
  fits d s t -> at_toks s (printT t ++ rst) -> pfollow rst ->
  exists n s1, parse_type_elem A G D C E OPS (PA d) s = Ok n s1 /\ erase n = shapeTy t /\
               at_toks s1 rst /\ frame s s1.
Proof.
  intros t HT d s rst Hfit Hat Hfo.
  destruct (first_tokT X printX wfX t (proj1 HT)) as (tok & l & Hp & Hst & _ & _).
  assert (Hsk : skipped A G D C E OPS (KOp OTiled) s = Ok false s).
  { rewrite Hp in Hat. cbn [app] in Hat. apply (skipped_no OPS s _ _ Hat).
    apply type_start_not_tilde. exact Hst. }
  destruct (tp_fits t HT d s rst Hfit Hat (pfollow_tfollow t rst Hfo))
    as (n & s1 & Hk & He & Hat1 & Hf1).
  exists n, s1. split; [| split; [exact He | split; [exact Hat1 | exact Hf1]]].
  unfold parse_type_elem, parse_type_term. rewrite Hsk. cbn [bind]. rewrite Hk. cbn [bind].
  unfold loop_fuel. cbn [type_elem_loop].
  destruct Hfo as (o & r & -> & Ho). rewrite (cur_is_toks _ _ _ _ Hat1).
  destruct Ho as [-> | ->]; reflexivity.
Qed.

(* ---- the first token of a type *)

Definition other_tok (tok : token) : bool :=
  match tok with
  | TOperator (OParenRight | OBarackLeft | ODotDotDot | ODot | OComma) => false
  | _ => true
  end.

Definition nonid_tok (tok : token) : bool :=
  match tok with
  | TOperator (OStar | OArrow | OBarackLeft | OParenLeft) => true
  | TKeyword (KFunc | KChan | KMap | KStruct | KInterface) => true
  | _ => false
  end.

Lemma named_dec : forall t : typ, named_type X t \/ ~ named_type X t.
Proof.
  intro t. destruct t; try (left; exact I); try (right; intros []).
  destruct t; try (left; exact I); right; intros [].
Qed.

Lemma first_tok_nonid : forall t, wfT t -> ~ named_type X t ->
  exists tok l, printT t = tok :: l /\ nonid_tok tok = true.
Proof.
  intros t Hwf Hn.
  destruct t as [name | pkg name | b args | t | t | x t | t | k v | dir t | t | [ps paren rs] | fs | es];
    try (exfalso; apply Hn; exact I); try (eexists _, _; split; reflexivity).
  - exfalso. apply Hn. exact (proj1 Hwf).
  - destruct dir; eexists _, _; split; reflexivity.
Qed.

Lemma bracket_cases : forall t l, wfT t -> printT t = tk OBarackLeft :: l ->
  (exists e, t = TSlice e) \/ (exists x e, t = TArray x e) \/ (exists e, t = TArrayDots e).
Proof.
  intros t l Hwf Hp.
  destruct t as [name | pkg name | b args | t | t | x t | t | k v | dir t | t | [ps paren rs] | fs | es];
    try discriminate Hp; eauto.
  - destruct Hwf as (Hb & _). destruct b; try destruct Hb; discriminate Hp.
  - destruct dir; discriminate Hp.
Qed.

Lemma nonid_other : forall tok, nonid_tok tok = true ->
  tok = tk OBarackLeft \/ other_tok tok = true.
Proof.
  intros tok H. destruct tok as [txt | k | op | lk txt]; try discriminate H; try (right; reflexivity).
  destruct op; try discriminate H; try (right; reflexivity). left; reflexivity.
Qed.

Lemma pdl_other_false : forall d f ids (s : pstateT) tok ts,
  at_toks s (tok :: ts) -> other_tok tok = true ->
  PDL (PA d) (S f) false ids s =
  bnd (parse_type_elem A G D C E OPS (PA d) s)
       (fun typ s1 => Ok [n_field A C ids typ None cempty] s1).
Proof.
  intros d f ids s tok ts Hat Ho. cbn [param_decl_loop]. rewrite (cur_tok_toks A G D E s _ _ 23 Hat).
  cbn [bind]. destruct tok as [txt | k | op | lk txt]; try reflexivity.
  destruct op; try reflexivity; discriminate Ho.
Qed.

Lemma pdl_other_true : forall d f ids (s : pstateT) tok ts,
  at_toks s (tok :: ts) -> other_tok tok = true ->
  PDL (PA d) (S f) true ids s = Ok (map fieldOf ids) s.
Proof.
  intros d f ids s tok ts Hat Ho. cbn [param_decl_loop]. rewrite (cur_tok_toks A G D E s _ _ 23 Hat).
  cbn [bind]. destruct tok as [txt | k | op | lk txt]; try reflexivity.
  destruct op; try reflexivity; discriminate Ho.
Qed.

(* ---- a named group  a, b T  /  a ...T : one call of parse_parameter_decl *)

Definition dots (v : bool) : list token := if v then [tk ODotDotDot] else [].
Definition shapeV (v : bool) (t : typ) : shapeT := if v then sh_ellipsis (shapeTy t) else shapeTy t.

Lemma next_at : forall (s : pstateT) t ts, at_toks s (t :: ts) ->
  exists s1, next A G D C E OPS s = Ok tt s1 /\ at_toks s1 ts /\ frame s s1.
Proof. intros s t ts Hat. exact (next_toks OPS _ _ (at_toks_rest' _ _ _ Hat)). Qed.

Lemma named_loop : forall v t, TOK t -> ~ is_dots t -> forall names d fuel ids (s : pstateT) rst,
  fits d s t -> (v = true -> length ids + length names <= 1) ->
  at_toks s (names_tail names ++ dots v ++ printT t ++ rst) ->
  pfollow rst -> length names + 1 <= fuel ->
  exists ns typ s1,
    PDL (PA d) fuel false ids s = Ok [n_field A C (ids ++ ns) typ None cempty] s1 /\
    map erase ns = map sh_ident names /\ erase typ = shapeV v t /\
    at_toks s1 rst /\ frame s s1.
Proof.
  intros v t HT Hnd. induction names as [| n r IH]; intros d fuel ids s rst Hfit Hv Hat Hfo Hfu.
  - cbn [names_tail flat_map app] in Hat. destruct fuel as [| f]; [simpl in Hfu; lia |].
    destruct v.
    + (* a ...T *)
      cbn [dots app] in Hat.
      destruct (ellipsis_ok t HT d s rst Hfit Hat (pfollow_tfollow t rst Hfo))
        as (typ & s1 & Hk & He & Hat1 & Hf1).
      exists [], typ, s1. rewrite app_nil_r.
      split; [| split; [reflexivity | split; [exact He | split; [exact Hat1 | exact Hf1]]]].
      cbn [param_decl_loop]. rewrite (cur_tok_toks A G D E s _ _ 23 Hat). cbn [bind tk].
      specialize (Hv eq_refl). simpl in Hv.
      destruct (2 <=? length ids) eqn:Hle; [apply Nat.leb_le in Hle; lia |].
      rewrite Hk. reflexivity.
    + cbn [dots app] in Hat.
      assert (Hother : forall tok l, printT t = tok :: l -> other_tok tok = true ->
                exists ns typ s1,
                  PDL (PA d) (S f) false ids s = Ok [n_field A C (ids ++ ns) typ None cempty] s1 /\
                  map erase ns = map sh_ident [] /\ erase typ = shapeV false t /\
                  at_toks s1 rst /\ frame s s1).
      { intros tok l Hp Ho.
        destruct (type_elem_one t HT d s rst Hfit Hat Hfo) as (typ & s1 & Hk & He & Hat1 & Hf1).
        exists [], typ, s1. rewrite app_nil_r.
        split; [| split; [reflexivity | split; [exact He | split; [exact Hat1 | exact Hf1]]]].
        rewrite Hp in Hat. cbn [app] in Hat.
        rewrite (pdl_other_false d f ids s tok _ Hat Ho), Hk. reflexivity. }
      destruct (named_dec t) as [Hnt | Hnt].
      * apply (Hother _ _ (printT_named X printX t Hnt)). reflexivity.
      * destruct (first_tok_nonid t (proj1 HT) Hnt) as (tok & l & Hp & Hni).
        destruct (nonid_other tok Hni) as [-> | Ho]; [| exact (Hother tok l Hp Ho)].
        assert (Hcur : cur_tok A G D E s 23 = Ok (tk OBarackLeft) s).
        { rewrite Hp in Hat. cbn [app] in Hat. exact (cur_tok_toks A G D E s _ _ 23 Hat). }
        destruct HT as (Hwf & HN & Hsl & Har & _). destruct Hfit as (Hd1 & Hd2 & Hd3).
        destruct (bracket_cases t l Hwf Hp) as [(e & ->) | [(x & e & ->) | (e & ->)]].
        -- (* a []T *)
           simpl in Hd1, Hd2, Hd3.
           destruct (aot_slice A G D C E OPS X printX shapeX depthX needX e
                       (TNP_TP A G D C E OPS X printX shapeX depthX needX e (Hsl e eq_refl))
                       d s rst) as (typ & s1 & Hk & He & Hat1 & Hf1);
             [lia | exact Hat | exact (pfollow_tfollow e rst Hfo) | lia | lia |].
           exists [], typ, s1. rewrite app_nil_r.
           split; [| split; [reflexivity | split; [exact He | split; [exact Hat1 | exact Hf1]]]].
           cbn [param_decl_loop]. rewrite Hcur. cbn [bind tk]. rewrite Hk. cbn [bind].
           rewrite <- (is_tag_erase GIndex typ), He. reflexivity.
        -- (* a [n]T *)
           simpl in Hd1, Hd2, Hd3. destruct (Har x e eq_refl) as (HX & HNe).
           destruct (aot_array A G D C E OPS X printX shapeX depthX needX x e HX HNe d s rst)
             as (typ & s1 & Hk & He & Hat1 & Hf1);
             [lia | lia | exact Hat | exact (pfollow_tfollow e rst Hfo) | lia | lia |].
           exists [], typ, s1. rewrite app_nil_r.
           split; [| split; [reflexivity | split; [exact He | split; [exact Hat1 | exact Hf1]]]].
           cbn [param_decl_loop]. rewrite Hcur. cbn [bind tk]. rewrite Hk. cbn [bind].
           rewrite <- (is_tag_erase GIndex typ), He. reflexivity.
        -- exfalso. apply Hnd. exact I.
  - cbn [names_tail flat_map app] in Hat. destruct fuel as [| f]; [simpl in Hfu; lia |].
    destruct (next_at s _ _ Hat) as (s1 & Hn & Hat1 & Hf1).
    destruct (identifier_toks OPS s1 n _ 26 Hat1) as (p & s2 & Hi & Hat2 & Hf2).
    pose proof (frame_trans _ _ _ Hf1 Hf2) as Hf12.
    destruct (IH d f (ids ++ [n_ident A C p n]) s2 rst (fits_frame _ _ _ _ Hf12 Hfit))
      as (ns & typ & s3 & Hl & Hes & He & Hat3 & Hf3).
    + intro Hvt. specialize (Hv Hvt). rewrite app_length. simpl in Hv |- *. lia.
    + exact Hat2.
    + exact Hfo.
    + simpl in Hfu. lia.
    + exists (n_ident A C p n :: ns), typ, s3.
      split; [| split; [simpl; rewrite Hes; reflexivity | split; [exact He | split; [exact Hat3 |
                exact (frame_trans _ _ _ Hf12 Hf3)]]]].
      cbn [param_decl_loop]. rewrite (cur_tok_toks A G D E s _ _ 23 Hat). cbn [bind tk].
      rewrite Hn. cbn [bind]. rewrite (cur_is_toks _ _ _ _ Hat1).
      change (tok_is (ident_tok n) (KLit LIdent)) with true. cbv iota.
      rewrite Hi. cbn [bind]. rewrite Hl, <- app_assoc. reflexivity.
Qed.

Lemma names_tail_length : forall names, length (names_tail names) = 2 * length names.
Proof. induction names as [| n r IH]; simpl; [reflexivity | rewrite IH; lia]. Qed.

Lemma erase_n_field : forall ids typ c,
  erase (n_field A C ids typ None c) = n_field unit unit (map erase ids) (erase typ) None tt.
Proof. reflexivity. Qed.

Lemma erase_field_of : forall typ, erase (fieldOf typ) = sh_field [] (erase typ) None.
Proof. reflexivity. Qed.

Lemma named_group_ok : forall n names v t, TOK t -> ~ is_dots t -> (v = true -> names = []) ->
  forall d (s : pstateT) rst,
    fits d s t -> at_toks s (printG (Group (n :: names) v t) ++ rst) -> pfollow rst ->
    exists f s1, PPD (PA d) s = Ok [f] s1 /\ erase f = shapeG (Group (n :: names) v t) /\
                 at_toks s1 rst /\ frame s s1.
Proof.
  intros n names v t HT Hnd Hv d s rst Hfit Hat Hfo.
  cbn [Print2.printG] in Hat. rewrite printNames_cons in Hat.
  change (if v then [tk ODotDotDot] else []) with (dots v) in Hat.
  rewrite <- !app_assoc in Hat. rewrite <- app_comm_cons in Hat.
  destruct (identifier_toks OPS s n _ 27 Hat) as (p & s1 & Hi & Hat1 & Hf1).
  destruct (named_loop v t HT Hnd names d (loop_fuel A G D E s1) [n_ident A C p n] s1 rst
              (fits_frame _ _ _ _ Hf1 Hfit))
    as (ns & typ & s2 & Hl & Hes & He & Hat2 & Hf2).
  - intro Hvt. rewrite (Hv Hvt). simpl. lia.
  - exact Hat1.
  - exact Hfo.
  - pose proof (loop_fuel_toks s1 _ Hat1) as H. rewrite app_length, names_tail_length in H. lia.
  - exists (n_field A C ([n_ident A C p n] ++ ns) typ None cempty), s2.
    split; [| split; [| split; [exact Hat2 | exact (frame_trans _ _ _ Hf1 Hf2)]]].
    + unfold parse_parameter_decl. rewrite (cur_is_toks _ _ _ _ Hat).
      rewrite (cur_not_toks A G D E s _ _ _ Hat).
      change (tok_is (ident_tok n) (KOp ODotDotDot)) with false.
      change (tok_is (ident_tok n) (KLit LIdent)) with true. cbn [negb]. cbv iota.
      rewrite Hi. cbn [bind]. exact Hl.
    + rewrite erase_n_field, He. cbn [app map]. rewrite Hes. reflexivity.
Qed.

(* ---- params_loop *)

Definition AFTER (d f : nat) (acc : list nodeT) (s : pstateT) :=
  bnd (skipped A G D C E OPS (KOp OComma) s) (fun _ s2 => PL (PA d) f OParenRight acc s2).

Lemma pl_step : forall d f acc (s : pstateT) tok ts,
  at_toks s (tok :: ts) -> tok_is tok (KOp OParenRight) = false ->
  PL (PA d) (S f) OParenRight acc s = bnd (PPD (PA d) s) (fun fs s1 => AFTER d f (acc ++ fs) s1).
Proof.
  intros d f acc s tok ts Hat Hk. cbn [params_loop]. rewrite (cur_is_toks _ _ _ _ Hat), Hk. reflexivity.
Qed.

Lemma pl_stop : forall d f acc (s : pstateT) ts,
  at_toks s (tk OParenRight :: ts) -> PL (PA d) (S f) OParenRight acc s = Ok acc s.
Proof. intros d f acc s ts Hat. cbn [params_loop]. rewrite (cur_is_toks _ _ _ _ Hat). reflexivity. Qed.

Lemma after_stop : forall d f acc (s : pstateT) ts,
  at_toks s (tk OParenRight :: ts) -> AFTER d (S f) acc s = Ok acc s.
Proof.
  intros d f acc s ts Hat. unfold AFTER. rewrite (skipped_no OPS s _ (KOp OComma) Hat) by reflexivity.
  cbn [bind]. exact (pl_stop d f acc s ts Hat).
Qed.

Lemma after_comma : forall d f acc (s : pstateT) ts, at_toks s (tk OComma :: ts) ->
  exists s1, AFTER d f acc s = PL (PA d) f OParenRight acc s1 /\ at_toks s1 ts /\ frame s s1.
Proof.
  intros d f acc s ts Hat.
  destruct (skipped_yes OPS s _ _ (KOp OComma) Hat eq_refl) as (s1 & Hs & Hat1 & Hf1).
  exists s1. split; [unfold AFTER; rewrite Hs; reflexivity | split; [exact Hat1 | exact Hf1]].
Qed.

Lemma after_none : forall d f acc (s : pstateT) tok ts,
  at_toks s (tok :: ts) -> tok_is tok (KOp OComma) = false ->
  AFTER d f acc s = PL (PA d) f OParenRight acc s.
Proof.
  intros d f acc s tok ts Hat Hk. unfold AFTER.
  rewrite (skipped_no OPS s _ (KOp OComma) Hat) by exact Hk. reflexivity.
Qed.

Definition ptail (l : list (group typ)) : list token :=
  flat_map (fun g => tk OComma :: printG g) l.

Lemma commas_printG : forall g l, commas (map printG (g :: l)) = printG g ++ ptail l.
Proof.
  intros g l. unfold ptail. simpl. f_equal.
  induction l as [| b r IH]; simpl; [reflexivity | rewrite IH; reflexivity].
Qed.

Lemma ptail_pfollow : forall l rst, pfollow (ptail l ++ tk OParenRight :: rst).
Proof.
  intros [| g l] rst.
  - exists OParenRight, rst. split; [reflexivity | right; reflexivity].
  - eexists OComma, _. split; [reflexivity | left; reflexivity].
Qed.

Lemma ptail_length : forall l, length l <= length (ptail l).
Proof. induction l as [| g l IH]; simpl; [lia | rewrite app_length; lia]. Qed.

Definition gfits (d : nat) (s : pstateT) (g : group typ) : Prop := fits d s (group_t g).

Lemma gfits_frame : forall d s s' l, frame s s' -> Forall (gfits d s) l -> Forall (gfits d s') l.
Proof.
  intros d s s' l Hf H. apply (Forall_impl _ (fun g Hg => fits_frame d s s' _ Hf Hg) H).
Qed.

(* named lists *)
Definition gnamed (g : group typ) : Prop :=
  group_names g <> [] /\ ~ is_dots (group_t g) /\ TOK (group_t g) /\
  (group_var g = true -> length (group_names g) <= 1).

Lemma named_start : forall l g, gnamed g -> Forall gnamed l ->
  forall d f acc (s : pstateT) rst,
    Forall (gfits d s) (g :: l) ->
    at_toks s (printG g ++ ptail l ++ tk OParenRight :: rst) -> length l + 2 <= f ->
    exists fs s1, PL (PA d) f OParenRight acc s = Ok (acc ++ fs) s1 /\
                  map erase fs = map shapeG (g :: l) /\
                  at_toks s1 (tk OParenRight :: rst) /\ frame s s1.
Proof.
  induction l as [| g' l IH]; intros g Hg Hl d f acc s rst Hfit Hat Hfu;
    (destruct f as [| f]; [lia |]);
    destruct g as [[| n names] v t]; destruct Hg as (Hne & Hnd & HT & Hv);
    try (exfalso; apply Hne; reflexivity); cbn [group_t group_names group_var] in *;
    inversion Hfit as [| ? ? Hfg Hfl]; subst.
  - destruct (named_group_ok n names v t HT Hnd) with (d := d) (s := s) (rst := tk OParenRight :: rst)
      as (fd & s1 & Hk & He & Hat1 & Hf1).
    + intro Hvt. specialize (Hv Hvt). destruct names; [reflexivity | simpl in Hv; lia].
    + exact Hfg.
    + exact Hat.
    + apply (ptail_pfollow []).
    + exists [fd], s1. split; [| split; [simpl; rewrite He; reflexivity | split; [exact Hat1 | exact Hf1]]].
      assert (Hat' := Hat). cbn [Print2.printG] in Hat'. rewrite printNames_cons in Hat'.
      rewrite <- !app_assoc in Hat'. rewrite <- app_comm_cons in Hat'.
      rewrite (pl_step d f acc s _ _ Hat' eq_refl), Hk. cbn [bind].
      destruct f as [| f]; [simpl in Hfu; lia |]. exact (after_stop d f _ s1 _ Hat1).
  - cbn [ptail flat_map] in Hat. rewrite <- app_assoc in Hat. fold (ptail l) in Hat.
    destruct (named_group_ok n names v t HT Hnd) with (d := d) (s := s)
      (rst := tk OComma :: printG g' ++ ptail l ++ tk OParenRight :: rst)
      as (fd & s1 & Hk & He & Hat1 & Hf1).
    + intro Hvt. specialize (Hv Hvt). destruct names; [reflexivity | simpl in Hv; lia].
    + exact Hfg.
    + exact Hat.
    + eexists OComma, _. split; [reflexivity | left; reflexivity].
    + destruct (after_comma d f (acc ++ [fd]) s1 _ Hat1) as (s2 & Ha & Hat2 & Hf2).
      pose proof (frame_trans _ _ _ Hf1 Hf2) as Hf12.
      inversion Hl as [| ? ? Hg' Hl']; subst.
      destruct (IH g' Hg' Hl' d f (acc ++ [fd]) s2 rst (gfits_frame _ _ _ _ Hf12 Hfl) Hat2)
        as (fs & s3 & Hp & Hes & Hat3 & Hf3); [simpl in Hfu; lia |].
      exists (fd :: fs), s3.
      split; [| split; [cbn [map]; rewrite He; cbn [map] in Hes; rewrite Hes; reflexivity |
                split; [exact Hat3 | exact (frame_trans _ _ _ Hf12 Hf3)]]].
      assert (Hat' := Hat). cbn [Print2.printG] in Hat'. rewrite printNames_cons in Hat'.
      rewrite <- !app_assoc in Hat'. rewrite <- app_comm_cons in Hat'.
      rewrite (pl_step d f acc s _ _ Hat' eq_refl), Hk. cbn [bind].
      rewrite Ha, Hp, <- app_assoc. reflexivity.
Qed.

(* ---- unnamed lists: the state machine of parse_parameter_decl / param_decl_loop *)

Definition gunnamed (g : group typ) : Prop :=
  group_names g = [] /\ ~ is_plain_inst (group_t g) /\ TOK (group_t g).

Notation plainsh := (fun n : str => sh_field [] (sh_ident n) None).

Lemma plain_erase : forall (ids : list nodeT) ns, map erase ids = map sh_ident ns ->
  map erase (map fieldOf ids) = map plainsh ns.
Proof.
  induction ids as [| i ids IH]; intros [| n ns] H; try discriminate H; [reflexivity |].
  cbn [map] in H |- *. injection H as H1 H2. rewrite erase_field_of, H1, (IH ns H2). reflexivity.
Qed.

Lemma pop_last_snoc : forall (Y : Type) (l : list Y) x, pop_last (l ++ [x]) = Some (l, x).
Proof. intros Y l x. unfold pop_last. rewrite rev_app_distr. simpl. rewrite rev_involutive. reflexivity. Qed.

(* after a parameter *)
Definition UL1 (l : list (group typ)) : Prop := forall d f acc (s : pstateT) rst,
  Forall (gfits d s) l -> at_toks s (ptail l ++ tk OParenRight :: rst) -> length l + 1 <= f ->
  exists fs s1, AFTER d f acc s = Ok (acc ++ fs) s1 /\ map erase fs = map shapeG l /\
                at_toks s1 (tk OParenRight :: rst) /\ frame s s1.

(* at the start of a parameter *)
Definition UL0 (g : group typ) (l : list (group typ)) : Prop := forall d f acc (s : pstateT) rst,
  Forall (gfits d s) (g :: l) ->
  at_toks s (printG g ++ ptail l ++ tk OParenRight :: rst) -> length l + 2 <= f ->
  exists fs s1, PL (PA d) f OParenRight acc s = Ok (acc ++ fs) s1 /\
                map erase fs = map shapeG (g :: l) /\
                at_toks s1 (tk OParenRight :: rst) /\ frame s s1.

(* inside param_decl_loop: identifiers ids0 (type names) and idl, the first identifier
   of the type t, are taken *)
Definition UL2 (l : list (group typ)) : Prop :=
  forall t ns d fl fp acc (ids0 : list nodeT) (idl : nodeT) (s : pstateT) rst,
    named_type X t -> ~ is_plain_inst t -> TOK t -> fits d s t -> Forall (gfits d s) l ->
    map erase ids0 = map sh_ident ns -> erase idl = sh_ident (first_ident X t) ->
    at_toks s (after_first X printX t ++ ptail l ++ tk OParenRight :: rst) ->
    length l + 1 <= fl -> length l + 1 <= fp ->
    exists fs s1,
      bnd (PDL (PA d) fl false (ids0 ++ [idl]) s) (fun fs s1 => AFTER d fp (acc ++ fs) s1)
        = Ok (acc ++ fs) s1 /\
      map erase fs = map plainsh ns ++ shapeG (Group [] false t) :: map shapeG l /\
      at_toks s1 (tk OParenRight :: rst) /\ frame s s1.

(* inside param_decl_loop, the "," consumed, at a parameter that starts with no identifier *)
Definition UL3 (g : group typ) (l : list (group typ)) : Prop :=
  forall ns d fl fp acc (ids : list nodeT) (s : pstateT) rst,
    group_var g = true \/ ~ named_type X (group_t g) ->
    Forall (gfits d s) (g :: l) -> map erase ids = map sh_ident ns ->
    at_toks s (printG g ++ ptail l ++ tk OParenRight :: rst) ->
    1 <= fl -> length l + 2 <= fp ->
    exists fs s1,
      bnd (PDL (PA d) fl true ids s) (fun fs s1 => AFTER d fp (acc ++ fs) s1) = Ok (acc ++ fs) s1 /\
      map erase fs = map plainsh ns ++ map shapeG (g :: l) /\
      at_toks s1 (tk OParenRight :: rst) /\ frame s s1.

Lemma UL1_nil : UL1 [].
Proof.
  intros d f acc s rst _ Hat Hfu. simpl in Hat. destruct f as [| f]; [simpl in Hfu; lia |].
  exists [], s. rewrite app_nil_r. split; [exact (after_stop d f acc s rst Hat) |].
  split; [reflexivity | split; [exact Hat | apply frame_refl]].
Qed.

Lemma nonid_facts : forall tok, nonid_tok tok = true ->
  tok_is tok (KOp OParenRight) = false /\ tok_is tok (KOp ODotDotDot) = false /\
  tok_is tok (KLit LIdent) = false /\ tok_is tok (KOp OComma) = false.
Proof.
  intros tok H. destruct tok as [txt | k | op | lk txt]; try discriminate H; [repeat split |].
  destruct op; try discriminate H; repeat split.
Qed.

Lemma UL0_of : forall g l, gunnamed g -> UL1 l -> UL2 l -> UL0 g l.
Proof.
  intros [names v t] l (Hnm & Hpi & HT) H1 H2 d f acc s rst Hfit Hat Hfu.
  cbn [group_names group_t] in *. subst names.
  destruct f as [| f]; [lia |]. inversion Hfit as [| ? ? Hfg Hfl]; subst. unfold gfits in Hfg.
  cbn [group_t] in Hfg. cbn [Print2.printG printNames commas map app] in Hat.
  rewrite <- app_assoc in Hat.
  assert (Hfo : forall x : typ, tfollow x (ptail l ++ tk OParenRight :: rst)).
  { intro x. apply pfollow_tfollow. apply ptail_pfollow. }
  (* a parameter parsed as one type: "..." T, or T starting with no identifier *)
  assert (Hone : forall typ s1, erase typ = shapeV v t ->
            at_toks s1 (ptail l ++ tk OParenRight :: rst) -> frame s s1 ->
            exists fs s2, AFTER d f (acc ++ [fieldOf typ]) s1 = Ok (acc ++ fs) s2 /\
                          map erase fs = map shapeG (Group [] v t :: l) /\
                          at_toks s2 (tk OParenRight :: rst) /\ frame s s2).
  { intros typ s1 He Hat1 Hf1.
    destruct (H1 d f (acc ++ [fieldOf typ]) s1 rst (gfits_frame _ _ _ _ Hf1 Hfl) Hat1)
      as (fs & s2 & Hk & Hes & Hat2 & Hf2); [lia |].
    exists (fieldOf typ :: fs), s2. split; [rewrite Hk, <- app_assoc; reflexivity |].
    split; [| split; [exact Hat2 | exact (frame_trans _ _ _ Hf1 Hf2)]].
    cbn [map]. rewrite erase_field_of, He, Hes. destruct v; reflexivity. }
  destruct v.
  - cbn [app] in Hat.
    destruct (ellipsis_ok t HT d s _ Hfg Hat (Hfo t)) as (typ & s1 & Hk & He & Hat1 & Hf1).
    rewrite (pl_step d f acc s _ _ Hat eq_refl). unfold parse_parameter_decl.
    rewrite (cur_is_toks _ _ _ _ Hat). change (tok_is (tk ODotDotDot) (KOp ODotDotDot)) with true.
    cbv iota. rewrite Hk. cbn [bind]. exact (Hone typ s1 He Hat1 Hf1).
  - cbn [app] in Hat. destruct (named_dec t) as [Hnt | Hnt].
    + assert (Hat' := Hat). rewrite (printT_named X printX t Hnt) in Hat'. cbn [app] in Hat'.
      destruct (identifier_toks OPS s _ _ 27 Hat') as (p & s1 & Hi & Hat1 & Hf1).
      rewrite (pl_step d f acc s _ _ Hat' eq_refl). unfold parse_parameter_decl.
      rewrite (cur_is_toks _ _ _ _ Hat'), (cur_not_toks A G D E s _ _ _ Hat').
      change (tok_is (ident_tok (first_ident X t)) (KOp ODotDotDot)) with false.
      change (tok_is (ident_tok (first_ident X t)) (KLit LIdent)) with true.
      cbn [negb]. cbv iota. rewrite Hi.
      change (bnd (Ok (n_ident A C p (first_ident X t)) s1)
                (fun id s2 => PDL (PA d) (loop_fuel A G D E s2) false [id] s2))
        with (PDL (PA d) (loop_fuel A G D E s1) false ([] ++ [n_ident A C p (first_ident X t)]) s1).
      destruct (H2 t [] d (loop_fuel A G D E s1) f acc [] (n_ident A C p (first_ident X t)) s1 rst
                  Hnt Hpi HT (fits_frame _ _ _ _ Hf1 Hfg) (gfits_frame _ _ _ _ Hf1 Hfl)
                  eq_refl eq_refl Hat1) as (fs & s2 & Hk & Hes & Hat2 & Hf2).
      * pose proof (loop_fuel_toks s1 _ Hat1) as H. rewrite !app_length in H.
        pose proof (ptail_length l). lia.
      * lia.
      * exists fs, s2. split; [exact Hk |]. split; [exact Hes |].
        split; [exact Hat2 | exact (frame_trans _ _ _ Hf1 Hf2)].
    + destruct (first_tok_nonid t (proj1 HT) Hnt) as (tok & l0 & Hp & Hni).
      destruct (nonid_facts tok Hni) as (Hk1 & Hk2 & Hk3 & _).
      destruct (tp_fits t HT d s _ Hfg Hat (Hfo t)) as (typ & s1 & Hk & He & Hat1 & Hf1).
      rewrite Hp in Hat. cbn [app] in Hat.
      rewrite (pl_step d f acc s _ _ Hat Hk1). unfold parse_parameter_decl.
      rewrite (cur_is_toks _ _ _ _ Hat), (cur_not_toks A G D E s _ _ _ Hat), Hk2, Hk3.
      cbn [negb]. cbv iota. rewrite Hk. cbn [bind]. exact (Hone typ s1 He Hat1 Hf1).
Qed.

Lemma UL1_cons : forall g l, UL0 g l -> UL1 (g :: l).
Proof.
  intros g l H0 d f acc s rst Hfit Hat Hfu. cbn [ptail flat_map] in Hat. fold (ptail l) in Hat.
  rewrite <- app_assoc in Hat. cbn [app] in Hat.
  destruct (after_comma d f acc s _ Hat) as (s1 & Ha & Hat1 & Hf1).
  destruct (H0 d f acc s1 rst (gfits_frame _ _ _ _ Hf1 Hfit) Hat1) as (fs & s2 & Hk & Hes & Hat2 & Hf2);
    [simpl in Hfu; lia |].
  exists fs, s2. split; [rewrite Ha; exact Hk |]. split; [exact Hes |].
  split; [exact Hat2 | exact (frame_trans _ _ _ Hf1 Hf2)].
Qed.

Lemma UL3_of : forall g l, gunnamed g -> UL1 l -> UL0 g l -> UL3 g l.
Proof.
  intros [names v t] l (Hnm & Hpi & HT) H1 H0 ns d fl fp acc ids s rst Hst Hfit Hids Hat Hfl Hfp.
  cbn [group_names group_t group_var] in *. subst names.
  destruct fl as [| fl]; [lia |]. inversion Hfit as [| ? ? Hfg Hfr]; subst. unfold gfits in Hfg.
  cbn [group_t] in Hfg. assert (Hat0 := Hat).
  cbn [Print2.printG printNames commas map app] in Hat. rewrite <- app_assoc in Hat.
  assert (Hfo : forall x : typ, tfollow x (ptail l ++ tk OParenRight :: rst)).
  { intro x. apply pfollow_tfollow. apply ptail_pfollow. }
  pose proof (plain_erase ids ns Hids) as Hplain.
  (* the parameter is taken by param_decl_loop *)
  assert (Hone : forall typ s1, erase typ = shapeV v t ->
            at_toks s1 (ptail l ++ tk OParenRight :: rst) -> frame s s1 ->
            exists fs s2, AFTER d fp (acc ++ (map fieldOf ids ++ [fieldOf typ])) s1 = Ok (acc ++ fs) s2 /\
                          map erase fs = map plainsh ns ++ map shapeG (Group [] v t :: l) /\
                          at_toks s2 (tk OParenRight :: rst) /\ frame s s2).
  { intros typ s1 He Hat1 Hf1.
    destruct (H1 d fp (acc ++ (map fieldOf ids ++ [fieldOf typ])) s1 rst
                (gfits_frame _ _ _ _ Hf1 Hfr) Hat1)
      as (fs & s2 & Hk & Hes & Hat2 & Hf2); [lia |].
    exists (map fieldOf ids ++ fieldOf typ :: fs), s2.
    split; [rewrite Hk, <- !app_assoc; reflexivity |].
    split; [| split; [exact Hat2 | exact (frame_trans _ _ _ Hf1 Hf2)]].
    rewrite map_app, Hplain. cbn [map]. rewrite erase_field_of, He, Hes. destruct v; reflexivity. }
  destruct v.
  - cbn [app] in Hat.
    destruct (ellipsis_ok t HT d s _ Hfg Hat (Hfo t)) as (typ & s1 & Hk & He & Hat1 & Hf1).
    cbn [param_decl_loop]. rewrite (cur_tok_toks A G D E s _ _ 23 Hat). cbn [bind tk].
    rewrite Hk. cbn [bind]. exact (Hone typ s1 He Hat1 Hf1).
  - cbn [app] in Hat. destruct Hst as [Hst | Hnt]; [discriminate Hst |].
    destruct (first_tok_nonid t (proj1 HT) Hnt) as (tok & l0 & Hp & Hni).
    destruct (nonid_other tok Hni) as [-> | Ho].
    + (* "[": the whole parameter is a type *)
      destruct (tp_fits t HT d s _ Hfg Hat (Hfo t)) as (typ & s1 & Hk & He & Hat1 & Hf1).
      rewrite Hp in Hat. cbn [app] in Hat.
      cbn [param_decl_loop]. rewrite (cur_tok_toks A G D E s _ _ 23 Hat). cbn [bind tk].
      rewrite Hk. cbn [bind]. exact (Hone typ s1 He Hat1 Hf1).
    + (* the loop stops in front of the parameter *)
      destruct (nonid_facts tok Hni) as (_ & _ & _ & Hk4).
      rewrite Hp in Hat. cbn [app] in Hat.
      rewrite (pdl_other_true d fl ids s tok _ Hat Ho). cbn [bind].
      rewrite (after_none d fp _ s tok _ Hat Hk4).
      destruct (H0 d fp (acc ++ map fieldOf ids) s rst Hfit Hat0 Hfp)
        as (fs & s2 & Hk & Hes & Hat2 & Hf2).
      exists (map fieldOf ids ++ fs), s2. split; [rewrite Hk, <- app_assoc; reflexivity |].
      split; [rewrite map_app, Hplain, Hes; reflexivity | split; [exact Hat2 | exact Hf2]].
Qed.

Lemma UL2_qual : forall l, UL1 l ->
  forall t ns d fl fp acc (ids0 : list nodeT) (idl : nodeT) (s : pstateT) rst,
    named_type X t -> (forall n, t <> TName n) -> ~ is_plain_inst t ->
    TOK t -> fits d s t -> Forall (gfits d s) l ->
    map erase ids0 = map sh_ident ns -> erase idl = sh_ident (first_ident X t) ->
    at_toks s (after_first X printX t ++ ptail l ++ tk OParenRight :: rst) ->
    1 <= fl -> length l + 1 <= fp ->
    exists fs s1,
      bnd (PDL (PA d) fl false (ids0 ++ [idl]) s) (fun fs s1 => AFTER d fp (acc ++ fs) s1)
        = Ok (acc ++ fs) s1 /\
      map erase fs = map plainsh ns ++ shapeG (Group [] false t) :: map shapeG l /\
      at_toks s1 (tk OParenRight :: rst) /\ frame s s1.
Proof.
  intros l H1 t ns d fl fp acc ids0 idl s rst Hnt Hnn Hpi HT Hfit Hfr Hids Hidl Hat Hfl Hfp.
  destruct fl as [| fl]; [lia |].
  assert (Hdot : exists r, after_first X printX t = tk ODot :: r).
  { destruct t as [name | pkg name | b args | | | | | | | | | |]; try destruct Hnt.
    - exfalso. exact (Hnn name eq_refl).
    - eexists. reflexivity.
    - destruct HT as (Hwf & _). destruct Hwf as (Hb & _).
      destruct b as [name | pkg name | | | | | | | | | | |]; try destruct Hb.
      + exfalso. apply Hpi. exact I.
      + eexists. reflexivity. }
  destruct Hdot as (r & Hdot). assert (Hat' := Hat). rewrite Hdot in Hat'. cbn [app] in Hat'.
  destruct HT as (Hwf & HN & Hsl & Har & Hin). destruct Hfit as (Hd1 & Hd2 & Hd3).
  destruct (qualified_ident_ok A G D C E OPS X printX shapeX wfX depthX needX t Hnt Hwf Hin
              (Some idl) d s (ptail l ++ tk OParenRight :: rst))
    as (typ & s1 & Hk & He & Hat1 & Hf1).
  - lia.
  - split; [exact Hidl | exact Hat].
  - apply pfollow_tfollow. apply ptail_pfollow.
  - lia.
  - lia.
  - destruct (H1 d fp (acc ++ (map fieldOf ids0 ++ [fieldOf typ])) s1 rst
                (gfits_frame _ _ _ _ Hf1 Hfr) Hat1 Hfp)
      as (fs & s2 & Hk2 & Hes & Hat2 & Hf2).
    exists (map fieldOf ids0 ++ fieldOf typ :: fs), s2.
    split; [| split; [| split; [exact Hat2 | exact (frame_trans _ _ _ Hf1 Hf2)]]].
    + cbn [param_decl_loop]. rewrite (cur_tok_toks A G D E s _ _ 23 Hat'). cbn [bind tk].
      rewrite pop_last_snoc, Hk. cbn [bind].
      change (AFTER d fp (acc ++ (map fieldOf ids0 ++ [fieldOf typ])) s1 =
              Ok (acc ++ map fieldOf ids0 ++ fieldOf typ :: fs) s2).
      rewrite Hk2, <- !app_assoc. reflexivity.
    + rewrite map_app, (plain_erase ids0 ns Hids). cbn [map]. rewrite erase_field_of, He, Hes.
      reflexivity.
Qed.

Lemma name_or_not : forall t : typ, (exists n, t = TName n) \/ (forall n, t <> TName n).
Proof. intro t. destruct t; try (right; intros ? ?; discriminate). left. eauto. Qed.

Lemma plain_snoc : forall (ids0 : list nodeT) idl ns n,
  map erase ids0 = map sh_ident ns -> erase idl = sh_ident n ->
  map erase (ids0 ++ [idl]) = map sh_ident (ns ++ [n]).
Proof. intros ids0 idl ns n H1 H2. rewrite !map_app, H1. cbn [map]. rewrite H2. reflexivity. Qed.

Lemma UL2_nil : UL2 [].
Proof.
  intros t ns d fl fp acc ids0 idl s rst Hnt Hpi HT Hfit Hfr Hids Hidl Hat Hfl Hfp.
  destruct (name_or_not t) as [(n & ->) | Hnn].
  - unfold after_first in Hat. cbn [Print2.printT ptail flat_map app] in Hat.
    destruct fl as [| fl]; [simpl in Hfl; lia |]. destruct fp as [| fp]; [simpl in Hfp; lia |].
    exists (map fieldOf (ids0 ++ [idl])), s.
    split; [| split; [| split; [exact Hat | apply frame_refl]]].
    + cbn [param_decl_loop]. rewrite (cur_tok_toks A G D E s _ _ 23 Hat). cbn [bind tk].
      exact (after_stop d fp _ s rst Hat).
    + rewrite (plain_erase _ (ns ++ [n]) (plain_snoc ids0 idl ns n Hids Hidl)).
      rewrite map_app. reflexivity.
  - apply (UL2_qual [] UL1_nil); solve [assumption | simpl in *; lia].
Qed.

Lemma UL2_cons : forall g l, gunnamed g -> UL1 (g :: l) -> UL2 l -> UL3 g l -> UL2 (g :: l).
Proof.
  intros g l Hg H1 H2 H3 t ns d fl fp acc ids0 idl s rst Hnt Hpi HT Hfit Hfr Hids Hidl Hat Hfl Hfp.
  destruct (name_or_not t) as [(n & ->) | Hnn];
    [| apply (UL2_qual (g :: l) H1); try assumption; lia].
  unfold after_first in Hat. cbn [Print2.printT ptail flat_map app] in Hat. fold (ptail l) in Hat.
  rewrite <- app_assoc in Hat.
  destruct fl as [| fl]; [lia |].
  destruct (next_at s _ _ Hat) as (s1 & Hn & Hat1 & Hf1).
  pose proof (plain_snoc ids0 idl ns n Hids Hidl) as Hids'.
  inversion Hfr as [| ? ? Hfg Hfl']; subst.
  assert (Hstep : PDL (PA d) (S fl) false (ids0 ++ [idl]) s =
            if cur_is A G D E s1 (KLit LIdent)
            then bnd (identifier A G D C E OPS 26 s1)
                     (fun id s2 => PDL (PA d) fl false ((ids0 ++ [idl]) ++ [id]) s2)
            else PDL (PA d) fl true (ids0 ++ [idl]) s1).
  { cbn [param_decl_loop]. rewrite (cur_tok_toks A G D E s _ _ 23 Hat). cbn [bind tk].
    rewrite Hn. reflexivity. }
  rewrite Hstep. clear Hstep.
  assert (Hres : forall fs : list nodeT,
            map erase fs = map plainsh (ns ++ [n]) ++ map shapeG (g :: l) ->
            map erase fs = map plainsh ns ++ shapeG (Group [] false (TName n)) :: map shapeG (g :: l)).
  { intros fs H. rewrite H, map_app, <- app_assoc. reflexivity. }
  destruct g as [names v t']. pose proof Hg as (Hnm & Hpi' & HT').
  cbn [group_names group_t] in Hnm, Hpi', HT'. subst names.
  assert (Hst : (v = false /\ named_type X t') \/ (v = true \/ ~ named_type X t')).
  { destruct v; [right; left; reflexivity |]. destruct (named_dec t'); [left | right]; auto. }
  destruct Hst as [(-> & Hnt') | Hst].
  - assert (Hat1' := Hat1). cbn [Print2.printG printNames commas map app] in Hat1'.
    rewrite (printT_named X printX t' Hnt') in Hat1'. cbn [app] in Hat1'.
    destruct (identifier_toks OPS s1 _ _ 26 Hat1') as (p & s2 & Hi & Hat2 & Hf2).
    pose proof (frame_trans _ _ _ Hf1 Hf2) as Hf12.
    rewrite (cur_is_toks _ _ _ _ Hat1'), Hi.
    change (tok_is (TLiteral LIdent (first_ident X t')) (KLit LIdent)) with true. cbv iota. cbn [bind].
    destruct (H2 t' (ns ++ [n]) d fl fp acc (ids0 ++ [idl]) (n_ident A C p (first_ident X t')) s2 rst
                Hnt' Hpi' HT' (fits_frame _ _ _ _ Hf12 Hfg) (gfits_frame _ _ _ _ Hf12 Hfl')
                Hids' eq_refl Hat2) as (fs & s3 & Hk & Hes & Hat3 & Hf3);
      [simpl in Hfl; lia | simpl in Hfp; lia |].
    exists fs, s3. split; [exact Hk |]. split; [apply Hres; exact Hes |].
    split; [exact Hat3 | exact (frame_trans _ _ _ Hf12 Hf3)].
  - assert (Hnoid : cur_is A G D E s1 (KLit LIdent) = false).
    { assert (Hat1' := Hat1). cbn [Print2.printG printNames commas map app] in Hat1'.
      destruct Hst as [-> | Hnt'].
      - rewrite (cur_is_toks _ _ _ _ Hat1'). reflexivity.
      - destruct v; [rewrite (cur_is_toks _ _ _ _ Hat1'); reflexivity |].
        destruct (first_tok_nonid t' (proj1 HT') Hnt') as (tok & l0 & Hp & Hni).
        rewrite Hp in Hat1'. cbn [app] in Hat1'. rewrite (cur_is_toks _ _ _ _ Hat1').
        exact (proj1 (proj2 (proj2 (nonid_facts tok Hni)))). }
    rewrite Hnoid.
    destruct (H3 (ns ++ [n]) d fl fp acc (ids0 ++ [idl]) s1 rst Hst
                (gfits_frame _ _ _ _ Hf1 Hfr) Hids' Hat1) as (fs & s3 & Hk & Hes & Hat3 & Hf3);
      [simpl in Hfl; lia | simpl in Hfp; lia |].
    exists fs, s3. split; [exact Hk |]. split; [apply Hres; exact Hes |].
    split; [exact Hat3 | exact (frame_trans _ _ _ Hf1 Hf3)].
Qed.

Lemma unnamed_all : forall l, Forall gunnamed l -> UL1 l /\ UL2 l.
Proof.
  induction l as [| g l IH]; intro Hall; [split; [exact UL1_nil | exact UL2_nil] |].
  inversion Hall as [| ? ? Hg Hl]; subst. destruct (IH Hl) as (H1 & H2).
  pose proof (UL0_of g l Hg H1 H2) as H0. pose proof (UL1_cons g l H0) as H1'.
  split; [exact H1' |]. apply (UL2_cons g l Hg H1' H2). exact (UL3_of g l Hg H1 H0).
Qed.

Lemma unnamed_start : forall g l, Forall gunnamed (g :: l) -> UL0 g l.
Proof.
  intros g l Hall. inversion Hall as [| ? ? Hg Hl]; subst.
  destruct (unnamed_all l Hl) as (H1 & H2). exact (UL0_of g l Hg H1 H2).
Qed.

(* ---- parameters *)

Lemma gnamed_of : forall vok (l : list (group typ)),
  params_form vok l -> all_named l -> allT (fun g => group_ok g /\ wfT (group_t g)) l ->
  Forall (fun g => TOK (group_t g)) l -> Forall gnamed l.
Proof.
  intros vok l. induction l as [| g l IH]; intros Hform Hn Hok HT; [constructor |].
  destruct Hform as (Hv & Hform). destruct Hn as (Hg & Hn). destruct Hok as ((Hgo & _) & Hok).
  inversion HT as [| ? ? HTg HTl]; subst. constructor; [| exact (IH Hform Hn Hok HTl)].
  split; [exact Hg |]. split; [| split; [exact HTg |]].
  - destruct g as [[| n names] v t]; [exfalso; apply Hg; reflexivity | exact Hgo].
  - intro Hvt. exact (proj2 (proj2 (Hv Hvt))).
Qed.

Lemma gunnamed_of : forall (l : list (group typ)),
  all_unnamed l -> allT (fun g => group_ok g /\ wfT (group_t g)) l ->
  Forall (fun g => TOK (group_t g)) l -> Forall gunnamed l.
Proof.
  induction l as [| g l IH]; intros Hn Hok HT; [constructor |].
  destruct Hn as (Hg & Hn). destruct Hok as ((Hgo & _) & Hok).
  inversion HT as [| ? ? HTg HTl]; subst. constructor; [| exact (IH Hn Hok HTl)].
  split; [exact Hg |]. split; [| exact HTg].
  destruct g as [[| n names] v t]; [exact Hgo | discriminate Hg].
Qed.

Theorem parameters_tok : forall vok (ps : list (group typ)),
  wfParams wfX vok ps -> Forall (fun g => TOK (group_t g)) ps ->
  forall d (s : pstateT) rst,
    Forall (gfits d s) ps -> at_toks s (printParams printX ps ++ rst) ->
    exists n s1, parameters A G D C E OPS (PA d) s = Ok n s1 /\
                 erase n = shapeParams shapeX true ps /\ at_toks s1 rst /\ frame s s1.
Proof.
  intros vok ps (Hform & Hor & Hok) HT d s rst Hfit Hat.
  unfold printParams in Hat. cbn [app] in Hat. rewrite <- app_assoc in Hat. cbn [app] in Hat.
  destruct (expect_toks OPS s _ _ (KOp OParenLeft) 28 Hat eq_refl) as (p0 & s1 & Hx & Hat1 & Hf1).
  assert (Hloop : exists fs s2,
            PL (PA d) (loop_fuel A G D E s1) OParenRight [] s1 = Ok fs s2 /\
            map erase fs = map shapeG ps /\ at_toks s2 (tk OParenRight :: rst) /\ frame s1 s2).
  { destruct ps as [| g l].
    - exists [], s1. split; [exact (pl_stop d _ [] s1 rst Hat1) |].
      split; [reflexivity | split; [exact Hat1 | apply frame_refl]].
    - rewrite commas_printG, <- app_assoc in Hat1.
      assert (Hfu : length l + 2 <= loop_fuel A G D E s1).
      { pose proof (loop_fuel_toks s1 _ Hat1) as H. rewrite !app_length in H.
        pose proof (ptail_length l). cbn [length] in H. lia. }
      pose proof (gfits_frame _ _ _ _ Hf1 Hfit) as Hfit1.
      destruct Hor as [Hn | Hu].
      + pose proof (gnamed_of vok _ Hform Hn Hok HT) as Hall.
        inversion Hall as [| ? ? Hg Hl]; subst.
        exact (named_start l g Hg Hl d _ [] s1 rst Hfit1 Hat1 Hfu).
      + pose proof (gunnamed_of _ Hu Hok HT) as Hall.
        exact (unnamed_start g l Hall d _ [] s1 rst Hfit1 Hat1 Hfu). }
  destruct Hloop as (fs & s2 & Hl & Hes & Hat2 & Hf2).
  destruct (expect_toks OPS s2 _ _ (KOp OParenRight) 29 Hat2 eq_refl) as (p1 & s3 & Hx3 & Hat3 & Hf3).
  exists (n_fieldlist A C (Some (p0, p1)) fs), s3.
  split; [| split; [| split; [exact Hat3 | exact (frame_trans _ _ _ (frame_trans _ _ _ Hf1 Hf2) Hf3)]]].
  - unfold parameters, params_list. rewrite Hx. cbn [bind]. rewrite Hl. cbn [bind]. rewrite Hx3.
    reflexivity.
  - unfold shapeParams, sh_fieldlist. rewrite <- Hes. reflexivity.
Qed.

Lemma gfits_of_max : forall d (s : pstateT) (l : list (group typ)),
  maxT (needG needX) l + 1 <= d -> sdepth s + maxT (depthG depthX) l <= MAX_NESTING ->
  ln s <= lp s /\ lp s + maxT (depthG depthX) l <= ln s + 64 -> Forall (gfits d s) l.
Proof.
  intros d s l H1 H2 H3. apply Forall_forall. intros g Hin.
  pose proof (maxT_In _ (needG needX) l g Hin) as Ha.
  pose proof (maxT_In _ (depthG depthX) l g Hin) as Hb.
  unfold gfits, fits. unfold needG, depthG in *. lia.
Qed.

Lemma TOK_of_IHT : forall n (l : list (group typ)), IHT n ->
  (forall g, In g l -> sizeT (group_t g) < n) ->
  allT (fun g => group_ok g /\ wfT (group_t g)) l -> allT (fun g => allX XOK (group_t g)) l ->
  Forall (fun g => TOK (group_t g)) l.
Proof.
  intros n l IH Hsz Hwf Hall. apply allT_Forall in Hwf. apply allT_Forall in Hall.
  apply Forall_forall. intros g Hin.
  apply (IHT_TOK n _ IH (Hsz g Hin)).
  - exact (proj2 (proj1 (Forall_forall _ _) Hwf g Hin)).
  - exact (proj1 (Forall_forall _ _) Hall g Hin).
Qed.

(* Parser::parameters on a printed parameter list *)
Theorem parameters_ok : forall n vok (ps : list (group typ)), IHT n ->
  (forall g, In g ps -> sizeT (group_t g) < n) ->
  wfParams wfX vok ps -> allT (fun g => allX XOK (group_t g)) ps ->
  forall d (s : pstateT) rst,
    maxT (needG needX) ps + 1 <= d -> at_toks s (printParams printX ps ++ rst) ->
    sdepth s + maxT (depthG depthX) ps <= MAX_NESTING ->
    ln s <= lp s /\ lp s + maxT (depthG depthX) ps <= ln s + 64 ->
    exists nd s1, parameters A G D C E OPS (PA d) s = Ok nd s1 /\
                  erase nd = shapeParams shapeX true ps /\ at_toks s1 rst /\ frame s s1.
Proof.
  intros n vok ps IH Hsz Hwf Hall d s rst Hd Hat Hdep Hlev.
  apply (parameters_tok vok ps Hwf); [| exact (gfits_of_max d s ps Hd Hdep Hlev) | exact Hat].
  exact (TOK_of_IHT n ps IH Hsz (proj2 (proj2 Hwf)) Hall).
Qed.

(* ---- the result *)

Lemma first_not_paren : forall t, wfT t -> ~ is_paren t ->
  exists tok l, printT t = tok :: l /\ tok_is tok (KOp OParenLeft) = false.
Proof.
  intros t Hwf Hnp.
  destruct t as [name | pkg name | b args | t | t | x t | t | k v | dir t | t | [ps paren rs] | fs | es];
    try (eexists _, _; split; reflexivity).
  - destruct Hwf as (Hb & _). destruct b; try destruct Hb; eexists _, _; split; reflexivity.
  - destruct dir; eexists _, _; split; reflexivity.
  - exfalso. apply Hnp. exact I.
Qed.

Lemma type_start_not_paren : forall tok, type_start tok = false -> tok_is tok (KOp OParenLeft) = false.
Proof.
  intros tok H. destruct tok as [txt | k | op | lk txt]; try reflexivity.
  destruct op; try reflexivity; discriminate H.
Qed.

Definition printRes (paren : bool) (rs : list (group typ)) : list token :=
  if paren then printParams printX rs else commas (map printG rs).

Lemma parse_result_ok : forall paren (rs : list (group typ)),
  wfParams wfX false rs -> Forall (fun g => TOK (group_t g)) rs ->
  (paren = false -> rs = [] \/ exists t, rs = [Group [] false t] /\ ~ is_paren t) ->
  forall d (s : pstateT) rst,
    Forall (gfits d s) rs -> 1 <= d -> sdepth s < MAX_NESTING ->
    at_toks s (printRes paren rs ++ rst) -> tfollow (TFunc (Sig [] paren rs)) rst ->
    exists n s1, parse_result A G D C E OPS (PA d) s = Ok n s1 /\
                 erase n = shapeParams shapeX paren rs /\ at_toks s1 rst /\ frame s s1.
Proof.
  intros paren rs Hwf HT Hbare d s rst Hfit Hd Hdep Hat Hfo. unfold parse_result. destruct paren.
  - cbn [printRes] in Hat. assert (Hat' := Hat). unfold printParams in Hat'. cbn [app] in Hat'.
    rewrite (cur_is_toks _ _ _ _ Hat').
    change (tok_is (tk OParenLeft) (KOp OParenLeft)) with true. cbv iota.
    exact (parameters_tok false rs Hwf HT d s rst Hfit Hat).
  - cbn [printRes] in Hat. destruct (Hbare eq_refl) as [-> | (t & -> & Hnp)].
    + cbn [map commas app] in Hat.
      assert (Hnp : cur_is A G D E s (KOp OParenLeft) = false).
      { destruct rst as [| tok r]; [apply cur_is_nil; exact Hat |].
        rewrite (cur_is_toks _ _ _ _ Hat). apply type_start_not_paren. exact Hfo. }
      rewrite Hnp. destruct d as [| d0]; [lia |].
      destruct (type_or_none_none A G D C E OPS d0 s rst Hat) as (s1 & Hk & Hat1 & Hf1).
      { destruct rst as [| tok r]; [exact I |]. apply type_start_no_type. exact Hfo. }
      { exact Hdep. }
      rewrite Hk. cbn [bind]. eexists _, s1. split; [reflexivity |].
      split; [reflexivity | split; [exact Hat1 | exact Hf1]].
    + cbn [map commas Print2.printG printNames flat_map app] in Hat. rewrite app_nil_r in Hat.
      inversion HT as [| ? ? HTt _]; subst. inversion Hfit as [| ? ? Hft _]; subst.
      cbn [group_t] in HTt. unfold gfits in Hft. cbn [group_t] in Hft.
      destruct (first_not_paren t (proj1 HTt) Hnp) as (tok & l0 & Hp & Hk0).
      assert (Hcp : cur_is A G D E s (KOp OParenLeft) = false).
      { rewrite Hp in Hat. cbn [app] in Hat. rewrite (cur_is_toks _ _ _ _ Hat). exact Hk0. }
      rewrite Hcp. destruct HTt as (_ & HN & _). destruct Hft as (H1 & H2 & H3).
      destruct (HN d s rst) as (n & s1 & Hk & He & Hat1 & Hf1);
        [lia | exact Hat | exact Hfo | lia | lia |].
      rewrite Hk. cbn [bind]. eexists _, s1. split; [reflexivity |].
      split; [| split; [exact Hat1 | exact Hf1]].
      cbn. change (nmap (fun _ : A => tt) (fun _ : C => tt) n) with (erase n). rewrite He. reflexivity.
Qed.

(* ---- signature, func_type *)

Lemma printSig_split : forall ps paren rs rst,
  printSig printX (Sig ps paren rs) ++ rst = printParams printX ps ++ printRes paren rs ++ rst.
Proof.
  intros ps paren rs rst. unfold printSig, printRes, printParams. cbn [app].
  rewrite <- !app_assoc. cbn [app]. reflexivity.
Qed.

Theorem sig_ok : forall sg : fsig typ,
  IHT (sizeT (TFunc sg)) -> wfSig wfX sg -> allX XOK (TFunc sg) -> SigP sg.
Proof.
  intros [ps paren rs] IH Hwf Hall d s rst Hd Hat Hfo Hdep Hlev.
  destruct Hwf as (Hf1 & Ho1 & Hk1 & Hf2 & Ho2 & Hk2 & Hbare). destruct Hall as (Ha1 & Ha2).
  unfold needSig in Hd. unfold depthSig in Hdep, Hlev.
  assert (HT1 : Forall (fun g => TOK (group_t g)) ps).
  { apply (TOK_of_IHT _ ps IH); [| exact Hk1 | exact Ha1].
    intros g Hin. pose proof (sumT_In _ (fun g => sizeT (group_t g)) ps g Hin). simpl. lia. }
  assert (HT2 : Forall (fun g => TOK (group_t g)) rs).
  { apply (TOK_of_IHT _ rs IH); [| exact Hk2 | exact Ha2].
    intros g Hin. pose proof (sumT_In _ (fun g => sizeT (group_t g)) rs g Hin). simpl. lia. }
  rewrite printSig_split in Hat.
  destruct (parameters_tok true ps (conj Hf1 (conj Ho1 Hk1)) HT1 d s (printRes paren rs ++ rst))
    as (n1 & s1 & Hp1 & He1 & Hat1 & Hfr1); [apply gfits_of_max; lia | exact Hat |].
  assert (Hc1 : check_field_list A G D C E n1 true s1 = Ok n1 s1).
  { apply (check_field_list_ok n1 true true ps s1 He1 Hf1 Ho1). intro H; discriminate H. }
  destruct (parse_result_ok paren rs (conj Hf2 (conj Ho2 Hk2)) HT2 Hbare d s1 rst)
    as (n2 & s2 & Hp2 & He2 & Hat2 & Hfr2).
  - apply (gfits_frame _ _ _ _ Hfr1). apply gfits_of_max; lia.
  - lia.
  - unframe. lia.
  - exact Hat1.
  - exact Hfo.
  - assert (Hc2 : check_field_list A G D C E n2 false s2 = Ok n2 s2).
    { apply (check_field_list_ok n2 paren false rs s2 He2 Hf2 Ho2). intro Hpf.
      destruct (Hbare Hpf) as [Hnil | (t & Ht & _)]; [left; exact Hnil | right; eauto]. }
    exists n1, n2, s2. split; [| split; [exact He1 | split; [exact He2 | split; [exact Hat2 |
      exact (frame_trans _ _ _ Hfr1 Hfr2)]]]].
    unfold signature. rewrite Hp1. cbn [bind]. rewrite Hc1. cbn [bind]. rewrite Hp2. cbn [bind].
    rewrite Hc2. reflexivity.
Qed.

Theorem TB_func : forall sg : fsig typ,
  IHT (sizeT (TFunc sg)) -> wfT (TFunc sg) -> allX XOK (TFunc sg) -> TBP (TFunc sg).
Proof.
  intros sg IH Hwf Hall d s rst Hd Hat Hfo Hdep Hlev.
  assert (Hwf' : wfSig wfX sg) by (destruct sg; exact Hwf).
  pose proof (sig_ok sg IH Hwf' Hall) as HS.
  rewrite printT_func in Hat. cbn [app] in Hat.
  destruct (at_toks_cur _ _ _ Hat) as (p & Hc).
  destruct (expect_toks OPS s _ _ (KKw KFunc) 30 Hat eq_refl) as (pos & s1 & Hx & Hat1 & Hf1).
  assert (Hnb : cur_is A G D E s1 (KOp OBarackLeft) = false).
  { destruct sg as [ps paren rs]. cbn [printSig app] in Hat1. rewrite (cur_is_toks _ _ _ _ Hat1).
    reflexivity. }
  destruct (HS d s1 rst) as (n1 & n2 & s2 & Hk & He1 & He2 & Hat2 & Hf2).
  - destruct sg as [ps paren rs]. cbn [Print2.needT] in Hd. unfold needSig, needG. lia.
  - exact Hat1.
  - exact Hfo.
  - destruct sg as [ps paren rs]. cbn [Print2.depthT] in Hdep. unfold depthSig, depthG. unframe. lia.
  - destruct sg as [ps paren rs]. cbn [Print2.depthT] in Hlev. unfold depthSig, depthG. unframe. lia.
  - exists (n_functype A C (Some pos) (empty_fieldlist A C) n1 n2), s2.
    split; [| split; [| split; [exact Hat2 | exact (frame_trans _ _ _ Hf1 Hf2)]]].
    + unfold type_or_none_body. rewrite Hc. change (kw KFunc) with (TKeyword KFunc). cbv iota.
      unfold func_type. rewrite Hx. cbn [bind]. rewrite Hnb, Hk. reflexivity.
    + rewrite shapeTy_func. destruct sg as [ps paren rs]. cbn [shapeSig].
      rewrite <- He1, <- He2. reflexivity.
Qed.

End Sig.
