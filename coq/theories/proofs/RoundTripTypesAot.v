(* Round trip for types, shared sub-productions: array_or_typeargs (the "[" after
   `name` in a parameter group or a struct field) on a slice type and on an array
   type; type_list / type_instance (type arguments); qualified_ident (type names
   with or without their first identifier already taken). *)
From Coq Require Import List Arith NArith Lia Bool.
From GoSyn Require Import Token Tok Ast Core.
From GoSyn.spec Require Import Prec Print Print2.
From GoSyn.proofs Require Import PrecProofs RoundTripProofs RoundTripTypesBase.
Import ListNotations.

Section Aot.
Variables (A G D C E : Type).
Variable OPS : ops A G D C.
Notation nodeT := (node A C).
Notation pstateT := (pstate A G D E).
Notation cur := (s_cur A G D E).
Notation srest := (s_rest A G D E).
Notation sdepth := (s_depth A G D E).
Notation lp := (s_lp A G D E).
Notation ln := (s_ln A G D E).
Notation PA := (parsers_at A G D C E OPS).
Notation erase := (@erase A C).
Notation at_toks := (@at_toks A G D E).
Notation frame := (@frame A G D E).
Variable X : Type.
Variables (printX : X -> list token) (shapeX : X -> shapeT) (wfX : X -> Prop).
Variables (depthX needX : X -> nat).
Notation typ := (typ X).
Notation printT := (printT printX).
Notation shapeTy := (shapeTy shapeX).
Notation wfT := (wfT wfX).
Notation depthT := (depthT depthX).
Notation needT := (needT needX).
Notation TNP := (TNP A G D C E OPS X printX shapeX depthX needX).
Notation TP := (TP A G D C E OPS X printX shapeX depthX needX).
Notation XOK := (XOK A G D C E OPS X printX shapeX depthX needX).
Notation AOT := (array_or_typeargs A G D C E OPS).

(*  name []T  *)
Lemma aot_slice : forall t, TP t -> forall d (s : pstateT) rst,
  needT t + 1 <= d -> at_toks s (printT (TSlice t) ++ rst) -> tfollow t rst ->
  sdepth s + depthT t <= MAX_NESTING -> ln s <= lp s /\ lp s + depthT t <= ln s + 64 ->
  exists n s1, AOT (PA d) s = Ok n s1 /\ erase n = shapeTy (TSlice t) /\
               at_toks s1 rst /\ frame s s1.
Proof.
  intros t HT d s rst Hd Hat Hfo Hdep Hlev. cbn [Print2.printT app] in Hat.
  destruct (expect_toks OPS s _ _ (KOp OBarackLeft) 19 Hat eq_refl) as (p0 & s1 & Hx & Hat1 & Hf1).
  destruct (expect_toks OPS s1 _ _ (KOp OBarackRight) 20 Hat1 eq_refl) as (p1 & s2 & Hx2 & Hat2 & Hf2).
  pose proof (frame_trans _ _ _ Hf1 Hf2) as Hf12.
  destruct (HT d s2 rst) as (n & s3 & Hk & He & Hat3 & Hf3);
    [side | exact Hat2 | exact Hfo | side | side |].
  exists (mk A C GTypeSlice [p0; p1] [] [n]), s3.
  split; [| split; [simpl; rewrite He; reflexivity | split; [exact Hat3 |
            exact (frame_trans _ _ _ Hf12 Hf3)]]].
  unfold array_or_typeargs. rewrite Hx. cbn [bind].
  rewrite (cur_is_toks _ _ _ _ Hat1). change (tok_is (tk OBarackRight) (KOp OBarackRight)) with true.
  cbv iota. rewrite Hx2. cbn [bind]. rewrite Hk. reflexivity.
Qed.

(*  name [e]T  : the length is parsed by type_list(false), the element by type_or_none *)
Lemma aot_array : forall x t, XOK x -> TNP t -> forall d (s : pstateT) rst,
  needX x + 2 <= d -> needT t <= d ->
  at_toks s (printT (TArray x t) ++ rst) -> tfollow t rst ->
  sdepth s + Nat.max (depthX x) (depthT t) <= MAX_NESTING ->
  ln s <= lp s /\ lp s + 1 + Nat.max (depthX x) (depthT t) <= ln s + 65 ->
  exists n s1, AOT (PA d) s = Ok n s1 /\ erase n = shapeTy (TArray x t) /\
               at_toks s1 rst /\ frame s s1.
Proof.
  intros x t (HX & (tok & l0 & Hpx & Hnb & Hnd)) HT d s rst Hdx Hdt Hat Hfo Hdep Hlev.
  cbn [Print2.printT app] in Hat. rewrite <- app_assoc in Hat. cbn [app] in Hat.
  destruct (expect_toks OPS s _ _ (KOp OBarackLeft) 19 Hat eq_refl) as (p0 & s1 & Hx & Hat1 & Hf1).
  assert (Hnb1 : cur_is A G D E s1 (KOp OBarackRight) = false).
  { rewrite Hpx in Hat1. cbn [app] in Hat1. rewrite (cur_is_toks _ _ _ _ Hat1). exact Hnb. }
  pose proof (depthT_pos _ depthX t) as Hdp.
  assert (Hinc : inc_level A G D E s1 13 = Ok tt (upd_level A G D E s1 (S (lp s1)) (ln s1))).
  { apply inc_level_ok. unframe. lia. }
  set (s1' := upd_level A G D E s1 (S (lp s1)) (ln s1)) in *.
  destruct (HX d s1' (printT t ++ rst)) as (nx & s2 & Hk & Hex & Hat2 & Hf2).
  - exact Hdx.
  - exact Hat1.
  - change (sdepth s1') with (sdepth s1). unframe. lia.
  - change (lp s1') with (S (lp s1)). change (ln s1') with (ln s1). unframe. lia.
  - assert (Hsk : skipped A G D C E OPS (KOp OComma) s2 = Ok false s2).
    { apply (skipped_no OPS s2 _ _ Hat2). reflexivity. }
    pose proof (frame_inc_dec A G D E s1 s2 Hf2) as Hf2'.
    set (s3 := dec_level A G D E s2) in *.
    assert (Hat3 : at_toks s3 (tk OBarackRight :: printT t ++ rst)) by exact Hat2.
    destruct (expect_toks OPS s3 _ _ (KOp OBarackRight) 21 Hat3 eq_refl) as (p1 & s4 & Hx4 & Hat4 & Hf4).
    pose proof (frame_trans _ _ _ (frame_trans _ _ _ Hf1 Hf2') Hf4) as Hf14.
    destruct (HT d s4 rst) as (n & s5 & Hkt & He & Hat5 & Hf5);
      [exact Hdt | exact Hat4 | exact Hfo | side | side |].
    exists (mk A C GTypeArray [p0; p1] [] [nx; n]), s5.
    split; [| split; [simpl; rewrite Hex, He; reflexivity | split; [exact Hat5 |
              exact (frame_trans _ _ _ Hf14 Hf5)]]].
    unfold array_or_typeargs. rewrite Hx. cbn [bind]. rewrite Hnb1.
    unfold type_list. rewrite Hinc. cbn [bind]. rewrite Hk. cbn [bind]. rewrite Hsk. cbn [bind].
    fold s3. rewrite Hx4. cbn [bind]. rewrite Hkt. reflexivity.
Qed.

(* ------------------------------------------------------------ type arguments *)

Notation KTN := (k_type_or_none A G D C E).
Notation TLL := (type_list_loop A G D C E OPS).

Definition targs_tail (l : list typ) : list token :=
  flat_map (fun a => tk OComma :: printT a) l.

Lemma commas_cons : forall (a : typ) r,
  commas (map printT (a :: r)) = printT a ++ targs_tail r.
Proof.
  intros a r. unfold targs_tail. simpl. f_equal.
  induction r as [| b r IH]; simpl; [reflexivity | rewrite IH; reflexivity].
Qed.

Lemma close_follow : forall (t : typ) o r,
  o = OComma \/ o = OBarackRight -> tfollow t (tk o :: r).
Proof. intros t o r [-> | ->]; apply tfollow_tok; reflexivity. Qed.

Lemma targs_follow : forall (t : typ) l rst, tfollow t (targs_tail l ++ tk OBarackRight :: rst).
Proof.
  intros t l rst. destruct l as [| a l].
  - exact (close_follow t OBarackRight rst (or_intror eq_refl)).
  - exact (close_follow t OComma _ (or_introl eq_refl)).
Qed.

Lemma type_list_loop_ok : forall r, Forall (fun a => wfT a /\ TNP a) r ->
  forall d fuel acc (s : pstateT) rst,
    maxT needT r <= d ->
    sdepth s + maxT depthT r <= MAX_NESTING -> ln s <= lp s /\ lp s + maxT depthT r <= ln s + 65 ->
    at_toks s (targs_tail r ++ tk OBarackRight :: rst) ->
    length (targs_tail r) + 1 <= fuel ->
    exists ns s1,
      TLL (PA d) fuel acc s = Ok (acc ++ ns) s1 /\
      map erase ns = map shapeTy r /\ at_toks s1 (tk OBarackRight :: rst) /\ frame s s1.
Proof.
  intros r Hall. induction Hall as [| b r (Hwb & HNb) Hall IH];
    intros d fuel acc s rst Hd Hdep Hlev Hat Hfu.
  - simpl in Hat. destruct fuel as [| f]; [lia |]. cbn [type_list_loop].
    rewrite (skipped_no OPS s _ (KOp OComma) Hat) by reflexivity. cbn [bind].
    exists [], s. rewrite app_nil_r.
    split; [reflexivity |]. split; [reflexivity |]. split; [exact Hat | apply frame_refl].
  - simpl in Hd, Hdep, Hlev, Hat, Hfu. rewrite <- app_assoc in Hat.
    destruct fuel as [| f]; [lia |]. cbn [type_list_loop].
    destruct (skipped_yes OPS s _ _ (KOp OComma) Hat eq_refl) as (s1 & Hs & Hat1 & Hf1).
    rewrite Hs. cbn [bind].
    destruct (HNb d s1 (targs_tail r ++ tk OBarackRight :: rst)) as (nb & s2 & Hk & Heb & Hat2 & Hf2);
      [side | exact Hat1 | apply targs_follow | side | side |].
    rewrite Hk. cbn [bind].
    pose proof (frame_trans _ _ _ Hf1 Hf2) as Hf12.
    destruct (IH d f (acc ++ [nb]) s2 rst) as (ns & s3 & Hl & Hes & Hat3 & Hf3);
      [side | side | side | exact Hat2 | |].
    { unfold targs_tail in Hfu. rewrite app_length in Hfu. fold (targs_tail r) in Hfu. lia. }
    exists (nb :: ns), s3. split; [rewrite Hl, <- app_assoc; reflexivity |].
    split; [simpl; rewrite Heb, Hes; reflexivity |].
    split; [exact Hat3 | exact (frame_trans _ _ _ Hf12 Hf3)].
Qed.

Definition shape_args (args : list typ) : shapeT :=
  match args with [a] => shapeTy a | _ => nlist (map shapeTy args) end.

Lemma type_instance_ok : forall args, args <> [] -> Forall (fun a => wfT a /\ TNP a) args ->
  forall (left : nodeT) d (s : pstateT) rst,
    maxT needT args + 1 <= d ->
    at_toks s (tk OBarackLeft :: commas (map printT args) ++ tk OBarackRight :: rst) ->
    sdepth s + maxT depthT args <= MAX_NESTING -> ln s <= lp s /\ lp s + 1 + maxT depthT args <= ln s + 64 ->
    exists p0 p1 n s1,
      type_instance A G D C E OPS (PA d) left s = Ok (mk A C GIndex [p0; p1] [] [left; n]) s1 /\
      erase n = shape_args args /\ at_toks s1 rst /\ frame s s1.
Proof.
  intros args Hne Hall left d s rst Hd Hat Hdep Hlev.
  destruct Hall as [| a r (Hwa & HNa) Hall]; [exfalso; apply Hne; reflexivity |].
  rewrite commas_cons in Hat. rewrite <- app_assoc in Hat. simpl in Hd, Hdep, Hlev.
  pose proof (depthT_pos _ depthX a) as Hdp.
  destruct (expect_toks OPS s _ _ (KOp OBarackLeft) 14 Hat eq_refl) as (p0 & s1 & Hx & Hat1 & Hf1).
  destruct (first_tokT X printX wfX a Hwa) as (tok & l0 & Hpa & Hst & _ & _).
  assert (Hnb : cur_is A G D E s1 (KOp OBarackRight) = false).
  { rewrite Hpa in Hat1. cbn [app] in Hat1. rewrite (cur_is_toks _ _ _ _ Hat1).
    destruct tok as [txt | k | op | lk txt]; try reflexivity. destruct op; try reflexivity.
    discriminate Hst. }
  assert (Hinc : inc_level A G D E s1 13 = Ok tt (upd_level A G D E s1 (S (lp s1)) (ln s1))).
  { apply inc_level_ok. unframe. lia. }
  set (s1' := upd_level A G D E s1 (S (lp s1)) (ln s1)) in *.
  destruct (TNP_TP A G D C E OPS X printX shapeX depthX needX a HNa d s1'
              (targs_tail r ++ tk OBarackRight :: rst))
    as (na & s2 & Hk & Hea & Hat2 & Hf2).
  - lia.
  - exact Hat1.
  - apply targs_follow.
  - change (sdepth s1') with (sdepth s1). unframe. lia.
  - change (lp s1') with (S (lp s1)). change (ln s1') with (ln s1). unframe. lia.
  - destruct Hall as [| b r2 (Hwb & HNb) Hall2].
    + (* T[A] *)
      simpl in Hat2.
      assert (Hsk : skipped A G D C E OPS (KOp OComma) s2 = Ok false s2).
      { apply (skipped_no OPS s2 _ _ Hat2). reflexivity. }
      pose proof (frame_inc_dec A G D E s1 s2 Hf2) as Hf2'.
      set (s3 := dec_level A G D E s2) in *.
      assert (Hat3 : at_toks s3 (tk OBarackRight :: rst)) by exact Hat2.
      destruct (expect_toks OPS s3 _ _ (KOp OBarackRight) 16 Hat3 eq_refl)
        as (p1 & s4 & Hx4 & Hat4 & Hf4).
      exists p0, p1, na, s4.
      split; [| split; [exact Hea | split; [exact Hat4 |
                exact (frame_trans _ _ _ (frame_trans _ _ _ Hf1 Hf2') Hf4)]]].
      unfold type_instance. rewrite Hx. cbn [bind]. rewrite Hnb.
      unfold type_list. rewrite Hinc. cbn [bind]. rewrite Hk. cbn [bind]. rewrite Hsk. cbn [bind].
      fold s3. rewrite Hx4. reflexivity.
    + (* T[A, B, ...] *)
      simpl in Hat2, Hd, Hdep, Hlev. rewrite <- app_assoc in Hat2.
      destruct (skipped_yes OPS s2 _ _ (KOp OComma) Hat2 eq_refl) as (s3 & Hs3 & Hat3 & Hf3).
      pose proof (frame_trans _ _ _ Hf2 Hf3) as Hf23.
      assert (Hlev1 : lp s1' = S (lp s1) /\ ln s1' = ln s1 /\ sdepth s1' = sdepth s1)
        by (repeat split; reflexivity).
      destruct (HNb d s3 (targs_tail r2 ++ tk OBarackRight :: rst))
        as (nb & s4 & Hkb & Heb & Hat4 & Hf4);
        [lia | exact Hat3 | apply targs_follow | unframe; lia | unframe; lia |].
      pose proof (frame_trans _ _ _ Hf23 Hf4) as Hf24.
      destruct (type_list_loop_ok r2 Hall2 d (loop_fuel A G D E s4) [na; nb] s4 rst)
        as (ns & s5 & Hl & Hes & Hat5 & Hf5);
        [lia | unframe; lia | unframe; lia | exact Hat4 | |].
      { pose proof (loop_fuel_toks s4 _ Hat4) as H. rewrite app_length in H. lia. }
      pose proof (frame_trans _ _ _ Hf24 Hf5) as Hf25.
      pose proof (frame_inc_dec A G D E s1 s5 Hf25) as Hf25'.
      set (s6 := dec_level A G D E s5) in *.
      assert (Hat6 : at_toks s6 (tk OBarackRight :: rst)) by exact Hat5.
      destruct (expect_toks OPS s6 _ _ (KOp OBarackRight) 16 Hat6 eq_refl)
        as (p1 & s7 & Hx7 & Hat7 & Hf7).
      exists p0, p1, (nlist ([na; nb] ++ ns)), s7.
      split; [| split; [| split; [exact Hat7 |
                exact (frame_trans _ _ _ (frame_trans _ _ _ Hf1 Hf25') Hf7)]]].
      * unfold type_instance. rewrite Hx. cbn [bind]. rewrite Hnb.
        unfold type_list. rewrite Hinc. cbn [bind]. rewrite Hk. cbn [bind]. rewrite Hs3. cbn [bind].
        rewrite Hkb. cbn [bind]. rewrite Hl. cbn [bind]. fold s6. rewrite Hx7. reflexivity.
      * unfold shape_args. simpl. change (fun x : nodeT => erase x) with erase.
        rewrite Hea, Heb, Hes. reflexivity.
Qed.

(* ------------------------------------------------------------ type names *)

(* T   pkg.T   T[A]   pkg.T[A] *)
Definition named_type (t : typ) : Prop :=
  match t with
  | TName _ | TQual _ _ => True
  | TInst b _ => is_typename b
  | _ => False
  end.

Fixpoint first_ident (t : typ) : str :=
  match t with
  | TName n => n
  | TQual p _ => p
  | TInst b _ => first_ident b
  | _ => []
  end.

(* the printing without the first identifier *)
Definition after_first (t : typ) : list token :=
  match printT t with _ :: l => l | [] => [] end.

Lemma printT_named : forall t, named_type t -> printT t = ident_tok (first_ident t) :: after_first t.
Proof.
  intros t H. unfold after_first. destruct t; try destruct H; try reflexivity.
  destruct t; try destruct H; reflexivity.
Qed.

Lemma qualified_ident_ok : forall t, named_type t -> wfT t ->
  (forall b args, t = TInst b args -> Forall (fun a => wfT a /\ TNP a) args) ->
  forall (nm : option nodeT) d (s : pstateT) rst,
    needT t <= S d ->
    match nm with
    | None => at_toks s (printT t ++ rst)
    | Some n0 => erase n0 = sh_ident (first_ident t) /\ at_toks s (after_first t ++ rst)
    end ->
    tfollow t rst -> sdepth s + depthT t <= S MAX_NESTING -> ln s <= lp s /\ lp s + depthT t <= ln s + 65 ->
    exists n s1, qualified_ident A G D C E OPS (PA d) nm s = Ok n s1 /\ erase n = shapeTy t /\
                 at_toks s1 rst /\ frame s s1.
Proof.
  intros t Hnt Hwf Hargs nm d s rst Hd Hnm Hfo Hdep Hlev.
  (* the first identifier *)
  assert (H1 : exists n0 s0,
            (match nm with Some n => Ok n s | None => identifier A G D C E OPS 17 s end) = Ok n0 s0 /\
            erase n0 = sh_ident (first_ident t) /\ at_toks s0 (after_first t ++ rst) /\ frame s s0).
  { destruct nm as [n0 |].
    - destruct Hnm as (He0 & Hat0). exists n0, s.
      split; [reflexivity |]. split; [exact He0 |]. split; [exact Hat0 | apply frame_refl].
    - rewrite (printT_named t Hnt) in Hnm. cbn [app] in Hnm.
      destruct (identifier_toks OPS s _ _ 17 Hnm) as (p & s0 & Hi & Hat0 & Hf0).
      exists (n_ident A C p (first_ident t)), s0.
      split; [exact Hi |]. split; [reflexivity |]. split; [exact Hat0 | exact Hf0]. }
  destruct H1 as (n0 & s0 & Hid & He0 & Hat0 & Hf0).
  unfold qualified_ident. rewrite Hid. cbn [bind]. clear Hid Hnm.
  destruct t as [name | pkg name | b args | | | | | | | | | |]; try destruct Hnt.
  - (* T *)
    unfold after_first in Hat0. cbn [Print2.printT app] in Hat0.
    assert (Hdot : skipped A G D C E OPS (KOp ODot) s0 = Ok false s0).
    { apply (skipped_no OPS s0 rst _ Hat0). destruct rst as [| tk0 r]; [exact I | exact (proj1 Hfo)]. }
    rewrite Hdot. cbn [bind].
    assert (Hb : cur_is A G D E s0 (KOp OBarackLeft) = false).
    { destruct rst as [| tk0 r]; [apply cur_is_nil; exact Hat0 |].
      rewrite (cur_is_toks _ _ _ _ Hat0). exact (proj2 Hfo). }
    rewrite Hb. exists n0, s0. split; [reflexivity |]. split; [exact He0 |].
    split; [exact Hat0 | exact Hf0].
  - (* pkg.T *)
    unfold after_first in Hat0. cbn [Print2.printT app] in Hat0.
    destruct (skipped_yes OPS s0 _ _ (KOp ODot) Hat0 eq_refl) as (s2 & Hs & Hat2 & Hf2).
    destruct (identifier_toks OPS s2 name _ 18 Hat2) as (p2 & s3 & Hi2 & Hat3 & Hf3).
    rewrite Hs. cbn [bind]. rewrite Hi2. cbn [bind].
    assert (Hb : cur_is A G D E s3 (KOp OBarackLeft) = false).
    { destruct rst as [| tk0 r]; [apply cur_is_nil; exact Hat3 |].
      rewrite (cur_is_toks _ _ _ _ Hat3). exact Hfo. }
    rewrite Hb. eexists _, s3. split; [reflexivity |].
    split; [simpl; rewrite He0; reflexivity |].
    split; [exact Hat3 | exact (frame_trans _ _ _ (frame_trans _ _ _ Hf0 Hf2) Hf3)].
  - (* base[args] *)
    destruct Hwf as (Hb & Hwb & Hne & Hwa). specialize (Hargs b args eq_refl).
    simpl in Hd, Hdep, Hlev.
    assert (Hfin : forall x s3, erase x = shapeTy b ->
              at_toks s3 (tk OBarackLeft :: commas (map printT args) ++ tk OBarackRight :: rst) ->
              frame s0 s3 ->
              exists n s1,
                (if cur_is A G D E s3 (KOp OBarackLeft)
                 then type_instance A G D C E OPS (PA d) x s3 else Ok x s3) = Ok n s1 /\
                erase n = shapeTy (TInst b args) /\ at_toks s1 rst /\ frame s s1).
    { intros x s3 Hex Hat3 Hf3. rewrite (cur_is_toks _ _ _ _ Hat3).
      change (tok_is (tk OBarackLeft) (KOp OBarackLeft)) with true. cbv iota.
      pose proof (frame_trans _ _ _ Hf0 Hf3) as Hf03.
      destruct (type_instance_ok args Hne Hargs x d s3 rst)
        as (p0 & p1 & n & s4 & Hti & Hen & Hat4 & Hf4);
        [lia | exact Hat3 | unframe; lia | unframe; lia |].
      rewrite Hti. eexists _, s4. split; [reflexivity |].
      split; [simpl; rewrite Hex, Hen; reflexivity |].
      split; [exact Hat4 | exact (frame_trans _ _ _ Hf03 Hf4)]. }
    destruct b as [name | pkg name | | | | | | | | | | |]; try destruct Hb.
    + unfold after_first in Hat0. cbn [Print2.printT app] in Hat0. rewrite <- app_assoc in Hat0.
      cbn [app] in Hat0.
      rewrite (skipped_no OPS s0 _ (KOp ODot) Hat0) by reflexivity. cbn [bind].
      apply Hfin; [exact He0 | exact Hat0 | apply frame_refl].
    + unfold after_first in Hat0. cbn [Print2.printT app] in Hat0. rewrite <- app_assoc in Hat0.
      cbn [app] in Hat0.
      destruct (skipped_yes OPS s0 _ _ (KOp ODot) Hat0 eq_refl) as (s2 & Hs & Hat2 & Hf2).
      destruct (identifier_toks OPS s2 name _ 18 Hat2) as (p2 & s3 & Hi2 & Hat3 & Hf3).
      rewrite Hs. cbn [bind]. rewrite Hi2. cbn [bind].
      apply Hfin; [simpl; rewrite He0; reflexivity | exact Hat3 | exact (frame_trans _ _ _ Hf2 Hf3)].
Qed.

End Aot.
