(* Round trip for TYPES (spec/Print2.v): the induction over the derivations and
   the theorems.  The productions are proved in RoundTripTypes1 (names,
   instantiation, pointer / slice / array / map / channel / parenthesised types),
   RoundTripTypesSig (function types, signatures, parameter lists),
   RoundTripTypesStruct, RoundTripTypesIface. *)
From Coq Require Import List Arith NArith Lia Bool.
From GoSyn Require Import Token Tok Ast Core.
From GoSyn.spec Require Import Prec Print Print2.
From GoSyn.proofs Require Import PrecProofs RoundTripProofs RoundTripStmt RoundTripTypesBase
  RoundTripTypesAot RoundTripTypes1 RoundTripTypesSig RoundTripTypesStruct RoundTripTypesIface.
Import ListNotations.

(* ------------------------------------------------------------ facts about the nested inductive *)

Section Gen.
Variable X : Type.
Notation typ := (typ X).

Lemma sizeT_pos : forall t : typ, 1 <= sizeT t.
Proof. intro t; destruct t; try destruct s; simpl; lia. Qed.

(* a property of all array lengths that follows from well-formedness *)
Lemma wfT_allX : forall (wfX P : X -> Prop), (forall x, wfX x -> P x) ->
  forall n (t : typ), sizeT t < n -> wfT wfX t -> allX P t.
Proof.
  intros wfX P HP. induction n as [| n IH]; intros t Hn Hwf; [lia |].
  assert (HL : forall (l : list typ), (forall a, In a l -> sizeT a < n) ->
                 allT (wfT wfX) l -> allT (allX P) l).
  { induction l as [| a r IHl]; intros Hs Hw; [exact I |]. destruct Hw as (Hwa & Hwr).
    split; [apply IH; [apply Hs; left; reflexivity | exact Hwa] |].
    apply IHl; [intros b Hb; apply Hs; right; exact Hb | exact Hwr]. }
  assert (HG : forall (l : list (group typ)), (forall g, In g l -> sizeT (group_t g) < n) ->
                 allT (fun g => group_ok g /\ wfT wfX (group_t g)) l ->
                 allT (fun g => allX P (group_t g)) l).
  { induction l as [| a r IHl]; intros Hs Hw; [exact I |]. destruct Hw as ((_ & Hwa) & Hwr).
    split; [apply IH; [apply Hs; left; reflexivity | exact Hwa] |].
    apply IHl; [intros b Hb; apply Hs; right; exact Hb | exact Hwr]. }
  assert (HGs : forall (l : list (group typ)) m, sumT (fun g => sizeT (group_t g)) l <= m ->
                  forall g, In g l -> sizeT (group_t g) <= m).
  { intros l m Hm g Hg. pose proof (sumT_In _ (fun g => sizeT (group_t g)) l g Hg). simpl in H. lia. }
  destruct t as [name | pkg name | b args | t | t | x t | t | k v | dir t | t | sg | fs | es];
    simpl in Hn, Hwf |- *; try exact I.
  - destruct Hwf as (_ & Hwb & _ & Hwa). split; [apply IH; [lia | exact Hwb] |].
    apply HL; [| exact Hwa]. intros a Ha. pose proof (sumT_In _ sizeT args a Ha). lia.
  - apply IH; [lia | exact Hwf].
  - apply IH; [lia | exact Hwf].
  - destruct Hwf as (Hx & Hwt). split; [apply HP; exact Hx | apply IH; [lia | exact Hwt]].
  - apply IH; [lia | exact Hwf].
  - destruct Hwf as (Hk & Hv). split; apply IH; try assumption; lia.
  - apply IH; [lia | exact (proj1 Hwf)].
  - apply IH; [lia | exact Hwf].
  - destruct sg as [ps paren rs]. destruct Hwf as (_ & _ & Hps & _ & _ & Hrs & _). simpl in Hn.
    split; (apply HG; [| assumption]); intros g Hg.
    + pose proof (HGs ps _ (le_n _) g Hg). lia.
    + pose proof (HGs rs _ (le_n _) g Hg). lia.
  - revert Hn Hwf. induction fs as [| [names t tag] r IHf]; intros Hn Hwf; [exact I |].
    simpl in Hn. destruct Hwf as ((Hwt & _) & Hwr). split; [apply IH; [lia | exact Hwt] |].
    apply IHf; [simpl; lia | exact Hwr].
  - revert Hn Hwf. induction es as [| e r IHe]; intros Hn Hwf; [exact I |].
    simpl in Hn. destruct Hwf as (Hwe & Hwr). split; [| apply IHe; [simpl; lia | exact Hwr]].
    destruct e as [name [ps paren rs] | terms].
    + destruct Hwe as (_ & _ & Hps & _ & _ & Hrs & _).
      split; (apply HG; [| assumption]); intros g Hg.
      * pose proof (HGs ps _ (le_n _) g Hg). lia.
      * pose proof (HGs rs _ (le_n _) g Hg). lia.
    + destruct Hwe as (_ & Hwt). clear IHe Hwr.
      assert (Hs : sumT (fun bt : bool * typ => sizeT (snd bt)) terms < n) by lia. clear Hn.
      induction terms as [| [b t] r2 IHt]; [exact I |]. simpl in Hs. destruct Hwt as (Hw1 & Hw2).
      split; [apply IH; [simpl; lia | exact Hw1] |]. apply IHt; [exact Hw2 | lia].
Qed.

End Gen.

(* ------------------------------------------------------------ the induction *)

Section RTT.
Variables (A G D C E : Type).
Variable OPS : ops A G D C.
Notation nodeT := (node A C).
Notation pstateT := (pstate A G D E).
Notation cur := (s_cur A G D E).
Notation srest := (s_rest A G D E).
Notation sdepth := (s_depth A G D E).
Notation lp := (s_lp A G D E).
Notation ln := (s_ln A G D E).
Notation PA := (parsers_at A G D C E OPS).
Notation erase := (@erase A C).
Notation at_toks := (@at_toks A G D E).
Notation frame := (@frame A G D E).
Variable X : Type.
Variables (printX : X -> list token) (shapeX : X -> shapeT) (wfX : X -> Prop).
Variables (depthX needX : X -> nat).
Notation typ := (typ X).
Notation printT := (printT printX).
Notation shapeTy := (shapeTy shapeX).
Notation wfT := (wfT wfX).
Notation depthT := (depthT depthX).
Notation needT := (needT needX).
Notation TNP := (TNP A G D C E OPS X printX shapeX depthX needX).
Notation TP := (TP A G D C E OPS X printX shapeX depthX needX).
Notation TBP := (TBP A G D C E OPS X printX shapeX depthX needX).
Notation XOK := (XOK A G D C E OPS X printX shapeX depthX needX).
Notation SigP := (SigP A G D C E OPS X printX shapeX depthX needX).
Notation IHT := (IHT A G D C E OPS X printX shapeX wfX depthX needX).


Theorem types_main : forall n (t : typ), sizeT t < n -> wfT t -> allX XOK t -> TNP t.
Proof.
  induction n as [| n IH]; intros t Hn Hwf Hall; [lia |].
  assert (HI : IHT (sizeT t)).
  { intros t' Hs Hw' Ha'. apply IH; [lia | exact Hw' | exact Ha']. }
  assert (HP : forall t', sizeT t' < sizeT t -> wfT t' -> allX XOK t' -> TP t').
  { intros t' Hs Hw' Ha'. apply TNP_TP. apply HI; assumption. }
  apply TBP_TNP.
  destruct t as [name | pkg name | b args | t | t | x t | t | k v | dir t | t | sg | fs | es].
  - apply (TB_named A G D C E OPS X printX shapeX wfX depthX needX); [exact I | exact Hwf | intros b args Heq; discriminate Heq].
  - apply (TB_named A G D C E OPS X printX shapeX wfX depthX needX); [exact I | exact Hwf | intros b args Heq; discriminate Heq].
  - apply (TB_named A G D C E OPS X printX shapeX wfX depthX needX); [exact (proj1 Hwf) | exact Hwf |].
    intros b' args' Heq. injection Heq as <- <-.
    destruct Hwf as (_ & _ & _ & Hwa). destruct Hall as (_ & Haa).
    apply allT_Forall in Hwa. apply allT_Forall in Haa.
    apply Forall_forall. intros a Ha.
    rewrite Forall_forall in Hwa, Haa. split; [apply Hwa; exact Ha |].
    apply HI; [| apply Hwa; exact Ha | apply Haa; exact Ha].
    pose proof (sumT_In _ sizeT args a Ha). simpl. lia.
  - apply TB_ptr. apply HP; [simpl; lia | exact Hwf | exact Hall].
  - apply TB_slice. apply HP; [simpl; lia | exact Hwf | exact Hall].
  - destruct Hwf as (Hx & Hwt). destruct Hall as (Hxo & Hat).
    apply TB_array; [exact Hxo |]. apply HP; [simpl; lia | exact Hwt | exact Hat].
  - apply TB_arraydots. apply HP; [simpl; lia | exact Hwf | exact Hall].
  - destruct Hwf as (Hk & Hv). destruct Hall as (Hak & Hav).
    apply TB_map; apply HP; try assumption; simpl; lia.
  - apply (TB_chan A G D C E OPS X printX shapeX wfX depthX needX dir t); [| exact Hwf].
    apply HP; [simpl; lia | exact (proj1 Hwf) | exact Hall].
  - apply TB_paren. apply HP; [simpl; lia | exact Hwf | exact Hall].
  - apply (TB_func A G D C E OPS X printX shapeX wfX depthX needX); assumption.
  - apply (TB_struct A G D C E OPS X printX shapeX wfX depthX needX); assumption.
  - apply (TB_interface A G D C E OPS X printX shapeX wfX depthX needX); try assumption.
    intros sg Hs Hws Has. apply (sig_ok A G D C E OPS X printX shapeX wfX depthX needX); [| exact Hws | exact Has].
    intros t' Hs' Hw' Ha'. apply HI; [lia | exact Hw' | exact Ha'].
Qed.

(* ------------------------------------------------------------ the theorems *)

(* Parser::type_ in context *)
Theorem type_in_context : forall t : typ, wfT t -> allX XOK t -> forall d (s : pstateT) rst,
  needT t + 1 <= d -> at_toks s (printT t ++ rst) -> tfollow t rst ->
  sdepth s + depthT t <= MAX_NESTING -> ln s <= lp s /\ lp s + depthT t <= ln s + 64 ->
  exists n s1, k_type A G D C E (PA d) s = Ok n s1 /\ erase n = shapeTy t /\
               at_toks s1 rst /\ frame s s1.
Proof.
  intros t Hwf Hall. apply TNP_TP. apply (types_main (S (sizeT t))); [lia | exact Hwf | exact Hall].
Qed.

(* Parser::type_or_none in context *)
Theorem type_or_none_in_context : forall t : typ, wfT t -> allX XOK t -> forall d (s : pstateT) rst,
  needT t <= d -> at_toks s (printT t ++ rst) -> tfollow t rst ->
  sdepth s + depthT t <= MAX_NESTING -> ln s <= lp s /\ lp s + depthT t <= ln s + 65 ->
  exists n s1, k_type_or_none A G D C E (PA d) s = Ok (Some n) s1 /\ erase n = shapeTy t /\
               at_toks s1 rst /\ frame s s1.
Proof.
  intros t Hwf Hall. apply (types_main (S (sizeT t))); [lia | exact Hwf | exact Hall].
Qed.

(* Parser::type_ as an entry point (the crate has none of its own: started like
   Parser::expression) *)
Definition entry_type (self : parsers A G D C E) (s : pstateT) : res A G D E nodeT :=
  bind A G D E (ensure_started A G D C E OPS s) (fun _ s0 => k_type A G D C E self s0).

Theorem type_roundtrip_gen : forall t : typ, wfT t -> allX XOK t -> depthT t <= TDEPTH_BOUND ->
  forall d a0 d0 (elems : list (selem A G)) ae ge,
    map tok_of elems = printT t -> needT t + 1 <= d ->
    exists n s',
      entry_type (PA d) (init_state A G D E a0 d0 elems (TEof ae ge)) = Ok n s' /\
      erase n = shapeTy t /\ cur s' = None /\ srest s' = [].
Proof.
  intros t Hwf Hall Hb d a0 d0 elems ae ge Hel Hd. unfold TDEPTH_BOUND in Hb.
  set (si := init_state A G D E a0 d0 elems (TEof ae ge)).
  assert (Hr : rest_toks A G D E si (printT t)).
  { split; [exists ae, ge; reflexivity | exact Hel]. }
  destruct (next_toks OPS si _ Hr) as (s0 & Hn & Hat0 & Hf0).
  unfold entry_type, ensure_started.
  change (s_started A G D E si) with false. cbv iota. rewrite Hn. cbn [bind].
  destruct Hf0 as (Hd0 & k & Ha & Hb0).
  change (sdepth si) with 0 in Hd0. change (lp si) with 1 in Ha. change (ln si) with 0 in Hb0.
  destruct (type_in_context t Hwf Hall d s0 []) as (n & s1 & Hk & He & Hat1 & _).
  - exact Hd.
  - rewrite app_nil_r. exact Hat0.
  - exact I.
  - unfold MAX_NESTING. lia.
  - lia.
  - exists n, s1. split; [exact Hk |]. split; [exact He |]. exact (at_toks_nil _ Hat1).
Qed.

End RTT.

(* ------------------------------------------------------------ stage A: array lengths are Print.exp *)

Section StageA.
Variables (A G D C E : Type).
Variable OPS : ops A G D C.
Notation pstateT := (pstate A G D E).
Notation PA := (parsers_at A G D C E OPS).

Lemma exp_XOK : forall e, wf e -> XOK A G D C E OPS exp print shape depth need e.
Proof.
  intros e Hwf. split.
  - intros d s rst Hd Hat Hdep Hlev.
    apply (k_expr_ctx A G D C E OPS e Hwf d s (tk OBarackRight :: rst)); try assumption.
    + apply follow0_tok; reflexivity.
    + lia.
  - destruct (first_tok e Hwf) as (t & l & Hp & Hst & _).
    destruct (expr_start_not t Hst) as (_ & H2 & _ & H4).
    exists t, l. split; [exact Hp |]. split; assumption.
Qed.

Lemma wfA_allX : forall t : typA, wfA t -> allX (XOK A G D C E OPS exp print shape depth need) t.
Proof.
  intros t Hwf. apply (wfT_allX exp wf _ exp_XOK (S (sizeT t))); [lia | exact Hwf].
Qed.

Theorem typeA_in_context : forall t : typA, wfA t -> forall d (s : pstateT) rst,
  needA t + 1 <= d -> at_toks s (printA t ++ rst) -> tfollow t rst ->
  s_depth A G D E s + depthA t <= MAX_NESTING ->
  s_ln A G D E s <= s_lp A G D E s /\ s_lp A G D E s + depthA t <= s_ln A G D E s + 64 ->
  exists n s1, k_type A G D C E (PA d) s = Ok n s1 /\ erase n = shapeA t /\
               at_toks s1 rst /\ frame s s1.
Proof.
  intros t Hwf. apply (type_in_context A G D C E OPS exp print shape wf depth need t Hwf).
  apply wfA_allX. exact Hwf.
Qed.

Theorem typeA_roundtrip : forall t : typA, wfA t -> depthA t <= TDEPTH_BOUND ->
  forall d a0 d0 (elems : list (selem A G)) ae ge,
    map tok_of elems = printA t -> needA t + 1 <= d ->
    exists n s',
      entry_type A G D C E OPS (PA d) (init_state A G D E a0 d0 elems (TEof ae ge)) = Ok n s' /\
      erase n = shapeA t /\ s_cur A G D E s' = None /\ s_rest A G D E s' = [].
Proof.
  intros t Hwf. apply (type_roundtrip_gen A G D C E OPS exp print shape wf depth need t Hwf).
  apply wfA_allX. exact Hwf.
Qed.

End StageA.
