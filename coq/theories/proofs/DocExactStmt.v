(* C12 nested nodes, EXACT form (see DocExactBase.v), stage 2: statements. *)
From Coq Require Import List Bool Arith NArith Lia.
From GoSyn.spec Require Import LineCol Docs.
From GoSyn Require Import Token Tok Scanner Ast Core Policy.
From GoSyn.proofs Require Import Lift StreamProofs LevelProofs DocProofs AccountBase PosBase
  DocExactBase DocExactExpr.
Import ListNotations.

Section Step2.
Variable lines : list N.
Variable E : Type.
Notation cm := Policy.comment.
Notation OPS := (policy_ops lines).
Notation pstate := (Core.pstate N (list cm) cstate E).
Notation res := (Core.res N (list cm) cstate E).
Notation parsers := (Core.parsers N (list cm) cstate (list cm) E).
Notation selem := (Core.selem N (list cm)).
Notation nodeT := (node N (list cm)).
Variable whole : list selem.
Notation DSw := (DS lines E whole).
Notation DWw := (DW lines E whole).
Notation dgoodw := (dgood lines whole).
Notation dgoodow := (dgoodo lines whole).

Variable self : parsers.
Hypothesis HG : GoodD lines E whole self.

Lemma P_parse_range_expr : DSw dgoodw (parse_range_expr OPS self).
Proof. dprod parse_range_expr. Qed.
Local Hint Resolve P_parse_range_expr : doc.

Lemma P_parse_simple_stmt : DSw dgoodw (parse_simple_stmt OPS self).
Proof. dprod parse_simple_stmt. Qed.
Local Hint Resolve P_parse_simple_stmt : doc.

Lemma P_stmts_until_brace : forall fuel acc,
  DSw (fun r => Forall dgoodw acc -> Forall dgoodw r) (stmts_until_brace self fuel acc).
Proof. dloop stmts_until_brace fuel. Qed.
Local Hint Resolve P_stmts_until_brace : doc.

Lemma P_block_body : DSw dgoodw (block_body OPS self).
Proof. dprod block_body. Qed.
Local Hint Resolve P_block_body : doc.

Lemma P_stmt_list_loop : forall fuel acc,
  DSw (fun r => Forall dgoodw acc -> Forall dgoodw r) (stmt_list_loop self fuel acc).
Proof. dloop stmt_list_loop fuel. Qed.
Local Hint Resolve P_stmt_list_loop : doc.

Lemma P_parse_stmt_list : DSw (Forall dgoodw) (parse_stmt_list self).
Proof. dprod parse_stmt_list. Qed.
Local Hint Resolve P_parse_stmt_list : doc.

Lemma P_parse_go_defer is_go : DSw dgoodw (parse_go_defer OPS self is_go).
Proof. dprod parse_go_defer. Qed.
Local Hint Resolve P_parse_go_defer : doc.

Lemma P_parse_return_stmt : DSw dgoodw (parse_return_stmt OPS self).
Proof. dprod parse_return_stmt. Qed.
Local Hint Resolve P_parse_return_stmt : doc.

Lemma P_parse_branch_stmt key : DSw dgoodw (parse_branch_stmt OPS key).
Proof. dprod parse_branch_stmt. Qed.
Local Hint Resolve P_parse_branch_stmt : doc.

Lemma P_parse_if_header :
  DSw (fun r => dgoodow (fst r) /\ dgoodw (snd r)) (parse_if_header OPS self).
Proof. dprod parse_if_header. Qed.
Local Hint Resolve P_parse_if_header : doc.

Lemma P_if_body : DSw dgoodw (if_body OPS self).
Proof. dprod if_body. Qed.
Local Hint Resolve P_if_body : doc.

Lemma P_case_block_loop : forall fuel ta acc,
  DSw (fun r => Forall dgoodw acc -> Forall dgoodw r) (case_block_loop OPS self fuel ta acc).
Proof. dloop case_block_loop fuel. Qed.
Local Hint Resolve P_case_block_loop : doc.

Lemma P_parse_case_block ta : DSw dgoodw (parse_case_block OPS self ta).
Proof. dprod parse_case_block. Qed.
Local Hint Resolve P_parse_case_block : doc.

Lemma P_parse_switch_stmt : DSw dgoodw (parse_switch_stmt OPS self).
Proof. dprod parse_switch_stmt. Qed.
Local Hint Resolve P_parse_switch_stmt : doc.

Lemma P_parse_comm_stmt : DSw dgoodw (parse_comm_stmt OPS self).
Proof. dprod parse_comm_stmt. Qed.
Local Hint Resolve P_parse_comm_stmt : doc.

Lemma P_comm_block_loop : forall fuel acc,
  DSw (fun r => Forall dgoodw acc -> Forall dgoodw r) (comm_block_loop OPS self fuel acc).
Proof. dloop comm_block_loop fuel. Qed.
Local Hint Resolve P_comm_block_loop : doc.

Lemma P_parse_select_stmt : DSw dgoodw (parse_select_stmt OPS self).
Proof. dprod parse_select_stmt. Qed.
Local Hint Resolve P_parse_select_stmt : doc.

Lemma P_parse_for_stmt : DSw dgoodw (parse_for_stmt OPS self).
Proof.
  dprod parse_for_stmt.
  split; [ f_tac | ].
  assert (Hn' : dgoodw n).
  { eapply (pop_last_x _ dgoodw); [ exact E5 | apply dgood_kids, dgood_kid, Hg ]. }
  assert (Hleft : Forall dgoodw (n_kids (kid y 0))) by (apply dgood_kids, dgood_kid, Hg).
  destruct (n_kids (kid y 0)) as [|a [|b l']]; dg.
Qed.
Local Hint Resolve P_parse_for_stmt : doc.

End Step2.

#[export] Hint Resolve P_parse_range_expr P_parse_simple_stmt P_stmts_until_brace P_block_body
  P_stmt_list_loop P_parse_stmt_list P_parse_go_defer P_parse_return_stmt P_parse_branch_stmt
  P_parse_if_header P_if_body P_case_block_loop P_parse_case_block P_parse_switch_stmt
  P_parse_comm_stmt P_comm_block_loop P_parse_select_stmt P_parse_for_stmt : doc.
