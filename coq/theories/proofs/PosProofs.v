(* Positions name tokens, stage 3: declarations, statement dispatch, the closed
   recursion, the file level and the final theorem. *)
From Coq Require Import List Bool Arith NArith Lia.
From GoSyn Require Import Token Tok Ast Core.
From GoSyn.proofs Require Import Lift AccountBase PosBase PosExpr PosStmt.
Import ListNotations.

Definition decl_kw (k : spec_kind) : keyword :=
  match k with SKVar => KVar | SKConst => KConst | SKType => KType end.

Section Step3.
Variables (A G D C E : Type) (OPS : ops A G D C).
Notation pstate := (Core.pstate A G D E).
Notation res := (Core.res A G D E).
Notation parsers := (Core.parsers A G D C E).
Notation selem := (Core.selem A G).
Notation nodeT := (node A C).
Variable whole : list selem.
Notation PSw := (PS (E:=E) (D:=D) whole).
Notation PSPw := (PSP (E:=E) (D:=D) whole).
Notation pgoodw := (pgood (C:=C) whole).
Notation pgoodow := (pgoodo (C:=C) whole).

Variable self : parsers.
Hypothesis HG : GoodP whole self.

Lemma P_parse_type_spec : PSw pgoodw (parse_type_spec OPS self).
Proof. qprod parse_type_spec. Qed.
Local Hint Resolve P_parse_type_spec : pos.

Lemma P_parse_var_spec : PSw pgoodw (parse_var_spec OPS self).
Proof. qprod parse_var_spec. Qed.
Local Hint Resolve P_parse_var_spec : pos.

Lemma P_parse_const_spec index : PSw pgoodw (parse_const_spec OPS self index).
Proof. qprod parse_const_spec. Qed.
Local Hint Resolve P_parse_const_spec : pos.

Lemma P_parse_spec k index : PSw pgoodw (parse_spec OPS self k index).
Proof. qprod parse_spec. Qed.
Local Hint Resolve P_parse_spec : pos.

Lemma P_decl_group_loop : forall fuel k index acc,
  PSw (fun r => Forall pgoodw acc -> Forall pgoodw r) (decl_group_loop OPS self fuel k index acc).
Proof. qloop decl_group_loop fuel. Qed.
Local Hint Resolve P_decl_group_loop : pos.

(* parse_decl skips the keyword without a check: its callers have looked at it *)
Lemma P_parse_decl k :
  PSPw (fun s => cur_is s (KKw (decl_kw k)) = true) pgoodw (parse_decl OPS self k).
Proof.
  intros s r s' Hs Hpre. unfold parse_decl. hide_nats. cbv zeta.
  pose proof (sinv_cur_is _ _ _ _ _ _ _ Hs Hpre) as Hkw.
  q_steps; try (solve [ destruct k; cbn [decl_tag decl_kw] in *; q_fin ]).
Qed.
Local Hint Resolve P_parse_decl : pos.

Lemma P_parse_func_decl : PSw pgoodw (parse_func_decl OPS self).
Proof. qprod parse_func_decl. Qed.
Local Hint Resolve P_parse_func_decl : pos.

Lemma classify_decl tok :
  match classify_stmt tok with
  | SCVar => tok = TKeyword KVar
  | SCType => tok = TKeyword KType
  | SCConst => tok = TKeyword KConst
  | _ => True
  end.
Proof. destruct tok as [|k|o|]; try destruct k; try destruct o; cbn; auto. Qed.

Lemma cur_is_of (s : pstate) p t k : s_cur s = Some (p, t) -> tok_is t k = true -> cur_is s k = true.
Proof. unfold cur_is. intros ->. auto. Qed.

Lemma P_stmt_body : PSw pgoodw (stmt_body OPS self).
Proof.
  intros s r s' Hs. unfold stmt_body. hide_nats.
  destruct (s_cur s) as [[pos tok]|] eqn:Ec; [ | discriminate ].
  pose proof (classify_decl tok) as Hcd.
  destruct (classify_stmt tok) eqn:Ecl; try subst tok;
    try (assert (Hpv : cur_is s (KKw (decl_kw SKVar)) = true)
           by (eapply cur_is_of; [ exact Ec | reflexivity ]));
    try (assert (Hpt : cur_is s (KKw (decl_kw SKType)) = true)
           by (eapply cur_is_of; [ exact Ec | reflexivity ]));
    try (assert (Hpc : cur_is s (KKw (decl_kw SKConst)) = true)
           by (eapply cur_is_of; [ exact Ec | reflexivity ]));
    try clear Hcd; q_steps; try (solve [ q_fin ]).
Qed.
Local Hint Resolve P_stmt_body : pos.

Lemma GoodP_step : GoodP whole (step OPS self).
Proof.
  split; cbn [step k_type k_type_or_none k_expr k_unary k_binary k_litvalue k_block k_stmt k_if];
    try apply P_nested; eauto with pos.
Qed.

(* -- file level -- *)

Lemma P_parse_package : PSw pgoodw (parse_package OPS).
Proof. qprod parse_package. Qed.
Local Hint Resolve P_parse_package : pos.

Lemma P_parse_import_spec : PSw pgoodw (parse_import_spec OPS).
Proof.
  intros s r s' Hs. unfold parse_import_spec. hide_nats.
  destruct (s_cur s) as [[pos tok]|] eqn:Ec; [ | discriminate ].
  destruct tok as [| |o|k name]; try destruct o; try destruct k; q_steps; try (solve [ q_fin ]).
Qed.
Local Hint Resolve P_parse_import_spec : pos.

Lemma P_import_group_loop : forall fuel (acc : list nodeT),
  PSw (fun r => Forall pgoodw acc -> Forall pgoodw r) (import_group_loop OPS fuel acc).
Proof. qloop import_group_loop fuel. Qed.
Local Hint Resolve P_import_group_loop : pos.

Lemma P_parse_import_decl : PSw (Forall pgoodw) (parse_import_decl OPS).
Proof. qprod parse_import_decl. Qed.
Local Hint Resolve P_parse_import_decl : pos.

Lemma P_imports_loop : forall fuel (acc : list nodeT),
  PSw (fun r => Forall pgoodw acc -> Forall pgoodw r) (imports_loop OPS fuel acc).
Proof. qloop imports_loop fuel. Qed.
Local Hint Resolve P_imports_loop : pos.

Lemma P_parse_top_decl : PSw pgoodw (parse_top_decl OPS self).
Proof.
  intros s r s' Hs. unfold parse_top_decl. hide_nats.
  destruct (s_cur s) as [[pos tok]|] eqn:Ec; [ | discriminate ].
  destruct tok as [|k|o|k name]; try discriminate. 
  destruct k; try discriminate;
    try (assert (Hpv : cur_is s (KKw (decl_kw SKVar)) = true)
           by (eapply cur_is_of; [ exact Ec | reflexivity ]));
    try (assert (Hpt : cur_is s (KKw (decl_kw SKType)) = true)
           by (eapply cur_is_of; [ exact Ec | reflexivity ]));
    try (assert (Hpc : cur_is s (KKw (decl_kw SKConst)) = true)
           by (eapply cur_is_of; [ exact Ec | reflexivity ]));
    q_steps; try (solve [ q_fin ]).
Qed.
Local Hint Resolve P_parse_top_decl : pos.

Lemma P_decls_loop : forall fuel acc,
  PSw (fun r => Forall pgoodw acc -> Forall pgoodw r) (decls_loop OPS self fuel acc).
Proof. qloop decls_loop fuel. Qed.
Local Hint Resolve P_decls_loop : pos.

Lemma P_ensure_started : PSw anyg (ensure_started OPS).
Proof. qprod ensure_started. Qed.
Local Hint Resolve P_ensure_started : pos.

Lemma P_parse_file : PSw pgoodw (parse_file OPS self).
Proof. qprod parse_file. Qed.

Lemma P_entry_expression : PSw pgoodw (entry_expression OPS self).
Proof. qprod entry_expression. Qed.

Lemma P_entry_stmt : PSw pgoodw (entry_stmt OPS self).
Proof. qprod entry_stmt. Qed.

End Step3.

#[export] Hint Resolve P_parse_type_spec P_parse_var_spec P_parse_const_spec P_parse_spec
  P_decl_group_loop P_parse_decl P_parse_func_decl P_stmt_body P_parse_package
  P_parse_import_spec P_import_group_loop P_parse_import_decl P_imports_loop P_parse_top_decl
  P_decls_loop P_ensure_started P_parse_file P_entry_expression P_entry_stmt : pos.

(* ------------------------------------------------------------------ closing the recursion *)

Section Close.
Variables (A G D C E : Type) (OPS : ops A G D C).
Notation pstate := (Core.pstate A G D E).
Notation nodeT := (node A C).
Notation selem := (Core.selem A G).
Notation sterm := (Core.sterm A G E).

Theorem GoodP_parsers_at whole d : GoodP (E:=E) whole (parsers_at OPS d).
Proof.
  apply (parsers_at_ind A G D C E OPS (fun self => GoodP whole self)).
  - apply GoodP_no_fuel.
  - intros self H. apply GoodP_step, H.
Qed.

(* every production, at every depth: e.g. *)
Theorem expr_positions whole d : PS (E:=E) (D:=D) whole (pgood whole) (k_expr (parsers_at OPS d)).
Proof. apply gp_expr, GoodP_parsers_at. Qed.
Theorem stmt_positions whole d : PS (E:=E) (D:=D) whole (pgood whole) (k_stmt (parsers_at OPS d)).
Proof. apply gp_stmt, GoodP_parsers_at. Qed.
Theorem type_positions whole d : PS (E:=E) (D:=D) whole (pgood whole) (k_type (parsers_at OPS d)).
Proof. apply gp_type, GoodP_parsers_at. Qed.

(* what [pgood] says of one node, spelled out *)
Definition node_ok (elems : list selem) (n : nodeT) : Prop :=
  pos_layout n = true /\
  (forall p pred, In (p, pred) (pos_spec n) ->
     exists a1 t g, In (SE p a1 t g) elems /\ pred t = true) /\
  pair_ok elems (n_tag n) (n_ps n).

Lemma pgood_node_ok elems (n : nodeT) : pgood elems n -> node_ok elems n.
Proof.
  intros H. pose proof (pgood_pos_spec _ _ _ _ _ H) as Hsp. apply pgood_own in H.
  destruct H as (Hl & _ & Hp). split; [ exact Hl | split; [ | exact Hp ] ].
  intros p pred Hi. destruct (Hsp p pred Hi) as (t & (a1 & g & Hin) & Ht).
  exists a1, t, g. auto.
Qed.

Theorem parse_file_positions d a0 d0 elems (term : sterm) f s' :
  parse_file OPS (parsers_at OPS d) (init_state a0 d0 elems term) = Ok f s' ->
  forall n, occurs n f -> node_ok elems n.
Proof.
  intros H n Hn. apply pgood_node_ok. eapply pgood_occurs; [ | exact Hn ].
  eapply (P_parse_file _ _ _ _ _ OPS elems _ (GoodP_parsers_at elems d)); [ | exact H ].
  apply sinv_init.
Qed.

(* the statement of C05 (second half), spelled out *)
Corollary parse_file_pos_spec d a0 d0 elems (term : sterm) f s' :
  parse_file OPS (parsers_at OPS d) (init_state a0 d0 elems term) = Ok f s' ->
  forall n, occurs n f -> forall p pred, In (p, pred) (pos_spec n) ->
  exists a1 t g, In (SE p a1 t g) elems /\ pred t = true.
Proof. intros H n Hn. apply (parse_file_positions d a0 d0 elems term f s' H n Hn). Qed.

(* the other two entry points, from any state inside the stream *)
Theorem entry_expression_positions d elems (s : pstate) e s' :
  sinv elems s -> entry_expression OPS (parsers_at OPS d) s = Ok e s' ->
  sinv elems s' /\ forall n, occurs n e -> node_ok elems n.
Proof.
  intros Hs H.
  destruct (P_entry_expression _ _ _ _ _ OPS elems _ (GoodP_parsers_at elems d) _ _ _ Hs H)
    as (Hs' & Hg).
  split; [ exact Hs' | ]. intros n Hn. apply pgood_node_ok. eapply pgood_occurs; eassumption.
Qed.

Theorem entry_stmt_positions d elems (s : pstate) e s' :
  sinv elems s -> entry_stmt OPS (parsers_at OPS d) s = Ok e s' ->
  sinv elems s' /\ forall n, occurs n e -> node_ok elems n.
Proof.
  intros Hs H.
  destruct (P_entry_stmt _ _ _ _ _ OPS elems _ (GoodP_parsers_at elems d) _ _ _ Hs H)
    as (Hs' & Hg).
  split; [ exact Hs' | ]. intros n Hn. apply pgood_node_ok. eapply pgood_occurs; eassumption.
Qed.

End Close.
Arguments node_ok {A G C} elems n.
