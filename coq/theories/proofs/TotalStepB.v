(* TOTALITY, part 4: one unfolding of the recursion -- expressions. *)
From Coq Require Import List Bool Arith Lia.
From GoSyn Require Import Token Tok Ast Core.
From GoSyn.proofs Require Import Lift TotalBase TotalLeaf TotalStepA.
Import ListNotations.

(* the result shapes of parse_slice_index_or_type_inst: sites 1105 and 1122 *)
Definition slice_ok {X} (oi : sop * list (option X)) : Prop :=
  match fst oi with
  | SNone => exists e, snd oi = [Some e]
  | SComma => True
  | SColon => 1 <= length (snd oi) <= 3
  end.

Section StepB.
Variables (A G D C E : Type) (OPS : ops A G D C).
Variable AF : Prop.
Variable adm : Core.pstate A G D E -> Prop.
Hypothesis adm_le : forall s s' : Core.pstate A G D E,
  adm s -> s_depth s' = s_depth s -> meas s' <= meas s -> adm s'.
Local Hint Extern 2 (adm _) =>
  eapply adm_le; [ eassumption | sproj; lia | norm_goal; lia ] : total.
Notation pstate := (Core.pstate A G D E).
Notation res := (Core.res A G D E).
Notation parsers := (Core.parsers A G D C E).
Notation nodeT := (node A C).

Notation tspec Q p := (forall s : pstate, WF s -> adm s -> spec AF s (Q s) (p s)).

Variable self : parsers.
Hypothesis HG : GoodT AF adm self.
Set Default Proof Using "adm_le HG".

Lemma T_parse_element_value :
  tspec (fun s (_ : nodeT) s' => meas s' < meas s) (parse_element_value self).
Proof. tprod parse_element_value. Qed.
Local Hint Resolve T_parse_element_value : total.

Lemma T_parse_element :
  tspec (fun s (_ : nodeT) s' => meas s' < meas s) (parse_element OPS self).
Proof. tprod parse_element. Qed.
Local Hint Resolve T_parse_element : total.

Lemma T_lit_value_loop : forall fuel acc (s : pstate),
  WF s -> adm s -> AF \/ meas s < fuel ->
  spec AF s (fun _ _ => True) (lit_value_loop OPS self fuel acc s).
Proof. tloop lit_value_loop fuel. Qed.
Local Hint Resolve T_lit_value_loop : total.

Lemma T_lit_value_body :
  tspec (fun s (_ : nodeT) s' => meas s' < meas s) (lit_value_body OPS self).
Proof. tprod lit_value_body. Qed.

Lemma T_index_comma_loop : forall fuel acc (s : pstate),
  WF s -> adm s -> AF \/ meas s < fuel ->
  spec AF s (fun _ _ => True) (index_comma_loop OPS self fuel acc s).
Proof. tloop index_comma_loop fuel. Qed.
Local Hint Resolve T_index_comma_loop : total.

Lemma T_parse_slice_index_or_type_inst (s : pstate) :
  WF s -> adm s -> s_cur s <> None ->
  spec AF s (fun oi s' => slice_ok oi /\ meas s' < meas s)
       (parse_slice_index_or_type_inst OPS self s).
Proof.
  intros Hwf Hd Hc. unfold parse_slice_index_or_type_inst. hide_nats. cbv beta zeta.
  tstep. tstep.
  all: try solve [ tsteps ].
  destruct x0; cbn [app andb]; tsteps; unfold slice_ok; cbn; eauto; try lia.
  exfalso. match goal with H : (_ =? _) = false |- _ => cbn in H; discriminate H end.
Qed.
Local Hint Resolve T_parse_slice_index_or_type_inst : total.

Lemma T_call_args_loop : forall fuel args ewc (s : pstate),
  WF s -> adm s -> AF \/ meas s < fuel ->
  spec AF s (fun _ _ => True) (call_args_loop OPS self fuel args ewc s).
Proof. tloop call_args_loop fuel. Qed.
Local Hint Resolve T_call_args_loop : total.

Lemma slice_none X (index : list (option X)) :
  slice_ok (SNone, index) -> exists e, pop_last index = Some ([], Some e).
Proof. intros [e H]. cbn in H. subst. exists e. reflexivity. Qed.

Lemma T_primary_step (x : nodeT) : ex_ok x ->
  tspec (fun s o s' => match o with Some x' => ex_ok x' /\ meas s' < meas s | None => True end)
        (primary_step OPS self x).
Proof.
  intros Hx. intros s Hwf Hd. unfold primary_step. hide_nats. cbv beta zeta.
  Ltac tstep_hook ::=
    match goal with
    | H : slice_ok (SNone, ?index) |- context [pop_last ?index] =>
        let e := fresh "e" in let He := fresh "He" in
        destruct (slice_none _ _ H) as [e He]; rewrite He; cbv beta iota
    end.
  tsteps.
  Ltac tstep_hook ::= fail.
  all: match goal with H : slice_ok _ |- _ => unfold slice_ok in H; cbn in H; try lia end.
Qed.
Local Hint Resolve T_primary_step : total.

Lemma T_primary_loop : forall fuel x (s : pstate),
  WF s -> adm s -> AF \/ meas s < fuel -> ex_ok x ->
  spec AF s (fun e _ => ex_ok e) (primary_loop OPS self fuel x s).
Proof. tloop primary_loop fuel. Qed.
Local Hint Resolve T_primary_loop : total.

Lemma T_operand : tspec (fun s e s' => ex_ok e /\ meas s' < meas s) (operand OPS self).
Proof. tprod operand. Qed.
Local Hint Resolve T_operand : total.

Lemma T_primary_expression (p : option nodeT) : opt_ok ex_ok p ->
  tspec (fun s e s' => ex_ok e /\ (p = None -> meas s' < meas s)) (primary_expression OPS self p).
Proof. intros Hp. tprod primary_expression. Qed.
Local Hint Resolve T_primary_expression : total.

Lemma T_unary_body : tspec (fun s e s' => ex_ok e /\ meas s' < meas s) (unary_body OPS self).
Proof. tprod unary_body. Qed.

Lemma T_binary_loop : forall fuel prec x (s : pstate),
  WF s -> adm s -> AF \/ meas s < fuel -> ex_ok x ->
  spec AF s (fun e _ => ex_ok e) (binary_loop OPS self fuel prec x s).
Proof. tloop binary_loop fuel. Qed.
Local Hint Resolve T_binary_loop : total.

Lemma T_binary_body (p : option nodeT) prec : opt_ok ex_ok p ->
  tspec (fun s e s' => ex_ok e /\ (p = None -> meas s' < meas s)) (binary_body OPS self p prec).
Proof. intros Hp. tprod binary_body. Qed.

Lemma T_expr_body : tspec (fun s e s' => ex_ok e /\ meas s' < meas s) (expr_body self).
Proof. tprod expr_body. Qed.

Unset Default Proof Using.
End StepB.

#[export] Hint Resolve T_parse_element_value T_parse_element T_lit_value_loop T_lit_value_body
  T_index_comma_loop T_parse_slice_index_or_type_inst T_call_args_loop T_primary_step
  T_primary_loop T_operand T_primary_expression T_unary_body T_binary_loop T_binary_body
  T_expr_body : total.
