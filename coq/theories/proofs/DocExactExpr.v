(* C12 nested nodes, EXACT form (see DocExactBase.v), stage 1: leaf lists, types, parameters, expressions.
   Productions that call Parser::next before anything can drain are proved in
   the strong form [DW] (S_...): they may be entered in mode stale, i.e. right
   after Parser::goback. *)
From Coq Require Import List Bool Arith NArith Lia.
From GoSyn.spec Require Import LineCol Docs.
From GoSyn Require Import Token Tok Scanner Ast Core Policy.
From GoSyn.proofs Require Import Lift StreamProofs LevelProofs DocProofs AccountBase PosBase
  DocExactBase.
Import ListNotations.

Section Leafs2.
Variable lines : list N.
Variable E : Type.
Notation cm := Policy.comment.
Notation OPS := (policy_ops lines).
Notation pstate := (Core.pstate N (list cm) cstate E).
Notation res := (Core.res N (list cm) cstate E).
Notation selem := (Core.selem N (list cm)).
Notation nodeT := (node N (list cm)).
Variable whole : list selem.
Notation DSw := (DS lines E whole).
Notation DWw := (DW lines E whole).
Notation dgoodw := (dgood lines whole).
Notation dgoodow := (dgoodo lines whole).

Lemma P_identifier_list_loop : forall fuel (acc : list nodeT),
  DSw (fun r => Forall dgoodw acc -> Forall dgoodw r) (identifier_list_loop OPS fuel acc).
Proof. dloop identifier_list_loop fuel. Qed.
Local Hint Resolve P_identifier_list_loop : doc.

Lemma P_identifier_list (first : option nodeT) :
  DSw (fun r => dgoodow first -> Forall dgoodw r) (identifier_list OPS first).
Proof. dprod identifier_list. Qed.

Lemma P_check_field_list (fl : nodeT) trailing :
  DSw (fun r => dgoodw fl -> dgoodw r) (check_field_list fl trailing).
Proof. dprod check_field_list. Qed.

Lemma P_check_assign_stmt : forall (l : list nodeT), DSw anyg (check_assign_stmt l).
Proof.
  induction l; intros ? ? ? ?; cbn [check_assign_stmt]; hide_nats; d_steps; try (solve [ d_fin ]).
Qed.

Lemma P_is_type_switch (tg : option nodeT) : DSw anyg (is_type_switch tg).
Proof. dprod is_type_switch. Qed.

Lemma P_semi_unless_brace site : DSw anyg (semi_unless_brace OPS site).
Proof. dprod semi_unless_brace. Qed.

End Leafs2.

#[export] Hint Resolve P_identifier_list_loop P_identifier_list P_check_field_list
  P_check_assign_stmt P_is_type_switch P_semi_unless_brace : doc.

(* ------------------------------------------------------------------ the table *)

Section Table.
Variable lines : list N.
Variable E : Type.
Notation cm := Policy.comment.
Notation OPS := (policy_ops lines).
Notation pstate := (Core.pstate N (list cm) cstate E).
Notation res := (Core.res N (list cm) cstate E).
Notation parsers := (Core.parsers N (list cm) cstate (list cm) E).
Notation selem := (Core.selem N (list cm)).
Notation nodeT := (node N (list cm)).
Variable whole : list selem.
Notation DSw := (DS lines E whole).
Notation DWw := (DW lines E whole).
Notation DOptw := (DOpt lines E whole).
Notation dgoodw := (dgood lines whole).
Notation dgoodow := (dgoodo lines whole).

(* a type always moves on: k_type may be entered stale; so may type_or_none,
   which leaves the state alone when there is no type *)
Record GoodD (self : parsers) : Prop := {
  gd_type : DWw dgoodw (k_type self);
  gd_type_or_none : DOptw (k_type_or_none self);
  gd_expr : DSw dgoodw (k_expr self);
  gd_unary : DSw dgoodw (k_unary self);
  gd_binary : forall p prec, DSw (fun r => dgoodow p -> dgoodw r) (k_binary self p prec);
  gd_litvalue : DSw dgoodw (k_litvalue self);
  gd_block : DSw dgoodw (k_block self);
  gd_stmt : DSw dgoodw (k_stmt self);
  gd_if : DSw dgoodw (k_if self);
  (* and the one-state invariant, at Ok and at Err *)
  gd_inv0 : Good (fun _ : unit => Inv0 E) (fun _ => Inv0 E) self
}.

Lemma GoodD_no_fuel : GoodD (no_fuel N (list cm) cstate (list cm) E).
Proof.
  split; try (intros; intros ? ? ? ? HH; discriminate HH). apply Good_no_fuel.
Qed.

Lemma P_nested X (good : X -> Prop) site (f : pstate -> res X) :
  DSw good f -> DSw good (nested site f).
Proof.
  intros Hf s r s' Hs. unfold nested. cbv zeta.
  destruct (S MAX_NESTING <=? s_depth (upd_depth s (S (s_depth s))))%nat; [ discriminate | ].
  destruct (f (upd_depth s (S (s_depth s)))) as [x s2| | |] eqn:Hfs; try discriminate.
  intros [= <- <-]. destruct (Hf _ _ _ (F_upd_depth _ _ _ _ _ Hs) Hfs) as (Hs2 & Hg).
  split; [ apply F_upd_depth, Hs2 | exact Hg ].
Qed.

Lemma O_nested site (f : pstate -> res (option nodeT)) :
  DOptw f -> DOptw (nested site f).
Proof.
  intros Hf s r s' Hs. unfold nested. cbv zeta.
  destruct (S MAX_NESTING <=? s_depth (upd_depth s (S (s_depth s))))%nat; [ discriminate | ].
  destruct (f (upd_depth s (S (s_depth s)))) as [x s2| | |] eqn:Hfs; try discriminate.
  intros [= <- <-].
  pose proof (Hf _ _ _ (W_upd_depth _ _ _ _ Hs) Hfs) as H. destruct x as [t|].
  - destruct H as (Hs2 & Hg). split; [ apply F_upd_depth, Hs2 | exact Hg ].
  - destruct H as (Hs2 & HF). split; [ apply W_upd_depth, Hs2 | ].
    intros HFs. apply F_upd_depth, HF, F_upd_depth, HFs.
Qed.

(* reset_chan_arrow rewrites positions only *)
Fixpoint reset_chan_arrow_dgood (typ : nodeT) :
  forall pos t, is_tag GTypeChannel typ = true -> dgoodw typ ->
                @reset_chan_arrow N (list cm) E pos typ = inl t -> dgoodw t.
Proof.
  destruct typ as [tg ps ats d ks]. intros pos r Htag Hg.
  apply is_tag_eq in Htag. cbn [n_tag] in Htag. subst tg.
  apply dgood_Nd in Hg. destruct Hg as (Hown & Hks).
  cbn [reset_chan_arrow].
  destruct (match ats with ADir dir :: _ => dir | _ => 0%nat end) as [|[|[|n]]].
  - intros [= <-]. apply dgood_Nd_i; [ exact Hown | exact Hks ].
  - destruct ks as [|inner rest']; [ discriminate | ].
    destruct (is_tag GTypeChannel inner) eqn:Hti; [ | discriminate ].
    destruct (@reset_chan_arrow N (list cm) E (nth 1 ps pos) inner) as [inner'|] eqn:Hi; [ | discriminate ].
    intros [= <-]. inversion Hks as [|? ? Hk1 Hk2]; subst.
    apply dgood_Nd_i; [ exact Hown | ]. constructor; [ | exact Hk2 ].
    exact (reset_chan_arrow_dgood inner _ inner' Hti Hk1 Hi).
  - discriminate.
  - destruct ks as [|inner rest']; [ discriminate | ].
    destruct (is_tag GTypeChannel inner) eqn:Hti; [ | discriminate ].
    destruct (@reset_chan_arrow N (list cm) E (nth 1 ps pos) inner) as [inner'|] eqn:Hi; [ | discriminate ].
    intros [= <-]. inversion Hks as [|? ? Hk1 Hk2]; subst.
    apply dgood_Nd_i; [ exact Hown | ]. constructor; [ | exact Hk2 ].
    exact (reset_chan_arrow_dgood inner _ inner' Hti Hk1 Hi).
Qed.

End Table.

(* ------------------------------------------------------------------ one unfolding, stage 1 *)

Section Step1.
Variable lines : list N.
Variable E : Type.
Notation cm := Policy.comment.
Notation OPS := (policy_ops lines).
Notation pstate := (Core.pstate N (list cm) cstate E).
Notation res := (Core.res N (list cm) cstate E).
Notation parsers := (Core.parsers N (list cm) cstate (list cm) E).
Notation selem := (Core.selem N (list cm)).
Notation nodeT := (node N (list cm)).
Variable whole : list selem.
Notation DSw := (DS lines E whole).
Notation DWw := (DW lines E whole).
Notation DOptw := (DOpt lines E whole).
Notation dgoodw := (dgood lines whole).
Notation dgoodow := (dgoodo lines whole).

Variable self : parsers.
Hypothesis HG : GoodD lines E whole self.

Lemma S_type : DWw dgoodw (k_type self). Proof. exact (gd_type _ _ _ _ HG). Qed.
Lemma Q_type : DSw dgoodw (k_type self). Proof. apply DW_DS, S_type. Qed.
Lemma O_type_or_none : DOptw (k_type_or_none self). Proof. exact (gd_type_or_none _ _ _ _ HG). Qed.
Lemma Q_type_or_none : DSw dgoodow (k_type_or_none self). Proof. apply DOpt_DS, O_type_or_none. Qed.
Lemma Q_expr : DSw dgoodw (k_expr self). Proof. exact (gd_expr _ _ _ _ HG). Qed.
Lemma Q_unary : DSw dgoodw (k_unary self). Proof. exact (gd_unary _ _ _ _ HG). Qed.
Lemma Q_binary p prec : DSw (fun r => dgoodow p -> dgoodw r) (k_binary self p prec).
Proof. exact (gd_binary _ _ _ _ HG p prec). Qed.
Lemma Q_litvalue : DSw dgoodw (k_litvalue self). Proof. exact (gd_litvalue _ _ _ _ HG). Qed.
Lemma Q_block : DSw dgoodw (k_block self). Proof. exact (gd_block _ _ _ _ HG). Qed.
Lemma Q_stmt : DSw dgoodw (k_stmt self). Proof. exact (gd_stmt _ _ _ _ HG). Qed.
Lemma Q_if : DSw dgoodw (k_if self). Proof. exact (gd_if _ _ _ _ HG). Qed.
Local Hint Resolve S_type Q_type Q_type_or_none Q_expr Q_unary Q_binary Q_litvalue Q_block Q_stmt
  Q_if : doc.

Lemma P_parse_next_level_expr : DSw dgoodw (parse_next_level_expr self).
Proof. dprod parse_next_level_expr. Qed.
Local Hint Resolve P_parse_next_level_expr : doc.

Lemma P_comma_list_loop (item : pstate -> res nodeT) (Hitem : DSw dgoodw item) :
  forall fuel acc, DSw (fun r => Forall dgoodw acc -> Forall dgoodw r)
                       (comma_list_loop OPS fuel item acc).
Proof. dloop comma_list_loop fuel. Qed.
Local Hint Resolve P_comma_list_loop : doc.

Lemma P_expression_list : DSw (Forall dgoodw) (expression_list OPS self).
Proof. dprod expression_list. Qed.
Local Hint Resolve P_expression_list : doc.

Lemma P_parse_type_list : DSw (Forall dgoodw) (parse_type_list OPS self).
Proof. dprod parse_type_list. Qed.
Local Hint Resolve P_parse_type_list : doc.

Lemma P_type_list_loop : forall fuel acc,
  DSw (fun r => Forall dgoodw acc -> Forall dgoodw r) (type_list_loop OPS self fuel acc).
Proof. dloop type_list_loop fuel. Qed.
Local Hint Resolve P_type_list_loop : doc.

Lemma P_type_list strict : DSw (fun r => dgoodw (fst r)) (type_list OPS self strict).
Proof. dprod type_list. Qed.
Local Hint Resolve P_type_list : doc.

Lemma P_type_instance (left : nodeT) :
  DSw (fun r => dgoodw left -> dgoodw r) (type_instance OPS self left).
Proof. dprod type_instance. Qed.
Local Hint Resolve P_type_instance : doc.

Lemma P_qualified_ident (name : option nodeT) :
  DSw (fun r => dgoodow name -> dgoodw r) (qualified_ident OPS self name).
Proof. dprod qualified_ident. Qed.
Local Hint Resolve P_qualified_ident : doc.

Lemma S_qualified_ident_none : DWw dgoodw (qualified_ident OPS self None).
Proof. dprod qualified_ident. Qed.
Local Hint Resolve S_qualified_ident_none : doc.

(* an instantiation / a qualified name starts where its name starts *)
Lemma type_instance_shape (left : nodeT) (s : pstate) r s' :
  type_instance OPS self left s = Ok r s' -> lead_pos r = lead_pos left.
Proof. unfold type_instance. hide_nats. r_steps. reflexivity. Qed.

Lemma qualified_ident_shape (nm : nodeT) (s : pstate) r s' :
  qualified_ident OPS self (Some nm) s = Ok r s' -> lead_pos r = lead_pos nm.
Proof.
  unfold qualified_ident. hide_nats. r_steps;
    try match goal with
        | H : type_instance _ _ _ _ = Ok _ _ |- _ => apply type_instance_shape in H; rewrite H
        end; reflexivity.
Qed.

Lemma S_parse_type_term : DWw dgoodw (parse_type_term OPS self).
Proof. dprod parse_type_term. Qed.
Local Hint Resolve S_parse_type_term : doc.

Lemma P_type_elem_loop : forall fuel typ,
  DSw (fun r => dgoodw typ -> dgoodw r) (type_elem_loop OPS self fuel typ).
Proof. dloop type_elem_loop fuel. Qed.
Local Hint Resolve P_type_elem_loop : doc.

Lemma S_parse_type_elem : DWw dgoodw (parse_type_elem OPS self).
Proof. dprod parse_type_elem. Qed.
Local Hint Resolve S_parse_type_elem : doc.

Lemma P_array_len : DSw dgoodw (array_len OPS self).
Proof. dprod array_len. Qed.
Local Hint Resolve P_array_len : doc.

Lemma P_array_or_typeargs : DSw dgoodw (array_or_typeargs OPS self).
Proof. dprod array_or_typeargs. Qed.
Local Hint Resolve P_array_or_typeargs : doc.

(* `name [ ... ]` read as an instantiation: the name becomes the first child *)
Lemma array_or_typeargs_shape (s : pstate) r s' :
  array_or_typeargs OPS self s = Ok r s' -> is_tag GIndex r = true ->
  forall nm : nodeT, lead_pos (set_kid r 0 nm) = lead_pos nm.
Proof.
  intros H Ht nm. revert H.
  unfold array_or_typeargs. hide_nats. r_steps; try discriminate Ht; reflexivity.
Qed.

Lemma P_ellipsis_type : DSw dgoodw (ellipsis_type OPS self).
Proof. dprod ellipsis_type. Qed.
Local Hint Resolve P_ellipsis_type : doc.

Lemma P_param_decl_loop : forall fuel ewc ids,
  DSw (fun r => Forall dgoodw ids -> Forall dgoodw r) (param_decl_loop OPS self fuel ewc ids).
Proof. dloop param_decl_loop fuel. Qed.
Local Hint Resolve P_param_decl_loop : doc.

Lemma P_parse_parameter_decl : DSw (Forall dgoodw) (parse_parameter_decl OPS self).
Proof. dprod parse_parameter_decl. Qed.
Local Hint Resolve P_parse_parameter_decl : doc.

Lemma P_params_loop : forall fuel close acc,
  DSw (fun r => Forall dgoodw acc -> Forall dgoodw r) (params_loop OPS self fuel close acc).
Proof. dloop params_loop fuel. Qed.
Local Hint Resolve P_params_loop : doc.

Lemma S_parameters : DWw dgoodw (parameters OPS self).
Proof.
  intros ? ? ? ?; unfold parameters, params_list; hide_nats; d_steps; try (solve [ d_fin ]).
Qed.
Local Hint Resolve S_parameters : doc.

Lemma S_type_parameters : DWw dgoodw (type_parameters OPS self).
Proof.
  intros ? ? ? ?; unfold type_parameters, params_list; hide_nats; d_steps; try (solve [ d_fin ]).
Qed.
Local Hint Resolve S_type_parameters : doc.

Lemma P_parse_result : DSw dgoodw (parse_result OPS self).
Proof. dprod parse_result. Qed.
Local Hint Resolve P_parse_result : doc.

Lemma P_signature : DSw (fun r => dgoodw (fst r) /\ dgoodw (snd r)) (signature OPS self).
Proof. dprod signature. Qed.
Local Hint Resolve P_signature : doc.

Lemma S_func_type : DWw dgoodw (func_type OPS self).
Proof. dprod func_type. Qed.
Local Hint Resolve S_func_type : doc.

Lemma P_type_params_loop : forall fuel acc,
  DSw (fun r => Forall dgoodw acc -> Forall dgoodw r) (type_params_loop OPS self fuel acc).
Proof. dloop type_params_loop fuel. Qed.
Local Hint Resolve P_type_params_loop : doc.

Lemma P_parse_type_parameters : DSw dgoodw (parse_type_parameters OPS self).
Proof. dprod parse_type_parameters. Qed.
Local Hint Resolve P_parse_type_parameters : doc.

(* a struct field: its comments are exactly what it drained at its first token *)
Definition fgood (r : nodeT) : Prop :=
  dgoodw r /\ n_tag r = GField /\
  exists c, n_docs r = [c] /\ doc_at lines whole (field_pos r) c.

Lemma P_finish_field c (names : list nodeT) typ :
  DSw (fun r => Forall dgoodw names -> dgoodw typ -> doc_at lines whole (fpos names typ) c ->
                fgood r)
      (finish_field OPS c names typ).
Proof.
  dprod finish_field. split; [ f_tac | ]. intros Hn Ht Hd. split; [ | split; [ reflexivity | ] ].
  - apply dgood_Nd_i.
    + exists c, c. split; [ reflexivity | ]. split; [ left; reflexivity | exact Hd ].
    + dg.
  - exists c. split; [ reflexivity | exact Hd ].
Qed.
Local Hint Resolve P_finish_field : doc.

Ltac d_shape_more Hm ::=
  lazymatch type of Hm with
  | qualified_ident _ _ (Some _) _ = Ok _ _ =>
      let H := fresh "Hlp" in pose proof (qualified_ident_shape _ _ _ _ Hm) as H
  | array_or_typeargs _ _ _ = Ok _ _ =>
      let H := fresh "Hix" in pose proof (array_or_typeargs_shape _ _ _ Hm) as H
  | _ => idtac
  end.

Lemma P_field_decl : DSw fgood (field_decl OPS self).
Proof.
  intros s r s' HF. unfold field_decl. hide_nats. d_steps.
  all: d_sat; subst.
  all: split; [ f_tac | ].
  all: match goal with Hg : _ -> _ -> _ -> fgood ?r |- fgood ?r => apply Hg end.
  all: try (solve [ dg ]).
  all: try match goal with
           | H1 : (Nat.eqb (length _) 1 && _)%bool = true, H2 : pop_last _ = Some _ |- _ =>
               apply andb_prop in H1; destruct H1 as (H1 & _);
               pose proof (pop_last_one _ _ _ _ H1 H2) as Hone; injection Hone as <- ->
           end.
  all: try (solve [ dg ]).
  all: cbn [fpos pos_hd lead_pos mk n_ident n_ps];
    try match goal with
        | H : lead_pos _ = _ |- _ => rewrite H
        | H : forall nm, lead_pos (set_kid _ 0 nm) = lead_pos nm |- _ => rewrite H
        end;
    cbn [fpos pos_hd lead_pos mk n_ident n_ps];
    match goal with H : _ -> doc_at _ _ _ _ |- _ => apply H; discriminate end.
Qed.
Local Hint Resolve P_field_decl : doc.

(* struct_loop lets line_end_comment add the comment that follows the field on
   the line of its ';' *)
Lemma fgood_set_docs (y : nodeT) c' :
  fgood y ->
  (c' = match n_docs y with [] => c_empty OPS | c :: _ => c end \/
   exists x, c' = match n_docs y with [] => c_empty OPS | c :: _ => c end ++ [x]) ->
  dgoodw (set_docs y [c']).
Proof.
  intros (Hd & Ht & c & Hc & Hat) Hle. rewrite Hc in Hle.
  destruct y as [t ps ats d ks]. cbn [n_tag n_docs] in *. subst t d.
  apply dgood_Nd in Hd. destruct Hd as (_ & Hk). cbn [set_docs]. apply dgood_Nd_i; [ | exact Hk ].
  exists c', c. split; [ reflexivity | ]. split; [ exact Hle | exact Hat ].
Qed.

Lemma P_struct_loop : forall fuel acc,
  DSw (fun r => Forall dgoodw acc -> Forall dgoodw r) (struct_loop OPS self fuel acc).
Proof.
  dloop struct_loop fuel.
  split; [ f_tac | ]. intros Ha. apply Hg0. apply Forall_app_i; [ exact Ha | ].
  constructor; [ | constructor ]. apply fgood_set_docs; assumption.
Qed.
Local Hint Resolve P_struct_loop : doc.

Lemma S_struct_type : DWw dgoodw (struct_type OPS self).
Proof. dprod struct_type. Qed.
Local Hint Resolve S_struct_type : doc.

Lemma P_parse_method_elem : DSw dgoodw (parse_method_elem OPS self).
Proof. dprod parse_method_elem. Qed.
Local Hint Resolve P_parse_method_elem : doc.

(* the second backtracking site.  The loop continues from the state an error of
   parse_method_elem left behind: that state still satisfies Inv0 (Lift.v) *)
Lemma inv0_method_elem_err (s : pstate) e s1 :
  Inv0 E s -> parse_method_elem OPS self s = Err e s1 -> Inv0 E s1.
Proof.
  intros Hi He.
  pose proof (L_parse_method_elem _ _ _ _ _ OPS _ _ _ _ _ _
                (prim_closed_inv_closed _ _ _ _ _ OPS _ (Inv0_closed lines E))
                self (gd_inv0 _ _ _ _ HG) tt s Hi) as Hp.
  rewrite He in Hp. exact Hp.
Qed.

Ltac d_err E0 ::=
  lazymatch type of E0 with
  | parse_method_elem _ _ ?s = Err _ ?s1 =>
      let H := fresh "Hinv" in
      assert (H : Inv0 _ s1) by (eapply inv0_method_elem_err; [ | exact E0 ]; i_tac)
  | _ => idtac
  end.

Lemma P_interface_loop : forall fuel acc,
  DSw (fun r => Forall dgoodw acc -> Forall dgoodw r) (interface_loop OPS self fuel acc).
Proof. dloop interface_loop fuel. Qed.
Local Hint Resolve P_interface_loop : doc.

Lemma S_parse_interface_type : DWw dgoodw (parse_interface_type OPS self).
Proof. dprod parse_interface_type. Qed.
Local Hint Resolve S_parse_interface_type : doc.

(* every type starts by consuming a token; struct / interface bodies drain only
   after their `{` *)
Lemma O_type_or_none_body : DOptw (type_or_none_body OPS self).
Proof.
  intros s r s' Hw. unfold type_or_none_body. hide_nats. d_steps;
    try (solve [ d_fin ]); try (solve [ split; [ assumption | exact (fun H => H) ] ]).
Qed.

Lemma S_type_body : DWw dgoodw (type_body self).
Proof.
  intros s r s' Hw. unfold type_body. hide_nats. d_steps.
  pose proof (O_type_or_none _ _ _ Hwv Hm) as Ho. cbv beta iota in Ho.
  destruct Ho as (Hf & Hg). split; [ apply F_dec_level, Hf | exact Hg ].
Qed.

Lemma P_parse_element_value : DSw dgoodw (parse_element_value self).
Proof. dprod parse_element_value. Qed.
Local Hint Resolve P_parse_element_value : doc.

Lemma P_parse_element : DSw dgoodw (parse_element OPS self).
Proof. dprod parse_element. Qed.
Local Hint Resolve P_parse_element : doc.

Lemma P_lit_value_loop : forall fuel acc,
  DSw (fun r => Forall dgoodw acc -> Forall dgoodw r) (lit_value_loop OPS self fuel acc).
Proof. dloop lit_value_loop fuel. Qed.
Local Hint Resolve P_lit_value_loop : doc.

Lemma P_lit_value_body : DSw dgoodw (lit_value_body OPS self).
Proof. dprod lit_value_body. Qed.
Local Hint Resolve P_lit_value_body : doc.

Lemma P_index_comma_loop : forall fuel acc,
  DSw (fun r => Forall dgoodow acc -> Forall dgoodow r) (index_comma_loop OPS self fuel acc).
Proof. dloop index_comma_loop fuel. Qed.
Local Hint Resolve P_index_comma_loop : doc.

Lemma P_parse_slice_index_or_type_inst :
  DSw (fun r => Forall dgoodow (snd r)) (parse_slice_index_or_type_inst OPS self).
Proof. dprod parse_slice_index_or_type_inst. Qed.
Local Hint Resolve P_parse_slice_index_or_type_inst : doc.

Lemma P_call_args_loop : forall fuel args ewc,
  DSw (fun r => Forall dgoodw args -> Forall dgoodw (fst r)) (call_args_loop OPS self fuel args ewc).
Proof. dloop call_args_loop fuel. Qed.
Local Hint Resolve P_call_args_loop : doc.

Lemma P_primary_step (x : nodeT) :
  DSw (fun r => dgoodw x -> dgoodow r) (primary_step OPS self x).
Proof. dprod primary_step. Qed.
Local Hint Resolve P_primary_step : doc.

Lemma P_primary_loop : forall fuel x,
  DSw (fun r => dgoodw x -> dgoodw r) (primary_loop OPS self fuel x).
Proof. dloop primary_loop fuel. Qed.
Local Hint Resolve P_primary_loop : doc.

Lemma P_operand : DSw dgoodw (operand OPS self).
Proof. dprod operand. Qed.
Local Hint Resolve P_operand : doc.

Lemma P_primary_expression (p : option nodeT) :
  DSw (fun r => dgoodow p -> dgoodw r) (primary_expression OPS self p).
Proof. dprod primary_expression. Qed.
Local Hint Resolve P_primary_expression : doc.

Lemma classify_arrow o : classify_unary o = UCArrow -> o = OArrow.
Proof. destruct o; (reflexivity || discriminate). Qed.

Lemma P_unary_body : DSw dgoodw (unary_body OPS self).
Proof.
  dprod unary_body.
  split; [ f_tac | ]. eapply reset_chan_arrow_dgood; [ exact E2 | exact Hg | exact E3 ].
Qed.
Local Hint Resolve P_unary_body : doc.

Lemma P_binary_loop : forall fuel prec x,
  DSw (fun r => dgoodw x -> dgoodw r) (binary_loop OPS self fuel prec x).
Proof. dloop binary_loop fuel. Qed.
Local Hint Resolve P_binary_loop : doc.

Lemma P_binary_body (p : option nodeT) prec :
  DSw (fun r => dgoodow p -> dgoodw r) (binary_body OPS self p prec).
Proof. dprod binary_body. Qed.
Local Hint Resolve P_binary_body : doc.

Lemma P_expr_body : DSw dgoodw (expr_body self).
Proof. dprod expr_body. Qed.
Local Hint Resolve P_expr_body : doc.


End Step1.

#[export] Hint Resolve S_type Q_type Q_type_or_none Q_expr Q_unary Q_binary Q_litvalue Q_block
  Q_stmt Q_if
  P_parse_next_level_expr P_comma_list_loop P_expression_list P_parse_type_list P_type_list_loop
  P_type_list P_type_instance P_qualified_ident S_qualified_ident_none S_parse_type_term
  P_type_elem_loop S_parse_type_elem P_array_len P_array_or_typeargs P_ellipsis_type
  P_param_decl_loop P_parse_parameter_decl P_params_loop S_parameters S_type_parameters
  P_parse_result P_signature S_func_type P_type_params_loop P_parse_type_parameters
  P_finish_field P_field_decl P_struct_loop S_struct_type P_parse_method_elem P_interface_loop
  S_parse_interface_type P_parse_element_value P_parse_element P_lit_value_loop P_lit_value_body
  P_index_comma_loop P_parse_slice_index_or_type_inst P_call_args_loop P_primary_step
  P_primary_loop P_operand P_primary_expression P_unary_body P_binary_loop P_binary_body
  P_expr_body : doc.
