(* Round trip, stage C part 1 (spec/Print3.v): simple statements, labelled
   statements, blocks, statement lists, go / defer / return / branch / empty
   statements over [stmt2].

   Everything is relative to the contracts of the expressions ([KE2]) and of
   the sub-statements ([SC]); [first_tok_e] (the first token of an expression,
   proved by the expression file) is a Section hypothesis. *)
From Coq Require Import List Arith NArith Lia Bool.
From GoSyn Require Import Token Tok Ast Core.
From GoSyn.spec Require Import Prec Print Print2 Print3.
From GoSyn.proofs Require Import PrecProofs RoundTripProofs RoundTripTypesBase RoundTripBase2
  RoundTripBase3.
Import ListNotations.

(* ------------------------------------------------------------ facts about the spec *)

Lemma tyfollow_brace : forall e r, tyfollow e (tk OBraceLeft :: r).
Proof.
  intros e r. unfold tyfollow. destruct (last_prim e); try exact I.
  apply tfollow_tok; reflexivity.
Qed.

Lemma tyfollow_nty : forall e rst, no_type_end e -> tyfollow e rst.
Proof.
  intros e rst H. unfold tyfollow, no_type_end in *. destruct (last_prim e); try exact I.
  destruct H.
Qed.

(* the channel of a send statement in front of "<-" *)
Lemma efollow_arrow : forall hdr ch r, no_type_end ch -> efollow hdr ch (tk OArrow :: r).
Proof.
  intros hdr ch r H. split; [| apply tyfollow_nty; exact H].
  split; [reflexivity |]. split; [discriminate |].
  intros op Ho. injection Ho as <-. reflexivity.
Qed.

Lemma assign_closing : forall op, is_assign_op op = true ->
  closing (tk op) = true /\ tok_is (tk op) (KOp OComma) = false.
Proof. intros op H. destruct op; try discriminate H; split; reflexivity. Qed.

Lemma assign_define2 : forall op, is_assign_op op = true ->
  op = ODefine \/ op_eqb op ODefine = false.
Proof. intros op H; destruct op; try discriminate H; auto. Qed.

(* the last element of a nonempty list *)
Fixpoint lastE (a : exp2) (r : list exp2) : exp2 :=
  match r with [] => a | b :: r' => lastE b r' end.

Lemma last_lastE : forall a r, last (map Some (a :: r)) None = Some (lastE a r).
Proof.
  intros a r. revert a. induction r as [| b r IH]; intro a; [reflexivity |].
  change (last (map Some (a :: b :: r)) None) with (last (map Some (b :: r)) None).
  rewrite IH. reflexivity.
Qed.

Lemma all2_Forall : forall (Y : Type) (P : Y -> Prop) l, all2 P l <-> Forall P l.
Proof.
  intros Y P l; induction l as [| a r IH]; simpl.
  - split; [constructor | exact (fun _ => I)].
  - split.
    + intros [Ha Hr]. constructor; [exact Ha | apply IH; exact Hr].
    + intro H. inversion H; subst. split; [assumption | apply IH; assumption].
Qed.

Lemma all2_In : forall (Y : Type) (P : Y -> Prop) l a, all2 P l -> In a l -> P a.
Proof.
  intros Y P l a H Hin. apply all2_Forall in H. rewrite Forall_forall in H. exact (H a Hin).
Qed.

Lemma max2_app : forall (Y : Type) (f : Y -> nat) l1 l2,
  max2 f (l1 ++ l2) = Nat.max (max2 f l1) (max2 f l2).
Proof. intros Y f l1 l2; induction l1 as [| a r IH]; simpl; [reflexivity | rewrite IH; lia]. Qed.

Lemma max2_In : forall (Y : Type) (f : Y -> nat) l a, In a l -> f a <= max2 f l.
Proof.
  intros Y f l a. induction l as [| b r IH]; simpl; [intros [] |].
  intros [-> | H]; [lia | specialize (IH H); lia].
Qed.

Lemma sum2_In : forall (Y : Type) (f : Y -> nat) l a, In a l -> f a <= sum2 f l.
Proof.
  intros Y f l a. induction l as [| b r IH]; simpl; [intros [] |].
  intros [-> | H]; [lia | specialize (IH H); lia].
Qed.

Lemma sum2_app : forall (Y : Type) (f : Y -> nat) l1 l2,
  sum2 f (l1 ++ l2) = sum2 f l1 + sum2 f l2.
Proof. intros Y f l1 l2; induction l1 as [| a r IH]; simpl; [reflexivity | rewrite IH; lia]. Qed.

(* the measures of a simple statement are those of its expressions *)
Lemma m_simple_max : forall f (sm : simple2), m_simple Nat.max f sm = max2 f (exprs_simple sm).
Proof.
  intros f [e | op l r | op e | ch v]; simpl.
  - lia.
  - rewrite max2_app. reflexivity.
  - lia.
  - lia.
Qed.

Lemma m_simple_add : forall f (sm : simple2), m_simple Nat.add f sm = sum2 f (exprs_simple sm).
Proof.
  intros f [e | op l r | op e | ch v]; simpl.
  - lia.
  - rewrite sum2_app. reflexivity.
  - lia.
  - lia.
Qed.

Lemma wf_simple_In : forall hdr (sm : simple2) e, wf_simple2 hdr sm -> In e (exprs_simple sm) ->
  wf2 hdr e.
Proof.
  intros hdr [e0 | op l r | op e0 | ch v] e Hwf Hin; simpl in Hwf, Hin.
  - destruct Hin as [<- | []]. exact Hwf.
  - destruct Hwf as (_ & _ & _ & _ & Hl & Hr & _). apply in_app_or in Hin.
    destruct Hin as [H | H]; [exact (all2_In _ _ _ _ Hl H) | exact (all2_In _ _ _ _ Hr H)].
  - destruct Hin as [<- | []]. exact (proj2 Hwf).
  - destruct Hwf as (_ & Hc & Hv). destruct Hin as [<- | [<- | []]]; assumption.
Qed.

Lemma tok_is_kw_refl : forall k, tok_is (kw k) (KKw k) = true.
Proof. intro k. destruct k; reflexivity. Qed.

Lemma list_end_tok : forall t, tok_is t (KOp OBraceRight) = false ->
  tok_is t (KKw KCase) = false -> tok_is t (KKw KDefault) = false ->
  match t with
  | TKeyword KCase | TKeyword KDefault | TOperator OBraceRight => true
  | _ => false
  end = false.
Proof.
  intros t H1 H2 H3. destruct t as [txt | k | op | lk txt]; try reflexivity.
  - destruct k; try reflexivity; discriminate.
  - destruct op; try reflexivity; discriminate.
Qed.

(* the measures, one level unfolded *)
Lemma need_StSimple : forall sm, need_stmt2 (StSimple sm) = 6 + need_simple sm.
Proof. reflexivity. Qed.
Lemma depth_StSimple : forall sm, depth_stmt2 (StSimple sm) = 4 + depth_simple sm.
Proof. reflexivity. Qed.
Lemma need_StLabel : forall name st, need_stmt2 (StLabel name st) = 6 + need_stmt2 st.
Proof. reflexivity. Qed.
Lemma depth_StLabel : forall name st, depth_stmt2 (StLabel name st) = 4 + depth_stmt2 st.
Proof. reflexivity. Qed.
Lemma need_StBlock : forall body, need_stmt2 (StBlock body) = 6 + max2 need_stmt2 body.
Proof. reflexivity. Qed.
Lemma depth_StBlock : forall body, depth_stmt2 (StBlock body) = 4 + max2 depth_stmt2 body.
Proof. reflexivity. Qed.
Lemma need_StGo : forall c, need_stmt2 (StGo c) = 6 + need2 c.
Proof. reflexivity. Qed.
Lemma depth_StGo : forall c, depth_stmt2 (StGo c) = 4 + depth2 c.
Proof. reflexivity. Qed.
Lemma need_StDefer : forall c, need_stmt2 (StDefer c) = 6 + need2 c.
Proof. reflexivity. Qed.
Lemma depth_StDefer : forall c, depth_stmt2 (StDefer c) = 4 + depth2 c.
Proof. reflexivity. Qed.
Lemma need_StReturn : forall es, need_stmt2 (StReturn es) = 6 + max2 need2 es.
Proof. reflexivity. Qed.
Lemma depth_StReturn : forall es, depth_stmt2 (StReturn es) = 4 + max2 depth2 es.
Proof. reflexivity. Qed.

Section S2.
Variables (A G D C E : Type).
Variable OPS : ops A G D C.
Notation nodeT := (node A C).
Notation pstateT := (pstate A G D E).
Notation cur := (s_cur A G D E).
Notation srest := (s_rest A G D E).
Notation sdepth := (s_depth A G D E).
Notation lp := (s_lp A G D E).
Notation ln := (s_ln A G D E).
Notation PA := (parsers_at A G D C E OPS).
Notation erase := (@erase A C).
Notation at_toks := (@at_toks A G D E).
Notation frame := (@frame A G D E).
Notation lev := (lev A G D E).
Notation levw := (levw A G D E).
Notation KE2 := (KE2 A G D C E OPS).
Notation SC := (SC A G D C E OPS).
Notation SSP := (SSP A G D C E OPS).
Notation BP := (BP A G D C E OPS).
Notation SLP := (SLP A G D C E OPS).
Notation IHS := (IHS A G D C E OPS).
Notation PSS := (parse_simple_stmt A G D C E OPS).
Notation SB := (stmt_body A G D C E OPS).

Hypothesis first_tok_e : FirstTokE.

(* ------------------------------------------------------------ expression lists *)

(* what may follow an expression list whose last expression is e: no comma,
   and nothing that continues e *)
Definition lfollow (hdr : bool) (e : exp2) (rst : list token) : Prop :=
  efollow hdr e rst /\ match rst with [] => True | t :: _ => tok_is t (KOp OComma) = false end.

Lemma list_follow_lfollow : forall hdr e rst, list_follow rst -> lfollow hdr e rst.
Proof.
  intros hdr e rst H. destruct rst as [| t r].
  - split; [apply efollow_nil | exact I].
  - split; [apply efollow_close; exact (proj1 H) | exact (proj2 H)].
Qed.

Lemma comma_list_ok3 : forall hdr r, Forall (KE2 hdr) r ->
  forall a d fuel acc (s : pstateT) rst,
    lfollow hdr (lastE a r) rst -> max2 need2 r + 2 <= d ->
    sdepth s + max2 depth2 r <= MAX_NESTING -> lev hdr s (max2 depth2 r) ->
    at_toks s (etail r ++ rst) ->
    length (etail r) + 1 <= fuel ->
    exists ns s1,
      comma_list_loop A G D C E OPS fuel (k_expr A G D C E (PA d)) acc s = Ok (acc ++ ns) s1 /\
      map erase ns = map shape2 r /\ at_toks s1 rst /\ frame s s1.
Proof.
  intros hdr r Hall. induction Hall as [| b r Hb Hall IH];
    intros a d fuel acc s rst Hsep Hd Hdep Hlev Hat Hfu.
  - simpl in Hat. destruct fuel as [| f]; [lia |]. cbn [comma_list_loop].
    assert (Hk : skipped A G D C E OPS (KOp OComma) s = Ok false s).
    { apply (skipped_no OPS s rst _ Hat). exact (proj2 Hsep). }
    rewrite Hk. cbn [bind]. exists [], s. rewrite app_nil_r.
    split; [reflexivity |]. split; [reflexivity |]. split; [exact Hat | apply frame_refl].
  - simpl in Hd, Hdep, Hlev, Hat, Hfu. rewrite <- app_assoc in Hat.
    destruct fuel as [| f]; [lia |]. cbn [comma_list_loop].
    destruct (skipped_yes OPS s _ _ (KOp OComma) Hat eq_refl) as (s1 & Hs & Hat1 & Hf1).
    rewrite Hs. cbn [bind].
    destruct (Hb d s1 (etail r ++ rst)) as (nb & s2 & Hk & Heb & Hat2 & Hf2).
    + lia.
    + exact Hat1.
    + destruct r as [| c r']; [exact (proj1 Hsep) | apply efollow_close; reflexivity].
    + unframe. lia.
    + apply (lev_frame _ _ _ _ hdr s s1 _ _ Hf1 Hlev). lia.
    + rewrite Hk. cbn [bind].
      pose proof (frame_trans _ _ _ Hf1 Hf2) as Hf12.
      destruct (IH b d f (acc ++ [nb]) s2 rst Hsep) as (ns & s3 & Hl & Hes & Hat3 & Hf3).
      * lia.
      * unframe. lia.
      * apply (lev_frame _ _ _ _ hdr s s2 _ _ Hf12 Hlev). lia.
      * exact Hat2.
      * unfold etail in Hfu. simpl in Hfu. rewrite app_length in Hfu. fold (etail r) in Hfu. lia.
      * exists (nb :: ns), s3. split; [rewrite Hl, <- app_assoc; reflexivity |].
        split; [simpl; rewrite Heb, Hes; reflexivity |].
        split; [exact Hat3 | exact (frame_trans _ _ _ Hf12 Hf3)].
Qed.

(* Parser::expression_list, the follow condition on the last expression only *)
Lemma exprs_ok3 : forall hdr a r, Forall (KE2 hdr) (a :: r) ->
  forall d (s : pstateT) rst,
    lfollow hdr (lastE a r) rst -> max2 need2 (a :: r) + 2 <= d ->
    sdepth s + max2 depth2 (a :: r) <= MAX_NESTING -> lev hdr s (max2 depth2 (a :: r)) ->
    at_toks s (commas (map print2 (a :: r)) ++ rst) ->
    exists ns s1,
      expression_list A G D C E OPS (PA d) s = Ok ns s1 /\
      map erase ns = map shape2 (a :: r) /\ at_toks s1 rst /\ frame s s1.
Proof.
  intros hdr a r Hall d s rst Hsep Hd Hdep Hlev Hat.
  inversion Hall as [| ? ? Ha Hr]; subst.
  rewrite commas_cons2 in Hat. rewrite <- app_assoc in Hat.
  simpl in Hd, Hdep, Hlev. unfold expression_list.
  destruct (Ha d s (etail r ++ rst)) as (na & s1 & Hk & Hea & Hat1 & Hf1).
  - lia.
  - exact Hat.
  - destruct r as [| c r']; [exact (proj1 Hsep) | apply efollow_close; reflexivity].
  - lia.
  - apply (lev_frame _ _ _ _ hdr s s _ _ (frame_refl s) Hlev). lia.
  - rewrite Hk. cbn [bind].
    destruct (comma_list_ok3 hdr r Hr a d (loop_fuel A G D E s1) [na] s1 rst Hsep)
      as (ns & s2 & Hl & Hes & Hat2 & Hf2).
    + lia.
    + unframe. lia.
    + apply (lev_frame _ _ _ _ hdr s s1 _ _ Hf1 Hlev). lia.
    + exact Hat1.
    + pose proof (loop_fuel_toks s1 _ Hat1) as H. rewrite app_length in H. lia.
    + exists (na :: ns), s2. split; [exact Hl |].
      split; [simpl; rewrite Hea, Hes; reflexivity |].
      split; [exact Hat2 | exact (frame_trans _ _ _ Hf1 Hf2)].
Qed.

Lemma single_node2 : forall (ns : list nodeT) e, map erase ns = map shape2 [e] ->
  exists n, ns = [n] /\ erase n = shape2 e.
Proof.
  intros ns e H. destruct ns as [| n [| n2 r]]; simpl in H; try discriminate H.
  injection H as H. exists n; split; [reflexivity | exact H].
Qed.

Lemma map_erase_length2 : forall (ns : list nodeT) l, map erase ns = map shape2 l ->
  length ns = length l.
Proof.
  intros ns l H. rewrite <- (map_length erase ns), H, map_length. reflexivity.
Qed.

Lemma check_assign_ok2 : forall l (ns : list nodeT) (s : pstateT),
  map erase ns = map shape2 l -> all2 is_ident2 l ->
  check_assign_stmt A G D C E ns s = Ok tt s.
Proof.
  induction l as [| e r IH]; intros ns s Hes Hid; destruct ns as [| n ns']; simpl in Hes;
    try discriminate Hes; [reflexivity |].
  injection Hes as Hn Hr. destruct Hid as (He & Hid). cbn [check_assign_stmt].
  rewrite <- (is_tag_erase GIdent n), Hn. destruct e; try destruct He.
  change (is_tag GIdent (shape2 (E2Ident name))) with true. cbv iota.
  apply IH; assumption.
Qed.

(* the last expression of a simple statement in front of what follows it *)
Lemma simple_follow_last : forall hdr sm e rst, simple_follow hdr sm rst ->
  last_simple sm = Some e -> lfollow hdr e rst.
Proof.
  intros hdr sm e rst Hfo Hl. destruct rst as [| t r]; [destruct Hfo |].
  destruct Hfo as [-> | (-> & -> & Hst)].
  - split; [apply efollow_close; reflexivity | reflexivity].
  - split; [| reflexivity]. unfold simple_stop2, simple_stop in Hst. rewrite Hl in Hst.
    apply efollow_brace; [exact Hst | right; apply tyfollow_brace].
Qed.

Lemma simple_follow_tok : forall hdr sm rst, simple_follow hdr sm rst ->
  exists t r, rst = t :: r /\ (t = tk OSemiColon \/ t = tk OBraceLeft).
Proof.
  intros hdr sm rst H. destruct rst as [| t r]; [destruct H |]. exists t, r.
  split; [reflexivity |]. destruct H as [H | (H & _)]; auto.
Qed.

(* ------------------------------------------------------------ parse_simple_stmt *)

Lemma ssp_expr : forall hdr e, KE2 hdr e -> SSP hdr (SmExpr e).
Proof.
  intros hdr e HK d s rst Hd Hat Hfo Hdep Hlev.
  unfold need_simple, depth_simple in *. simpl in Hd, Hdep, Hlev, Hat.
  pose proof (simple_follow_last hdr _ e rst Hfo eq_refl) as Hlf.
  destruct (exprs_ok3 hdr e [] (Forall_cons _ HK (Forall_nil _)) d s rst Hlf)
    as (ns & s1 & Hl & Hes & Hat1 & Hf1); [simpl; lia | simpl; lia | | |].
  { simpl. apply (lev_frame _ _ _ _ hdr s s _ _ (frame_refl s) Hlev). lia. }
  { simpl. rewrite app_nil_r. exact Hat. }
  destruct (single_node2 ns e Hes) as (n & -> & He).
  destruct (simple_follow_tok hdr _ rst Hfo) as (t & r & -> & Ht).
  destruct (at_toks_cur _ _ _ Hat1) as (p1 & Hc1).
  exists (mk A C GExprStmt [] [] [n]), s1.
  split; [| split; [simpl; rewrite He; reflexivity | split; [exact Hat1 | exact Hf1]]].
  unfold parse_simple_stmt. rewrite Hl. cbn [bind]. rewrite Hc1.
  destruct Ht as [-> | ->]; reflexivity.
Qed.

Lemma ssp_incdec : forall hdr op e, KE2 hdr e -> (op = OInc \/ op = ODec) ->
  SSP hdr (SmIncDec op e).
Proof.
  intros hdr op e HK Hop d s rst Hd Hat Hfo Hdep Hlev.
  unfold need_simple, depth_simple in *. simpl in Hd, Hdep, Hlev, Hat.
  rewrite <- app_assoc in Hat. simpl in Hat.
  assert (Hlf : lfollow hdr e (tk op :: rst)).
  { apply list_follow_lfollow. destruct Hop as [-> | ->]; split; reflexivity. }
  destruct (exprs_ok3 hdr e [] (Forall_cons _ HK (Forall_nil _)) d s _ Hlf)
    as (ns & s1 & Hl & Hes & Hat1 & Hf1); [simpl; lia | simpl; lia | | |].
  { simpl. apply (lev_frame _ _ _ _ hdr s s _ _ (frame_refl s) Hlev). lia. }
  { simpl. rewrite app_nil_r. exact Hat. }
  destruct (single_node2 ns e Hes) as (n & -> & He).
  destruct (at_toks_cur _ _ _ Hat1) as (p1 & Hc1).
  destruct (next_toks OPS _ _ (at_toks_rest' _ _ _ Hat1)) as (s2 & Hn & Hat2 & Hf2).
  exists (mk A C GIncDec [p1] [AOp op] [n]), s2.
  split; [| split; [simpl; rewrite He; reflexivity |
                    split; [exact Hat2 | exact (frame_trans _ _ _ Hf1 Hf2)]]].
  unfold parse_simple_stmt. rewrite Hl. cbn [bind]. rewrite Hc1. unfold tk.
  destruct Hop as [-> | ->]; cbn [is_assign_op check_single_expr bind]; rewrite Hn; reflexivity.
Qed.

Lemma ssp_send : forall hdr ch v, KE2 hdr ch -> KE2 hdr v -> no_type_end ch ->
  SSP hdr (SmSend ch v).
Proof.
  intros hdr ch v HKc HKv Hnty d s rst Hd Hat Hfo Hdep Hlev.
  unfold need_simple, depth_simple in *. simpl in Hd, Hdep, Hlev, Hat.
  rewrite <- app_assoc in Hat. simpl in Hat.
  assert (Hlf : lfollow hdr ch (tk OArrow :: print2 v ++ rst)).
  { split; [apply efollow_arrow; exact Hnty | reflexivity]. }
  destruct (exprs_ok3 hdr ch [] (Forall_cons _ HKc (Forall_nil _)) d s _ Hlf)
    as (ns & s1 & Hl & Hes & Hat1 & Hf1); [simpl; lia | simpl; lia | | |].
  { simpl. apply (lev_frame _ _ _ _ hdr s s _ _ (frame_refl s) Hlev). lia. }
  { simpl. rewrite app_nil_r. exact Hat. }
  destruct (single_node2 ns ch Hes) as (n & -> & He).
  destruct (at_toks_cur _ _ _ Hat1) as (p1 & Hc1).
  destruct (next_toks OPS _ _ (at_toks_rest' _ _ _ Hat1)) as (s2 & Hn & Hat2 & Hf2).
  pose proof (frame_trans _ _ _ Hf1 Hf2) as Hf12.
  destruct (HKv d s2 rst) as (nv & s3 & Hk & Hev & Hat3 & Hf3).
  - lia.
  - exact Hat2.
  - exact (proj1 (simple_follow_last hdr _ v rst Hfo eq_refl)).
  - unframe. lia.
  - apply (lev_frame _ _ _ _ hdr s s2 _ _ Hf12 Hlev). lia.
  - exists (mk A C GSend [p1] [] [n; nv]), s3.
    split; [| split; [simpl; rewrite He, Hev; reflexivity |
                      split; [exact Hat3 | exact (frame_trans _ _ _ Hf12 Hf3)]]].
    unfold parse_simple_stmt. rewrite Hl. cbn [bind]. rewrite Hc1. unfold tk.
    cbn [is_assign_op check_single_expr bind]. rewrite Hn. cbn [bind]. rewrite Hk. reflexivity.
Qed.

Lemma ssp_assign : forall hdr op l r,
  (forall e, In e (l ++ r) -> KE2 hdr e) -> wf_simple2 hdr (SmAssign op l r) ->
  SSP hdr (SmAssign op l r).
Proof.
  intros hdr op l r HK (Hop & Hl & Hr & Hlen & Hwl & Hwr & Hdef) d s rst Hd Hat Hfo Hdep Hlev.
  unfold need_simple, depth_simple in *. cbn [m_simple print_simple] in Hd, Hdep, Hlev, Hat.
  change (foldl exp2 Nat.max need2) with (max2 need2) in Hd.
  change (foldl exp2 Nat.max depth2) with (max2 depth2) in Hdep, Hlev.
  assert (HKl : Forall (KE2 hdr) l).
  { apply Forall_forall. intros e He. apply HK. apply in_or_app. left; exact He. }
  assert (HKr : Forall (KE2 hdr) r).
  { apply Forall_forall. intros e He. apply HK. apply in_or_app. right; exact He. }
  destruct l as [| a l']; [exfalso; apply Hl; reflexivity |].
  destruct r as [| b r']; [exfalso; apply Hr; reflexivity |].
  rewrite <- app_assoc in Hat. simpl app in Hat.
  destruct (assign_closing op Hop) as (Hcl & Hnc).
  destruct (exprs_ok3 hdr a l' HKl d s (tk op :: commas (map print2 (b :: r')) ++ rst))
    as (nl & s1 & Hll & Hel & Hat1 & Hf1).
  { apply list_follow_lfollow. split; assumption. }
  { lia. }
  { lia. }
  { apply (lev_frame _ _ _ _ hdr s s _ _ (frame_refl s) Hlev). lia. }
  { exact Hat. }
  destruct (at_toks_cur _ _ _ Hat1) as (p1 & Hc1).
  destruct (next_toks OPS _ _ (at_toks_rest' _ _ _ Hat1)) as (s2 & Hn & Hat2 & Hf2).
  pose proof (frame_trans _ _ _ Hf1 Hf2) as Hf12.
  assert (Hrange : cur_is A G D E s2 (KKw KRange) = false).
  { destruct (first_tok_e b hdr (proj1 Hwr)) as (t & l0 & Hp & Hst).
    rewrite commas_cons2, Hp in Hat2. rewrite <- !app_assoc in Hat2. simpl in Hat2.
    rewrite (cur_is_toks _ _ _ _ Hat2). unfold start_tok in Hst. tauto. }
  assert (Hlast : last_simple (SmAssign op (a :: l') (b :: r')) = Some (lastE b r')).
  { unfold last_simple. apply last_lastE. }
  destruct (exprs_ok3 hdr b r' HKr d s2 rst (simple_follow_last hdr _ _ rst Hfo Hlast))
    as (nr & s3 & Hlr & Her & Hat3 & Hf3).
  { lia. }
  { unframe. lia. }
  { apply (lev_frame _ _ _ _ hdr s s2 _ _ Hf12 Hlev). lia. }
  { exact Hat2. }
  pose proof (frame_trans _ _ _ Hf12 Hf3) as Hf13.
  assert (Hlt : (length nl <? length nr) = false).
  { rewrite (map_erase_length2 nl _ Hel), (map_erase_length2 nr _ Her).
    apply Nat.ltb_ge. exact Hlen. }
  exists (mk A C GAssign [p1] [AOp op] [nlist nl; nlist nr]), s3.
  split; [| split; [simpl; change (fun x : nodeT => erase x) with erase; rewrite Hel, Her;
                    reflexivity |
                    split; [exact Hat3 | exact Hf13]]].
  unfold parse_simple_stmt. rewrite Hll. cbn [bind].
  rewrite Hc1. unfold tk. cbv iota. rewrite Hop. rewrite Hn. cbn [bind]. rewrite Hrange.
  cbn [andb]. cbv iota. rewrite Hlr. cbn [bind].
  destruct (assign_define2 op Hop) as [Hd' | Hd'].
  - subst op. change (op_eqb ODefine ODefine) with true. cbv iota.
    rewrite (check_assign_ok2 _ nl s3 Hel (Hdef eq_refl)). cbn [bind]. rewrite Hlt. reflexivity.
  - rewrite Hd'. cbn [bind]. rewrite Hlt. reflexivity.
Qed.

Theorem ssp_ok : SSPprov A G D C E OPS.
Proof.
  intros hdr sm HK Hwf. destruct sm as [e | op l r | op e | ch v].
  - apply ssp_expr. apply HK. left; reflexivity.
  - apply ssp_assign; assumption.
  - apply ssp_incdec; [apply HK; left; reflexivity | exact (proj1 Hwf)].
  - destruct Hwf as (Hn & _ & _).
    apply ssp_send; [apply HK; left; reflexivity | apply HK; right; left; reflexivity | exact Hn].
Qed.

(* ------------------------------------------------------------ first tokens *)

Lemma first_tok_simple : forall hdr (sm : simple2), wf_simple2 hdr sm ->
  exists t l, print_simple print2 sm = t :: l /\ start_tok t.
Proof.
  intros hdr [e | op l r | op e | ch v] Hwf; simpl in Hwf; cbn [print_simple].
  - exact (first_tok_e e hdr Hwf).
  - destruct Hwf as (_ & Hl & _ & _ & Hwl & _).
    destruct l as [| a l']; [exfalso; apply Hl; reflexivity |].
    destruct (first_tok_e a hdr (proj1 Hwl)) as (t & l0 & Hp & Hst).
    rewrite commas_cons2, Hp. simpl. eexists _, _. split; [reflexivity | exact Hst].
  - destruct (first_tok_e e hdr (proj2 Hwf)) as (t & l0 & Hp & Hst).
    rewrite Hp. simpl. eexists _, _. split; [reflexivity | exact Hst].
  - destruct Hwf as (_ & Hc & _).
    destruct (first_tok_e ch hdr Hc) as (t & l0 & Hp & Hst).
    rewrite Hp. simpl. eexists _, _. split; [reflexivity | exact Hst].
Qed.

Lemma branch_kw_tok : forall k, branch_kw k ->
  classify_stmt (kw k) = SCBranch k /\ tok_is (kw k) (KKw KCase) = false /\
  tok_is (kw k) (KKw KDefault) = false.
Proof.
  intros k [-> | [-> | [-> | ->]]]; repeat split; reflexivity.
Qed.

(* every statement prints at least one token, which is none of  }  case  default *)
Lemma first_tok_stmt : forall st, wf_stmt st ->
  exists t l, print_stmt st = t :: l /\ tok_is t (KOp OBraceRight) = false /\
    tok_is t (KKw KCase) = false /\ tok_is t (KKw KDefault) = false.
Proof.
  intros st Hwf.
  destruct st as [sm | name st | body | c | c | es | k lbl | | init cond body els | h body
                  | lhs op x body | init tag cls | init bind x cls | cls | d];
    cbn [print_stmt];
    try (eexists _, _; split; [reflexivity | repeat split; reflexivity]).
  - destruct (first_tok_simple false sm Hwf) as (t & l & Hp & Hst). rewrite Hp. simpl.
    eexists _, _. split; [reflexivity |]. unfold start_tok in Hst. tauto.
  - destruct Hwf as (Hk & _). destruct (branch_kw_tok k Hk) as (_ & H1 & H2).
    eexists _, _. split; [reflexivity |]. split; [destruct k; reflexivity |]. split; assumption.
  - destruct d as [k [|] specs]; cbn [print_decl];
      (eexists _, _; split; [reflexivity | destruct k; repeat split; reflexivity]).
Qed.

(* only the empty statement starts with ";" *)
Lemma first_tok_semi : forall st, wf_stmt st -> is_empty_stmt st = false ->
  exists t l, print_stmt st = t :: l /\ tok_is t (KOp OSemiColon) = false.
Proof.
  intros st Hwf Hne.
  destruct st as [sm | name st | body | c | c | es | k lbl | | init cond body els | h body
                  | lhs op x body | init tag cls | init bind x cls | cls | d];
    cbn [print_stmt];
    try discriminate Hne;
    try (eexists _, _; split; [reflexivity | reflexivity]).
  - destruct (first_tok_simple false sm Hwf) as (t & l & Hp & Hst). rewrite Hp. simpl.
    eexists _, _. split; [reflexivity |]. unfold start_tok in Hst. tauto.
  - destruct d as [k [|] specs]; cbn [print_decl];
      (eexists _, _; split; [reflexivity | destruct k; reflexivity]).
Qed.

Definition no_semi (rst : list token) : Prop :=
  match rst with t :: _ => tok_is t (KOp OSemiColon) = false | [] => True end.

(* in a statement list: what follows a statement does not start with ";" when
   the statement is open-ended *)
Lemma sfollow_next : forall st body rst, seq_ok (st :: body) ->
  Forall (fun st => wf_stmt st /\ SC st) body -> no_semi rst ->
  sfollow st (print_stmts body ++ rst).
Proof.
  intros st body rst Hseq Hall Hrst Hopen. destruct body as [| nxt body'].
  - exact Hrst.
  - destruct Hseq as (Hn & _). specialize (Hn Hopen).
    inversion Hall as [| ? ? (Hwf & _) _]; subst.
    destruct (first_tok_semi nxt Hwf Hn) as (t & l & Hp & Ht).
    unfold print_stmts. cbn [flat_map]. rewrite Hp. simpl. exact Ht.
Qed.

Lemma list_end_no_semi : forall rst, list_end rst -> no_semi rst.
Proof.
  intros [| t r] H; [exact I |]. destruct H as [-> | [-> | ->]]; reflexivity.
Qed.

Lemma seq_ok_tail : forall st body, seq_ok (st :: body) -> seq_ok body.
Proof. intros st body (_ & H). exact H. Qed.

Lemma unterminated_closed : forall st, terminated st = false -> open_end st = false.
Proof. intros st H. destruct st; try reflexivity. discriminate H. Qed.

(* ------------------------------------------------------------ the hub of parse_stmt *)

Lemma ms_pos : forall m st, 4 <= ms m st.
Proof.
  intros m st. destruct st; try (destruct d as [k g specs]); cbn [ms]; unfold cs; destruct m; lia.
Qed.

(* a production of parse_stmt: the body, run inside the hub *)
Definition SBP (st : stmt2) : Prop := forall d (s : pstateT) rst,
  need_stmt2 st <= S d -> at_toks s (print_stmt st ++ rst) ->
  sdepth s + depth_stmt2 st <= S MAX_NESTING -> lev false s (depth_stmt2 st) ->
  exists n s1, SB (PA d) s = Ok n s1 /\ erase n = shape_stmt st /\ at_toks s1 rst /\ frame s s1.

(* ... with the follow condition of open-ended statements *)
Definition SBPf (st : stmt2) : Prop := forall d (s : pstateT) rst,
  need_stmt2 st <= S d -> at_toks s (print_stmt st ++ rst) -> sfollow st rst ->
  sdepth s + depth_stmt2 st <= S MAX_NESTING -> lev false s (depth_stmt2 st) ->
  exists n s1, SB (PA d) s = Ok n s1 /\ erase n = shape_stmt st /\ at_toks s1 rst /\ frame s s1.

Lemma SBPf_SC : forall st, SBPf st -> SC st.
Proof.
  intros st HB d s rst Hd Hat Hfo Hdep Hlev.
  pose proof (ms_pos true st : 4 <= need_stmt2 st) as Hnp.
  pose proof (ms_pos false st : 4 <= depth_stmt2 st) as Hdp.
  destruct d as [| d0]; [lia |].
  set (s0 := upd_depth A G D E s (S (sdepth s))).
  destruct (HB d0 s0 rst) as (n & s1 & Hk & He & Hat1 & Hf1); try assumption.
  - change (sdepth s0) with (S (sdepth s)). lia.
  - exists n, (upd_depth A G D E s1 (pred (sdepth s1))).
    split.
    + change (k_stmt A G D C E (PA (S d0)) s) with (nested A G D E 142 (SB (PA d0)) s).
      apply nested_intro; [lia | exact Hk].
    + split; [exact He |]. split; [exact Hat1 |]. apply frame_nested. exact Hf1.
Qed.

Lemma SBP_SC : forall st, SBP st -> SC st.
Proof.
  intros st HB. apply SBPf_SC. intros d s rst Hd Hat _ Hdep Hlev. exact (HB d s rst Hd Hat Hdep Hlev).
Qed.

(* ------------------------------------------------------------ simple statements *)

Lemma stmt_simple_body : forall sm, SSP false sm -> wf_simple2 false sm -> SBP (StSimple sm).
Proof.
  intros sm HS Hwf d s rst Hd Hat Hdep Hlev.
  rewrite need_StSimple in Hd. rewrite depth_StSimple in Hdep, Hlev. cbn [print_stmt] in Hat.
  rewrite <- app_assoc in Hat. simpl app in Hat.
  destruct (first_tok_simple false sm Hwf) as (t & l0 & Hp & Hst).
  assert (Hc : exists pos, cur s = Some (pos, t)).
  { rewrite Hp in Hat. simpl in Hat. exact (at_toks_cur _ _ _ Hat). }
  destruct Hc as (pos & Hc).
  destruct (HS d s (tk OSemiColon :: rst)) as (n & s1 & Hk & He & Hat1 & Hf1).
  - lia.
  - exact Hat.
  - left; reflexivity.
  - lia.
  - apply (lev_frame _ _ _ _ false s s _ _ (frame_refl s) Hlev). lia.
  - destruct (skipped_yes OPS s1 _ _ (KOp OSemiColon) Hat1 eq_refl) as (s2 & Hs & Hat2 & Hf2).
    exists n, s2. split; [| split; [exact He | split; [exact Hat2 |
                                      exact (frame_trans _ _ _ Hf1 Hf2)]]].
    unfold stmt_body. rewrite Hc. rewrite (proj1 Hst). rewrite Hk. cbn [bind]. rewrite Hs.
    reflexivity.
Qed.

Theorem stmt_simple_ok : forall sm, (forall e, In e (exprs_simple sm) -> KE2 false e) ->
  wf_stmt (StSimple sm) -> SC (StSimple sm).
Proof.
  intros sm HK Hwf. apply SBP_SC. apply stmt_simple_body; [| exact Hwf].
  apply ssp_ok; assumption.
Qed.

(* ------------------------------------------------------------ labelled statements *)

(*  name : st   — the label is read by Parser::expression, the statement by
    k_stmt, then comes the skipped(";") that follows parse_simple_stmt in
    stmt_body.  When st prints without a ";" of its own (terminated st = false),
    the one printed after it is taken there; otherwise there must be none
    ([sfollow]). *)
Theorem stmt_label_ok : forall name st, KE2 false (E2Ident name) ->
  wf_stmt st -> SC st -> SC (StLabel name st).
Proof.
  intros name st HKi Hwf HS. apply SBPf_SC. intros d s rst Hd Hat Hfo Hdep Hlev.
  rewrite need_StLabel in Hd. rewrite depth_StLabel in Hdep, Hlev. cbn [print_stmt] in Hat.
  simpl app in Hat. rewrite <- app_assoc in Hat.
  set (rst' := (if terminated st then [] else [tk OSemiColon]) ++ rst) in Hat.
  destruct (at_toks_cur _ _ _ Hat) as (pos & Hc).
  destruct (exprs_ok3 false (E2Ident name) [] (Forall_cons _ HKi (Forall_nil _)) d s
              (tk OColon :: print_stmt st ++ rst'))
    as (ns & s1 & Hl & Hes & Hat1 & Hf1).
  { apply list_follow_lfollow. split; reflexivity. }
  { simpl. lia. }
  { simpl. lia. }
  { simpl. apply (lev_frame _ _ _ _ false s s _ _ (frame_refl s) Hlev). lia. }
  { exact Hat. }
  destruct (single_node2 ns _ Hes) as (n & -> & He).
  destruct (at_toks_cur _ _ _ Hat1) as (p1 & Hc1).
  destruct (next_toks OPS _ _ (at_toks_rest' _ _ _ Hat1)) as (s2 & Hn & Hat2 & Hf2).
  pose proof (frame_trans _ _ _ Hf1 Hf2) as Hf12.
  assert (Hfo' : sfollow st rst').
  { intro Hopen. unfold rst'. destruct (terminated st) eqn:Hterm.
    - exact (Hfo Hterm).
    - rewrite (unterminated_closed st Hterm) in Hopen. discriminate Hopen. }
  destruct (HS d s2 rst') as (nst & s3 & Hk & Hest & Hat3 & Hf3).
  - lia.
  - exact Hat2.
  - exact Hfo'.
  - unframe. lia.
  - apply (lev_frame _ _ _ _ false s s2 _ _ Hf12 Hlev). lia.
  - assert (Htag : is_tag GIdent n = true).
    { rewrite <- (is_tag_erase GIdent n), He. reflexivity. }
    assert (Hsk : exists b s4, skipped A G D C E OPS (KOp OSemiColon) s3 = Ok b s4 /\
                               at_toks s4 rst /\ frame s3 s4).
    { unfold rst' in Hat3. destruct (terminated st) eqn:Hterm.
      - exists false, s3. split; [| split; [exact Hat3 | apply frame_refl]].
        apply (skipped_no OPS s3 rst _ Hat3). exact (Hfo Hterm).
      - destruct (skipped_yes OPS s3 _ _ (KOp OSemiColon) Hat3 eq_refl) as (s4 & Hs & Hat4 & Hf4).
        exists true, s4. split; [exact Hs | split; [exact Hat4 | exact Hf4]]. }
    destruct Hsk as (b & s4 & Hs & Hat4 & Hf4).
    exists (mk A C GLabel [p1] [] [n; nst]), s4.
    split; [| split; [simpl; rewrite He, Hest; reflexivity |
                      split; [exact Hat4 |
                              exact (frame_trans _ _ _ (frame_trans _ _ _ Hf12 Hf3) Hf4)]]].
    unfold stmt_body. rewrite Hc. cbn [classify_stmt ident_tok].
    unfold parse_simple_stmt. rewrite Hl. cbn [bind]. rewrite Hc1. unfold tk.
    cbn [is_assign_op check_single_expr bind]. rewrite Htag. rewrite Hn. cbn [bind].
    rewrite Hk. cbn [bind]. rewrite Hs. reflexivity.
Qed.

(* ------------------------------------------------------------ go / defer *)

Theorem stmt_go_defer_ok : forall (is_go : bool) c, wf2 false c -> is_call2 c -> KE2 false c ->
  SC (if is_go then StGo c else StDefer c).
Proof.
  intros is_go c Hwf Hcall HK. apply SBP_SC. intros d s rst Hd Hat Hdep Hlev.
  assert (Hat' : at_toks s (kw (if is_go then KGo else KDefer) ::
                              print2 c ++ tk OSemiColon :: rst)).
  { destruct is_go; cbn [print_stmt] in Hat; simpl app in Hat; rewrite <- app_assoc in Hat;
      exact Hat. }
  assert (Hd' : need2 c + 2 <= d).
  { destruct is_go; [rewrite need_StGo in Hd | rewrite need_StDefer in Hd]; lia. }
  assert (Hdep' : sdepth s + depth2 c <= MAX_NESTING).
  { destruct is_go; [rewrite depth_StGo in Hdep | rewrite depth_StDefer in Hdep]; lia. }
  assert (Hlev' : lev false s (depth2 c)).
  { destruct is_go; [rewrite depth_StGo in Hlev | rewrite depth_StDefer in Hlev];
      apply (lev_frame _ _ _ _ false s s _ _ (frame_refl s) Hlev); lia. }
  destruct (at_toks_cur _ _ _ Hat') as (pos & Hc).
  destruct (expect_toks OPS s _ _ (KKw (if is_go then KGo else KDefer)) 82 Hat'
              (tok_is_kw_refl _)) as (p0 & s1 & Hx & Hat1 & Hf1).
  destruct (HK d s1 (tk OSemiColon :: rst)) as (n & s2 & Hk & He & Hat2 & Hf2).
  - exact Hd'.
  - exact Hat1.
  - apply efollow_close; reflexivity.
  - unframe. lia.
  - apply (lev_frame _ _ _ _ false s s1 _ _ Hf1 Hlev'). lia.
  - destruct (skipped_yes OPS s2 _ _ (KOp OSemiColon) Hat2 eq_refl) as (s3 & Hs & Hat3 & Hf3).
    assert (Htag : is_tag GCall n = true).
    { rewrite <- (is_tag_erase GCall n), He. destruct c; try destruct Hcall. reflexivity. }
    exists (mk A C (if is_go then GGo else GDefer) [p0] [] [n]), s3.
    split; [| split; [destruct is_go; simpl; rewrite He; reflexivity |
                      split; [exact Hat3 |
                              exact (frame_trans _ _ _ (frame_trans _ _ _ Hf1 Hf2) Hf3)]]].
    unfold stmt_body. rewrite Hc.
    assert (Hpg : parse_go_defer A G D C E OPS (PA d) is_go s =
                  Ok (mk A C (if is_go then GGo else GDefer) [p0] [] [n]) s3).
    { unfold parse_go_defer. rewrite Hx. cbn [bind]. rewrite Hk. cbn [bind]. rewrite Htag.
      rewrite Hs. reflexivity. }
    destruct is_go; cbn [classify_stmt kw]; exact Hpg.
Qed.

(* ------------------------------------------------------------ return *)

Theorem stmt_return_ok : forall es, Forall (KE2 false) es -> wf_stmt (StReturn es) ->
  SC (StReturn es).
Proof.
  intros es HK Hw. apply SBP_SC. intros d s rst Hd Hat Hdep Hlev.
  rewrite need_StReturn in Hd. rewrite depth_StReturn in Hdep, Hlev. cbn [print_stmt] in Hat.
  cbn [wf_stmt] in Hw. simpl app in Hat. rewrite <- app_assoc in Hat. simpl app in Hat.
  destruct (at_toks_cur _ _ _ Hat) as (pos & Hc).
  destruct (expect_toks OPS s _ _ (KKw KReturn) 85 Hat eq_refl) as (p0 & s1 & Hx & Hat1 & Hf1).
  destruct es as [| e r].
  - simpl in Hat1.
    destruct (skipped_yes OPS s1 _ _ (KOp OSemiColon) Hat1 eq_refl) as (s2 & Hs & Hat2 & Hf2).
    exists (mk A C GReturn [p0] [] []), s2.
    split; [| split; [reflexivity | split; [exact Hat2 | exact (frame_trans _ _ _ Hf1 Hf2)]]].
    unfold stmt_body. rewrite Hc. cbn [classify_stmt kw]. unfold parse_return_stmt.
    rewrite Hx. cbn [bind]. unfold cur_not at 1.
    rewrite (cur_is_toks _ _ _ (KOp OSemiColon) Hat1).
    change (tok_is (tk OSemiColon) (KOp OSemiColon)) with true. cbn [negb andb]. cbn [bind].
    rewrite Hs. reflexivity.
  - destruct (exprs_ok3 false e r HK d s1 (tk OSemiColon :: rst))
      as (ns & s2 & Hl & Hes & Hat2 & Hf2).
    { apply list_follow_lfollow. split; reflexivity. }
    { lia. }
    { unframe. lia. }
    { apply (lev_frame _ _ _ _ false s s1 _ _ Hf1 Hlev). lia. }
    { exact Hat1. }
    destruct (skipped_yes OPS s2 _ _ (KOp OSemiColon) Hat2 eq_refl) as (s3 & Hs & Hat3 & Hf3).
    exists (mk A C GReturn [p0] [] ns), s3.
    split; [| split; [simpl; change (fun x : nodeT => erase x) with erase; rewrite Hes;
                      reflexivity |
                      split; [exact Hat3 |
                              exact (frame_trans _ _ _ (frame_trans _ _ _ Hf1 Hf2) Hf3)]]].
    unfold stmt_body. rewrite Hc. cbn [classify_stmt kw]. unfold parse_return_stmt.
    rewrite Hx. cbn [bind].
    assert (Hnot : cur_not A G D E s1 (KOp OSemiColon) && cur_not A G D E s1 (KOp OBraceRight)
                   = true).
    { destruct (first_tok_e e false (proj1 Hw)) as (t & l0 & Hp & Hstt).
      rewrite commas_cons2, Hp in Hat1. rewrite <- !app_assoc in Hat1. simpl in Hat1.
      unfold cur_not. rewrite !(cur_is_toks _ _ _ _ Hat1).
      unfold start_tok in Hstt. destruct Hstt as (_ & H1 & H2 & _). rewrite H1, H2. reflexivity. }
    rewrite Hnot. rewrite Hl. cbn [bind]. rewrite Hs. reflexivity.
Qed.

(* ------------------------------------------------------------ break / continue / goto / fallthrough *)

Theorem stmt_branch_ok : forall k lbl, wf_stmt (StBranch k lbl) -> SC (StBranch k lbl).
Proof.
  intros k lbl (Hk & Hft). apply SBP_SC. intros d s rst Hd Hat Hdep Hlev.
  cbn [print_stmt] in Hat. simpl app in Hat.
  destruct (at_toks_cur _ _ _ Hat) as (pos & Hc).
  destruct (expect_toks OPS s _ _ (KKw k) 86 Hat (tok_is_kw_refl k)) as (p0 & s1 & Hx & Hat1 & Hf1).
  destruct lbl as [name |].
  - simpl in Hat1.
    destruct (identifier_toks OPS s1 name _ 87 Hat1) as (p & s2 & Hi & Hat2 & Hf2).
    destruct (skipped_yes OPS s2 _ _ (KOp OSemiColon) Hat2 eq_refl) as (s3 & Hs & Hat3 & Hf3).
    exists (mk A C GBranch [p0] [AKw k] [n_ident A C p name]), s3.
    split; [| split; [reflexivity |
                      split; [exact Hat3 |
                              exact (frame_trans _ _ _ (frame_trans _ _ _ Hf1 Hf2) Hf3)]]].
    unfold stmt_body. rewrite Hc. rewrite (proj1 (branch_kw_tok k Hk)).
    unfold parse_branch_stmt. rewrite Hx. cbn [bind].
    assert (Hnf : kw_eqb k KFallThrough = false).
    { destruct Hk as [-> | [-> | [-> | ->]]]; try reflexivity.
      specialize (Hft eq_refl). discriminate Hft. }
    assert (Hci : cur_is A G D E s1 (KLit LIdent) = true).
    { rewrite (cur_is_toks _ _ _ _ Hat1). reflexivity. }
    rewrite Hnf, Hci. cbn [negb andb].
    rewrite Hi. cbn [bind]. rewrite Hs. reflexivity.
  - simpl in Hat1.
    destruct (skipped_yes OPS s1 _ _ (KOp OSemiColon) Hat1 eq_refl) as (s2 & Hs & Hat2 & Hf2).
    exists (mk A C GBranch [p0] [AKw k] [@nnone A C]), s2.
    split; [| split; [reflexivity | split; [exact Hat2 | exact (frame_trans _ _ _ Hf1 Hf2)]]].
    unfold stmt_body. rewrite Hc. rewrite (proj1 (branch_kw_tok k Hk)).
    unfold parse_branch_stmt. rewrite Hx. cbn [bind].
    assert (Hci : cur_is A G D E s1 (KLit LIdent) = false).
    { rewrite (cur_is_toks _ _ _ _ Hat1). reflexivity. }
    rewrite Hci, andb_false_r. cbn [bind]. rewrite Hs. reflexivity.
Qed.

(* ------------------------------------------------------------ the empty statement *)

Theorem stmt_empty_ok : SC StEmpty.
Proof.
  apply SBP_SC. intros d s rst Hd Hat Hdep Hlev. cbn [print_stmt] in Hat. simpl app in Hat.
  destruct (at_toks_cur _ _ _ Hat) as (pos & Hc).
  destruct (next_toks OPS _ _ (at_toks_rest' _ _ _ Hat)) as (s1 & Hn & Hat1 & Hf1).
  exists (mk A C GEmpty [pos] [] []), s1.
  split; [| split; [reflexivity | split; [exact Hat1 | exact Hf1]]].
  unfold stmt_body. rewrite Hc. cbn [classify_stmt tk]. rewrite Hn. reflexivity.
Qed.

(* ------------------------------------------------------------ blocks *)

Lemma print_stmt_length : forall st, wf_stmt st -> 1 <= length (print_stmt st).
Proof.
  intros st Hwf. destruct (first_tok_stmt st Hwf) as (t & l & Hp & _). rewrite Hp. simpl. lia.
Qed.

(* the loop of parse_block_stmt: statements until "}" *)
Lemma stmts_until_brace_ok : forall body, Forall (fun st => wf_stmt st /\ SC st) body ->
  seq_ok body ->
  forall d fuel acc (s : pstateT) rst,
    max2 need_stmt2 body <= d ->
    sdepth s + max2 depth_stmt2 body <= MAX_NESTING -> lev false s (max2 depth_stmt2 body) ->
    at_toks s (print_stmts body ++ tk OBraceRight :: rst) ->
    length (print_stmts body) + 1 <= fuel ->
    exists ns s1,
      stmts_until_brace A G D C E (PA d) fuel acc s = Ok (acc ++ ns) s1 /\
      map erase ns = map shape_stmt body /\ at_toks s1 (tk OBraceRight :: rst) /\ frame s s1.
Proof.
  intros body Hall. induction Hall as [| st body (Hwf & HS) Hall IH];
    intros Hseq d fuel acc s rst Hd Hdep Hlev Hat Hfu.
  - simpl in Hat. destruct fuel as [| f]; [simpl in Hfu; lia |]. cbn [stmts_until_brace].
    rewrite (cur_is_toks _ _ _ _ Hat).
    change (tok_is (tk OBraceRight) (KOp OBraceRight)) with true. cbv iota.
    exists [], s. rewrite app_nil_r.
    split; [reflexivity |]. split; [reflexivity |]. split; [exact Hat | apply frame_refl].
  - unfold print_stmts in Hat, Hfu. cbn [flat_map] in Hat, Hfu. fold (print_stmts body) in Hat, Hfu.
    rewrite <- app_assoc in Hat. rewrite app_length in Hfu.
    pose proof (print_stmt_length st Hwf) as Hlen.
    simpl in Hd, Hdep, Hlev.
    destruct fuel as [| f]; [lia |]. cbn [stmts_until_brace].
    assert (Hnb : cur_is A G D E s (KOp OBraceRight) = false).
    { destruct (first_tok_stmt st Hwf) as (t & l & Hp & H1 & _).
      rewrite Hp in Hat. simpl in Hat. rewrite (cur_is_toks _ _ _ _ Hat). exact H1. }
    rewrite Hnb. cbv iota.
    destruct (HS d s (print_stmts body ++ tk OBraceRight :: rst)) as (n & s1 & Hk & He & Hat1 & Hf1).
    + lia.
    + exact Hat.
    + apply (sfollow_next st body _ Hseq Hall). reflexivity.
    + lia.
    + apply (lev_frame _ _ _ _ false s s _ _ (frame_refl s) Hlev). lia.
    + rewrite Hk. cbn [bind].
      destruct (IH (seq_ok_tail _ _ Hseq) d f (acc ++ [n]) s1 rst)
        as (ns & s2 & Hl & Hes & Hat2 & Hf2).
      * lia.
      * unframe. lia.
      * apply (lev_frame _ _ _ _ false s s1 _ _ Hf1 Hlev). lia.
      * exact Hat1.
      * lia.
      * exists (n :: ns), s2. split; [rewrite Hl, <- app_assoc; reflexivity |].
        split; [simpl; rewrite He, Hes; reflexivity |].
        split; [exact Hat2 | exact (frame_trans _ _ _ Hf1 Hf2)].
Qed.

(* parse_block_stmt with the bounds it really needs: it is no recursion hub,
   and its statements run one unfolding below it *)
Definition BPs (l : list stmt2) : Prop := forall d (s : pstateT) rst,
  max2 need_stmt2 l + 1 <= d -> at_toks s (print_block l ++ rst) ->
  sdepth s + max2 depth_stmt2 l <= MAX_NESTING -> levw s (2 + max2 depth_stmt2 l) ->
  exists n s1, k_block A G D C E (PA d) s = Ok n s1 /\ erase n = shape_block l /\
               at_toks s1 rst /\ frame s s1.

Theorem block_strong : forall body, Forall (fun st => wf_stmt st /\ SC st) body ->
  seq_ok body -> BPs body.
Proof.
  intros body Hall Hseq d s rst Hd Hat Hdep Hlev.
  destruct d as [| d1]; [lia |].
  change (k_block A G D C E (PA (S d1)) s) with (block_body A G D C E OPS (PA d1) s).
  unfold print_block in Hat. simpl app in Hat. rewrite <- app_assoc in Hat. simpl app in Hat.
  unfold block_body. rewrite (inc_level_ok s 79) by (destruct Hlev; lia). cbn [bind].
  set (s0 := upd_level A G D E s (S (lp s)) (ln s)).
  pose proof (levw_inc _ _ _ _ s (S (max2 depth_stmt2 body)) Hlev) as Hlev0. fold s0 in Hlev0.
  assert (Hat0 : at_toks s0 (tk OBraceLeft :: print_stmts body ++ tk OBraceRight :: rst))
    by exact Hat.
  destruct (expect_toks OPS s0 _ _ (KOp OBraceLeft) 80 Hat0 eq_refl)
    as (p0 & s2 & Hx & Hat2 & Hf2).
  rewrite Hx. cbn [bind].
  destruct (stmts_until_brace_ok body Hall Hseq d1 (loop_fuel A G D E s2) [] s2 rst)
    as (ns & s3 & Hl & Hes & Hat3 & Hf3).
  - lia.
  - destruct Hf2 as (Hd2 & _). rewrite Hd2. exact Hdep.
  - apply (lev_frame _ _ _ _ false s0 s2 _ _ Hf2 Hlev0). lia.
  - exact Hat2.
  - pose proof (loop_fuel_toks s2 _ Hat2) as H. rewrite app_length in H. lia.
  - rewrite Hl. cbn [bind app].
    assert (Hat4 : at_toks (dec_level A G D E s3) (tk OBraceRight :: rst)) by exact Hat3.
    destruct (expect_toks OPS _ _ _ (KOp OBraceRight) 81 Hat4 eq_refl)
      as (p1 & s5 & Hx5 & Hat5 & Hf5).
    rewrite Hx5. cbn [bind].
    exists (mk A C GBlock [p0; p1] [] ns), s5.
    split; [reflexivity |].
    split; [unfold shape_block; simpl; change (fun x : nodeT => erase x) with erase; rewrite Hes;
            reflexivity |].
    split; [exact Hat5 |].
    apply (frame_trans s (dec_level A G D E s3) s5); [| exact Hf5].
    apply frame_inc_dec. exact (frame_trans _ _ _ Hf2 Hf3).
Qed.

Lemma BPs_BP : forall body, BPs body -> BP body.
Proof.
  intros body HB d s rst Hd Hat Hdep Hlev. unfold need_block in Hd. unfold depth_block in Hdep, Hlev.
  apply HB; [lia | exact Hat | lia |]. destruct Hlev as (H1 & H2). split; lia.
Qed.

Theorem block_ok : BPprov A G D C E OPS.
Proof. intros body Hall Hseq. apply BPs_BP. apply block_strong; assumption. Qed.

(* a block as a statement: no ";" is taken *)
Theorem stmt_block_ok_s : forall body, BPs body -> SC (StBlock body).
Proof.
  intros body HB. apply SBP_SC. intros d s rst Hd Hat Hdep Hlev.
  rewrite need_StBlock in Hd. rewrite depth_StBlock in Hdep, Hlev.
  change (print_stmt (StBlock body)) with (print_block body) in Hat.
  assert (Hc : exists pos, cur s = Some (pos, tk OBraceLeft)).
  { unfold print_block in Hat. simpl in Hat. exact (at_toks_cur _ _ _ Hat). }
  destruct Hc as (pos & Hc).
  destruct (HB d s rst) as (n & s1 & Hk & He & Hat1 & Hf1).
  - lia.
  - exact Hat.
  - lia.
  - destruct Hlev as (H1 & H2). split; lia.
  - exists n, s1. split; [| split; [exact He | split; [exact Hat1 | exact Hf1]]].
    unfold stmt_body. rewrite Hc. cbn [classify_stmt tk]. exact Hk.
Qed.

Theorem stmt_block_ok : forall body, Forall (fun st => wf_stmt st /\ SC st) body ->
  seq_ok body -> SC (StBlock body).
Proof. intros body Hall Hseq. apply stmt_block_ok_s. apply block_strong; assumption. Qed.

(* ------------------------------------------------------------ statement lists *)

Lemma stmt_list_end_yes : forall (s : pstateT) rst, at_toks s rst -> list_end rst ->
  stmt_list_end A G D E s = true.
Proof.
  intros s rst Hat He. unfold stmt_list_end. destruct rst as [| t r].
  - destruct (at_toks_nil _ Hat) as (Hc & _). rewrite Hc. reflexivity.
  - destruct (at_toks_cur _ _ _ Hat) as (p & Hc). rewrite Hc.
    destruct He as [-> | [-> | ->]]; reflexivity.
Qed.

Lemma stmt_list_end_no : forall (s : pstateT) st rst, wf_stmt st ->
  at_toks s (print_stmt st ++ rst) -> stmt_list_end A G D E s = false.
Proof.
  intros s st rst Hwf Hat. destruct (first_tok_stmt st Hwf) as (t & l & Hp & H1 & H2 & H3).
  rewrite Hp in Hat. simpl in Hat. destruct (at_toks_cur _ _ _ Hat) as (p & Hc).
  unfold stmt_list_end. rewrite Hc.
  destruct t as [txt | k | op | lk txt]; try reflexivity.
  - destruct k; try reflexivity; discriminate.
  - destruct op; try reflexivity; discriminate.
Qed.

Lemma stmt_list_loop_ok : forall body, Forall (fun st => wf_stmt st /\ SC st) body ->
  seq_ok body ->
  forall d fuel acc (s : pstateT) rst,
    list_end rst -> max2 need_stmt2 body <= d ->
    sdepth s + max2 depth_stmt2 body <= MAX_NESTING -> lev false s (max2 depth_stmt2 body) ->
    at_toks s (print_stmts body ++ rst) ->
    length (print_stmts body) + 1 <= fuel ->
    exists ns s1,
      stmt_list_loop A G D C E (PA d) fuel acc s = Ok (acc ++ ns) s1 /\
      map erase ns = map shape_stmt body /\ at_toks s1 rst /\ frame s s1.
Proof.
  intros body Hall. induction Hall as [| st body (Hwf & HS) Hall IH];
    intros Hseq d fuel acc s rst Hend Hd Hdep Hlev Hat Hfu.
  - simpl in Hat. destruct fuel as [| f]; [simpl in Hfu; lia |]. cbn [stmt_list_loop].
    rewrite (stmt_list_end_yes s rst Hat Hend).
    exists [], s. rewrite app_nil_r.
    split; [reflexivity |]. split; [reflexivity |]. split; [exact Hat | apply frame_refl].
  - unfold print_stmts in Hat, Hfu. cbn [flat_map] in Hat, Hfu. fold (print_stmts body) in Hat, Hfu.
    rewrite <- app_assoc in Hat. rewrite app_length in Hfu.
    pose proof (print_stmt_length st Hwf) as Hlen.
    simpl in Hd, Hdep, Hlev.
    destruct fuel as [| f]; [lia |]. cbn [stmt_list_loop].
    rewrite (stmt_list_end_no s st _ Hwf Hat).
    destruct (HS d s (print_stmts body ++ rst)) as (n & s1 & Hk & He & Hat1 & Hf1).
    + lia.
    + exact Hat.
    + apply (sfollow_next st body _ Hseq Hall). apply list_end_no_semi. exact Hend.
    + lia.
    + apply (lev_frame _ _ _ _ false s s _ _ (frame_refl s) Hlev). lia.
    + rewrite Hk. cbn [bind].
      destruct (IH (seq_ok_tail _ _ Hseq) d f (acc ++ [n]) s1 rst Hend)
        as (ns & s2 & Hl & Hes & Hat2 & Hf2).
      * lia.
      * unframe. lia.
      * apply (lev_frame _ _ _ _ false s s1 _ _ Hf1 Hlev). lia.
      * exact Hat1.
      * lia.
      * exists (n :: ns), s2. split; [rewrite Hl, <- app_assoc; reflexivity |].
        split; [simpl; rewrite He, Hes; reflexivity |].
        split; [exact Hat2 | exact (frame_trans _ _ _ Hf1 Hf2)].
Qed.

Theorem stmt_list_ok : SLPprov A G D C E OPS.
Proof.
  intros body Hall Hseq d s rst Hd Hat Hend Hdep Hlev.
  unfold need_block in Hd. unfold depth_block in Hdep, Hlev.
  destruct (stmt_list_loop_ok body Hall Hseq d (loop_fuel A G D E s) [] s rst Hend)
    as (ns & s1 & Hl & Hes & Hat1 & Hf1).
  - lia.
  - lia.
  - apply (lev_frame _ _ _ _ false s s _ _ (frame_refl s) Hlev). lia.
  - exact Hat.
  - pose proof (loop_fuel_toks s _ Hat) as H. rewrite app_length in H. lia.
  - exists ns, s1. split; [exact Hl |]. split; [exact Hes |]. split; [exact Hat1 | exact Hf1].
Qed.

(* ------------------------------------------------------------ the case analysis *)

Lemma size_stmt_pos : forall st, 1 <= size_stmt st.
Proof. intro st. destruct st; try (destruct d as [k g specs]); cbn [size_stmt]; lia. Qed.

Theorem stmts1_ok : forall st, IHS (size_stmt st) -> wf_stmt st ->
  match st with
  | StSimple _ | StLabel _ _ | StBlock _ | StGo _ | StDefer _ | StReturn _ | StBranch _ _
  | StEmpty => True
  | _ => False
  end -> SC st.
Proof.
  intros st (IHe & _ & IHs & _) Hwf Hform.
  destruct st as [sm | name st | body | c | c | es | k lbl | | init cond body els | h body
                  | lhs op x body | init tag cls | init bind x cls | cls | d];
    try destruct Hform.
  - apply stmt_simple_ok; [| exact Hwf]. intros e Hin.
    apply IHe; [| exact (wf_simple_In false sm e Hwf Hin)].
    change (size_stmt (StSimple sm)) with (S (m_simple Nat.add size2 sm)).
    rewrite m_simple_add. pose proof (sum2_In _ size2 _ e Hin). lia.
  - cbn [wf_stmt] in Hwf.
    change (size_stmt (StLabel name st)) with (S (size_stmt st)) in IHe, IHs.
    pose proof (size_stmt_pos st) as Hp.
    apply stmt_label_ok; [| exact Hwf |].
    + apply IHe; [simpl; lia | exact I].
    + apply IHs; [lia | exact Hwf].
  - cbn [wf_stmt] in Hwf. destruct Hwf as (Hwf & Hseq).
    apply stmt_block_ok; [| exact Hseq]. apply Forall_forall. intros st Hin.
    pose proof (all2_In _ _ _ _ Hwf Hin) as Hw. split; [exact Hw |].
    apply IHs; [| exact Hw].
    change (size_stmt (StBlock body)) with (S (sum2 size_stmt body)).
    pose proof (sum2_In _ size_stmt _ st Hin). lia.
  - destruct Hwf as (Hw & Hcall).
    apply (stmt_go_defer_ok true c Hw Hcall). apply IHe; [| exact Hw].
    change (size_stmt (StGo c)) with (S (size2 c)). lia.
  - destruct Hwf as (Hw & Hcall).
    apply (stmt_go_defer_ok false c Hw Hcall). apply IHe; [| exact Hw].
    change (size_stmt (StDefer c)) with (S (size2 c)). lia.
  - apply stmt_return_ok; [| exact Hwf]. cbn [wf_stmt] in Hwf. apply Forall_forall. intros e Hin.
    apply IHe; [| exact (all2_In _ _ _ _ Hwf Hin)].
    change (size_stmt (StReturn es)) with (S (sum2 size2 es)).
    pose proof (sum2_In _ size2 _ e Hin). lia.
  - apply stmt_branch_ok. exact Hwf.
  - exact stmt_empty_ok.
Qed.

End S2.
